//! Line-protocol harness driving the real `coset` crate (see /verif/FORMS.md).
//!
//! Reads one operation per line on stdin, writes exactly one result line per input line on stdout.
//! Options: `--thread-stack <bytes>` runs the loop in a thread with that stack size.

mod build;
mod forms;
mod ops;
mod reg;
mod sx;

use std::io::{self, BufRead, BufWriter, Write};
use std::panic::{catch_unwind, AssertUnwindSafe};

/// Execute one (non-skip) line, appending the result to `o`; `None` means `bad-op`.
fn run_line(line: &str, o: &mut String) -> Option<()> {
    let items = sx::parse_line(line)?;
    let (op, a) = items.split_first()?;
    let op = op.atom()?;
    match op {
        "dec" | "dect" | "enc" | "enct" | "fromv" | "tov" | "chain" | "chaint" | "layer" | "time" => {
            let [t, arg] = a else { return None };
            ops::type_dispatch(op, t.atom()?, arg, o)
        }
        "bstr" => ops::op_bstr(a, o),
        "tobstr" => ops::op_tobstr(a, o),
        "isempty" => ops::op_isempty(a, o),
        "sigstruct" => ops::op_sigstruct(a, o),
        "macstruct" => ops::op_macstruct(a, o),
        "encstruct" => ops::op_encstruct(a, o),
        "tbs" | "tbsd" => ops::op_tbs(op, a, o),
        "verify" | "verifyd" | "decrypt" => ops::op_helper(op, a, o),
        "cmp" => ops::op_cmp(a, o),
        "cmpc" => ops::op_cmpc(a, o),
        "canon" => ops::op_canon(a, o),
        "iana" => reg::op_iana(a, o),
        "ianawin" => reg::op_ianawin(a, o),
        "build" => build::op_build(a, o),
        "flow" => build::op_flow(a, o),
        _ => None,
    }
}

fn main_loop() -> io::Result<()> {
    let stdin = io::stdin();
    let mut input = stdin.lock();
    let stdout = io::stdout();
    let mut out = BufWriter::with_capacity(1 << 16, stdout.lock());
    let mut raw: Vec<u8> = Vec::new();
    let mut o = String::new();
    let mut count: u64 = 0;
    loop {
        raw.clear();
        if input.read_until(b'\n', &mut raw)? == 0 {
            break;
        }
        if raw.last() == Some(&b'\n') {
            raw.pop();
            if raw.last() == Some(&b'\r') {
                raw.pop();
            }
        }
        o.clear();
        if raw.is_empty() || raw[0] == b'#' {
            o.push_str("skip");
        } else {
            match std::str::from_utf8(&raw) {
                Err(_) => o.push_str("bad-op"),
                Ok(line) => {
                    // Every call into coset has its own catch_unwind; this outer one is a last
                    // resort so that the one-line-per-line contract survives a harness bug.
                    match catch_unwind(AssertUnwindSafe(|| run_line(line, &mut o))) {
                        Ok(Some(())) => {}
                        Ok(None) => {
                            o.clear();
                            o.push_str("bad-op");
                        }
                        Err(_) => {
                            o.clear();
                            o.push_str("panic");
                        }
                    }
                }
            }
        }
        out.write_all(o.as_bytes())?;
        out.write_all(b"\n")?;
        count += 1;
        if count % 1000 == 0 {
            out.flush()?;
        }
    }
    out.flush()
}

fn main() {
    std::panic::set_hook(Box::new(|_| {}));
    let args: Vec<String> = std::env::args().skip(1).collect();
    let mut stack: Option<usize> = None;
    let mut i = 0;
    while i < args.len() {
        match args[i].as_str() {
            "--thread-stack" if i + 1 < args.len() => match args[i + 1].parse::<usize>() {
                Ok(n) => {
                    stack = Some(n);
                    i += 2;
                }
                Err(_) => {
                    eprintln!("coset-harness: bad --thread-stack value");
                    std::process::exit(2);
                }
            },
            other => {
                eprintln!("coset-harness: unknown option {other}");
                eprintln!("usage: coset-harness [--thread-stack <bytes>] < ops > results");
                std::process::exit(2);
            }
        }
    }
    let res = match stack {
        None => main_loop(),
        Some(n) => {
            match std::thread::Builder::new()
                .name("harness".into())
                .stack_size(n)
                .spawn(main_loop)
            {
                Ok(h) => h.join().unwrap_or_else(|_| {
                    Err(io::Error::new(io::ErrorKind::Other, "worker thread died"))
                }),
                Err(e) => Err(e),
            }
        }
    };
    if let Err(e) = res {
        if e.kind() != io::ErrorKind::BrokenPipe {
            eprintln!("coset-harness: {e}");
            std::process::exit(1);
        }
    }
}
