//! `build` and `flow` operations.

use crate::forms::*;
use crate::ops::{do_check, guard, kind, p_enc_ctx, Cipher, Msg, Signer};
use crate::sx::Sx;
use coset::cbor::value::Value;
use coset::cwt::{ClaimsSet, ClaimsSetBuilder, Timestamp};
use coset::iana;
use coset::{
    CoseEncrypt, CoseEncrypt0, CoseEncrypt0Builder, CoseEncryptBuilder, CoseKdfContext,
    CoseKdfContextBuilder, CoseKey, CoseKeyBuilder, CoseMac, CoseMac0, CoseMac0Builder,
    CoseMacBuilder, CoseRecipient, CoseRecipientBuilder, CoseSign, CoseSign1, CoseSign1Builder,
    CoseSignBuilder, CoseSignature, CoseSignatureBuilder, Header, HeaderBuilder, Nonce, PartyInfo,
    PartyInfoBuilder, RegisteredLabel, SuppPubInfo, SuppPubInfoBuilder,
};
use std::cell::RefCell;
use std::rc::Rc;

/// Arguments received by each closure invocation, in order.
type Log = Rc<RefCell<Vec<Vec<Vec<u8>>>>>;

/// One builder call; `Err(n)` is the error of a `try_` variant.
type Step<B> = Box<dyn FnOnce(B) -> Result<B, u32>>;
type Ctor<B> = Box<dyn FnOnce() -> B>;

fn ok<B: 'static>(f: impl FnOnce(B) -> B + 'static) -> Option<Step<B>> {
    Some(Box::new(move |b| Ok(f(b))))
}

fn tr<B: 'static>(f: impl FnOnce(B) -> Result<B, u32> + 'static) -> Option<Step<B>> {
    Some(Box::new(f))
}

/// A signer closure body: records its argument, then answers.
fn sign(log: &Log, s: &Signer, d: &[u8]) -> Result<Vec<u8>, u32> {
    log.borrow_mut().push(vec![d.to_vec()]);
    s.run(d)
}

/// A cipher closure body: records its arguments, then answers.
fn ciph(log: &Log, c: &Cipher, x: &[u8], y: &[u8]) -> Result<Vec<u8>, u32> {
    log.borrow_mut().push(vec![x.to_vec(), y.to_vec()]);
    c.run(x, y)
}

trait Bld: Sized + 'static {
    type Out: Form;
    fn new_b() -> Self;
    fn finish(self) -> Self::Out;
    /// Constructor replacing `new()`, only looked up for the first op.
    fn ctor(_name: &str, _a: &[Sx]) -> Option<Ctor<Self>> {
        None
    }
    fn step(name: &str, a: &[Sx], log: &Log) -> Option<Step<Self>>;
}

struct Plan<B> {
    ctor: Option<Ctor<B>>,
    steps: Vec<Step<B>>,
}

fn plan<B: Bld>(ops: &[Sx], log: &Log) -> Option<Plan<B>> {
    let mut p = Plan {
        ctor: None,
        steps: Vec::with_capacity(ops.len()),
    };
    for (i, op) in ops.iter().enumerate() {
        let Sx::L(l) = op else { return None };
        let (name, args) = l.split_first()?;
        let name = name.atom()?;
        if i == 0 {
            if let Some(c) = B::ctor(name, args) {
                p.ctor = Some(c);
                continue;
            }
        }
        p.steps.push(B::step(name, args, log)?);
    }
    Some(p)
}

enum Built<T> {
    Done(T),
    Panic(usize),
    Fail(usize, u32),
}

fn exec<B: Bld>(p: Plan<B>) -> Built<B::Out> {
    let mut idx = 0;
    let mut b = match p.ctor {
        Some(c) => {
            idx = 1;
            match guard(c) {
                Some(b) => b,
                None => return Built::Panic(0),
            }
        }
        None => match guard(B::new_b) {
            Some(b) => b,
            None => return Built::Panic(0),
        },
    };
    for s in p.steps {
        match guard(move || s(b)) {
            None => return Built::Panic(idx),
            Some(Err(n)) => return Built::Fail(idx, n),
            Some(Ok(nb)) => b = nb,
        }
        idx += 1;
    }
    match guard(move || b.finish()) {
        Some(x) => Built::Done(x),
        None => Built::Panic(idx),
    }
}

fn w_calls(o: &mut String, log: &Log) {
    o.push_str("(calls");
    for call in log.borrow().iter() {
        o.push_str(" (");
        for (i, arg) in call.iter().enumerate() {
            if i > 0 {
                o.push(' ');
            }
            w_bytes(o, arg);
        }
        o.push(')');
    }
    o.push(')');
}

/// Print the failure forms of the build stage; hand back the value when built.
fn w_build_failure<T>(o: &mut String, r: Built<T>, log: &Log) -> Option<T> {
    match r {
        Built::Done(x) => Some(x),
        Built::Panic(i) => {
            o.push_str("panic ");
            w_bare(o, i as u64);
            None
        }
        Built::Fail(i, n) => {
            o.push_str("fail ");
            w_bare(o, i as u64);
            o.push(' ');
            w_bare(o, n as u64);
            o.push(' ');
            w_calls(o, log);
            None
        }
    }
}

fn build<B: Bld>(ops: &[Sx], o: &mut String) -> Option<()> {
    let log: Log = Rc::new(RefCell::new(Vec::new()));
    let p = plan::<B>(ops, &log)?;
    if let Some(x) = w_build_failure(o, exec(p), &log) {
        o.push_str("ok ");
        x.print(o);
        o.push(' ');
        w_calls(o, &log);
    }
    Some(())
}

fn flow<B: Bld>(a: &[Sx], o: &mut String) -> Option<()>
where
    B::Out: Msg,
{
    let [tagged, ops, check] = a else { return None };
    let tagged = p_bool(tagged)?;
    if tagged && !<B::Out as Msg>::HAS_TAG {
        return None;
    }
    let ops = p_list(ops, "ops")?;
    let (cop, cargs) = p_list(check, "check")?.split_first()?;
    let log: Log = Rc::new(RefCell::new(Vec::new()));
    let p = plan::<B>(ops, &log)?;
    let check = <B::Out as Msg>::parse_check(cop.atom()?, cargs)?;

    let Some(m) = w_build_failure(o, exec(p), &log) else { return Some(()) };
    w_calls(o, &log);
    o.push(' ');
    let wire = match guard(move || m.to_wire(tagged)) {
        None => {
            o.push_str("panic");
            return Some(());
        }
        Some(Err(e)) => {
            o.push_str("encerr ");
            o.push_str(kind(&e));
            return Some(());
        }
        Some(Ok(w)) => w,
    };
    o.push_str("(wire ");
    w_bytes(o, &wire);
    o.push_str(") ");
    let m2 = match guard(|| <B::Out as Msg>::from_wire(&wire, tagged)) {
        None => {
            o.push_str("panic");
            return Some(());
        }
        Some(Err(e)) => {
            o.push_str("decerr ");
            o.push_str(kind(&e));
            return Some(());
        }
        Some(Ok(m2)) => m2,
    };
    do_check(&m2, &check, o);
    Some(())
}

pub fn op_build(a: &[Sx], o: &mut String) -> Option<()> {
    let (b, ops) = a.split_first()?;
    match b.atom()? {
        "HeaderBuilder" => build::<HeaderBuilder>(ops, o),
        "CoseSignatureBuilder" => build::<CoseSignatureBuilder>(ops, o),
        "CoseSignBuilder" => build::<CoseSignBuilder>(ops, o),
        "CoseSign1Builder" => build::<CoseSign1Builder>(ops, o),
        "CoseMacBuilder" => build::<CoseMacBuilder>(ops, o),
        "CoseMac0Builder" => build::<CoseMac0Builder>(ops, o),
        "CoseRecipientBuilder" => build::<CoseRecipientBuilder>(ops, o),
        "CoseEncryptBuilder" => build::<CoseEncryptBuilder>(ops, o),
        "CoseEncrypt0Builder" => build::<CoseEncrypt0Builder>(ops, o),
        "CoseKeyBuilder" => build::<CoseKeyBuilder>(ops, o),
        "ClaimsSetBuilder" => build::<ClaimsSetBuilder>(ops, o),
        "PartyInfoBuilder" => build::<PartyInfoBuilder>(ops, o),
        "SuppPubInfoBuilder" => build::<SuppPubInfoBuilder>(ops, o),
        "CoseKdfContextBuilder" => build::<CoseKdfContextBuilder>(ops, o),
        _ => None,
    }
}

pub fn op_flow(a: &[Sx], o: &mut String) -> Option<()> {
    let (b, rest) = a.split_first()?;
    match b.atom()? {
        "CoseSignBuilder" => flow::<CoseSignBuilder>(rest, o),
        "CoseSign1Builder" => flow::<CoseSign1Builder>(rest, o),
        "CoseMacBuilder" => flow::<CoseMacBuilder>(rest, o),
        "CoseMac0Builder" => flow::<CoseMac0Builder>(rest, o),
        "CoseRecipientBuilder" => flow::<CoseRecipientBuilder>(rest, o),
        "CoseEncryptBuilder" => flow::<CoseEncryptBuilder>(rest, o),
        "CoseEncrypt0Builder" => flow::<CoseEncrypt0Builder>(rest, o),
        _ => None,
    }
}

// ---------------------------------------------------------------------------------------------
// The builders

macro_rules! new_finish {
    ($out:ty) => {
        type Out = $out;
        fn new_b() -> Self {
            Self::new()
        }
        fn finish(self) -> $out {
            self.build()
        }
    };
}

impl Bld for HeaderBuilder {
    new_finish!(Header);
    fn step(name: &str, a: &[Sx], _log: &Log) -> Option<Step<Self>> {
        match (name, a) {
            ("algorithm", [x]) => {
                let v: iana::Algorithm = p_assigned(x)?;
                ok(move |b: Self| b.algorithm(v))
            }
            ("add_critical", [x]) => {
                let v: iana::HeaderParameter = p_assigned(x)?;
                ok(move |b: Self| b.add_critical(v))
            }
            ("add_critical_label", [x]) => {
                let v = RegisteredLabel::<iana::HeaderParameter>::parse(x)?;
                ok(move |b: Self| b.add_critical_label(v))
            }
            ("content_format", [x]) => {
                let v: iana::CoapContentFormat = p_assigned(x)?;
                ok(move |b: Self| b.content_format(v))
            }
            ("content_type", [x]) => {
                let v = p_text(x, b't')?;
                ok(move |b: Self| b.content_type(v))
            }
            ("key_id", [x]) => {
                let v = p_bytes(x)?;
                ok(move |b: Self| b.key_id(v))
            }
            ("iv", [x]) => {
                let v = p_bytes(x)?;
                ok(move |b: Self| b.iv(v))
            }
            ("partial_iv", [x]) => {
                let v = p_bytes(x)?;
                ok(move |b: Self| b.partial_iv(v))
            }
            ("add_counter_signature", [x]) => {
                let v = CoseSignature::parse(x)?;
                ok(move |b: Self| b.add_counter_signature(v))
            }
            ("value", [l, x]) => {
                let l = p_i64(l, b'i')?;
                let v = Value::parse(x)?;
                ok(move |b: Self| b.value(l, v))
            }
            ("text_value", [l, x]) => {
                let l = p_text(l, b't')?;
                let v = Value::parse(x)?;
                ok(move |b: Self| b.text_value(l, v))
            }
            _ => None,
        }
    }
}

impl Bld for CoseSignatureBuilder {
    new_finish!(CoseSignature);
    fn step(name: &str, a: &[Sx], _log: &Log) -> Option<Step<Self>> {
        match (name, a) {
            ("protected", [x]) => {
                let v = Header::parse(x)?;
                ok(move |b: Self| b.protected(v))
            }
            ("unprotected", [x]) => {
                let v = Header::parse(x)?;
                ok(move |b: Self| b.unprotected(v))
            }
            ("signature", [x]) => {
                let v = p_bytes(x)?;
                ok(move |b: Self| b.signature(v))
            }
            _ => None,
        }
    }
}

impl Bld for CoseSignBuilder {
    new_finish!(CoseSign);
    fn step(name: &str, a: &[Sx], log: &Log) -> Option<Step<Self>> {
        let log = log.clone();
        match (name, a) {
            ("protected", [x]) => {
                let v = Header::parse(x)?;
                ok(move |b: Self| b.protected(v))
            }
            ("unprotected", [x]) => {
                let v = Header::parse(x)?;
                ok(move |b: Self| b.unprotected(v))
            }
            ("payload", [x]) => {
                let v = p_bytes(x)?;
                ok(move |b: Self| b.payload(v))
            }
            ("add_signature", [x]) => {
                let v = CoseSignature::parse(x)?;
                ok(move |b: Self| b.add_signature(v))
            }
            ("add_created_signature", [sig, aad, s]) => {
                let sig = CoseSignature::parse(sig)?;
                let aad = p_bytes(aad)?;
                let s = Signer::parse(s)?;
                ok(move |b: Self| {
                    b.add_created_signature(sig, &aad, |d| sign(&log, &s, d).unwrap_or_default())
                })
            }
            ("add_detached_signature", [sig, p, aad, s]) => {
                let sig = CoseSignature::parse(sig)?;
                let p = p_bytes(p)?;
                let aad = p_bytes(aad)?;
                let s = Signer::parse(s)?;
                ok(move |b: Self| {
                    b.add_detached_signature(sig, &p, &aad, |d| {
                        sign(&log, &s, d).unwrap_or_default()
                    })
                })
            }
            ("try_add_created_signature", [sig, aad, s]) => {
                let sig = CoseSignature::parse(sig)?;
                let aad = p_bytes(aad)?;
                let s = Signer::parse(s)?;
                tr(move |b: Self| b.try_add_created_signature(sig, &aad, |d| sign(&log, &s, d)))
            }
            ("try_add_detached_signature", [sig, p, aad, s]) => {
                let sig = CoseSignature::parse(sig)?;
                let p = p_bytes(p)?;
                let aad = p_bytes(aad)?;
                let s = Signer::parse(s)?;
                tr(move |b: Self| {
                    b.try_add_detached_signature(sig, &p, &aad, |d| sign(&log, &s, d))
                })
            }
            _ => None,
        }
    }
}

impl Bld for CoseSign1Builder {
    new_finish!(CoseSign1);
    fn step(name: &str, a: &[Sx], log: &Log) -> Option<Step<Self>> {
        let log = log.clone();
        match (name, a) {
            ("protected", [x]) => {
                let v = Header::parse(x)?;
                ok(move |b: Self| b.protected(v))
            }
            ("unprotected", [x]) => {
                let v = Header::parse(x)?;
                ok(move |b: Self| b.unprotected(v))
            }
            ("payload", [x]) => {
                let v = p_bytes(x)?;
                ok(move |b: Self| b.payload(v))
            }
            ("signature", [x]) => {
                let v = p_bytes(x)?;
                ok(move |b: Self| b.signature(v))
            }
            ("create_signature", [aad, s]) => {
                let aad = p_bytes(aad)?;
                let s = Signer::parse(s)?;
                ok(move |b: Self| {
                    b.create_signature(&aad, |d| sign(&log, &s, d).unwrap_or_default())
                })
            }
            ("create_detached_signature", [p, aad, s]) => {
                let p = p_bytes(p)?;
                let aad = p_bytes(aad)?;
                let s = Signer::parse(s)?;
                ok(move |b: Self| {
                    b.create_detached_signature(&p, &aad, |d| sign(&log, &s, d).unwrap_or_default())
                })
            }
            ("try_create_signature", [aad, s]) => {
                let aad = p_bytes(aad)?;
                let s = Signer::parse(s)?;
                tr(move |b: Self| b.try_create_signature(&aad, |d| sign(&log, &s, d)))
            }
            ("try_create_detached_signature", [p, aad, s]) => {
                let p = p_bytes(p)?;
                let aad = p_bytes(aad)?;
                let s = Signer::parse(s)?;
                tr(move |b: Self| b.try_create_detached_signature(&p, &aad, |d| sign(&log, &s, d)))
            }
            _ => None,
        }
    }
}

impl Bld for CoseMacBuilder {
    new_finish!(CoseMac);
    fn step(name: &str, a: &[Sx], log: &Log) -> Option<Step<Self>> {
        let log = log.clone();
        match (name, a) {
            ("protected", [x]) => {
                let v = Header::parse(x)?;
                ok(move |b: Self| b.protected(v))
            }
            ("unprotected", [x]) => {
                let v = Header::parse(x)?;
                ok(move |b: Self| b.unprotected(v))
            }
            ("payload", [x]) => {
                let v = p_bytes(x)?;
                ok(move |b: Self| b.payload(v))
            }
            ("tag", [x]) => {
                let v = p_bytes(x)?;
                ok(move |b: Self| b.tag(v))
            }
            ("add_recipient", [x]) => {
                let v = CoseRecipient::parse(x)?;
                ok(move |b: Self| b.add_recipient(v))
            }
            ("create_tag", [aad, s]) => {
                let aad = p_bytes(aad)?;
                let s = Signer::parse(s)?;
                ok(move |b: Self| b.create_tag(&aad, |d| sign(&log, &s, d).unwrap_or_default()))
            }
            ("try_create_tag", [aad, s]) => {
                let aad = p_bytes(aad)?;
                let s = Signer::parse(s)?;
                tr(move |b: Self| b.try_create_tag(&aad, |d| sign(&log, &s, d)))
            }
            _ => None,
        }
    }
}

impl Bld for CoseMac0Builder {
    new_finish!(CoseMac0);
    fn step(name: &str, a: &[Sx], log: &Log) -> Option<Step<Self>> {
        let log = log.clone();
        match (name, a) {
            ("protected", [x]) => {
                let v = Header::parse(x)?;
                ok(move |b: Self| b.protected(v))
            }
            ("unprotected", [x]) => {
                let v = Header::parse(x)?;
                ok(move |b: Self| b.unprotected(v))
            }
            ("payload", [x]) => {
                let v = p_bytes(x)?;
                ok(move |b: Self| b.payload(v))
            }
            ("tag", [x]) => {
                let v = p_bytes(x)?;
                ok(move |b: Self| b.tag(v))
            }
            ("create_tag", [aad, s]) => {
                let aad = p_bytes(aad)?;
                let s = Signer::parse(s)?;
                ok(move |b: Self| b.create_tag(&aad, |d| sign(&log, &s, d).unwrap_or_default()))
            }
            ("try_create_tag", [aad, s]) => {
                let aad = p_bytes(aad)?;
                let s = Signer::parse(s)?;
                tr(move |b: Self| b.try_create_tag(&aad, |d| sign(&log, &s, d)))
            }
            _ => None,
        }
    }
}

impl Bld for CoseRecipientBuilder {
    new_finish!(CoseRecipient);
    fn step(name: &str, a: &[Sx], log: &Log) -> Option<Step<Self>> {
        let log = log.clone();
        match (name, a) {
            ("protected", [x]) => {
                let v = Header::parse(x)?;
                ok(move |b: Self| b.protected(v))
            }
            ("unprotected", [x]) => {
                let v = Header::parse(x)?;
                ok(move |b: Self| b.unprotected(v))
            }
            ("ciphertext", [x]) => {
                let v = p_bytes(x)?;
                ok(move |b: Self| b.ciphertext(v))
            }
            ("add_recipient", [x]) => {
                let v = CoseRecipient::parse(x)?;
                ok(move |b: Self| b.add_recipient(v))
            }
            ("create_ciphertext", [ec, pt, aad, c]) => {
                let ec = p_enc_ctx(ec)?;
                let pt = p_bytes(pt)?;
                let aad = p_bytes(aad)?;
                let c = Cipher::parse(c)?;
                ok(move |b: Self| {
                    b.create_ciphertext(ec, &pt, &aad, |x, y| {
                        ciph(&log, &c, x, y).unwrap_or_default()
                    })
                })
            }
            ("try_create_ciphertext", [ec, pt, aad, c]) => {
                let ec = p_enc_ctx(ec)?;
                let pt = p_bytes(pt)?;
                let aad = p_bytes(aad)?;
                let c = Cipher::parse(c)?;
                tr(move |b: Self| {
                    b.try_create_ciphertext(ec, &pt, &aad, |x, y| ciph(&log, &c, x, y))
                })
            }
            _ => None,
        }
    }
}

impl Bld for CoseEncryptBuilder {
    new_finish!(CoseEncrypt);
    fn step(name: &str, a: &[Sx], log: &Log) -> Option<Step<Self>> {
        let log = log.clone();
        match (name, a) {
            ("protected", [x]) => {
                let v = Header::parse(x)?;
                ok(move |b: Self| b.protected(v))
            }
            ("unprotected", [x]) => {
                let v = Header::parse(x)?;
                ok(move |b: Self| b.unprotected(v))
            }
            ("ciphertext", [x]) => {
                let v = p_bytes(x)?;
                ok(move |b: Self| b.ciphertext(v))
            }
            ("add_recipient", [x]) => {
                let v = CoseRecipient::parse(x)?;
                ok(move |b: Self| b.add_recipient(v))
            }
            ("create_ciphertext", [pt, aad, c]) => {
                let pt = p_bytes(pt)?;
                let aad = p_bytes(aad)?;
                let c = Cipher::parse(c)?;
                ok(move |b: Self| {
                    b.create_ciphertext(&pt, &aad, |x, y| ciph(&log, &c, x, y).unwrap_or_default())
                })
            }
            ("try_create_ciphertext", [pt, aad, c]) => {
                let pt = p_bytes(pt)?;
                let aad = p_bytes(aad)?;
                let c = Cipher::parse(c)?;
                tr(move |b: Self| b.try_create_ciphertext(&pt, &aad, |x, y| ciph(&log, &c, x, y)))
            }
            _ => None,
        }
    }
}

impl Bld for CoseEncrypt0Builder {
    new_finish!(CoseEncrypt0);
    fn step(name: &str, a: &[Sx], log: &Log) -> Option<Step<Self>> {
        let log = log.clone();
        match (name, a) {
            ("protected", [x]) => {
                let v = Header::parse(x)?;
                ok(move |b: Self| b.protected(v))
            }
            ("unprotected", [x]) => {
                let v = Header::parse(x)?;
                ok(move |b: Self| b.unprotected(v))
            }
            ("ciphertext", [x]) => {
                let v = p_bytes(x)?;
                ok(move |b: Self| b.ciphertext(v))
            }
            ("create_ciphertext", [pt, aad, c]) => {
                let pt = p_bytes(pt)?;
                let aad = p_bytes(aad)?;
                let c = Cipher::parse(c)?;
                ok(move |b: Self| {
                    b.create_ciphertext(&pt, &aad, |x, y| ciph(&log, &c, x, y).unwrap_or_default())
                })
            }
            ("try_create_ciphertext", [pt, aad, c]) => {
                let pt = p_bytes(pt)?;
                let aad = p_bytes(aad)?;
                let c = Cipher::parse(c)?;
                tr(move |b: Self| b.try_create_ciphertext(&pt, &aad, |x, y| ciph(&log, &c, x, y)))
            }
            _ => None,
        }
    }
}

impl Bld for CoseKeyBuilder {
    new_finish!(CoseKey);
    fn ctor(name: &str, a: &[Sx]) -> Option<Ctor<Self>> {
        match (name, a) {
            ("new_ec2_pub_key", [c, x, y]) => {
                let c: iana::EllipticCurve = p_assigned(c)?;
                let x = p_bytes(x)?;
                let y = p_bytes(y)?;
                Some(Box::new(move || CoseKeyBuilder::new_ec2_pub_key(c, x, y)))
            }
            ("new_ec2_pub_key_y_sign", [c, x, y]) => {
                let c: iana::EllipticCurve = p_assigned(c)?;
                let x = p_bytes(x)?;
                let y = p_bool(y)?;
                Some(Box::new(move || {
                    CoseKeyBuilder::new_ec2_pub_key_y_sign(c, x, y)
                }))
            }
            ("new_ec2_priv_key", [c, x, y, d]) => {
                let c: iana::EllipticCurve = p_assigned(c)?;
                let x = p_bytes(x)?;
                let y = p_bytes(y)?;
                let d = p_bytes(d)?;
                Some(Box::new(move || {
                    CoseKeyBuilder::new_ec2_priv_key(c, x, y, d)
                }))
            }
            ("new_symmetric_key", [k]) => {
                let k = p_bytes(k)?;
                Some(Box::new(move || CoseKeyBuilder::new_symmetric_key(k)))
            }
            ("new_okp_key", []) => Some(Box::new(CoseKeyBuilder::new_okp_key)),
            _ => None,
        }
    }
    fn step(name: &str, a: &[Sx], _log: &Log) -> Option<Step<Self>> {
        match (name, a) {
            ("kty", [x]) => {
                let v = RegisteredLabel::<iana::KeyType>::parse(x)?;
                ok(move |b: Self| b.kty(v))
            }
            ("key_id", [x]) => {
                let v = p_bytes(x)?;
                ok(move |b: Self| b.key_id(v))
            }
            ("base_iv", [x]) => {
                let v = p_bytes(x)?;
                ok(move |b: Self| b.base_iv(v))
            }
            ("key_type", [x]) => {
                let v: iana::KeyType = p_assigned(x)?;
                ok(move |b: Self| b.key_type(v))
            }
            ("algorithm", [x]) => {
                let v: iana::Algorithm = p_assigned(x)?;
                ok(move |b: Self| b.algorithm(v))
            }
            ("add_key_op", [x]) => {
                let v: iana::KeyOperation = p_assigned(x)?;
                ok(move |b: Self| b.add_key_op(v))
            }
            ("param", [l, x]) => {
                let l = p_i64(l, b'i')?;
                let v = Value::parse(x)?;
                ok(move |b: Self| b.param(l, v))
            }
            _ => None,
        }
    }
}

impl Bld for ClaimsSetBuilder {
    new_finish!(ClaimsSet);
    fn step(name: &str, a: &[Sx], _log: &Log) -> Option<Step<Self>> {
        match (name, a) {
            ("issuer", [x]) => {
                let v = p_text(x, b't')?;
                ok(move |b: Self| b.issuer(v))
            }
            ("subject", [x]) => {
                let v = p_text(x, b't')?;
                ok(move |b: Self| b.subject(v))
            }
            ("audience", [x]) => {
                let v = p_text(x, b't')?;
                ok(move |b: Self| b.audience(v))
            }
            ("expiration_time", [x]) => {
                let v = Timestamp::parse(x)?;
                ok(move |b: Self| b.expiration_time(v))
            }
            ("not_before", [x]) => {
                let v = Timestamp::parse(x)?;
                ok(move |b: Self| b.not_before(v))
            }
            ("issued_at", [x]) => {
                let v = Timestamp::parse(x)?;
                ok(move |b: Self| b.issued_at(v))
            }
            ("cwt_id", [x]) => {
                let v = p_bytes(x)?;
                ok(move |b: Self| b.cwt_id(v))
            }
            ("claim", [n, x]) => {
                let n: iana::CwtClaimName = p_assigned(n)?;
                let v = Value::parse(x)?;
                ok(move |b: Self| b.claim(n, v))
            }
            ("text_claim", [n, x]) => {
                let n = p_text(n, b't')?;
                let v = Value::parse(x)?;
                ok(move |b: Self| b.text_claim(n, v))
            }
            ("private_claim", [n, x]) => {
                let n = p_i64(n, b'i')?;
                let v = Value::parse(x)?;
                ok(move |b: Self| b.private_claim(n, v))
            }
            _ => None,
        }
    }
}

impl Bld for PartyInfoBuilder {
    new_finish!(PartyInfo);
    fn step(name: &str, a: &[Sx], _log: &Log) -> Option<Step<Self>> {
        match (name, a) {
            ("identity", [x]) => {
                let v = p_bytes(x)?;
                ok(move |b: Self| b.identity(v))
            }
            ("nonce", [x]) => {
                let v = Nonce::parse(x)?;
                ok(move |b: Self| b.nonce(v))
            }
            ("other", [x]) => {
                let v = p_bytes(x)?;
                ok(move |b: Self| b.other(v))
            }
            _ => None,
        }
    }
}

impl Bld for SuppPubInfoBuilder {
    new_finish!(SuppPubInfo);
    fn step(name: &str, a: &[Sx], _log: &Log) -> Option<Step<Self>> {
        match (name, a) {
            ("key_data_length", [x]) => {
                let v = p_u64(x, b'i')?;
                ok(move |b: Self| b.key_data_length(v))
            }
            ("protected", [x]) => {
                let v = Header::parse(x)?;
                ok(move |b: Self| b.protected(v))
            }
            ("other", [x]) => {
                let v = p_bytes(x)?;
                ok(move |b: Self| b.other(v))
            }
            _ => None,
        }
    }
}

impl Bld for CoseKdfContextBuilder {
    new_finish!(CoseKdfContext);
    fn step(name: &str, a: &[Sx], _log: &Log) -> Option<Step<Self>> {
        match (name, a) {
            ("party_u_info", [x]) => {
                let v = PartyInfo::parse(x)?;
                ok(move |b: Self| b.party_u_info(v))
            }
            ("party_v_info", [x]) => {
                let v = PartyInfo::parse(x)?;
                ok(move |b: Self| b.party_v_info(v))
            }
            ("supp_pub_info", [x]) => {
                let v = SuppPubInfo::parse(x)?;
                ok(move |b: Self| b.supp_pub_info(v))
            }
            ("algorithm", [x]) => {
                let v: iana::Algorithm = p_assigned(x)?;
                ok(move |b: Self| b.algorithm(v))
            }
            ("add_supp_priv_info", [x]) => {
                let v = p_bytes(x)?;
                ok(move |b: Self| b.add_supp_priv_info(v))
            }
            _ => None,
        }
    }
}
