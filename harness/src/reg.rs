//! Registry dispatch and the `iana` / `ianawin` operations.

use crate::forms::*;
use crate::ops::guard;
use crate::sx::{dec_i128, Sx};
use coset::iana::{EnumI64, WithPrivateRange};
use std::cell::RefCell;
use std::collections::HashMap;
use std::fmt::{Debug, Write};

/// Bind `$R` to the registry enum called `$name` and evaluate `$body` (an `Option`); `None` for an
/// unknown name.
#[macro_export]
macro_rules! with_registry {
    ($name:expr, $R:ident, $body:expr) => {
        match $name {
            "HeaderParameter" => {
                type $R = coset::iana::HeaderParameter;
                $body
            }
            "HeaderAlgorithmParameter" => {
                type $R = coset::iana::HeaderAlgorithmParameter;
                $body
            }
            "Algorithm" => {
                type $R = coset::iana::Algorithm;
                $body
            }
            "KeyParameter" => {
                type $R = coset::iana::KeyParameter;
                $body
            }
            "KeyType" => {
                type $R = coset::iana::KeyType;
                $body
            }
            "Ec2KeyParameter" => {
                type $R = coset::iana::Ec2KeyParameter;
                $body
            }
            "OkpKeyParameter" => {
                type $R = coset::iana::OkpKeyParameter;
                $body
            }
            "RsaKeyParameter" => {
                type $R = coset::iana::RsaKeyParameter;
                $body
            }
            "SymmetricKeyParameter" => {
                type $R = coset::iana::SymmetricKeyParameter;
                $body
            }
            "HssLmsKeyParameter" => {
                type $R = coset::iana::HssLmsKeyParameter;
                $body
            }
            "WalnutDsaKeyParameter" => {
                type $R = coset::iana::WalnutDsaKeyParameter;
                $body
            }
            "EllipticCurve" => {
                type $R = coset::iana::EllipticCurve;
                $body
            }
            "KeyOperation" => {
                type $R = coset::iana::KeyOperation;
                $body
            }
            "CborTag" => {
                type $R = coset::iana::CborTag;
                $body
            }
            "CoapContentFormat" => {
                type $R = coset::iana::CoapContentFormat;
                $body
            }
            "CwtClaimName" => {
                type $R = coset::iana::CwtClaimName;
                $body
            }
            _ => None,
        }
    };
}

/// As `with_registry!`, for the registries with a private range.
#[macro_export]
macro_rules! with_priv_registry {
    ($name:expr, $R:ident, $body:expr) => {
        match $name {
            "HeaderParameter" => {
                type $R = coset::iana::HeaderParameter;
                $body
            }
            "Algorithm" => {
                type $R = coset::iana::Algorithm;
                $body
            }
            "EllipticCurve" => {
                type $R = coset::iana::EllipticCurve;
                $body
            }
            "CwtClaimName" => {
                type $R = coset::iana::CwtClaimName;
                $body
            }
            _ => None,
        }
    };
}

const SCAN_LO: i64 = -70000;
const SCAN_HI: i64 = 70000;

thread_local! {
    /// registry name -> (variant name -> integer)
    static NAMES: RefCell<HashMap<&'static str, HashMap<String, i64>>> =
        RefCell::new(HashMap::new());
}

fn lookup_name<R: EnumI64 + Debug>(reg: &'static str, name: &str) -> Option<i64> {
    NAMES.with(|cell| {
        let mut m = cell.borrow_mut();
        let table = m.entry(reg).or_insert_with(|| {
            let mut t = HashMap::new();
            for i in SCAN_LO..=SCAN_HI {
                if let Some(v) = R::from_i64(i) {
                    t.insert(format!("{:?}", v), i);
                }
            }
            t
        });
        table.get(name).copied()
    })
}

fn iana_from<R: EnumI64 + Debug>(n: i64, o: &mut String) -> Option<()> {
    match guard(|| R::from_i64(n)) {
        None => o.push_str("panic"),
        Some(None) => o.push_str("none"),
        Some(Some(v)) => {
            let _ = write!(o, "(some {:?})", v);
        }
    }
    Some(())
}

fn iana_to<R: EnumI64 + Debug>(reg: &'static str, name: &str, o: &mut String) -> Option<()> {
    let i = lookup_name::<R>(reg, name)?;
    let v = R::from_i64(i)?;
    match guard(|| v.to_i64()) {
        None => o.push_str("panic"),
        Some(n) => w_int(o, 'i', n as i128),
    }
    Some(())
}

fn iana_priv<R: WithPrivateRange>(n: i64, o: &mut String) -> Option<()> {
    match guard(|| R::is_private(n)) {
        None => o.push_str("panic"),
        Some(b) => w_bool(o, b),
    }
    Some(())
}

fn hits<R: EnumI64 + Debug>(lo: i64, hi: i64, o: &mut String) -> Option<()> {
    o.push_str("(hits");
    let mut i = lo;
    while i <= hi {
        if let Some(v) = R::from_i64(i) {
            let _ = write!(o, " (i{} {:?})", i, v);
        }
        if i == i64::MAX {
            break;
        }
        i += 1;
    }
    o.push(')');
    Some(())
}

fn nprivate<R: WithPrivateRange>(lo: i64, hi: i64, o: &mut String) -> Option<()> {
    let mut n: u64 = 0;
    let mut i = lo;
    while i <= hi {
        if R::is_private(i) {
            n += 1;
        }
        if i == i64::MAX {
            break;
        }
        i += 1;
    }
    o.push_str(" (nprivate ");
    w_bare(o, n);
    o.push(')');
    Some(())
}

/// Static spelling of a registry name (key of the name cache).
fn static_name(r: &str) -> Option<&'static str> {
    const ALL: [&str; 16] = [
        "HeaderParameter",
        "HeaderAlgorithmParameter",
        "Algorithm",
        "KeyParameter",
        "KeyType",
        "Ec2KeyParameter",
        "OkpKeyParameter",
        "RsaKeyParameter",
        "SymmetricKeyParameter",
        "HssLmsKeyParameter",
        "WalnutDsaKeyParameter",
        "EllipticCurve",
        "KeyOperation",
        "CborTag",
        "CoapContentFormat",
        "CwtClaimName",
    ];
    ALL.iter().find(|n| **n == r).copied()
}

/// `iana R from i<n>` | `iana R to <Name>` | `iana R priv i<n>`
pub fn op_iana(a: &[Sx], o: &mut String) -> Option<()> {
    let [r, dir, x] = a else { return None };
    let r = static_name(r.atom()?)?;
    match dir.atom()? {
        "from" => {
            let n = p_i64(x, b'i')?;
            with_registry!(r, R, iana_from::<R>(n, o))
        }
        "to" => {
            let name = x.atom()?;
            with_registry!(r, R, iana_to::<R>(r, name, o))
        }
        "priv" => {
            let n = p_i64(x, b'i')?;
            with_priv_registry!(r, R, iana_priv::<R>(n, o))
        }
        _ => None,
    }
}

/// `ianawin R <lo> <hi>`
pub fn op_ianawin(a: &[Sx], o: &mut String) -> Option<()> {
    let [r, lo, hi] = a else { return None };
    let r = static_name(r.atom()?)?;
    let lo = i64::try_from(dec_i128(lo.atom()?)?).ok()?;
    let hi = i64::try_from(dec_i128(hi.atom()?)?).ok()?;
    if (hi as i128) - (lo as i128) > 200_000 {
        return None;
    }
    match guard(|| {
        let mut s = String::new();
        with_registry!(r, R, hits::<R>(lo, hi, &mut s))?;
        if with_priv_registry!(r, R, nprivate::<R>(lo, hi, &mut s)).is_none() {
            s.push_str(" (nprivate -)");
        }
        Some(s)
    }) {
        None => o.push_str("panic"),
        Some(s) => o.push_str(&s?),
    }
    Some(())
}
