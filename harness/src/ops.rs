//! Operations of FORMS.md section 3 other than registries, builders and flows.

use crate::forms::*;
use crate::sx::Sx;
use crate::{with_priv_registry, with_registry};
use coset::cbor::value::Value;
use coset::cwt::{ClaimsSet, Timestamp};
use coset::{
    AsCborValue, CborOrdering, CborSerializable, CoseEncrypt, CoseEncrypt0, CoseError,
    CoseKdfContext, CoseKey, CoseKeySet, CoseMac, CoseMac0, CoseRecipient, CoseSign, CoseSign1,
    CoseSignature, EncryptionContext, Header, Label, MacContext, PartyInfo, ProtectedHeader,
    RegisteredLabel, RegisteredLabelWithPrivate, SignatureContext, SuppPubInfo,
    TaggedCborSerializable,
};
use std::cell::RefCell;
use std::cmp::Ordering;
use std::panic::{catch_unwind, AssertUnwindSafe};

/// Run `f` (a call into coset), turning an unwind into `None`.
pub fn guard<R>(f: impl FnOnce() -> R) -> Option<R> {
    catch_unwind(AssertUnwindSafe(f)).ok()
}

pub fn kind(e: &CoseError) -> &'static str {
    match e {
        CoseError::DecodeFailed(_) => "Decode",
        CoseError::DuplicateMapKey => "Dup",
        CoseError::EncodeFailed => "Encode",
        CoseError::ExtraneousData => "Extra",
        CoseError::OutOfRangeIntegerValue => "Range",
        CoseError::UnexpectedItem(_, _) => "Item",
        CoseError::UnregisteredIanaValue => "Unreg",
        CoseError::UnregisteredIanaNonPrivateValue => "UnregNonPriv",
    }
}

type CRes<T> = Option<Result<T, CoseError>>;

/// Print `ok <form>` / `err K` / `panic`; hand back the value when ok.
pub fn res_with<T>(o: &mut String, r: CRes<T>, f: impl FnOnce(&mut String, &T)) -> Option<T> {
    match r {
        None => {
            o.push_str("panic");
            None
        }
        Some(Err(e)) => {
            o.push_str("err ");
            o.push_str(kind(&e));
            None
        }
        Some(Ok(x)) => {
            o.push_str("ok ");
            f(o, &x);
            Some(x)
        }
    }
}

pub fn res_form<T: Form>(o: &mut String, r: CRes<T>) -> Option<T> {
    res_with(o, r, |o, x| x.print(o))
}

pub fn res_bytes(o: &mut String, r: CRes<Vec<u8>>) -> Option<Vec<u8>> {
    res_with(o, r, |o, x| w_bytes(o, x))
}

/// `ok b<hex>` | `panic` for infallible byte producers.
fn res_plain_bytes(o: &mut String, r: Option<Vec<u8>>) {
    match r {
        None => o.push_str("panic"),
        Some(b) => {
            o.push_str("ok ");
            w_bytes(o, &b);
        }
    }
}

// ---------------------------------------------------------------------------------------------
// Codecs

fn chain<T: Form + Clone + PartialEq + 'static>(
    b: &[u8],
    o: &mut String,
    dec: fn(&[u8]) -> Result<T, CoseError>,
    enc: fn(T) -> Result<Vec<u8>, CoseError>,
) {
    let Some(x1) = res_form(o, guard(|| dec(b))) else { return };
    if !copies_agree(&x1) {
        o.clear();
        o.push_str("bad-clone");
        return;
    }
    o.push(' ');
    let Some(b1) = res_bytes(o, guard(move || enc(x1))) else { return };
    o.push(' ');
    let Some(x2) = res_form(o, guard(|| dec(&b1))) else { return };
    o.push(' ');
    res_bytes(o, guard(move || enc(x2)));
}

/// `fromv` / `tov`
fn av_codec<T: Form + AsCborValue>(op: &str, arg: &Sx, o: &mut String) -> Option<()> {
    match op {
        "fromv" => {
            let v = Value::parse(arg)?;
            res_form(o, guard(move || T::from_cbor_value(v)));
        }
        "tov" => {
            let x = T::parse(arg)?;
            res_form(o, guard(move || x.to_cbor_value()));
        }
        _ => return None,
    }
    Some(())
}

thread_local! {
    /// the value of each type decoded last (for the `clone_from` observation below)
    static LAST: std::cell::RefCell<std::collections::HashMap<std::any::TypeId, Box<dyn std::any::Any>>> = std::cell::RefCell::new(std::collections::HashMap::new());
}

/// The provided methods of `Clone` and `PartialEq` can be overridden (`clone_from`, `ne`): a copy made by either route equals its source,
/// and `!=` is the negation of `==`.  Observed on every decoded value, against the value of the same type decoded before it.
fn copies_agree<T: Form + Clone + PartialEq + 'static>(x: &T) -> bool {
    // compared through the printed form (bit-exact for floats: a NaN is not `==` to itself)
    fn show<T: Form>(x: &T) -> String {
        let mut s = String::new();
        x.print(&mut s);
        s
    }
    let ok = guard(|| {
        let sx = show(x);
        #[allow(clippy::eq_op)]
        let mut fine = show(&x.clone()) == sx && ((*x == *x) != (*x != *x));
        LAST.with(|l| {
            let mut l = l.borrow_mut();
            if let Some(prev) = l.get(&std::any::TypeId::of::<T>()).and_then(|p| p.downcast_ref::<T>()) {
                let mut y = prev.clone();
                y.clone_from(x);
                fine = fine && show(&y) == sx && ((*prev == *x) != (*prev != *x));
            }
            l.insert(std::any::TypeId::of::<T>(), Box::new(x.clone()));
        });
        fine
    });
    ok == Some(true)
}

/// `dec` / `enc` / `chain` / `layer` (+ `fromv` / `tov`)
fn codec<T: Form + CborSerializable + Clone + PartialEq + 'static>(op: &str, arg: &Sx, o: &mut String) -> Option<()> {
    match op {
        "dec" => {
            let b = p_bytes(arg)?;
            if let Some(x) = res_form(o, guard(|| T::from_slice(&b))) {
                if !copies_agree(&x) {
                    o.clear();
                    o.push_str("bad-clone");
                }
            }
        }
        "enc" => {
            let x = T::parse(arg)?;
            res_bytes(o, guard(move || x.to_vec()));
        }
        "chain" => {
            let b = p_bytes(arg)?;
            chain::<T>(&b, o, T::from_slice, T::to_vec);
        }
        "layer" => {
            let b = p_bytes(arg)?;
            // R1
            let r1 = res_form(o, guard(|| T::from_slice(&b)));
            o.push(' ');
            // R2: parse with ciborium itself (not through the crate's `read_to_value`), refuse trailing bytes, then convert
            match guard(|| {
                let mut rest: &[u8] = &b;
                let v: Value = coset::cbor::de::from_reader(&mut rest).map_err(|_| CoseError::DecodeFailed(coset::cbor::de::Error::Syntax(0)))?;
                if rest.is_empty() { Ok(v) } else { Err(CoseError::ExtraneousData) }
            }) {
                None => o.push_str("panic"),
                Some(Err(e)) => {
                    o.push_str("err ");
                    o.push_str(kind(&e));
                }
                Some(Ok(v)) => {
                    res_form(o, guard(move || T::from_cbor_value(v)));
                }
            }
            if let Some(x) = r1 {
                let y = x.clone();
                o.push(' ');
                res_bytes(o, guard(move || x.to_vec()));
                o.push(' ');
                res_bytes(
                    o,
                    guard(move || {
                        let v = y.to_cbor_value()?;
                        let mut data = Vec::new();
                        coset::cbor::ser::into_writer(&v, &mut data)?;
                        Ok(data)
                    }),
                );
            }
        }
        "time" => {
            // resource observation (C01): wall time of the typed decode, of the bare ciborium parse of the same bytes,
            // of re-encoding, and of clone + compare + drop.  `ok|err K  <dec µs> <parse µs> [<enc µs> <clone-eq-drop µs>]`
            let b = p_bytes(arg)?;
            let t0 = std::time::Instant::now();
            let r = guard(|| T::from_slice(&b));
            let t_dec = t0.elapsed().as_micros();
            let t1 = std::time::Instant::now();
            let _ = guard(|| Value::from_slice(&b));
            let t_parse = t1.elapsed().as_micros();
            match r {
                None => o.push_str("panic"),
                Some(Err(e)) => {
                    o.push_str(&format!("err {} {} {}", kind(&e), t_dec, t_parse));
                }
                Some(Ok(x)) => {
                    let t2 = std::time::Instant::now();
                    let same = {
                        let xr = &x;
                        guard(move || {
                            let y = xr.clone();
                            Ok::<bool, CoseError>(y == *xr || true)
                        })
                    };
                    let t_clone = t2.elapsed().as_micros();
                    let t3 = std::time::Instant::now();
                    let e = guard(move || x.to_vec());
                    let t_enc = t3.elapsed().as_micros();
                    let okenc = matches!(e, Some(Ok(_))) && matches!(same, Some(Ok(true)));
                    o.push_str(&format!("ok {} {} {} {} {}", t_dec, t_parse, t_enc, t_clone, if okenc { "enc-ok" } else { "enc-fail" }));
                }
            }
        }
        _ => return av_codec::<T>(op, arg, o),
    }
    Some(())
}

/// `dect` / `enct` / `chaint` (+ everything of `codec`)
fn tagged_codec<T: Form + CborSerializable + TaggedCborSerializable + Clone + PartialEq + 'static>(
    op: &str,
    arg: &Sx,
    o: &mut String,
) -> Option<()> {
    match op {
        "dect" => {
            let b = p_bytes(arg)?;
            res_form(o, guard(|| T::from_tagged_slice(&b)));
        }
        "enct" => {
            let x = T::parse(arg)?;
            res_bytes(o, guard(move || x.to_tagged_vec()));
        }
        "chaint" => {
            let b = p_bytes(arg)?;
            chain::<T>(&b, o, T::from_tagged_slice, T::to_tagged_vec);
        }
        _ => return codec::<T>(op, arg, o),
    }
    Some(())
}

pub fn type_dispatch(op: &str, t: &str, arg: &Sx, o: &mut String) -> Option<()> {
    if let Some(r) = t.strip_prefix("RegLabel:") {
        return with_registry!(r, R, codec::<RegisteredLabel<R>>(op, arg, o));
    }
    if let Some(r) = t.strip_prefix("RegLabelPriv:") {
        return with_priv_registry!(r, R, codec::<RegisteredLabelWithPrivate<R>>(op, arg, o));
    }
    match t {
        "Value" => codec::<Value>(op, arg, o),
        "Label" => codec::<Label>(op, arg, o),
        "Header" => codec::<Header>(op, arg, o),
        "ProtectedHeader" => codec::<ProtectedHeader>(op, arg, o),
        "CoseSignature" => codec::<CoseSignature>(op, arg, o),
        "CoseSign" => tagged_codec::<CoseSign>(op, arg, o),
        "CoseSign1" => tagged_codec::<CoseSign1>(op, arg, o),
        "CoseRecipient" => codec::<CoseRecipient>(op, arg, o),
        "CoseEncrypt" => tagged_codec::<CoseEncrypt>(op, arg, o),
        "CoseEncrypt0" => tagged_codec::<CoseEncrypt0>(op, arg, o),
        "CoseMac" => tagged_codec::<CoseMac>(op, arg, o),
        "CoseMac0" => tagged_codec::<CoseMac0>(op, arg, o),
        "CoseKey" => codec::<CoseKey>(op, arg, o),
        "CoseKeySet" => codec::<CoseKeySet>(op, arg, o),
        "ClaimsSet" => codec::<ClaimsSet>(op, arg, o),
        "Timestamp" => av_codec::<Timestamp>(op, arg, o),
        "PartyInfo" => codec::<PartyInfo>(op, arg, o),
        "SuppPubInfo" => codec::<SuppPubInfo>(op, arg, o),
        "CoseKdfContext" => codec::<CoseKdfContext>(op, arg, o),
        _ => None,
    }
}

pub fn op_bstr(a: &[Sx], o: &mut String) -> Option<()> {
    let [v] = a else { return None };
    let v = Value::parse(v)?;
    if let Some(x) = res_form(o, guard(move || ProtectedHeader::from_cbor_bstr(v))) {
        if !copies_agree(&x) {
            o.clear();
            o.push_str("bad-clone");
        }
    }
    Some(())
}

pub fn op_tobstr(a: &[Sx], o: &mut String) -> Option<()> {
    let [p] = a else { return None };
    let p = ProtectedHeader::parse(p)?;
    res_form(o, guard(move || p.cbor_bstr()));
    Some(())
}

pub fn op_isempty(a: &[Sx], o: &mut String) -> Option<()> {
    let [h] = a else { return None };
    let h = Header::parse(h)?;
    match guard(|| h.is_empty()) {
        None => o.push_str("panic"),
        Some(b) => w_bool(o, b),
    }
    Some(())
}

// ---------------------------------------------------------------------------------------------
// Structures

pub fn p_enc_ctx(s: &Sx) -> Option<EncryptionContext> {
    Some(match s.atom()? {
        "CoseEncrypt" => EncryptionContext::CoseEncrypt,
        "CoseEncrypt0" => EncryptionContext::CoseEncrypt0,
        "EncRecipient" => EncryptionContext::EncRecipient,
        "MacRecipient" => EncryptionContext::MacRecipient,
        "RecRecipient" => EncryptionContext::RecRecipient,
        _ => return None,
    })
}

pub fn op_sigstruct(a: &[Sx], o: &mut String) -> Option<()> {
    let [c, body, sign, aad, payload] = a else { return None };
    let ctx = match c.atom()? {
        "CoseSignature" => SignatureContext::CoseSignature,
        "CoseSign1" => SignatureContext::CoseSign1,
        "CounterSignature" => SignatureContext::CounterSignature,
        _ => return None,
    };
    let body = ProtectedHeader::parse(body)?;
    let sign = p_opt(sign, ProtectedHeader::parse)?;
    let aad = p_bytes(aad)?;
    let payload = p_bytes(payload)?;
    res_plain_bytes(
        o,
        guard(move || coset::sig_structure_data(ctx, body, sign, &aad, &payload)),
    );
    Some(())
}

pub fn op_macstruct(a: &[Sx], o: &mut String) -> Option<()> {
    let [c, p, aad, payload] = a else { return None };
    let ctx = match c.atom()? {
        "CoseMac" => MacContext::CoseMac,
        "CoseMac0" => MacContext::CoseMac0,
        _ => return None,
    };
    let p = ProtectedHeader::parse(p)?;
    let aad = p_bytes(aad)?;
    let payload = p_bytes(payload)?;
    res_plain_bytes(
        o,
        guard(move || coset::mac_structure_data(ctx, p, &aad, &payload)),
    );
    Some(())
}

pub fn op_encstruct(a: &[Sx], o: &mut String) -> Option<()> {
    let [c, p, aad] = a else { return None };
    let ctx = p_enc_ctx(c)?;
    let p = ProtectedHeader::parse(p)?;
    let aad = p_bytes(aad)?;
    res_plain_bytes(o, guard(move || coset::enc_structure_data(ctx, p, &aad)));
    Some(())
}

// ---------------------------------------------------------------------------------------------
// Closures

/// Signer / MAC closure of builders.
pub enum Signer {
    K(Vec<u8>),
    Echo,
    Fail(u32),
}

/// Cipher closure of builders and of `decrypt`.
pub enum Cipher {
    K(Vec<u8>),
    Cat,
    Fail(u32),
}

/// Verifier closure of `verify`.
pub enum Verifier {
    Ok,
    Err(u32),
}

fn p_bare_u32(s: &Sx) -> Option<u32> {
    u32::try_from(p_bare_u64(s)?).ok()
}

/// `(k b<hex>)` -> Ok(bytes), `(fail <n>)` -> Err(n)
fn p_k_or_fail(l: &[Sx]) -> Option<Result<Vec<u8>, u32>> {
    match l {
        [h, x] if is_atom(h, "k") => Some(Ok(p_bytes(x)?)),
        [h, x] if is_atom(h, "fail") => Some(Err(p_bare_u32(x)?)),
        _ => None,
    }
}

impl Signer {
    pub fn parse(s: &Sx) -> Option<Self> {
        match s {
            Sx::A("echo") => Some(Signer::Echo),
            Sx::A(_) => None,
            Sx::L(l) => Some(match p_k_or_fail(l)? {
                Ok(b) => Signer::K(b),
                Err(n) => Signer::Fail(n),
            }),
        }
    }
    pub fn run(&self, d: &[u8]) -> Result<Vec<u8>, u32> {
        match self {
            Signer::K(b) => Ok(b.clone()),
            Signer::Echo => Ok(d.to_vec()),
            Signer::Fail(n) => Err(*n),
        }
    }
}

impl Cipher {
    pub fn parse(s: &Sx) -> Option<Self> {
        match s {
            Sx::A("cat") => Some(Cipher::Cat),
            Sx::A(_) => None,
            Sx::L(l) => Some(match p_k_or_fail(l)? {
                Ok(b) => Cipher::K(b),
                Err(n) => Cipher::Fail(n),
            }),
        }
    }
    pub fn run(&self, x: &[u8], y: &[u8]) -> Result<Vec<u8>, u32> {
        match self {
            Cipher::K(b) => Ok(b.clone()),
            Cipher::Cat => {
                let mut v = Vec::with_capacity(x.len() + y.len());
                v.extend_from_slice(x);
                v.extend_from_slice(y);
                Ok(v)
            }
            Cipher::Fail(n) => Err(*n),
        }
    }
}

impl Verifier {
    pub fn parse(s: &Sx) -> Option<Self> {
        let a = s.atom()?;
        if a == "vok" {
            return Some(Verifier::Ok);
        }
        let n = crate::sx::dec_u64(a.strip_prefix("verr")?)?;
        Some(Verifier::Err(u32::try_from(n).ok()?))
    }
    pub fn run(&self) -> Result<(), u32> {
        match self {
            Verifier::Ok => Ok(()),
            Verifier::Err(n) => Err(*n),
        }
    }
}

// ---------------------------------------------------------------------------------------------
// Message helpers

/// A parsed `verify` / `verifyd` / `decrypt` request (without the message itself).
pub enum Check {
    Verify {
        which: Option<usize>,
        payload: Option<Vec<u8>>,
        aad: Vec<u8>,
        v: Verifier,
    },
    Decrypt {
        ctx: Option<EncryptionContext>,
        aad: Vec<u8>,
        c: Cipher,
    },
}

pub enum Ret {
    Unit(Result<(), u32>),
    Bytes(Result<Vec<u8>, u32>),
}

/// What the closure received.
pub type Rec = RefCell<Option<(Vec<u8>, Vec<u8>)>>;

fn p_which(s: &Sx) -> Option<usize> {
    usize::try_from(p_bare_u64(s)?).ok()
}

fn verify_plain(op: &str, a: &[Sx]) -> Option<Check> {
    match (op, a) {
        ("verify", [aad, v]) => Some(Check::Verify {
            which: None,
            payload: None,
            aad: p_bytes(aad)?,
            v: Verifier::parse(v)?,
        }),
        _ => None,
    }
}

fn decrypt_plain(op: &str, a: &[Sx]) -> Option<Check> {
    match (op, a) {
        ("decrypt", [aad, c]) => Some(Check::Decrypt {
            ctx: None,
            aad: p_bytes(aad)?,
            c: Cipher::parse(c)?,
        }),
        _ => None,
    }
}

/// The seven message types that have a verify / decrypt helper.
pub trait Msg: Form + CborSerializable {
    const HAS_TAG: bool;
    fn parse_check(op: &str, a: &[Sx]) -> Option<Check>;
    /// Calls into coset: run under `guard`.
    fn run_check(&self, c: &Check, rec: &Rec) -> Ret;
    fn to_wire(self, tagged: bool) -> Result<Vec<u8>, CoseError>;
    fn from_wire(b: &[u8], tagged: bool) -> Result<Self, CoseError>;
}

macro_rules! wire_tagged {
    () => {
        const HAS_TAG: bool = true;
        fn to_wire(self, tagged: bool) -> Result<Vec<u8>, CoseError> {
            if tagged {
                self.to_tagged_vec()
            } else {
                self.to_vec()
            }
        }
        fn from_wire(b: &[u8], tagged: bool) -> Result<Self, CoseError> {
            if tagged {
                Self::from_tagged_slice(b)
            } else {
                Self::from_slice(b)
            }
        }
    };
}

fn ver<'x>(rec: &'x Rec, v: &'x Verifier) -> impl FnOnce(&[u8], &[u8]) -> Result<(), u32> + 'x {
    move |x, y| {
        *rec.borrow_mut() = Some((x.to_vec(), y.to_vec()));
        v.run()
    }
}

fn cip<'x>(rec: &'x Rec, c: &'x Cipher) -> impl FnOnce(&[u8], &[u8]) -> Result<Vec<u8>, u32> + 'x {
    move |x, y| {
        *rec.borrow_mut() = Some((x.to_vec(), y.to_vec()));
        c.run(x, y)
    }
}

impl Msg for CoseSign1 {
    wire_tagged!();
    fn parse_check(op: &str, a: &[Sx]) -> Option<Check> {
        match (op, a) {
            ("verifyd", [p, aad, v]) => Some(Check::Verify {
                which: None,
                payload: Some(p_bytes(p)?),
                aad: p_bytes(aad)?,
                v: Verifier::parse(v)?,
            }),
            _ => verify_plain(op, a),
        }
    }
    fn run_check(&self, c: &Check, rec: &Rec) -> Ret {
        match c {
            Check::Verify { payload: None, aad, v, .. } => {
                Ret::Unit(self.verify_signature(aad, ver(rec, v)))
            }
            Check::Verify { payload: Some(p), aad, v, .. } => {
                Ret::Unit(self.verify_detached_signature(p, aad, ver(rec, v)))
            }
            Check::Decrypt { .. } => unreachable!(),
        }
    }
}

impl Msg for CoseSign {
    wire_tagged!();
    fn parse_check(op: &str, a: &[Sx]) -> Option<Check> {
        match (op, a) {
            ("verify", [i, aad, v]) => Some(Check::Verify {
                which: Some(p_which(i)?),
                payload: None,
                aad: p_bytes(aad)?,
                v: Verifier::parse(v)?,
            }),
            ("verifyd", [i, p, aad, v]) => Some(Check::Verify {
                which: Some(p_which(i)?),
                payload: Some(p_bytes(p)?),
                aad: p_bytes(aad)?,
                v: Verifier::parse(v)?,
            }),
            _ => None,
        }
    }
    fn run_check(&self, c: &Check, rec: &Rec) -> Ret {
        match c {
            Check::Verify { which: Some(i), payload: None, aad, v } => {
                Ret::Unit(self.verify_signature(*i, aad, ver(rec, v)))
            }
            Check::Verify { which: Some(i), payload: Some(p), aad, v } => {
                Ret::Unit(self.verify_detached_signature(*i, p, aad, ver(rec, v)))
            }
            _ => unreachable!(),
        }
    }
}

impl Msg for CoseMac {
    wire_tagged!();
    fn parse_check(op: &str, a: &[Sx]) -> Option<Check> {
        verify_plain(op, a)
    }
    fn run_check(&self, c: &Check, rec: &Rec) -> Ret {
        match c {
            Check::Verify { aad, v, .. } => Ret::Unit(self.verify_tag(aad, ver(rec, v))),
            Check::Decrypt { .. } => unreachable!(),
        }
    }
}

impl Msg for CoseMac0 {
    wire_tagged!();
    fn parse_check(op: &str, a: &[Sx]) -> Option<Check> {
        verify_plain(op, a)
    }
    fn run_check(&self, c: &Check, rec: &Rec) -> Ret {
        match c {
            Check::Verify { aad, v, .. } => Ret::Unit(self.verify_tag(aad, ver(rec, v))),
            Check::Decrypt { .. } => unreachable!(),
        }
    }
}

impl Msg for CoseEncrypt {
    wire_tagged!();
    fn parse_check(op: &str, a: &[Sx]) -> Option<Check> {
        decrypt_plain(op, a)
    }
    fn run_check(&self, c: &Check, rec: &Rec) -> Ret {
        match c {
            Check::Decrypt { aad, c, .. } => Ret::Bytes(self.decrypt(aad, cip(rec, c))),
            Check::Verify { .. } => unreachable!(),
        }
    }
}

impl Msg for CoseEncrypt0 {
    wire_tagged!();
    fn parse_check(op: &str, a: &[Sx]) -> Option<Check> {
        decrypt_plain(op, a)
    }
    fn run_check(&self, c: &Check, rec: &Rec) -> Ret {
        match c {
            Check::Decrypt { aad, c, .. } => Ret::Bytes(self.decrypt(aad, cip(rec, c))),
            Check::Verify { .. } => unreachable!(),
        }
    }
}

impl Msg for CoseRecipient {
    const HAS_TAG: bool = false;
    fn to_wire(self, _tagged: bool) -> Result<Vec<u8>, CoseError> {
        self.to_vec()
    }
    fn from_wire(b: &[u8], _tagged: bool) -> Result<Self, CoseError> {
        Self::from_slice(b)
    }
    fn parse_check(op: &str, a: &[Sx]) -> Option<Check> {
        match (op, a) {
            ("decrypt", [ec, aad, c]) => Some(Check::Decrypt {
                ctx: Some(p_enc_ctx(ec)?),
                aad: p_bytes(aad)?,
                c: Cipher::parse(c)?,
            }),
            _ => None,
        }
    }
    fn run_check(&self, c: &Check, rec: &Rec) -> Ret {
        match c {
            Check::Decrypt { ctx: Some(ctx), aad, c } => {
                Ret::Bytes(self.decrypt(*ctx, aad, cip(rec, c)))
            }
            _ => unreachable!(),
        }
    }
}

/// Run the helper and print `(called …) (ret …)` or `panic`.
pub fn do_check<M: Msg>(m: &M, c: &Check, o: &mut String) {
    let rec: Rec = RefCell::new(None);
    match guard(|| m.run_check(c, &rec)) {
        None => o.push_str("panic"),
        Some(ret) => {
            o.push_str("(called");
            if let Some((x, y)) = rec.borrow().as_ref() {
                o.push(' ');
                w_bytes(o, x);
                o.push(' ');
                w_bytes(o, y);
            }
            o.push_str(") (ret ");
            match ret {
                Ret::Unit(Ok(())) => o.push_str("ok"),
                Ret::Bytes(Ok(b)) => {
                    o.push_str("ok ");
                    w_bytes(o, &b);
                }
                Ret::Unit(Err(n)) | Ret::Bytes(Err(n)) => {
                    o.push_str("err ");
                    w_bare(o, n as u64);
                }
            }
            o.push(')');
        }
    }
}

fn helper<M: Msg>(op: &str, a: &[Sx], o: &mut String) -> Option<()> {
    let (m, rest) = a.split_first()?;
    let m = M::parse(m)?;
    let c = M::parse_check(op, rest)?;
    do_check(&m, &c, o);
    Some(())
}

/// `verify` / `verifyd` / `decrypt`
pub fn op_helper(op: &str, a: &[Sx], o: &mut String) -> Option<()> {
    let (k, rest) = a.split_first()?;
    match k.atom()? {
        "sign1" => helper::<CoseSign1>(op, rest, o),
        "sign" => helper::<CoseSign>(op, rest, o),
        "mac" => helper::<CoseMac>(op, rest, o),
        "mac0" => helper::<CoseMac0>(op, rest, o),
        "enc" => helper::<CoseEncrypt>(op, rest, o),
        "enc0" => helper::<CoseEncrypt0>(op, rest, o),
        "rcp" => helper::<CoseRecipient>(op, rest, o),
        _ => None,
    }
}

/// `tbs` / `tbsd`
pub fn op_tbs(op: &str, a: &[Sx], o: &mut String) -> Option<()> {
    let (k, rest) = a.split_first()?;
    let r = match (op, k.atom()?, rest) {
        ("tbs", "sign1", [m, aad]) => {
            let m = CoseSign1::parse(m)?;
            let aad = p_bytes(aad)?;
            guard(|| m.tbs_data(&aad))
        }
        ("tbsd", "sign1", [m, p, aad]) => {
            let m = CoseSign1::parse(m)?;
            let p = p_bytes(p)?;
            let aad = p_bytes(aad)?;
            guard(|| m.tbs_detached_data(&p, &aad))
        }
        ("tbs", "sign", [m, aad, sig]) => {
            let m = CoseSign::parse(m)?;
            let aad = p_bytes(aad)?;
            let sig = CoseSignature::parse(sig)?;
            guard(|| m.tbs_data(&aad, &sig))
        }
        ("tbsd", "sign", [m, p, aad, sig]) => {
            let m = CoseSign::parse(m)?;
            let p = p_bytes(p)?;
            let aad = p_bytes(aad)?;
            let sig = CoseSignature::parse(sig)?;
            guard(|| m.tbs_detached_data(&p, &aad, &sig))
        }
        _ => return None,
    };
    res_plain_bytes(o, r);
    Some(())
}

// ---------------------------------------------------------------------------------------------
// Ordering

fn w_ord(o: &mut String, x: Ordering) {
    o.push_str(match x {
        Ordering::Less => "lt",
        Ordering::Equal => "eq",
        Ordering::Greater => "gt",
    });
}

fn cmp_t<T: Form + Ord + Clone>(a: &Sx, b: &Sx, o: &mut String) -> Option<()> {
    let a = T::parse(a)?;
    let b = T::parse(b)?;
    match guard(|| (a.cmp(&b), a == b, b.cmp(&a), a.partial_cmp(&b), [a < b, a <= b, a > b, a >= b, a != b], a.clone().max(b.clone()), a.clone().min(b.clone()), {
        // `clamp` too: within the range spanned by the two (ordered by `cmp`) each stays what it is, and the bounds clamp to themselves
        let (lo, hi) = if a.cmp(&b) == Ordering::Greater { (b.clone(), a.clone()) } else { (a.clone(), b.clone()) };
        a.clone().clamp(lo.clone(), hi.clone()) == a && b.clone().clamp(lo.clone(), hi.clone()) == b && a.clone().clamp(hi.clone(), hi.clone()) == hi && b.clone().clamp(lo.clone(), lo.clone()) == lo
    })) {
        None => o.push_str("panic"),
        Some((ab, eq, ba, pc, rel, mx, mn, clamp_ok)) => {
            // `max` / `min` are provided methods of `Ord` that an impl can override: they must pick by `cmp`
            let (want_mx, want_mn) = if ab == Ordering::Greater { (&a, &b) } else { (&b, &a) };
            let pc = if mx == *want_mx && mn == *want_mn && clamp_ok { pc } else { None };
            // the comparison operators and `!=` are methods of their own (`lt`, `le`, `gt`, `ge`, `ne` can be overridden): each must
            // say what `cmp` / `==` say
            let want = [ab == Ordering::Less, ab != Ordering::Greater, ab == Ordering::Greater, ab != Ordering::Less, !eq];
            if pc != Some(ab) || rel != want {
                o.push_str("bad-partial");
            } else {
                w_ord(o, ab);
                o.push(' ');
                w_bool(o, eq);
                o.push(' ');
                w_ord(o, ba);
            }
        }
    }
    Some(())
}

pub fn op_cmp(args: &[Sx], o: &mut String) -> Option<()> {
    let [k, a, b] = args else { return None };
    let k = k.atom()?;
    if let Some(r) = k.strip_prefix("RegLabel:") {
        return with_registry!(r, R, cmp_t::<RegisteredLabel<R>>(a, b, o));
    }
    if let Some(r) = k.strip_prefix("RegLabelPriv:") {
        return with_priv_registry!(r, R, cmp_t::<RegisteredLabelWithPrivate<R>>(a, b, o));
    }
    if k == "Label" {
        return cmp_t::<Label>(a, b, o);
    }
    None
}

pub fn op_cmpc(args: &[Sx], o: &mut String) -> Option<()> {
    let [a, b] = args else { return None };
    let a = Label::parse(a)?;
    let b = Label::parse(b)?;
    match guard(|| a.cmp_canonical(&b)) {
        None => o.push_str("panic"),
        Some(x) => w_ord(o, x),
    }
    Some(())
}

pub fn op_canon(args: &[Sx], o: &mut String) -> Option<()> {
    let [k, key] = args else { return None };
    let ordering = match k.atom()? {
        "lex" => CborOrdering::Lexicographic,
        "len" => CborOrdering::LengthFirstLexicographic,
        _ => return None,
    };
    let mut key = CoseKey::parse(key)?;
    match guard(|| key.canonicalize(ordering)) {
        None => o.push_str("panic"),
        Some(()) => {
            o.push_str("ok ");
            key.print(o);
        }
    }
    Some(())
}
