//! Canonical text forms (FORMS.md section 2): parsing into and printing from the real coset types.

use crate::sx::{dec_i128, dec_u64, hex_into, unhex, Sx};
use coset::cbor::value::{Integer, Value};
use coset::cwt::{ClaimName, ClaimsSet, Timestamp};
use coset::iana::{self, EnumI64, WithPrivateRange};
use coset::{
    Algorithm, CoseEncrypt, CoseEncrypt0, CoseKdfContext, CoseKey, CoseKeySet, CoseMac, CoseMac0,
    CoseRecipient, CoseSign, CoseSign1, CoseSignature, Header, Label, Nonce, PartyInfo,
    ProtectedHeader, RegisteredLabel, RegisteredLabelWithPrivate, SuppPubInfo,
};
use std::collections::BTreeSet;
use std::fmt::Write;

/// A type with a canonical text form.
pub trait Form: Sized {
    fn parse(s: &Sx) -> Option<Self>;
    fn print(&self, o: &mut String);
}

// ---------------------------------------------------------------------------------------------
// Atom level helpers

/// Atom starting with the ASCII byte `c`; returns the remainder.
pub fn atom_rest<'a>(s: &Sx<'a>, c: u8) -> Option<&'a str> {
    let a = s.atom()?;
    if a.as_bytes().first() == Some(&c) {
        Some(&a[1..])
    } else {
        None
    }
}

pub fn is_atom(s: &Sx, a: &str) -> bool {
    matches!(s, Sx::A(x) if *x == a)
}

/// `b<hex>`
pub fn p_bytes(s: &Sx) -> Option<Vec<u8>> {
    unhex(atom_rest(s, b'b')?)
}

/// `<c><hex of UTF-8>`
pub fn p_text(s: &Sx, c: u8) -> Option<String> {
    String::from_utf8(unhex(atom_rest(s, c)?)?).ok()
}

/// `<c><dec>` as i64
pub fn p_i64(s: &Sx, c: u8) -> Option<i64> {
    i64::try_from(dec_i128(atom_rest(s, c)?)?).ok()
}

/// `<c><dec>` as u64
pub fn p_u64(s: &Sx, c: u8) -> Option<u64> {
    u64::try_from(dec_i128(atom_rest(s, c)?)?).ok()
}

/// bare unsigned decimal atom
pub fn p_bare_u64(s: &Sx) -> Option<u64> {
    dec_u64(s.atom()?)
}

/// exactly 16 lower-case hex digits -> f64 by bit pattern
pub fn f64_of_hex(h: &str) -> Option<f64> {
    if h.len() != 16 {
        return None;
    }
    let b = unhex(h)?;
    let mut a = [0u8; 8];
    a.copy_from_slice(&b);
    Some(f64::from_bits(u64::from_be_bytes(a)))
}

/// `-` or something parsed by `f`
pub fn p_opt<T>(s: &Sx, f: impl FnOnce(&Sx) -> Option<T>) -> Option<Option<T>> {
    if is_atom(s, "-") {
        Some(None)
    } else {
        f(s).map(Some)
    }
}

/// `T` | `F`
pub fn p_bool(s: &Sx) -> Option<bool> {
    match s.atom()? {
        "T" => Some(true),
        "F" => Some(false),
        _ => None,
    }
}

/// List whose first item is the atom `head`; returns the remaining items.
pub fn p_list<'a, 'b>(s: &'b Sx<'a>, head: &str) -> Option<&'b [Sx<'a>]> {
    match s {
        Sx::L(l) => match l.split_first() {
            Some((h, rest)) if is_atom(h, head) => Some(rest),
            _ => None,
        },
        Sx::A(_) => None,
    }
}

/// As `p_list`, with exactly `n` remaining items.
pub fn p_list_n<'a, 'b>(s: &'b Sx<'a>, head: &str, n: usize) -> Option<&'b [Sx<'a>]> {
    let l = p_list(s, head)?;
    if l.len() == n {
        Some(l)
    } else {
        None
    }
}

fn p_many<T: Form>(items: &[Sx]) -> Option<Vec<T>> {
    // Plain loop (not `collect`): fewer stack frames per nesting level in debug builds.
    let mut v = Vec::with_capacity(items.len());
    for i in items {
        v.push(T::parse(i)?);
    }
    Some(v)
}

fn p_pairs<K: Form, V: Form>(items: &[Sx]) -> Option<Vec<(K, V)>> {
    if items.len() % 2 != 0 {
        return None;
    }
    let mut v = Vec::with_capacity(items.len() / 2);
    for kv in items.chunks_exact(2) {
        v.push((K::parse(&kv[0])?, V::parse(&kv[1])?));
    }
    Some(v)
}

pub fn w_bytes(o: &mut String, b: &[u8]) {
    o.push('b');
    hex_into(o, b);
}

pub fn w_text(o: &mut String, c: char, t: &str) {
    o.push(c);
    hex_into(o, t.as_bytes());
}

pub fn w_int(o: &mut String, c: char, n: i128) {
    o.push(c);
    let _ = write!(o, "{}", n);
}

pub fn w_bare(o: &mut String, n: u64) {
    let _ = write!(o, "{}", n);
}

pub fn w_f64(o: &mut String, c: char, f: f64) {
    o.push(c);
    let _ = write!(o, "{:016x}", f.to_bits());
}

pub fn w_bool(o: &mut String, b: bool) {
    o.push(if b { 'T' } else { 'F' });
}

fn w_opt<T>(o: &mut String, x: &Option<T>, f: impl FnOnce(&mut String, &T)) {
    match x {
        None => o.push('-'),
        Some(x) => f(o, x),
    }
}

fn w_opt_bytes(o: &mut String, x: &Option<Vec<u8>>) {
    w_opt(o, x, |o, b| w_bytes(o, b));
}

fn w_opt_text(o: &mut String, x: &Option<String>) {
    w_opt(o, x, |o, t| w_text(o, 't', t));
}

fn w_opt_form<T: Form>(o: &mut String, x: &Option<T>) {
    w_opt(o, x, |o, v| v.print(o));
}

/// `(head item item …)`
fn w_seq<'x, T: Form + 'x>(o: &mut String, head: &str, items: impl IntoIterator<Item = &'x T>) {
    o.push('(');
    o.push_str(head);
    for i in items {
        o.push(' ');
        i.print(o);
    }
    o.push(')');
}

/// `(head k v k v …)`
fn w_pairs<K: Form, V: Form>(o: &mut String, head: &str, items: &[(K, V)]) {
    o.push('(');
    o.push_str(head);
    for (k, v) in items {
        o.push(' ');
        k.print(o);
        o.push(' ');
        v.print(o);
    }
    o.push(')');
}

// ---------------------------------------------------------------------------------------------
// Value

impl Form for Value {
    fn parse(s: &Sx) -> Option<Self> {
        match s {
            Sx::A(a) => {
                match *a {
                    "T" => return Some(Value::Bool(true)),
                    "F" => return Some(Value::Bool(false)),
                    "N" => return Some(Value::Null),
                    _ => {}
                }
                let c = *a.as_bytes().first()?;
                if !c.is_ascii() {
                    return None;
                }
                let rest = &a[1..];
                match c {
                    b'i' => {
                        let n = dec_i128(rest)?;
                        Some(Value::Integer(Integer::try_from(n).ok()?))
                    }
                    b'b' => Some(Value::Bytes(unhex(rest)?)),
                    b't' => Some(Value::Text(String::from_utf8(unhex(rest)?).ok()?)),
                    b'f' => Some(Value::Float(f64_of_hex(rest)?)),
                    _ => None,
                }
            }
            Sx::L(l) => {
                let (h, rest) = l.split_first()?;
                match h.atom()? {
                    "tag" => {
                        if rest.len() != 2 {
                            return None;
                        }
                        let n = p_bare_u64(&rest[0])?;
                        Some(Value::Tag(n, Box::new(Value::parse(&rest[1])?)))
                    }
                    "arr" => Some(Value::Array(p_many(rest)?)),
                    "map" => Some(Value::Map(p_pairs(rest)?)),
                    _ => None,
                }
            }
        }
    }

    fn print(&self, o: &mut String) {
        match self {
            Value::Integer(i) => w_int(o, 'i', i128::from(*i)),
            Value::Bytes(b) => w_bytes(o, b),
            Value::Float(f) => w_f64(o, 'f', *f),
            Value::Text(t) => w_text(o, 't', t),
            Value::Bool(b) => w_bool(o, *b),
            Value::Null => o.push('N'),
            Value::Tag(n, v) => {
                o.push_str("(tag ");
                w_bare(o, *n);
                o.push(' ');
                v.print(o);
                o.push(')');
            }
            Value::Array(a) => w_seq(o, "arr", a),
            Value::Map(m) => w_pairs(o, "map", m),
            _ => o.push('?'),
        }
    }
}

// ---------------------------------------------------------------------------------------------
// Labels

impl Form for Label {
    fn parse(s: &Sx) -> Option<Self> {
        match s.atom()?.as_bytes().first()? {
            b'i' => Some(Label::Int(p_i64(s, b'i')?)),
            b't' => Some(Label::Text(p_text(s, b't')?)),
            _ => None,
        }
    }
    fn print(&self, o: &mut String) {
        match self {
            Label::Int(i) => w_int(o, 'i', *i as i128),
            Label::Text(t) => w_text(o, 't', t),
        }
    }
}

/// `A<n>`: the variant of `R` whose integer is n.
pub fn p_assigned<R: EnumI64>(s: &Sx) -> Option<R> {
    R::from_i64(p_i64(s, b'A')?)
}

impl<R: EnumI64> Form for RegisteredLabel<R> {
    fn parse(s: &Sx) -> Option<Self> {
        match s.atom()?.as_bytes().first()? {
            b'A' => Some(RegisteredLabel::Assigned(p_assigned(s)?)),
            b'X' => Some(RegisteredLabel::Text(p_text(s, b'X')?)),
            _ => None,
        }
    }
    fn print(&self, o: &mut String) {
        match self {
            RegisteredLabel::Assigned(a) => w_int(o, 'A', a.to_i64() as i128),
            RegisteredLabel::Text(t) => w_text(o, 'X', t),
        }
    }
}

impl<R: EnumI64 + WithPrivateRange> Form for RegisteredLabelWithPrivate<R> {
    fn parse(s: &Sx) -> Option<Self> {
        match s.atom()?.as_bytes().first()? {
            b'A' => Some(RegisteredLabelWithPrivate::Assigned(p_assigned(s)?)),
            b'P' => Some(RegisteredLabelWithPrivate::PrivateUse(p_i64(s, b'P')?)),
            b'X' => Some(RegisteredLabelWithPrivate::Text(p_text(s, b'X')?)),
            _ => None,
        }
    }
    fn print(&self, o: &mut String) {
        match self {
            RegisteredLabelWithPrivate::Assigned(a) => w_int(o, 'A', a.to_i64() as i128),
            RegisteredLabelWithPrivate::PrivateUse(i) => w_int(o, 'P', *i as i128),
            RegisteredLabelWithPrivate::Text(t) => w_text(o, 'X', t),
        }
    }
}

// ---------------------------------------------------------------------------------------------
// Headers

impl Form for Header {
    fn parse(s: &Sx) -> Option<Self> {
        let l = p_list_n(s, "hdr", 8)?;
        Some(Header {
            alg: p_opt(&l[0], Algorithm::parse)?,
            crit: p_many(p_list(&l[1], "crit")?)?,
            content_type: p_opt(&l[2], RegisteredLabel::<iana::CoapContentFormat>::parse)?,
            key_id: p_bytes(&l[3])?,
            iv: p_bytes(&l[4])?,
            partial_iv: p_bytes(&l[5])?,
            counter_signatures: p_many(p_list(&l[6], "cs")?)?,
            rest: p_pairs(p_list(&l[7], "rest")?)?,
        })
    }
    fn print(&self, o: &mut String) {
        o.push_str("(hdr ");
        w_opt_form(o, &self.alg);
        o.push(' ');
        w_seq(o, "crit", &self.crit);
        o.push(' ');
        w_opt_form(o, &self.content_type);
        o.push(' ');
        w_bytes(o, &self.key_id);
        o.push(' ');
        w_bytes(o, &self.iv);
        o.push(' ');
        w_bytes(o, &self.partial_iv);
        o.push(' ');
        w_seq(o, "cs", &self.counter_signatures);
        o.push(' ');
        w_pairs(o, "rest", &self.rest);
        o.push(')');
    }
}

impl Form for ProtectedHeader {
    fn parse(s: &Sx) -> Option<Self> {
        let l = p_list_n(s, "ph", 2)?;
        Some(ProtectedHeader {
            original_data: p_opt(&l[0], p_bytes)?,
            header: Header::parse(&l[1])?,
        })
    }
    fn print(&self, o: &mut String) {
        o.push_str("(ph ");
        w_opt_bytes(o, &self.original_data);
        o.push(' ');
        self.header.print(o);
        o.push(')');
    }
}

// ---------------------------------------------------------------------------------------------
// Messages

fn w_msg_head(o: &mut String, head: &str, p: &ProtectedHeader, u: &Header) {
    o.push('(');
    o.push_str(head);
    o.push(' ');
    p.print(o);
    o.push(' ');
    u.print(o);
    o.push(' ');
}

impl Form for CoseSignature {
    fn parse(s: &Sx) -> Option<Self> {
        let l = p_list_n(s, "sig", 3)?;
        Some(CoseSignature {
            protected: ProtectedHeader::parse(&l[0])?,
            unprotected: Header::parse(&l[1])?,
            signature: p_bytes(&l[2])?,
        })
    }
    fn print(&self, o: &mut String) {
        w_msg_head(o, "sig", &self.protected, &self.unprotected);
        w_bytes(o, &self.signature);
        o.push(')');
    }
}

impl Form for CoseSign {
    fn parse(s: &Sx) -> Option<Self> {
        let l = p_list_n(s, "sign", 4)?;
        Some(CoseSign {
            protected: ProtectedHeader::parse(&l[0])?,
            unprotected: Header::parse(&l[1])?,
            payload: p_opt(&l[2], p_bytes)?,
            signatures: p_many(p_list(&l[3], "sigs")?)?,
        })
    }
    fn print(&self, o: &mut String) {
        w_msg_head(o, "sign", &self.protected, &self.unprotected);
        w_opt_bytes(o, &self.payload);
        o.push(' ');
        w_seq(o, "sigs", &self.signatures);
        o.push(')');
    }
}

impl Form for CoseSign1 {
    fn parse(s: &Sx) -> Option<Self> {
        let l = p_list_n(s, "sign1", 4)?;
        Some(CoseSign1 {
            protected: ProtectedHeader::parse(&l[0])?,
            unprotected: Header::parse(&l[1])?,
            payload: p_opt(&l[2], p_bytes)?,
            signature: p_bytes(&l[3])?,
        })
    }
    fn print(&self, o: &mut String) {
        w_msg_head(o, "sign1", &self.protected, &self.unprotected);
        w_opt_bytes(o, &self.payload);
        o.push(' ');
        w_bytes(o, &self.signature);
        o.push(')');
    }
}

impl Form for CoseRecipient {
    fn parse(s: &Sx) -> Option<Self> {
        let l = p_list_n(s, "rcp", 4)?;
        Some(CoseRecipient {
            protected: ProtectedHeader::parse(&l[0])?,
            unprotected: Header::parse(&l[1])?,
            ciphertext: p_opt(&l[2], p_bytes)?,
            recipients: p_many(p_list(&l[3], "rcps")?)?,
        })
    }
    fn print(&self, o: &mut String) {
        w_msg_head(o, "rcp", &self.protected, &self.unprotected);
        w_opt_bytes(o, &self.ciphertext);
        o.push(' ');
        w_seq(o, "rcps", &self.recipients);
        o.push(')');
    }
}

impl Form for CoseEncrypt {
    fn parse(s: &Sx) -> Option<Self> {
        let l = p_list_n(s, "enc", 4)?;
        Some(CoseEncrypt {
            protected: ProtectedHeader::parse(&l[0])?,
            unprotected: Header::parse(&l[1])?,
            ciphertext: p_opt(&l[2], p_bytes)?,
            recipients: p_many(p_list(&l[3], "rcps")?)?,
        })
    }
    fn print(&self, o: &mut String) {
        w_msg_head(o, "enc", &self.protected, &self.unprotected);
        w_opt_bytes(o, &self.ciphertext);
        o.push(' ');
        w_seq(o, "rcps", &self.recipients);
        o.push(')');
    }
}

impl Form for CoseEncrypt0 {
    fn parse(s: &Sx) -> Option<Self> {
        let l = p_list_n(s, "enc0", 3)?;
        Some(CoseEncrypt0 {
            protected: ProtectedHeader::parse(&l[0])?,
            unprotected: Header::parse(&l[1])?,
            ciphertext: p_opt(&l[2], p_bytes)?,
        })
    }
    fn print(&self, o: &mut String) {
        w_msg_head(o, "enc0", &self.protected, &self.unprotected);
        w_opt_bytes(o, &self.ciphertext);
        o.push(')');
    }
}

impl Form for CoseMac {
    fn parse(s: &Sx) -> Option<Self> {
        let l = p_list_n(s, "mac", 5)?;
        Some(CoseMac {
            protected: ProtectedHeader::parse(&l[0])?,
            unprotected: Header::parse(&l[1])?,
            payload: p_opt(&l[2], p_bytes)?,
            tag: p_bytes(&l[3])?,
            recipients: p_many(p_list(&l[4], "rcps")?)?,
        })
    }
    fn print(&self, o: &mut String) {
        w_msg_head(o, "mac", &self.protected, &self.unprotected);
        w_opt_bytes(o, &self.payload);
        o.push(' ');
        w_bytes(o, &self.tag);
        o.push(' ');
        w_seq(o, "rcps", &self.recipients);
        o.push(')');
    }
}

impl Form for CoseMac0 {
    fn parse(s: &Sx) -> Option<Self> {
        let l = p_list_n(s, "mac0", 4)?;
        Some(CoseMac0 {
            protected: ProtectedHeader::parse(&l[0])?,
            unprotected: Header::parse(&l[1])?,
            payload: p_opt(&l[2], p_bytes)?,
            tag: p_bytes(&l[3])?,
        })
    }
    fn print(&self, o: &mut String) {
        w_msg_head(o, "mac0", &self.protected, &self.unprotected);
        w_opt_bytes(o, &self.payload);
        o.push(' ');
        w_bytes(o, &self.tag);
        o.push(')');
    }
}

// ---------------------------------------------------------------------------------------------
// Keys

impl Form for CoseKey {
    fn parse(s: &Sx) -> Option<Self> {
        let l = p_list_n(s, "key", 6)?;
        let mut key_ops = BTreeSet::new();
        for op in p_list(&l[3], "ops")? {
            key_ops.insert(RegisteredLabel::<iana::KeyOperation>::parse(op)?);
        }
        Some(CoseKey {
            kty: RegisteredLabel::<iana::KeyType>::parse(&l[0])?,
            key_id: p_bytes(&l[1])?,
            alg: p_opt(&l[2], Algorithm::parse)?,
            key_ops,
            base_iv: p_bytes(&l[4])?,
            params: p_pairs(p_list(&l[5], "params")?)?,
        })
    }
    fn print(&self, o: &mut String) {
        o.push_str("(key ");
        self.kty.print(o);
        o.push(' ');
        w_bytes(o, &self.key_id);
        o.push(' ');
        w_opt_form(o, &self.alg);
        o.push(' ');
        w_seq(o, "ops", &self.key_ops);
        o.push(' ');
        w_bytes(o, &self.base_iv);
        o.push(' ');
        w_pairs(o, "params", &self.params);
        o.push(')');
    }
}

impl Form for CoseKeySet {
    fn parse(s: &Sx) -> Option<Self> {
        Some(CoseKeySet(p_many(p_list(s, "keyset")?)?))
    }
    fn print(&self, o: &mut String) {
        w_seq(o, "keyset", &self.0);
    }
}

// ---------------------------------------------------------------------------------------------
// CWT

impl Form for Timestamp {
    fn parse(s: &Sx) -> Option<Self> {
        match s.atom()?.as_bytes().first()? {
            b'W' => Some(Timestamp::WholeSeconds(p_i64(s, b'W')?)),
            b'F' => Some(Timestamp::FractionalSeconds(f64_of_hex(atom_rest(s, b'F')?)?)),
            _ => None,
        }
    }
    fn print(&self, o: &mut String) {
        match self {
            Timestamp::WholeSeconds(t) => w_int(o, 'W', *t as i128),
            Timestamp::FractionalSeconds(f) => w_f64(o, 'F', *f),
        }
    }
}

fn p_opt_text(s: &Sx) -> Option<Option<String>> {
    p_opt(s, |s| p_text(s, b't'))
}

impl Form for ClaimsSet {
    fn parse(s: &Sx) -> Option<Self> {
        let l = p_list_n(s, "cwt", 8)?;
        Some(ClaimsSet {
            issuer: p_opt_text(&l[0])?,
            subject: p_opt_text(&l[1])?,
            audience: p_opt_text(&l[2])?,
            expiration_time: p_opt(&l[3], Timestamp::parse)?,
            not_before: p_opt(&l[4], Timestamp::parse)?,
            issued_at: p_opt(&l[5], Timestamp::parse)?,
            cwt_id: p_opt(&l[6], p_bytes)?,
            rest: p_pairs::<ClaimName, Value>(p_list(&l[7], "rest")?)?,
        })
    }
    fn print(&self, o: &mut String) {
        o.push_str("(cwt ");
        w_opt_text(o, &self.issuer);
        o.push(' ');
        w_opt_text(o, &self.subject);
        o.push(' ');
        w_opt_text(o, &self.audience);
        o.push(' ');
        w_opt_form(o, &self.expiration_time);
        o.push(' ');
        w_opt_form(o, &self.not_before);
        o.push(' ');
        w_opt_form(o, &self.issued_at);
        o.push(' ');
        w_opt_bytes(o, &self.cwt_id);
        o.push(' ');
        w_pairs(o, "rest", &self.rest);
        o.push(')');
    }
}

// ---------------------------------------------------------------------------------------------
// KDF context

impl Form for Nonce {
    fn parse(s: &Sx) -> Option<Self> {
        match s.atom()?.as_bytes().first()? {
            b'b' => Some(Nonce::Bytes(p_bytes(s)?)),
            b'i' => Some(Nonce::Integer(p_i64(s, b'i')?)),
            _ => None,
        }
    }
    fn print(&self, o: &mut String) {
        match self {
            Nonce::Bytes(b) => w_bytes(o, b),
            Nonce::Integer(i) => w_int(o, 'i', *i as i128),
        }
    }
}

impl Form for PartyInfo {
    fn parse(s: &Sx) -> Option<Self> {
        let l = p_list_n(s, "party", 3)?;
        Some(PartyInfo {
            identity: p_opt(&l[0], p_bytes)?,
            nonce: p_opt(&l[1], Nonce::parse)?,
            other: p_opt(&l[2], p_bytes)?,
        })
    }
    fn print(&self, o: &mut String) {
        o.push_str("(party ");
        w_opt_bytes(o, &self.identity);
        o.push(' ');
        w_opt_form(o, &self.nonce);
        o.push(' ');
        w_opt_bytes(o, &self.other);
        o.push(')');
    }
}

impl Form for SuppPubInfo {
    fn parse(s: &Sx) -> Option<Self> {
        let l = p_list_n(s, "supp", 3)?;
        Some(SuppPubInfo {
            key_data_length: p_u64(&l[0], b'i')?,
            protected: ProtectedHeader::parse(&l[1])?,
            other: p_opt(&l[2], p_bytes)?,
        })
    }
    fn print(&self, o: &mut String) {
        o.push_str("(supp ");
        w_int(o, 'i', self.key_data_length as i128);
        o.push(' ');
        self.protected.print(o);
        o.push(' ');
        w_opt_bytes(o, &self.other);
        o.push(')');
    }
}

impl Form for CoseKdfContext {
    fn parse(s: &Sx) -> Option<Self> {
        let l = p_list_n(s, "kdf", 5)?;
        let mut privs = Vec::new();
        for p in p_list(&l[4], "priv")? {
            privs.push(p_bytes(p)?);
        }
        Some(CoseKdfContext::verif_from_parts(
            Algorithm::parse(&l[0])?,
            PartyInfo::parse(&l[1])?,
            PartyInfo::parse(&l[2])?,
            SuppPubInfo::parse(&l[3])?,
            privs,
        ))
    }
    fn print(&self, o: &mut String) {
        let (alg, u, v, supp, privs) = self.verif_parts();
        o.push_str("(kdf ");
        alg.print(o);
        o.push(' ');
        u.print(o);
        o.push(' ');
        v.print(o);
        o.push(' ');
        supp.print(o);
        o.push_str(" (priv");
        for p in privs {
            o.push(' ');
            w_bytes(o, p);
        }
        o.push_str("))");
    }
}
