//! S-expressions (FORMS.md section 1) and hex helpers.

/// One S-expression; atoms borrow from the input line.
#[derive(Debug)]
pub enum Sx<'a> {
    A(&'a str),
    L(Vec<Sx<'a>>),
}

impl<'a> Sx<'a> {
    pub fn atom(&self) -> Option<&'a str> {
        match self {
            Sx::A(a) => Some(a),
            Sx::L(_) => None,
        }
    }
}

#[inline]
fn is_blank(b: u8) -> bool {
    b == b' ' || b == b'\t'
}

/// Parse a whole line into its top-level items (iterative: nesting depth does not use the stack).
pub fn parse_line(s: &str) -> Option<Vec<Sx<'_>>> {
    let b = s.as_bytes();
    let mut stack: Vec<Vec<Sx<'_>>> = vec![Vec::new()];
    let mut i = 0;
    while i < b.len() {
        let c = b[i];
        if is_blank(c) {
            i += 1;
        } else if c == b'(' {
            stack.push(Vec::new());
            i += 1;
        } else if c == b')' {
            if stack.len() < 2 {
                return None;
            }
            let l = stack.pop()?;
            stack.last_mut()?.push(Sx::L(l));
            i += 1;
        } else {
            let st = i;
            while i < b.len() && !is_blank(b[i]) && b[i] != b'(' && b[i] != b')' {
                i += 1;
            }
            // Delimiters are ASCII, so `st` and `i` are char boundaries.
            stack.last_mut()?.push(Sx::A(&s[st..i]));
        }
    }
    if stack.len() != 1 {
        return None;
    }
    stack.pop()
}

const HEX: &[u8; 16] = b"0123456789abcdef";

/// Append the lower-case hex of `b`.
pub fn hex_into(o: &mut String, b: &[u8]) {
    o.reserve(b.len() * 2);
    for &x in b {
        o.push(HEX[(x >> 4) as usize] as char);
        o.push(HEX[(x & 15) as usize] as char);
    }
}

#[inline]
fn nib(c: u8) -> Option<u8> {
    match c {
        b'0'..=b'9' => Some(c - b'0'),
        b'a'..=b'f' => Some(c - b'a' + 10),
        _ => None,
    }
}

/// Decode lower-case hex (upper-case digits are rejected).
pub fn unhex(s: &str) -> Option<Vec<u8>> {
    let b = s.as_bytes();
    if b.len() % 2 != 0 {
        return None;
    }
    let mut v = Vec::with_capacity(b.len() / 2);
    let mut i = 0;
    while i < b.len() {
        v.push((nib(b[i])? << 4) | nib(b[i + 1])?);
        i += 2;
    }
    Some(v)
}

/// Signed decimal: optional `-`, then at least one ASCII digit (no `+`).
pub fn dec_i128(s: &str) -> Option<i128> {
    let digits = s.strip_prefix('-').unwrap_or(s);
    if digits.is_empty() || !digits.bytes().all(|c| c.is_ascii_digit()) {
        return None;
    }
    s.parse::<i128>().ok()
}

/// Unsigned bare decimal: at least one ASCII digit, nothing else.
pub fn dec_u64(s: &str) -> Option<u64> {
    if s.is_empty() || !s.bytes().all(|c| c.is_ascii_digit()) {
        return None;
    }
    s.parse::<u64>().ok()
}
