"""Design probe: declarative (lookup/filter) specs for C08/C09/C10/C18, checked against the loop-shaped model."""
import sys
sys.setrecursionlimit(10000)
from cosemodel import *
I64LO,I64HI=-2**63,2**63-1
def lab_of(k):
    if k[0]=='int' and I64LO<=k[1]<=I64HI: return ('i',k[1])
    if k[0]=='text': return ('t',k[1])
    return None
def labels_ok(m):
    labs=[lab_of(k) for k,_ in m]
    return all(l is not None for l in labs) and len(set(labs))==len(labs)
def lookup(m,n):
    for k,v in m:
        if lab_of(k)==('i',n): return v
    return None
def reg_ok(reg,v,private):
    if v[0]=='text': return True
    if v[0]=='int' and I64LO<=v[1]<=I64HI:
        return v[1] in REG[reg] or (private and v[1] < -65536)
    return False
def reg_of(reg,v):
    if v[0]=='text': return ('X',v[1])
    return ('A',v[1]) if v[1] in REG[reg] else ('P',v[1])
def nonempty_bytes(v): return v[0]=='bytes' and len(v[1])>0
def ct_ok(v):
    if v[0]=='int': return reg_ok('CoapContentFormat',v,False)
    if v[0]=='text':
        t=v[1]; return len(t)>0 and trimmed(t) and t.count(b'/')==1
    return False
def prot_ok(v):
    if v[0]!='bytes': return False
    if v[1]==b'': return True
    r=cbor_decode(v[1])
    return r[0]=='ok' and header_wf(r[1])
def prot_of(v):
    d=v[1]
    return dict(orig=d,hdr=header_of(('map',[])) if d==b'' else header_of(cbor_decode(d)[1]))
def sig_wf(v): return v[0]=='array' and len(v[1])==3 and prot_ok(v[1][0]) and header_wf(v[1][1]) and v[1][2][0]=='bytes'
def sig_of(v): return dict(p=prot_of(v[1][0]),u=header_of(v[1][1]),sig=v[1][2][1])
def csig_ok(v):
    if v[0]!='array' or not v[1]: return False
    if v[1][0][0]=='bytes': return sig_wf(v)
    if v[1][0][0]=='array': return all(sig_wf(x) for x in v[1])
    return False
def csig_of(v):
    if v[1][0][0]=='bytes': return [sig_of(v)]
    return [sig_of(x) for x in v[1]]
def header_wf(v):
    if v[0]!='map': return False
    m=v[1]
    if not labels_ok(m): return False
    a=lookup(m,1)
    if a is not None and not reg_ok('Algorithm',a,True): return False
    c=lookup(m,2)
    if c is not None and not (c[0]=='array' and len(c[1])>0 and all(reg_ok('HeaderParameter',x,False) for x in c[1])): return False
    t=lookup(m,3)
    if t is not None and not ct_ok(t): return False
    for n in (4,5,6):
        x=lookup(m,n)
        if x is not None and not nonempty_bytes(x): return False
    if lookup(m,5) is not None and lookup(m,6) is not None: return False
    s=lookup(m,7)
    if s is not None and not csig_ok(s): return False
    return True
def header_of(v):
    m=v[1]
    g=lambda n,f,d: d if lookup(m,n) is None else f(lookup(m,n))
    return dict(alg=g(1,lambda x:reg_of('Algorithm',x),None),crit=g(2,lambda x:[reg_of('HeaderParameter',y) for y in x[1]],[]),
        ct=g(3,lambda x:reg_of('CoapContentFormat',x),None),kid=g(4,lambda x:x[1],b''),iv=g(5,lambda x:x[1],b''),piv=g(6,lambda x:x[1],b''),
        cs=g(7,csig_of,[]),rest=[(lab_of(k),x) for k,x in m if lab_of(k) not in [('i',n) for n in range(1,8)]])
# shapes
def bstr_or_nil(v): return v[0] in ('bytes','null')
def bon(v): return v[1] if v[0]=='bytes' else None
def rcp_wf(v):
    return v[0]=='array' and len(v[1]) in (3,4) and prot_ok(v[1][0]) and header_wf(v[1][1]) and bstr_or_nil(v[1][2]) and (len(v[1])==3 or (v[1][3][0]=='array' and all(rcp_wf(x) for x in v[1][3][1])))
def rcp_of(v): return dict(p=prot_of(v[1][0]),u=header_of(v[1][1]),ct=bon(v[1][2]),rcps=[rcp_of(x) for x in v[1][3][1]] if len(v[1])==4 else [])
def arr(v,n): return v[0]=='array' and len(v[1])==n
SHAPES={
 'CoseSign1':(lambda v: arr(v,4) and prot_ok(v[1][0]) and header_wf(v[1][1]) and bstr_or_nil(v[1][2]) and v[1][3][0]=='bytes',
              lambda v: dict(p=prot_of(v[1][0]),u=header_of(v[1][1]),payload=bon(v[1][2]),sig=v[1][3][1])),
 'CoseSign':(lambda v: arr(v,4) and prot_ok(v[1][0]) and header_wf(v[1][1]) and bstr_or_nil(v[1][2]) and v[1][3][0]=='array' and all(sig_wf(x) for x in v[1][3][1]),
              lambda v: dict(p=prot_of(v[1][0]),u=header_of(v[1][1]),payload=bon(v[1][2]),sigs=[sig_of(x) for x in v[1][3][1]])),
 'CoseSignature':(sig_wf,sig_of),
 'CoseMac':(lambda v: arr(v,5) and prot_ok(v[1][0]) and header_wf(v[1][1]) and bstr_or_nil(v[1][2]) and v[1][3][0]=='bytes' and v[1][4][0]=='array' and all(rcp_wf(x) for x in v[1][4][1]),
              lambda v: dict(p=prot_of(v[1][0]),u=header_of(v[1][1]),payload=bon(v[1][2]),tag=v[1][3][1],rcps=[rcp_of(x) for x in v[1][4][1]])),
 'CoseMac0':(lambda v: arr(v,4) and prot_ok(v[1][0]) and header_wf(v[1][1]) and bstr_or_nil(v[1][2]) and v[1][3][0]=='bytes',
              lambda v: dict(p=prot_of(v[1][0]),u=header_of(v[1][1]),payload=bon(v[1][2]),tag=v[1][3][1])),
 'CoseEncrypt':(lambda v: arr(v,4) and prot_ok(v[1][0]) and header_wf(v[1][1]) and bstr_or_nil(v[1][2]) and v[1][3][0]=='array' and all(rcp_wf(x) for x in v[1][3][1]),
              lambda v: dict(p=prot_of(v[1][0]),u=header_of(v[1][1]),ct=bon(v[1][2]),rcps=[rcp_of(x) for x in v[1][3][1]])),
 'CoseEncrypt0':(lambda v: arr(v,3) and prot_ok(v[1][0]) and header_wf(v[1][1]) and bstr_or_nil(v[1][2]),
              lambda v: dict(p=prot_of(v[1][0]),u=header_of(v[1][1]),ct=bon(v[1][2]))),
 'CoseRecipient':(rcp_wf,rcp_of),
 'Header':(header_wf,header_of),
}
def key_wf(v):
    if v[0]!='map' or not labels_ok(v[1]): return False
    m=v[1]; k=lookup(m,1)
    if k is None or not reg_ok('KeyType',k,False) or k==('int',0): return False
    for n in (2,5):
        x=lookup(m,n)
        if x is not None and not nonempty_bytes(x): return False
    a=lookup(m,3)
    if a is not None and not reg_ok('Algorithm',a,True): return False
    o=lookup(m,4)
    if o is not None:
        if o[0]!='array' or not o[1] or not all(reg_ok('KeyOperation',x,False) for x in o[1]): return False
        ops=[reg_of('KeyOperation',x) for x in o[1]]
        if len(set(ops))!=len(ops): return False
    return True
def key_of(v):
    m=v[1]; g=lambda n,f,d: d if lookup(m,n) is None else f(lookup(m,n))
    return dict(kty=reg_of('KeyType',lookup(m,1)),kid=g(2,lambda x:x[1],b''),alg=g(3,lambda x:reg_of('Algorithm',x),None),
        ops=sorted(g(4,lambda x:[reg_of('KeyOperation',y) for y in x[1]],[]),key=lab_sort_key),biv=g(5,lambda x:x[1],b''),
        params=[(lab_of(k),x) for k,x in m if lab_of(k) not in [('i',n) for n in range(1,6)]])
SHAPES['CoseKey']=(key_wf,key_of)
SHAPES['CoseKeySet']=(lambda v: v[0]=='array' and all(key_wf(x) for x in v[1]), lambda v:[key_of(x) for x in v[1]])
def claim_name(k):
    if k[0]=='text': return ('X',k[1])
    if k[0]=='int' and I64LO<=k[1]<=I64HI:
        if k[1] in REG['CwtClaimName']: return ('A',k[1])
        if k[1] < -65536: return ('P',k[1])
    return None
def ts_ok(v): return (v[0]=='int' and I64LO<=v[1]<=I64HI) or v[0]=='float'
def cwt_wf(v):
    if v[0]!='map': return False
    names=[claim_name(k) for k,_ in v[1]]
    if any(n is None for n in names) or len(set(names))!=len(names): return False
    d=dict(zip(names,[x for _,x in v[1]]))
    for n in (1,2,3):
        if ('A',n) in d and d[('A',n)][0]!='text': return False
    for n in (4,5,6):
        if ('A',n) in d and not ts_ok(d[('A',n)]): return False
    if ('A',7) in d and d[('A',7)][0]!='bytes': return False
    return True
def cwt_of(v):
    names=[claim_name(k) for k,_ in v[1]]; d=dict(zip(names,[x for _,x in v[1]]))
    t=lambda n: None if ('A',n) not in d else d[('A',n)][1]
    ts=lambda n: None if ('A',n) not in d else (('W',d[('A',n)][1]) if d[('A',n)][0]=='int' else ('F',d[('A',n)][1]))
    return dict(iss=t(1),sub=t(2),aud=t(3),exp=ts(4),nbf=ts(5),iat=ts(6),cti=t(7),rest=[(n,x) for n,(_,x) in zip(names,v[1]) if n not in [('A',i) for i in range(1,8)]])
SHAPES['ClaimsSet']=(cwt_wf,cwt_of)
def pi_wf(v): return arr(v,3) and bstr_or_nil(v[1][0]) and (bstr_or_nil(v[1][1]) or (v[1][1][0]=='int' and I64LO<=v[1][1][1]<=I64HI)) and bstr_or_nil(v[1][2])
def pi_of(v):
    n=v[1][1]; return dict(id=bon(v[1][0]),nonce=None if n[0]=='null' else (('b',n[1]) if n[0]=='bytes' else ('i',n[1])),other=bon(v[1][2]))
def spi_wf(v): return v[0]=='array' and len(v[1]) in (2,3) and v[1][0][0]=='int' and 0<=v[1][0][1]<2**64 and prot_ok(v[1][1]) and (len(v[1])==2 or v[1][2][0]=='bytes')
def spi_of(v): return dict(len=v[1][0][1],p=prot_of(v[1][1]),other=v[1][2][1] if len(v[1])==3 else None)
def kdf_wf(v): return v[0]=='array' and len(v[1])>=4 and reg_ok('Algorithm',v[1][0],True) and pi_wf(v[1][1]) and pi_wf(v[1][2]) and spi_wf(v[1][3]) and all(x[0]=='bytes' for x in v[1][4:])
def kdf_of(v): return dict(alg=reg_of('Algorithm',v[1][0]),u=pi_of(v[1][1]),v=pi_of(v[1][2]),spi=spi_of(v[1][3]),priv=[x[1] for x in v[1][4:]])
SHAPES['PartyInfo']=(pi_wf,pi_of); SHAPES['SuppPubInfo']=(spi_wf,spi_of); SHAPES['CoseKdfContext']=(kdf_wf,kdf_of)
if __name__=='__main__':
    import collections
    from cosegen import G
    seed=int(sys.argv[1]); N=int(sys.argv[2]); valid=float(sys.argv[3])
    g=G(seed,valid=valid)
    FROM={n:(f,r) for n,f,_,r in TYPES}
    bad=0; acc=collections.Counter(); tot=0
    for _ in range(N):
        b=g.venc(g.any_top())
        r=cbor_decode(b)
        if r[0]!='ok': continue
        v=r[1]
        for name,(wf,of) in SHAPES.items():
            frm,rend=FROM[name]; tot+=1
            try: m=frm(v); ok=True
            except E: ok=False
            w=wf(v)
            if w!=ok:
                bad+=1
                if bad<8: print('ACCEPT MISMATCH',name,b.hex()[:120],'model',ok,'spec',w)
                continue
            if ok:
                acc[name]+=1
                if name=='CoseKdfContext':
                    same = (m==of(v))
                else: same = rend(m)==rend(of(v))
                if not same:
                    bad+=1
                    if bad<8: print('FIELD MISMATCH',name,b.hex()[:120])
    print('checks',tot,'accepted',dict(acc),'mismatches',bad)
