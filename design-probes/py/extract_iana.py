import re, sys, json
src = open('/repo/src/iana/mod.rs').read()
# strip comments (line and doc), keep strings intact (none relevant here)
def strip_comments(s):
    out=[]; i=0
    while i < len(s):
        if s.startswith('//', i):
            j = s.find('\n', i); i = len(s) if j<0 else j
        elif s.startswith('/*', i):
            j = s.find('*/', i); i = j+2
        else:
            out.append(s[i]); i+=1
    return ''.join(out)
s = strip_comments(src)
regs = {}
for m in re.finditer(r'iana_registry!\s*\{', s):
    i = m.end(); depth=1; j=i
    while depth:
        c = s[j]
        if c=='{': depth+=1
        elif c=='}': depth-=1
        j+=1
    body = s[i:j-1]
    mm = re.match(r'\s*(?:#\[[^\]]*\]\s*)*([A-Za-z0-9_]+)\s*\{(.*)\}\s*$', body, re.S)
    name, inner = mm.group(1), mm.group(2)
    entries = re.findall(r'([A-Za-z0-9_]+)\s*:\s*(-?[0-9_]+)\s*,', inner)
    regs[name] = [(n, int(v.replace('_',''))) for n,v in entries]
priv = {}
consts = dict((n,int(v.replace('_',''))) for n,v in re.findall(r'pub const ([A-Z_]+): i64 = (-?[0-9_]+);', s))
for m in re.finditer(r'impl WithPrivateRange for (\w+)\s*\{\s*fn is_private\(i: i64\) -> bool\s*\{\s*i\s*(<=|<|>=|>)\s*(\w+)\s*\}\s*\}', s):
    priv[m.group(1)] = (m.group(2), consts[m.group(3)])
print({k: len(v) for k,v in regs.items()}, sum(len(v) for v in regs.values()))
print(priv)
# emit lean
with open('Gen.lean','w') as f:
    f.write('namespace Gen\n')
    for k,v in regs.items():
        f.write(f'def {k} : List (String × Int) := [\n')
        f.write(',\n'.join(f'  ("{n}", {val})' for n,val in v))
        f.write(']\n')
    f.write('end Gen\n')
