import random, subprocess, sys
from refcbor import *
rng=random.Random(int(sys.argv[1]) if len(sys.argv)>1 else 1)
N=int(sys.argv[2]) if len(sys.argv)>2 else 200000
def rhead(m,n,nonmin=True):
    # random (possibly non-minimal) head
    opts=[]
    if n<24: opts.append(bytes([m*32+n]))
    if n<256: opts.append(bytes([m*32+24,n]))
    if n<65536: opts.append(bytes([m*32+25])+n.to_bytes(2,'big'))
    if n<2**32: opts.append(bytes([m*32+26])+n.to_bytes(4,'big'))
    opts.append(bytes([m*32+27])+n.to_bytes(8,'big'))
    return rng.choice(opts) if nonmin else opts[0]
INTS=[0,1,23,24,255,256,65535,65536,2**32-1,2**32,2**63-1,2**63,2**64-1]
def rbytes(n): return bytes(rng.randrange(256) for _ in range(n))
TEXTS=[b'',b'a',b'a/b','é'.encode(),'\u0085'.encode(),'😀'.encode(),b'\xff',b'\xc3',b'\xed\xa0\x80',b'x'*24]
def gstr(m):
    base = rng.choice(TEXTS) if m==3 and rng.random()<0.8 else rbytes(rng.choice([0,1,2,3,16,17,23,24,30]))
    r=rng.random()
    if r<0.6: return rhead(m,len(base))+base
    # indefinite with chunks
    out=bytes([m*32+31])
    i=0
    while i<len(base):
        j=min(len(base),i+rng.randint(0,4))
        out+=rhead(m,j-i)+base[i:j]; i=j
        if j==i and rng.random()<0.3: break
    if rng.random()<0.1: out+=bytes([m*32+31])+rhead(m,1)+b'z'+b'\xff'   # nested indefinite
    if rng.random()<0.05: out+=bytes([(5-m)*32+1,65])  # wrong-type chunk
    out+=b'\xff'
    return out
def gen(d):
    r=rng.random()
    if d>6: r=r*0.55
    if r<0.15: return rhead(0,rng.choice(INTS))
    if r<0.25: return rhead(1,rng.choice(INTS))
    if r<0.35: return gstr(2)
    if r<0.45: return gstr(3)
    if r<0.50:
        k=rng.choice([0xf4,0xf5,0xf6,0xf7,0xf0,0xf8,0xff,0xfc])
        if k==0xf8: return bytes([0xf8,rng.choice([0,20,21,22,23,24,32,255])])
        return bytes([k])
    if r<0.55:
        k=rng.choice([0xf9,0xfa,0xfb])
        n={0xf9:2,0xfa:4,0xfb:8}[k]
        if rng.random()<0.5:
            x=rng.choice([0.0,-0.0,1.0,1.5,65504.0,65505.0,1e-7,5.96e-8,3.4e38,1e300,float('inf'),float('nan'),0.1,2.0**-24,2.0**-25,2.0**-149,1.0000001])
            import struct
            try: b={2:'>e',4:'>f',8:'>d'}[n]; return bytes([k])+struct.pack(b,x)
            except OverflowError: return bytes([k])+rbytes(n)
        special=rng.choice([None,b'\x7c\x01',b'\x7e\x01',b'\xfc\x00',b'\x00\x01',b'\x7f\x80\x00\x01',b'\x7f\xc0\x00\x01',b'\x7f\xf0\x00\x00\x00\x00\x00\x01',b'\x7f\xf8\x00\x00\x20\x00\x00\x00',b'\x7f\xf8\x04\x00\x00\x00\x00\x00'])
        if special and len(special)==n: return bytes([k])+special
        return bytes([k])+rbytes(n)
    if r<0.70:
        n=rng.randint(0,4)
        if rng.random()<0.7: return rhead(4,n)+b''.join(gen(d+1) for _ in range(n))
        return b'\x9f'+b''.join(gen(d+1) for _ in range(n))+b'\xff'
    if r<0.82:
        n=rng.randint(0,3)
        if rng.random()<0.7: return rhead(5,n)+b''.join(gen(d+1)+gen(d+1) for _ in range(n))
        return b'\xbf'+b''.join(gen(d+1)+gen(d+1) for _ in range(n))+b'\xff'
    # tags
    t=rng.choice([2,3,2,3,18,0,55799,2**64-1,24])
    if t in (2,3) and rng.random()<0.8:
        n=rng.choice([0,1,8,9,15,16,17])
        body=rng.choice([rbytes(n), b'\x00'*rng.randint(0,n)+rbytes(max(0,n-rng.randint(0,n))), b'\xff'*n])
        body=body[:n] if len(body)>n else body+b'\x00'*(n-len(body))
        if rng.random()<0.7: return rhead(6,t)+rhead(2,n)+body
        return rhead(6,t)+b'\x5f'+rhead(2,n)+body+b'\xff'
    return rhead(6,t)+gen(d+1)
def mutate(b):
    b=bytearray(b)
    r=rng.random()
    if r<0.3 and b: b[rng.randrange(len(b))]^=1<<rng.randrange(8)
    elif r<0.5 and b: del b[rng.randrange(len(b)):]
    elif r<0.6: b+=rbytes(rng.randint(1,3))
    return bytes(b)
cases=[]
for _ in range(N):
    b=gen(0)
    if rng.random()<0.3: b=mutate(b)
    cases.append(b)
# deep nesting cases
for n in (255,256,257):
    cases.append(b'\x81'*n+b'\x00'); cases.append(b'\xc1'*n+b'\x00'); cases.append(b'\xa1\x00'*n+b'\x00'); cases.append(b'\x9f'*n+b'\x00'+b'\xff'*n)
# big strings across scratch size
for n in (4095,4096,4097,8191,8192,8193):
    cases.append(head(3,n)+b'a'*(n-2)+'é'.encode()); cases.append(head(3,n)+b'a'*(n-1)+b'\xc3'); cases.append(head(2,n)+b'\x00'*n)
    s=('é'*((n+1)//2)).encode()[:n]; cases.append(head(3,len(s))+s)
    s=b'a'*4095+'é'.encode()+b'b'*(n-4095); cases.append(head(3,len(s))+s)
    s=b'a'*4094+'😀'.encode()+b'b'*10; cases.append(head(3,len(s))+s); cases.append(b'\x7f'+head(3,len(s))+s+b'\xff')
    s=b'a'*4095+b'\xff'+b'b'*10; cases.append(head(3,len(s))+s)
    s=b'a'*4093+b'\xff\xff\xff'+b'b'; cases.append(head(3,len(s))+s)
inp='\n'.join(c.hex() for c in cases)+'\n'
p=subprocess.run(['/tmp/scr/target/release/scr'],input=inp.encode(),capture_output=True)
outs=p.stdout.decode().split('\n')
bad=0; stats={}
for c,o in zip(cases,outs):
    r=decode(c)
    if r[0]=='ok': exp='ok %s %s'%(render(r[1]),encode(r[1]).hex())
    else: exp='err '+r[1]
    key=exp.split()[0]+(' '+exp.split()[1] if exp.startswith('err') else '')
    stats[key]=stats.get(key,0)+1
    if exp!=o:
        # tolerate NaN payload diffs? report all
        bad+=1
        if bad<=15: print('MISMATCH',c.hex()[:120],'\n   impl:',o[:200],'\n   ref :',exp[:200])
print('cases',len(cases),'mismatches',bad,stats)
