import random, sys
sys.argv=['x','7','1']
exec(open('fuzz.py').read().split("cases=[]")[0])
from refcbor import *
def has_small_bignum(v):
    k=v[0]
    if k=='tag':
        if v[1] in (2,3) and v[2][0]=='bytes' and len(v[2][1])<=16: return True
        return has_small_bignum(v[2])
    if k=='array': return any(has_small_bignum(x) for x in v[1])
    if k=='map': return any(has_small_bignum(a) or has_small_bignum(b) for a,b in v[1])
    return False
viol=0; cls={}
n=0
for _ in range(300000):
    b=gen(0)
    r=decode(b)
    if r[0]!='ok': continue
    n+=1
    v=r[1]; b2=encode(v); r2=decode(b2)
    okk = r2[0]=='ok' and r2[1]==v and encode(r2[1])==b2
    if not okk:
        viol+=1
        c='smallbignum' if has_small_bignum(v) else 'OTHER'
        cls[c]=cls.get(c,0)+1
        if c=='OTHER' and cls[c]<5: print('OTHER', b.hex(), render(v), b2.hex(), r2)
print('accepted',n,'violations',viol,cls)
