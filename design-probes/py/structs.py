import sys, subprocess, collections
sys.setrecursionlimit(10000)
from cosegen import G
from cosemodel import *
from refcbor import head
def bstr(b): return head(2,len(b))+b
def spec(ctx,slots): return head(4,1+len(slots))+head(3,len(ctx))+ctx+b''.join(bstr(s) for s in slots)
def pbytes(p): return ph_bstr(p)[1]
seed=int(sys.argv[1]); N=int(sys.argv[2])
g=G(seed,valid=0.97)
rng=g.r
cases=[]
for _ in range(N):
    k=rng.choice(['sign1','sign','mac','mac0','enc','enc0','rcp'])
    v=g.recipient() if k=='rcp' else g.msg(k)
    aad=bytes(rng.randrange(256) for _ in range(rng.choice([0,1,23,24,255,256,300])))
    pl=bytes(rng.randrange(256) for _ in range(rng.choice([0,1,23,24,255,256,70000 if rng.random()<0.02 else 5])))
    cases.append((g.venc(v),aad,pl))
inp='\n'.join('%s %s %s'%(c.hex(),a.hex(),p.hex()) for c,a,p in cases)+'\n'
pr=subprocess.run(['/tmp/scr/target/release/scr'],input=inp.encode(),capture_output=True)
lines=pr.stdout.decode().split('\n')
bad=0; cnt=collections.Counter()
def tryf(f,b):
    try: return f(read_to_value(b))
    except E: return None
for (c,aad,pl),got in zip(cases,lines):
    exp=[]
    m=tryf(sign1_from,c)
    if m:
        t=spec(b'Signature1',[pbytes(m['p']),aad,m['payload'] or b''])
        exp.append('S1 %s %s Err(7)'%(m['sig'].hex(),t.hex()))
        exp.append('S1D '+spec(b'Signature1',[pbytes(m['p']),aad,pl]).hex() if m['payload'] is None else 'S1D panic'); cnt['S1']+=1
    m=tryf(sign_from,c)
    if m:
        for i,s in enumerate(m['sigs']):
            exp.append('S%d %s %s'%(i,s['sig'].hex(),spec(b'Signature',[pbytes(m['p']),pbytes(s['p']),aad,m['payload'] or b'']).hex())); cnt['S']+=1
    m=tryf(mac0_from,c)
    if m: exp.append('M0 panic' if m['payload'] is None else 'M0 %s %s'%(m['tag'].hex(),spec(b'MAC0',[pbytes(m['p']),aad,m['payload']]).hex())); cnt['M0']+=1
    m=tryf(mac_from,c)
    if m: exp.append('M panic' if m['payload'] is None else 'M %s %s'%(m['tag'].hex(),spec(b'MAC',[pbytes(m['p']),aad,m['payload']]).hex())); cnt['M']+=1
    m=tryf(enc0_from,c)
    if m: exp.append('E0 panic' if m['ct'] is None else 'E0 %s %s'%(m['ct'].hex(),spec(b'Encrypt0',[pbytes(m['p']),aad]).hex())); cnt['E0']+=1
    m=tryf(enc_from,c)
    if m: exp.append('E panic' if m['ct'] is None else 'E %s %s'%(m['ct'].hex(),spec(b'Encrypt',[pbytes(m['p']),aad]).hex())); cnt['E']+=1
    m=tryf(rcp_from,c)
    if m:
        for n,ctx in (('RE',b'Enc_Recipient'),('RM',b'Mac_Recipient'),('RR',b'Rec_Recipient'),('RX',None)):
            exp.append('%s panic'%n if (m['ct'] is None or ctx is None) else '%s %s %s'%(n,m['ct'].hex(),spec(ctx,[pbytes(m['p']),aad]).hex())); cnt['R']+=1
    e=' | '.join(exp)
    if e!=got:
        bad+=1
        if bad<5: print('MISMATCH',c.hex()[:80],'\n impl:',got[:300],'\n spec:',e[:300])
print('cases',N,'structure checks',dict(cnt),'mismatches',bad)
