import sys, subprocess, collections
from cosegen import G
from refcbor import decode
seed=int(sys.argv[1]); N=int(sys.argv[2])
g=G(seed, valid=0.8)
cases=[]
for _ in range(N):
    k=g.r.choice(['hdr','key','claims'])
    v={'hdr':g.header,'key':g.key,'claims':g.claims}[k]()
    cases.append(g.venc(v))
inp='\n'.join(c.hex() for c in cases)+'\n'
p=subprocess.run(['/tmp/scr/target/release/scr'],input=inp.encode(),capture_output=True)
lines=p.stdout.decode().strip().split('\n'); per=19
names=[l.split(' ')[0] for l in lines[:per]]
idx={n:i for i,n in enumerate(names)}
dupcases=0; viol=0; accepted=collections.Counter()
for i,c in enumerate(cases):
    r=decode(c)
    if r[0]!='ok' or r[1][0]!='map': continue
    keys=[k for k,_ in r[1][1]]
    labs=[k for k in keys if k[0] in('int','text')]
    dup=len(set(labs))<len(labs)
    if dup: dupcases+=1
    for n in ('Header','CoseKey','ClaimsSet'):
        res=lines[i*per+idx[n]].split(' ')[1]
        if res=='fix':
            accepted[n]+=1
            if dup: viol+=1; print('DUP ACCEPTED',n,c.hex())
print('cases',N,'with dup labels',dupcases,'accepted',dict(accepted),'violations',viol)
