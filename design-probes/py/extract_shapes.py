"""Design probe: extract arity + slot tables (F6), context strings (F2), TAGs (F4), label consts (F5), is_empty fields (F7)."""
import re, json, glob
def strip_comments(s):
    out=[]; i=0
    while i<len(s):
        if s.startswith('//',i):
            j=s.find('\n',i); i=len(s) if j<0 else j
        elif s.startswith('/*',i):
            j=s.find('*/',i); i=j+2
        elif s[i]=='"':
            j=i+1
            while s[j]!='"':
                if s[j]=='\\': j+=1
                j+=1
            out.append(s[i:j+1]); i=j+1
        else: out.append(s[i]); i+=1
    return ''.join(out)
def block(s,i):
    # s[i] == '{' ; return index after matching '}'
    d=0; j=i
    while True:
        if s[j]=='{': d+=1
        elif s[j]=='}':
            d-=1
            if d==0: return j+1
        j+=1
facts={'shapes':{},'encode_order':{},'contexts':{},'tags':{},'labels':{},'is_empty':None,'header_fields':None}
for f in ['sign','mac','encrypt','context','header','key','cwt']:
    s=strip_comments(open('/repo/src/%s/mod.rs'%f).read())
    for m in re.finditer(r'impl\s+AsCborValue\s+for\s+(\w+)\s*\{',s):
        name=m.group(1); body=s[m.end()-1:block(s,m.end()-1)]
        fm=re.search(r'fn from_cbor_value\([^)]*\)\s*->\s*[^{]*\{',body)
        fb=body[fm.end()-1:block(body,fm.end()-1)]
        if 'try_as_array()' in fb and 'a.remove(' in fb:
            ar=re.findall(r'a\.len\(\)\s*(!=|<|==)\s*(\d+)',fb)
            slots=[]
            for mm in re.finditer(r'a\s*\.remove\((\w+)\)',fb):
                pre=fb[:mm.start()]
                fld=re.findall(r'(?:let\s+(?:mut\s+)?(\w+)\s*=|(\w+)\s*:)\s*(?:\{\s*if[^{]*\{\s*)?(?:match\s+|Some\(|[A-Za-z:<>]+\(\s*)*\s*$',pre[-160:])
                fld=[a or b for a,b in fld]
                post=fb[mm.end():mm.end()+90]
                ext=re.match(r'\s*\)*\s*\.?\s*(try_as_\w+(?:\([A-Za-z:_]*)?|\)\?|\{)?',post)
                kind='match' if re.search(r'match\s+a\s*\.remove\(%s\)\s*$'%mm.group(1),fb[:mm.end()]) else None
                slots.append((mm.group(1),fld[-1] if fld else None,(kind or (ext.group(1) if ext else None))))
            facts['shapes'][name]={'arity':ar,'slots':slots}
        tm=re.search(r'fn to_cbor_value\([^)]*\)\s*->\s*[^{]*\{',body)
        tb=body[tm.end()-1:block(body,tm.end()-1)]
        vm=re.search(r'vec!\[',tb)
        if vm and 'Value::Array' in tb:
            facts['encode_order'][name]=re.findall(r'self\.(\w+)',tb)
    for m in re.finditer(r'impl\s+(\w+Context)\s*\{\s*fn text\(&self\)[^{]*\{\s*match self\s*\{',s):
        e=block(s,m.end()-1); arms=re.findall(r'(\w+)::(\w+)\s*=>\s*"([^"]*)"',s[m.end():e])
        facts['contexts'][m.group(1)]={v:t for _,v,t in arms}
    for m in re.finditer(r'impl\s+(?:crate::)?TaggedCborSerializable\s+for\s+(\w+)\s*\{\s*const TAG: u64 = iana::CborTag::(\w+) as u64;\s*\}',s):
        facts['tags'][m.group(1)]=m.group(2)
    for m in re.finditer(r'const (\w+): (?:Label|ClaimName) = (?:Label::Int|ClaimName::Assigned)\(iana::(\w+)::(\w+)(?: as i64)?\);',s):
        facts['labels'].setdefault(f,{})[m.group(1)]=(m.group(2),m.group(3))
    if f=='header':
        m=re.search(r'pub struct Header\s*\{',s); hb=s[m.end()-1:block(s,m.end()-1)]
        facts['header_fields']=re.findall(r'pub (\w+)\s*:',hb)
        m=re.search(r'pub fn is_empty\(&self\) -> bool\s*\{',s); eb=s[m.end()-1:block(s,m.end()-1)]
        facts['is_empty']=re.findall(r'self\.(\w+)',eb)
print(json.dumps(facts,indent=1)[:6000])
