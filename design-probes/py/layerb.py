import sys, subprocess, collections, re
sys.setrecursionlimit(10000)
from cosegen import G
from cosemodel import TYPES, model_line
seed=int(sys.argv[1]); N=int(sys.argv[2]); valid=float(sys.argv[3]) if len(sys.argv)>3 else 0.9
g=G(seed,valid=valid)
cases=[g.venc(g.any_top()) for _ in range(N)]
inp='\n'.join(c.hex() for c in cases)+'\n'
p=subprocess.run(['/tmp/scr/target/release/scr'],input=inp.encode(),capture_output=True)
lines=p.stdout.decode().strip().split('\n')
def canon(l):  # canonicalise NaN float bit patterns in impl hex rendering of values handled by fnan already
    return l
bad=0; st=collections.Counter(); i=0
for c in cases:
    for (name,frm,to,rend) in TYPES:
        exp=model_line(name,frm,to,rend,c); got=lines[i]; i+=1
        st[(name,exp.split(' ')[1]+(' '+exp.split(' ')[2] if exp.split(' ')[1]=='err' else ''))]+=1
        if exp!=got:
            bad+=1
            if bad<=12: print('MISMATCH',c.hex()[:100],'\n  impl :',got[:260],'\n  model:',exp[:260])
print('cases',N,'ops',i,'mismatches',bad)
acc=collections.Counter(); errs=collections.Counter()
for (n,k),v in st.items():
    if k=='ok': acc[n]+=v
    else: errs[k]+=v
print('accepted',dict(acc)); print('errors',dict(errs))
