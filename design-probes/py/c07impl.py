import sys, subprocess, collections
from cosegen import G
seed=int(sys.argv[1]); N=int(sys.argv[2]); big=len(sys.argv)>3
g=G(seed,bignum=big)
cases=[g.venc(g.any_top()) for _ in range(N)]
inp='\n'.join(c.hex() for c in cases)+'\n'
p=subprocess.run(['/tmp/scr/target/release/scr'],input=inp.encode(),capture_output=True)
lines=p.stdout.decode().strip().split('\n')
st=collections.Counter(); bad=[]
per=19
for i,l in enumerate(lines):
    name,res=l.split(' ',1)
    key=res.split(' ')[0]
    st[(name,key)]+=1
    if key not in ('rej','fix'): bad.append((cases[i//per].hex(),l))
acc=collections.Counter(); 
for (n,k),c in st.items():
    if k=='fix': acc[n]+=c
print('cases',N,'accepted per type',dict(acc))
print('non-fix outcomes',collections.Counter(l.split(' ')[0]+' '+l.split(' ')[1] for _,l in bad))
for c,l in bad[:8]: print(c[:160],'->',l[:200])
