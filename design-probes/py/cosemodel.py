"""Design probe: Python transcription of coset's Value<->typed conversions (layer B)."""
import re
from refcbor import decode as cbor_decode, encode as cbor_encode, render as rv
exec(open('extract_iana.py').read().split("print(")[0])   # regs, priv
REG={k:{v:n for n,v in rows} for k,rows in regs.items()}
class E(Exception):
    def __init__(s,k): s.k=k
I64=(-2**63,2**63-1)
def kind(v): return v[0]
def i64(n):
    if not (I64[0]<=n<=I64[1]): raise E('Range')
    return n
def read_to_value(b):
    r=cbor_decode(bytes(b))
    if r[0]=='err': raise E('Decode' if r[1]=='decode' else 'Extra')
    return r[1]
# ---- labels
def label_from(v):
    if v[0]=='int': return ('i',i64(v[1]))
    if v[0]=='text': return ('t',v[1])
    raise E('Item')
def label_to(l): return ('int',l[1]) if l[0]=='i' else ('text',l[1])
def label_key(l):
    # ordering consistent with Label::cmp : we only need equality for sets
    return l
def rl_from(reg,v):
    if v[0]=='int':
        n=i64(v[1])
        if n in REG[reg]: return ('A',n)
        raise E('Unreg')
    if v[0]=='text': return ('X',v[1])
    raise E('Item')
def rlp_from(reg,v):
    if v[0]=='int':
        n=i64(v[1])
        if n in REG[reg]: return ('A',n)
        if n < -65536: return ('P',n)
        raise E('UnregNonPriv')
    if v[0]=='text': return ('X',v[1])
    raise E('Item')
def rl_to(l): return ('text',l[1]) if l[0]=='X' else ('int',l[1])
def r_lab(l): return ('i%d'%l[1]) if l[0]=='i' else 't'+l[1].hex()
def r_rl(l): return '%s%d'%(l[0],l[1]) if l[0] in 'AP' else 'X'+l[1].hex()
# ---- helpers
def as_array(v):
    if v[0]!='array': raise E('Item')
    return list(v[1])
def as_bytes(v):
    if v[0]!='bytes': raise E('Item')
    return v[1]
def as_nonempty(v):
    b=as_bytes(v)
    if not b: raise E('Item')
    return b
def as_map(v):
    if v[0]!='map': raise E('Item')
    return v[1]
WS=[0x9,0xa,0xb,0xc,0xd,0x20,0x85,0xa0,0x1680]+list(range(0x2000,0x200b))+[0x2028,0x2029,0x202f,0x205f,0x3000]
def trimmed(t):
    s=t.decode('utf-8')
    return s.strip(''.join(chr(c) for c in WS))==s  # python strip with explicit set
# ---- header
def header_from(v):
    m=as_map(v)
    h=dict(alg=None,crit=[],ct=None,kid=b'',iv=b'',piv=b'',cs=[],rest=[])
    seen=set()
    for (l,val) in m:
        lab=label_from(l)
        if lab in seen: raise E('Dup')
        seen.add(lab)
        if lab==('i',1): h['alg']=rlp_from('Algorithm',val)
        elif lab==('i',2):
            if val[0]!='array': raise E('Item')
            if not val[1]: raise E('Item')
            for x in val[1]: h['crit'].append(rl_from('HeaderParameter',x))
        elif lab==('i',3):
            ct=rl_from('CoapContentFormat',val); h['ct']=ct
            if ct[0]=='X':
                t=ct[1]
                if not t: raise E('Item')
                if not trimmed(t): raise E('Item')
                if t.count(b'/')!=1: raise E('Item')
        elif lab==('i',4): h['kid']=as_nonempty(val)
        elif lab==('i',5): h['iv']=as_nonempty(val)
        elif lab==('i',6): h['piv']=as_nonempty(val)
        elif lab==('i',7):
            a=as_array(val)
            if not a: raise E('Item')
            if a[0][0]=='bytes': h['cs'].append(sig_from(('array',a)))
            elif a[0][0]=='array':
                for s in a: h['cs'].append(sig_from(s))
            else: raise E('Item')
        else: h['rest'].append((lab,val))
        if h['iv'] and h['piv']: raise E('Item')
    return h
def header_empty(h): return h['alg'] is None and not h['crit'] and h['ct'] is None and not h['kid'] and not h['iv'] and not h['piv'] and not h['cs'] and not h['rest']
def header_to(h):
    m=[]
    if h['alg'] is not None: m.append((('int',1),rl_to(h['alg'])))
    if h['crit']: m.append((('int',2),('array',[rl_to(x) for x in h['crit']])))
    if h['ct'] is not None: m.append((('int',3),rl_to(h['ct'])))
    if h['kid']: m.append((('int',4),('bytes',h['kid'])))
    if h['iv']: m.append((('int',5),('bytes',h['iv'])))
    if h['piv']: m.append((('int',6),('bytes',h['piv'])))
    if h['cs']:
        if len(h['cs'])==1: m.append((('int',7),sig_to(h['cs'][0])))
        else: m.append((('int',7),('array',[sig_to(s) for s in h['cs']])))
    seen=set()
    for l,v in h['rest']:
        if l in seen: raise E('Dup')
        seen.add(l); m.append((label_to(l),v))
    return ('map',m)
def ph_from_bstr(v):
    d=as_bytes(v)
    if not d: h=header_from(('map',[]))
    else: h=header_from(read_to_value(d))
    return dict(orig=d,hdr=h)
def ph_from_value(v): return dict(orig=None,hdr=header_from(v))
def ph_bstr(p):
    if p['orig'] is not None: return ('bytes',p['orig'])
    if header_empty(p['hdr']): return ('bytes',b'')
    return ('bytes',cbor_encode(header_to(p['hdr'])))
def sig_from(v):
    a=as_array(v)
    if len(a)!=3: raise E('Item')
    s=as_bytes(a[2]); u=header_from(a[1]); p=ph_from_bstr(a[0])
    return dict(p=p,u=u,sig=s)
def sig_to(s): return ('array',[ph_bstr(s['p']),header_to(s['u']),('bytes',s['sig'])])
def opt_bytes(v):
    if v[0]=='bytes': return v[1]
    if v[0]=='null': return None
    raise E('Item')
def ob_to(b): return ('null',) if b is None else ('bytes',b)
def sign_from(v):
    a=as_array(v)
    if len(a)!=4: raise E('Item')
    sa=as_array(a[3]); sigs=[]
    for x in sa:
        try: sigs.append(sig_from(x))
        except E: raise E('Item')
    pl=opt_bytes(a[2]); u=header_from(a[1]); p=ph_from_bstr(a[0])
    return dict(p=p,u=u,payload=pl,sigs=sigs)
def sign_to(m): return ('array',[ph_bstr(m['p']),header_to(m['u']),ob_to(m['payload']),('array',[sig_to(s) for s in m['sigs']])])
def sign1_from(v):
    a=as_array(v)
    if len(a)!=4: raise E('Item')
    s=as_bytes(a[3]); pl=opt_bytes(a[2]); u=header_from(a[1]); p=ph_from_bstr(a[0])
    return dict(p=p,u=u,payload=pl,sig=s)
def sign1_to(m): return ('array',[ph_bstr(m['p']),header_to(m['u']),ob_to(m['payload']),('bytes',m['sig'])])
def rcp_from(v):
    a=as_array(v)
    if len(a) not in (3,4): raise E('Item')
    rc=[rcp_from(x) for x in as_array(a[3])] if len(a)==4 else []
    ct=opt_bytes(a[2]); u=header_from(a[1]); p=ph_from_bstr(a[0])
    return dict(p=p,u=u,ct=ct,rcps=rc)
def rcp_to(r):
    a=[ph_bstr(r['p']),header_to(r['u']),ob_to(r['ct'])]
    if r['rcps']: a.append(('array',[rcp_to(x) for x in r['rcps']]))
    return ('array',a)
def enc_from(v):
    a=as_array(v)
    if len(a)!=4: raise E('Item')
    rc=[rcp_from(x) for x in as_array(a[3])]
    ct=opt_bytes(a[2]); u=header_from(a[1]); p=ph_from_bstr(a[0])
    return dict(p=p,u=u,ct=ct,rcps=rc)
def enc_to(m): return ('array',[ph_bstr(m['p']),header_to(m['u']),ob_to(m['ct']),('array',[rcp_to(x) for x in m['rcps']])])
def enc0_from(v):
    a=as_array(v)
    if len(a)!=3: raise E('Item')
    ct=opt_bytes(a[2]); u=header_from(a[1]); p=ph_from_bstr(a[0])
    return dict(p=p,u=u,ct=ct)
def enc0_to(m): return ('array',[ph_bstr(m['p']),header_to(m['u']),ob_to(m['ct'])])
def mac_from(v):
    a=as_array(v)
    if len(a)!=5: raise E('Item')
    rc=[rcp_from(x) for x in as_array(a[4])]
    tag=as_bytes(a[3]); pl=opt_bytes(a[2]); u=header_from(a[1]); p=ph_from_bstr(a[0])
    return dict(p=p,u=u,payload=pl,tag=tag,rcps=rc)
def mac_to(m): return ('array',[ph_bstr(m['p']),header_to(m['u']),ob_to(m['payload']),('bytes',m['tag']),('array',[rcp_to(x) for x in m['rcps']])])
def mac0_from(v):
    a=as_array(v)
    if len(a)!=4: raise E('Item')
    tag=as_bytes(a[3]); pl=opt_bytes(a[2]); u=header_from(a[1]); p=ph_from_bstr(a[0])
    return dict(p=p,u=u,payload=pl,tag=tag)
def mac0_to(m): return ('array',[ph_bstr(m['p']),header_to(m['u']),ob_to(m['payload']),('bytes',m['tag'])])
# ---- key
def lab_sort_key(l):
    # order of RegisteredLabel (= order of deterministic encodings)
    v=rl_to(l); return cbor_encode(v)
def key_from(v):
    m=as_map(v)
    k=dict(kty=('A',0),kid=b'',alg=None,ops=[],biv=b'',params=[]); seen=set()
    for l,val in m:
        lab=label_from(l)
        if lab in seen: raise E('Dup')
        seen.add(lab)
        if lab==('i',1): k['kty']=rl_from('KeyType',val)
        elif lab==('i',2): k['kid']=as_nonempty(val)
        elif lab==('i',3): k['alg']=rlp_from('Algorithm',val)
        elif lab==('i',4):
            for x in as_array(val):
                op=rl_from('KeyOperation',x)
                if op in k['ops']: raise E('Item')
                k['ops'].append(op)
            if not k['ops']: raise E('Item')
        elif lab==('i',5): k['biv']=as_nonempty(val)
        else: k['params'].append((lab,val))
    if k['kty']==('A',0): raise E('Item')
    k['ops']=sorted(k['ops'],key=lab_sort_key)
    return k
def key_to(k):
    m=[(('int',1),rl_to(k['kty']))]
    if k['kid']: m.append((('int',2),('bytes',k['kid'])))
    if k['alg'] is not None: m.append((('int',3),rl_to(k['alg'])))
    if k['ops']: m.append((('int',4),('array',[rl_to(x) for x in k['ops']])))
    if k['biv']: m.append((('int',5),('bytes',k['biv'])))
    seen=set()
    for l,v in k['params']:
        if l in seen: raise E('Dup')
        seen.add(l); m.append((label_to(l),v))
    return ('map',m)
def keyset_from(v): return [key_from(x) for x in as_array(v)]
def keyset_to(ks): return ('array',[key_to(k) for k in ks])
# ---- cwt
def ts_from(v):
    if v[0]=='int': return ('W',i64(v[1]))
    if v[0]=='float': return ('F',v[1])
    raise E('Item')
def ts_to(t): return ('int',t[1]) if t[0]=='W' else ('float',t[1])
def as_text(v):
    if v[0]!='text': raise E('Item')
    return v[1]
def cwt_from(v):
    if v[0]!='map': raise E('Item')
    c=dict(iss=None,sub=None,aud=None,exp=None,nbf=None,iat=None,cti=None,rest=[]); seen=set()
    for n,val in v[1]:
        name=rlp_from('CwtClaimName',n)
        if name in seen: raise E('Dup')
        seen.add(name)
        if name==('A',1): c['iss']=as_text(val)
        elif name==('A',2): c['sub']=as_text(val)
        elif name==('A',3): c['aud']=as_text(val)
        elif name==('A',4): c['exp']=ts_from(val)
        elif name==('A',5): c['nbf']=ts_from(val)
        elif name==('A',6): c['iat']=ts_from(val)
        elif name==('A',7): c['cti']=as_bytes(val)
        else: c['rest'].append((name,val))
    return c
def cwt_to(c):
    m=[]
    for i,f in ((1,'iss'),(2,'sub'),(3,'aud')):
        if c[f] is not None: m.append((('int',i),('text',c[f])))
    for i,f in ((4,'exp'),(5,'nbf'),(6,'iat')):
        if c[f] is not None: m.append((('int',i),ts_to(c[f])))
    if c['cti'] is not None: m.append((('int',7),('bytes',c['cti'])))
    for l,v in c['rest']: m.append((rl_to(l),v))
    return ('map',m)
# ---- context
def pi_from(v):
    a=as_array(v)
    if len(a)!=3: raise E('Item')
    other=opt_bytes(a[2])
    x=a[1]
    if x[0]=='null': nonce=None
    elif x[0]=='bytes': nonce=('b',x[1])
    elif x[0]=='int': nonce=('i',i64(x[1]))
    else: raise E('Item')
    ident=opt_bytes(a[0])
    return dict(id=ident,nonce=nonce,other=other)
def pi_to(p):
    n=p['nonce']
    return ('array',[ob_to(p['id']),('null',) if n is None else (('bytes',n[1]) if n[0]=='b' else ('int',n[1])),ob_to(p['other'])])
def spi_from(v):
    a=as_array(v)
    if len(a) not in (2,3): raise E('Item')
    other=as_bytes(a[2]) if len(a)==3 else None
    p=ph_from_bstr(a[1])
    if a[0][0]!='int': raise E('Item')
    n=a[0][1]
    if not (0<=n<2**64): raise E('Range')
    return dict(len=n,p=p,other=other)
def spi_to(s):
    a=[('int',s['len']),ph_bstr(s['p'])]
    if s['other'] is not None: a.append(('bytes',s['other']))
    return ('array',a)
def kdf_from(v):
    a=as_array(v)
    if len(a)<4: raise E('Item')
    priv=[]
    for i in range(len(a)-1,3,-1): priv.append(as_bytes(a[i]))
    priv.reverse()
    spi=spi_from(a[3]); pv=pi_from(a[2]); pu=pi_from(a[1]); alg=rlp_from('Algorithm',a[0])
    return dict(alg=alg,u=pu,v=pv,spi=spi,priv=priv)
def kdf_to(k): return ('array',[rl_to(k['alg']),pi_to(k['u']),pi_to(k['v']),spi_to(k['spi'])]+[('bytes',b) for b in k['priv']])
# ---- rendering (must match probe runner)
def oh(b): return '-' if b is None else 'b'+b.hex()
def lst(xs,f): return '['+','.join(f(x) for x in xs)+']'
def rvn(v):
    k=v[0]
    if k=='float':
        b=v[1]
        return 'fnan' if ((b>>52)&0x7ff)==0x7ff and (b&0xFFFFFFFFFFFFF) else 'f%016x'%b
    if k=='tag': return 'g%d(%s)'%(v[1],rvn(v[2]))
    if k=='array': return '['+','.join(rvn(x) for x in v[1])+']'
    if k=='map': return '{'+','.join(rvn(a)+':'+rvn(b) for a,b in v[1])+'}'
    return rv(v)
def r_hdr(h): return 'H{alg=%s;crit=%s;ct=%s;kid=%s;iv=%s;piv=%s;cs=%s;rest=%s}'%('-' if h['alg'] is None else r_rl(h['alg']),lst(h['crit'],r_rl),'-' if h['ct'] is None else r_rl(h['ct']),h['kid'].hex(),h['iv'].hex(),h['piv'].hex(),lst(h['cs'],r_sig),lst(h['rest'],lambda p:'(%s,%s)'%(r_lab(p[0]),rvn(p[1]))))
def r_ph(p): return 'PH{orig=%s;hdr=%s}'%(oh(p['orig']),r_hdr(p['hdr']))
def r_sig(s): return 'SIG{p=%s;u=%s;sig=%s}'%(r_ph(s['p']),r_hdr(s['u']),s['sig'].hex())
def r_rcp(r): return 'RCP{p=%s;u=%s;ct=%s;rcps=%s}'%(r_ph(r['p']),r_hdr(r['u']),oh(r['ct']),lst(r['rcps'],r_rcp))
def r_key(k): return 'KEY{kty=%s;kid=%s;alg=%s;ops=%s;biv=%s;params=%s}'%(r_rl(k['kty']),k['kid'].hex(),'-' if k['alg'] is None else r_rl(k['alg']),lst(k['ops'],r_rl),k['biv'].hex(),lst(k['params'],lambda p:'(%s,%s)'%(r_lab(p[0]),rvn(p[1]))))
def r_ts(t):
    if t is None: return '-'
    if t[0]=='W': return 'W%d'%t[1]
    b=t[1]; 
    if (b>>52)&0x7ff==0x7ff and b&0xFFFFFFFFFFFFF: return 'Fnan'
    return 'F%016x'%b
def r_os(t): return '-' if t is None else 't'+t.hex()
def r_cwt(c): return 'CWT{iss=%s;sub=%s;aud=%s;exp=%s;nbf=%s;iat=%s;cti=%s;rest=%s}'%(r_os(c['iss']),r_os(c['sub']),r_os(c['aud']),r_ts(c['exp']),r_ts(c['nbf']),r_ts(c['iat']),oh(c['cti']),lst(c['rest'],lambda p:'(%s,%s)'%(r_rl(p[0]),rvn(p[1]))))
def r_pi(p):
    n=p['nonce']; return 'PI{id=%s;nonce=%s;other=%s}'%(oh(p['id']),'-' if n is None else ('b'+n[1].hex() if n[0]=='b' else 'i%d'%n[1]),oh(p['other']))
def r_spi(s): return 'SPI{len=%d;p=%s;other=%s}'%(s['len'],r_ph(s['p']),oh(s['other']))
TYPES=[
 ('Header',header_from,header_to,r_hdr),('ProtectedHeader',ph_from_value,lambda p:header_to(p['hdr']),r_ph),('CoseSignature',sig_from,sig_to,r_sig),
 ('CoseSign',sign_from,sign_to,lambda m:'SIGN{p=%s;u=%s;payload=%s;sigs=%s}'%(r_ph(m['p']),r_hdr(m['u']),oh(m['payload']),lst(m['sigs'],r_sig))),
 ('CoseSign1',sign1_from,sign1_to,lambda m:'SIGN1{p=%s;u=%s;payload=%s;sig=%s}'%(r_ph(m['p']),r_hdr(m['u']),oh(m['payload']),m['sig'].hex())),
 ('CoseRecipient',rcp_from,rcp_to,r_rcp),
 ('CoseEncrypt',enc_from,enc_to,lambda m:'ENC{p=%s;u=%s;ct=%s;rcps=%s}'%(r_ph(m['p']),r_hdr(m['u']),oh(m['ct']),lst(m['rcps'],r_rcp))),
 ('CoseEncrypt0',enc0_from,enc0_to,lambda m:'ENC0{p=%s;u=%s;ct=%s}'%(r_ph(m['p']),r_hdr(m['u']),oh(m['ct']))),
 ('CoseMac',mac_from,mac_to,lambda m:'MAC{p=%s;u=%s;payload=%s;tag=%s;rcps=%s}'%(r_ph(m['p']),r_hdr(m['u']),oh(m['payload']),m['tag'].hex(),lst(m['rcps'],r_rcp))),
 ('CoseMac0',mac0_from,mac0_to,lambda m:'MAC0{p=%s;u=%s;payload=%s;tag=%s}'%(r_ph(m['p']),r_hdr(m['u']),oh(m['payload']),m['tag'].hex())),
 ('CoseKey',key_from,key_to,r_key),('CoseKeySet',keyset_from,keyset_to,lambda ks:lst(ks,r_key)),('ClaimsSet',cwt_from,cwt_to,r_cwt),
 ('CoseKdfContext',kdf_from,kdf_to,lambda k:'KDF'),('PartyInfo',pi_from,pi_to,r_pi),('SuppPubInfo',spi_from,spi_to,r_spi),
 ('Label',label_from,label_to,r_lab),('Algorithm',lambda v:rlp_from('Algorithm',v),rl_to,r_rl),('ContentType',lambda v:rl_from('CoapContentFormat',v),rl_to,r_rl)]
def model_line(name,frm,to,rend,b):
    try:
        v=frm(read_to_value(b))
    except E as e: return '%s err %s'%(name,e.k)
    s=rend(v)
    try: return '%s ok %s %s'%(name,s,cbor_encode(to(v)).hex())
    except E as e: return '%s ok %s encerr:%s'%(name,s,e.k)
