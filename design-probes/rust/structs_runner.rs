// design probe: structure bytes seen by closures for decoded messages
use coset::*;
use std::io::{BufRead, Write};
fn hx(b: &[u8]) -> String { hex::encode(b) }
fn main() {
    std::panic::set_hook(Box::new(|_| {}));
    let stdin = std::io::stdin(); let o = std::io::stdout(); let mut out = std::io::BufWriter::new(o.lock());
    for line in stdin.lock().lines() {
        let line = line.unwrap(); let mut it = line.trim().split(' ');
        let b = hex::decode(it.next().unwrap()).unwrap(); let aad = hex::decode(it.next().unwrap_or("")).unwrap(); let pl = hex::decode(it.next().unwrap_or("")).unwrap();
        let b = &b[..];
        let mut res: Vec<String> = vec![];
        if let Ok(m) = CoseSign1::from_slice(b) {
            let mut seen = vec![]; let r: Result<(), u8> = m.verify_signature(&aad, |s, d| { seen.push((s.to_vec(), d.to_vec())); Err(7) });
            res.push(format!("S1 {} {} {:?}", hx(&seen[0].0), hx(&seen[0].1), r));
            let mm = m.clone(); let a3 = aad.clone(); let p3 = pl.clone();
            let r = std::panic::catch_unwind(move || mm.tbs_detached_data(&p3, &a3));
            res.push(match r { Ok(d) => format!("S1D {}", hx(&d)), Err(_) => "S1D panic".into() });
        }
        if let Ok(m) = CoseSign::from_slice(b) {
            for i in 0..m.signatures.len() {
                let mut seen = vec![]; let _r: Result<(), u8> = m.verify_signature(i, &aad, |s, d| { seen.push((s.to_vec(), d.to_vec())); Ok(()) });
                res.push(format!("S{} {} {}", i, hx(&seen[0].0), hx(&seen[0].1)));
            }
        }
        if let Ok(m) = CoseMac0::from_slice(b) {
            let mm = m.clone(); let a2 = aad.clone();
            let r = std::panic::catch_unwind(move || { let mut seen = vec![]; let _r: Result<(), u8> = mm.verify_tag(&a2, |t, d| { seen.push((t.to_vec(), d.to_vec())); Ok(()) }); seen });
            res.push(match r { Ok(s) => format!("M0 {} {}", hx(&s[0].0), hx(&s[0].1)), Err(_) => "M0 panic".into() });
        }
        if let Ok(m) = CoseMac::from_slice(b) {
            let mm = m.clone(); let a2 = aad.clone();
            let r = std::panic::catch_unwind(move || { let mut seen = vec![]; let _r: Result<(), u8> = mm.verify_tag(&a2, |t, d| { seen.push((t.to_vec(), d.to_vec())); Ok(()) }); seen });
            res.push(match r { Ok(s) => format!("M {} {}", hx(&s[0].0), hx(&s[0].1)), Err(_) => "M panic".into() });
        }
        if let Ok(m) = CoseEncrypt0::from_slice(b) {
            let mm = m.clone(); let a2 = aad.clone();
            let r = std::panic::catch_unwind(move || { let mut seen = vec![]; let _r: Result<Vec<u8>, u8> = mm.decrypt(&a2, |c, d| { seen.push((c.to_vec(), d.to_vec())); Ok(vec![]) }); seen });
            res.push(match r { Ok(s) => format!("E0 {} {}", hx(&s[0].0), hx(&s[0].1)), Err(_) => "E0 panic".into() });
        }
        if let Ok(m) = CoseEncrypt::from_slice(b) {
            let mm = m.clone(); let a2 = aad.clone();
            let r = std::panic::catch_unwind(move || { let mut seen = vec![]; let _r: Result<Vec<u8>, u8> = mm.decrypt(&a2, |c, d| { seen.push((c.to_vec(), d.to_vec())); Ok(vec![]) }); seen });
            res.push(match r { Ok(s) => format!("E {} {}", hx(&s[0].0), hx(&s[0].1)), Err(_) => "E panic".into() });
        }
        if let Ok(m) = CoseRecipient::from_slice(b) {
            for (n, ctx) in [("RE", EncryptionContext::EncRecipient), ("RM", EncryptionContext::MacRecipient), ("RR", EncryptionContext::RecRecipient), ("RX", EncryptionContext::CoseEncrypt0)] {
                let mm = m.clone(); let a2 = aad.clone();
                let r = std::panic::catch_unwind(move || { let mut seen = vec![]; let _r: Result<Vec<u8>, u8> = mm.decrypt(ctx, &a2, |c, d| { seen.push((c.to_vec(), d.to_vec())); Ok(vec![]) }); seen });
                res.push(match r { Ok(s) => format!("{} {} {}", n, hx(&s[0].0), hx(&s[0].1)), Err(_) => format!("{} panic", n) });
            }
        }
        writeln!(out, "{}", res.join(" | ")).unwrap();
    }
}
fn aad_clone(a: &[u8]) -> Vec<u8> { a.to_vec() }
