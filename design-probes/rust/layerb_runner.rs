// design probe: canonical rendering of every coset type after decode, plus re-encoding
use coset::{cbor::value::Value, cwt::{ClaimsSet, Timestamp, ClaimName}, *};
use std::io::{BufRead, Write};
use std::fmt::Write as _;

fn hx(b: &[u8]) -> String { hex::encode(b) }
fn oh(b: &Option<Vec<u8>>) -> String { match b { Some(b) => format!("b{}", hx(b)), None => "-".into() } }
fn rv(v: &Value, o: &mut String) {
    match v {
        Value::Integer(i) => { write!(o, "i{}", i128::from(*i)).unwrap(); }
        Value::Bytes(b) => { o.push('b'); o.push_str(&hx(b)); }
        Value::Text(t) => { o.push('t'); o.push_str(&hx(t.as_bytes())); }
        Value::Float(f) => { if f.is_nan() { o.push_str("fnan") } else { write!(o, "f{:016x}", f.to_bits()).unwrap(); } }
        Value::Bool(b) => o.push(if *b {'T'} else {'F'}),
        Value::Null => o.push('N'),
        Value::Tag(t, v) => { write!(o, "g{}(", t).unwrap(); rv(v, o); o.push(')'); }
        Value::Array(a) => { o.push('['); for (i,x) in a.iter().enumerate() { if i>0 {o.push(',');} rv(x,o);} o.push(']'); }
        Value::Map(m) => { o.push('{'); for (i,(k,x)) in m.iter().enumerate() { if i>0 {o.push(',');} rv(k,o); o.push(':'); rv(x,o);} o.push('}'); }
        _ => o.push('?'),
    }
}
fn val(v: &Value) -> String { let mut s = String::new(); rv(v, &mut s); s }
fn label(l: &Label) -> String { match l { Label::Int(i) => format!("i{}", i), Label::Text(t) => format!("t{}", hx(t.as_bytes())) } }
fn rl<T: iana::EnumI64>(l: &RegisteredLabel<T>) -> String { match l { RegisteredLabel::Assigned(a) => format!("A{}", a.to_i64()), RegisteredLabel::Text(t) => format!("X{}", hx(t.as_bytes())) } }
fn rlp<T: iana::EnumI64 + iana::WithPrivateRange>(l: &RegisteredLabelWithPrivate<T>) -> String { match l {
    RegisteredLabelWithPrivate::Assigned(a) => format!("A{}", a.to_i64()), RegisteredLabelWithPrivate::PrivateUse(i) => format!("P{}", i),
    RegisteredLabelWithPrivate::Text(t) => format!("X{}", hx(t.as_bytes())) } }
fn list<T>(v: &[T], f: impl Fn(&T) -> String) -> String { format!("[{}]", v.iter().map(f).collect::<Vec<_>>().join(",")) }
fn hdr(h: &Header) -> String {
    format!("H{{alg={};crit={};ct={};kid={};iv={};piv={};cs={};rest={}}}",
        h.alg.as_ref().map(rlp).unwrap_or("-".into()), list(&h.crit, rl), h.content_type.as_ref().map(rl).unwrap_or("-".into()),
        hx(&h.key_id), hx(&h.iv), hx(&h.partial_iv), list(&h.counter_signatures, sig),
        list(&h.rest, |(l,v)| format!("({},{})", label(l), val(v))))
}
fn ph(p: &ProtectedHeader) -> String { format!("PH{{orig={};hdr={}}}", oh(&p.original_data), hdr(&p.header)) }
fn sig(s: &CoseSignature) -> String { format!("SIG{{p={};u={};sig={}}}", ph(&s.protected), hdr(&s.unprotected), hx(&s.signature)) }
fn rcp(r: &CoseRecipient) -> String { format!("RCP{{p={};u={};ct={};rcps={}}}", ph(&r.protected), hdr(&r.unprotected), oh(&r.ciphertext), list(&r.recipients, rcp)) }
fn key(k: &CoseKey) -> String {
    format!("KEY{{kty={};kid={};alg={};ops={};biv={};params={}}}", rl(&k.kty), hx(&k.key_id), k.alg.as_ref().map(rlp).unwrap_or("-".into()),
        list(&k.key_ops.iter().cloned().collect::<Vec<_>>(), rl), hx(&k.base_iv), list(&k.params, |(l,v)| format!("({},{})", label(l), val(v))))
}
fn ts(t: &Option<Timestamp>) -> String { match t { None => "-".into(), Some(Timestamp::WholeSeconds(i)) => format!("W{}", i), Some(Timestamp::FractionalSeconds(f)) => if f.is_nan() {"Fnan".into()} else {format!("F{:016x}", f.to_bits())} } }
fn os(t: &Option<String>) -> String { match t { None => "-".into(), Some(s) => format!("t{}", hx(s.as_bytes())) } }
fn cwt(c: &ClaimsSet) -> String {
    format!("CWT{{iss={};sub={};aud={};exp={};nbf={};iat={};cti={};rest={}}}", os(&c.issuer), os(&c.subject), os(&c.audience), ts(&c.expiration_time), ts(&c.not_before), ts(&c.issued_at), oh(&c.cwt_id),
        list(&c.rest, |(l,v): &(ClaimName, Value)| format!("({},{})", rlp(l), val(v))))
}
fn nonce(n: &Option<Nonce>) -> String { match n { None => "-".into(), Some(Nonce::Bytes(b)) => format!("b{}", hx(b)), Some(Nonce::Integer(i)) => format!("i{}", i) } }
fn pi(p: &PartyInfo) -> String { format!("PI{{id={};nonce={};other={}}}", oh(&p.identity), nonce(&p.nonce), oh(&p.other)) }
fn spi(p: &SuppPubInfo) -> String { format!("SPI{{len={};p={};other={}}}", p.key_data_length, ph(&p.protected), oh(&p.other)) }
fn ek(e: &CoseError) -> &'static str { match e {
    CoseError::DecodeFailed(_) => "Decode", CoseError::DuplicateMapKey => "Dup", CoseError::EncodeFailed => "Encode", CoseError::ExtraneousData => "Extra",
    CoseError::OutOfRangeIntegerValue => "Range", CoseError::UnexpectedItem(_, _) => "Item", CoseError::UnregisteredIanaValue => "Unreg", CoseError::UnregisteredIanaNonPrivateValue => "UnregNonPriv" } }
fn run<T: CborSerializable + Clone>(name: &str, b: &[u8], f: impl Fn(&T) -> String + std::panic::RefUnwindSafe, out: &mut impl Write) {
    let r = std::panic::catch_unwind(|| match T::from_slice(b) {
        Err(e) => format!("err {}", ek(&e)),
        Ok(v) => { let s = f(&v); match v.to_vec() { Ok(e) => format!("ok {} {}", s, hx(&e)), Err(e) => format!("ok {} encerr:{}", s, ek(&e)) } }
    });
    writeln!(out, "{} {}", name, r.unwrap_or("PANIC".into())).unwrap();
}
fn main() {
    std::panic::set_hook(Box::new(|_| {}));
    let stdin = std::io::stdin(); let o = std::io::stdout(); let mut out = std::io::BufWriter::new(o.lock());
    for line in stdin.lock().lines() {
        let line = line.unwrap(); let b = hex::decode(line.trim()).unwrap(); let b = &b[..];
        run::<Header>("Header", b, hdr, &mut out);
        run::<ProtectedHeader>("ProtectedHeader", b, ph, &mut out);
        run::<CoseSignature>("CoseSignature", b, sig, &mut out);
        run::<CoseSign>("CoseSign", b, |m: &CoseSign| format!("SIGN{{p={};u={};payload={};sigs={}}}", ph(&m.protected), hdr(&m.unprotected), oh(&m.payload), list(&m.signatures, sig)), &mut out);
        run::<CoseSign1>("CoseSign1", b, |m: &CoseSign1| format!("SIGN1{{p={};u={};payload={};sig={}}}", ph(&m.protected), hdr(&m.unprotected), oh(&m.payload), hx(&m.signature)), &mut out);
        run::<CoseRecipient>("CoseRecipient", b, rcp, &mut out);
        run::<CoseEncrypt>("CoseEncrypt", b, |m: &CoseEncrypt| format!("ENC{{p={};u={};ct={};rcps={}}}", ph(&m.protected), hdr(&m.unprotected), oh(&m.ciphertext), list(&m.recipients, rcp)), &mut out);
        run::<CoseEncrypt0>("CoseEncrypt0", b, |m: &CoseEncrypt0| format!("ENC0{{p={};u={};ct={}}}", ph(&m.protected), hdr(&m.unprotected), oh(&m.ciphertext)), &mut out);
        run::<CoseMac>("CoseMac", b, |m: &CoseMac| format!("MAC{{p={};u={};payload={};tag={};rcps={}}}", ph(&m.protected), hdr(&m.unprotected), oh(&m.payload), hx(&m.tag), list(&m.recipients, rcp)), &mut out);
        run::<CoseMac0>("CoseMac0", b, |m: &CoseMac0| format!("MAC0{{p={};u={};payload={};tag={}}}", ph(&m.protected), hdr(&m.unprotected), oh(&m.payload), hx(&m.tag)), &mut out);
        run::<CoseKey>("CoseKey", b, key, &mut out);
        run::<CoseKeySet>("CoseKeySet", b, |k: &CoseKeySet| list(&k.0, key), &mut out);
        run::<ClaimsSet>("ClaimsSet", b, cwt, &mut out);
        run::<CoseKdfContext>("CoseKdfContext", b, |_k: &CoseKdfContext| "KDF".to_string(), &mut out);
        run::<PartyInfo>("PartyInfo", b, pi, &mut out);
        run::<SuppPubInfo>("SuppPubInfo", b, spi, &mut out);
        run::<Label>("Label", b, label, &mut out);
        run::<Algorithm>("Algorithm", b, rlp, &mut out);
        run::<ContentType>("ContentType", b, rl, &mut out);
    }
}
