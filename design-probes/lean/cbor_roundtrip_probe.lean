namespace Probe
abbrev Bytes := List UInt8

inductive Value where
  | int (n : Int)
  | bytes (b : Bytes)
  | text (b : Bytes)
  | float (bits : UInt64)
  | bool (b : Bool)
  | null
  | tag (t : Nat) (v : Value)
  | array (xs : List Value)
  | map (kvs : List (Value × Value))
  deriving Repr, BEq, Inhabited

def be1 (n : Nat) : Bytes := [UInt8.ofNat n]
def be2 (n : Nat) : Bytes := [UInt8.ofNat (n / 256), UInt8.ofNat n]
def be4 (n : Nat) : Bytes := be2 (n / 65536) ++ be2 n
def be8 (n : Nat) : Bytes := be4 (n / 4294967296) ++ be4 n

def encHead (major : Nat) (n : Nat) : Bytes :=
  if n < 24 then [UInt8.ofNat (major * 32 + n)]
  else if n < 256 then UInt8.ofNat (major * 32 + 24) :: be1 n
  else if n < 65536 then UInt8.ofNat (major * 32 + 25) :: be2 n
  else if n < 4294967296 then UInt8.ofNat (major * 32 + 26) :: be4 n
  else UInt8.ofNat (major * 32 + 27) :: be8 n

mutual
def encode : Value → Bytes
  | .int n => if n ≥ 0 then encHead 0 n.toNat else encHead 1 (-1 - n).toNat
  | .bytes b => encHead 2 b.length ++ b
  | .text b => encHead 3 b.length ++ b
  | .float bits => UInt8.ofNat 0xfb :: be8 bits.toNat
  | .bool b => [if b then 0xf5 else 0xf4]
  | .null => [0xf6]
  | .tag t v => encHead 6 t ++ encode v
  | .array xs => encHead 4 xs.length ++ encodeList xs
  | .map kvs => encHead 5 kvs.length ++ encodePairs kvs
def encodeList : List Value → Bytes
  | [] => []
  | x :: xs => encode x ++ encodeList xs
def encodePairs : List (Value × Value) → Bytes
  | [] => []
  | (k, v) :: kvs => encode k ++ encode v ++ encodePairs kvs
end

def val (bs : Bytes) : Nat := bs.foldl (fun acc b => acc * 256 + b.toNat) 0

def decHead : Bytes → Option (Nat × Nat × Bytes)
  | [] => none
  | b :: rest =>
    let major := b.toNat / 32
    let minor := b.toNat % 32
    if minor < 24 then some (major, minor, rest)
    else
      let k := if minor = 24 then 1 else if minor = 25 then 2 else if minor = 26 then 4 else if minor = 27 then 8 else 0
      if k = 0 then none else
      if rest.length < k then none else some (major, val (rest.take k), rest.drop k)

mutual
def dec (fuel : Nat) (bs : Bytes) : Option (Value × Bytes) :=
  match fuel with
  | 0 => none
  | fuel+1 =>
    match decHead bs with
    | none => none
    | some (0, n, rest) => some (.int n, rest)
    | some (1, n, rest) => some (.int (-1 - n), rest)
    | some (2, n, rest) => if rest.length < n then none else some (.bytes (rest.take n), rest.drop n)
    | some (3, n, rest) => if rest.length < n then none else some (.text (rest.take n), rest.drop n)
    | some (4, n, rest) => (decList fuel n rest).map fun (xs, r) => (.array xs, r)
    | some (5, n, rest) => (decPairs fuel n rest).map fun (xs, r) => (.map xs, r)
    | some (6, n, rest) => (dec fuel rest).map fun (v, r) => (.tag n v, r)
    | _ => none
def decList (fuel : Nat) (n : Nat) (bs : Bytes) : Option (List Value × Bytes) :=
  match fuel with
  | 0 => none
  | fuel+1 =>
    match n with
    | 0 => some ([], bs)
    | n+1 => match dec fuel bs with
      | none => none
      | some (v, r) => (decList fuel n r).map fun (xs, r') => (v :: xs, r')
def decPairs (fuel : Nat) (n : Nat) (bs : Bytes) : Option (List (Value × Value) × Bytes) :=
  match fuel with
  | 0 => none
  | fuel+1 =>
    match n with
    | 0 => some ([], bs)
    | n+1 => match dec fuel bs with
      | none => none
      | some (k, r) => match dec fuel r with
        | none => none
        | some (v, r2) => (decPairs fuel n r2).map fun (xs, r') => ((k, v) :: xs, r')
end

#eval encode (.map [(.int 1, .int (-7)), (.int 4, .bytes [1,2,3])])
#eval dec 100 (encode (.map [(.int 1, .int (-7)), (.int 4, .bytes [1,2,3])]))

theorem val_be8 (n : Nat) (h : n < 2^64) : val (be8 n) = n := by
  simp [val, be8, be4, be2, UInt8.toNat_ofNat']
  omega


theorem decHead_encHead (m n : Nat) (hm : m < 8) (hn : n < 2^64) (rest : Bytes) :
    decHead (encHead m n ++ rest) = some (m, n, rest) := by
  unfold encHead
  split
  · have h1 : (m * 32 + n) % 256 % 32 = n := by omega
    have h2 : (m * 32 + n) % 256 / 32 = m := by omega
    simp [decHead, UInt8.toNat_ofNat', h1, h2]; omega
  · split
    · have h1 : (m * 32 + 24) % 256 % 32 = 24 := by omega
      have h2 : (m * 32 + 24) % 256 / 32 = m := by omega
      simp [decHead, be1, val, UInt8.toNat_ofNat', h1, h2]; omega
    · split
      · have h1 : (m * 32 + 25) % 256 % 32 = 25 := by omega
        have h2 : (m * 32 + 25) % 256 / 32 = m := by omega
        simp [decHead, be2, val, UInt8.toNat_ofNat', h1, h2]; omega
      · split
        · have h1 : (m * 32 + 26) % 256 % 32 = 26 := by omega
          have h2 : (m * 32 + 26) % 256 / 32 = m := by omega
          simp [decHead, be4, be2, val, UInt8.toNat_ofNat', h1, h2]; omega
        · have h1 : (m * 32 + 27) % 256 % 32 = 27 := by omega
          have h2 : (m * 32 + 27) % 256 / 32 = m := by omega
          simp [decHead, be8, be4, be2, val, UInt8.toNat_ofNat', h1, h2]; omega

mutual
def size : Value → Nat
  | .tag _ v => size v + 1
  | .array xs => sizeL xs + 1
  | .map kvs => sizeP kvs + 1
  | _ => 1
def sizeL : List Value → Nat
  | [] => 1
  | x :: xs => size x + sizeL xs + 1
def sizeP : List (Value × Value) → Nat
  | [] => 1
  | (k, v) :: kvs => size k + size v + sizeP kvs + 1
end

mutual
def Good : Value → Prop
  | .int n => -(2^64 : Int) ≤ n ∧ n < 2^64
  | .bytes b => b.length < 2^64
  | .text b => b.length < 2^64
  | .tag t v => t < 2^64 ∧ Good v
  | .array xs => xs.length < 2^64 ∧ GoodL xs
  | .map kvs => kvs.length < 2^64 ∧ GoodP kvs
  | _ => False
def GoodL : List Value → Prop
  | [] => True
  | x :: xs => Good x ∧ GoodL xs
def GoodP : List (Value × Value) → Prop
  | [] => True
  | (k, v) :: kvs => Good k ∧ Good v ∧ GoodP kvs
end

theorem take_append_len (a b : Bytes) : (a ++ b).take a.length = a := by simp
theorem drop_append_len (a b : Bytes) : (a ++ b).drop a.length = b := by simp

theorem roundtrip : ∀ fuel,
    (∀ v s, Good v → size v ≤ fuel → dec fuel (encode v ++ s) = some (v, s)) ∧
    (∀ xs s, GoodL xs → sizeL xs ≤ fuel → decList fuel xs.length (encodeList xs ++ s) = some (xs, s)) ∧
    (∀ kvs s, GoodP kvs → sizeP kvs ≤ fuel → decPairs fuel kvs.length (encodePairs kvs ++ s) = some (kvs, s)) := by
  intro fuel
  induction fuel with
  | zero =>
    refine ⟨?_, ?_, ?_⟩
    · intro v s _ h; cases v <;> simp [size] at h
    · intro xs s _ h; cases xs <;> simp [sizeL] at h
    · intro kvs s _ h; cases kvs <;> simp [sizeP] at h
  | succ fuel ih =>
    obtain ⟨ihv, ihl, ihp⟩ := ih
    refine ⟨?_, ?_, ?_⟩
    · intro v s hg hs
      cases v with
      | int n =>
        simp only [Good] at hg
        simp only [encode]
        split
        · rw [dec, decHead_encHead 0 _ (by omega) (by omega)]
          simp; omega
        · rw [dec, decHead_encHead 1 _ (by omega) (by omega)]
          simp; omega
      | bytes b =>
        simp only [Good] at hg
        simp only [encode, List.append_assoc]
        rw [dec, decHead_encHead 2 _ (by omega) hg]
        simp
      | text b =>
        simp only [Good] at hg
        simp only [encode, List.append_assoc]
        rw [dec, decHead_encHead 3 _ (by omega) hg]
        simp
      | tag t v =>
        simp only [Good] at hg
        simp only [encode, List.append_assoc]
        rw [dec, decHead_encHead 6 _ (by omega) hg.1]
        simp only [size] at hs
        simp [ihv v s hg.2 (by omega)]
      | array xs =>
        simp only [Good] at hg
        simp only [encode, List.append_assoc]
        rw [dec, decHead_encHead 4 _ (by omega) hg.1]
        simp only [size] at hs
        simp [ihl xs s hg.2 (by omega)]
      | map kvs =>
        simp only [Good] at hg
        simp only [encode, List.append_assoc]
        rw [dec, decHead_encHead 5 _ (by omega) hg.1]
        simp only [size] at hs
        simp [ihp kvs s hg.2 (by omega)]
      | float _ => simp [Good] at hg
      | bool _ => simp [Good] at hg
      | null => simp [Good] at hg
    · intro xs s hg hs
      cases xs with
      | nil => simp [decList, encodeList]
      | cons x xs =>
        simp only [GoodL] at hg
        simp only [sizeL] at hs
        simp only [encodeList, List.append_assoc, List.length_cons]
        rw [decList]
        simp [ihv x _ hg.1 (by omega), ihl xs s hg.2 (by omega)]
    · intro kvs s hg hs
      cases kvs with
      | nil => simp [decPairs, encodePairs]
      | cons kv kvs =>
        obtain ⟨k, v⟩ := kv
        simp only [GoodP] at hg
        simp only [sizeP] at hs
        simp only [encodePairs, List.append_assoc, List.length_cons]
        rw [decPairs]
        simp [ihv k _ hg.1 (by omega), ihv v _ hg.2.1 (by omega), ihp kvs s hg.2.2 (by omega)]

#print axioms roundtrip
end Probe
