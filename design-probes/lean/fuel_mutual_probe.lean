import Leanprobe.Basic  -- = cbor_roundtrip_probe.lean
namespace Probe

structure Sig where
  protBytes : Bytes
  prot : List Sig      -- stands for "header holding counter signatures" (parsed from protBytes)
  unprot : List Sig
  sig : Bytes
  deriving Repr

inductive Err | bad | fuel deriving Repr, DecidableEq

def parseAll (bs : Bytes) : Except Err Value :=
  match dec (bs.length + 1) bs with
  | some (v, []) => .ok v
  | _ => .error .bad

mutual
/-- header = map; label 7 holds a signature or array of signatures; everything else ignored -/
def hdrFrom (fuel : Nat) (v : Value) : Except Err (List Sig) :=
  match fuel with
  | 0 => .error .fuel
  | fuel+1 =>
    match v with
    | .map kvs => kvs.foldlM (fun acc (kv : Value × Value) =>
        match kv with
        | (.int 7, .array (.bytes b :: rest)) => do
            let s ← sigFrom fuel (.array (.bytes b :: rest)); pure (acc ++ [s])
        | (.int 7, .array xs) => do
            let ss ← xs.mapM (sigFrom fuel); pure (acc ++ ss)
        | (.int 7, _) => .error .bad
        | _ => pure acc) []
    | _ => .error .bad
def sigFrom (fuel : Nat) (v : Value) : Except Err Sig :=
  match fuel with
  | 0 => .error .fuel
  | fuel+1 =>
    match v with
    | .array [.bytes p, u, .bytes s] => do
        let ph ← if p = [] then pure [] else (parseAll p >>= hdrFrom fuel)
        let uh ← hdrFrom fuel u
        pure { protBytes := p, prot := ph, unprot := uh, sig := s }
    | _ => .error .bad
end

def nestW : Nat → Bytes
  | 0 => [0xa0]
  | n+1 => let inner := nestW n
           [0xa1, 0x07, 0x83] ++ encHead 2 inner.length ++ inner ++ [0xa0, 0x40]

#eval (parseAll (nestW 5) >>= hdrFrom 100).map (fun l => l.length)
end Probe
