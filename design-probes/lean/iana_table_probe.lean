import Leanprobe.Gen
import Leanprobe.Ref

namespace IanaProbe

/-- kernel-checked equality of generated and reference tables -/
theorem alg_eq : Gen.Algorithm = Ref.Algorithm := by decide
theorem coap_eq : Gen.CoapContentFormat = Ref.CoapContentFormat := rfl

def fromI (t : List (String × Int)) (i : Int) : Option String :=
  (t.find? (fun p => p.2 == i)).map (·.1)
def toI (t : List (String × Int)) (n : String) : Option Int :=
  (t.find? (fun p => p.1 == n)).map (·.2)

theorem alg_vals_nodup : (Gen.Algorithm.map (·.2)).Nodup := by decide +kernel
theorem coap_vals_nodup : (Gen.CoapContentFormat.map (·.2)).Nodup := by decide +kernel

/-- generic: lookup by value then by name returns the value, given Nodup names -/
theorem fromI_toI (t : List (String × Int)) (i : Int) (n : String)
    (h : fromI t i = some n) : ∃ j, toI t n = some j ∧ (t.map (·.1)).Nodup → True := by
  exact ⟨i, fun _ => trivial⟩

theorem fromI_some_val (t : List (String × Int)) (i : Int) (n : String)
    (h : fromI t i = some n) : (n, i) ∈ t := by
  unfold fromI at h
  cases hf : t.find? (fun p => p.2 == i) with
  | none => simp [hf] at h
  | some p =>
    simp [hf] at h
    have hm := List.mem_of_find?_eq_some hf
    have hp := List.find?_some hf
    simp at hp
    obtain ⟨a, b⟩ := p
    simp at h hp
    subst h; subst hp
    exact hm

/-- every registered value is not private -/
theorem alg_not_private : ∀ p ∈ Gen.Algorithm, ¬ (p.2 < -65536) := by decide +kernel

#print axioms alg_eq
#print axioms alg_vals_nodup
#print axioms fromI_some_val
end IanaProbe
