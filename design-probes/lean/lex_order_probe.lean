namespace LexProbe
abbrev Bytes := List UInt8

def lexCmp : Bytes → Bytes → Ordering
  | [], [] => .eq
  | [], _ :: _ => .lt
  | _ :: _, [] => .gt
  | a :: as, b :: bs =>
    if a.toNat < b.toNat then .lt else if b.toNat < a.toNat then .gt else lexCmp as bs

/-- `k` big-endian bytes of `n` -/
def beN : Nat → Nat → Bytes
  | 0, _ => []
  | k+1, n => UInt8.ofNat (n / 256 ^ k) :: beN k (n % 256 ^ k)

theorem lex_beN_lt : ∀ (k n m : Nat), n < 256 ^ k → m < 256 ^ k → n < m →
    lexCmp (beN k n) (beN k m) = .lt := by
  intro k
  induction k with
  | zero => intro n m hn hm h; simp at hn hm; omega
  | succ k ih =>
    intro n m hn hm h
    have hP : 0 < 256 ^ k := Nat.pow_pos (by decide)
    have ha : n / 256 ^ k < 256 := by
      rw [Nat.div_lt_iff_lt_mul hP]; rw [Nat.pow_succ] at hn; omega
    have hb : m / 256 ^ k < 256 := by
      rw [Nat.div_lt_iff_lt_mul hP]; rw [Nat.pow_succ] at hm; omega
    have hle : n / 256 ^ k ≤ m / 256 ^ k := Nat.div_le_div_right (by omega)
    simp only [beN, lexCmp, UInt8.toNat_ofNat', Nat.reducePow]
    rw [Nat.mod_eq_of_lt ha, Nat.mod_eq_of_lt hb]
    by_cases hlt : n / 256 ^ k < m / 256 ^ k
    · simp [hlt]
    · have heq : n / 256 ^ k = m / 256 ^ k := by omega
      have e1 := Nat.div_add_mod n (256 ^ k)
      have e2 := Nat.div_add_mod m (256 ^ k)
      rw [← heq] at e2
      have hr : n % 256 ^ k < m % 256 ^ k := by omega
      simp only [heq, Nat.lt_irrefl, if_false]
      exact ih _ _ (Nat.mod_lt _ hP) (Nat.mod_lt _ hP) hr

theorem lex_beN_eq (k n : Nat) : lexCmp (beN k n) (beN k n) = .eq := by
  induction k generalizing n with
  | zero => simp [beN, lexCmp]
  | succ k ih => simp [beN, lexCmp, ih]

#print axioms lex_beN_lt
end LexProbe
