namespace HdrProbe
abbrev Bytes := List UInt8
inductive V | int (n : Int) | bytes (b : Bytes) | null
  deriving DecidableEq, Repr

structure H where
  kid : Bytes := []
  iv : Bytes := []
  piv : Bytes := []
  rest : List (Int × V) := []
  deriving DecidableEq, Repr

inductive E | dup | bad deriving DecidableEq, Repr

def nonEmptyBytes : V → Except E Bytes
  | .bytes b => if b = [] then .error .bad else .ok b
  | _ => .error .bad

/-- one step of the loop, mirroring the Rust: dup check, dispatch, then iv/piv check -/
def step (st : H × List Int) (p : Int × V) : Except E (H × List Int) :=
  let (h, seen) := st
  let (l, v) := p
  if l ∈ seen then .error .dup else
  let seen := l :: seen
  (match l with
   | 4 => (nonEmptyBytes v).map fun b => { h with kid := b }
   | 5 => (nonEmptyBytes v).map fun b => { h with iv := b }
   | 6 => (nonEmptyBytes v).map fun b => { h with piv := b }
   | _ => .ok { h with rest := h.rest ++ [(l, v)] }) >>= fun h' =>
  if h'.iv ≠ [] ∧ h'.piv ≠ [] then .error .bad else .ok (h', seen)

def loop : List (Int × V) → H × List Int → Except E (H × List Int)
  | [], st => .ok st
  | p :: ps, st => step st p >>= loop ps

def decode (m : List (Int × V)) : Except E H := (loop m ({}, [])).map (·.1)

/-! declarative spec -/
def lookup (l : Int) (m : List (Int × V)) : Option V := (m.find? (·.1 == l)).map (·.2)
def okBytes (o : Option V) : Prop := ∀ v, o = some v → ∃ b, v = .bytes b ∧ b ≠ []
def bytesOf : Option V → Bytes
  | some (.bytes b) => b
  | _ => []
def std (l : Int) : Bool := l == 4 || l == 5 || l == 6

structure WF (m : List (Int × V)) : Prop where
  nodup : (m.map (·.1)).Nodup
  kid : okBytes (lookup 4 m)
  iv : okBytes (lookup 5 m)
  piv : okBytes (lookup 6 m)
  excl : ¬ ((lookup 5 m).isSome ∧ (lookup 6 m).isSome)

def specOf (m : List (Int × V)) : H :=
  { kid := bytesOf (lookup 4 m), iv := bytesOf (lookup 5 m), piv := bytesOf (lookup 6 m),
    rest := m.filter (fun p => !std p.1) }


theorem lookup_append (l : Int) (p s : List (Int × V)) :
    lookup l (p ++ s) = (lookup l p).or (lookup l s) := by
  simp only [lookup, List.find?_append]
  cases p.find? (·.1 == l) <;> simp

theorem lookup_none {l : Int} {p : List (Int × V)} (h : l ∉ p.map (·.1)) : lookup l p = none := by
  simp only [lookup, Option.map_eq_none_iff, List.find?_eq_none]
  intro x hx hxl
  apply h
  simp at hxl
  exact List.mem_map.mpr ⟨x, hx, hxl⟩

theorem lookup_some_mem {l : Int} {p : List (Int × V)} {v : V} (h : lookup l p = some v) :
    l ∈ p.map (·.1) := by
  simp only [lookup, Option.map_eq_some_iff] at h
  obtain ⟨a, ha, rfl⟩ := h
  have := List.find?_some ha
  have hm := List.mem_of_find?_eq_some ha
  simp at this
  exact List.mem_map.mpr ⟨a, hm, this⟩

theorem lookup_single (l l' : Int) (v : V) : lookup l [(l', v)] = if l' = l then some v else none := by
  simp [lookup, List.find?]
  split <;> simp_all

theorem lookup_snoc (l l' : Int) (v : V) (p : List (Int × V)) :
    lookup l (p ++ [(l', v)]) = if l' = l then (lookup l p).or (some v) else lookup l p := by
  rw [lookup_append, lookup_single]; split <;> simp

theorem okBytes_or {a b : Option V} (h : okBytes (a.or b)) : okBytes a := by
  intro v hv; apply h; simp [hv]

theorem WF.prefix {p s : List (Int × V)} (h : WF (p ++ s)) : WF p := by
  refine ⟨?_, ?_, ?_, ?_, ?_⟩
  · have := h.nodup; simp only [List.map_append] at this; exact (List.nodup_append.mp this).1
  · have := h.kid; rw [lookup_append] at this; exact okBytes_or this
  · have := h.iv; rw [lookup_append] at this; exact okBytes_or this
  · have := h.piv; rw [lookup_append] at this; exact okBytes_or this
  · intro ⟨h5, h6⟩; apply h.excl
    rw [lookup_append, lookup_append]
    constructor
    · cases hh : lookup 5 p <;> simp_all
    · cases hh : lookup 6 p <;> simp_all

theorem bytesOf_ne_nil_iff {o : Option V} (h : okBytes o) : bytesOf o ≠ [] ↔ o.isSome := by
  cases o with
  | none => simp [bytesOf]
  | some v =>
    obtain ⟨b, rfl, hb⟩ := h v rfl
    simp [bytesOf, hb]


theorem nodup_snoc {p : List (Int × V)} {l : Int} {v : V} (hp : (p.map (·.1)).Nodup)
    (h : l ∉ p.map (·.1)) : ((p ++ [(l, v)]).map (·.1)).Nodup := by
  simp only [List.map_append, List.map_cons, List.map_nil]
  rw [List.nodup_append]
  refine ⟨hp, by simp, ?_⟩
  intro a ha b hb
  simp at hb; subst hb
  intro hab; subst hab; exact h ha

theorem step_spec (p : List (Int × V)) (hp : WF p) (l : Int) (v : V) :
    (match step (specOf p, (p.map (·.1)).reverse) (l, v) with
     | .ok st => WF (p ++ [(l, v)]) ∧
         st = (specOf (p ++ [(l, v)]), ((p ++ [(l, v)]).map (·.1)).reverse)
     | .error _ => ¬ WF (p ++ [(l, v)])) := by
  by_cases hmem : l ∈ p.map (·.1)
  · have : l ∈ (p.map (·.1)).reverse := by simpa using hmem
    simp only [step, this, if_true]
    intro hw
    have := hw.nodup
    simp only [List.map_append, List.map_cons, List.map_nil] at this
    rw [List.nodup_append] at this
    exact this.2.2 l hmem l (by simp) rfl
  · have hnot : l ∉ (p.map (·.1)).reverse := by simpa using hmem
    have hl : lookup l p = none := lookup_none hmem
    have h4 := bytesOf_ne_nil_iff hp.kid
    have h5 := bytesOf_ne_nil_iff hp.iv
    have h6 := bytesOf_ne_nil_iff hp.piv
    have hex := hp.excl
    have hnd := nodup_snoc (v := v) hp.nodup hmem
    -- common facts about the old state
    have hc : ¬ ((specOf p).iv ≠ [] ∧ (specOf p).piv ≠ []) := by
      simp only [specOf]; rw [h5, h6]; exact hex
    by_cases e4 : l = 4
    · subst e4
      by_cases hv : ∃ b, v = .bytes b ∧ b ≠ []
      · obtain ⟨b, rfl, hb⟩ := hv
        simp only [step, hnot, if_false, nonEmptyBytes, hb, Except.map, bind, Except.bind, hc]
        refine ⟨⟨hnd, ?_, ?_, ?_, ?_⟩, ?_⟩
        · intro v hv; simp [lookup_snoc, hl] at hv; exact ⟨b, hv.symm, hb⟩
        · simpa [lookup_snoc] using hp.iv
        · simpa [lookup_snoc] using hp.piv
        · simpa [lookup_snoc] using hex
        · simp [specOf, lookup_snoc, hl, bytesOf, std, List.filter_append]
      · have hrej : ¬ WF (p ++ [(4, v)]) := by
          intro hw; apply hv
          exact hw.kid v (by simp [lookup_snoc, hl])
        cases v with
        | bytes b =>
          have hb : b = [] := by
            apply Classical.byContradiction; intro hb; exact hv ⟨b, rfl, hb⟩
          subst hb
          simpa only [step, hnot, if_false, nonEmptyBytes, if_true, Except.map, bind, Except.bind] using hrej
        | int n => simpa only [step, hnot, if_false, nonEmptyBytes, Except.map, bind, Except.bind] using hrej
        | null => simpa only [step, hnot, if_false, nonEmptyBytes, Except.map, bind, Except.bind] using hrej
    · by_cases e5 : l = 5
      · subst e5
        by_cases hv : ∃ b, v = .bytes b ∧ b ≠ []
        · obtain ⟨b, rfl, hb⟩ := hv
          by_cases h6s : (lookup 6 p).isSome
          · -- piv already present: rejected
            have hpiv : (specOf p).piv ≠ [] := by simp only [specOf]; exact h6.mpr h6s
            simp only [step, hnot, if_false, nonEmptyBytes, hb, Except.map, bind, Except.bind, hpiv,
              ne_eq, not_false_eq_true, and_self, if_true]
            intro hw; apply hw.excl
            simp [lookup_snoc, hl, h6s]
          · have hpiv : ¬ (specOf p).piv ≠ [] := by simp only [specOf]; rw [h6]; exact h6s
            simp only [step, hnot, if_false, nonEmptyBytes, hb, Except.map, bind, Except.bind, hpiv,
              and_false, if_false]
            refine ⟨⟨hnd, ?_, ?_, ?_, ?_⟩, ?_⟩
            · simpa [lookup_snoc] using hp.kid
            · intro v hv; simp [lookup_snoc, hl] at hv; exact ⟨b, hv.symm, hb⟩
            · simpa [lookup_snoc] using hp.piv
            · simp [lookup_snoc, hl]; simpa using h6s
            · simp [specOf, lookup_snoc, hl, bytesOf, std, List.filter_append]
        · have hrej : ¬ WF (p ++ [(5, v)]) := by
            intro hw; apply hv
            exact hw.iv v (by simp [lookup_snoc, hl])
          cases v with
          | bytes b =>
            have hb : b = [] := by
              apply Classical.byContradiction; intro hb; exact hv ⟨b, rfl, hb⟩
            subst hb
            simpa only [step, hnot, if_false, nonEmptyBytes, if_true, Except.map, bind, Except.bind] using hrej
          | int n => simpa only [step, hnot, if_false, nonEmptyBytes, Except.map, bind, Except.bind] using hrej
          | null => simpa only [step, hnot, if_false, nonEmptyBytes, Except.map, bind, Except.bind] using hrej
      · by_cases e6 : l = 6
        · subst e6
          by_cases hv : ∃ b, v = .bytes b ∧ b ≠ []
          · obtain ⟨b, rfl, hb⟩ := hv
            by_cases h5s : (lookup 5 p).isSome
            · have hiv : (specOf p).iv ≠ [] := by simp only [specOf]; exact h5.mpr h5s
              simp only [step, hnot, if_false, nonEmptyBytes, hb, Except.map, bind, Except.bind, hiv,
                ne_eq, not_false_eq_true, and_self, if_true]
              intro hw; apply hw.excl
              simp [lookup_snoc, hl, h5s]
            · have hiv : ¬ (specOf p).iv ≠ [] := by simp only [specOf]; rw [h5]; exact h5s
              simp only [step, hnot, if_false, nonEmptyBytes, hb, Except.map, bind, Except.bind, hiv,
                false_and, if_false]
              refine ⟨⟨hnd, ?_, ?_, ?_, ?_⟩, ?_⟩
              · simpa [lookup_snoc] using hp.kid
              · simpa [lookup_snoc] using hp.iv
              · intro v hv; simp [lookup_snoc, hl] at hv; exact ⟨b, hv.symm, hb⟩
              · simp [lookup_snoc, hl]; simpa using h5s
              · simp [specOf, lookup_snoc, hl, bytesOf, std, List.filter_append]
          · have hrej : ¬ WF (p ++ [(6, v)]) := by
              intro hw; apply hv
              exact hw.piv v (by simp [lookup_snoc, hl])
            cases v with
            | bytes b =>
              have hb : b = [] := by
                apply Classical.byContradiction; intro hb; exact hv ⟨b, rfl, hb⟩
              subst hb
              simpa only [step, hnot, if_false, nonEmptyBytes, if_true, Except.map, bind, Except.bind] using hrej
            | int n => simpa only [step, hnot, if_false, nonEmptyBytes, Except.map, bind, Except.bind] using hrej
            | null => simpa only [step, hnot, if_false, nonEmptyBytes, Except.map, bind, Except.bind] using hrej
        · -- any other label goes to `rest`
          have hstep : step (specOf p, (p.map (·.1)).reverse) (l, v) =
              .ok ({ specOf p with rest := (specOf p).rest ++ [(l, v)] }, l :: (p.map (·.1)).reverse) := by
            simp only [step, hnot, if_false]
            have hc' : ¬ ((specOf p).iv ≠ [] ∧ (specOf p).piv ≠ []) := hc
            simp [bind, Except.bind, hc']
          rw [hstep]
          have hstd : std l = false := by simp [std, e4, e5, e6]
          refine ⟨⟨hnd, ?_, ?_, ?_, ?_⟩, ?_⟩
          · simpa [lookup_snoc, e4] using hp.kid
          · simpa [lookup_snoc, e5] using hp.iv
          · simpa [lookup_snoc, e6] using hp.piv
          · simpa [lookup_snoc, e5, e6] using hex
          · simp [specOf, lookup_snoc, e4, e5, e6, hstd, List.filter_append]


/-- invariant: having processed prefix `p` (WF) the state is its spec and seen = its labels -/
theorem loop_spec (s : List (Int × V)) : ∀ (p : List (Int × V)), WF p →
    (match loop s (specOf p, (p.map (·.1)).reverse) with
     | .ok (h, _) => WF (p ++ s) ∧ h = specOf (p ++ s)
     | .error _ => ¬ WF (p ++ s)) := by
  induction s with
  | nil => intro p hp; simp [loop, hp]
  | cons x s ih =>
    intro p hp
    obtain ⟨l, v⟩ := x
    have hs := step_spec p hp l v
    have happ : p ++ (l, v) :: s = (p ++ [(l, v)]) ++ s := by simp
    simp only [loop, bind, Except.bind]
    cases hst : step (specOf p, (p.map (·.1)).reverse) (l, v) with
    | error e =>
      rw [hst] at hs
      simp only
      intro hw; rw [happ] at hw; exact hs hw.prefix
    | ok st =>
      rw [hst] at hs
      obtain ⟨hw, rfl⟩ := hs
      simp only
      rw [happ]
      exact ih _ hw

theorem WF_nil : WF [] := ⟨by simp, by intro v h; simp [lookup] at h, by intro v h; simp [lookup] at h,
  by intro v h; simp [lookup] at h, by simp [lookup]⟩

/-- the property-shaped statements -/
theorem decode_accept_iff (m : List (Int × V)) : (∃ h, decode m = .ok h) ↔ WF m := by
  have := loop_spec m [] WF_nil
  simp only [List.nil_append, List.map_nil, List.reverse_nil] at this
  have e : specOf [] = {} := by simp [specOf, lookup, bytesOf]
  rw [e] at this
  unfold decode
  cases hl : loop m ({}, []) with
  | error e => rw [hl] at this; simp [Except.map]; exact this
  | ok st => rw [hl] at this; simp [Except.map]; exact this.1

theorem decode_fields (m : List (Int × V)) (h : H) : decode m = .ok h ↔ WF m ∧ h = specOf m := by
  have := loop_spec m [] WF_nil
  simp only [List.nil_append, List.map_nil, List.reverse_nil] at this
  have e : specOf [] = {} := by simp [specOf, lookup, bytesOf]
  rw [e] at this
  unfold decode
  cases hl : loop m ({}, []) with
  | error e => rw [hl] at this; simp [Except.map]; intro hw; exact absurd hw this
  | ok st =>
    rw [hl] at this; obtain ⟨hw, he⟩ := this
    simp [Except.map, hw, he]; exact eq_comm

#print axioms decode_fields
example : decode [(4, .bytes [1]), (99, .null), (5, .bytes [2])] =
    .ok { kid := [1], iv := [2], piv := [], rest := [(99, .null)] } := by rfl
example : decode [(5, .bytes [1]), (6, .bytes [2])] = .error .bad := by rfl
example : ¬ WF [(5, .bytes [1]), (6, .bytes [2])] := by
  rw [← decode_accept_iff]; intro ⟨h, hh⟩
  have : decode [(5, .bytes [1]), (6, .bytes [2])] = .error .bad := by rfl
  rw [this] at hh; cases hh
end HdrProbe
