import Leanprobe.Basic
open Probe

def hexVal (c : Char) : Option Nat :=
  if '0' ≤ c ∧ c ≤ '9' then some (c.toNat - '0'.toNat)
  else if 'a' ≤ c ∧ c ≤ 'f' then some (c.toNat - 'a'.toNat + 10) else none

def parseHex : List Char → Option Bytes
  | [] => some []
  | a :: b :: rest => do
      let x ← hexVal a; let y ← hexVal b; let r ← parseHex rest
      pure (UInt8.ofNat (x * 16 + y) :: r)
  | _ => none

def hexOf (bs : Bytes) : String :=
  String.ofList (bs.flatMap fun b => [Nat.digitChar (b.toNat / 16), Nat.digitChar (b.toNat % 16)])

def step (line : String) : String :=
  match line.trimAscii.toString.splitOn " " with
  | ["dec", h] =>
    match parseHex h.toList with
    | none => "bad-op"
    | some bs =>
      match dec (bs.length + 1) bs with
      | some (v, []) => "ok " ++ hexOf (encode v)
      | some (_, _) => "err extraneous"
      | none => "err decode"
  | _ => "bad-op"

partial def loop (h : IO.FS.Stream) (out : IO.FS.Stream) : IO Unit := do
  let line ← h.getLine
  if line.isEmpty then return ()
  out.putStrLn (step line)
  loop h out

def main : IO Unit := do loop (← IO.getStdin) (← IO.getStdout)
