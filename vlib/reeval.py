#!/usr/bin/env python3
"""reeval.py <seeded-name>... [--checks C01,C02] — re-run the checks against filed seeded changes (in the isolated lab) and update meta.json."""
import sys, os, subprocess, json, re
VERIF = os.path.dirname(os.path.dirname(os.path.abspath(__file__)))
ALL = ['C%02d' % i for i in range(1, 21)]
names = [a for a in sys.argv[1:] if not a.startswith('--')]
checks = ALL
own_only = '--own' in sys.argv      # only the check of the change's own property; the entries of the other checks are kept as they were
for a in sys.argv[1:]:
    if a.startswith('--checks='): checks = a.split('=')[1].split(',')
def sh(c): return subprocess.run(c, shell=True, stdout=subprocess.PIPE, stderr=subprocess.STDOUT).stdout.decode()
head = sh('git -C %s rev-parse --short HEAD' % VERIF).strip()
for n in names:
    d = os.path.join(VERIF, 'seeded', n)
    if own_only: checks = [json.load(open(os.path.join(d, 'meta.json')))['property']]
    res = sh('sh %s/vlib/mutlab.sh try %s/patch.diff %s' % (VERIF, d, ' '.join(checks)))
    caught = []; missed = []
    for c in checks:
        mm = re.search(r'%s FAIL: (.*)' % c, res)
        nf = re.search(r'VIOLATION property=%s [^\n]*no-failing-input-found' % c, res)
        if mm: caught.append('%s (%s%s)' % (c, mm.group(1).strip(), '; no-failing-input-found' if nf else ''))
        else: missed.append(c)
    if '--dry' in sys.argv:
        print(n, 'caught:', [c.split(' ')[0] for c in caught], flush=True); continue
    m = json.load(open(os.path.join(d, 'meta.json')))
    if own_only:
        own = checks[0]
        old = [x for x in m.get('caught_by', '').split('; ') if x and x != 'MISSED' and not re.match(r'^%s\b' % own, x)]
        allc = sorted(caught + old)
        m['caught_by'] = '; '.join(allc) if allc else 'MISSED'
        m['missed_by'] = [c for c in m.get('missed_by', []) if c != own] + ([own] if not caught else [])
        m['own_check_reevaluated_at_verif_commit'] = head
    else:
        m['caught_by'] = '; '.join(caught) if caught else 'MISSED'; m['missed_by'] = missed; m['reevaluated_at_verif_commit'] = head
    json.dump(m, open(os.path.join(d, 'meta.json'), 'w'), indent=1)
    print(n, 'caught:', [c.split(' ')[0] for c in caught], flush=True)
