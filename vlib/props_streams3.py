import re
"""Operation streams and predicates, C14..C20."""
import random, itertools, re
import props as P
from props import Prop, register, mk, mutate, budget
import tgen, refcbor, forms
from tgen import T, BYTE_TYPES, TAGGED, TYPED_TYPES, INTS, WIDE, TEXTS, reg_values, registry
from forms import vsx, parse, render, canon_nan
from props_streams import dec_ops, head_variants, int_encodings, C02, lenbytes, tag_wraps, all_tags

# ===================================================================== C14
@register
class C14(Prop):
    pid = 'C14'
    def gen(self, seed, tier):
        r = random.Random(seed); g = T(seed, valid=0.95); ops = []
        tags = [16, 17, 18, 96, 97, 98, 15, 19, 95, 99, 0, 2, 3, 24, 55799, 2**32, 2**64 - 1] + [t for t in all_tags() if t not in (16, 17, 18, 96, 97, 98, 15, 19, 95, 99, 0, 2, 3, 24, 55799, 2**32)]
        for t, tag in TAGGED.items():
            for _ in range(budget(tier, 60, 1200)):
                body = g.venc(g.wire(t))
                ops.append(mk('dec %s b%s' % (t, body.hex()), k='untagged', body=body.hex(), t=t, base=True))
                for tg in tags:
                    for hd in head_variants(6, tg)[: (5 if r.random() < 0.3 else 1)]:
                        ops.append(mk('dect %s b%s' % (t, (hd + body).hex()), k='tag%s' % ('=' if tg == tag else '!'), body=body.hex(), t=t, tagnum=tg))
                # tag numbers that alias the registered tag under a narrowing to 8 / 16 / 32 bits, a sign flip or an off-by-one width
                for tg in (tag + 2**8, tag + 2**16, tag + 2**32, tag + 2**33, tag + 2**63, tag + (r.randrange(1, 2**31) << 32), 2**64 - tag, (tag << 8) | tag, tag << 32):
                    for hd in head_variants(6, tg):
                        ops.append(mk('dect %s b%s' % (t, (hd + body).hex()), k='tag-alias', body=body.hex(), t=t, tagnum=tg))
                ops.append(mk('dect %s b%s' % (t, body.hex()), k='notag', body=body.hex(), t=t, tagnum=None))
                # exactly the tagged item: nothing after it (informed round 14: an inherent from_tagged_slice without the trailing-bytes check)
                for sfx in (b'\x00', b'\xf6', body[:1]): ops.append(mk('dect %s b%s' % (t, (refcbor.head(6, tag) + body + sfx).hex()), k='tagged-suffix', t=t, must_reject=True))
                ops.append(mk('dect %s b%s' % (t, (refcbor.head(6, tag) * 2 + body).hex()), k='double', body=body.hex(), t=t, tagnum=-1))
                ops.append(mk('dec %s b%s' % (t, (refcbor.head(6, tag) + body).hex()), k='untagged-on-tagged', t=t, must_reject=True))
                # the body wrapped in a byte string is not the body (informed round 9: the tagged decoder unwrapped it)
                wb = refcbor.head(2, len(body)) + body
                ops.append(mk('dect %s b%s' % (t, (refcbor.head(6, tag) + wb).hex()), k='bstr-body', t=t, must_reject=True)); ops.append(mk('dec %s b%s' % (t, wb.hex()), k='bstr-body', t=t, must_reject=True))
                ops.append(mk('dect %s b%s' % (t, (refcbor.head(6, tag) + refcbor.head(2, len(wb) + 0) + refcbor.head(6, tag) + body)[:0].hex() + (refcbor.head(6, tag) + refcbor.head(2, len(refcbor.head(6, tag) + body)) + refcbor.head(6, tag) + body).hex()), k='bstr-body', t=t, must_reject=True))
                if r.random() < 0.25:
                    for t2 in all_tags():     # right tag over any tag over a byte string holding the body (informed round 12: unwrapped as "encoded CBOR data item")
                        ops.append(mk('dect %s b%s' % (t, (refcbor.head(6, tag) + refcbor.head(6, t2) + wb).hex()), k='bstr-body', t=t, must_reject=True))
                    ops.append(mk('dect %s b%s' % (t, (refcbor.head(6, tag) + b'\x81' + body).hex()), k='bstr-body', t=t, must_reject=True))
                th = refcbor.head(0, tag)
                for fake in (b'\x82' + th + body, b'\x83' + th + body + b'\x00', b'\x9f' + th + body + b'\xff', b'\xa1' + th + body, b'\x82\xc2\x41' + bytes([tag % 256]) + body):
                    ops.append(mk('dect %s b%s' % (t, fake.hex()), k='fake-tag', t=t, must_reject=True))
                for tg in tags:
                    # any tag in front of the body is rejected by untagged decoding; any second tag (outside or inside) by tagged decoding
                    ops.append(mk('dec %s b%s' % (t, (refcbor.head(6, tg) + body).hex()), k='untagged-on-tag%d' % tg, t=t, must_reject=True))
                    ops.append(mk('dect %s b%s' % (t, (refcbor.head(6, tg) + refcbor.head(6, tag) + body).hex()), k='outer-tag', t=t, must_reject=True))
                    ops.append(mk('dect %s b%s' % (t, (refcbor.head(6, tag) + refcbor.head(6, tg) + body).hex()), k='inner-tag', t=t, must_reject=True))
                for t2 in TAGGED:
                    if t2 != t and r.random() < 0.4:
                        ops.append(mk('dect %s b%s' % (t2, (refcbor.head(6, tag) + body).hex()), k='cross', t=t2, must_reject=True))
            # bodies whose uninterpreted values are not what the crate's own encoder would write — indefinite-length strings and maps, short
            # bignums (definite and indefinite), floats of every width, NaN payloads, non-shortest heads, nested tags: the tagged decoder
            # yields exactly what the untagged one yields (informed round 10: the tag content re-serialised and parsed a second time)
            for xv in ('c25f4105ff', 'c35f50' + 'ff' * 16 + 'ff', 'c24105', 'c249010000000000000000', '5f4101420203ff', '7f616161' + '62ff', 'bf0001ff', '9f0102ff', 'f97e01', 'fa7fc00001', 'fb7ff8000000000001', 'f93c00', 'fa3f800000',
                       '1800', '190001', '1a00000001', '1b0000000000000001', '3800', '5800', '7800', '9800', 'b800', 'd818' + '4100', 'c1c11a6553f100', 'd9d9f780', '82c25f4105ff' + 'c35f4100ff', 'a1c25f4105ff00'):
                for hm in ('a11863' + xv, 'a2044131' + '1863' + xv):
                    hb = bytes.fromhex(hm)
                    for body in ({'CoseSign1': b'\x84\x40' + hb + b'\xf6\x40', 'CoseMac0': b'\x84\x40' + hb + b'\xf6\x40', 'CoseEncrypt0': b'\x83\x40' + hb + b'\xf6', 'CoseSign': b'\x84\x40' + hb + b'\xf6\x81\x83\x40' + hb + b'\x40',
                                  'CoseEncrypt': b'\x84\x40' + hb + b'\xf6\x81\x83\x40' + hb + b'\xf6', 'CoseMac': b'\x85\x40' + hb + b'\xf6\x40\x81\x83\x40' + hb + b'\xf6'}[t],):
                        ops.append(mk('dec %s b%s' % (t, body.hex()), k='odd-untagged', body=body.hex(), t=t, base=True))
                        ops.append(mk('dect %s b%s' % (t, (refcbor.head(6, tag) + body).hex()), k='odd-tagged', body=body.hex(), t=t, tagnum=tag))
            for _ in range(budget(tier, 80, 1500)):
                x = g.typed(t, wild=False)
                ops.append(mk('enct %s %s' % (t, x), k='enct', t=t, form=x)); ops.append(mk('enc %s %s' % (t, x), k='enc', t=t, form=x))
            # depth boundary: unprotected header nesting 253..256 arrays
            for d in (252, 253, 254, 255):
                body = b'\x84\x40\xa1\x18\x63' + b'\x81' * d + b'\x00' + b'\xf6\x40' if t in ('CoseSign1', 'CoseMac0') else None
                if body:
                    ops.append(mk('dec %s b%s' % (t, body.hex()), k='depth-untagged', body=body.hex(), t=t, base=True))
                    ops.append(mk('dect %s b%s' % (t, (refcbor.head(6, tag) + body).hex()), k='depth-tagged', body=body.hex(), t=t, tagnum=tag))
        return ops
    def __init__(self): self.base = {}; self.encs = {}
    def judge(self, o, impl, model):
        m = o['meta']; t = m.get('t')
        if m.get('base'): self.base[(t, m['body'])] = impl
        if m.get('must_reject') and impl.startswith('ok'): return ('fail', 'tagged item accepted where it must be rejected')
        if 'tagnum' in m and (t, m['body']) in self.base:
            un = self.base[(t, m['body'])]
            if m['tagnum'] == TAGGED[t]:
                if un.startswith('ok') and impl != un: return ('fail', 'registered tag on an accepted body: tagged decode does not yield the same value')
                if not un.startswith('ok') and impl.startswith('ok'): return ('fail', 'tagged decode accepted a body the untagged decoder rejects')
            elif impl.startswith('ok'): return ('fail', 'tagged decode accepted a wrong / missing / double tag')
        if m.get('k') == 'enc' and impl.startswith('ok b'): self.encs[(t, m['form'])] = impl[4:]
        if m.get('k') == 'enct' and impl.startswith('ok b'):
            pass
        return super().judge(o, impl, model)
    def impl_pred(self, o, impl):
        m = o['meta']
        if m.get('k') == 'enct' and impl.startswith('ok b'):
            want = refcbor.head(6, TAGGED[m['t']]).hex()
            if not impl[4:].startswith(want): return 'tagged encoding does not start with the registered tag'
        return None

def c14_known(case, f):
    return case['meta'].get('k') == 'depth-tagged' and 'same value' in case['why']
P.KNOWN_PRED['c14-depth-256'] = c14_known
def c14_wit(w, impl, f): return impl.startswith('err')
P.WITNESS_PRED['c14-depth-256'] = c14_wit

# ===================================================================== C15
@register
class C15(Prop):
    pid = 'C15'
    def gen(self, seed, tier):
        r = random.Random(seed); ops = []
        lattice = sorted(set(INTS + WIDE + [x + d for x in (0, 23, 24, 255, 256, 65535, 65536, 2**32, 2**63, 2**64 - 1, -2**63, -2**64 + 1, -65536) for d in (-2, -1, 0, 1, 2) if -2**64 <= x + d < 2**64]))
        # wrap-around aliases of registered values: v ± 2^8 / 2^16 / 2^32 / 2^64 (a lookup through a narrower integer type takes the
        # alias for the registered value: seeded C15-r4, `match i as i32`)
        alias = [v + s * 2**w for v in (-7, -35, -65535, -260, -1, 1, 3, 4, 8, 38, 322) for w in (8, 16, 32, 64) for s in (1, -1) if -2**64 <= v + s * 2**w < 2**64]
        lattice = sorted(set(lattice + alias))
        # limits of every Rust integer type and of exact integers in f32 / f64 (informed round 8: i32::MAX treated as "no end date")
        typelim = [x + d for b in (7, 8, 15, 16, 24, 31, 32, 53, 63, 64) for x in (2**b, -2**b) for d in (-2, -1, 0, 1) if -2**64 <= x + d < 2**64]
        lattice = sorted(set(lattice + typelim))
        rnd = [r.randrange(-2**64, 2**64) for _ in range(budget(tier, 300, 6000))]
        def positions(e):
            h = e.hex()
            return [('Label', h, 'label'), ('RegLabel:KeyType', h, 'reg'), ('RegLabelPriv:Algorithm', h, 'regpriv'), ('RegLabelPriv:CwtClaimName', h, 'regpriv'),
                    ('Header', 'a1' + h + 'f6', 'hdr-label'), ('Header', 'a101' + h, 'alg'), ('Header', 'a10281' + h, 'crit'), ('Header', 'a103' + h, 'content-type'),
                    ('CoseKey', 'a101' + h, 'kty'), ('CoseKey', 'a2010103' + h, 'key-alg'), ('CoseKey', 'a201010481' + h, 'key-op'), ('CoseKey', 'a20101' + h + '00', 'key-label'),
                    ('ClaimsSet', 'a1' + h + '00', 'claim-name'), ('ClaimsSet', 'a104' + h, 'exp'), ('ClaimsSet', 'a105' + h, 'nbf'), ('ClaimsSet', 'a106' + h, 'iat'),
                    ('PartyInfo', '83f6' + h + 'f6', 'nonce'), ('SuppPubInfo', '82' + h + '40', 'keylen'),
                    ('CoseKdfContext', '84' + h + '83f6f6f683f6f6f6820040', 'kdf-alg'),
                    ('Header', 'a201' + h + '410100', 'alg'), ('Header', 'a201' + h + 'f93e0000', 'alg'), ('Header', 'a203' + h + '0400', 'content-type'), ('CoseKey', 'a3010103' + h + '410100', 'key-alg'),
                    ('ClaimsSet', 'a204' + h + '410100', 'exp'), ('ClaimsSet', 'a204' + h + '186400', 'exp'), ('Header', 'a2' + h + 'f6' + '410100', 'hdr-label'), ('CoseKey', 'a301' + h + '410100' + '0300', 'kty'),
                    ('PartyInfo', '836178' + h + 'f6', 'nonce'), ('PartyInfo', '8300' + h + 'f6', 'nonce'), ('CoseKdfContext', '8401836178' + h + 'f683f6f6f6820040', 'nonce'),
                    ('Header', 'a1186381' + h, 'extra-value'), ('CoseKey', 'a201011863' + h, 'extra-value'), ('ClaimsSet', 'a1186481' + h, 'extra-value'), ('Value', h, 'value')]
        for n in lattice + rnd:
            encs = int_encodings(n)
            if n in rnd: encs = [r.choice(encs)]
            for e in encs:
                for t, hx, pos in positions(e):
                    op = 'chain' if pos in ('extra-value', 'value', 'exp', 'nonce', 'keylen', 'label') else 'dec'
                    ops.append(mk('%s %s b%s' % (op, t, hx), k=pos, n=n, bignum=e[0] in (0xc2, 0xc3), nonmin=(e[0] in (0xc2, 0xc3) and e[2:3] == b'\x00')))
        # two distinct in-range integers side by side in one map, both orders: each must come out exactly, neither may be taken for the other
        near = [x + d for x in (-2**63, -65538, -2**32, -256, -24, 24, 256, 2**32, 2**63 - 2, 100) for d in (0, 1)]
        for a in near:
            for b in (a + 1, a - 1):
                if not (-2**63 <= b <= 2**63 - 1): continue
                ea = refcbor.encode(('int', a)).hex(); eb = refcbor.encode(('int', b)).hex()
                for t, hx in (('ClaimsSet', 'a2' + ea + '01' + eb + '02'), ('Header', 'a2' + ea + '01' + eb + '02'), ('CoseKey', 'a3' + ea + '01' + eb + '02' + '0101')):
                    ops.append(mk('dec %s b%s' % (t, hx), k='pair', n=a, m=b, t=t))
        # the same integer at several positions of one value at once: each comes out exactly (informed round 10: issued-at dropped when
        # expiration, not-before and issued-at coincide — no sweep of one position at a time, no independent sampling makes them equal)
        for n in lattice:
            if not (-2**63 <= n <= 2**63 - 1): continue
            e = refcbor.encode(('int', n)).hex()
            for t, hx, cnt in (('ClaimsSet', 'a304' + e + '05' + e + '06' + e, 3), ('ClaimsSet', 'a204' + e + '05' + e, 2), ('ClaimsSet', 'a205' + e + '06' + e, 2), ('ClaimsSet', 'a204' + e + '06' + e, 2),
                               ('ClaimsSet', 'a404' + e + '05' + e + '06' + e + '08' + e, 3)):
                ops.append(mk('chain %s b%s' % (t, hx), k='same', n=n, cnt=cnt, wire=hx))
            for t, hx in (('Header', 'a201' + e + '1863' + e), ('CoseKey', 'a30101' + '03' + e + '1863' + e), ('PartyInfo', '83f6' + e + 'f6'), ('CoseKdfContext', '84' + e + '83f6' + e + 'f683f6' + e + 'f682' + ('00' if n < 0 else e) + '40')):
                ops.append(mk('chain %s b%s' % (t, hx), k='same-other', n=n, wire=hx))
        # every pattern of equal / different values among the core claims at once: three texts from {a, b}, three integer timestamps from
        # {x, y}, for a few (x, y) — 64 patterns each (informed round 11: iat overwritten with exp when iss = sub and exp = nbf)
        for x, y in ((1700000000, 1600000000), (-1, 2**63 - 1), (0, 1), (2**32, -2**63)):
            ex, ey = refcbor.encode(('int', x)).hex(), refcbor.encode(('int', y)).hex()
            for bits in range(64):
                tx = ['6161' if bits >> i & 1 else '6162' for i in range(3)]; ts = [ex if bits >> (3 + i) & 1 else ey for i in range(3)]
                hx = 'a6' + '01' + tx[0] + '02' + tx[1] + '03' + tx[2] + '04' + ts[0] + '05' + ts[1] + '06' + ts[2]
                ops.append(mk('chain ClaimsSet b' + hx, k='pattern', n=x, wire=hx, want=[(x if bits >> (3 + i) & 1 else y) for i in range(3)]))
        return ops
    def impl_pred(self, o, impl):
        m = o['meta']; n = m['n']; pos = m['k']
        if pos == 'pattern':
            if not impl.startswith('ok '): return 'a well-formed claims set was refused'
            got = re.findall(r' W(-?\d+)', impl.split(' ok ')[0])
            if [int(g_) for g_ in got] != m['want']: return 'timestamps decoded as %s, the wire says %s' % (got, m['want'])
            if not impl.endswith(' ok b' + m['wire']): return 'a claims set in deterministic form does not encode back to its input'
            return None
        if pos == 'same':
            if not impl.startswith('ok '): return 'a claims set whose timestamps are all the in-range integer %d was refused' % n
            if impl.split(' ok ')[0].count('W%d ' % n) + impl.split(' ok ')[0].count('W%d)' % n) != m['cnt']: return 'not every timestamp of a claims set holding the same integer at each came out exactly'
            if not impl.endswith(' ok b' + m['wire']): return 'a claims set holding the same integer at every timestamp does not encode back to its (deterministic) input'
            return None
        if pos == 'same-other': return None      # compared with the proved model
        if pos == 'pair':
            typed = {'ClaimsSet': range(1, 8), 'Header': range(1, 8), 'CoseKey': range(1, 6)}[m['t']]
            if n in typed or m['m'] in typed: return None
            if impl == 'err Dup': return 'two distinct integers were taken for the same label'
            if impl.startswith('ok') and not all(re.search(r'\b[iAP]%d\b' % x, impl) for x in (n, m['m'])): return 'a decoded label differs from the wire value'
            return None
        lo, hi = (-2**63, 2**63 - 1) if pos != 'keylen' else (0, 2**64 - 1)
        interp = pos not in ('extra-value', 'value')
        if interp:
            if not (lo <= n <= hi):
                if impl.startswith('ok'): return 'out-of-range integer accepted at an interpreting position'
                if impl != 'err Range' and not (pos in ('crit',) and False): return 'out-of-range integer not reported as out of range (got %s)' % impl
            elif impl.startswith('ok'):
                # exact value must appear in the decoded form
                if (pos == 'hdr-label' and 1 <= n <= 7) or (pos == 'key-label' and 1 <= n <= 5) or (pos == 'claim-name' and 1 <= n <= 7): return None
                if pos in ('label', 'hdr-label', 'key-label', 'nonce', 'keylen'):
                    if 'i%d' % n not in impl.split(' ok ')[0]: return 'decoded integer differs from the wire value'
                if pos in ('exp', 'nbf', 'iat') and 'W%d' % n not in impl: return 'decoded timestamp differs from the wire value'
                if pos in ('alg', 'key-alg', 'kdf-alg', 'regpriv', 'claim-name', 'reg', 'kty', 'crit', 'key-op', 'content-type'):
                    if ('A%d' % n not in impl) and ('P%d' % n not in impl): return 'decoded registry integer differs from the wire value'
        else:
            if impl.startswith('ok') and -2**64 <= n < 2**64:
                if 'i%d' % n not in impl.split(' ok ')[0]: return 'uninterpreted integer not preserved'
        return None

# ===================================================================== C16
def lex(a, b): return 'lt' if a < b else ('gt' if a > b else 'eq')
def lenlex(a, b): return lex((len(a), a), (len(b), b))
def lab_enc(l):
    return refcbor.encode(('int', int(l[1:]))) if l[0] == 'i' else refcbor.encode(('text', bytes.fromhex(l[1:])))
@register
class C16(Prop):
    pid = 'C16'
    def gen(self, seed, tier):
        r = random.Random(seed); ops = []
        ints = sorted(set(s * x for x in (0, 1, 2, 23, 24, 25, 255, 256, 257, 65535, 65536, 65537, 2**32 - 1, 2**32, 2**32 + 1, 2**63 - 1) for s in (1, -1)) | {-2**63, -2**63 + 1} | {-x - 1 for x in (23, 24, 255, 256, 65535, 65536, 2**32 - 1, 2**32)})
        texts = [b'', b'a', b'b', b'aa', b'ab', b'ba', b'z', b'a' * 23, b'a' * 24, b'b' * 23, b'a' * 255, b'a' * 256, b'a' * 254 + b'b', 'é'.encode(), 'ée'.encode(), b'zz', '€'.encode(), b'a' * 22 + b'\xc3\xa9', '\uff211'.encode(), '\U0001f600'.encode(), '\ue000x'.encode(), '\U00010000'.encode(), b'A', b'Z', b'B', b'1', b'10', b'2', b'-1']
        labs = ['i%d' % i for i in ints] + ['t' + t.hex() for t in texts]
        # long texts that differ only after 2^16 bytes, or only in length beyond it (informed round 9: comparison through a u16 range)
        longs = ['t' + (b'a' * 69999 + b'b').hex(), 't' + (b'a' * 69999 + b'c').hex(), 't' + (b'a' * 65536 + b'b').hex(), 't' + (b'a' * 65535 + b'b').hex(), 't' + (b'a' * 65536).hex(), 't' + (b'a' * 70001).hex()]
        for a in longs:
            for b in longs:
                ops.append(mk('cmp Label %s %s' % (a, b), k='label', a=a, b=b)); ops.append(mk('cmpc %s %s' % (a, b), k='canon', a=a, b=b))
        pairs = list(itertools.product(labs, labs))
        if tier != 'thorough': pairs = r.sample(pairs, min(len(pairs), 3500)) + [(a, a) for a in labs]
        for a, b in pairs:
            ops.append(mk('cmp Label %s %s' % (a, b), k='label', a=a, b=b)); ops.append(mk('cmpc %s %s' % (a, b), k='canon', a=a, b=b))
        for _ in range(budget(tier, 1500, 20000)):
            a, b = ('i%d' % r.randrange(-2**63, 2**63) for _ in range(2))
            if r.random() < 0.3: b = 'i%d' % (int(a[1:]) + r.choice([-1, 1, 256, -256])) if -2**63 < int(a[1:]) < 2**63 - 256 else b
            ops.append(mk('cmp Label %s %s' % (a, b), k='label', a=a, b=b)); ops.append(mk('cmpc %s %s' % (a, b), k='canon', a=a, b=b))
        for reg, kind in (('Algorithm', 'RegLabelPriv'), ('CwtClaimName', 'RegLabelPriv'), ('HeaderParameter', 'RegLabel'), ('KeyOperation', 'RegLabel'), ('CoapContentFormat', 'RegLabel'), ('KeyType', 'RegLabel'), ('HeaderParameter', 'RegLabelPriv'), ('EllipticCurve', 'RegLabelPriv')):
            vals = ['A%d' % v for v in reg_values(reg)[:40]] + ['X' + t.hex() for t in texts[:8] + [t for t in texts[8:] if len(t) <= 6]]      # text labels of every alphabet, not only ASCII
            if kind == 'RegLabelPriv': vals += ['P%d' % p for p in (-65537, -65538, -70000, -2**32, -2**63)]
            ps = list(itertools.product(vals, vals))
            if len(ps) > budget(tier, 600, 20000): ps = r.sample(ps, budget(tier, 600, 20000))
            for a, b in ps: ops.append(mk('cmp %s:%s %s %s' % (kind, reg, a, b), k='reg', a=a, b=b))
        return ops
    def child_ops(self, tier):
        """texts beyond 2^24 bytes (implementation only; the oracle is the order of the encodings, computed here): lengths that agree modulo
        2^24 (or 2^16, 2^8) but differ, against a content order that goes the other way (informed round 10: lengths compared after `<< 40`)"""
        out = []
        for la, ca, lb, cb in ((1, 'b', (1 << 24) + 1, 'a'), (5, 'b', (1 << 24) + 5, 'a'), (3, 'c', (1 << 16) + 3, 'a'), (300, 'b', (1 << 24) + 300, 'a')) + (((1 << 24) + 2, 'b', (1 << 25) + 2, 'a'),) * (tier == 'thorough'):
            for x, y in (((la, ca), (lb, cb)), ((lb, cb), (la, ca))):
                ta = 't' + (x[1].encode() * x[0]).hex(); tb = 't' + (y[1].encode() * y[0]).hex()
                out.append(mk('cmp Label %s %s' % (ta, tb), k='huge-label', op_='cmp', x=list(x), y=list(y), timeout=120, gen='text labels of %d x %r and %d x %r' % (x[0], x[1], y[0], y[1])))
                out.append(mk('cmpc %s %s' % (ta, tb), k='huge-label', op_='cmpc', x=list(x), y=list(y), timeout=120, gen='text labels of %d x %r and %d x %r' % (x[0], x[1], y[0], y[1])))
        return out
    def impl_pred(self, o, impl):
        m = o['meta']
        if m.get('k') == 'huge-label':
            ea = refcbor.encode(('text', m['x'][1].encode() * m['x'][0])); eb = refcbor.encode(('text', m['y'][1].encode() * m['y'][0]))
            if m['op_'] == 'cmpc': return None if impl == lenlex(ea, eb) else 'cmp_canonical differs from length-first order of the encodings (texts of %d and %d bytes)' % (m['x'][0], m['y'][0])
            parts = impl.split(' ')
            if len(parts) != 3 or parts[0] != lex(ea, eb): return 'cmp differs from bytewise order of the deterministic encodings (texts of %d and %d bytes): %s' % (m['x'][0], m['y'][0], impl[:30])
            return None
        if impl in ('panic', 'bad-partial'): return 'comparison panicked, or partial_cmp / one of the operators <, <=, >, >=, != or max / min / clamp disagrees with cmp and =='
        def enc(x):
            if x[0] in 'AP': return refcbor.encode(('int', int(x[1:])))
            if x[0] == 'X': return refcbor.encode(('text', bytes.fromhex(x[1:])))
            return lab_enc(x)
        ea, eb = enc(m['a']), enc(m['b'])
        if m['k'] == 'canon':
            if impl != lenlex(ea, eb): return 'cmp_canonical differs from length-first order of the encodings'
            return None
        parts = impl.split(' ')
        if len(parts) != 3: return None
        if parts[0] != lex(ea, eb): return 'cmp differs from bytewise order of the deterministic encodings'
        if (parts[0] == 'eq') != (parts[1] == 'T'): return 'cmp == Equal does not coincide with =='
        if parts[2] != {'lt': 'gt', 'gt': 'lt', 'eq': 'eq'}[parts[0]]: return 'cmp is not antisymmetric'
        return None

# ===================================================================== C17
@register
class C17(Prop):
    pid = 'C17'
    def gen(self, seed, tier):
        r = random.Random(seed); ops = []
        regs, priv, _ = tgen.facts()['F1']
        privnames = [p[0] for p in priv]
        for name, rows in regs:
            ops.append(mk('ianawin %s -70000 70000' % name, k='window', reg=name))
            for nm, v in rows:
                ops.append(mk('iana %s to %s' % (name, nm), k='to', reg=name, want='i%d' % v))
                ops.append(mk('iana %s from i%d' % (name, v), k='from', reg=name, want='(some %s)' % nm))
            for i in [-2**63, 2**63 - 1, -65535, -65536, -65537, -65538] + [r.randrange(-2**63, 2**63) for _ in range(budget(tier, 40, 2000))]:
                ops.append(mk('iana %s from i%d' % (name, i), k='from-other', reg=name))
                if name in privnames: ops.append(mk('iana %s priv i%d' % (name, i), k='priv', reg=name, i=i))
            for i in list(range(-65540, -65530)) + [v for _, v in rows] + [v + 1 for _, v in rows] + [2**63, -2**63 - 1]:
                e = refcbor.encode(('int', i)).hex()
                ops.append(mk('dec RegLabel:%s b%s' % (name, e), k='classify', reg=name, i=i))
                if name in privnames: ops.append(mk('dec RegLabelPriv:%s b%s' % (name, e), k='classify-priv', reg=name, i=i))
            ops.append(mk('dec RegLabel:%s b6161' % name, k='text'))
            # "text labels are always kept": also a text that reads as one of the registered numbers (informed-adversary round:
            # `t.parse().ok().and_then(from_i64)` turned "2" into the registered name)
            for nm, v in rows[:12] + rows[-3:]:
                for t in (str(v), '+%d' % v if v >= 0 else str(v), '0%d' % v if v >= 0 else '-0%d' % -v, nm):
                    e = refcbor.encode(('text', t.encode())).hex()
                    ops.append(mk('dec RegLabel:%s b%s' % (name, e), k='numeric-text', reg=name, text=t))
                    if name in privnames: ops.append(mk('dec RegLabelPriv:%s b%s' % (name, e), k='numeric-text', reg=name, text=t))
        # "text labels are always kept": every text of the shared alphabet — the empty one, padded ones, look-alikes — at every registry type
        # and at every field typed by one (informed round 10: a guard `if !t.is_empty()` on the text arm)
        for tb in TEXTS + [b' ', b'\x00', b'a' * 300]:
            e = refcbor.encode(('text', tb)).hex()
            for name, rows in regs:
                ops.append(mk('dec RegLabel:%s b%s' % (name, e), k='numeric-text', reg=name, text=tb.decode()))
                if name in privnames: ops.append(mk('dec RegLabelPriv:%s b%s' % (name, e), k='numeric-text', reg=name, text=tb.decode()))
            ops += [mk('chain Header ba101' + e, k='field-text'), mk('chain CoseKey ba2010403' + e, k='field-text'), mk('chain CoseKey ba101' + e, k='field-text'), mk('chain ClaimsSet ba1' + e + '07', k='field-text'),
                    mk('chain ClaimsSet ba20161616' + e[1:] + '07' if False else 'chain ClaimsSet ba2016161' + e + '07', k='field-text'), mk('chain Header ba10281' + e, k='field-text'), mk('chain CoseKey ba201040481' + e, k='field-text'),
                    mk('chain CoseKdfContext b84' + e + '83f6f6f683f6f6f6820040', k='field-text'), mk('chain CoseSign1 b8440a101' + e + 'f640', k='field-text'),
                    mk('chain CoseSign1 b84' + refcbor.head(2, 2 + len(e) // 2).hex() + 'a101' + e + 'a0f640', k='field-text')]
        # names of a registry compare as their integers do, private values and texts included: every pair over registered values of
        # both signs, private values and texts (informed round 12: a negative registered name compared Equal to any private one, so a
        # claims set holding both was refused as a duplicate)
        for name in privnames:
            rv = [v for _, v in dict(regs)[name]]; neg = [v for v in rv if v < 0][:6] + [v for v in rv if v < 0][-3:]; pos = [v for v in rv if v >= 0][:4]
            vals_ = ['A%d' % v for v in dict.fromkeys(neg + pos)] + ['P%d' % p_ for p_ in (-65537, -65538, -70000, -2**63)] + ['X61', 'X']
            for a_ in vals_:
                for b_ in vals_: ops.append(mk('cmp RegLabelPriv:%s %s %s' % (name, a_, b_), k='reg-cmp'))
        for pv in (-65537, -70000, -2**63):
            for rv_ in (-260, -259, -257, 1, 8, 38):
                ea, eb = refcbor.encode(('int', pv)).hex(), refcbor.encode(('int', rv_)).hex()
                val = '6161' if rv_ == 1 else '00'
                ops.append(mk('chain ClaimsSet ba2' + ea + '00' + eb + val, k='reg-mix')); ops.append(mk('chain ClaimsSet ba2' + eb + val + ea + '00', k='reg-mix'))
        for pv in (-65537, -70000):
            for rv_ in (-7, -35, -65535, 1, 10):
                ea, eb = refcbor.encode(('int', pv)).hex(), refcbor.encode(('int', rv_)).hex()
                ops.append(mk('chain CoseKeySet b82a2010403' + ea + 'a2010403' + eb, k='reg-mix')); ops.append(mk('chain Header ba20281' + '01' + '01' + ea if False else 'chain Header ba101' + ea, k='reg-mix'))
        for name, rows in regs:
            for nm, v in rows:
                for tx in dict.fromkeys((nm, nm.lower(), nm.upper())):
                    e = refcbor.encode(('text', tx.encode())).hex()
                    if name == 'CwtClaimName': ops.append(mk('chain ClaimsSet ba1' + e + '6178', k='name-text')); ops.append(mk('chain ClaimsSet ba2' + e + '00' + refcbor.encode(('int', v)).hex() + ('6178' if v in (1, 2, 3) else '00' if v in (4, 5, 6) else '4101'), k='name-text'))
                    elif name == 'Algorithm' and len(ops) % 3 == 0: ops.append(mk('chain Header ba101' + e, k='name-text')); ops.append(mk('chain CoseKey ba2010403' + e, k='name-text'))
                    elif name == 'HeaderParameter': ops.append(mk('chain Header ba1' + e + '00', k='name-text')); ops.append(mk('chain Header ba10281' + e, k='name-text'))
                    elif name == 'KeyType': ops.append(mk('chain CoseKey ba101' + e, k='name-text'))
                    elif name == 'KeyOperation': ops.append(mk('chain CoseKey ba201040481' + e, k='name-text'))
                    elif name == 'KeyParameter': ops.append(mk('chain CoseKey ba20104' + e + '00', k='name-text'))
        for i in list(range(-65540, -65530)) + [-7, 8, 0]:
            e = refcbor.encode(('int', i)).hex()
            ops += [mk('dec Header ba101' + e, k='field'), mk('dec CoseKey ba2010103' + e, k='field'), mk('dec ClaimsSet ba1' + e + 'f6', k='field'), mk('dec Header ba10281' + e, k='field'), mk('dec CoseKey ba101' + e, k='field')]
            # … at every position typed by a registry, also inside nested structures (informed round 11: the algorithm of a KDF context
            # decoded through the label type without a private range)
            pm = 'a101' + e; pb_ = refcbor.head(2, len(pm) // 2).hex() + pm
            ops += [mk('chain CoseKdfContext b84' + e + '83f6f6f683f6f6f6820040', k='field'), mk('chain CoseKdfContext b840183f6f6f683f6f6f68200' + pb_, k='field'), mk('chain SuppPubInfo b8200' + pb_, k='field'),
                    mk('dec Header ba103' + e, k='field'), mk('dec CoseKey ba201040481' + e, k='field'), mk('chain CoseSign1 b84' + pb_ + 'a0f640', k='field'), mk('chain CoseSign b8440a0f68183' + pb_ + 'a040', k='field'),
                    mk('chain CoseEncrypt b8440a0f6818340' + pm + 'f6', k='field'), mk('chain CoseMac b8540a0f64081' + '83' + pb_ + 'a0f6', k='field'), mk('chain Header ba1078340' + pm + '40', k='field'), mk('chain CoseKeySet b81a2010103' + e, k='field'),
                    mk('chain CoseRecipient b8440a0f6818340' + pm + 'f6', k='field'), mk('chain ClaimsSet ba2' + e + 'f6' + '0161' + '61', k='field')]
        # a list-typed field is accepted only if *every* element is: one invalid element at any index refuses the whole
        # (informed round 9: `flatten()` over the converted elements dropped the failing ones after the first)
        bad = [refcbor.encode(('int', 8)).hex(), refcbor.encode(('int', -70000)).hex(), '4101', 'f6', refcbor.encode(('int', 2**63)).hex()]
        for b_ in bad:
            for arr in ('82' + '01' + b_, '82' + b_ + '01', '83' + '6178' + '04' + b_, '83' + '01' + b_ + '04', '81' + b_):
                ops.append(mk('dec Header ba102' + arr, k='list-mixed')); ops.append(mk('dec CoseSign1 b8440a102' + arr + 'f640', k='list-mixed'))
                ops.append(mk('dec CoseSign1 b84' + refcbor.head(2, 2 + len(arr) // 2).hex() + 'a102' + arr + 'a0f640', k='list-mixed'))
                ops.append(mk('dec CoseKey ba2010104' + arr.replace(refcbor.encode(('int', 8)).hex(), '1863') if b_ == '08' else 'dec CoseKey ba2010104' + arr, k='list-mixed'))
        for good, bad_ in (('8340a040', '8340a0'), ('8340a040', '00'), ('8340a040', '8340a000')):
            for arr in ('82' + good + bad_, '82' + bad_ + good, '83' + good + good + bad_):
                ops.append(mk('dec CoseSign b8440a0f6' + arr, k='list-mixed')); ops.append(mk('dec Header ba107' + arr, k='list-mixed'))
        for good, bad_ in (('8340a0f6', '8340a0'), ('8340a0f6', '8340a000'), ('8340a0f6', '40')):
            for arr in ('82' + good + bad_, '82' + bad_ + good, '83' + good + good + bad_):
                ops.append(mk('dec CoseEncrypt b8440a0f6' + arr, k='list-mixed')); ops.append(mk('dec CoseMac b8540a0f640' + arr, k='list-mixed')); ops.append(mk('dec CoseRecipient b8440a0f6' + arr, k='list-mixed'))
        for arr in ('82a10101a0', '82a0a10101', '83a10101a1010140', '82a1010100'):
            ops.append(mk('dec CoseKeySet b' + arr, k='list-mixed'))
        for t in ('1', '2', '4', '60', '-7', '3', '+2'):
            e = refcbor.encode(('text', t.encode())).hex()
            ops += [mk('chain CoseKey ba101' + e, k='field-text'), mk('chain CoseKey ba201040481' + e, k='field-text'), mk('chain CoseKey ba20104048201' + e, k='field-text'), mk('chain Header ba10281' + e, k='field-text'),
                    mk('chain Header ba103' + e, k='field-text'), mk('chain Header ba101' + e, k='field-text'), mk('chain ClaimsSet ba1' + e + 'f6', k='field-text')]
        return ops
    def impl_pred(self, o, impl):
        m = o['meta']
        if 'want' in m and impl != m['want']: return 'conversion differs from the registry table in the source (extractor / macro drift)'
        if m.get('k') == 'priv' and impl != ('T' if m['i'] < -65536 else 'F'): return 'private-use predicate is not "below -65536"'
        if m.get('k') == 'numeric-text' and impl != 'ok X' + m['text'].encode().hex(): return 'a text label was not kept as text'
        if m.get('k') == 'list-mixed' and impl.startswith('ok'): return 'a list with an unacceptable element was accepted'
        return None

# ===================================================================== C18
@register
class C18(Prop):
    pid = 'C18'
    def gen(self, seed, tier):
        r = random.Random(seed); g = T(seed, valid=0.9); ops = []
        I = lambda x: ('int', x); B = lambda b: ('bytes', b); Tx = lambda b: ('text', b); F = lambda b: ('float', b)
        keys = list(range(0, 10)) + [38, 39, 40, 41, -260, -259, -258, -257, -256, -65536, -65537, -70000, 10, 2**63, -2**63]
        tsv = [I(0), I(1700000000), I(-1), I(2**63 - 1), I(-2**63), I(2**63), I(-2**63 - 1), F(0x3ff8000000000000), F(0x3e00 << 48), F(0), F(0x8000000000000000), F(0x7ff0000000000000), F(0xfff0000000000000), F(0x7ff8000000000000), F(0x41d954fc40000000), Tx(b'1'), ('null',), B(b''),
               # a timestamp is an integer or a float, never a tagged item (seeded C18-r5: tag 1 accepted)
               F(0x7ff8000000000001), F(0xfff8000000000000), F(0x7ff4000000000000), F(0x7ff0000000000001), F(0xffffffffffffffff), F(0x0000000000000001), F(0x800fffffffffffff), F(0x7fefffffffffffff),
               ('tag', 1, I(1700000000)), ('tag', 1, F(0x3ff8000000000000)), ('tag', 0, Tx(b'2013-03-21T20:04:00Z')), ('tag', 1, ('tag', 1, I(0))), ('tag', 2, B(b'\x01')), ('tag', 55799, I(5))]
        def claimval(k):
            if k in (1, 2, 3): return r.choice([Tx(b'iss'), Tx(b''), B(b'x'), I(1), ('null',)])
            if k in (4, 5, 6): return r.choice(tsv)
            if k == 7: return r.choice([B(b''), B(b'id'), Tx(b'x'), I(0)])
            return g.value(2)
        for _ in range(budget(tier, 5000, 100000)):
            m = []
            for _ in range(r.choice([0, 1, 1, 2, 3, 5])):
                k = r.choice(keys) if r.random() < 0.85 else None
                kv = I(k) if k is not None else r.choice([Tx(r.choice(TEXTS)), B(b'k'), ('null',), F(0)])
                m.append((kv, claimval(k)))
            if r.random() < 0.06 and m: m.append(r.choice(m))
            if r.random() < 0.05:
                # distinct private / registered names that differ in the last unit (seeded C15-r5: -2^63 and -2^63+1 judged equal)
                a = r.choice([-2**63, -2**63 + 1, -65538, -70000, -260, -258, 39, 8]); m += [(I(a), I(1)), (I(a + 1), r.choice([I(2), B(b'\x01\x02'), ('map', [])]))]
                r.shuffle(m)
            v = ('map', m); b = refcbor.encode(v) if r.random() < 0.5 else g.venc(v)
            ops.append(mk('chain ClaimsSet b' + b.hex(), k='claims'))
        for v in tsv: ops.append(mk('fromv Timestamp ' + vsx(v), k='timestamp'))
        # floats as the wire carries them, every width, NaNs with payload / sign, signed zeros, subnormals: kept bit for bit through decode and
        # re-encode (informed round 11: every NaN timestamp replaced by the default quiet NaN)
        for fb in ('f97e00', 'f97e01', 'f9fe00', 'f97c01', 'f98000', 'f90001', 'fa7fc00001', 'faffc00000', 'fa7f800001', 'fa80000000', 'fb7ff8000000000001', 'fbfff8000000000000', 'fb7ff4000000000000', 'fb8000000000000000', 'fb0000000000000001'):
            for kx in ('04', '05', '06'):
                ops.append(mk('chain ClaimsSet ba1' + kx + fb, k='ts-float')); ops.append(mk('chain ClaimsSet ba301616104' + fb + kx.replace('04', '05') + fb if kx != '04' else 'chain ClaimsSet ba204' + fb + '05' + fb, k='ts-float'))
        slot = [('null',), B(b''), B(b'ab'), I(5), I(-1), I(2**63), Tx(b'x'), ('array', []), ('map', []), ('bool', True)]
        # every integer width at the nonce, the key data length and the timestamps inside whole structures (informed round 13: the nonce read as i32)
        for n_ in (2**31 - 1, 2**31, -2**31, -2**31 - 1, 2**32, 2**63 - 1, -2**63, 2**63, -2**63 - 1, 65536, -65537, 0x0123456789abcdef):
            e = refcbor.encode(I(n_)).hex()
            for hx, t_ in (('83f6' + e + 'f6', 'PartyInfo'), ('834161' + e + '4162', 'PartyInfo'), ('840183f6' + e + 'f683f6' + e + 'f682188040', 'CoseKdfContext'), ('82' + (e if n_ >= 0 else '00') + '40', 'SuppPubInfo'), ('a104' + e, 'ClaimsSet'), ('a205' + e + '06' + e, 'ClaimsSet')):
                ops.append(mk('chain %s b%s' % (t_, hx), k='int-width'))
        # a byte string holding the *encoding* of a valid sub-structure is not that sub-structure (informed rounds 8/9)
        WRAPPED = [B(bytes.fromhex('820040')), B(bytes.fromhex('82188043a10126')), B(bytes.fromhex('83f6f6f6')), B(bytes.fromhex('83414101f6')), B(bytes.fromhex('a10101'))]
        for w_ in WRAPPED:
            for pos in range(4):
                a_ = [I(1), ('array', [('null',)] * 3), ('array', [('null',)] * 3), ('array', [I(0), B(b'')])]; a_[pos] = w_
                ops.append(mk('dec CoseKdfContext b' + refcbor.encode(('array', a_)).hex(), k='wrapped'))
            ops.append(mk('dec SuppPubInfo b' + refcbor.encode(w_).hex(), k='wrapped')); ops.append(mk('dec PartyInfo b' + refcbor.encode(w_).hex(), k='wrapped'))
            ops.append(mk('dec ClaimsSet b' + refcbor.encode(w_).hex(), k='wrapped')); ops.append(mk('dec CoseKeySet b' + refcbor.encode(('array', [w_])).hex(), k='wrapped'))
        # a valid encoding under a tag — any registered one, the CWT tag included — is not the structure (informed round 10)
        for t, body in (('ClaimsSet', 'a10163616263'), ('ClaimsSet', 'a0'), ('ClaimsSet', 'a3041a6553f1000262737508a101a10102'), ('CoseKdfContext', '840183f6f6f683f6f6f682188040'), ('PartyInfo', '83f6f6f6'), ('PartyInfo', '8341610541ff'),
                        ('SuppPubInfo', '82188040'), ('SuppPubInfo', '83188043a1012641aa')):
            for w_ in tag_wraps(bytes.fromhex(body)):
                ops.append(mk('dec %s b%s' % (t, w_.hex()), k='tag-wrapped', must_reject=True))
            for tg in all_tags(): ops.append(mk('fromv %s (tag %d %s)' % (t, tg, vsx(refcbor.decode(bytes.fromhex(body))[1])), k='tag-wrapped', must_reject=True))
        # … nor is a tagged item in a slot of one
        for tg in (1, 2, 24, 61, 55799):
            tb = refcbor.head(6, tg).hex()
            for hx in ('84' + tb + '0183f6f6f683f6f6f682188040', '8401' + tb + '83f6f6f683f6f6f682188040', '840183f6f6f6' + tb + '83f6f6f682188040', '840183f6f6f683f6f6f6' + tb + '82188040', '840183f6f6f683f6f6f682' + tb + '188040',
                       '840183f6f6f683f6f6f6821880' + tb + '40'):
                ops.append(mk('dec CoseKdfContext b' + hx, k='tag-slot'))
            for hx in ('83' + tb + '4161f6f6', '83f6' + tb + '05f6', '83f6f6' + tb + '4161'): ops.append(mk('dec PartyInfo b' + hx, k='tag-slot'))
        for _ in range(budget(tier, 3000, 60000)):
            def party():
                n = r.choice([3, 3, 3, 3, 0, 1, 2, 4, 5]); return ('array', [r.choice(slot[:5] if r.random() < 0.8 else slot) for _ in range(n)])
            def supp():
                n = r.choice([2, 3, 2, 3, 0, 1, 4]); base = [r.choice([I(0), I(128), I(2**64 - 1), I(-1), B(b''), I(2**63)]), r.choice([B(b''), B(bytes.fromhex('a10126')), B(b'\x01'), I(0), B(bytes.fromhex('a0'))]), r.choice([B(b'o'), B(b''), ('null',), I(1)])]
                return ('array', (base + [('null',), ('null',)])[:n])
            n = r.choice([4, 4, 4, 5, 6, 0, 1, 2, 3, 7])
            a = [r.choice([I(-7), I(1), I(-65537), I(8), Tx(b'a'), B(b''), I(2**63)]), party(), party(), supp()] + [r.choice([B(b'p'), B(b''), ('null',), I(1)] if r.random() < 0.3 else [B(b'p'), B(b'')]) for _ in range(3)]
            v = ('array', a[:n]); b = refcbor.encode(v) if r.random() < 0.5 else g.venc(v)
            ops.append(mk('chain CoseKdfContext b' + b.hex(), k='kdf'))
            c = r.random()
            if c < 0.3: ops.append(mk('chain PartyInfo b' + g.venc(party()).hex(), k='party'))
            elif c < 0.6: ops.append(mk('chain SuppPubInfo b' + g.venc(supp()).hex(), k='supp'))
        # the protected header of SuppPubInfo gets the same nesting budget as every other protected header (informed round 8)
        from props_streams import nestG, NEST_PATTERNS
        for k in (14, 15, 16, 17, 18):
            for pat in NEST_PATTERNS:
                h = nestG(k, pat); hb = refcbor.head(2, len(h)) + h
                ops.append(mk('chain SuppPubInfo b' + (b'\x82\x18\x80' + hb).hex(), k='supp-nest', n=k))
                ops.append(mk('chain CoseKdfContext b' + (b'\x84\x01\x83\xf6\xf6\xf6\x83\xf6\xf6\xf6\x82\x18\x80' + hb).hex(), k='kdf-nest', n=k))
        for _ in range(budget(tier, 1500, 20000)):
            t = r.choice(['ClaimsSet', 'CoseKdfContext', 'PartyInfo', 'SuppPubInfo'])
            ops.append(mk('enc %s %s' % (t, g.typed(t)), k='enc:' + t))
        return ops

def _c18_pred(self, o, impl):
    if o['meta'].get('must_reject') and impl.startswith('ok'): return 'a tagged item was accepted where the structure itself (a map / an array) is required'
    return None
C18.impl_pred = _c18_pred

# ===================================================================== C19
@register
class C19(Prop):
    pid = 'C19'
    def opsfor(self, g, r):
        E = C02.EMPTY
        from props_streams import STRUCT_BYTES
        KEYB = [bytes.fromhex(x) for x in ('a201042041aa', 'a30104024231312041aa', 'a10102', '81a10102', 'a1010' + '4')]
        # byte arguments that happen to be encodings of keys, headers, claims sets, messages: stored as given (informed round 13: the key-id
        # setter took a serialized COSE_Key "in place of a bare identifier")
        hdr = lambda: g.hdr(1); b = lambda **kw: ('b' + r.choice(STRUCT_BYTES + KEYB).hex()) if r.random() < 0.15 else g.b(**kw); v = lambda: g.val(2)
        alg = lambda: 'A%d' % r.choice(reg_values('Algorithm'));
        return {
            'HeaderBuilder': [lambda: '(algorithm %s)' % alg(), lambda: '(add_critical A%d)' % r.choice(reg_values('HeaderParameter')), lambda: '(add_critical_label %s)' % g.rl('HeaderParameter'),
                              lambda: '(content_format A%d)' % r.choice(reg_values('CoapContentFormat')), lambda: '(content_type t%s)' % g.txt().hex(), lambda: '(key_id %s)' % b(), lambda: '(iv %s)' % b(),
                              lambda: '(partial_iv %s)' % b(), lambda: '(add_counter_signature %s)' % g.sig(2), lambda: '(value i%d %s)' % (r.choice([0, 1, 2, 6, 7, 8, 9, -1, -65536, -65537, 2**63 - 1, -2**63, 33]), v()), lambda: '(text_value t%s %s)' % (g.txt().hex(), v())],
            'CoseSignatureBuilder': [lambda: '(protected %s)' % hdr(), lambda: '(unprotected %s)' % hdr(), lambda: '(signature %s)' % b()],
            'CoseSign1Builder': [lambda: '(protected %s)' % hdr(), lambda: '(unprotected %s)' % hdr(), lambda: '(payload %s)' % b(), lambda: '(signature %s)' % b(), lambda: '(create_signature %s echo)' % b(), lambda: '(try_create_signature %s (k b0102))' % b(), lambda: '(create_detached_signature %s %s echo)' % (b(), b()),
                                 lambda: '(try_create_signature %s (k b))' % b(), lambda: '(try_create_detached_signature %s %s (k b))' % (b(), b()), lambda: '(create_signature %s (k b))' % b()],
            'CoseSignBuilder': [lambda: '(protected %s)' % hdr(), lambda: '(unprotected %s)' % hdr(), lambda: '(payload %s)' % b(), lambda: '(add_signature %s)' % g.sig(1), lambda: '(add_created_signature %s %s echo)' % (g.sig(1), b()), lambda: '(try_add_created_signature %s %s (fail 4))' % (g.sig(1), b()),
                                # the four creating adders with a signer that returns nothing / a constant, on a signature that already carries bytes
                                # (informed round 12: an empty signer output fell back to the stale signature)
                                lambda: '(try_add_created_signature (sig (ph - %s) %s bdeadbeef) %s %s)' % (E, E, b(), r.choice(['(k b)', '(k b01)', 'echo'])), lambda: '(add_created_signature (sig (ph - %s) %s bdeadbeef) %s (k b))' % (E, E, b()),
                                lambda: '(try_add_detached_signature (sig (ph - %s) %s bdeadbeef) %s %s %s)' % (E, E, b(), b(), r.choice(['(k b)', '(k b01)', 'echo', '(fail 2)'])), lambda: '(add_detached_signature (sig (ph - %s) %s bdeadbeef) %s %s (k b))' % (E, E, b(), b())],
            'CoseMacBuilder': [lambda: '(protected %s)' % hdr(), lambda: '(unprotected %s)' % hdr(), lambda: '(payload %s)' % b(), lambda: '(tag %s)' % b(), lambda: '(add_recipient %s)' % g.rcp(1), lambda: '(create_tag %s echo)' % b()],
            'CoseMac0Builder': [lambda: '(protected %s)' % hdr(), lambda: '(unprotected %s)' % hdr(), lambda: '(payload %s)' % b(), lambda: '(tag %s)' % b(), lambda: '(try_create_tag %s (k b09))' % b(), lambda: '(try_create_tag %s (k b))' % b(), lambda: '(create_tag %s (k b))' % b()],
            'CoseRecipientBuilder': [lambda: '(protected %s)' % hdr(), lambda: '(unprotected %s)' % hdr(), lambda: '(ciphertext %s)' % b(), lambda: '(add_recipient %s)' % g.rcp(1), lambda: '(create_ciphertext %s %s %s cat)' % (r.choice(['EncRecipient', 'MacRecipient', 'RecRecipient', 'CoseEncrypt', 'CoseEncrypt0']), b(), b()),
                                     lambda: '(try_create_ciphertext %s %s %s %s)' % (r.choice(['EncRecipient', 'MacRecipient', 'RecRecipient', 'CoseEncrypt', 'CoseEncrypt0']), b(), b(), r.choice(['cat', '(k b01)', '(fail 2)']))],
            'CoseEncryptBuilder': [lambda: '(protected %s)' % hdr(), lambda: '(unprotected %s)' % hdr(), lambda: '(ciphertext %s)' % b(), lambda: '(add_recipient %s)' % g.rcp(1), lambda: '(create_ciphertext %s %s cat)' % (b(), b())],
            'CoseEncrypt0Builder': [lambda: '(protected %s)' % hdr(), lambda: '(unprotected %s)' % hdr(), lambda: '(ciphertext %s)' % b(), lambda: '(try_create_ciphertext %s %s (k b01))' % (b(), b()), lambda: '(try_create_ciphertext %s %s (k b))' % (b(), b()), lambda: '(create_ciphertext %s %s (k b))' % (b(), b())],
            'CoseKeyBuilder': [lambda: '(kty %s)' % g.rl('KeyType'), lambda: '(key_id %s)' % b(), lambda: '(base_iv %s)' % b(), lambda: '(key_type A%d)' % r.choice(reg_values('KeyType')), lambda: '(algorithm %s)' % alg(), lambda: '(add_key_op A%d)' % r.choice(reg_values('KeyOperation')),
                               lambda: '(param i%d %s)' % (r.choice([0, 1, 2, 3, 4, 5, 6, -1, -2, -3, -4, 2**63 - 1, -2**63]), v())],
            'ClaimsSetBuilder': [lambda: '(issuer t%s)' % g.txt().hex(), lambda: '(subject t%s)' % g.txt().hex(), lambda: '(audience t%s)' % g.txt().hex(), lambda: '(expiration_time %s)' % g.tts(), lambda: '(not_before %s)' % g.tts(), lambda: '(issued_at %s)' % g.tts(), lambda: '(cwt_id %s)' % b(),
                                 lambda: '(claim A%d %s)' % (r.choice(reg_values('CwtClaimName')), v()), lambda: '(text_claim t%s %s)' % (g.txt().hex(), v()), lambda: '(private_claim i%d %s)' % (r.choice([-65537, -65536, -65538, -70000, 0, 1, 7, -2**63, 2**63 - 1, -1]), v())],
            'PartyInfoBuilder': [lambda: '(identity %s)' % b(), lambda: '(nonce %s)' % r.choice([b(), 'i5', 'i-1', 'i%d' % (2**63 - 1)]), lambda: '(other %s)' % b()],
            'SuppPubInfoBuilder': [lambda: '(key_data_length i%d)' % r.choice([0, 1, 128, 2**64 - 1]), lambda: '(protected %s)' % hdr(), lambda: '(other %s)' % b()],
            'CoseKdfContextBuilder': [lambda: '(party_u_info %s)' % g.tparty(), lambda: '(party_v_info %s)' % g.tparty(), lambda: '(supp_pub_info %s)' % g.tsupp(), lambda: '(algorithm %s)' % alg(), lambda: '(add_supp_priv_info %s)' % b()],
        }
    def gen(self, seed, tier):
        r = random.Random(seed); g = T(seed, valid=1.0); ops = []
        table = self.opsfor(g, r)
        ctors = [lambda: '(new_ec2_pub_key A%d %s %s)' % (r.choice(reg_values('EllipticCurve')), g.b(), g.b()), lambda: '(new_ec2_pub_key_y_sign A%d %s %s)' % (r.choice(reg_values('EllipticCurve')), g.b(), r.choice('TF')),
                 lambda: '(new_ec2_priv_key A%d %s %s %s)' % (r.choice(reg_values('EllipticCurve')), g.b(), g.b(), g.b()), lambda: '(new_symmetric_key %s)' % g.b(), lambda: '(new_okp_key)']
        for B, fs in table.items():
            ops.append(mk('build %s' % B, k=B))
            for f in fs:
                for _ in range(budget(tier, 2, 6)): ops.append(mk('build %s %s' % (B, f()), k=B))
            for f1, f2 in itertools.product(fs, fs):                       # exhaustive pairs
                ops.append(mk('build %s %s %s' % (B, f1(), f2()), k=B))
            if tier == 'thorough':
                for f1, f2, f3 in itertools.product(fs, fs, fs): ops.append(mk('build %s %s %s %s' % (B, f1(), f2(), f3()), k=B))
            for _ in range(budget(tier, 40, 600)):                         # random histories
                n = r.randint(3, 30 if r.random() < 0.2 else 8)
                ops.append(mk('build %s %s' % (B, ' '.join(r.choice(fs)() for _ in range(n))), k=B))
        # the same adder N times in a row, N around every count at which an array head, a sort strategy or a plausible cap changes
        # (informed-adversary round: a cap of 16 on add_counter_signature needs 17 calls; no random history makes them)
        ADDERS = {'HeaderBuilder': ['add_counter_signature', 'add_critical', 'value', 'text_value'], 'CoseSignBuilder': ['add_signature', 'add_created_signature'],
                  'CoseMacBuilder': ['add_recipient'], 'CoseEncryptBuilder': ['add_recipient'], 'CoseRecipientBuilder': ['add_recipient'],
                  'CoseKeyBuilder': ['add_key_op', 'param'], 'ClaimsSetBuilder': ['claim', 'text_claim', 'private_claim'], 'CoseKdfContextBuilder': ['add_supp_priv_info']}
        for B, names in ADDERS.items():
            for nm in names:
                fs = [f for f in table[B] if f().startswith('(' + nm + ' ')]
                if not fs: continue
                for n in (15, 16, 17, 18, 23, 24, 25, 33, 34, 35, 100) + ((255, 256, 257) if tier == 'thorough' or nm in ('add_counter_signature', 'add_signature', 'add_recipient') else ()):
                    def one(i):
                        x = fs[0]()
                        # distinct labels for the guarded adders so that the sequence does not stop at a duplicate / reserved label
                        if nm in ('value', 'param'): x = re.sub(r'^\((\w+) i-?\d+ ', lambda m_: '(%s i%d ' % (m_.group(1), 1000 + i), x)
                        if nm == 'private_claim': x = re.sub(r'^\((\w+) i-?\d+ ', lambda m_: '(%s i%d ' % (m_.group(1), -70000 - i), x)
                        if nm in ('text_value', 'text_claim'): x = re.sub(r'^\((\w+) t[0-9a-f]* ', lambda m_: '(%s t%s ' % (m_.group(1), ('k%d' % i).encode().hex()), x)
                        return x
                    ops.append(mk('build %s %s' % (B, ' '.join(one(i) for i in range(n))), k=B + ':repeat', n=n))
        for c in ctors:
            for _ in range(budget(tier, 6, 60)):
                ops.append(mk('build CoseKeyBuilder %s %s' % (c(), ' '.join(r.choice(table['CoseKeyBuilder'])() for _ in range(r.randint(0, 3)))), k='key-ctor'))
        return ops
    def impl_pred(self, o, impl):
        # built headers never carry both IV and Partial IV
        if o['op'].startswith('build HeaderBuilder') and impl.startswith('ok (hdr'):
            it = parse(impl)[1]
            if it[5] != 'b' and it[6] != 'b': return 'built header carries both IV and Partial IV'
        return None

# ===================================================================== C20
@register
class C20(Prop):
    pid = 'C20'
    def gen(self, seed, tier):
        r = random.Random(seed); g = T(seed, valid=1.0); ops = []
        extras = ['i-1', 'i-2', 'i-65537', 'i%d' % (-2**63), 'i0', 'i6', 'i23', 'i24', 'i255', 'i256', 'i65536', 'i%d' % (2**63 - 1), 't', 't61', 't62', 't6161', 't' + (b'x' * 24).hex(), 'i-24', 'i-25', 'i-256', 'i-257', 'tc3a9', 'tc3a9c3a9', 't616263', 'te282ac', 't7a7a']
        # parameter values: scalars, and values that themselves hold maps with entries in no particular order, directly or inside
        # arrays / tags / other maps (seeded C20-r4: canonicalize must not touch them)
        NESTED = ['(map t62 i2 i256 i1 i-1 i0)', '(map i2 N i1 N)', '(arr (map t6262 i1 t61 i2) i7)', '(tag 99 (map i10 i1 i9 i2))',
                  '(map i1 (map t7a i1 t61 i2) i0 (arr))', '(map i-1 i0 i-25 i1 i24 i2)', '(arr (arr (map b02 i1 b01 i2)))', '(map i1 i1 i1 i2)']
        # … and byte strings / texts whose content is the encoding of a key, a header, a key set in wire order: values like any other
        # (informed round 11: a byte string that decodes as a COSE_Key canonicalised recursively)
        NESTED += ['ba203260101', 'ba2200103' + '26' if False else 'ba20326200101'[:0] + 'ba3200121022203', 'b81a203260101', 'ba201040482' + '0201', 'b43a10126', 'ba1010' + '1', '(arr ba203260101)', '(tag 24 ba203260101)', '(arr (map i-1 baabb i1 i4))', '(tag 99 (map i3 i-7 i1 i2))', '(tag 24 (map i-1 b01 i1 i4))', 'f7ff8000000000001', 'ffff8000000000000', 'f7ff4000000000000', 'f8000000000000000', '(arr f7ff8000000000001)', 'f7ff8000000000000', 'f3ff8000000000000', '(tag 99 (tag 99 (map i3 i-7 i1 i2)))', '(arr (map i3 i-7 i1 i1) (map i1 i2))', '(map i1 (arr (map i-1 b01 i1 i4)))', 't' + b'{3: -7, 1: 1}'.hex()]
        VALS = ['N', 'i1', 'b00', '(arr)', 't61'] * 2 + NESTED
        def keyform(params):
            kty = r.choice(['A1', 'A2', 'A4', 'X6b']); kid = r.choice(['b', 'b01']); alg = r.choice(['-', 'A-7', 'P-70000', 'X61'])
            ops_ = r.choice(['', ' A1', ' A2 A1', ' X78 A10 A3']); biv = r.choice(['b', 'b0909'])
            ps = ' '.join('%s %s' % (l, r.choice(VALS)) for l in params)
            return '(key %s %s %s (ops%s) %s (params%s))' % (kty, kid, alg, ops_, biv, (' ' + ps) if ps else '')
        sets = []
        for n in range(0, 5):
            for _ in range(budget(tier, 25, 300)):
                sets.append(r.sample(extras, n))
        for s in sets:
            perms = list(itertools.permutations(s)) if len(s) <= 3 else [tuple(r.sample(s, len(s))) for _ in range(6)]
            for p in perms[:budget(tier, 6, 24)]:
                k = keyform(p)
                for o in ('lex', 'len'): ops.append(mk('canon %s %s' % (o, k), k='canon', order=o, params=list(p)))
        for _ in range(budget(tier, 300, 5000)):
            k = keyform(r.sample(extras, r.randint(5, 12)))
            for o in ('lex', 'len'): ops.append(mk('canon %s %s' % (o, k), k='canon', order=o))
        # many extra parameters with labels of mixed encoded lengths (sorting algorithms change strategy with the size:
        # insertion sort below ~20 elements, quicksort / merge runs above; an unstable or partial sort only shows on long lists)
        pool = ['i%d' % i for i in list(range(6, 24)) + list(range(24, 64)) + [255, 256, 257, 1000, 65535, 65536, 70000, 2**32 - 1, 2**32, 2**40]] \
            + ['i%d' % i for i in list(range(-24, 0)) + list(range(-64, -24)) + [-256, -257, -1000, -65536, -65537, -2**32, -2**32 - 1]] \
            + ['t' + bytes([c]).hex() for c in range(0x61, 0x7b)] + ['t' + bytes([c, d]).hex() for c in (0x61, 0x62, 0x7a) for d in (0x61, 0x6d, 0x7a)] \
            + ['t' + (bytes([c]) * 3).hex() for c in range(0x61, 0x67)] + ['tc3a9', 'te282ac', 'tf09f9880']
        for pa, pb in (('t' + (b'a' * 69999 + b'c').hex(), 't' + (b'a' * 69999 + b'b').hex()), ('t' + (b'a' * 65536 + b'z').hex(), 't' + (b'a' * 65536 + b'b').hex())):
            for o in ('lex', 'len'):
                ops.append(mk('canon %s (key A1 b - (ops) b (params %s N %s N i9 N))' % (o, pa, pb), k='canon', order=o, gen='labels of 65-70k bytes sharing all but the last byte'))
        for n in (13, 20, 21, 32, 33, 34, 40, 50, 64, 65, 100, 150) + ((200,) if tier == 'quick' else (200, 300)):
            for _ in range(budget(tier, 3, 12)):
                k = keyform(r.sample(pool, min(n, len(pool))))
                for o in ('lex', 'len'): ops.append(mk('canon %s %s' % (o, k), k='canon', order=o, many=n))
        return ops
    def followups(self, ops, impl):
        """second pass: encode the canonicalised key, canonicalise again, chain"""
        out = []
        for o, a in zip(ops, impl):
            if o['meta'].get('k') == 'canon' and a.startswith('ok '):
                k2 = a[3:]
                out.append(mk('enc CoseKey %s' % k2, k='enc-canon', order=o['meta']['order'], src=o['op']))
                out.append(mk('canon %s %s' % (o['meta']['order'], k2), k='idem', expect=a))
                orig = o['op'].split(' ', 2)[2]
                out.append(mk('enc CoseKey %s' % orig, k='enc-orig', order=o['meta']['order']))
        return out
    def impl_pred(self, o, impl):
        m = o['meta']
        if m.get('k') == 'idem' and impl != m['expect']: return 'canonicalising twice is not a no-op'
        if m.get('k') == 'canon' and impl.startswith('ok '):
            a = parse(o['op'])[2]; b = parse(impl)[1]
            if a[:4] != b[:4] or sorted(map(render, a[4])) != sorted(map(render, b[4])) or a[5] != b[5]: return 'canonicalize changed a typed field'
            pa = sorted(render(x) for x in zip(a[6][1::2], a[6][2::2])) if len(a[6]) > 1 else []
            pb = sorted(render(x) for x in zip(b[6][1::2], b[6][2::2])) if len(b[6]) > 1 else []
            if pa != pb: return 'canonicalize changed the set of label-value pairs'
        if m.get('k') == 'enc-canon' and impl.startswith('ok b'):
            d = refcbor.decode(bytes.fromhex(impl[4:]))
            if d[0] == 'ok' and d[1][0] == 'map':
                ks = [refcbor.encode(k) for k, _ in d[1][1]]
                key = (lambda x: x) if m['order'] == 'lex' else (lambda x: (len(x), x))
                for x, y in zip(ks, ks[1:]):
                    if not key(x) < key(y): return 'encoded keys of a canonicalised key are not strictly ascending (%s then %s)' % (x.hex(), y.hex())
        return None

def c20_known(case, f):
    return case['meta'].get('k') == 'enc-canon' and 'not strictly ascending' in case['why'] and re.search(r'\(params[^)]*\bi0\b', case['op']) is not None and 'then 00' in case['why']
P.KNOWN_PRED['c20-label-zero'] = c20_known
P.WITNESS_PRED['c20-label-zero'] = lambda w, impl, f: C20().impl_pred(dict(op=w, meta=dict(k='enc-canon', order='lex')), impl) is not None
