"""Text forms (FORMS.md) for Python-side values: tuples ('int',n) ('bytes',b) ('text',b) ('float',bits) ('bool',b) ('null',)
('tag',t,v) ('array',[..]) ('map',[(k,v)..])."""
def vsx(v):
    k = v[0]
    if k == 'int': return 'i%d' % v[1]
    if k == 'bytes': return 'b' + bytes(v[1]).hex()
    if k == 'text': return 't' + bytes(v[1]).hex()
    if k == 'float': return 'f%016x' % v[1]
    if k == 'bool': return 'T' if v[1] else 'F'
    if k == 'null': return 'N'
    if k == 'tag': return '(tag %d %s)' % (v[1], vsx(v[2]))
    if k == 'array': return '(arr' + ''.join(' ' + vsx(x) for x in v[1]) + ')'
    if k == 'map': return '(map' + ''.join(' %s %s' % (vsx(a), vsx(b)) for a, b in v[1]) + ')'
    raise ValueError(k)

def tokenize(s):
    out = []; cur = ''
    for c in s:
        if c in '()':
            if cur: out.append(cur); cur = ''
            out.append(c)
        elif c in ' \t':
            if cur: out.append(cur); cur = ''
        else: cur += c
    if cur: out.append(cur)
    return out

def parse(s):
    """line -> list of items; an item is a str (atom) or a list"""
    stack = [[]]
    for t in tokenize(s):
        if t == '(':
            stack.append([])
        elif t == ')':
            x = stack.pop(); stack[-1].append(x)
        else: stack[-1].append(t)
    if len(stack) != 1: raise ValueError('unbalanced')
    return stack[0]

def render(x):
    if isinstance(x, str): return x
    return '(' + ' '.join(render(y) for y in x) + ')'

def sx_value(x):
    """parsed Value form -> python value tuple"""
    if isinstance(x, str):
        if x == 'T': return ('bool', True)
        if x == 'F': return ('bool', False)
        if x == 'N': return ('null',)
        c = x[0]
        if c == 'i': return ('int', int(x[1:]))
        if c == 'b': return ('bytes', bytes.fromhex(x[1:]))
        if c == 't': return ('text', bytes.fromhex(x[1:]))
        if c == 'f': return ('float', int(x[1:], 16))
        raise ValueError(x)
    if x[0] == 'tag': return ('tag', int(x[1]), sx_value(x[2]))
    if x[0] == 'arr': return ('array', [sx_value(y) for y in x[1:]])
    if x[0] == 'map': return ('map', [(sx_value(x[i]), sx_value(x[i + 1])) for i in range(1, len(x), 2)])
    raise ValueError(x)

def is_nan_bits(b): return ((b >> 52) & 0x7ff) == 0x7ff and (b & 0xFFFFFFFFFFFFF) != 0

def canon_nan(line):
    """replace every f<bits>/F<bits> NaN atom by fnan for comparisons 'up to NaN payload'"""
    import re
    def rep(m):
        b = int(m.group(2), 16)
        return (m.group(1) + 'nan') if is_nan_bits(b) else m.group(0)
    return re.sub(r'(?<![0-9a-zA-Z])([fF])([0-9a-f]{16})(?![0-9a-f])', rep, line)
