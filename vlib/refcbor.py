"""Reference model of ciborium 0.2.2 Value (de)serialization -- design probe."""
import struct
class Err(Exception): pass
SCRATCH=4096
def f16_to_f64_bits(h):
    s=(h>>15)&1; e=(h>>10)&0x1f; m=h&0x3ff
    if e==0 and m==0: return s<<63
    if e==0x1f:
        if m==0: return (s<<63)|0x7ff0000000000000
        return (s<<63)|0x7ff8000000000000|(m<<42)
    if e==0:
        lz = 16 - m.bit_length()  # leading zeros of u16
        ee = lz-6
        exp=(1023-15-ee)<<52
        man=(m<<(43+ee))&0xFFFFFFFFFFFFF
        return (s<<63)|exp|man
    return (s<<63)|((e-15+1023)<<52)|(m<<42)
def f32_to_f64_bits(w):
    s=(w>>31)&1; e=(w>>23)&0xff; m=w&0x7fffff
    if e==0xff and m!=0:
        return (s<<63)|0x7ff8000000000000|(m<<29)   # hardware quiets
    x=struct.unpack('>f',struct.pack('>I',w))[0]
    return struct.unpack('>Q',struct.pack('>d',x))[0]
def f64_to_f16_bits(v):
    x=v>>32; sign=x&0x80000000; exp=x&0x7ff00000; man=x&0xfffff
    if exp==0x7ff00000:
        nan_bit = 0 if (man==0 and (v&0xffffffff)==0) else 0x200
        return ((sign>>16)|0x7c00|nan_bit|(man>>10))&0xffff
    half_sign=sign>>16
    unb=(exp>>20)-1023; he=unb+15
    if he>=0x1f: return (half_sign|0x7c00)&0xffff
    if he<=0:
        if 10-he>21: return half_sign&0xffff
        man|=0x100000
        hm=man>>(11-he)
        rb=1<<(10-he)
        if (man&rb)!=0 and (man&(3*rb-1))!=0: hm+=1
        return (half_sign|hm)&0xffff
    hexp=he<<10; hm=man>>10; rb=0x200
    if (man&rb)!=0 and (man&(3*rb-1))!=0: return ((half_sign|hexp|hm)+1)&0xffff
    return (half_sign|hexp|hm)&0xffff
def f64_to_f32_bits(v):
    s=(v>>63)&1; e=(v>>52)&0x7ff; m=v&0xFFFFFFFFFFFFF
    if e==0x7ff and m!=0:
        return (s<<31)|0x7fc00000|(m>>29)
    x=struct.unpack('>d',struct.pack('>Q',v))[0]
    try: return struct.unpack('>I',struct.pack('>f',x))[0]
    except OverflowError: return (s<<31)|0x7f800000
def valid_utf8(b):
    try: bytes(b).decode('utf-8'); return True
    except UnicodeDecodeError: return False

class Dec:
    def __init__(s,b): s.b=b; s.i=0; s.buf=None
    def read(s,n):
        if s.i+n>len(s.b): raise Err('io')
        r=s.b[s.i:s.i+n]; s.i+=n; return r
    def pull(s):
        if s.buf is not None:
            h=s.buf; s.buf=None; return h
        p=s.read(1)[0]; maj=p>>5; mi=p&31
        if mi<24: arg=mi; w=0
        elif mi==24: arg=s.read(1)[0]; w=1
        elif mi==25: arg=int.from_bytes(s.read(2),'big'); w=2
        elif mi==26: arg=int.from_bytes(s.read(4),'big'); w=4
        elif mi==27: arg=int.from_bytes(s.read(8),'big'); w=8
        elif mi==31: arg=None; w=0
        else: raise Err('syntax')
        if maj in (0,1,6):
            if arg is None: raise Err('syntax')
            return (('pos','neg',None,None,None,None,'tag')[maj],arg)
        if maj in (2,3,4,5): return (('bytes','text','array','map')[maj-2],arg)
        # major 7
        if mi==31: return ('break',None)
        if mi<24: return ('simple',arg)
        if w==1: return ('simple',arg)
        if w==2: return ('float',f16_to_f64_bits(arg))
        if w==4: return ('float',f32_to_f64_bits(arg))
        return ('float',arg)
    def push(s,h): assert s.buf is None; s.buf=h
    def segments(s,kind,length):
        # returns list of segment byte strings
        s.push((kind,length))
        nested=0; out=[]
        while True:
            h=s.pull()
            if h[0]=='break' and nested==1: return out
            if h[0]=='break' and nested>1: nested-=1; continue
            if h[0]!=kind: raise Err('syntax')
            if h[1] is None: nested+=1; continue
            out.append(s.read(h[1]))
            if nested==0: return out
    def any(s,rec):
        h=s.pull(); k,a=h
        if k=='pos': return ('int',a)
        if k=='neg': return ('int',-1-a)
        if k=='bytes':
            if a is not None and a<=SCRATCH: return ('bytes',bytes(s.read(a)))
            return ('bytes',b''.join(s.segments('bytes',a)))
        if k=='text':
            if a is not None and a<=SCRATCH:
                d=s.read(a)
                if not valid_utf8(d): raise Err('syntax')
                return ('text',bytes(d))
            segs=s.segments('text',a)
            for g in segs:
                if not valid_utf8(g): raise Err('syntax')
            return ('text',b''.join(segs))
        if k=='array':
            if rec==0: raise Err('recursion')
            xs=[]
            if a is None:
                while True:
                    h2=s.pull()
                    if h2[0]=='break': break
                    s.push(h2); xs.append(s.any(rec-1))
            else:
                for _ in range(a): xs.append(s.any(rec-1))
            return ('array',xs)
        if k=='map':
            if rec==0: raise Err('recursion')
            xs=[]
            if a is None:
                while True:
                    h2=s.pull()
                    if h2[0]=='break': break
                    s.push(h2); kk=s.any(rec-1); vv=s.any(rec-1); xs.append((kk,vv))
            else:
                for _ in range(a):
                    kk=s.any(rec-1); vv=s.any(rec-1); xs.append((kk,vv))
            return ('map',xs)
        if k=='tag':
            h2=s.pull(); s.push(h2)
            if a in (2,3) and h2[0]=='bytes' and h2[1] is not None and h2[1]<=16:
                s.pull()
                raw=int.from_bytes(b''.join(s.segments('bytes',h2[1])),'big')
                if a==2:
                    return from_u128(raw)
                if raw>=2**127: raise Err('too large')
                return from_i128(-1-raw)
            if rec==0: raise Err('recursion')
            return ('tag',a,s.any(rec-1))
        if k=='float': return ('float',a)
        if k=='simple':
            if a==20: return ('bool',False)
            if a==21: return ('bool',True)
            if a in (22,23): return ('null',)
            raise Err('simple')
        raise Err('break')
def minbytes(n):
    return n.to_bytes((n.bit_length()+7)//8,'big')
def from_u128(raw):
    if raw<2**64: return ('int',raw)
    return ('tag',2,('bytes',minbytes(raw)))
def from_i128(x):
    if -2**64<=x<2**64: return ('int',x)
    if x<0: return ('tag',3,('bytes',minbytes(-1-x)))
    return ('tag',2,('bytes',minbytes(x)))
def decode(b):
    d=Dec(b)
    try:
        v=d.any(256)
    except Err as e: return ('err','decode')
    except RecursionError: return ('err','decode')
    if d.i!=len(b): return ('err','extraneous')
    return ('ok',v)
def head(m,n):
    if n<24: return bytes([m*32+n])
    if n<256: return bytes([m*32+24,n])
    if n<65536: return bytes([m*32+25])+n.to_bytes(2,'big')
    if n<2**32: return bytes([m*32+26])+n.to_bytes(4,'big')
    return bytes([m*32+27])+n.to_bytes(8,'big')
def encode(v):
    k=v[0]
    if k=='int': return head(0,v[1]) if v[1]>=0 else head(1,-1-v[1])
    if k=='bytes': return head(2,len(v[1]))+v[1]
    if k=='text': return head(3,len(v[1]))+v[1]
    if k=='array': return head(4,len(v[1]))+b''.join(encode(x) for x in v[1])
    if k=='map': return head(5,len(v[1]))+b''.join(encode(a)+encode(b) for a,b in v[1])
    if k=='tag': return head(6,v[1])+encode(v[2])
    if k=='bool': return b'\xf5' if v[1] else b'\xf4'
    if k=='null': return b'\xf6'
    if k=='float':
        x=v[1]
        h=f64_to_f16_bits(x)
        if f16_to_f64_bits(h)==x: return b'\xf9'+h.to_bytes(2,'big')
        w=f64_to_f32_bits(x)
        if f32_to_f64_bits(w)==x: return b'\xfa'+w.to_bytes(4,'big')
        return b'\xfb'+x.to_bytes(8,'big')
def render(v):
    k=v[0]
    if k=='int': return 'i%d'%v[1]
    if k=='bytes': return 'b'+v[1].hex()
    if k=='text': return 't'+v[1].hex()
    if k=='float': return 'f%016x'%v[1]
    if k=='bool': return 'T' if v[1] else 'F'
    if k=='null': return 'N'
    if k=='tag': return 'g%d(%s)'%(v[1],render(v[2]))
    if k=='array': return '['+','.join(render(x) for x in v[1])+']'
    if k=='map': return '{'+','.join(render(a)+':'+render(b) for a,b in v[1])+'}'
