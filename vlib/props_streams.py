"""Operation streams and implementation-level predicates for C01..C20."""
import random, itertools, re
import props as P
from props import Prop, register, mk, mutate, budget
import tgen, refcbor, forms
from tgen import T, BYTE_TYPES, TAGGED, TYPED_TYPES, INTS, WIDE, TEXTS
from forms import vsx, parse, render, canon_nan

def dec_ops(g, r, n, types=BYTE_TYPES, op_choices=('dec',), mut=0.12, valid=None):
    out = []
    for _ in range(n):
        t = r.choice(types)
        v = g.wire(t) if r.random() < 0.85 else g.any_top()
        b = g.venc(v)
        if r.random() < mut: b = mutate(r, b)
        out.append(mk('%s %s b%s' % (r.choice(op_choices), t, b.hex()), k=t))
    return out

def head_variants(m, n):
    out = []
    if n < 24: out.append(bytes([m * 32 + n]))
    if n < 256: out.append(bytes([m * 32 + 24, n]))
    if n < 65536: out.append(bytes([m * 32 + 25]) + n.to_bytes(2, 'big'))
    if n < 2**32: out.append(bytes([m * 32 + 26]) + n.to_bytes(4, 'big'))
    if n < 2**64: out.append(bytes([m * 32 + 27]) + n.to_bytes(8, 'big'))
    return out

def int_encodings(n):
    """all head encodings of integer n, plus bignum-tag forms"""
    m, a = (0, n) if n >= 0 else (1, -1 - n)
    out = head_variants(m, a) if a < 2**64 else []
    raw = a.to_bytes(max(1, (a.bit_length() + 7) // 8), 'big')
    tag = b'\xc2' if n >= 0 else b'\xc3'
    out.append(tag + refcbor.head(2, len(raw)) + raw)
    out.append(tag + refcbor.head(2, len(raw) + 2) + b'\x00\x00' + raw)
    return out

def nestW(n):
    """header nested n levels through counter-signature protected headers"""
    w = b'\xa0'
    for _ in range(n):
        inner = refcbor.head(2, len(w)) + w
        w = b'\xa1\x07\x83' + inner + b'\xa0\x40'
    return w

def nestG(n, pattern, inner=b'\xa0', indef=False):
    """header nested n levels; pattern[i % len] in 'pb' 'pl' 'ub' 'ul': level i goes through the protected (p) or unprotected (u) header of
    the counter signature, written bare (b) or as a one-element list (l); `inner` is the innermost header map; with `indef` the maps
    inside protected byte strings are written with indefinite length (not what the crate itself would emit)"""
    w = inner
    for i in range(n):
        how = pattern[i % len(pattern)]
        if how[0] == 'p':
            if indef and w[:2] == b'\xa1\x07': w = b'\xbf' + w[1:] + b'\xff'
            sig = b'\x83' + refcbor.head(2, len(w)) + w + b'\xa0\x40'
        else:
            sig = b'\x83\x40' + w + b'\x40'
        if how[1] == 'l': sig = b'\x81' + sig
        w = b'\xa1\x07' + sig
    return w
NEST_PATTERNS = [['pb'], ['pl'], ['ub'], ['ul'], ['pb', 'ul'], ['pl', 'ub'], ['ul', 'pl', 'pb'], ['pb', 'pb', 'pl']]

def scale_shapes():
    """inputs whose size is governed by one parameter n, one per loop / collection of the decoders"""
    H = refcbor.head
    def i4(i): return b'\x1a' + (65536 + i).to_bytes(4, 'big')
    def t5(i): return b'\x65' + ('%05x' % i).encode()
    sig = b'\x83\x40\xa0\x40'; rcp = b'\x83\x40\xa0\xf6'
    return [
        ('header-int-labels', 'Header', lambda n: H(5, n) + b''.join(i4(i) + b'\x00' for i in range(n))),
        ('header-text-labels', 'Header', lambda n: H(5, n) + b''.join(t5(i) + b'\x00' for i in range(n))),
        ('protected-header-labels', 'CoseSign1', lambda n: b'\x84' + H(2, len(H(5, n)) + 6 * n) + H(5, n) + b''.join(i4(i) + b'\x00' for i in range(n)) + b'\xa0\xf6\x40'),
        ('header-crit', 'Header', lambda n: b'\xa1\x02' + H(4, n) + b''.join(t5(i) for i in range(n))),
        ('header-counter-signatures', 'Header', lambda n: b'\xa1\x07' + H(4, n) + sig * n),
        ('key-params', 'CoseKey', lambda n: H(5, n + 1) + b'\x01\x04' + b''.join(i4(i) + b'\x00' for i in range(n))),
        ('key-ops', 'CoseKey', lambda n: b'\xa2\x01\x04\x04' + H(4, n) + b''.join(t5(i) for i in range(n))),
        ('keyset', 'CoseKeySet', lambda n: H(4, n) + b'\xa1\x01\x04' * n),
        ('claims-names', 'ClaimsSet', lambda n: H(5, n) + b''.join(t5(i) + b'\x00' for i in range(n))),
        ('sign-signatures', 'CoseSign', lambda n: b'\x84\x40\xa0\xf6' + H(4, n) + sig * n),
        ('encrypt-recipients', 'CoseEncrypt', lambda n: b'\x84\x40\xa0\xf6' + H(4, n) + rcp * n),
        ('kdf-trailing', 'CoseKdfContext', lambda n: H(4, n + 4) + b'\x01\x83\xf6\xf6\xf6\x83\xf6\xf6\xf6\x82\x18\x80\x40' + b'\x40' * n),
        ('value-array', 'Value', lambda n: H(4, n) + b'\x00' * n),
        # two dimensions at once: one text label of 10n bytes and n short ones after it — a per-comparison cost that grows with the
        # label (cloning, serialising or normalising both sides) is only quadratic when both grow (informed round 10)
        ('header-long-and-many-text-labels', 'Header', lambda n: H(5, n + 1) + H(3, 10 * n) + b'x' * (10 * n) + b'\x00' + b''.join(t5(i) + b'\x00' for i in range(n))),
        ('key-long-and-many-text-labels', 'CoseKey', lambda n: H(5, n + 2) + b'\x01\x04' + H(3, 10 * n) + b'x' * (10 * n) + b'\x00' + b''.join(t5(i) + b'\x00' for i in range(n))),
        # … and one long *value* of a typed field before many entries (informed round 11: the content-type checks re-run for every later
        # entry once label 3 has been seen)
        ('header-long-content-type-and-many-labels', 'Header', lambda n: H(5, n + 1) + b'\x03' + H(3, 10 * n + 2) + b'a/' + b'b' * (10 * n) + b''.join(i4(i) + b'\x00' for i in range(n))),
        ('header-long-key-id-and-many-labels', 'Header', lambda n: H(5, n + 1) + b'\x04' + H(2, 10 * n) + b'k' * (10 * n) + b''.join(i4(i) + b'\x00' for i in range(n))),
        ('header-long-crit-and-many-labels', 'Header', lambda n: H(5, n + 1) + b'\x02' + H(4, n) + b''.join(t5(i) for i in range(n)) + b''.join(i4(i) + b'\x00' for i in range(n))),
        ('key-long-key-id-and-many-params', 'CoseKey', lambda n: H(5, n + 2) + b'\x01\x04\x02' + H(2, 10 * n) + b'k' * (10 * n) + b''.join(i4(i) + b'\x00' for i in range(n))),
        ('claims-long-issuer-and-many-names', 'ClaimsSet', lambda n: H(5, n + 1) + b'\x01' + H(3, 10 * n) + b'x' * (10 * n) + b''.join(t5(i) + b'\x00' for i in range(n))),
        # … and inside a list that is kept as a set: one long text operation with many short ones (informed round 14: the registry label
        # type's comparison cloning both texts)
        ('key-ops-long-and-many-texts', 'CoseKey', lambda n: b'\xa2\x01\x04\x04' + H(4, n + 1) + H(3, 10 * n) + b'z' * (10 * n) + b''.join(t5(i) for i in range(n))),
        ('crit-long-and-many-texts', 'Header', lambda n: b'\xa1\x02' + H(4, n + 1) + H(3, 10 * n) + b'z' * (10 * n) + b''.join(t5(i) for i in range(n))),
        ('claims-long-and-many-text-names', 'ClaimsSet', lambda n: H(5, n + 1) + H(3, 10 * n) + b'x' * (10 * n) + b'\x00' + b''.join(t5(i) + b'\x00' for i in range(n))),
    ]

def all_tags():
    """every tag number registered in the crate's CborTag table, the tags CBOR itself gives a meaning, and a few unassigned ones"""
    return sorted(set(tgen.reg_values('CborTag') + [0, 1, 2, 3, 4, 5, 21, 22, 23, 24, 32, 55799, 55800, 7, 99, 2**16, 2**32]))
def tag_wraps(body, depth2=True):
    """a valid encoding under every such tag, once and twice: never the structure itself (informed round 10: the CWT tag 61, defined in the
    registry but used nowhere, stripped by the claims-set decoder; any tag stripped inside a protected byte string)"""
    out = []
    for t in all_tags():
        out.append(refcbor.head(6, t) + body)
        if depth2 and t in (24, 61, 55799, 18): out.append(refcbor.head(6, t) + refcbor.head(6, t) + body)
    return out

# ===================================================================== C01
@register
class C01(Prop):
    pid = 'C01'
    model_is_spec = False
    def gen(self, seed, tier):
        r = random.Random(seed); g = T(seed, bignum=True, valid=0.8)
        n = budget(tier, 6000, 120000)
        ops = dec_ops(g, r, n, op_choices=('dec', 'chain', 'chain'), mut=0.35)
        for t, tag in TAGGED.items():
            for _ in range(n // 60):
                b = g.venc(g.wire(t))
                if r.random() < 0.3: b = mutate(r, b)
                ops.append(mk('chaint %s b%s' % (t, (g.vhead(6, tag) + b).hex()), k=t + ':tagged'))
        # garbage and exhaustive short inputs for every entry point
        for t in BYTE_TYPES:
            for b0 in range(0, 256, 1 if tier == 'thorough' else 5):
                ops.append(mk('dec %s b%02x' % (t, b0), k='short'))
            for _ in range(budget(tier, 30, 400)):
                ops.append(mk('dec %s b%s' % (t, bytes(r.randrange(256) for _ in range(r.randint(2, 12))).hex()), k='garbage'))
        # deep Value nesting around ciborium's budget, huge declared lengths, many chunks
        for d in (126, 127, 128, 254, 255, 256, 257, 300):
            for wrap in (b'\x81', b'\xa1\x00', b'\xc6', b'\x9f'):
                body = wrap * d + b'\x00' + (b'\xff' * d if wrap == b'\x9f' else b'')
                ops.append(mk('dec Value b' + body.hex(), k='deep'))
                ops.append(mk('dec Header b' + (b'\xa1\x18\x63' + body).hex(), k='deep'))
                ops.append(mk('dec CoseSign1 b' + (b'\x84\x40\xa1\x18\x63' + body + b'\xf6\x40').hex(), k='deep'))
        for t in ('Value', 'Header', 'CoseKey', 'CoseSign1'):
            for hd in (b'\x5b', b'\x7b', b'\x9b', b'\xbb'):
                ops.append(mk('dec %s b%s' % (t, (hd + b'\xff' * 8 + b'\x00').hex()), k='hugelen'))
            ops.append(mk('dec %s b%s' % (t, (b'\x5f' + b'\x41\x00' * 3000 + b'\xff').hex()), k='chunks'))
        for t in ('Header', 'ProtectedHeader', 'CoseSignature'):
            for k in (1, 2, 3, 8, 15, 16, 17, 18, 20, 60):
                w = nestW(k)
                if t == 'CoseSignature': w = b'\x83' + refcbor.head(2, len(w)) + w + b'\xa0\x40'
                ops.append(mk('chain %s b%s' % (t, w.hex()), k='nestW'))
        ops.append(mk('bstr b' + nestW(5).hex(), k='nestW'))
        for pat in NEST_PATTERNS:
            for k in (1, 2, 15, 16, 17, 18, 19, 33, 34):
                ops.append(mk('chain Header b' + nestG(k, pat).hex(), k='nestG'))
                ops.append(mk('chaint CoseSign1 b' + (b'\xd2\x84\x40' + nestG(k, pat) + b'\xf6\x40').hex(), k='nestG'))
        # follow-up helpers on decoded values (typed forms as the decoder would print them: orig present)
        for _ in range(budget(tier, 600, 6000)):
            aad = g.b(); pl = g.b()
            c = r.random()
            if c < 0.2: ops.append(mk('verify sign1 %s %s vok' % (g.sign1(), aad), k='followup'))
            elif c < 0.3:
                m = g.sign1().split(' ')
                ops.append(mk('tbs sign1 %s %s' % (g.sign1(), aad), k='followup'))
            elif c < 0.5:
                n_s = r.choice([1, 2, 3]); ops.append(mk('verify sign %s %d %s verr3' % (g.sign(nsig=n_s), r.randrange(n_s), aad), k='followup'))
            elif c < 0.6: ops.append(mk('verify mac0 %s %s vok' % (g.mac0().replace(' - b', ' b00 b', 1) if False else g.mac0(), aad), k='followup'))
            elif c < 0.7: ops.append(mk('verify mac %s %s vok' % (g.mac(), aad), k='followup'))
            elif c < 0.8: ops.append(mk('decrypt enc0 %s %s cat' % (g.enc0(), aad), k='followup'))
            elif c < 0.9: ops.append(mk('decrypt enc %s %s (k b01)' % (g.enc(), aad), k='followup'))
            else: ops.append(mk('decrypt rcp %s %s %s cat' % (g.rcp(), r.choice(['EncRecipient', 'MacRecipient', 'RecRecipient']), aad), k='followup'))
        return ops
    def child_ops(self, tier):
        """inputs that may kill the process: each is decoded in its own harness process on a default-size main-thread stack"""
        out = []
        for n in ((10, 100, 400, 1000, 3000) if tier == 'quick' else (10, 100, 200, 400, 800, 1000, 1500, 3000, 10000)):
            w = nestW(n)
            out.append(mk('dec Header b' + w.hex(), k='nestW-child', n=n, size=len(w)))
        for d in (1000, 100000):
            out.append(mk('dec Value b' + (b'\x81' * d + b'\x00').hex(), k='deep-child', n=d))
            out.append(mk('dec Header b' + (b'\xa1\x18\x63' + b'\xc6' * d + b'\x00').hex(), k='deep-child', n=d))
        out.append(mk('dec Value b' + (b'\x5f' + b'\x41\x00' * 200000 + b'\xff').hex(), k='chunks-child', n=200000))
        out.append(mk('dec CoseSign1 b' + (b'\x84\x40\xa0\x5a\x00\x10\x00\x00' + b'\x00' * (1 << 20) + b'\x40').hex(), k='big-child', n=1 << 20))
        # sixteen levels of counter signatures through protected headers around a large innermost header: the work per level is
        # the work below it, once (informed round 9: a second, discarded decode per level doubles it sixteen times)
        inner = b'\xa1\x18\x63' + refcbor.head(4, 20000) + b'\x00' * 20000
        w = inner
        for _ in range(16): w = b'\xa1\x07\x83' + refcbor.head(2, len(w)) + w + b'\xa0\x40'
        out.append(mk('dec Header b' + w.hex(), k='nest-work', n=16, timeout=60))
        out.append(mk('dec CoseSign1 b' + (b'\x84' + refcbor.head(2, len(w)) + w + b'\xa0\xf6\x40').hex(), k='nest-work', n=16, timeout=60))
        # … the same through the unprotected bucket, the list form and mixtures, around a header of many labels (informed round 13: the
        # unprotected bucket of a signature converted twice — 2^16 conversions of the innermost header, no protected byte string involved)
        inner2 = refcbor.head(5, 3000) + b''.join(b'\x1a' + (70000 + i).to_bytes(4, 'big') + b'\x00' for i in range(3000))
        for pat in (['ub'], ['ul'], ['pl'], ['ub', 'pb'], ['ul', 'pl', 'ub']):
            w2 = nestG(16, pat, inner=inner2)
            out.append(mk('dec Header b' + w2.hex(), k='nest-work', n=16, timeout=60, gen='16 levels (%s) around a header of 3000 labels' % '/'.join(pat)))
            out.append(mk('dec CoseSign1 b' + (b'\x84\x40' + w2 + b'\xf6\x40').hex(), k='nest-work', n=16, timeout=60, gen='16 levels (%s) around a header of 3000 labels' % '/'.join(pat)))
            out.append(mk('dec CoseSign b' + (b'\x84\x40\xa0\xf6\x81\x83\x40' + nestG(15, pat, inner=inner2) + b'\x40').hex(), k='nest-work', n=15, timeout=60))
        n0 = 25000 if tier == 'quick' else 100000
        for shape, t, f in scale_shapes():
            for n in (n0, 4 * n0):
                out.append(mk('time %s b%s' % (t, f(n).hex()), k='scale', shape=shape, n=n, timeout=60 if tier == 'quick' else 180))
        return out
    @staticmethod
    def superlinear(t1, t2, i):
        """4x the input: more than 10x the time — or, for the typed decode, a ratio to the bare CBOR parse of the same bytes (measured in
        the same process, so equally slowed by a loaded machine) that grows by more than 2.5x; either only counts above 3 s"""
        if t2[i] <= 3000000: return False
        if t2[i] > 10 * max(t1[i], 20000): return True
        return i == 0 and t1[0] > 20000 and t2[0] * max(t1[1], 1) > 2.5 * t1[0] * max(t2[1], 1)
    def confirm_slow(self, o1, o2, i):
        """a timing suspicion is re-measured twice (a loaded machine can stall one run); it stands only if every measurement shows it"""
        import run as R_
        for _ in range(2):
            ts = []
            for o in (o1, o2):
                out, rc, _dt = R_.run_side(R_.HBIN, [o['op']], timeout=o['meta'].get('timeout', 120))
                a = out[0] if (out and rc == 0 and len(out) == 1) else None
                if a is None: ts.append(None); continue
                if not a.startswith('ok '): return True
                ts.append([int(x) for x in a.split(' ')[1:5]])
            if ts[0] is not None and ts[1] is not None and not self.superlinear(ts[0], ts[1], i): return False
        return True
    def post(self, ops, impl):
        """time proportional to the input: each scaling shape is decoded at size n and 4n (own process each); the typed decode, the
        re-encode and clone+compare+drop must not grow much faster than the input (quadratic growth gives 16x for 4x the input)."""
        by = {}
        for o, a in zip(ops, impl):
            m = o['meta']
            if m.get('k') != 'scale': continue
            by.setdefault(m['shape'], {})[m['n']] = (o, a)
        out = []
        for shape, d in sorted(by.items()):
            ns = sorted(d)
            if len(ns) != 2: continue
            (o1, a1), (o2, a2) = d[ns[0]], d[ns[1]]
            for o, a in ((o1, a1), (o2, a2)):
                if a in ('timeout', 'abort') or a.startswith('panic'):
                    out.append(dict(op=o['op'][:200] + ('…' if len(o['op']) > 200 else ''), meta=dict(o['meta'], gen='vlib/props_streams.py scale_shapes'), impl=a, model=None,
                                    why='decoding a %d-element %s did not finish normally (%s): time not proportional to the input' % (o['meta']['n'], shape, a)))
            if not (a1.startswith('ok ') and a2.startswith('ok ')): continue
            t1 = [int(x) for x in a1.split(' ')[1:5]]; t2 = [int(x) for x in a2.split(' ')[1:5]]
            for name, i in (('decode', 0), ('re-encode', 2), ('clone/compare/drop', 3)):
                if self.superlinear(t1, t2, i) and self.confirm_slow(o1, o2, i):
                    out.append(dict(op=o2['op'][:200] + '…', meta=dict(o2['meta'], gen='vlib/props_streams.py scale_shapes'), impl=a2, model=None,
                                    why='%s of %s: %d µs at n=%d but %d µs at n=%d (bare CBOR parse of the same bytes: %d and %d µs): not proportional to the input' % (name, shape, t1[i], ns[0], t2[i], ns[1], t1[1], t2[1])))
        return out
    def impl_pred(self, o, impl):
        k = o['meta'].get('k')
        if k == 'scale':
            if impl.startswith('err') or impl.endswith('enc-fail') or impl == 'bad-op': return 'scaling shape %s was not accepted / re-encoded (generator out of date?)' % o['meta'].get('shape')
            return None
        if k == 'followup':
            return None      # documented panics allowed there; compared with the model (which panics exactly when documented)
        if impl.startswith('panic') or ' panic' in impl: return 'panic while decoding / re-encoding untrusted bytes'
        return None

# ===================================================================== C02
NONCANON_PH = ['a2044101' + '0126', 'a10126', 'a1011826', 'bf0126ff', 'a0', 'a1183a00', 'a20126044231' + '31', 'a201260458' + '02' + '3131', 'a1045f41314131ff', 'a2646161616101' + '0126']
@register
class C02(Prop):
    pid = 'C02'
    model_is_spec = False
    def gen(self, seed, tier):
        r = random.Random(seed); g = T(seed, valid=1.0)
        ops = []
        n = budget(tier, 1500, 30000)
        def prot_bytes():
            x = r.random()
            if x < 0.1: return b''
            if x < 0.35: return bytes.fromhex(r.choice(NONCANON_PH))
            h = g.header(2)
            return g.venc(h)
        def pb(b): return refcbor.head(2, len(b)) + b if r.random() < 0.8 else (b'\x5f' + refcbor.head(2, len(b) // 2) + b[:len(b) // 2] + refcbor.head(2, len(b) - len(b) // 2) + b[len(b) // 2:] + b'\xff')
        hdr_empty = b'\xa0'
        def sig(d=0):
            p = prot_bytes()
            u = hdr_empty if d > 1 or r.random() < 0.6 else (b'\xa1\x07' + sig(d + 1)[0])
            return b'\x83' + pb(p) + u + b'\x41\x01', p
        def sigb(d=0): return sig(d)[0]
        for _ in range(n):
            p = prot_bytes(); aad = g.b(); c = r.random()
            planted = p.hex()
            if c < 0.2:
                w = b'\x84' + pb(p) + b'\xa0' + b'\x43abc' + b'\x41\x05'
                ops.append(mk('chain CoseSign1 b' + w.hex(), planted=planted, k='sign1'))
                ops.append(mk('verify sign1 %s %s vok' % (self.dec_form('sign1', p), aad), planted=planted, k='verify'))
            elif c < 0.4:
                s, sp = sig(0)
                w = b'\x84' + pb(p) + b'\xa0' + b'\x43abc' + b'\x81' + s
                ops.append(mk('chain CoseSign b' + w.hex(), planted=planted, planted2=sp.hex(), k='sign'))
            elif c < 0.5:
                w = b'\x84' + pb(p) + b'\xa1\x07' + sigb(0) + b'\x43abc' + b'\x41\x05'
                ops.append(mk('chain CoseSign1 b' + w.hex(), planted=planted, k='csig'))
            elif c < 0.6:
                w = b'\x83' + pb(p) + b'\xa0' + b'\x41\x09'
                ops.append(mk('chain CoseEncrypt0 b' + w.hex(), planted=planted, k='enc0'))
                ops.append(mk('decrypt enc0 %s %s cat' % (self.dec_form('enc0', p), aad), planted=planted, k='decrypt'))
            elif c < 0.7:
                rc = b'\x83' + pb(prot_bytes()) + b'\xa0\xf6'
                w = b'\x85' + pb(p) + b'\xa0' + b'\x41\x01\x41\x02' + b'\x81' + rc
                ops.append(mk('chain CoseMac b' + w.hex(), planted=planted, k='mac'))
                ops.append(mk('verify mac0 %s %s vok' % (self.dec_form('mac0', p), aad), planted=planted, k='verify'))
            elif c < 0.8:
                p2 = prot_bytes()
                rc2 = b'\x83' + pb(p2) + b'\xa0\xf6'
                rc = b'\x84' + pb(prot_bytes()) + b'\xa0\xf6\x81' + rc2
                w = b'\x84' + pb(p) + b'\xa0\xf6\x81' + rc
                ops.append(mk('chain CoseEncrypt b' + w.hex(), planted=planted, planted2=p2.hex(), k='enc-rcp'))
            elif c < 0.9:
                w = b'\x82\x18\x80' + pb(p)
                ops.append(mk('chain SuppPubInfo b' + w.hex(), planted=planted, k='supp'))
                # every helper that builds a structure from a message holding stored bytes — detached variants, signers, MAC with
                # recipients, recipients in every recipient context (seeded C02-r3: tbs_detached_data rebuilt the message and lost them)
                p2 = prot_bytes(); E = self.EMPTY; pl = g.b()
                sg = '(sign %s %s %%s (sigs (sig %s %s b01) (sig %s %s b02)))' % (self.ph_form(p), E, self.ph_form(p2), E, self.ph_form(prot_bytes()), E)
                ops.append(mk('verifyd sign1 (sign1 %s %s - b05) %s %s verr7' % (self.ph_form(p), E, pl, aad), planted=planted, k='verify'))
                ops.append(mk('tbsd sign1 (sign1 %s %s - b05) %s %s' % (self.ph_form(p), E, pl, aad), planted=planted, k='struct'))
                ops.append(mk('verifyd sign %s 0 %s %s vok' % (sg % '-', pl, aad), planted=planted, planted2=p2.hex(), k='verify'))
                ops.append(mk('verify sign %s 0 %s vok' % (sg % pl, aad), planted=planted, planted2=p2.hex(), k='verify'))
                # a received COSE_Sign and a signer built here (no stored bytes of its own): the body's stored bytes all the same (informed
                # round 14: they were kept only when the signer had stored bytes too)
                for sgb in ('(sig (ph - %s) %s b)' % (E, E), '(sig (ph - (hdr A-7 (crit) - b b b (cs) (rest))) %s b01)' % E):
                    ops.append(mk('tbs sign (sign %s %s %s (sigs)) %s %s' % (self.ph_form(p), E, pl, aad, sgb), planted=planted, k='struct'))
                    ops.append(mk('tbs sign (sign %s %s %s (sigs (sig %s %s b02))) %s %s' % (self.ph_form(p), E, pl, self.ph_form(p2), E, aad, sgb), planted=planted, k='struct'))
                ops.append(mk('verify mac (mac %s %s %s b0a (rcps (rcp %s %s - (rcps)))) %s vok' % (self.ph_form(p), E, pl, self.ph_form(p2), E, aad), planted=planted, k='verify'))
                ops.append(mk('decrypt enc (enc %s %s b0102 (rcps (rcp %s %s b03 (rcps)))) %s cat' % (self.ph_form(p), E, self.ph_form(p2), E, aad), planted=planted, k='decrypt'))
                ops.append(mk('decrypt rcp (rcp %s %s b0102 (rcps (rcp %s %s b03 (rcps)))) %s %s cat' % (self.ph_form(p), E, self.ph_form(p2), E, r.choice(['EncRecipient', 'MacRecipient', 'RecRecipient']), aad), planted=planted, k='decrypt'))
                # a signature that holds stored bytes handed to the creating adders of COSE_Sign: the signer sees them, the built
                # value keeps them (informed round 9: the four adders cleared original_data first)
                sgf = '(sig %s %s b)' % (self.ph_form(p2), E)
                for adder in ('add_created_signature %s %s echo' % (sgf, aad), 'add_detached_signature %s %s %s echo' % (sgf, pl, aad), 'try_add_created_signature %s %s (k b01)' % (sgf, aad), 'try_add_detached_signature %s %s %s (k b01)' % (sgf, pl, aad)):
                    ops.append(mk('build CoseSignBuilder (protected %s) (payload %s) (%s)' % (E, pl, adder), planted=p2.hex(), k='build-keep'))
                # … and to every plain adder, at every builder that has one, alone and beside a second element (informed round 11: the
                # adder for nested recipients cleared original_data)
                rcf = '(rcp %s %s b03 (rcps))' % (self.ph_form(p2), E); rcn = '(rcp %s %s b04 (rcps %s))' % (self.ph_form(prot_bytes()), E, rcf)
                for bld, add in (('CoseRecipientBuilder', '(add_recipient %s)' % rcf), ('CoseEncryptBuilder', '(add_recipient %s)' % rcf), ('CoseMacBuilder', '(add_recipient %s)' % rcf), ('CoseRecipientBuilder', '(add_recipient %s)' % rcn),
                                 ('CoseEncryptBuilder', '(add_recipient %s)' % rcn), ('CoseSignBuilder', '(add_signature %s)' % sgf), ('HeaderBuilder', '(add_counter_signature %s)' % sgf),
                                 ('CoseRecipientBuilder', '(add_recipient (rcp (ph - %s) %s b (rcps))) (add_recipient %s)' % (E, E, rcf)), ('CoseSignBuilder', '(add_signature (sig (ph - %s) %s b)) (add_signature %s)' % (E, E, sgf))):
                    ops.append(mk('build %s %s' % (bld, add), planted=p2.hex(), k='build-keep', plain=True))
                # … and to every setter that takes a whole structure (informed round 12: the KDF context's supp_pub_info rebuilt its argument)
                ops.append(mk('build CoseKdfContextBuilder (supp_pub_info (supp i128 %s -))' % self.ph_form(p2), planted=p2.hex(), k='build-keep', plain=True))
                ops.append(mk('build CoseKdfContextBuilder (algorithm A1) (supp_pub_info (supp i128 %s b01)) (add_supp_priv_info b02)' % self.ph_form(p2), planted=p2.hex(), k='build-keep', plain=True))
            elif c < 0.93:
                # stored bytes at every nesting level down to the deepest permitted one (16): each protected byte string on the way holds
                # a map the crate would not emit itself, the innermost signature holds `p`; everything outside protected byte strings is
                # deterministic, so re-encoding must give back the input (informed round 10: original_data dropped where depth == 0)
                k = r.choice([1, 2, 3, 8, 14, 15, 15, 16, 16]); pat = r.choice([['pb'], ['ub'], ['pb', 'ub'], ['ub', 'pb', 'pb'], ['ub', 'ub', 'pb']])   # one signature is emitted bare
                p = bytes.fromhex(r.choice([x for x in NONCANON_PH if x != 'a1011826'])) if r.random() < 0.9 else b''; planted = p.hex()      # (alg 38 is not registered: not a header)
                innermost = b'\xa1\x07\x83' + refcbor.head(2, len(p)) + p + b'\xa0\x41\x07'
                h = nestG(k - 1, pat, inner=innermost, indef=True)
                if r.random() < 0.5: ops.append(mk('chain Header b' + h.hex(), planted=planted, k='deep-keep', n=k, wire=h.hex()))
                else:
                    w = b'\x84\x40' + h + b'\xf6\x40'
                    ops.append(mk('chain CoseSign1 b' + w.hex(), planted=planted, k='deep-keep', n=k, wire=w.hex()))
            else:
                ops.append(mk('bstr b' + p.hex(), planted=planted, k='bstr'))
                ops.append(mk('sigstruct CoseSign1 %s - %s %s' % (self.ph_form(p), aad, g.b()), planted=planted, k='struct'))
                ops.append(mk('encstruct CoseEncrypt0 %s %s' % (self.ph_form(p), aad), planted=planted, k='struct'))
                ops.append(mk('macstruct CoseMac %s %s %s' % (self.ph_form(p), aad, g.b()), planted=planted, k='struct'))
        return ops
    def child_ops(self, tier):
        """protected headers of 2^16 .. 2^21 bytes (a long key id): retained whole, re-encoded bit for bit, at the body and at a signer
        (implementation only; the oracle is the input).  A buffer cap or a truncation only shows at such sizes."""
        out = []
        for n in (65535, 65536, 65537, (1 << 20) - 16, (1 << 20) + 4097, 1100011) + (((1 << 21) + 5, 3000001) if tier == 'thorough' else ()):
            kid = bytes((i * 7 + 3) % 251 for i in range(n))
            p = b'\xa1\x04' + refcbor.head(2, n) + kid
            pb = refcbor.head(2, len(p)) + p
            w1 = b'\x84' + pb + b'\xa0\x43abc\x41\x05'
            w2 = b'\x84\x40\xa0\x43abc\x81\x83' + pb + b'\xa0\x41\x01'
            out.append(mk('chain CoseSign1 b' + w1.hex(), k='big-prot', plen=len(p), head=p[:12].hex(), tail=p[-12:].hex(), wire_len=len(w1), timeout=120, gen='COSE_Sign1 with a protected header of %d bytes' % len(p)))
            out.append(mk('chain CoseSign b' + w2.hex(), k='big-prot', plen=len(p), head=p[:12].hex(), tail=p[-12:].hex(), wire_len=len(w2), timeout=120, gen='COSE_Sign signer with a protected header of %d bytes' % len(p)))
        return out
    EMPTY = '(hdr - (crit) - b b b (cs) (rest))'
    def ph_form(self, p): return '(ph b%s %s)' % (p.hex(), self.EMPTY)   # stored bytes; parsed view irrelevant for reuse
    def dec_form(self, kind, p):
        ph = self.ph_form(p)
        if kind == 'sign1': return '(sign1 %s %s b616263 b05)' % (ph, self.EMPTY)
        if kind == 'enc0': return '(enc0 %s %s b09)' % (ph, self.EMPTY)
        if kind == 'mac0': return '(mac0 %s %s b01 b02)' % (ph, self.EMPTY)
    def impl_pred(self, o, impl):
        m = o['meta']
        if m.get('k') == 'big-prot':
            if not impl.startswith('ok '): return 'a message with a %d-byte protected header was not accepted (%s)' % (m['plen'], impl[:40])
            mm = re.search(r'\(ph b(%s[0-9a-f]*?%s) \(hdr' % (m['head'], m['tail']), impl)
            if not mm or len(mm.group(1)) != 2 * m['plen']: return 'retained protected bytes are not the %d wire bytes (%s retained)' % (m['plen'], len(mm.group(1)) // 2 if mm else 'none')
            enc = impl.rsplit(' ok b', 1)
            if len(enc) != 2 or enc[1].strip() != o['op'].split(' b', 1)[1]: return 're-encoding a message with a %d-byte protected header does not give back the input' % m['plen']
            return None
        pl = o['meta'].get('planted')
        if m.get('k') == 'deep-keep':
            if not impl.startswith('ok '): return '%d levels of counter signatures (within the budget) were not accepted: %s' % (m['n'], impl[:40])
            if '(ph b%s ' % pl not in impl: return 'original_data of the innermost signature (level %d) is not the wire content' % m['n']
            if not impl.endswith(' ok b' + m['wire']): return 're-encoding %d nested levels does not give back the received protected bytes' % m['n']
            return None
        if pl is None or not impl.startswith(('ok', '(called')): return None
        k = o['meta'].get('k')
        if k in ('sign1', 'sign', 'csig', 'enc0', 'mac', 'enc-rcp', 'supp', 'bstr'):
            items = parse(impl)
            if 'b' + pl not in render(items[1]).replace('(ph b' + pl, '(ph b' + pl): return 'stored protected bytes differ from the wire bytes'
            if '(ph b%s ' % pl not in impl: return 'original_data is not the wire content'
            p2 = o['meta'].get('planted2')
            if p2 is not None and '(ph b%s ' % p2 not in impl: return 'nested original_data is not the wire content'
            if k != 'bstr' and len(items) >= 4 and items[2] == 'ok':
                enc = bytes.fromhex(items[3][1:])
                want = refcbor.head(2, len(bytes.fromhex(pl))) + bytes.fromhex(pl)
                if want not in enc: return 're-encoding does not contain the received protected bytes'
        if k == 'build-keep':
            if impl.startswith('ok') and '(ph b%s ' % pl not in impl: return 'a creating adder did not keep the stored protected bytes of the signature it was given'
            want = (refcbor.head(2, len(bytes.fromhex(pl))) + bytes.fromhex(pl)).hex()
            if impl.startswith('ok') and '(calls' in impl and not o['meta'].get('plain') and want not in impl.split('(calls', 1)[1]: return 'the signer was not handed the stored protected bytes'
            return None
        if k in ('struct', 'verify', 'decrypt'):
            want = (refcbor.head(2, len(bytes.fromhex(pl))) + bytes.fromhex(pl)).hex()
            if want not in impl: return 'structure does not carry the stored protected bytes'
            p2 = o['meta'].get('planted2')
            if p2 is not None and (refcbor.head(2, len(bytes.fromhex(p2))) + bytes.fromhex(p2)).hex() not in impl: return 'structure does not carry the signer\'s stored protected bytes'
        return None

# ===================================================================== C03 / C04 / C05
SIGCTX = {'CoseSignature': b'Signature', 'CoseSign1': b'Signature1', 'CounterSignature': b'CounterSignature'}
MACCTX = {'CoseMac': b'MAC', 'CoseMac0': b'MAC0'}
ENCCTX = {'CoseEncrypt': b'Encrypt', 'CoseEncrypt0': b'Encrypt0', 'EncRecipient': b'Enc_Recipient', 'MacRecipient': b'Mac_Recipient', 'RecRecipient': b'Rec_Recipient'}
LENS = [0, 1, 23, 24, 255, 256, 65535, 65536, 70000]
def spec_struct(ctx, slots):
    out = refcbor.head(4, 1 + len(slots)) + refcbor.head(3, len(ctx)) + ctx
    for s in slots: out += refcbor.head(2, len(s)) + s
    return out
# external data and payloads that are themselves the encoding of a header, a claims set, a key, a key set, a message or a to-be-signed
# structure, in a layout the crate would not emit (labels out of order, indefinite lengths, non-shortest heads, wide floats): opaque
# bytes all the same (informed round 11: an AAD that parses as a header / a payload that parses as a claims set re-serialised)
STRUCT_BYTES = [bytes.fromhex(x) for x in NONCANON_PH + ['a2074101016161', 'bf016161ff', 'a104fa3fc00000', 'a10118' + '07', 'a203260102', '81a203260102', 'a201040482' + '0201', '8343a10126a04100', 'd28443a10126a0f640',
                                                         '846a5369676e61747572653143a101264043616263', '83f6f6f6', '8218' + '8040', '840183f6f6f683f6f6f682188040', 'a10101', 'a0', '80', '8440a0f640']]
def lenbytes(r, big_p=0.05):
    if r.random() < 0.12: return r.choice(STRUCT_BYTES)
    n = r.choice(LENS) if r.random() < big_p else r.choice([0, 1, 2, 5, 23, 24])
    return bytes(r.randrange(256) for _ in range(n)) if n < 300 else bytes([r.randrange(256)]) * n

class StructProp(Prop):
    """shared by C03-C05: protected header either stored bytes (oracle = those bytes) or built (oracle = model)"""
    _SIG = '(sig (ph - (hdr - (crit) - b b b (cs) (rest))) (hdr - (crit) - b b b (cs) (rest)) b%02x)'
    UNSER = ['(ph - (hdr A-7 (crit) - b b b (cs) (rest i1 i5)))', '(ph - (hdr - (crit) - b3131 b b (cs) (rest t78 i1 t78 i2)))', '(ph - (hdr - (crit) - b b b (cs) (rest i9 i1 i10 N i9 i2)))',
             # every typed field in every form it is emitted in, beside an extra entry under that field's own label, first or after
             # another extra (informed round 10: label 7 recorded as emitted only in the single-signature arm)
             '(ph - (hdr X61 (crit) - b b b (cs) (rest i1 N)))', '(ph - (hdr P-70000 (crit) - b b b (cs) (rest i99 N i1 i1)))', '(ph - (hdr - (crit A1) - b b b (cs) (rest i2 i1)))', '(ph - (hdr - (crit A1 X61) - b b b (cs) (rest i99 N i2 (arr))))',
             '(ph - (hdr - (crit) X612f62 b b b (cs) (rest i3 i1)))', '(ph - (hdr - (crit) A0 b b b (cs) (rest i3 t612f62)))', '(ph - (hdr - (crit) - b3131 b b (cs) (rest i99 N i4 b3131)))', '(ph - (hdr - (crit) - b b01 b (cs) (rest i5 b01)))',
             '(ph - (hdr - (crit) - b b b02 (cs) (rest i6 N)))', '(ph - (hdr - (crit) - b b b (cs %s) (rest i7 i1)))' % (_SIG % 1), '(ph - (hdr - (crit) - b b b (cs %s %s) (rest i7 i1)))' % (_SIG % 1, _SIG % 2),
             '(ph - (hdr - (crit) - b b b (cs %s %s %s) (rest i99 N i7 (arr))))' % (_SIG % 1, _SIG % 2, _SIG % 3), '(ph - (hdr A-7 (crit) - b b b (cs %s %s) (rest i7 N)))' % (_SIG % 1, _SIG % 2)]
    def phs(self, g, r):
        x = r.random()
        if x < 0.03: return r.choice(self.UNSER), None      # repeats a label: serialising it fails, the structure functions refuse (panic)
        if 0.72 <= x < 0.75:
            # stored bytes beside a parsed view that could not be serialised (edited after decoding): the stored bytes are what counts, the
            # view is never encoded (informed round 14: `unwrap_or(encode()?)` evaluated eagerly)
            p = bytes.fromhex(r.choice(NONCANON_PH)); 
            return '(ph b%s %s)' % (p.hex(), r.choice(['(hdr - (crit) - b b b (cs) (rest i9 i1 i9 i2))', '(hdr A-7 (crit) - b b b (cs) (rest i1 i5))', '(hdr - (crit) - b3131 b b (cs) (rest t78 i1 t78 i2))'])), p
        if 0.75 <= x < 0.78:
            # values the serializer writes but the parser refuses or folds (16-byte negative bignum, 9-byte bignum): still just values
            return '(ph - (hdr - (crit) - b b b (cs) (rest i1000 %s)))' % r.choice(['(tag 3 bffffffffffffffffffffffffffffffff)', '(tag 2 bffffffffffffffffff)', '(tag 3 b010000000000000000)', '(arr (tag 3 bffffffffffffffffffffffffffffffff))']), None
        if 0.66 <= x < 0.72:
            # an extra entry under the label of a typed field that is *unset*: an ordinary entry, emitted as given (informed round 13: label 4
            # recorded as emitted although the key id was empty); a private-use algorithm holding any integer, an assigned one too (only a
            # struct literal builds it; it is emitted as that integer); two byte fields alike and nothing else in the header
            return '(ph - %s)' % r.choice(['(hdr - (crit) - b b b (cs) (rest i4 t6b65792d31))', '(hdr A-7 (crit) - b b b (cs) (rest i4 b01))', '(hdr - (crit) - b b b (cs) (rest i1 i-7))', '(hdr - (crit) - b3131 b b (cs) (rest i2 (arr i1)))',
                                           '(hdr - (crit) - b b b (cs) (rest i3 i0))', '(hdr - (crit) - b b b (cs) (rest i5 b01))', '(hdr - (crit) - b b b (cs) (rest i6 b02 i5 b01))', '(hdr - (crit) - b b b (cs) (rest i7 (arr b (map) b01)))',
                                           '(hdr P5 (crit) - b b b (cs) (rest))', '(hdr P-7 (crit) - b b b (cs) (rest))', '(hdr P0 (crit) - b3131 b b (cs) (rest))', '(hdr P-65536 (crit) - b b b (cs) (rest))', '(hdr P-65537 (crit) - b b b (cs) (rest))',
                                           '(hdr - (crit) - b0a0b b0a0b b (cs) (rest))', '(hdr - (crit) - b0a0b b b0a0b (cs) (rest))', '(hdr - (crit) - b01 b01 b (cs) (rest))', '(hdr - (crit) - b b07 b (cs) (rest i9 b07))']), None
        if 0.60 <= x < 0.66:
            # a built header may hold any text as its content type (only the decoder is particular): padded, without or with several
            # separators, look-alike separators — emitted as given (informed round 10: trimmed when encoded)
            return '(ph - (hdr %s (crit) X%s %s b b (cs) (rest)))' % (r.choice(['-', 'A-7']), r.choice(TEXTS + [b' a/b ', b'a/b\n', '\u00a0a/b'.encode()]).hex(), r.choice(['b', 'b3131'])), None
        if 0.09 <= x < 0.12:
            # stored bytes that are present but empty, beside a parsed header that is not: the slot is the (empty) stored bytes
            return '(ph b (hdr %s (crit) - b3131 b b (cs) (rest)))' % r.choice(['A1', 'A-7', '-']), b''
        if 0.12 <= x < 0.15:
            # built header whose extras hold what the serializer and the parser do not treat alike (short bignum tags, nested)
            return '(ph - (hdr %s (crit) - b b b (cs) (rest i1000 %s)))' % (r.choice(['A-7', '-']), r.choice(['(tag 2 b0100)', '(tag 3 b00)', '(arr (tag 2 b01))', '(tag 2 b)', '(map i1 (tag 3 b0100))'])), None
        if x < 0.09 and x >= 0.06:
            # a header value holding both an IV and a Partial IV (only the public fields can build it; it encodes, entry by entry)
            return '(ph - (hdr %s (crit) - b b%s b%s (cs) (rest)))' % (r.choice(['-', 'A1', 'A-7']), r.choice(['01', '0102']), r.choice(['0a0b', '0c0d', '0e'])), None
        if x < 0.06:
            # many sibling counter signatures in a built header (informed-adversary round: `.take(16)` when emitting them)
            n = r.choice([2, 15, 16, 17, 18, 24, 25, 40])
            E = C02.EMPTY
            return '(ph - (hdr - (crit) - b b b (cs%s) (rest)))' % ''.join(' (sig (ph - %s) %s b%02x)' % (E, E, i) for i in range(n)), None
        if x < 0.45:
            p = bytes.fromhex(r.choice(NONCANON_PH)) if r.random() < 0.5 else g.venc(g.header(2))
            if r.random() < 0.15: p = b''
            return '(ph b%s %s)' % (p.hex(), C02.EMPTY), p
        if x < 0.6: return '(ph - %s)' % C02.EMPTY, b''
        return '(ph - %s)' % g.hdr(0, wild=False, empty_p=0.0), None
    # --- wire sub-stream (seeded C03-r4 / C04-r4 / C05-r4): the value is *decoded from bytes* by the implementation, then the helper
    # runs on what was decoded; the oracle is the structure over the protected bytes that were on the wire, at every carrier.
    def wire_ph(self, g, r):
        p = bytes.fromhex(r.choice(NONCANON_PH)) if r.random() < 0.6 else g.venc(g.header(1))
        return b'' if r.random() < 0.1 else p
    def wire_enc(self, g, r, v):
        return refcbor.encode(v) if r.random() < 0.6 else g.venc(v)
    def check_bytes(self, o, impl):
        want = o['meta'].get('want')
        if want is None: return None
        if impl.startswith('ok b'): got = impl[4:]
        else:
            m = re.search(r'\(called (?:b[0-9a-f]* )?b([0-9a-f]*)\)', impl)
            if not m: return None if impl == 'panic' and o['meta'].get('may_panic') else 'no structure bytes produced'
            got = m.group(1)
        if got != want: return 'structure bytes differ from the RFC 8152 structure'
        return None
    HUGE_KIND = None
    def child_ops(self, tier):
        """external data and payloads beyond 2^24 bytes (implementation only; the oracle is the RFC 8152 structure computed here): a length
        carried through a narrower integer type or a bounded iterator only shows at such sizes (informed round 10: `zip` with a range of
        65535 << 8 positions cut both to their first 16 776 960 bytes)"""
        out = []; E = C02.EMPTY
        for n in ((1 << 24) + 1,) if tier == 'quick' else ((1 << 24) - 1, (1 << 24) + 1, (1 << 25) + 3):
            big = bytes([0x5a]) * (n - 2) + b'\x01\x02'; small = b'\x07'
            for which in ('aad', 'payload'):
                aad, pl = (big, small) if which == 'aad' else (small, big)
                if self.HUGE_KIND == 'sig': op = 'sigstruct CoseSign1 (ph - %s) - b%s b%s' % (E, aad.hex(), pl.hex()); slots = [b'', aad, pl]; ctx = b'Signature1'
                elif self.HUGE_KIND == 'mac': op = 'macstruct CoseMac0 (ph - %s) b%s b%s' % (E, aad.hex(), pl.hex()); slots = [b'', aad, pl]; ctx = b'MAC0'
                elif self.HUGE_KIND == 'enc':
                    if which == 'payload': continue
                    op = 'encstruct CoseEncrypt0 (ph - %s) b%s' % (E, aad.hex()); slots = [b'', aad]; ctx = b'Encrypt0'
                else: continue
                out.append(mk(op, k='huge', n=n, which=which, ctx=ctx.decode(), timeout=180, gen='%s of %d bytes (0x5a.. 01 02)' % (which, n)))
        return out
    def huge_pred(self, o, impl):
        m = o['meta']; n = m['n']
        if not impl.startswith('ok b'): return 'no structure for a %s of %d bytes (%s)' % (m['which'], n, impl[:40])
        big = bytes([0x5a]) * (n - 2) + b'\x01\x02'; small = b'\x07'
        aad, pl = (big, small) if m['which'] == 'aad' else (small, big)
        want = spec_struct(m['ctx'].encode(), [b'', aad] + ([pl] if self.HUGE_KIND != 'enc' else []))
        got = bytes.fromhex(impl[4:].strip())
        if got != want: return 'structure over a %s of %d bytes is %d bytes long, the RFC 8152 structure %d%s' % (m['which'], n, len(got), len(want), '' if len(got) != len(want) else ' (same length, different content)')
        return None
    def impl_pred(self, o, impl):
        if o['meta'].get('k') == 'huge': return self.huge_pred(o, impl)
        exp = o['meta'].get('expect_panic')
        if any(u[len('(ph - '):-1] in o['op'] for u in self.UNSER):
            return None     # whether the call reaches that header (which signer is indexed) is decided by the proved model: judge() compares
        if exp is True and impl != 'panic': return 'documented refusal (panic) did not happen'
        if exp is False and impl == 'panic': return 'unexpected panic'
        return self.check_bytes(o, impl)

@register
class C03(StructProp):
    pid = 'C03'
    HUGE_KIND = 'sig'
    def gen(self, seed, tier):
        r = random.Random(seed); g = T(seed, valid=1.0); ops = []
        for _ in range(budget(tier, 2500, 50000)):
            ctx = r.choice(list(SIGCTX)); (bf, bb) = self.phs(g, r); aad = lenbytes(r); pl = lenbytes(r)
            c = r.random()
            if c < 0.35:
                if r.random() < 0.5: sf, sb = '-', 'none'
                else: sf, sb = self.phs(g, r)
                want = None
                if bb is not None and sb is not None:
                    want = spec_struct(SIGCTX[ctx], [bb] + ([] if sb == 'none' else [sb]) + [aad, pl]).hex()
                ops.append(mk('sigstruct %s %s %s b%s b%s' % (ctx, bf, sf, aad.hex(), pl.hex()), want=want, k='sigstruct'))
            elif c < 0.6:
                emb = r.random() < 0.5
                m = '(sign1 %s %s %s b0102)' % (bf, C02.EMPTY, ('b' + pl.hex()) if emb else '-')
                want = spec_struct(b'Signature1', [bb, aad, pl if emb else b'']).hex() if bb is not None else None
                op = r.choice(['tbs', 'verify'])
                ops.append(mk(('tbs sign1 %s b%s' if op == 'tbs' else 'verify sign1 %s b%s vok') % (m, aad.hex()), want=want, k='sign1'))
                wantd = spec_struct(b'Signature1', [bb, aad, pl]).hex() if bb is not None else None
                ops.append(mk('tbsd sign1 %s b%s b%s' % (m, pl.hex(), aad.hex()), want=None if emb else wantd, expect_panic=emb, k='sign1-detached'))
                ops.append(mk('verifyd sign1 %s b%s b%s verr7' % (m, pl.hex(), aad.hex()), want=None if emb else wantd, expect_panic=emb, k='sign1-detached'))
            else:
                ns = r.choice([1, 2, 3]); sigs = [self.phs(g, r) for _ in range(ns)]; idx = r.randrange(ns)
                emb = r.random() < 0.5
                m = '(sign %s %s %s (sigs%s))' % (bf, C02.EMPTY, ('b' + pl.hex()) if emb else '-', ''.join(' (sig %s %s b%02x)' % (sf, C02.EMPTY, i) for i, (sf, _) in enumerate(sigs)))
                sb = sigs[idx][1]
                want = spec_struct(b'Signature', [bb, sb, aad, pl if emb else b'']).hex() if bb is not None and sb is not None else None
                ops.append(mk('verify sign %s %d b%s vok' % (m, idx, aad.hex()), want=want, k='sign'))
                ops.append(mk('tbs sign %s b%s (sig %s %s b)' % (m, aad.hex(), sigs[idx][0], C02.EMPTY), want=want, k='sign'))
                wantd = spec_struct(b'Signature', [bb, sb, aad, pl]).hex() if bb is not None and sb is not None else None
                ops.append(mk('verifyd sign %s %d b%s b%s vok' % (m, idx, pl.hex(), aad.hex()), want=None if emb else wantd, expect_panic=emb, k='sign-detached'))
        B = lambda b: ('bytes', b); I = lambda i: ('int', i)
        for _ in range(budget(tier, 400, 8000)):
            p = self.wire_ph(g, r); aad = lenbytes(r); pl = lenbytes(r); c = r.random()
            def sigv(depth):
                sp = self.wire_ph(g, r)
                un = []
                nested = None
                if depth > 0 and r.random() < 0.4:
                    nested = [sigv(depth - 1) for _ in range(r.choice([1, 2]))]
                    un = [(I(7), nested[0][0] if len(nested) == 1 and r.random() < 0.6 else ('array', [x[0] for x in nested]))]
                return (('array', [B(sp), ('map', un), B(b'\x05')]), sp, nested)
            if c < 0.3:
                v = ('array', [B(p), ('map', []), B(pl), B(b'\x01\x02')])
                ops.append(mk('dec CoseSign1 b' + self.wire_enc(g, r, v).hex(), k='wire', w='sign1', prot=p.hex(), aad=aad.hex(), pl=pl.hex()))
            elif c < 0.6:
                sigs = [sigv(0) for _ in range(r.choice([1, 2, 3]))]
                v = ('array', [B(p), ('map', []), B(pl), ('array', [x[0] for x in sigs])])
                ops.append(mk('dec CoseSign b' + self.wire_enc(g, r, v).hex(), k='wire', w='sign', prot=p.hex(), aad=aad.hex(), pl=pl.hex(), sprots=[x[1].hex() for x in sigs]))
            else:
                # counter-signatures (label 7): one bare or a list, possibly carrying counter-signatures of their own
                css = [sigv(2) for _ in range(r.choice([1, 1, 2]))]
                hv = ('map', [(I(7), css[0][0] if len(css) == 1 and r.random() < 0.6 else ('array', [x[0] for x in css]))])
                def tree(x): return [x[1].hex(), [tree(y) for y in (x[2] or [])]]
                meta = dict(k='wire', prot=p.hex(), aad=aad.hex(), pl=pl.hex(), cstree=[tree(x) for x in css])
                if r.random() < 0.5: ops.append(mk('dec Header b' + self.wire_enc(g, r, hv).hex(), w='cs-header', **meta))
                else:
                    v = ('array', [B(p), hv, B(pl), B(b'\x01')])
                    ops.append(mk('dec CoseSign1 b' + self.wire_enc(g, r, v).hex(), w='cs-sign1', **meta))
        return ops
    def followups(self, ops, impl):
        out = []
        for o, a in zip(ops, impl):
            m = o['meta']
            if m.get('k') != 'wire' or not a.startswith('ok '): continue
            f = parse(a)[1]; p = bytes.fromhex(m['prot']); aad = bytes.fromhex(m['aad']); pl = bytes.fromhex(m['pl'])
            if m['w'] == 'sign1':
                out.append(mk('verify sign1 %s b%s vok' % (render(f), m['aad']), want=spec_struct(b'Signature1', [p, aad, pl]).hex(), k='wire-sign1', src=o['op']))
            elif m['w'] == 'sign':
                for i, sp in enumerate(m['sprots']):
                    out.append(mk('verify sign %s %d b%s vok' % (render(f), i, m['aad']), want=spec_struct(b'Signature', [p, bytes.fromhex(sp), aad, pl]).hex(), k='wire-sign', src=o['op']))
            else:
                hdr = f if m['w'] == 'cs-header' else f[2]
                def walk(h, tr):
                    cs = [x for x in h[7][1:]]
                    if len(cs) != len(tr): return
                    for sig, (sp, sub) in zip(cs, tr):
                        out.append(mk('sigstruct CounterSignature (ph b%s %s) %s b%s b%s' % (m['prot'], C02.EMPTY, render(sig[1]), m['aad'], m['pl']),
                                      want=spec_struct(b'CounterSignature', [p, bytes.fromhex(sp), aad, pl]).hex(), k='wire-countersig', src=o['op']))
                        walk(sig[2], sub)
                walk(hdr, m['cstree'])
        return out

@register
class C04(StructProp):
    pid = 'C04'
    HUGE_KIND = 'mac'
    def gen(self, seed, tier):
        r = random.Random(seed); g = T(seed, valid=1.0); ops = []
        for _ in range(budget(tier, 3000, 60000)):
            ctx = r.choice(list(MACCTX)); (bf, bb) = self.phs(g, r); aad = lenbytes(r); pl = lenbytes(r)
            want = spec_struct(MACCTX[ctx], [bb, aad, pl]).hex() if bb is not None else None
            c = r.random()
            if c < 0.3: ops.append(mk('macstruct %s %s b%s b%s' % (ctx, bf, aad.hex(), pl.hex()), want=want, k='macstruct'))
            else:
                has = r.random() < 0.8
                kind = 'mac' if ctx == 'CoseMac' else 'mac0'
                m = '(%s %s %s %s b0a0b%s)' % (kind, bf, C02.EMPTY, ('b' + pl.hex()) if has else '-', ' (rcps)' if kind == 'mac' else '')
                ops.append(mk('verify %s %s b%s %s' % (kind, m, aad.hex(), r.choice(['vok', 'verr1'])), want=want if has else None, expect_panic=not has, k=kind))
                if (bb is None or bb == b'') and bf.startswith('(ph - '):
                    hb = bf[len('(ph - '):-1]
                    bops = '(protected %s) ' % hb + ('(payload b%s) ' % pl.hex() if has else '') + '(%s b%s echo)' % (r.choice(['create_tag', 'try_create_tag']), aad.hex())
                    ops.append(mk('build Cose%sBuilder %s' % ('Mac' if kind == 'mac' else 'Mac0', bops), k='build-' + kind, want_call=want if has else None, expect_panicx=not has))
        B = lambda b: ('bytes', b)
        for _ in range(budget(tier, 400, 8000)):
            p = self.wire_ph(g, r); aad = lenbytes(r); pl = lenbytes(r)
            rcp = ('array', [B(self.wire_ph(g, r)), ('map', []), B(b'\x09')])
            if r.random() < 0.5:
                v = ('array', [B(p), ('map', []), B(pl), B(b'\x0a\x0b')]); t = 'CoseMac0'
            else:
                v = ('array', [B(p), ('map', []), B(pl), B(b'\x0a\x0b'), ('array', [rcp] * r.choice([0, 1, 2]))]); t = 'CoseMac'
            tagged = r.random() < 0.3
            b = self.wire_enc(g, r, ('tag', 17 if t == 'CoseMac0' else 97, v) if tagged else v)
            ops.append(mk('%s %s b%s' % ('dect' if tagged else 'dec', t, b.hex()), k='wire', w=t, prot=p.hex(), aad=aad.hex(), pl=pl.hex()))
        return ops
    def followups(self, ops, impl):
        out = []
        for o, a in zip(ops, impl):
            m = o['meta']
            if m.get('k') != 'wire' or not a.startswith('ok '): continue
            f = parse(a)[1]; kind = 'mac0' if m['w'] == 'CoseMac0' else 'mac'
            want = spec_struct(MACCTX[m['w']], [bytes.fromhex(m['prot']), bytes.fromhex(m['aad']), bytes.fromhex(m['pl'])]).hex()
            out.append(mk('verify %s %s b%s vok' % (kind, render(f), m['aad']), want=want, k='wire-' + kind, src=o['op']))
        return out
    def impl_pred(self, o, impl):
        if o['meta'].get('expect_panicx') is True and not impl.startswith('panic'): return 'tag creation without payload was not refused'
        wc = o['meta'].get('want_call')
        if wc is not None:
            m = re.search(r'\(calls \(b([0-9a-f]*)\)\)', impl)
            if not m or m.group(1) != wc: return 'MAC closure received bytes other than MAC_structure'
        return super().impl_pred(o, impl)

@register
class C05(StructProp):
    pid = 'C05'
    HUGE_KIND = 'enc'
    def gen(self, seed, tier):
        r = random.Random(seed); g = T(seed, valid=1.0); ops = []
        for _ in range(budget(tier, 3000, 60000)):
            ctx = r.choice(list(ENCCTX)); (bf, bb) = self.phs(g, r); aad = lenbytes(r)
            want = spec_struct(ENCCTX[ctx], [bb, aad]).hex() if bb is not None else None
            c = r.random()
            if c < 0.3: ops.append(mk('encstruct %s %s b%s' % (ctx, bf, aad.hex()), want=want, k='encstruct'))
            elif c < 0.55:
                has = r.random() < 0.8
                kind = r.choice(['enc', 'enc0'])
                w = spec_struct(b'Encrypt' if kind == 'enc' else b'Encrypt0', [bb, aad]).hex() if bb is not None else None
                m = '(%s %s %s %s%s)' % (kind, bf, C02.EMPTY, 'b0102' if has else '-', ' (rcps)' if kind == 'enc' else '')
                ops.append(mk('decrypt %s %s b%s %s' % (kind, m, aad.hex(), r.choice(['cat', '(k b07)', '(fail 3)'])), want=w if has else None, expect_panic=not has, k=kind))
            elif c < 0.8:
                has = r.random() < 0.85
                m = '(rcp %s %s %s (rcps))' % (bf, C02.EMPTY, 'b0102' if has else '-')
                isr = ctx.endswith('Recipient')
                ops.append(mk('decrypt rcp %s %s b%s cat' % (m, ctx, aad.hex()), want=want if (has and isr) else None, expect_panic=not (has and isr), k='rcp'))
            else:
                if (bb is None or bb == b'') and bf.startswith('(ph - '):
                    hb = bf[len('(ph - '):-1]
                    isr = ctx.endswith('Recipient')
                    meth = r.choice(['create_ciphertext', 'try_create_ciphertext'])
                    ops.append(mk('build CoseRecipientBuilder (protected %s) (%s %s b0909 b%s cat)' % (hb, meth, ctx, aad.hex()), k='build-rcp', want_call=want if isr else None, expect_panicx=not isr))
                    kind = r.choice(['Encrypt', 'Encrypt0'])
                    w = spec_struct(kind.encode(), [bb, aad]).hex() if bb is not None else None
                    ops.append(mk('build Cose%sBuilder (protected %s) (%s b0909 b%s cat)' % (kind, hb, meth, aad.hex()), k='build-enc', want_call=w))
        B = lambda b: ('bytes', b)
        for _ in range(budget(tier, 500, 10000)):
            p = self.wire_ph(g, r); aad = lenbytes(r)
            def rcpv(depth):
                rp = self.wire_ph(g, r); sub = []
                if depth > 0 and r.random() < 0.5: sub = [rcpv(depth - 1) for _ in range(r.choice([1, 2]))]
                return (('array', [B(rp), ('map', []), B(b'\x09')] + ([('array', [x[0] for x in sub])] if sub else [])), rp, sub)
            def tree(x): return [x[1].hex(), [tree(y) for y in x[2]]]
            c = r.random()
            if c < 0.25:
                v = ('array', [B(p), ('map', []), B(b'\x01\x02')]); t = 'CoseEncrypt0'; rs = []
            elif c < 0.6:
                rs = [rcpv(2) for _ in range(r.choice([1, 2]))]
                v = ('array', [B(p), ('map', []), B(b'\x01\x02'), ('array', [x[0] for x in rs])]); t = 'CoseEncrypt'
            elif c < 0.8:
                rs = [rcpv(1) for _ in range(r.choice([1, 2]))]
                v = ('array', [B(p), ('map', []), B(b'\x07'), B(b'\x0a'), ('array', [x[0] for x in rs])]); t = 'CoseMac'
            else:
                one = rcpv(2); v = one[0]; t = 'CoseRecipient'; rs = [one]
            ops.append(mk('dec %s b%s' % (t, self.wire_enc(g, r, v).hex()), k='wire', w=t, prot=p.hex(), aad=aad.hex(), rtree=[tree(x) for x in rs]))
        return ops
    def followups(self, ops, impl):
        out = []
        for o, a in zip(ops, impl):
            m = o['meta']
            if m.get('k') != 'wire' or not a.startswith('ok '): continue
            f = parse(a)[1]; aad = bytes.fromhex(m['aad']); t = m['w']
            if t in ('CoseEncrypt0', 'CoseEncrypt'):
                kind = 'enc0' if t == 'CoseEncrypt0' else 'enc'
                out.append(mk('decrypt %s %s b%s cat' % (kind, render(f), m['aad']), want=spec_struct(ENCCTX[t], [bytes.fromhex(m['prot']), aad]).hex(), k='wire-' + kind, src=o['op']))
            def walk(rforms, tr, ctx):
                if len(rforms) != len(tr): return
                for rf, (rp, sub) in zip(rforms, tr):
                    out.append(mk('decrypt rcp %s %s b%s cat' % (render(rf), ctx, m['aad']), want=spec_struct(ENCCTX[ctx], [bytes.fromhex(rp), aad]).hex(), k='wire-rcp', src=o['op']))
                    walk(rf[4][1:], sub, 'RecRecipient')
            if t == 'CoseEncrypt': walk(f[4][1:], m['rtree'], 'EncRecipient')
            elif t == 'CoseMac': walk(f[5][1:], m['rtree'], 'MacRecipient')
            elif t == 'CoseRecipient': walk([f], m['rtree'], r_ctx(o['op']))
        return out
    def impl_pred(self, o, impl):
        if o['meta'].get('expect_panicx') is True and not impl.startswith('panic'): return 'non-recipient context was not refused'
        wc = o['meta'].get('want_call')
        if wc is not None:
            m = re.search(r'\(calls \(b[0-9a-f]* b([0-9a-f]*)\)\)', impl)
            if not m or m.group(1) != wc: return 'cipher closure received bytes other than Enc_structure'
        return super().impl_pred(o, impl)

def r_ctx(op):
    return ['EncRecipient', 'MacRecipient', 'RecRecipient'][sum(op.encode()) % 3]

from props_streams2 import *   # noqa
