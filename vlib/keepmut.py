#!/usr/bin/env python3
"""keepmut.py <worktree> <seeded-name> <property> <needs> <check>...
Confirm a seeded change produced in a scratch worktree (suite passes with it, demonstration fails with it and passes without),
run the named checks against it in the isolated lab (vlib/mutlab.sh), and file it under seeded/<name>/.  Removes the worktree."""
import sys, os, subprocess, json, shutil, re
VERIF = os.path.dirname(os.path.dirname(os.path.abspath(__file__)))
wt, name, prop, needs = sys.argv[1:5]; checks = sys.argv[5:]
def sh(c, **kw): return subprocess.run(c, shell=True, stdout=subprocess.PIPE, stderr=subprocess.STDOUT, **kw).stdout.decode()
conf = sh('sh %s/vlib/confirm_mut.sh %s' % (VERIF, wt))
print(conf)
m = re.search(r'suite\+change: test result: ok\. (\d+) passed; 0 failed.*\| doc: test result: ok', conf)
bad = re.search(r'demo\+change : test result: FAILED', conf); good = re.search(r'demo orig   : test result: ok', conf)
if not (m and bad and good):
    print('NOT CONFIRMED'); sys.exit(1)
res = sh('sh %s/vlib/mutlab.sh try %s/mutation/patch.diff %s' % (VERIF, wt, ' '.join(checks)))
print(res)
caught = []
for c in checks:
    mm = re.search(r'%s FAIL: (.*)' % c, res)
    if mm: caught.append('%s (%s)' % (c, mm.group(1).strip()))
missed = [c for c in checks if not re.search(r'%s FAIL' % c, res)]
d = os.path.join(VERIF, 'seeded', name); os.makedirs(d, exist_ok=True)
for f in ('patch.diff', 'demo.rs', 'notes.md'):
    if os.path.exists(os.path.join(wt, 'mutation', f)): shutil.copy(os.path.join(wt, 'mutation', f), os.path.join(d, f))
base = sh('git -C /repo rev-parse --short HEAD').strip()
json.dump(dict(property=prop, needs=needs, caught_by='; '.join(caught) if caught else 'MISSED', missed_by=missed,
               confirmed='vlib/confirm_mut.sh in the scratch worktree: existing suite %s+1 pass with change; demo (tests/mutation_demo.rs) fails with change, passes without' % m.group(1),
               ran='vlib/mutlab.sh try seeded/%s/patch.diff %s' % (name, ' '.join(checks)), base_commit=base, round=int(re.search(r'-r(\d+)$', name).group(1)) if re.search(r'-r(\d+)$', name) else 1),
          open(os.path.join(d, 'meta.json'), 'w'), indent=1)
if '--keep-wt' not in sys.argv:
    sh('git -C /repo worktree remove --force %s' % wt)
print('filed', d, 'caught:', caught, 'missed:', missed)
