"""Build and run the two sides of the correspondence (tie K): Rust harness over /repo, Lean model driver."""
import os, subprocess, sys, time, fcntl, json, hashlib, shutil, tempfile

VERIF = os.path.dirname(os.path.dirname(os.path.abspath(__file__)))
REPO = os.environ.get('VERIF_REPO', '/repo')
CACHE = os.path.join(VERIF, '.cache')
LEAN = os.path.join(VERIF, 'lean')
HARNESS = os.path.join(VERIF, 'harness')
HBIN = os.path.join(CACHE, 'cargo-target', 'debug', 'coset-harness')
DBIN = os.path.join(LEAN, '.lake', 'build', 'bin', 'driver')
ENV = dict(os.environ, CARGO_NET_OFFLINE='true')

class Lock:
    def __init__(self, name):
        os.makedirs(CACHE, exist_ok=True)
        self.path = os.path.join(CACHE, name + '.lock')
    def __enter__(self):
        self.f = open(self.path, 'w'); fcntl.flock(self.f, fcntl.LOCK_EX); return self
    def __exit__(self, *a):
        fcntl.flock(self.f, fcntl.LOCK_UN); self.f.close()

def sh(cmd, cwd=None, timeout=3600, env=None):
    t = time.time()
    p = subprocess.run(cmd, cwd=cwd, shell=isinstance(cmd, str), stdout=subprocess.PIPE, stderr=subprocess.STDOUT,
                       timeout=timeout, env=env or ENV)
    return p.returncode, p.stdout.decode('utf-8', 'replace'), time.time() - t

def build_harness():
    """cargo build of the harness against /repo's current working tree (cargo fingerprints the sources)."""
    with Lock('cargo'):
        lock = os.path.join(HARNESS, 'Cargo.lock')
        if not os.path.exists(lock):
            shutil.copy(os.path.join(REPO, 'Cargo.lock'), lock)
        rc, out, dt = sh(['cargo', 'build', '--offline', '--quiet'], cwd=HARNESS)
    return rc == 0, out, dt

def translate():
    sys.path.insert(0, os.path.join(VERIF, 'vlib'))
    import extract
    try:
        st, facts = extract.run()
    except Exception as e:      # the translator could not read the source at all: the transcribed facts stand in, and the caller reports the tie as broken
        import traceback
        pin = os.path.join(VERIF, 'pinned', 'CosetGen')
        for f in os.listdir(pin):
            if f.endswith('.lean'): shutil.copy(os.path.join(pin, f), os.path.join(LEAN, 'CosetGen', f))
        st = {'translator': 'FAILED: %s' % (traceback.format_exc().strip().split('\n')[-1][:200])}; facts = {}
    return st, facts

def lake_build(targets, timeout=3600):
    with Lock('lake'):
        rc, out, dt = sh(['lake', 'build'] + list(targets), cwd=LEAN, timeout=timeout)
    return rc == 0, out, dt

def run_side(binary, lines, timeout=1800, args=()):
    data = ('\n'.join(lines) + '\n').encode()
    t = time.time()
    try:
        p = subprocess.run([binary] + list(args), input=data, stdout=subprocess.PIPE, stderr=subprocess.PIPE, timeout=timeout)
    except subprocess.TimeoutExpired:
        return None, 'timeout', time.time() - t
    out = p.stdout.decode('utf-8', 'replace').split('\n')
    if out and out[-1] == '': out.pop()
    return out, p.returncode, time.time() - t

def run_impl(lines, **kw):
    """run the harness; if it dies (abort / stack overflow) bisect to find the killing line and mark it `abort`."""
    out, rc, dt = run_side(HBIN, lines, **kw)
    if out is not None and rc == 0 and len(out) == len(lines):
        return out, dt
    # the process died: out has the results flushed so far; re-run piecewise
    res = []
    i = 0
    n = len(lines)
    while i < n:
        chunk = lines[i:]
        o, rc, _ = run_side(HBIN, chunk, **kw)
        o = o or []
        if rc == 0 and len(o) == len(chunk):
            res += o; break
        # find first line that kills: results are flushed in blocks, so probe linearly from len(o)
        lo = len(o)
        # binary search for the smallest k such that running chunk[:k+1] dies
        a, b = 0, len(chunk) - 1
        while a < b:
            mid = (a + b) // 2
            o2, rc2, _ = run_side(HBIN, chunk[:mid + 1], **kw)
            if rc2 == 0 and o2 is not None and len(o2) == mid + 1: a = mid + 1
            else: b = mid
        o3, _, _ = run_side(HBIN, chunk[:a], **kw) if a > 0 else ([], 0, 0)
        res += (o3 or []) + ['abort']
        i += a + 1
    return res, dt

def run_model(lines, **kw):
    out, rc, dt = run_side(DBIN, lines, **kw)
    if out is None or rc != 0 or len(out) != len(lines):
        raise RuntimeError('model driver failed rc=%s lines=%s/%s' % (rc, None if out is None else len(out), len(lines)))
    return out, dt

PINNED_SRC = os.path.join(VERIF, 'pinned', 'CosetGen')
PINNED_DIR = os.path.join(CACHE, 'pinned')
PBIN = os.path.join(PINNED_DIR, '.lake', 'build', 'bin', 'driver')

def _tree_hash(paths):
    h = hashlib.sha256()
    for p in sorted(paths):
        h.update(p.encode()); h.update(open(p, 'rb').read())
    return h.hexdigest()

def build_driver():
    ok, out, dt = lake_build(['driver'])
    return ok, out, dt

def build_pinned_driver():
    """the model built over the facts of the unchanged tree (pinned/CosetGen): the oracle of the search step."""
    srcs = [os.path.join(LEAN, 'Main.lean')] + [os.path.join(LEAN, 'CosetModel', f) for f in os.listdir(os.path.join(LEAN, 'CosetModel')) if f.endswith('.lean')] \
        + [os.path.join(PINNED_SRC, f) for f in os.listdir(PINNED_SRC) if f.endswith('.lean')]
    hsh = _tree_hash(srcs)
    stamp = os.path.join(PINNED_DIR, 'stamp')
    with Lock('pinned'):
        if os.path.exists(PBIN) and os.path.exists(stamp) and open(stamp).read() == hsh:
            return True, 'cached'
        for d in ('CosetModel', 'CosetGen'):
            shutil.rmtree(os.path.join(PINNED_DIR, d), ignore_errors=True)
        os.makedirs(PINNED_DIR, exist_ok=True)
        shutil.copytree(os.path.join(LEAN, 'CosetModel'), os.path.join(PINNED_DIR, 'CosetModel'))
        shutil.copytree(PINNED_SRC, os.path.join(PINNED_DIR, 'CosetGen'))
        shutil.copy(os.path.join(LEAN, 'Main.lean'), os.path.join(PINNED_DIR, 'Main.lean'))
        open(os.path.join(PINNED_DIR, 'lakefile.toml'), 'w').write(
            'name = "coset_pinned"\nversion = "0.1.0"\ndefaultTargets = ["driver"]\n\n[[lean_lib]]\nname = "CosetGen"\n\n[[lean_lib]]\nname = "CosetModel"\n\n[[lean_exe]]\nname = "driver"\nroot = "Main"\n')
        rc, out, dt = sh(['lake', 'build', 'driver'], cwd=PINNED_DIR, timeout=3600)
        if rc == 0: open(stamp, 'w').write(hsh)
        return rc == 0, out

_orig_run_model = run_model
def run_model(lines, pinned=False, **kw):
    binary = PBIN if pinned else DBIN
    out, rc, dt = run_side(binary, lines, **kw)
    if out is None or rc != 0 or len(out) != len(lines):
        raise RuntimeError('model driver failed rc=%s lines=%s/%s' % (rc, None if out is None else len(out), len(lines)))
    return out, dt
