#!/usr/bin/env python3
"""Tie T: re-read /repo/src/**/*.rs and regenerate lean/CosetGen/*.lean (facts F1..F10).

Every fact is found by a syntactic pattern over comment-stripped source with brace matching.
`found but different` shows up later as a broken kernel-checked equality / theorem in Lean;
`pattern not found` is reported in the status dictionary (the fact degrades to correspondence-only)."""
import re, os, sys, json, hashlib

REPO = os.environ.get('VERIF_REPO', '/repo')
OUT = os.path.join(os.path.dirname(os.path.abspath(__file__)), '..', 'lean', 'CosetGen')

def strip_comments(s):
    out = []; i = 0; n = len(s)
    while i < n:
        if s.startswith('//', i):
            j = s.find('\n', i); i = n if j < 0 else j
        elif s.startswith('/*', i):
            j = s.find('*/', i); i = n if j < 0 else j + 2
        elif s[i] == '"':
            j = i + 1
            while j < n and s[j] != '"':
                if s[j] == '\\': j += 1
                j += 1
            out.append(s[i:j + 1]); i = j + 1
        elif s[i] == "'" and i + 2 < n and (s[i + 2] == "'" or (s[i + 1] == '\\' and i + 3 < n and s[i + 3] == "'")):
            j = i + (3 if s[i + 2] == "'" else 4)
            out.append(s[i:j]); i = j
        else:
            out.append(s[i]); i += 1
    return ''.join(out)

def block(s, i, op='{', cl='}'):
    """s[i] == op ; return index just after the matching closer (strings skipped)."""
    d = 0; j = i; n = len(s)
    while j < n:
        c = s[j]
        if c == '"':
            j += 1
            while j < n and s[j] != '"':
                if s[j] == '\\': j += 1
                j += 1
        elif c == "'" and j + 2 < n and (s[j + 2] == "'" or (s[j + 1] == '\\' and j + 3 < n and s[j + 3] == "'")):
            j += 2 if s[j + 2] == "'" else 3          # a character literal ('{', '"', '\\''), not a lifetime
        elif c == op: d += 1
        elif c == cl:
            d -= 1
            if d == 0: return j + 1
        j += 1
    raise ValueError('unbalanced')

def strip_tests(s):
    """remove `#[cfg(test)] <item>` (mod tests; or fn ... { }) and #[cfg(coset_verif)] impl blocks"""
    for attr in (r'#\[cfg\(test\)\]', r'#\[cfg\(coset_verif\)\]'):
        while True:
            m = re.search(attr + r'\s*', s)
            if not m: break
            j = m.end()
            k1 = s.find(';', j); k2 = s.find('{', j)
            if k2 < 0 or (0 <= k1 < k2):
                s = s[:m.start()] + s[k1 + 1:]
            else:
                s = s[:m.start()] + s[block(s, k2):]
    return s

MODS = ['common', 'util', 'header', 'sign', 'mac', 'encrypt', 'key', 'context', 'cwt', 'iana']

def load():
    src = {}
    for m in MODS:
        p = os.path.join(REPO, 'src', m, 'mod.rs')
        src[m] = strip_tests(strip_comments(open(p).read()))
    return src

def norm(tokens_src):
    return ' '.join(re.findall(r'[A-Za-z_][A-Za-z0-9_]*|\d+|\S', tokens_src))

# ---------------------------------------------------------------- F1
def f1(src, st):
    s = src['iana']
    regs = []
    for m in re.finditer(r'iana_registry!\s*\{', s):
        e = block(s, m.end() - 1)
        body = s[m.end():e - 1]
        mm = re.match(r'\s*(?:#\[[^\]]*\]\s*)*([A-Za-z0-9_]+)\s*\{', body)
        if not mm: continue
        name = mm.group(1)
        ib = body[mm.end() - 1:]
        inner = ib[1:block(ib, 0) - 1]
        rows = []
        for a, v in re.findall(r'([A-Za-z0-9_]+)\s*:\s*(-?\s*[0-9_]+)\s*,', inner):
            rows.append((a, int(v.replace('_', '').replace(' ', ''))))
        regs.append((name, rows))
    consts = dict((n, int(v.replace('_', ''))) for n, v in re.findall(r'pub const ([A-Z_0-9]+)\s*:\s*i64\s*=\s*(-?[0-9_]+)\s*;', s))
    priv = []
    for m in re.finditer(r'impl\s+WithPrivateRange\s+for\s+(\w+)\s*\{\s*fn\s+is_private\s*\(\s*i\s*:\s*i64\s*\)\s*->\s*bool\s*\{\s*i\s*(<=|<|>=|>|==|!=)\s*(-?\w+)\s*\}\s*\}', s):
        c = m.group(3)
        val = consts.get(c)
        if val is None:
            try: val = int(c.replace('_', ''))
            except ValueError: continue
        priv.append((m.group(1), m.group(2), val))
    # macro body of from_i64 / to_i64 (normalised) so that a changed macro is visible
    mm = re.search(r'macro_rules!\s*iana_registry\s*\{', s)
    macro = norm(s[mm.end() - 1:block(s, mm.end() - 1)]) if mm else ''
    st['F1'] = 'ok' if regs and len(priv) == len(re.findall(r'impl\s+WithPrivateRange\s+for', s)) else 'degraded'
    return regs, priv, macro

# ---------------------------------------------------------------- F2 / F3 / F4 / F5 / F7
def f2(src, st):
    ctx = []
    for mod, enum in (('sign', 'SignatureContext'), ('mac', 'MacContext'), ('encrypt', 'EncryptionContext')):
        s = src[mod]
        m = re.search(r'impl\s+' + enum + r'\s*\{\s*fn\s+text\s*\(\s*&self\s*\)[^{]*\{\s*match\s+self\s*\{', s)
        if not m:
            st['F2'] = 'degraded'; continue
        e = block(s, m.end() - 1)
        arms = re.findall(r'(\w+)::(\w+)\s*=>\s*"([^"]*)"', s[m.end():e])
        ctx.append((enum, [(v, t) for _, v, t in arms]))
    st.setdefault('F2', 'ok')
    return ctx

def f3(src, st):
    """which context constant each helper passes to which structure function; the recipient guard set."""
    out = []
    for mod in ('sign', 'mac', 'encrypt'):
        s = src[mod]
        for m in re.finditer(r'impl\s+(\w+)\s*\{', s):
            e = block(s, m.end() - 1); body = s[m.end():e]
            for fm in re.finditer(r'fn\s+(\w+)\s*(?:<[^>]*>)?\s*\(', body):
                pe = block(body, fm.end() - 1, '(', ')')
                bs = body.find('{', pe)
                if bs < 0: continue
                be = block(body, bs)
                fb = body[bs:be]
                for cm in re.finditer(r'(sig_structure_data|mac_structure_data|enc_structure_data)\s*\(\s*([A-Za-z0-9_:]+)', fb):
                    out.append((m.group(1), fm.group(1), cm.group(1), cm.group(2)))
    guards = []
    s = src['encrypt']
    for m in re.finditer(r'match\s+context\s*\{', s):
        e = block(s, m.end() - 1); body = s[m.end():e]
        arm = body.split('=>')[0]
        guards.append(sorted(re.findall(r'EncryptionContext::(\w+)', arm)))
    st['F3'] = 'ok' if out else 'degraded'
    return out, guards

def f4(src, st):
    tags = []
    for mod in ('sign', 'mac', 'encrypt'):
        s = src[mod]
        for m in re.finditer(r'impl\s+(?:crate::)?TaggedCborSerializable\s+for\s+(\w+)\s*\{\s*const\s+TAG\s*:\s*u64\s*=\s*iana::CborTag::(\w+)\s+as\s+u64\s*;\s*\}', s):
            tags.append((m.group(1), m.group(2)))
    st['F4'] = 'ok' if tags else 'degraded'
    return tags

def f5(src, st):
    labels = []
    for mod in ('header', 'key', 'cwt'):
        s = src[mod]
        for m in re.finditer(r'const\s+(\w+)\s*:\s*(?:Label|ClaimName)\s*=\s*(?:Label::Int|ClaimName::Assigned)\s*\(\s*iana::(\w+)::(\w+)(?:\s+as\s+i64)?\s*\)\s*;', s):
            labels.append((mod, m.group(1), m.group(2), m.group(3)))
    st['F5'] = 'ok' if labels else 'degraded'
    return labels

def f7(src, st):
    s = src['header']
    m = re.search(r'pub\s+struct\s+Header\s*\{', s)
    m2 = re.search(r'pub\s+fn\s+is_empty\s*\(\s*&self\s*\)\s*->\s*bool\s*\{', s)
    if not m or not m2:
        st['F7'] = 'degraded'; return [], []
    hb = s[m.end() - 1:block(s, m.end() - 1)]
    fields = re.findall(r'pub\s+(\w+)\s*:', hb)
    eb = s[m2.end() - 1:block(s, m2.end() - 1)]
    used = re.findall(r'(!?)\s*self\s*\.\s*(\w+)\s*\.\s*(\w+)\s*\(\s*\)', eb)
    conj = '&&' in eb and '||' not in eb
    st['F7'] = 'ok' if conj else 'degraded'
    return fields, [(f, ('!' if neg else '') + meth) for neg, f, meth in used]

# ---------------------------------------------------------------- F6
def impl_body(s, trait, ty):
    m = re.search(r'impl\s*(?:<[^>]*>\s*)?(?:crate::)?' + trait + r'\s+for\s+' + ty + r'\b[^{]*\{', s)
    if not m: return None
    return s[m.end() - 1:block(s, m.end() - 1)]

def fn_body(body, name):
    m = re.search(r'fn\s+' + name + r'\s*\(', body)
    if not m: return None
    pe = block(body, m.end() - 1, '(', ')')
    bs = body.find('{', pe)
    return body[bs:block(body, bs)]

ARRAY_TYPES = [('sign', 'CoseSignature'), ('sign', 'CoseSign'), ('sign', 'CoseSign1'), ('mac', 'CoseMac'), ('mac', 'CoseMac0'),
               ('encrypt', 'CoseRecipient'), ('encrypt', 'CoseEncrypt'), ('encrypt', 'CoseEncrypt0'),
               ('context', 'PartyInfo'), ('context', 'SuppPubInfo'), ('context', 'CoseKdfContext')]

def pinned_removes(ty):
    try: t = open(os.path.join(os.path.dirname(os.path.abspath(__file__)), '..', 'pinned', 'CosetGen', 'Facts.lean')).read()
    except FileNotFoundError: return None
    m = re.search(r'def %s_removes : List Nat := \[([^\]]*)\]' % ty, t)
    return [int(x) for x in m.group(1).split(',') if x.strip()] if m else None

def f6(src, st):
    shapes = []
    ok = True
    for mod, ty in ARRAY_TYPES:
        b = impl_body(src[mod], 'AsCborValue', ty)
        fb = fn_body(b, 'from_cbor_value') if b else None
        tb = fn_body(b, 'to_cbor_value') if b else None
        if fb and 'remove' not in fb:
            # the conversion may delegate to an inherent `from_cbor_value_depth` (nesting-budget variant)
            for m2 in re.finditer(r'impl\s+' + ty + r'\s*\{', src[mod]):
                ib = src[mod][m2.end() - 1:block(src[mod], m2.end() - 1)]
                if re.search(r'fn\s+from_cbor_value_depth\s*\(', ib):
                    fb = fn_body(ib, 'from_cbor_value_depth')
        if not fb or not tb:
            ok = False; continue
        # arity condition: the first `if` after try_as_array
        cm = re.search(r'if\s+((?:a\.len\(\)\s*(?:!=|<|>|==|<=|>=)\s*\d+\s*(?:&&|\|\|)?\s*)+)\{', fb)
        conds = re.findall(r'a\.len\(\)\s*(!=|<|>|==|<=|>=)\s*(\d+)', cm.group(1)) if cm else []
        joiner = '&&' if cm and '&&' in cm.group(1) else ('||' if cm and '||' in cm.group(1) else '')
        removes = []
        for mm in re.finditer(r'a\s*\.\s*remove\s*\(\s*(\w+)\s*\)', fb):
            pre = fb[:mm.start()]
            # field the removed element flows to: nearest preceding `ident :` (struct field) or `let ident =`
            cands = list(re.finditer(r'(?:let\s+(?:mut\s+)?(\w+)\s*=|(\w+)\s*:(?!:))', pre))
            fld = None
            if cands:
                c = cands[-1]; fld = c.group(1) or c.group(2)
            removes.append((mm.group(1), fld))
        order = re.findall(r'self\s*\.\s*(\w+)', tb)
        seen = []; 
        for f_ in order:
            if f_ not in seen: seen.append(f_)
        # the positional pattern must be *complete*: the same indices as in the transcribed tree, each as often (in any order).  A
        # decoder whose removes moved partly into a helper would otherwise be translated into a model that takes out one element
        # and then misses the others — a mistranslation, not a finding (seen with the `mac` refactoring: DESIGN.md §13).
        pr = pinned_removes(ty)
        complete = pr is None or sorted(int(i) for i, _ in removes if i.isdigit()) == sorted(pr)
        if not conds or not any(i.isdigit() for i, _ in removes) or not complete:
            # the positional-remove pattern is not there (the decoder was rewritten): nothing to translate for this type —
            # its facts fall back to the pinned ones (see fill_from_pinned) and the type is decided by the correspondence alone
            ok = False; st['F6:' + ty] = 'pattern not found'; continue
        shapes.append((ty, joiner, conds, removes, seen))
    st['F6'] = 'ok' if ok and shapes else 'degraded'
    return shapes

# ---------------------------------------------------------------- F8 inventories
PANIC_PAT = [
    ('unwrap', r'\.\s*unwrap\s*\('), ('expect', r'\.\s*expect\s*\('), ('panic', r'\bpanic!\s*\('),
    ('assert', r'\bassert(?:_eq|_ne)?!\s*\('), ('unreachable', r'\bunreachable!\s*\('), ('unimplemented', r'\b(?:unimplemented|todo)!\s*\('),
    ('remove', r'\.\s*remove\s*\('), ('swap_remove', r'\.\s*swap_remove\s*\('), ('index', r'[A-Za-z0-9_\)\]]\s*\[[^\]\[]*\](?!\s*=\s*[^=])'),
    ('sub', r'\.len\(\)\s*-\s*\w+'), ('unchecked', r'\bunsafe\b|_unchecked\b'), ('drain', r'\.\s*(?:drain|split_off|split_at|truncate_unchecked)\s*\('),
    ('slice', r'\[\s*\w*\s*\.\.\s*\w*\s*\]'), ('divide', r'[A-Za-z0-9_\)]\s*(?:/|%)\s*[A-Za-z_(]'),
]
NARROW_PAT = [('try_into', r'\.\s*try_into\s*\('), ('try_from', r'\btry_from\s*\('), ('as', r'\bas\s+(?:i8|i16|i32|i64|i128|isize|u8|u16|u32|u64|u128|usize|f32|f64)\b'),
              ('from', r'\b(?:Value|Integer)::from\s*\(|\.\s*into\s*\(\s*\)')]

def fn_spans(s):
    """(qualified name, body) for every fn with a body, qualified by the enclosing impl/trait target."""
    res = []
    # map positions to enclosing impl names
    impls = []
    for m in re.finditer(r'\b(impl|trait)\b([^{;]*)\{', s):
        try: e = block(s, m.end() - 1)
        except ValueError: continue
        hdr = m.group(2)
        if m.group(1) == 'trait':
            name = re.match(r'\s*(\w+)', hdr).group(1)
        else:
            mm = re.search(r'for\s+([A-Za-z_][\w:]*)', hdr)
            name = (mm.group(1) if mm else re.sub(r'<[^>]*>', '', hdr).strip().split()[-1] if hdr.strip() else '?')
            name = name.split('::')[-1]
        impls.append((m.end() - 1, e, name))
    for m in re.finditer(r'\bfn\s+(\w+)\s*(?:<[^>]*>)?\s*\(', s):
        pe = block(s, m.end() - 1, '(', ')')
        k = pe
        while k < len(s) and s[k] not in '{;': k += 1
        if k >= len(s) or s[k] == ';': continue
        e = block(s, k)
        encl = [nm for (a, b, nm) in impls if a <= m.start() < b]
        q = (encl[-1] + '::' if encl else '') + m.group(1)
        res.append((q, s[k:e]))
    # macro_rules bodies count as one span each
    for m in re.finditer(r'macro_rules!\s*(\w+)\s*\{', s):
        res.append(('macro ' + m.group(1), s[m.end() - 1:block(s, m.end() - 1)]))
    return res

def f8(src, st):
    panics = []; narrows = []
    for mod in MODS:
        for q, body in fn_spans(src[mod]):
            for kind, pat in PANIC_PAT:
                n = len(re.findall(pat, body))
                if n: panics.append((mod, q, kind, n))
            for kind, pat in NARROW_PAT:
                hits = re.findall(pat, body)
                if hits:
                    narrows.append((mod, q, kind, len(hits)))
    st['F8'] = 'ok'
    return sorted(set(panics)), sorted(set(narrows))

# ---------------------------------------------------------------- F11 decision budget
BUDGET_OPS = [('if', r'\bif\b'), ('match', r'\bmatch\b'), ('while', r'\bwhile\b'), ('==', r'=='), ('!=', r'!='), ('<=', r'<='), ('>=', r'(?<![=])>='), ('&&', r'&&'), ('||', r'\|\|'),
              # owner's full budget only: other ways of testing a value (rustfmt spacing tells `a < b` from generics)
              ('letelse', r'\blet\b[^;{}]*?\belse\s*\{'), ('conv:as', r'\bas\s+(?:i8|i16|i32|i64|i128|isize|u8|u16|u32|u64|u128|usize|f32|f64)\b'), ('lt', r' < '), ('gt', r' > '), ('matches!', r'\bmatches!\s*\('), ('rem', r' % '), ('xor', r' \^ '), ('and', r' & '), ('shl', r' << '), ('shr', r' >> '), ('mul', r' \* '), ('div', r' / '), ('add', r' \+ (?![A-Z\'?]|crate::|core::|alloc::)'), ('sub', r' - ')] + \
             [('.' + m, r'\.\s*%s\s*\(' % m) for m in ('contains', 'starts_with', 'ends_with', 'eq', 'ne', 'cmp', 'strip_prefix', 'strip_suffix', 'find', 'position', 'any', 'all', 'filter',
                                                      'is_zero', 'checked_sub', 'checked_add', 'wrapping_sub', 'wrapping_add', 'count_ones', 'rem_euclid', 'abs', 'then', 'then_some', 'take_while', 'skip_while')]
PLUMBING = {'map', 'collect', 'into_iter', 'iter', 'next', 'map_err', 'copied', 'cloned', 'transpose', 'then_with', 'try_from', 'try_into', 'map_or', 'map_or_else', 'and_then', 'ok', 'ok_or', 'ok_or_else',
            'clone', 'len', 'into', 'from', 'to_owned', 'to_vec', 'to_string', 'as_ref', 'as_slice', 'as_str', 'unwrap_or_default', 'unwrap_or', 'new', 'default', 'with_capacity', 'push', 'extend', 'is_empty', 'is_some', 'is_none', 'rev', 'enumerate', 'zip', 'chain'}

def f11(src, st):
    """per module: how many branching constructs / comparisons and which integer literals (how often) the non-test source holds.
    A needle (`if n == 4096 {..}`) that no stream will ever hit still adds a branch, a comparison or a literal.  String and character
    literals are listed too (`str:` / `chr:` items): they are not part of any tie, they guide the search (vlib/magic.py)."""
    out = []
    for mod in MODS:
        raw = src[mod]
        strs = {}; chrs = {}; code = []
        i = 0; n = len(raw)
        while i < n:                            # one pass: character literals before strings ('"' is not the start of a string)
            c = raw[i]
            if c == '"':
                j = i + 1
                while j < n and raw[j] != '"':
                    if raw[j] == '\\': j += 1
                    j += 1
                t = raw[i + 1:j]
                if t: strs[t] = strs.get(t, 0) + 1
                code.append('""'); i = j + 1
            elif c == "'" and i + 2 < n and (raw[i + 2] == "'" or (raw[i + 1] == '\\' and i + 3 < n and raw[i + 3] == "'")) and not (i > 0 and (raw[i - 1].isalnum() or raw[i - 1] == '_')):
                j = i + (3 if raw[i + 2] == "'" else 4)
                t = raw[i + 1:j - 1]; chrs[t] = chrs.get(t, 0) + 1
                code.append("' '"); i = j
            else:
                code.append(c); i += 1
        s = ''.join(code)
        for name, rx in BUDGET_OPS:
            n = len(re.findall(rx, s))
            if n: out.append((mod, name, n))
        if mod != 'iana':                       # the registry tables are facts of their own (F1), row by row
            lits = {}
            for m in re.finditer(r'(?<![\w.])(0x[0-9a-fA-F_]+|0b[01_]+|0o[0-7_]+|\d[\d_]*)(?:[iu](?:8|16|32|64|128|size))?(?![\w.])', s):
                t = m.group(1).replace('_', '')
                try: v = int(t, 0)
                except ValueError: continue
                lits[v] = lits.get(v, 0) + 1
            for k in sorted(lits): out.append((mod, ('lit:%d' if k >= 10 else 'sml:%d') % k, lits[k]))      # one-digit literals: full budget only
            for k in sorted(strs): out.append((mod, 'str:' + k, strs[k]))
            for k in sorted(chrs): out.append((mod, 'chr:' + k, chrs[k]))
    # external API surface: names of functions / methods the module calls that the crate does not define itself (presence, not count),
    # minus the structure-preserving iterator / Option / Result plumbing that rewrites add freely.  `truncate`, `take`,
    # `make_ascii_lowercase`, `encode_utf16`, `parse`, `sort_unstable_by_key`, `from_reader_with_recursion_limit` … are how a change of
    # meaning looks when it adds no branch, comparison or literal (informed-adversary round, DESIGN.md §13).
    defs = set()
    for mod in MODS: defs |= set(re.findall(r'\bfn\s+(\w+)', src[mod]))
    for mod in MODS:
        s = re.sub(r'"(?:[^"\\\\]|\\\\.)*"', '""', src[mod])
        names = set(m for m in re.findall(r'(?:\.|::)\s*([a-z_][a-z0-9_]*)\s*(?:::<[^>]*>)?\(', s) if m not in defs and m not in PLUMBING)
        for k in sorted(names): out.append((mod, 'call:' + k, 1))
    st['F11'] = 'ok'
    return out

# ---------------------------------------------------------------- F9 / F10
def f9(src, st):
    """impls of (Tagged)CborSerializable: body must be empty / TAG only; default method bodies normalised."""
    impls = []
    for mod in MODS:
        s = src[mod]
        for m in re.finditer(r'impl\s*(<[^>]*>)?\s*(?:crate::)?(CborSerializable|TaggedCborSerializable)\s+for\s+([\w<>:, ]+?)\s*\{', s):
            e = block(s, m.end() - 1)
            body = norm(s[m.end():e - 1])
            body = re.sub(r'const TAG : u64 = iana :: CborTag :: \w+ as u64 ;', 'TAG', body)
            impls.append((mod, m.group(2), re.sub(r'\s+', '', m.group(3)), body))
    s = src['common']
    defaults = []
    for tr in ('CborSerializable', 'TaggedCborSerializable'):
        m = re.search(r'pub\s+trait\s+' + tr + r'\s*:\s*AsCborValue\s*\{', s)
        if not m: st['F9'] = 'degraded'; continue
        tb = s[m.end() - 1:block(s, m.end() - 1)]
        for q, body in fn_spans(tb):
            defaults.append((tr + '::' + q, norm(body)))
    m = re.search(r'fn\s+read_to_value\s*\(', s)
    if m:
        defaults.append(('read_to_value', norm(fn_body(s, 'read_to_value'))))
    st.setdefault('F9', 'ok')
    return sorted(impls), defaults

def f10(src, st):
    uses = []; macros = []; guards = []
    s = src['util']
    for m in re.finditer(r'macro_rules!\s*(builder\w*)\s*\{', s):
        macros.append((m.group(1), norm(s[m.end() - 1:block(s, m.end() - 1)])))
    for mod in MODS:
        t = src[mod]
        for m in re.finditer(r'impl\s+(\w+Builder)\s*\{', t):
            e = block(t, m.end() - 1); body = t[m.end():e]
            for u in re.finditer(r'(builder\w*)!\s*\{\s*([^}]*)\}', body):
                uses.append((m.group(1), u.group(1), norm(u.group(2))))
            for q, fb in fn_spans(body):
                if 'builder' in q: continue
                guards.append((m.group(1), q, norm(fb)))
    st['F10'] = 'ok' if macros and uses else 'degraded'
    return sorted(uses), macros, sorted(guards)

# ---------------------------------------------------------------- Lean emission
def lstr(x): return '"' + x.replace('\\', '\\\\').replace('"', '\\"') + '"'
def lint(n): return str(n) if n >= 0 else '(%d)' % n
def llist(xs): return '[' + ', '.join(xs) + ']'
def sha(x): return hashlib.sha256(x.encode()).hexdigest()[:16]

def emit(facts):
    os.makedirs(OUT, exist_ok=True)
    regs, priv, macro = facts['F1']
    L = ['/- GENERATED by vlib/extract.py from /repo/src/iana/mod.rs — do not edit. -/', 'namespace Coset.Gen', '']
    for name, rows in regs:
        L.append('def %s : List (String × Int) :=\n  [%s]' % (name, ',\n   '.join('(%s, %s)' % (lstr(a), lint(v)) for a, v in rows)))
        L.append('')
    for name, rows in regs:
        for k, (a, v) in enumerate(rows):
            L.append('def idx_%s_%s : Nat := %d' % (name, a, k))
    L.append('')
    L.append('def registries : List (String × List (String × Int)) :=\n  [%s]' % ',\n   '.join('(%s, %s)' % (lstr(n), n) for n, _ in regs))
    L.append('')
    L.append('/-- (registry, comparison operator of `is_private`, constant) -/')
    L.append('def privateRanges : List (String × String × Int) :=\n  [%s]' % ', '.join('(%s, %s, %s)' % (lstr(a), lstr(b), lint(c)) for a, b, c in priv))
    L.append('')
    for a, b, c in priv:
        L.append('def %s_isPrivate (i : Int) : Bool := decide (i %s %s)' % (a, {'==': '=', '!=': '≠'}.get(b, b), lint(c)))
    L.append('')
    L.append('def ianaMacroHash : String := %s' % lstr(sha(macro)))
    L += ['', 'end Coset.Gen', '']
    write('Iana.lean', '\n'.join(L))

    L = ['/- GENERATED by vlib/extract.py from /repo/src — do not edit. -/', 'import CosetGen.Iana', 'namespace Coset.Gen', '']
    regd = {n: dict(rows) for n, rows in regs}
    L.append('/-! F2: context strings as UTF-8 bytes, one definition per match arm of `text()` -/')
    for e, arms in facts['F2']:
        for v, t in arms:
            L.append('def ctx_%s_%s : List UInt8 := %s' % (e, v, llist([str(b) for b in t.encode()])))
        L.append('def ctxVariants_%s : List String := %s' % (e, llist([lstr(v) for v, _ in arms])))
    L.append('')
    calls, guards = facts['F3']
    L.append('/-- F3: (type, fn, structure function, context argument) -/')
    L.append('def contextRouting : List (String × String × String × String) :=\n  [%s]' % ',\n   '.join('(%s, %s, %s, %s)' % tuple(lstr(x) for x in c) for c in calls))
    L.append('def recipientGuards : List (List String) := %s' % llist([llist([lstr(x) for x in g]) for g in guards]))
    L.append('')
    L.append('/-! F4: `const TAG` of each TaggedCborSerializable impl, resolved through the CborTag table -/')
    for ty, var in facts['F4']:
        val = regd.get('CborTag', {}).get(var)
        if val is not None:
            L.append('def TAG_%s : Nat := %d' % (ty, val))
    L.append('def tagVariants : List (String × String) := %s' % llist(['(%s, %s)' % (lstr(a), lstr(b)) for a, b in facts['F4']]))
    L.append('')
    L.append('/-! F5: label constants resolved through the registries -/')
    for mod, c, reg, var in facts['F5']:
        val = regd.get(reg, {}).get(var)
        if val is not None:
            L.append('def %s_%s : Int := %s' % (mod, c, lint(val)))
            L.append('def %s_%s_idx : Nat := %d' % (mod, c, [a for a, _ in dict(regs)[reg]].index(var)))
    L.append('def labelConsts : List (String × String × String × String) :=\n  [%s]' % ',\n   '.join('(%s, %s, %s, %s)' % tuple(lstr(x) for x in c) for c in facts['F5']))
    L.append('')
    L.append('/-! F6: arity test, positional removes and emitted field order of every array-shaped structure -/')
    ops = {'!=': '!=', '==': '==', '<': '<', '>': '>', '<=': '<=', '>=': '>='}
    for ty, j, conds, rem, order in facts['F6']:
        expr = (' %s ' % (j if j else '&&')).join('(n %s %s)' % (ops[o], n) if o in ('!=', '==') else '(decide (n %s %s))' % (ops[o], n) for o, n in conds) or 'false'
        L.append('/-- the condition under which `%s::from_cbor_value` rejects an array of length `n` -/' % ty)
        L.append('def %s_arityBad (n : Nat) : Bool := %s' % (ty, expr))
        L.append('def %s_removes : List Nat := %s' % (ty, llist([i for i, _ in rem if i.isdigit()])))
        L.append('def %s_removeFields : List (String × String) := %s' % (ty, llist(['(%s, %s)' % (lstr(i), lstr(f or '?')) for i, f in rem])))
        L.append('def %s_emitOrder : List String := %s' % (ty, llist([lstr(x) for x in order])))
    L.append('')
    fields, used = facts['F7']
    mm = re.search(r'const\s+MAX_SIGNATURE_NESTING\s*:\s*usize\s*=\s*(\d+)\s*;', load()['header'])
    if mm: L.append('/-- nesting budget for signatures inside headers -/\ndef MAX_SIGNATURE_NESTING : Nat := %s\n' % mm.group(1))
    L.append('/-! F7 -/')
    L.append('def headerFields : List String := %s' % llist([lstr(x) for x in fields]))
    L.append('def headerIsEmptyTests : List (String × String) := %s' % llist(['(%s, %s)' % (lstr(a), lstr(b)) for a, b in used]))
    L += ['', 'end Coset.Gen', '']
    write('Facts.lean', '\n'.join(L))

    panics, narrows = facts['F8']
    impls, defaults = facts['F9']
    uses, macros, guards = facts['F10']
    L = ['/- GENERATED by vlib/extract.py from /repo/src — do not edit. -/', 'namespace Coset.Gen', '']
    L.append('/-- F8: (module, fn, kind, count) for every syntactic panic site in non-test code -/')
    L.append('def panicSites : List (String × String × String × Nat) :=\n  [%s]' % ',\n   '.join('(%s, %s, %s, %d)' % (lstr(a), lstr(b), lstr(c), d) for a, b, c, d in panics))
    L.append('')
    L.append('/-- F8: integer conversion sites -/')
    L.append('def narrowingSites : List (String × String × String × Nat) :=\n  [%s]' % ',\n   '.join('(%s, %s, %s, %d)' % (lstr(a), lstr(b), lstr(c), d) for a, b, c, d in narrows))
    L.append('')
    L.append('/-- F9: (module, trait, type, normalised body) -/')
    L.append('def serializableImpls : List (String × String × String × String) :=\n  [%s]' % ',\n   '.join('(%s, %s, %s, %s)' % tuple(lstr(x) for x in c) for c in impls))
    L.append('def defaultBodies : List (String × String) :=\n  [%s]' % ',\n   '.join('(%s, %s)' % (lstr(a), lstr(b)) for a, b in defaults))
    L.append('')
    L.append('/-- F10 -/')
    L.append('def builderUses : List (String × String × String) :=\n  [%s]' % ',\n   '.join('(%s, %s, %s)' % tuple(lstr(x) for x in c) for c in uses))
    L.append('def builderMacros : List (String × String) :=\n  [%s]' % ',\n   '.join('(%s, %s)' % (lstr(a), lstr(b)) for a, b in macros))
    L.append('def builderMethods : List (String × String × String) :=\n  [%s]' % ',\n   '.join('(%s, %s, %s)' % tuple(lstr(x) for x in c) for c in guards))
    L.append('')
    L.append('/-- F11: decision budget — (module, construct or integer literal, occurrences) in non-test code -/')
    L.append('def decisionBudget : List (String × String × Nat) :=\n  [%s]' % ',\n   '.join('(%s, %s, %d)' % (lstr(a), lstr(b), c) for a, b, c in facts['F11']))
    L += ['', 'end Coset.Gen', '']
    write('Inventory.lean', '\n'.join(L))

PINNED = os.path.join(os.path.dirname(os.path.abspath(__file__)), '..', 'pinned', 'CosetGen')
DEGRADED = {}

def def_blocks(text):
    """{name: block text} for every top-level `def` of a generated file (a block = the def line and its continuation lines)"""
    out = {}; cur = None; buf = []
    for line in text.split('\n'):
        m = re.match(r'def\s+([\w\.]+)', line)
        if m:
            if cur: out[cur] = '\n'.join(buf)
            cur = m.group(1); buf = [line]
        elif cur and (line.startswith(' ') or line.startswith('\t')) and line.strip():
            buf.append(line)
        else:
            if cur: out[cur] = '\n'.join(buf)
            cur = None; buf = []
    if cur: out[cur] = '\n'.join(buf)
    return out

def fill_from_pinned(name, text):
    """a fact whose syntactic pattern was not found in the source (a refactor) is taken from the facts of the unchanged tree, so that the
    model still builds and the correspondence decides; found-but-different facts are never touched."""
    try: pinned = open(os.path.join(PINNED, name)).read()
    except FileNotFoundError: return text
    have = def_blocks(text); want = def_blocks(pinned)
    missing = [n for n in want if n not in have]
    if not missing: return text
    DEGRADED[name] = missing
    add = ['', '/-! pattern not found in the current source: pinned facts (of the unchanged tree) used for the following definitions -/'] + [want[n] for n in missing]
    marker = '\nend Coset.Gen'
    i = text.rfind(marker)
    return text[:i] + '\n' + '\n'.join(add) + '\n' + text[i:]

def write(name, text):
    text = fill_from_pinned(name, text)
    p = os.path.join(OUT, name)
    try:
        if open(p).read() == text: return
    except FileNotFoundError:
        pass
    with open(p, 'w') as f: f.write(text)

def run():
    st = {}
    src = load()
    facts = {'F1': f1(src, st), 'F2': f2(src, st), 'F3': f3(src, st), 'F4': f4(src, st), 'F5': f5(src, st),
             'F6': f6(src, st), 'F7': f7(src, st), 'F8': f8(src, st), 'F9': f9(src, st), 'F10': f10(src, st), 'F11': f11(src, st)}
    DEGRADED.clear()
    emit(facts)
    for f, names in DEGRADED.items(): st['pinned-fallback:' + f] = names
    return st, facts

if __name__ == '__main__':
    st, facts = run()
    print(json.dumps(st))
    if '-v' in sys.argv:
        print(json.dumps({k: v for k, v in facts.items() if k not in ('F1',)}, indent=1, default=str)[:20000])
