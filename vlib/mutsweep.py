#!/usr/bin/env python3
"""mutsweep.py [--workers N] [--limit K] [--files a.rs,b.rs] — mechanical mutation sweep over /repo/src (development aid, DESIGN.md §12).

For every syntactic mutant (relational / boolean operator flips, integer literal ±1, `true`/`false`, dropped `!`, dropped
statement, `is_empty` negation, swapped `remove` indices) of the non-test source:
  1. apply it to a private copy of the repository; keep it only if the crate still builds and its unit tests still pass
     (a change the existing suite does not notice);
  2. run the property checks of a private copy of /verif against it, cheapest first, until one reports a violation;
  3. record (mutant, caught-by | SURVIVED).
Survivors are either equivalent mutants or gaps in the streams; they are listed for inspection.  Nothing here touches /repo or
/verif's build directories, and nothing here is a registered check."""
import sys, os, re, subprocess, json, shutil, time, argparse, hashlib
from concurrent.futures import ThreadPoolExecutor
VERIF = os.path.dirname(os.path.dirname(os.path.abspath(__file__)))
ROOT = os.environ.get('MUTSWEEP_DIR', '/tmp/mutsweep')
SET = 1
ORDER = ['C17', 'C16', 'C15', 'C20', 'C10', 'C08', 'C09', 'C12', 'C13', 'C18', 'C19', 'C02', 'C05', 'C03', 'C04', 'C14', 'C07', 'C11', 'C06', 'C01']

def sh(c, cwd=None, env=None, timeout=1800):
    p = subprocess.run(c, shell=True, cwd=cwd, env=env, stdout=subprocess.PIPE, stderr=subprocess.STDOUT, timeout=timeout)
    return p.returncode, p.stdout.decode('utf-8', 'replace')

def strip_for_scan(line):
    """blank out string literals and trailing comments so operators inside them are not mutated"""
    out = []; i = 0; n = len(line); ins = False
    while i < n:
        c = line[i]
        if ins:
            if c == '\\': out.append('  '); i += 2; continue
            if c == '"': ins = False
            out.append(' ' if c != '"' else '"'); i += 1; continue
        if c == '"': ins = True; out.append('"'); i += 1; continue
        if line.startswith('//', i): out.append(' ' * (n - i)); break
        out.append(c); i += 1
    return ''.join(out)

RULES = [
    (re.compile(r'(?<![<>=!\-])<=(?!=)'), '<'), (re.compile(r'(?<![<>=!\-&])>=(?!=)'), '>'),
    (re.compile(r' < (?![<=])'), ' <= '), (re.compile(r' > (?![>=])'), ' >= '),
    (re.compile(r'=='), '!='), (re.compile(r'!='), '=='),
    (re.compile(r'&&'), '||'), (re.compile(r'\|\|'), '&&'),
    (re.compile(r'\btrue\b'), 'false'), (re.compile(r'\bfalse\b'), 'true'),
    (re.compile(r'!(?=[a-zA-Z_(])(?![a-z_]*!?\()'), ''),             # drop a negation (not macro bang)
    (re.compile(r'\.is_empty\(\)'), '.len() == 1'),
    (re.compile(r'\.is_none\(\)'), '.is_some()'), (re.compile(r'\.is_some\(\)'), '.is_none()'),
]
# second operator set (--set 2): range ends, orderings, forced branches, end-of-sequence accessors, iteration order
RULES2 = [
    (re.compile(r'\.\.='), '..'), (re.compile(r'(?<![.=])\.\.(?![.=])(?=\s*[\w(-])'), '..='),
    (re.compile(r'Ordering::Less'), 'Ordering::Greater'), (re.compile(r'Ordering::Greater'), 'Ordering::Less'),
    (re.compile(r'Ordering::Equal'), 'Ordering::Less'),
    (re.compile(r'\bif (?!let\b)([^{]+?) \{'), 'if true {'), (re.compile(r'\bif (?!let\b)([^{]+?) \{'), 'if false {'),
    (re.compile(r'\.first\(\)'), '.last()'), (re.compile(r'\.last\(\)'), '.first()'),
    (re.compile(r'\.min\('), '.max('), (re.compile(r'\.max\('), '.min('),
    (re.compile(r'\.into_iter\(\)(?!\s*\.rev)'), '.into_iter().rev()'), (re.compile(r'\.iter\(\)(?!\s*\.rev)'), '.iter().rev()'),
    (re.compile(r'\.rev\(\)'), ''),
    (re.compile(r'\bSome\(([a-z_]+)\) =>'), 'Some(_) if false =>'),
    (re.compile(r'\.then_with\('), '.then('), (re.compile(r'\.insert\(0, '), '.push('),
    (re.compile(r'\.trim\(\)'), ''), (re.compile(r'\.to_vec\(\)\?'), '.to_vec().unwrap_or_default()'),
]
INT = re.compile(r'(?<![\w.])(-?\d+)(?![\w.])')

def mutants_of(path, rel):
    src = open(path).read().split('\n')
    out = []
    skip = set()
    ln = 0
    while ln < len(src):
        if src[ln].strip().startswith('#[cfg(test)]'):
            j = ln + 1
            while j < len(src) and src[j].strip().startswith('#['): j += 1
            if j < len(src) and src[j].rstrip().endswith(';') and '{' not in src[j]:
                skip.update(range(ln, j + 1)); ln = j + 1; continue
            depth = 0; started = False
            while j < len(src):
                depth += src[j].count('{') - src[j].count('}')
                if '{' in src[j]: started = True
                skip.add(j)
                if started and depth <= 0: break
                j += 1
            skip.update(range(ln, j + 1)); ln = j + 1; continue
        ln += 1
    for ln, line in enumerate(src):
        s = line.strip()
        if ln in skip: continue
        if not s or s.startswith('//') or s.startswith('#[') or s.startswith('use ') or s.startswith('pub use') or s.startswith('mod ') or s.startswith('pub mod'): continue
        scan = strip_for_scan(line)
        for rx, rep in (RULES2 if SET == 2 else RULES):
            for m in rx.finditer(scan):
                new = line[:m.start()] + rep + line[m.end():]
                if new != line: out.append((rel, ln, line, new, '%s→%s' % (m.group(0).strip(), rep.strip() or '∅')))
        if SET == 2: continue
        for m in INT.finditer(scan):
            v = int(m.group(1))
            if abs(v) > 70000: continue
            for nv in (v + 1, v - 1):
                if nv < 0 and v >= 0 and scan[max(0, m.start() - 8):m.start()].find('remove(') >= 0: continue
                new = line[:m.start()] + str(nv) + line[m.end():]
                out.append((rel, ln, line, new, '%d→%d' % (v, nv)))
        # dropped statement: a line that is a complete call statement / return of an error / assignment
        if s.endswith(';') and not s.startswith('let ') and not s.startswith('}') and ('(' in s) and not s.startswith('pub ') and not s.startswith('const ') and not s.startswith('type '):
            out.append((rel, ln, line, line[:len(line) - len(line.lstrip())] + '/* dropped */', 'drop-stmt'))
    return out

def all_mutants(files=None):
    res = []
    for root, _, fs in os.walk('/repo/src'):
        for f in fs:
            if not f.endswith('.rs') or f == 'tests.rs': continue
            p = os.path.join(root, f); rel = os.path.relpath(p, '/repo')
            if files and not any(rel.endswith(x) for x in files): continue
            res += mutants_of(p, rel)
    # de-duplicate
    seen = set(); out = []
    for m in res:
        k = (m[0], m[1], m[3])
        if k not in seen: seen.add(k); out.append(m)
    return out

def setup_worker(k):
    w = os.path.join(ROOT, 'w%d' % k)
    os.makedirs(w, exist_ok=True)
    sh('rsync -a --delete --exclude .git --exclude replays --exclude seeded --exclude design-probes /verif/ %s/verif/' % w)
    if not os.path.isdir(w + '/repo/.git'): sh('git clone -q /repo %s/repo' % w)
    sh('git checkout -q -- . && git fetch -q /repo HEAD && git checkout -q --detach FETCH_HEAD', cwd=w + '/repo')
    sh("sed -i 's#path = \"/repo\"#path = \"%s/repo\"#' %s/verif/harness/Cargo.toml" % (w, w))
    sh("sed -i 's#/verif/.cache#%s/verif/.cache#' %s/verif/harness/.cargo/config.toml" % (w, w))
    return w

def run_mutant(w, mut):
    rel, ln, old, new, kind = mut
    path = os.path.join(w, 'repo', rel)
    src = open(path).read().split('\n')
    assert src[ln] == old, (rel, ln)
    src[ln] = new
    open(path, 'w').write('\n'.join(src))
    res = dict(file=rel, line=ln + 1, kind=kind, old=old.strip(), new=new.strip())
    try:
        env = dict(os.environ, CARGO_NET_OFFLINE='true', CARGO_TARGET_DIR=w + '/repo-target')
        rc, out = sh('cargo test --offline --lib 2>&1 | tail -5', cwd=w + '/repo', env=env, timeout=600)
        m = re.search(r'test result: (\w+)\. (\d+) passed; (\d+) failed', out)
        if not m: res['status'] = 'no-compile'; return res
        if m.group(1) != 'ok': res['status'] = 'killed-by-suite'; return res
        res['status'] = 'survived'
        env2 = dict(os.environ, VERIF_REPO=w + '/repo')
        for c in ORDER:
            rc, out = sh('python3 check.py %s 2>&1 | tail -3' % c, cwd=w + '/verif', env=env2, timeout=1800)
            if 'VIOLATION' in out or rc != 0:
                res['status'] = 'caught'; res['by'] = c
                res['how'] = 'no-failing-input-found' if 'no-failing-input-found' in out else 'failing-input'
                break
        return res
    finally:
        sh('git checkout -q -- .', cwd=w + '/repo')

def main():
    ap = argparse.ArgumentParser()
    ap.add_argument('--workers', type=int, default=6); ap.add_argument('--limit', type=int, default=0)
    ap.add_argument('--files', default=''); ap.add_argument('--stride', type=int, default=1); ap.add_argument('--offset', type=int, default=0)
    ap.add_argument('--out', default=os.path.join(ROOT, 'results.jsonl')); ap.add_argument('--set', type=int, default=1)
    a = ap.parse_args()
    global SET; SET = a.set
    muts = all_mutants([x for x in a.files.split(',') if x] or None)
    muts = muts[a.offset::a.stride]
    if a.limit: muts = muts[:a.limit]
    print('mutants:', len(muts), flush=True)
    os.makedirs(ROOT, exist_ok=True)
    workers = [setup_worker(k) for k in range(a.workers)]
    import queue
    q = queue.Queue()
    for w in workers: q.put(w)
    done = 0; t0 = time.time()
    outf = open(a.out, 'a')
    def job(m):
        w = q.get()
        try:
            r = run_mutant(w, m)
        except Exception as e:
            r = dict(file=m[0], line=m[1] + 1, kind=m[4], status='error', err=str(e)[:200])
            sh('git checkout -q -- .', cwd=w + '/repo')
        finally:
            q.put(w)
        return r
    with ThreadPoolExecutor(max_workers=a.workers) as ex:
        for r in ex.map(job, muts):
            done += 1
            outf.write(json.dumps(r) + '\n'); outf.flush()
            print('%d/%d %.0fs %s:%s %s %s %s' % (done, len(muts), time.time() - t0, r['file'], r['line'], r['kind'], r['status'], r.get('by', '')), flush=True)
    # summary
    rs = [json.loads(l) for l in open(a.out)]
    from collections import Counter
    print(Counter(r['status'] for r in rs))
    for r in rs:
        if r['status'] == 'survived': print('SURVIVED', r['file'], r['line'], r['kind'], '|', r['old'], '=>', r['new'])

if __name__ == '__main__':
    main()
