#!/bin/sh
# usage: trymut.sh <patch> <Cxx>...   apply a patch to /repo, run the named checks, undo.
P="$1"; shift
cd /repo && git apply "$P" || exit 2
for c in "$@"; do (cd /verif && python3 check.py $c 2>&1 | grep -E "VIOLATION|KNOWN|ok:|FAIL" | cut -c1-220); done
cd /repo && git checkout -- . && git status --short | head -3
