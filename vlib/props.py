"""Per-property operation streams, judges, evidence writer (used by check.py)."""
import os, sys, json, re, random, time
sys.path.insert(0, os.path.dirname(os.path.abspath(__file__)))
import run as R
import tgen, refcbor, forms
from forms import vsx, parse, render, canon_nan

VERIF = R.VERIF
PROPS = {}

def prop_modules(pid):
    """the Lean modules that carry a property's obligations: Props/Cxx.lean and, where the property rests on textual facts of the
    source, Props/CxxTies.lean (a module of its own so that a changed fact breaks only the properties that own it)."""
    mods = ['CosetProofs.Props.%s' % pid]
    if os.path.exists(os.path.join(R.LEAN, 'CosetProofs', 'Props', pid + 'Ties.lean')): mods.append('CosetProofs.Props.%sTies' % pid)
    # Props/CxxEmit.lean: theorems of the property that need lemmas built on top of Props/Cxx.lean (a module of its own to avoid an import cycle)
    if os.path.exists(os.path.join(R.LEAN, 'CosetProofs', 'Props', pid + 'Emit.lean')): mods.append('CosetProofs.Props.%sEmit' % pid)
    return mods

def declared_theorems(pid):
    """theorem names a property's modules promise (their `#print axioms` lines)."""
    out = []
    for mod in prop_modules(pid):
        p = os.path.join(R.LEAN, *mod.split('.')) + '.lean'
        try: s = open(p).read()
        except FileNotFoundError: continue
        ns = re.findall(r'^namespace\s+([\w.]+)', s, re.M)
        prefix = (ns[0] + '.') if ns else ''
        for m in re.finditer(r'^#print axioms\s+([\w.\']+)', s, re.M):
            n = m.group(1)
            out.append(n if n.startswith('Coset.') else prefix + n)
    return out

class Prop:
    pid = None
    title = ''
    # True: the property fixes the output the model computes (an iff / exact-bytes / exact-value property), so an implementation that
    # differs from the proved model on the projection fails the property on that input.  False: the property is a predicate on the
    # implementation's own behaviour (never panics, bytes retained, fixed point, ...): a difference from the model breaks the
    # correspondence (the theorems no longer speak about this code) but is not by itself a failing input.
    model_is_spec = True
    def gen(self, seed, tier): return []
    def projection(self, o, line):
        """what of an output line this property compares (default: the whole line, NaNs canonicalised)"""
        return canon_nan(line) if line is not None else None
    def impl_pred(self, o, impl):
        """implementation-level predicate: return a reason string if the property fails on the implementation's own output"""
        return None
    def judge(self, o, impl, model):
        if impl == 'abort': return ('fail', 'implementation process died (abort / stack overflow)')
        if impl == 'timeout': return ('fail', 'implementation did not finish within the time limit (hang / time not proportional to the input)')
        if impl == 'bad-clone': return ('fail', 'a copy of the decoded value made by clone / clone_from differs from it, or != is not the negation of ==')
        why = self.impl_pred(o, impl)
        if why: return ('fail', why)
        if model is None: return None
        if self.projection(o, impl) != self.projection(o, model):
            return ('fail' if self.model_is_spec else 'drift', 'implementation and proved model differ')
        return None
    def classify(self, o, impl):
        k = o.get('meta', {}).get('k', o['op'].split(' ')[0])
        return '%s:%s' % (k, ' '.join(impl.split(' ')[:2]) if impl.startswith('err') else impl.split(' ')[0])
    def nontrivial(self, o, impl):
        return not (impl.startswith('err Decode') or impl in ('bad-op', 'skip'))

def register(cls):
    PROPS[cls.pid] = cls()
    return cls

def mk(op, **meta): return dict(op=op, meta=meta)

def match_known(pid, case, kf):
    for f in kf:
        pred = KNOWN_PRED.get(f.get('class'))
        if pred and pred(case, f): return f
    return None

def witness_fails(pid, f, w, impl):
    pred = WITNESS_PRED.get(f.get('class'))
    return bool(pred and pred(w, impl, f))

KNOWN_PRED = {}
WITNESS_PRED = {}

def shrink_cases(prop, cases, use_pinned):
    """delta-debug the hex argument of byte-level ops (drop bytes while the judge still fails)."""
    out = []
    for c in cases[:3]:
        items = c['op'].split(' ')
        if str(c.get('meta', {}).get('k', '')).startswith('magic:'): out.append(c); continue      # built around a literal: kept as it is
        if len(items) == 3 and items[2].startswith('b') and len(items[2]) > 9 and not c.get('meta', {}).get('gen'):
            try: best = bytes.fromhex(items[2][1:])
            except ValueError: out.append(c); continue
            budget = 60
            changed = True
            while changed and budget > 0:
                changed = False
                n = len(best)
                step = max(1, n // 4)
                i = 0
                while i < n and budget > 0:
                    cand = best[:i] + best[i + step:]
                    budget -= 1
                    op = '%s %s b%s' % (items[0], items[1], cand.hex())
                    a, _ = R.run_impl([op])
                    try: b, _ = R.run_model([op], pinned=use_pinned)
                    except Exception: b = [None]
                    o = dict(op=op, meta=c.get('meta', {}))
                    v = prop.judge(o, a[0], b[0])
                    if v and v[0] == 'fail' and a[0] not in ('bad-op',):
                        best = cand; changed = True; n = len(best)
                        c = dict(op=op, meta=c.get('meta', {}), impl=a[0], model=b[0], why=v[1])
                    else: i += step
            out.append(dict(c, shrunk=True))
    return out

def write_evidence(pid, tier, seed, pr, tstat, ops, impl, wall, nviol, stats=None, nontrivial=0, notes=None, **extra):
    os.makedirs(os.path.join(VERIF, 'evidence'), exist_ok=True)
    samples = []
    step = max(1, len(ops) // 6)
    for i in range(0, len(ops), step):
        samples.append(dict(op=ops[i]['op'][:400], impl=(impl[i][:300] if i < len(impl) and impl[i] else None)))
    samples = samples[:8] + [dict(theorem=t, axioms=a) for t, a in list(pr['theorems'].items())[:40]]
    cov = dict(
        obligations=max(1, pr['obligations']), discharged=pr['discharged'],
        checker_cmd='cd /verif/lean && lake build %s  (#print axioms audited; thorough: clean rebuild + lake env leanchecker)' % ' '.join(prop_modules(pid)),
        trusted_base=['Lean 4.33.0 kernel', 'axioms ⊆ {propext, Classical.choice, Quot.sound}', 'vlib/extract.py (facts regenerated from /repo/src each run)',
                      'correspondence harness (Rust, in-process over /repo working tree) + Lean driver + generators',
                      'hand-written model of ciborium 0.2.2 and of Rust std collections (DESIGN.md §6)'],
        evaluations=max(1, len(ops)), distinct_nontrivial=max(2, nontrivial) if len(ops) else 2,
        rule='operations from vlib/props.py stream for %s (seeded PRNG); non-trivial = distinct operations that got past CBOR syntax into coset logic (not `err Decode`, not bad-op)' % pid,
        samples=samples or [dict(note='no operations')],
        traces_validated_against_impl=len(ops), disagreements_checked=extra.get('failures', 0) + extra.get('drift', 0),
        theorems={t: a for t, a in pr['theorems'].items()}, broken_obligations=pr['broken'], translator=tstat,
        outcome_histogram=stats or {}, notes=notes or [], known_findings=extra.get('known', []),
        oracle='pinned model' if extra.get('use_pinned') else 'model over regenerated facts',
        lake_wall_s=pr['wall'], impl_wall_s=extra.get('t_impl'), model_wall_s=extra.get('t_model'))
    if 'leanchecker' in pr: cov['leanchecker'] = pr['leanchecker']
    ev = dict(property_id=pid, tier=tier, seed=seed, level='proof', coverage=cov,
              assumptions=['model = code is established by regenerated facts (T) and differential execution (K), not by proof',
                           'ciborium, alloc::collections and str::trim are modelled, see DESIGN.md §6'],
              wall_s=round(wall, 2), violations=nviol)
    json.dump(ev, open(os.path.join(VERIF, 'evidence', pid + '.json'), 'w'), indent=1, default=str)

# ------------------------------------------------------------------ helpers for streams
def mutate(r, b):
    m = r.random()
    if not b: return b
    if m < 0.4:
        b = bytearray(b); b[r.randrange(len(b))] ^= 1 << r.randrange(8); return bytes(b)
    if m < 0.6: return b[:r.randrange(len(b) + 1)]
    if m < 0.8: return b + bytes([r.randrange(256)])
    i = r.randrange(len(b)); return b[:i] + b[i + 1:]

def budget(tier, quick, thorough): return thorough if tier == 'thorough' else quick

from props_streams import *   # noqa  (registers the 20 properties)
