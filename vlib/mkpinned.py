#!/usr/bin/env python3
"""Regenerate lean/CosetRef/PinnedFacts.lean from pinned/CosetGen (the facts of the unchanged tree) under namespace Coset.Pinned.
Run by hand when pinned/ is refreshed after a fix: commit; never at check time."""
import os, re
V = os.path.dirname(os.path.dirname(os.path.abspath(__file__)))
out = ['/- PINNED facts of the unchanged tree (copied from pinned/CosetGen by vlib/mkpinned.py): the reference the regenerated',
       '   inventories (CosetGen, rewritten from /repo/src on every run) are compared with in CosetProofs/Ties.lean. -/',
       'namespace Coset.Pinned', '']
for f in ('Facts.lean', 'Inventory.lean'):
    s = open(os.path.join(V, 'pinned', 'CosetGen', f)).read()
    s = re.sub(r'^import .*\n', '', s, flags=re.M)
    s = s.replace('namespace Coset.Gen', '').replace('end Coset.Gen', '')
    s = re.sub(r'/- GENERATED[^\n]*-/\n', '', s)
    out.append(s.strip()); out.append('')
import re as _re
m = _re.search(r'^def ianaMacroHash.*$', open(os.path.join(V, 'pinned', 'CosetGen', 'Iana.lean')).read(), _re.M)
if m: out += [m.group(0), '']
out += ['end Coset.Pinned', '']
open(os.path.join(V, 'lean', 'CosetRef', 'PinnedFacts.lean'), 'w').write('\n'.join(out))
print('written')
