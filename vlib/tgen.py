"""Generators: wire values (Python tuples, through cosegen.G) and in-memory typed values as S-expression text (FORMS.md)."""
import random, os, sys
sys.path.insert(0, os.path.dirname(os.path.abspath(__file__)))
import cosegen, refcbor, extract
from forms import vsx

_FACTS = None
def facts():
    global _FACTS
    if _FACTS is None:
        _FACTS = extract.run()[1]
    return _FACTS

def registry(name):
    regs, priv, _ = facts()['F1']
    return dict(regs)[name]

def reg_values(name): return [v for _, v in registry(name)]

BLEN = [0, 1, 2, 23, 24, 255, 256]
INTS = [0, 1, 2, 3, 4, 5, 6, 7, 8, 9, 10, 23, 24, 25, 255, 256, 257, 65535, 65536, 2**32 - 1, 2**32, 2**63 - 2, 2**63 - 1, 127, 128, 32767, 32768, 2**31 - 1, 2**31, 2**24, 2**53, -128, -129, -32768, -32769, -2**31, -2**31 - 1,
        -1, -2, -24, -25, -256, -257, -65535, -65536, -65537, -65538, -2**32, -2**32 - 1, -2**63 + 1, -2**63]
WIDE = [2**63, 2**63 + 1, 2**64 - 2, 2**64 - 1, -2**63 - 1, -2**63 - 2, -2**64 + 1, -2**64]
TEXTS = [b'', b'a', b'b', b'aa', b'ab', b'a/b', b'text/plain', b' a/b', b'a/b ', b'a/b/c', 'é/x'.encode(), b'x' * 23, b'x' * 24, 'a '.encode(), ' a/b'.encode(),
         # alphabets (informed-adversary round, DESIGN.md §13): upper case and mixed case, digits only (a text that reads as a number is
         # still a text), signs, multi-byte characters around the slash, and two texts of equal UTF-8 length whose UTF-16 order differs
         # from their byte order (U+FF21 + '1' vs U+1F600)
         b'Application/EDI-X12', b'TEXT/Plain', b'A/B', b'1', b'2', b'4', b'60', b'-7', b'+1', b'007', b'0', '\u20ac/b'.encode(), '\u00e9\u00e9/b'.encode(), 'a/\u20ac'.encode(),
         '\uff211'.encode(), '\U0001f600'.encode(), '\u00e9/\u00e9/\u00e9'.encode(), b'Zz', b'zZ']
# look-alikes of the solidus and of white space inside an otherwise ordinary content type, a back-slash, padded forms (a built header may
# hold any text; informed round 10: the separator count extended to U+2215, trimming at encode time)
TEXTS += ['a/b\u2215c'.encode(), 'a\u2215b'.encode(), 'a\u2044b/c'.encode(), 'a\uff0fb'.encode(), b'a\\b/c', b'text/plain ', b'\ttext/plain', 'a/b\u3000'.encode(), b'a/b;q=1', b'/', b'a/', b'/b']

class T(cosegen.G):
    """typed in-memory values as text forms"""
    def __init__(self, seed, orig_p=0.35, **kw):
        super().__init__(seed, **kw)
        self.orig_p = orig_p

    def bs(self, nonempty=False, big=False):
        n = self.r.choice([1, 1, 2, 3, 8] if nonempty else [0, 0, 1, 2, 3, 8])
        if big and self.r.random() < 0.15: n = self.r.choice([23, 24, 255, 256, 300])
        return bytes(self.r.randrange(256) for _ in range(n))
    def b(self, **kw): return 'b' + self.bs(**kw).hex()
    def ob(self, **kw): return '-' if self.r.random() < 0.3 else self.b(**kw)
    def txt(self): return self.r.choice(TEXTS)
    def i64(self): return self.r.choice(INTS) if self.r.random() < 0.8 else self.r.randrange(-2**63, 2**63)
    def lab(self):
        return 'i%d' % self.i64() if self.r.random() < 0.75 else 't' + self.txt().hex()
    def labx(self, avoid=()):   # extra label not in `avoid`
        while True:
            l = self.lab()
            if l not in avoid: return l
    def val(self, d=0):
        v = self.value(d)
        while 'raw' in repr(v): v = self.value(d)
        return vsx(v)
    def rl(self, reg, invalid=False):
        if self.r.random() < 0.2: return 'X' + self.txt().hex()
        return 'A%d' % self.r.choice(reg_values(reg))
    def rlp(self, reg, wild=False):
        x = self.r.random()
        if x < 0.15: return 'X' + self.txt().hex()
        if x < 0.3: return 'P%d' % self.r.choice([-65537, -65538, -70000, -2**63] + ([-65536, -7, 0, 5] if wild else []))
        return 'A%d' % self.r.choice(reg_values(reg))
    def hdr(self, d=0, wild=False, empty_p=0.25):
        r = self.r
        if r.random() < empty_p: return '(hdr - (crit) - b b b (cs) (rest))'
        alg = self.rlp('Algorithm', wild) if r.random() < 0.5 else '-'
        crit = [self.rl('HeaderParameter') for _ in range(r.choice([0, 0, 0, 1, 2]))]
        ct = '-' if r.random() < 0.6 else (('X' + r.choice([b'a/b', b'text/plain', b'Application/EDI-X12', b'TEXT/Plain', 'A/\u00c9'.encode()] + (TEXTS if wild else [])).hex()) if r.random() < 0.5 else 'A%d' % r.choice(reg_values('CoapContentFormat')))
        kid = self.b(nonempty=True) if r.random() < 0.4 else 'b'
        iv = piv = 'b'
        x = r.random()
        if x < 0.2: iv = self.b(nonempty=True)
        elif x < 0.4: piv = self.b(nonempty=True)
        elif wild and x < 0.45: iv = self.b(nonempty=True); piv = self.b(nonempty=True)
        cs = [self.sig(d + 1, wild) for _ in range(r.choice([0, 0, 0, 1, 1, 2, 3]))] if d < 2 else []
        rest = []
        used = set()
        for _ in range(r.choice([0, 0, 1, 2, 3])):
            l = self.lab()
            if not wild:
                if l in used or l in ('i1', 'i2', 'i3', 'i4', 'i5', 'i6', 'i7'): continue
            used.add(l)
            rest += [l, self.val(2)]
        return '(hdr %s (crit%s) %s %s %s %s (cs%s) (rest%s))' % (alg, ''.join(' ' + c for c in crit), ct, kid, iv, piv,
                                                                   ''.join(' ' + s for s in cs), ''.join(' ' + x for x in rest))
    def ph(self, d=0, wild=False, orig_p=None):
        r = self.r
        if r.random() < (self.orig_p if orig_p is None else orig_p):
            # decoded-from-wire flavour: stored bytes with the header they parse to is not required for encode-side ops
            x = r.random()
            if x < 0.3: return '(ph b %s)' % '(hdr - (crit) - b b b (cs) (rest))'
            wire = self.venc(self.header(d + 1))
            return '(ph b%s %s)' % (wire.hex(), self.hdr(d, wild))
        return '(ph - %s)' % self.hdr(d, wild)
    def sig(self, d=0, wild=False): return '(sig %s %s %s)' % (self.ph(d, wild), self.hdr(d, wild), self.b())
    def sign1(self, wild=False): return '(sign1 %s %s %s %s)' % (self.ph(0, wild), self.hdr(0, wild), self.ob(big=True), self.b())
    def sign(self, wild=False, nsig=None):
        n = self.r.choice([0, 1, 2, 3]) if nsig is None else nsig
        return '(sign %s %s %s (sigs%s))' % (self.ph(0, wild), self.hdr(0, wild), self.ob(big=True), ''.join(' ' + self.sig(1, wild) for _ in range(n)))
    def rcp(self, d=0, wild=False):
        n = self.r.choice([0, 0, 1, 2]) if d < 2 else 0
        return '(rcp %s %s %s (rcps%s))' % (self.ph(d, wild), self.hdr(d, wild), self.ob(), ''.join(' ' + self.rcp(d + 1, wild) for _ in range(n)))
    def enc(self, wild=False):
        return '(enc %s %s %s (rcps%s))' % (self.ph(0, wild), self.hdr(0, wild), self.ob(big=True), ''.join(' ' + self.rcp(1, wild) for _ in range(self.r.choice([0, 1, 2]))))
    def enc0(self, wild=False): return '(enc0 %s %s %s)' % (self.ph(0, wild), self.hdr(0, wild), self.ob(big=True))
    def mac(self, wild=False):
        return '(mac %s %s %s %s (rcps%s))' % (self.ph(0, wild), self.hdr(0, wild), self.ob(big=True), self.b(), ''.join(' ' + self.rcp(1, wild) for _ in range(self.r.choice([0, 1, 2]))))
    def mac0(self, wild=False): return '(mac0 %s %s %s %s)' % (self.ph(0, wild), self.hdr(0, wild), self.ob(big=True), self.b())
    def tkey(self, wild=False):
        r = self.r
        kty = self.rl('KeyType')
        if not wild and kty == 'A0': kty = 'A2'
        ops = []
        for _ in range(r.choice([0, 0, 1, 2, 4])):
            o = self.rl('KeyOperation')
            if o not in ops: ops.append(o)
        params = []; used = set()
        for _ in range(r.choice([0, 0, 1, 2, 3, 5])):
            l = r.choice(['i-1', 'i-2', 'i-3', 'i-4', 'i6', 'i0', 'i23', 'i24', 'i255', 'i256', 'i65536', 'i-65537', 'i%d' % (2**63 - 1), 'i%d' % (-2**63), 't', 't61', 't62', 't6161', 't' + (b'x' * 24).hex()] + (['i1', 'i2', 'i5'] if wild else []))
            if not wild and l in used: continue
            used.add(l); params += [l, self.val(2)]
        return '(key %s %s %s (ops%s) %s (params%s))' % (kty, self.b(nonempty=True) if r.random() < 0.4 else 'b', self.rlp('Algorithm', wild) if r.random() < 0.4 else '-',
                                                        ''.join(' ' + o for o in ops), self.b(nonempty=True) if r.random() < 0.3 else 'b', ''.join(' ' + p for p in params))
    def tkeyset(self, wild=False): return '(keyset%s)' % ''.join(' ' + self.tkey(wild) for _ in range(self.r.choice([0, 1, 2, 3])))
    def tts(self):
        return self.r.choice(['W0', 'W1700000000', 'W-1', 'W%d' % (2**63 - 1), 'W%d' % (-2**63), 'F3ff8000000000000', 'F41d954fc40000000', 'F0000000000000000', 'F8000000000000000', 'F7ff0000000000000', 'F7ff8000000000000', 'F3fb999999999999a'])
    def ot(self): return '-' if self.r.random() < 0.6 else 't' + self.txt().hex()
    def ots(self): return '-' if self.r.random() < 0.6 else self.tts()
    def cwt(self, wild=False):
        r = self.r; rest = []; used = set()
        for _ in range(r.choice([0, 0, 1, 2, 3])):
            x = r.random()
            if x < 0.5: l = 'A%d' % r.choice([v for v in reg_values('CwtClaimName') if wild or not 1 <= v <= 7])
            elif x < 0.75: l = 'P%d' % r.choice([-65537, -70000, -2**63] + ([-65536, 3] if wild else []))
            else: l = 'X' + self.txt().hex()
            if not wild and l in used: continue
            used.add(l); rest += [l, self.val(2)]
        return '(cwt %s %s %s %s %s %s %s (rest%s))' % (self.ot(), self.ot(), self.ot(), self.ots(), self.ots(), self.ots(), self.ob() if r.random() < 0.5 else '-', ''.join(' ' + x for x in rest))
    def nonce(self): return self.r.choice(['-', self.b(), 'i5', 'i%d' % (-2**63), 'i%d' % (2**63 - 1), 'i0', 'i-1'])
    def tparty(self): return '(party %s %s %s)' % (self.ob(), self.nonce(), self.ob())
    def tsupp(self, wild=False): return '(supp i%d %s %s)' % (self.r.choice([0, 1, 23, 24, 128, 256, 65536, 2**32, 2**63, 2**64 - 1]), self.ph(1, wild), self.ob())
    def tkdf(self, wild=False):
        return '(kdf %s %s %s %s (priv%s))' % (self.rlp('Algorithm', wild), self.tparty(), self.tparty(), self.tsupp(wild), ''.join(' ' + self.b() for _ in range(self.r.choice([0, 0, 1, 2]))))

    def typed(self, t, wild=False):
        return {'Header': self.hdr, 'CoseSignature': self.sig, 'CoseSign': self.sign, 'CoseSign1': self.sign1, 'CoseRecipient': self.rcp,
                'CoseEncrypt': self.enc, 'CoseEncrypt0': self.enc0, 'CoseMac': self.mac, 'CoseMac0': self.mac0, 'CoseKey': self.tkey,
                'CoseKeySet': self.tkeyset, 'ClaimsSet': self.cwt, 'SuppPubInfo': self.tsupp, 'CoseKdfContext': self.tkdf}[t](wild=wild) if t not in ('ProtectedHeader', 'PartyInfo', 'Label', 'Value') else \
               {'ProtectedHeader': lambda: self.ph(0, wild), 'PartyInfo': self.tparty, 'Label': self.lab, 'Value': self.val}[t]()

    # ---- wire values per type
    def wire(self, t):
        k = WIRE_KIND.get(t)
        if k == 'hdr': return self.header()
        if k == 'sig': return self.signature()
        if k == 'rcp': return self.recipient()
        if k == 'key': return cosegen.G.key(self)
        if k == 'keyset': return ('array', [cosegen.G.key(self) for _ in range(self.r.randint(0, 3))])
        if k == 'claims': return self.claims()
        if k == 'kdf': return cosegen.G.kdf(self)
        if k == 'party': return cosegen.G.party(self)
        if k == 'supp': return cosegen.G.supp(self)
        if k == 'label': return self.label()
        if k == 'val': return self.value()
        if k in ('sign', 'sign1', 'mac', 'mac0', 'enc', 'enc0'): return self.msg(k)
        if k == 'rl': return self.r.choice([('int', self.r.choice(INTS + WIDE)), ('text', self.txt()), self.value()])
        return self.value()

WIRE_KIND = {'Header': 'hdr', 'ProtectedHeader': 'hdr', 'CoseSignature': 'sig', 'CoseSign': 'sign', 'CoseSign1': 'sign1', 'CoseRecipient': 'rcp',
             'CoseEncrypt': 'enc', 'CoseEncrypt0': 'enc0', 'CoseMac': 'mac', 'CoseMac0': 'mac0', 'CoseKey': 'key', 'CoseKeySet': 'keyset',
             'ClaimsSet': 'claims', 'PartyInfo': 'party', 'SuppPubInfo': 'supp', 'CoseKdfContext': 'kdf', 'Label': 'label', 'Value': 'val'}
BYTE_TYPES = ['Value', 'Label', 'RegLabel:HeaderParameter', 'RegLabel:KeyType', 'RegLabel:KeyOperation', 'RegLabel:CoapContentFormat', 'RegLabelPriv:Algorithm', 'RegLabelPriv:CwtClaimName',
              'Header', 'ProtectedHeader', 'CoseSignature', 'CoseSign', 'CoseSign1', 'CoseRecipient', 'CoseEncrypt', 'CoseEncrypt0', 'CoseMac', 'CoseMac0',
              'CoseKey', 'CoseKeySet', 'ClaimsSet', 'PartyInfo', 'SuppPubInfo', 'CoseKdfContext']
TAGGED = {'CoseSign': 98, 'CoseSign1': 18, 'CoseEncrypt': 96, 'CoseEncrypt0': 16, 'CoseMac': 97, 'CoseMac0': 17}
TYPED_TYPES = ['Header', 'ProtectedHeader', 'CoseSignature', 'CoseSign', 'CoseSign1', 'CoseRecipient', 'CoseEncrypt', 'CoseEncrypt0', 'CoseMac', 'CoseMac0',
               'CoseKey', 'CoseKeySet', 'ClaimsSet', 'PartyInfo', 'SuppPubInfo', 'CoseKdfContext', 'Label', 'Value']
