#!/bin/sh
# usage: confirm_mut.sh <worktree> : confirm (a) suite passes with change, (b) demo fails with change, (c) demo passes without.
W="$1"; cd "$W" || exit 2
A=$(cargo test --offline --lib 2>&1 | grep "test result" | head -1); D=$(cargo test --offline --doc 2>&1 | grep "test result" | tail -1)
B=$(cargo test --offline --test mutation_demo 2>&1 | grep "test result" | tail -1)
git apply -R mutation/patch.diff || exit 3
C=$(cargo test --offline --test mutation_demo 2>&1 | grep "test result" | tail -1)
git apply mutation/patch.diff
echo "suite+change: $A | doc: $D"; echo "demo+change : $B"; echo "demo orig   : $C"
