import random, struct
from refcbor import head, encode
class G:
    def __init__(s, seed, bignum=False, valid=0.9):
        s.r=random.Random(seed); s.bignum=bignum; s.valid=valid
    # ---- variant encoder
    def vhead(s,m,n):
        opts=[]
        if n<24: opts.append(bytes([m*32+n]))
        if n<256: opts.append(bytes([m*32+24,n]))
        if n<65536: opts.append(bytes([m*32+25])+n.to_bytes(2,'big'))
        if n<2**32: opts.append(bytes([m*32+26])+n.to_bytes(4,'big'))
        opts.append(bytes([m*32+27])+n.to_bytes(8,'big'))
        return opts[0] if s.r.random()<0.7 else s.r.choice(opts)
    def venc(s,v):
        k=v[0]; r=s.r
        if k=='int': return s.vhead(0,v[1]) if v[1]>=0 else s.vhead(1,-1-v[1])
        if k in ('bytes','text'):
            m=2 if k=='bytes' else 3; b=v[1]
            if r.random()<0.85 or k=='text' and any(x>127 for x in b): return s.vhead(m,len(b))+b
            out=bytes([m*32+31]); i=0
            while i<len(b):
                j=min(len(b),i+r.randint(1,5)); out+=s.vhead(m,j-i)+b[i:j]; i=j
            return out+b'\xff'
        if k=='array':
            body=b''.join(s.venc(x) for x in v[1])
            return s.vhead(4,len(v[1]))+body if r.random()<0.85 else b'\x9f'+body+b'\xff'
        if k=='map':
            body=b''.join(s.venc(a)+s.venc(b) for a,b in v[1])
            return s.vhead(5,len(v[1]))+body if r.random()<0.85 else b'\xbf'+body+b'\xff'
        if k=='tag': return s.vhead(6,v[1])+s.venc(v[2])
        if k=='null': return r.choice([b'\xf6',b'\xf6',b'\xf7'])
        if k=='raw': return v[1]
        return encode(v)
    # ---- values
    def bstr(s,nonempty=False):
        n=s.r.choice([1,1,2,3,8] if nonempty else [0,1,2,3,8]); return ('bytes',bytes(s.r.randrange(256) for _ in range(n)))
    def text(s): return ('text',s.r.choice([b'',b'a',b'b',b'aa',b'a/b',b'text/plain',' a/b'.encode(),b'a/b/c','é/x'.encode(),b'x'*24,b'TEXT/Plain',b'A',b'1',b'2',b'60',b'-7','\uff211'.encode(),'\U0001f600'.encode()]))
    def anyint(s): return ('int',s.r.choice([0,1,2,3,4,5,6,7,8,9,10,23,24,-1,-2,-7,-8,-24,-25,-257,-65535,-65536,-65537,255,256,65536,2**31,2**63-1,2**63,2**64-1,-2**63,-2**63-1,-2**64,33,35,38,40,60,96,98,101]))
    def value(s,d=0):
        r=s.r.random()
        if d>3: r*=0.6
        if r<0.2: return s.anyint()
        if r<0.35: return s.bstr()
        if r<0.45: return s.text()
        if r<0.5: return ('bool',s.r.random()<0.5)
        if r<0.55: return ('null',)
        if r<0.6: return ('float',s.r.choice([0,0x3ff0000000000000,0x3ff8000000000000,0x3fb999999999999a,0x7ff0000000000000,0x40f86a0000000000,0xc000000000000000]))
        if r<0.75: return ('array',[s.value(d+1) for _ in range(s.r.randint(0,3))])
        if r<0.9: return ('map',[(s.value(d+1),s.value(d+1)) for _ in range(s.r.randint(0,3))])
        if s.bignum and s.r.random()<0.5: return ('raw', bytes([0xc2+s.r.randint(0,1)])+b'\x5f\x41'+bytes([s.r.randrange(256)])+b'\xff')
        return ('tag',s.r.choice([0,1,18,24,98,55799]),s.value(d+1))
    def label(s):
        return s.anyint() if s.r.random()<0.8 else s.text()
    def ok(s): return s.r.random()<s.valid
    def alg(s): return ('int',s.r.choice([-7,-8,1,2,3,-65535,-65537,-70000,-35])) if s.ok() else s.r.choice([('int',8),('int',-65536),s.text(),s.bstr(),('int',2**63)])
    def header(s,d=0):
        m=[]
        r=s.r
        if r.random()<0.4: m.append((('int',1),s.alg()))
        if r.random()<0.2: m.append((('int',2),('array',[r.choice([('int',1),('int',4),('int',0),('text',b'x'),('int',33)]) for _ in range(r.randint(1,3))]) if s.ok() else r.choice([('array',[]),('array',[('int',8)]),('int',1)])))
        if r.random()<0.3: m.append((('int',3),r.choice([('int',0),('int',60),('int',11544),('text',b'a/b'),('text',b'text/plain'),('text',b'Application/EDI-X12'),('text',b'A/b'),('text','€/b'.encode()),('text','éé/b'.encode()),('text','a/é'.encode()),('text','é€/€é'.encode())]) if s.ok() else r.choice([('int',1),('text',b''),('text',b'ab'),('text',b' a/b'),('text',b'a/b/c'),('text','é/é/é'.encode()),('text','€'.encode()),('text','/'.encode()),('text','é/'.encode()),s.bstr()])))
        if r.random()<0.4: m.append((('int',4),s.bstr(True) if s.ok() else r.choice([('bytes',b''),('int',1)])))
        iv=r.random()
        if iv<0.2: m.append((('int',5),s.bstr(True) if s.ok() else ('bytes',b'')))
        elif iv<0.4: m.append((('int',6),s.bstr(True) if s.ok() else ('bytes',b'')))
        elif iv<0.43: m.append((('int',5),s.bstr(True))); m.append((('int',6),s.bstr(True)))
        if d<3 and r.random()<0.25:
            n=r.choice([1,1,2,3])
            sigs=[s.signature(d+1) for _ in range(n)]
            form=r.random()
            if n==1 and form<0.6: m.append((('int',7),sigs[0]))
            else: m.append((('int',7),('array',sigs)))
        for _ in range(r.choice([0,0,1,2,3])):
            m.append((s.label(),s.value(2)))
        if not s.ok() and m: m.append(r.choice(m))   # duplicate
        r.shuffle(m)
        return ('map',m)
    def prot(s,d=0):
        r=s.r.random()
        if r<0.3: return ('bytes',b'')
        h=s.header(d)
        if r<0.35: h=('map',[])
        return ('bytes',s.venc(h))
    def payload(s): return s.r.choice([('null',),s.bstr(),s.bstr()]) if s.ok() else s.r.choice([('int',1),s.text()])
    def signature(s,d=0): return ('array',[s.prot(d),s.header(d),s.bstr()])
    def recipient(s,d=0):
        a=[s.prot(d),s.header(d),s.payload()]
        if d<2 and s.r.random()<0.4: a.append(('array',[s.recipient(d+1) for _ in range(s.r.randint(0,2))]))
        return ('array',a)
    def msg(s,kind):
        if kind=='sign1': a=[s.prot(),s.header(),s.payload(),s.bstr()]
        elif kind=='sign': a=[s.prot(),s.header(),s.payload(),('array',[s.signature(1) for _ in range(s.r.randint(0,3))])]
        elif kind=='mac': a=[s.prot(),s.header(),s.payload(),s.bstr(),('array',[s.recipient(1) for _ in range(s.r.randint(0,2))])]
        elif kind=='mac0': a=[s.prot(),s.header(),s.payload(),s.bstr()]
        elif kind=='enc': a=[s.prot(),s.header(),s.payload(),('array',[s.recipient(1) for _ in range(s.r.randint(0,2))])]
        elif kind=='enc0': a=[s.prot(),s.header(),s.payload()]
        if not s.ok():
            if s.r.random()<0.5 and a: a.pop(s.r.randrange(len(a)))
            else: a.insert(s.r.randrange(len(a)+1),s.value(2))
        return ('array',a)
    def key(s):
        r=s.r; m=[]
        if r.random()<0.95: m.append((('int',1),r.choice([('int',1),('int',2),('int',4),('text',b'x'),('int',6)]) if s.ok() else r.choice([('int',0),('int',7),s.bstr()])))
        if r.random()<0.4: m.append((('int',2),s.bstr(True) if s.ok() else ('bytes',b'')))
        if r.random()<0.4: m.append((('int',3),s.alg()))
        if r.random()<0.4:
            ops=[r.choice([('int',i) for i in range(1,11)]+[('text',b'op')]) for _ in range(r.randint(1,4))]
            if s.ok():
                u=[]; [u.append(x) for x in ops if x not in u]; ops=u
            else: ops=r.choice([[],ops+ops[:1],[('int',11)],[('int',0)]])
            m.append((('int',4),('array',ops)))
        if r.random()<0.3: m.append((('int',5),s.bstr(True) if s.ok() else ('bytes',b'')))
        for _ in range(r.choice([0,1,2,3,4])): m.append((r.choice([('int',-1),('int',-2),('int',-3),('int',-4),('int',0),('int',6),('int',24),('int',-65537),('text',b'a'),('text',b'bb'),('int',2**63-1),('int',-2**63)]),s.value(2)))
        if not s.ok() and m: m.append(r.choice(m))
        r.shuffle(m)
        return ('map',m)
    def ts(s): return s.r.choice([('int',0),('int',1700000000),('int',-1),('int',2**63-1),('int',-2**63),('float',0x3ff8000000000000),('float',0x41d954fc40000000)]) if s.ok() else s.r.choice([('int',2**63),s.text(),('null',)])
    def claims(s):
        r=s.r; m=[]
        for l in (1,2,3):
            if r.random()<0.3: m.append((('int',l),s.text() if s.ok() else s.bstr()))
        for l in (4,5,6):
            if r.random()<0.3: m.append((('int',l),s.ts()))
        if r.random()<0.3: m.append((('int',7),s.bstr() if s.ok() else s.text()))
        for _ in range(r.choice([0,1,2])): m.append((r.choice([('int',8),('int',9),('int',38),('int',40),('int',-260),('int',-257),('int',-65537),('int',-70000),('int',0),('text',b'c')]) if s.ok() else r.choice([('int',10),('int',-65536),('int',41),s.bstr()]),s.value(2)))
        if not s.ok() and m: m.append(r.choice(m))
        r.shuffle(m); return ('map',m)
    def party(s):
        def sl(nonce=False):
            c=[('null',),s.bstr()]+([('int',5),('int',-2**63),('int',2**63-1)] if nonce else [])
            return s.r.choice(c) if s.ok() else s.r.choice([s.text(),('int',2**63),('int',1) if not nonce else s.text()])
        a=[sl(),sl(True),sl()]
        if not s.ok(): a.append(('null',))
        return ('array',a)
    def supp(s):
        a=[('int',s.r.choice([0,128,256,2**64-1])) if s.ok() else s.r.choice([('int',-1),s.bstr()]), s.prot(2)]
        if s.r.random()<0.4: a.append(s.bstr())
        if not s.ok(): a.append(('null',))
        return ('array',a)
    def kdf(s):
        a=[s.alg(),s.party(),s.party(),s.supp()]
        for _ in range(s.r.choice([0,0,1,2])): a.append(s.bstr() if s.ok() else ('null',))
        if not s.ok(): a.pop(s.r.randrange(len(a)))
        return ('array',a)
    def any_top(s):
        k=s.r.choice(['hdr','sig','sign1','sign','mac','mac0','enc','enc0','rcp','key','keyset','claims','kdf','party','supp','label','val'])
        if k=='hdr': return s.header()
        if k=='sig': return s.signature()
        if k=='rcp': return s.recipient()
        if k=='key': return s.key()
        if k=='keyset': return ('array',[s.key() for _ in range(s.r.randint(0,3))])
        if k=='claims': return s.claims()
        if k=='kdf': return s.kdf()
        if k=='party': return s.party()
        if k=='supp': return s.supp()
        if k=='label': return s.label()
        if k=='val': return s.value()
        return s.msg(k)
