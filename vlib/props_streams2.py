import re
"""Operation streams and predicates, C06..C13."""
import random, itertools, re
import props as P
from props import Prop, register, mk, mutate, budget
import tgen, refcbor, forms
from tgen import reg_values
from tgen import T, BYTE_TYPES, TAGGED, TYPED_TYPES, INTS, WIDE, TEXTS
from forms import vsx, parse, render, canon_nan
from props_streams import dec_ops, head_variants, int_encodings, C02, lenbytes, NONCANON_PH, nestG, NEST_PATTERNS, tag_wraps, all_tags

# ===================================================================== C06
@register
class C06(Prop):
    pid = 'C06'
    model_is_spec = False
    def child_ops(self, tier):
        """"any number of signers": a COSE_Sign built with 2^16+1 signers, encoded, decoded, the last one verified (implementation only; the
        oracle is the recorded creator argument).  A silent cap in the list decoder drops that signer."""
        E = '(hdr - (crit) - b b b (cs) (rest))'; out = []
        for n in (65537,) if tier == 'quick' else (65536, 65537, 100000):
            for tagged in ('F', 'T'):
                op = 'flow CoseSignBuilder %s (ops (payload b70) %s) (check verify %d b vok)' % (tagged, ' '.join('(add_created_signature (sig (ph - %s) %s b) b echo)' % (E, E) for _ in range(n)), n - 1)
                out.append(mk(op, k='CoseSignBuilder', many=n, idx=n - 1, nsig=n, late=False, same_aad=True, detached=False, late_prot=False, timeout=180, gen='COSE_Sign with %d signers, the last one verified after the wire' % n))
        return out
    def gen(self, seed, tier):
        r = random.Random(seed); g = T(seed, valid=1.0); ops = []
        signer = lambda: r.choice(['echo', '(k b0102)', '(k b)', 'echo', '(fail 5)'])
        cipher = lambda: r.choice(['cat', '(k b0708)', 'cat', '(fail 9)'])
        ver = lambda: r.choice(['vok', 'verr2'])
        def hdr():
            h = g.hdr(1, wild=False)
            if r.random() < 0.08:
                # two byte fields alike and nothing else; a typed label as a plain extra with the typed field unset (informed round 13: a
                # header whose key id equals its IV counted as empty)
                return r.choice(['(hdr - (crit) - b0a0b b0a0b b (cs) (rest))', '(hdr - (crit) - b0a0b b b0a0b (cs) (rest))', '(hdr - (crit) - b01 b01 b (cs) (rest))', '(hdr - (crit) - b b b (cs) (rest i4 b01))', '(hdr - (crit) - b b b (cs) (rest i5 b01 i4 b01))'])
            if r.random() < 0.2:
                # a header that is not a fixed point of decode-then-encode (a short bignum tag among the extras, a core label given as
                # an extra entry): what the creating call saw must still be what the verifying call sees after the wire (seeded C06-r4)
                assert h.endswith('))')
                extra = r.choice(['i1000 (tag 2 b2a)', 'i1000 (tag 3 b00)', 'i1 i1', 'i4 b3131', 'i1001 (arr (tag 2 b01))'])
                if (extra.startswith('i1 ') and not h.startswith('(hdr - ')) or (extra.startswith('i4 ') and ') - b ' not in h and False): extra = 'i1000 (tag 2 b2a)'
                h = h[:-2] + (' ' if not h.endswith('(rest))') else ' ') + extra + '))'
            return h
        for _ in range(budget(tier, 2500, 40000)):
            fam = r.choice(['CoseSign1Builder', 'CoseSignBuilder', 'CoseMacBuilder', 'CoseMac0Builder', 'CoseEncryptBuilder', 'CoseEncrypt0Builder', 'CoseRecipientBuilder'])
            aad = lenbytes(r, 0.02); pl = lenbytes(r, 0.02)
            late = r.random() < 0.25          # setter after create: side condition of the property does not hold
            pre = []
            if r.random() < 0.12:
                hh = hdr(); pre += ['(protected %s)' % hh, '(unprotected %s)' % hh]      # both buckets alike (informed round 10: an entry present in both dropped from the protected one when serialising)
            else:
                if r.random() < 0.8: pre.append('(protected %s)' % hdr())
                if r.random() < 0.5: pre.append('(unprotected %s)' % hdr())
            detached = fam in ('CoseSign1Builder', 'CoseSignBuilder') and r.random() < 0.4
            tagged = 'T' if (fam != 'CoseRecipientBuilder' and r.random() < 0.4) else 'F'
            paad = aad if r.random() < 0.8 else r.choice([aad + b'\x00', refcbor.head(2, len(aad)) + aad, aad[1:] if aad[:1] and aad[0] == 0x40 + len(aad) - 1 else aad + b'\x01'])
            if r.random() < 0.1:      # an AAD that is itself one CBOR byte string, checked under the inner bytes (informed round 9)
                inner_ = lenbytes(r, 0.0); aad = refcbor.head(2, len(inner_)) + inner_; paad = r.choice([aad, inner_])
            meta = dict(k=fam, late=late, same_aad=(paad == aad), detached=detached)
            if fam in ('CoseSign1Builder', 'CoseSignBuilder', 'CoseMacBuilder', 'CoseMac0Builder') and not detached:
                if r.random() < 0.9 or fam.startswith('CoseMac'): pre.append('(payload b%s)' % pl.hex())
            mixed = detached and r.random() < 0.2
            if mixed:
                # an embedded payload — the empty one too — and a detached creating helper do not go together: refused (panic); if a
                # message comes out all the same, the embedded verifier must see what the signer saw (informed round 12: `Some([])` let through)
                pre.append('(payload b%s)' % r.choice(['', '', pl.hex(), '00']))
            r.shuffle(pre)
            tr = r.random() < 0.4
            if fam == 'CoseSign1Builder':
                cr = ('(%screate_detached_signature b%s b%s %s)' % ('try_' if tr else '', pl.hex(), aad.hex(), signer())) if detached else ('(%screate_signature b%s %s)' % ('try_' if tr else '', aad.hex(), signer()))
                chk = ('(check verifyd b%s b%s %s)' % ((pl if r.random() < 0.8 else pl + b'x').hex(), paad.hex(), ver())) if detached else '(check verify b%s %s)' % (paad.hex(), ver())
                if mixed: chk = '(check verify b%s %s)' % (paad.hex(), ver()); meta['mixed'] = True
            elif fam == 'CoseSignBuilder':
                ns = r.choice([1, 2, 3]); crs = []
                for i in range(ns):
                    sg = '(sig (ph - %s) %s b)' % (hdr(), C02.EMPTY)
                    crs.append(('(%sadd_detached_signature %s b%s b%s %s)' % ('try_' if tr else 'add_'[:0], sg, pl.hex(), aad.hex(), signer())) if detached else ('(%sadd_created_signature %s b%s %s)' % ('try_' if tr else '', sg, aad.hex(), signer())))
                cr = ' '.join(crs); meta['nsig'] = ns; idx = r.randrange(ns); meta['idx'] = idx
                chk = ('(check verifyd %d b%s b%s %s)' % (idx, pl.hex(), paad.hex(), ver())) if detached else '(check verify %d b%s %s)' % (idx, paad.hex(), ver())
                if mixed: chk = '(check verify %d b%s %s)' % (idx, paad.hex(), ver()); meta['mixed'] = True
            elif fam in ('CoseMacBuilder', 'CoseMac0Builder'):
                cr = '(%screate_tag b%s %s)' % ('try_' if tr else '', aad.hex(), signer()); chk = '(check verify b%s %s)' % (paad.hex(), ver())
            elif fam in ('CoseEncryptBuilder', 'CoseEncrypt0Builder'):
                cr = '(%screate_ciphertext b%s b%s %s)' % ('try_' if tr else '', pl.hex(), aad.hex(), cipher()); chk = '(check decrypt b%s %s)' % (paad.hex(), cipher())
            else:
                ctx = r.choice(['EncRecipient', 'MacRecipient', 'RecRecipient']); meta['ctx'] = ctx
                cr = '(%screate_ciphertext %s b%s b%s %s)' % ('try_' if tr else '', ctx, pl.hex(), aad.hex(), cipher())
                chk = '(check decrypt %s b%s %s)' % (ctx if r.random() < 0.85 else r.choice(['EncRecipient', 'MacRecipient', 'RecRecipient']), paad.hex(), cipher())
            post = []
            if late: post.append(r.choice(['(protected %s)' % hdr(), '(unprotected %s)' % hdr()]))
            elif r.random() < 0.4: post.append('(unprotected %s)' % hdr())
            # calls that do not enter the structure may come before or after the creating call, in any order (seeded C06-r5: the
            # context of COSE_Mac chosen from the number of recipients present when the tag is created)
            if fam in ('CoseMacBuilder', 'CoseEncryptBuilder', 'CoseRecipientBuilder'):
                if r.random() < 0.35: post.append('(add_recipient %s)' % g.rcp(0))
                if r.random() < 0.25: pre.insert(r.randrange(len(pre) + 1), '(add_recipient %s)' % g.rcp(0))
            if fam == 'CoseSignBuilder' and r.random() < 0.3: post.append('(add_signature (sig (ph - %s) %s b0909))' % (hdr(), C02.EMPTY))
            meta['late_prot'] = any(p.startswith('(protected') for p in post)
            ops.append(mk('flow %s %s (ops %s %s%s) %s' % (fam, tagged, ' '.join(pre), cr, (' ' + ' '.join(post)) if post else '', chk), **meta))
        return ops
    def impl_pred(self, o, impl):
        """recorded creator argument == recorded verifier argument when nothing relevant changed in between"""
        m = o['meta']
        if m.get('many') and '(called' not in impl: return 'signer %d of a COSE_Sign with %d signers could not be verified after the wire (%s)' % (m['idx'], m['many'], impl[-80:])
        if not impl.startswith('(calls') or '(called' not in impl: return None
        items = parse(impl)
        calls = items[0][1:]; called = [x for x in items if isinstance(x, list) and x and x[0] == 'called']
        if not calls or not called: return None
        idx = m.get('idx', len(calls) - 1) if m['k'] == 'CoseSignBuilder' else len(calls) - 1
        if idx >= len(calls): return None
        created_arg = calls[idx][-1]; seen = called[0][-1]
        chk = parse(o['op'])[-1]
        same_ctx = True
        if m['k'] == 'CoseRecipientBuilder': same_ctx = (chk[2] == m.get('ctx'))
        same_pl = True
        if m.get('mixed'):
            return 'a detached creating helper ran beside an embedded payload, and the embedded verifier then saw other bytes than the signer' if created_arg != seen else None
        if m.get('detached'):
            # detached payload given to check vs to create
            # (parsed, not a regular expression: a signer's headers may themselves contain `) b.. ` sequences)
            whole = parse(o['op'])
            opl = [x for x in whole if isinstance(x, list) and x and x[0] == 'ops']
            crs = [x for x in (opl[0][1:] if opl else []) if isinstance(x, list) and x and str(x[0]).endswith('detached_signature')]
            ck_pl = chk[2] if m['k'] == 'CoseSign1Builder' else chk[3]
            if m['k'] == 'CoseSign1Builder': cr_pl = crs[-1][1] if crs else None
            else: cr_pl = crs[idx][2] if idx < len(crs) else None
            same_pl = cr_pl is not None and cr_pl == ck_pl
        if m['same_aad'] and not m['late_prot'] and same_ctx and same_pl:
            if created_arg != seen: return 'verifier/decrypt closure saw bytes other than those the creator was given'
        elif not m['late_prot'] and created_arg == seen:
            return 'changed aad/payload/context did not change the bytes handed over'
        return None

# ===================================================================== C07
def has_small_bignum_hex(h):
    return re.search(r'c[23]5f', h) is not None
@register
class C07(Prop):
    pid = 'C07'
    model_is_spec = False
    def gen(self, seed, tier):
        r = random.Random(seed); g = T(seed, bignum=True, valid=0.93); ops = []
        ops += dec_ops(g, r, budget(tier, 9000, 150000), op_choices=('chain',), mut=0.1)
        for t, tag in TAGGED.items():
            for _ in range(budget(tier, 150, 3000)):
                b = g.venc(g.wire(t))
                ops.append(mk('chaint %s b%s' % (t, (g.vhead(6, tag) + b).hex()), k=t + ':tagged'))
        # the bignum sub-stream: tag 2/3 x definite/indefinite x lengths x leading zeros
        for tag in (0xc2, 0xc3):
            for ln in (0, 1, 8, 9, 16, 17):
                for lead in (0, 1):
                    body = (b'\x00' * lead + bytes([0x80 + i for i in range(ln)]))[:max(ln, lead)]
                    for indef in (False, True):
                        enc = (b'\x5f' + refcbor.head(2, len(body)) + body + b'\xff') if indef else refcbor.head(2, len(body)) + body
                        ops.append(mk('chain Value b' + (bytes([tag]) + enc).hex(), k='bignum'))
                        ops.append(mk('chain Header b' + (b'\xa1\x18\x63' + bytes([tag]) + enc).hex(), k='bignum'))
                        ops.append(mk('chain CoseKey b' + (b'\xa2\x01\x04\x20' + bytes([tag]) + enc).hex(), k='bignum'))
        # nesting of counter signatures around the crate's budget, every form
        for pat in NEST_PATTERNS:
            for k in (1, 2, 3, 15, 16, 17, 18, 32, 33):
                ops.append(mk('chain Header b' + nestG(k, pat).hex(), k='nestG'))
                ops.append(mk('chain CoseSign1 b' + (b'\x84' + refcbor.head(2, len(nestG(k, pat))) + nestG(k, pat) + b'\xa0\xf6\x40').hex(), k='nestG'))
        # floats
        for fb in ('f90000', 'f97e00', 'f97c01', 'fa7f800001', 'fa7fc00000', 'fb7ff0000000000001', 'fb3ff8000000000000', 'fb3fb999999999999a', 'f93c00', 'fa47c35000', 'fb7ff8000000000001', 'f98001', 'fa00000001', 'fb0000000000000001'):
            ops.append(mk('chain Value b' + fb, k='float'))
            ops.append(mk('chain ClaimsSet b' + 'a104' + fb, k='float'))
        # floats (every width, NaNs with payloads, non-shortest widths) as extra parameters of *protected* headers at every carrying position:
        # the stored bytes must survive although float equality is not reflexive
        for fb in ('f97e00', 'f97e01', 'fa7fc00000', 'fa7fc00001', 'fb7ff8000000000000', 'fb7ff8000000000001', 'fbfff8000000000000', 'f93e00', 'fa3fc00000', 'fb3ff8000000000000', 'fb3ff8000000000001', 'f90000', 'f98000', 'fa00000000'):
            for pm in ('a120' + fb, 'a2012620' + fb, 'a220' + fb + '0126', 'bf20' + fb + 'ff', 'a1613f82' + fb + fb):
                ph = bytes.fromhex(pm); pb = refcbor.head(2, len(ph)) + ph
                ops.append(mk('chain CoseSign1 b' + (b'\x84' + pb + b'\xa0\xf6\x40').hex(), k='protfloat'))
                ops.append(mk('chaint CoseSign1 b' + (b'\xd2\x84' + pb + b'\xa0\xf6\x40').hex(), k='protfloat'))
                ops.append(mk('chain CoseMac0 b' + (b'\x84' + pb + b'\xa0\xf6\x40').hex(), k='protfloat'))
                ops.append(mk('chain CoseEncrypt0 b' + (b'\x83' + pb + b'\xa0\xf6').hex(), k='protfloat'))
                ops.append(mk('chain CoseSignature b' + (b'\x83' + pb + b'\xa0\x40').hex(), k='protfloat'))
                ops.append(mk('chain CoseSign b' + (b'\x84\x40\xa0\xf6\x81\x83' + pb + b'\xa0\x40').hex(), k='protfloat'))
                ops.append(mk('chain CoseRecipient b' + (b'\x84' + pb + b'\xa0\xf6\x81\x83' + pb + b'\xa0\xf6').hex(), k='protfloat'))
                ops.append(mk('chain CoseMac b' + (b'\x85' + pb + b'\xa0\xf6\x40\x81\x83' + pb + b'\xa0\xf6').hex(), k='protfloat'))
                ops.append(mk('chain Header b' + (b'\xa1\x07\x83' + pb + b'\xa0\x40').hex(), k='protfloat'))
                ops.append(mk('chain CoseKdfContext b' + (b'\x84\x01\x83\xf6\xf6\xf6\x83\xf6\xf6\xf6\x82\x18\x80' + pb).hex(), k='protfloat'))
        # uninterpreted values that *look like* structures of the crate in a layout the crate itself would not emit (a key with its labels
        # out of order or its operations unsorted, a header map out of order, a signature, a tagged message, a confirmation claim holding a
        # key): kept as they are, under every registered name of every table, at every carrier (informed round 10: the `cnf` claim's key
        # re-laid-out by the encoder)
        LOOK = ['a203260102', 'a101a203260102', 'a201040482' + '0201', 'a101a2010404820201', 'a2044101' + '0126', '8343a10126a04100', 'd28443a10126a0f640', '8340a0f6', 'a103a2044101' + '0126',
                'a101a30326200101' + '02', '81a203260102', 'a102' + '8343a10126a0f6', 'a1036131', '43a10126', 'a201a1010202a1010204' [:0] + 'a101a201022001']
        names = sorted(set(v for nm in ('CwtClaimName', 'HeaderParameter', 'KeyParameter') for v in reg_values(nm)) | {99, -70000, 1000})
        for lab in names:
            le = refcbor.encode(('int', lab)).hex()
            for lk in LOOK:
                if lab not in range(1, 8) and (lab in reg_values('CwtClaimName') or lab < -65536): ops.append(mk('chain ClaimsSet ba1' + le + lk, k='look-alike'))
                if lab not in range(1, 8): ops.append(mk('chain Header ba1' + le + lk, k='look-alike')); ops.append(mk('chain CoseSign1 b8440a1' + le + lk + 'f640', k='look-alike'))
                if lab not in range(1, 6): ops.append(mk('chain CoseKey ba20104' + le + lk, k='look-alike'))
        # coincidences: the same content at several places of one value — both header buckets alike, payload = signature, lists of
        # identical signers / recipients / keys / critical labels' neighbours, all texts of a claims set alike, both parties alike
        # (a de-duplication, a comparison between fields or a shared buffer only shows when they coincide)
        for hm in ('a10126', 'a2012604423131', 'a11903e86774726163652d37', 'a201260fc25f4105ff' [:14] if False else 'a201261903e8a1616101'):
            hb = bytes.fromhex(hm); pb = refcbor.head(2, len(hb)) + hb
            for x in (b'\x41\x07', pb):
                sg = b'\x83' + pb + hb + x; rc = b'\x83' + pb + hb + x
                ops.append(mk('chain CoseSign1 b' + (b'\x84' + pb + hb + x + x).hex(), k='coincide')); ops.append(mk('chaint CoseSign1 b' + (b'\xd2\x84' + pb + hb + x + x).hex(), k='coincide'))
                ops.append(mk('chain CoseMac0 b' + (b'\x84' + pb + hb + x + x).hex(), k='coincide')); ops.append(mk('chain CoseEncrypt0 b' + (b'\x83' + pb + hb + x).hex(), k='coincide'))
                for n in (2, 3, 17):
                    ops.append(mk('chain CoseSign b' + (b'\x84' + pb + hb + x + refcbor.head(4, n) + sg * n).hex(), k='coincide'))
                    ops.append(mk('chain CoseEncrypt b' + (b'\x84' + pb + hb + x + refcbor.head(4, n) + rc * n).hex(), k='coincide'))
                    ops.append(mk('chain CoseMac b' + (b'\x85' + pb + hb + x + x + refcbor.head(4, n) + rc * n).hex(), k='coincide'))
                    ops.append(mk('chain Header b' + (b'\xa1\x07' + refcbor.head(4, n) + sg * n).hex(), k='coincide'))
                ops.append(mk('chain CoseRecipient b' + (b'\x84' + pb + hb + x + b'\x82' + rc + rc).hex(), k='coincide'))
        for n in (2, 3, 17): ops.append(mk('chain CoseKeySet b' + (refcbor.head(4, n) + bytes.fromhex('a2010402413a') * n).hex(), k='coincide'))
        for tx in ('6161', '60', '6b746578742f706c61696e20'):
            ops.append(mk('chain ClaimsSet ba301' + tx + '02' + tx + '03' + tx, k='coincide')); ops.append(mk('chain ClaimsSet ba401' + tx + '02' + tx + '03' + tx + '0741' + tx[2:4] if len(tx) == 4 else 'chain ClaimsSet ba301' + tx + '02' + tx + '03' + tx, k='coincide'))
        for bx in ('4101', '40', '581a' + '5a' * 26):
            ops.append(mk('chain PartyInfo b83' + bx * 3, k='coincide')); ops.append(mk('chain CoseKdfContext b840183' + bx * 3 + '83' + bx * 3 + '82188040', k='coincide'))
            ops.append(mk('chain Header ba204' + bx + '05' + bx, k='coincide')); ops.append(mk('chain Header ba204' + bx + '06' + bx, k='coincide')); ops.append(mk('chain CoseKey ba3010402' + bx + '05' + bx, k='coincide'))
            ops.append(mk('chain CoseKey ba5010402' + bx + '05' + bx + '20' + bx + '21' + bx, k='coincide'))
        # exhaustive short
        for t in ('Value', 'Label', 'Header', 'CoseKey', 'ClaimsSet', 'PartyInfo'):
            for a in range(256):
                ops.append(mk('chain %s b%02x' % (t, a), k='short'))
            if tier == 'thorough':
                for a in range(256):
                    for b in range(256): ops.append(mk('chain %s b%02x%02x' % (t, a, b), k='short'))
        return ops
    def impl_pred(self, o, impl):
        if not impl.startswith('ok '): return None
        items = parse(impl)
        # ok X1 ok b1 ok X2 ok b2
        if len(items) < 8 or items[2] != 'ok' or items[4] != 'ok' or items[6] != 'ok':
            return 'decoded value does not re-encode / re-decode: %s' % ' '.join(x if isinstance(x, str) else '…' for x in items[2:7:2])
        if canon_nan(render(items[1])) != canon_nan(render(items[5])): return 'second decode differs from the first'
        if items[3] != items[7]: return 'second encoding differs from the first'
        return None
    def judge(self, o, impl, model):
        v = super().judge(o, impl, model)
        return v

def c07_known(case, f):
    # class: an uninterpreted value holds tag 2/3 on an indefinite byte string (<= 16 bytes) — visible in the input bytes
    h = case['op'].split(' ')[-1]
    return 'proved model' not in case['why'] and re.search(r'\(tag [23] b[0-9a-f]{0,32}\)', case['impl'].split(' ok ')[0]) is not None
P.KNOWN_PRED['c07-small-bignum-indefinite'] = c07_known
P.WITNESS_PRED['c07-small-bignum-indefinite'] = lambda w, impl, f: C07().impl_pred(dict(op=w, meta={}), impl) is not None

# ===================================================================== C08 / C09 / C10 (decode: accepted iff well-formed)
LABEL_ALPHABET = [0, 1, 2, 3, 4, 5, 6, 7, 8, 9, 10, 32, 33, 34, 35, 256, 257, -1, -65536, -65537, 2**63 - 1, -2**63, 2**63, 2**64 - 1, -2**64]
def header_palette(g, r, label):
    """values for a standard header label: valid shapes, each wrong kind, boundary cases"""
    I = lambda n: ('int', n); Tx = lambda b: ('text', b); B = lambda b: ('bytes', b); A = lambda xs: ('array', xs)
    common = [I(0), Tx(b'x'), B(b''), B(b'\x01'), A([]), ('map', []), ('null',), ('bool', True), ('float', 0x3ff8000000000000), ('tag', 1, I(0))]
    sig = A([B(b''), ('map', []), B(b'\x05')]); sigp = A([B(bytes.fromhex('a10126')), ('map', [(I(4), B(b'k'))]), B(b'')])
    if label == 1: return common + [I(-7), I(-8), I(-65535), I(-65536), I(-65537), I(-65538), I(8), I(2**63 - 1), I(-2**63), I(2**63), I(-2**63 - 1), Tx(b''), Tx(b'ES256')]
    if label == 2: return common + [A([I(1)]), A([I(8)]), A([I(0), Tx(b'a')]), A([Tx(b'')]), A([B(b'')]), A([I(-65537)]), A([I(257), I(33)]), A([I(2**63)]), A([A([])])]
    if label == 3:
        ws = [chr(c) for c in (0x9, 0xa, 0xb, 0xc, 0xd, 0x20, 0x85, 0xa0, 0x1680, 0x2000, 0x2001, 0x2005, 0x200a, 0x2028, 0x2029, 0x202f, 0x205f, 0x3000, 0x200b, 0xfeff, 0x180e, 0x1c, 0x1f)]
        t = [Tx(b''), Tx(b'a'), Tx(b'a/b'), Tx(b'a/b/c'), Tx(b'/'), Tx(b'//'), Tx('é/ü'.encode()), Tx(b'a /b')]
        t += [Tx((w + 'a/b').encode()) for w in ws] + [Tx(('a/b' + w).encode()) for w in ws]
        # "exactly one": counts around every width a counter could be narrowed to (informed round 10: `count() as u8 != 1` accepts 257)
        t += [Tx(b'a' + b'/x' * k) for k in (2, 3, 4, 255, 256, 257, 258, 511, 513)]
        t += [Tx(x) for x in ('a/b\u2215c'.encode(), 'a\u2215b'.encode(), 'a\u2044b'.encode(), 'a\uff0fb'.encode(), b'a\\b', b'a/b;c', b'a/', b'/b')]
        return common + t + [I(0), I(60), I(11542), I(11543), I(65535), I(1), I(-1), I(2**63)]
    if label in (4, 5, 6): return common + [B(b'\x00'), B(b'ab'), B(b'x' * 24)]
    if label == 7:
        return common + [sig, sigp, A([sig]), A([sig, sigp]), A([sig, I(1)]), A([I(1), sig]), A([B(b''), ('map', [])]), A([B(b''), ('map', []), B(b''), B(b'')]),
                         A([B(b'\x00'), ('map', []), B(b'')]), A([B(bytes.fromhex('a1')), ('map', []), B(b'')]), A([A([])]), A([A([B(b''), ('map', []), I(0)])]),
                         A([B(b''), ('map', [(I(1), I(8))]), B(b'')]), A([sig, A([])]), A([B(b''), ('map', [(I(7), sig)]), B(b'')]), A([('map', []), sig])]
    return common

def hdr_rule_stream(g, r, n, wrap):
    """rule-directed header maps: every standard label x value palette x position x other parameters; duplicates; IV/PIV order"""
    ops = []
    I = lambda x: ('int', x)
    others = [[], [(I(4), ('bytes', b'k'))], [(I(99), ('null',)), (('text', b'z'), I(1))], [(I(1), I(-7)), (I(5), ('bytes', b'\x01'))], [(I(6), ('bytes', b'\x02'))]]
    cases = []
    for label in (1, 2, 3, 4, 5, 6, 7):
        for v in header_palette(g, r, label):
            cases.append((label, v))
    r.shuffle(cases)
    for label, v in cases[:n]:
        oth = [p for p in r.choice(others) if p[0] != I(label)]
        pos = r.randrange(len(oth) + 1)
        m = oth[:pos] + [(I(label), v)] + oth[pos:]
        ops.append(('map', m))
    for l in LABEL_ALPHABET + [None]:
        k = I(l) if l is not None else ('text', r.choice(TEXTS))
        for v in (('null',), I(1), ('bytes', b'')):
            ops.append(('map', [(k, v)]))
            ops.append(('map', [(I(4), ('bytes', b'k')), (k, v)]))
    for k in (('bytes', b''), ('null',), ('array', []), ('float', 0), ('bool', False), ('tag', 1, I(1)), ('map', [])):
        ops.append(('map', [(k, I(1))]))
    for a, b in ((5, 6), (6, 5)):
        ops.append(('map', [(I(a), ('bytes', b'\x01')), (I(b), ('bytes', b'\x02'))]))
        ops.append(('map', [(I(a), ('bytes', b'\x01')), (I(9), I(0)), (I(b), ('bytes', b'\x02'))]))
        ops.append(('map', [(I(a), ('bytes', b'\x01')), (I(b), ('bytes', b''))]))
    for v in (I(1), ('bytes', b''), ('array', []), ('text', b''), ('null',)): ops.append(v)
    hm = ('map', [(I(1), I(-7))])
    for tg in all_tags(): ops += [('tag', tg, hm), ('tag', tg, ('map', []))]
    ops += [('tag', 55799, ('tag', 55799, hm)), ('bytes', refcbor.encode(hm)), ('array', [hm])]
    return [wrap(v) for v in ops]

@register
class C08(Prop):
    pid = 'C08'
    def gen(self, seed, tier):
        r = random.Random(seed); g = T(seed, valid=0.9); ops = []
        def wrap(v):
            c = r.random(); b = g.venc(v) if r.random() < 0.5 else refcbor.encode(v)
            if c >= 0.93:
                kk = r.choice([1, 15, 16, 16]); return mk('dec Header b' + nestG(kk, r.choice(NEST_PATTERNS), inner=b).hex(), k='deep', n=kk)      # the same rules at every nesting level
            if c < 0.5: return mk('dec Header b' + b.hex(), k='standalone')
            if c < 0.6: return mk('fromv Header ' + vsx(v), k='value')
            if c < 0.8: return mk('dec CoseSign1 b' + (b'\x84\x40' + b + b'\xf6\x40').hex(), k='unprotected')
            return mk('dec CoseSign1 b' + (b'\x84' + refcbor.head(2, len(b)) + b + b'\xa0\xf6\x40').hex(), k='protected')
        for _ in range(budget(tier, 3, 40)):
            ops += hdr_rule_stream(g, r, 10000, wrap)
        ops += dec_ops(g, r, budget(tier, 5000, 100000), types=['Header', 'ProtectedHeader', 'Header', 'CoseSignature'], mut=0.05)
        for pat in NEST_PATTERNS:
            for k in (1, 2, 15, 16, 17, 18, 33):
                ops.append(mk('dec Header b' + nestG(k, pat).hex(), k='nestG'))
        # width and depth together: a list of n counter signatures of which one (first, middle, last) nests k further levels — within the
        # budget as long as 1 + k <= 16, whatever n is (informed round 11: the budget divided by the width of the list)
        sg0 = b'\x83\x40\xa0\x41\x01'
        for n in (2, 15, 16, 17, 31, 32, 33, 48, 64):
            for kk in (1, 7, 8, 9, 14, 15, 16):
                for pat in (['ub'], ['pb'], ['ul', 'pb']):
                    deep = b'\x83\x40' + nestG(kk, pat) + b'\x40'
                    for idx in (0, n // 2, n - 1):
                        h = b'\xa1\x07' + refcbor.head(4, n) + sg0 * idx + deep + sg0 * (n - 1 - idx)
                        ops.append(mk('dec Header b' + h.hex(), k='wide-deep', n=n, depth=kk))
                        if idx == 0: ops.append(mk('dec CoseSign1 b' + (b'\x84' + refcbor.head(2, len(h)) + h + b'\xa0\xf6\x40').hex(), k='wide-deep', n=n, depth=kk))
        # every rule that relates two entries of one map — IV with Partial IV in either wire order, a repeated label, a label beside its
        # near-duplicate — at every nesting level through every carrier pattern, not left to the random placement above (seeded C08-r12 was
        # reported at one seed and not at another)
        for inner_ in ('a2054101064101', 'a2064101054101', 'a3054101186300064102', 'a2044101044102', 'a201260126', 'a26161006161' + '01', 'a2054101' + '0640'):
            for kk in (1, 2, 15, 16):
                for pat in NEST_PATTERNS:
                    h_ = nestG(kk, pat, inner=bytes.fromhex(inner_))
                    ops.append(mk('dec Header b' + h_.hex(), k='deep-pair', n=kk)); ops.append(mk('dec CoseSign1 b' + (b'\x84\x40' + h_ + b'\xf6\x40').hex(), k='deep-pair', n=kk))
        # encoding independence: same header value in two encodings must give the same result
        for _ in range(budget(tier, 800, 10000)):
            v = g.header()
            ops.append(mk('dec Header b' + refcbor.encode(v).hex(), k='enc-indep', grp=len(ops)))
            ops.append(mk('dec Header b' + g.venc(v).hex(), k='enc-indep2'))
        # near-duplicates are distinct labels: equal up to surrounding white space, case, a leading zero, normalisation form, or the
        # same digits as an integer and as a text — in both orders, alone and among other entries, in every map the crate reads
        # (informed round 8: the trimmed form of a text label recorded as seen)
        Tx = lambda b: ('text', b); I_ = lambda x: ('int', x)
        near = [(Tx(b' a'), Tx(b'a')), (Tx(b'a '), Tx(b'a')), (Tx(b'kid\n'), Tx(b'kid')), (Tx('\u00a0x'.encode()), Tx(b'x')), (Tx(b'A'), Tx(b'a')), (Tx(b'01'), Tx(b'1')), (Tx(b'100'), I_(100)), (Tx(b'-1'), I_(-1)),
                (Tx('\u00e9'.encode()), Tx('e\u0301'.encode())), (Tx(b''), Tx(b' ')), (I_(100), I_(-101)), (Tx(b'ab'), Tx(b'ab\x00')),
                (Tx(b'\x00' * 7 + b'\x09'), I_(9)), (Tx(b'abcdefgh'), I_(0x6162636465666768)), (Tx(b'\x09'), I_(9)), (Tx(b'9'), I_(57)), (Tx(b'\xff' * 0 + b'd'), I_(100))]
        for a, b in near:
            for x, y in ((a, b), (b, a)):
                for extra in ([], [(I_(200), I_(0))]):
                    m = [(x, I_(1))] + extra + [(y, I_(2))]
                    e = refcbor.encode(('map', m)).hex()
                    ops.append(mk('dec Header b' + e, k='near-dup')); ops.append(mk('dec CoseSign1 b8440' + e + 'f640', k='near-dup'))
                    ops.append(mk('dec CoseSign1 b84' + refcbor.head(2, len(bytes.fromhex(e))).hex() + e + 'a0f640', k='near-dup'))
                    ops.append(mk('dec CoseKey b' + refcbor.encode(('map', [(I_(1), I_(1))] + m)).hex(), k='near-dup')); ops.append(mk('dec ClaimsSet b' + e, k='near-dup'))
        return ops
    def judge_pairs(self): return True
    def child_ops(self, tier):
        """content types with 2^16 ± 1 and 2^32-ish many separators (implementation only; the oracle is the rule: not exactly one, so refused)"""
        out = []
        for k in (65535, 65536, 65537, 65538) + ((1 << 24) + 1,) * (tier == 'thorough'):
            t = b'a' + b'/x' * k
            for pre, post, ty in ((b'\xa1\x03', b'', 'Header'), (b'\x84\x40\xa1\x03', b'\xf6\x40', 'CoseSign1')):
                out.append(mk('dec %s b%s' % (ty, (pre + refcbor.head(3, len(t)) + t + post).hex()), k='many-slashes', n=k, timeout=60, gen='content type with %d separators' % k))
        return out
    def impl_pred(self, o, impl):
        if o['meta'].get('k') == 'many-slashes' and not impl.startswith('err'): return 'a content type with %d separators was not refused (%s)' % (o['meta']['n'], impl[:30])
        return None

@register
class C09(Prop):
    pid = 'C09'
    @staticmethod
    def long_lists(n):
        def el(i, rc_): return refcbor.head(4, 3) + b'\x40' + b'\xa1\x04' + refcbor.head(2, 3) + i.to_bytes(3, 'big') + (b'\xf6' if rc_ else b'\x41' + bytes([i % 256]))
        sl = refcbor.head(4, n) + b''.join(el(i, False) for i in range(n)); rl = refcbor.head(4, n) + b''.join(el(i, True) for i in range(n))
        return (('CoseSign', b'\x84\x40\xa0\xf6' + sl), ('CoseEncrypt', b'\x84\x40\xa0\xf6' + rl), ('CoseMac', b'\x85\x40\xa0\xf6\x41\x74' + rl), ('CoseRecipient', b'\x84\x40\xa0\xf6' + rl))
    def impl_pred(self, o, impl):
        m = o['meta']
        if m.get('k') == 'very-long-list':
            if not impl.startswith('ok '): return 'a well-formed structure with %d list elements was not accepted (%s)' % (m['n'], impl[:40])
            kids = re.findall(r'\(hdr - \(crit\) - b([0-9a-f]{6}) b b ', impl)
            if len(kids) != m['n']: return 'decoded list has %d elements, the wire array %d' % (len(kids), m['n'])
            for i, k in enumerate(kids):
                if int(k, 16) != i: return 'element %d of the decoded list is wire element %d' % (i, int(k, 16))
        return None
    def child_ops(self, tier):
        """very long lists (around 2^16 elements): run on the implementation only — the oracle is the input itself (element i carries key id i);
        the Lean driver prints such values too slowly for the quick tier"""
        out = []
        for n in ((65535, 65536, 65537) if tier == 'quick' else (65535, 65536, 65537, 100000, 1 << 17)):
            for t, b in self.long_lists(n): out.append(mk('dec %s b%s' % (t, b.hex()), k='very-long-list', n=n, timeout=120, gen='list of %d elements, element i has key id i' % n))
        return out
    STRUCTS = ['CoseSign1', 'CoseSign', 'CoseSignature', 'CoseMac', 'CoseMac0', 'CoseEncrypt', 'CoseEncrypt0', 'CoseRecipient']
    def gen(self, seed, tier):
        r = random.Random(seed); g = T(seed, valid=0.9); ops = []
        I = lambda x: ('int', x); B = lambda b: ('bytes', b)
        sig = ('array', [B(b''), ('map', []), B(b'\x05')]); badsig = ('array', [B(b''), ('map', [(I(1), I(8))]), B(b'')])
        sig2 = ('array', [B(bytes.fromhex('a10126')), ('map', [(I(4), B(b'11'))]), B(b'\xe2\xae')])
        rcp = ('array', [B(b''), ('map', []), ('null',)]); rcp4 = ('array', [B(b''), ('map', []), B(b'c'), ('array', [rcp])])
        badrcp = ('array', [B(b'\xa1'), ('map', []), ('null',)])
        slot = [B(b''), B(bytes.fromhex('a10126')), B(bytes.fromhex('a0')), B(b'\x01'), B(bytes.fromhex('a1012600')), B(bytes.fromhex('a201260126')),
                ('map', []), ('map', [(I(4), B(b'k'))]), ('map', [(I(1), I(8))]), ('null',), I(0), ('text', b'x'), ('bool', False),
                ('array', []), ('array', [sig]), ('array', [sig, sig]), ('array', [badsig]), ('array', [sig, I(1)]), ('array', [rcp]), ('array', [rcp4]), ('array', [badrcp]),
                ('array', [('array', [B(b''), ('map', []), ('null',), ('array', [rcp4])])]), ('array', [('array', [B(b''), ('map', []), ('null',), ('array', [badrcp])])]), ('tag', 18, ('array', [])),
                # a bare structure where a list of them belongs (seeded C09-r3), at top level and one level down
                sig, rcp, rcp4, badsig, sig2, ('array', [('array', [B(b''), ('map', []), ('null',), rcp])]), ('array', [B(b''), ('map', []), ('null',), rcp])]
        # inside the protected byte string: exactly one header map — not a tagged map (any tag, once or twice), not a byte string holding
        # one, not a map followed by anything, not an array around one (informed round 10: one tag level stripped there)
        slot += [B(refcbor.head(6, tg) + bytes.fromhex('a10126')) for tg in all_tags()] + [B(bytes.fromhex('d9d9f7d9d9f7a10126')), B(bytes.fromhex('d818d818a0')), B(bytes.fromhex('43a10126')), B(bytes.fromhex('81a10126')),
                 B(bytes.fromhex('a10126a0')), B(bytes.fromhex('c6a0')), B(bytes.fromhex('d83da0')), ('tag', 24, B(bytes.fromhex('a10126'))), ('tag', 55799, ('map', [])), ('tag', 61, ('map', [(I(4), B(b'k'))]))]
        good = {3: [B(b''), ('map', []), B(b'x')], 4: [B(b''), ('map', []), B(b'p'), B(b's')], 5: [B(b''), ('map', []), B(b'p'), B(b't'), ('array', [rcp])]}
        for arity in range(0, 8):
            for _ in range(budget(tier, 120, 2500)):
                base = list(good.get(arity, []))
                a = []
                for i in range(arity):
                    a.append(base[i] if (base and r.random() < 0.75) else r.choice(slot))
                if arity == 4 and r.random() < 0.4: a[3] = r.choice([('array', [sig]), ('array', [rcp]), B(b's'), ('array', []), ('array', [rcp4]), sig, sig2, rcp, rcp4])
                if arity == 5 and r.random() < 0.3: a[4] = r.choice([rcp, rcp4, sig, ('array', [rcp, rcp4]), ('array', [])])
                v = ('array', a); b = refcbor.encode(v) if r.random() < 0.6 else g.venc(v)
                for t in self.STRUCTS:
                    ops.append(mk('dec %s b%s' % (t, b.hex()), k='arity%d' % arity))
        # exhaustive single-slot substitution: every palette value in every slot of every well-formed template (not left to chance:
        # the round-1 change "trailing bytes inside the protected bstr" was once missed when the palette grew)
        for arity, tmpl in good.items():
            for i in range(arity):
                for v in slot:
                    a = list(tmpl); a[i] = v
                    b = refcbor.encode(('array', a)).hex()
                    for t in self.STRUCTS: ops.append(mk('dec %s b%s' % (t, b), k='subst%d' % arity))
        for v in (('map', []), I(1), B(b''), ('null',), ('tag', 18, ('array', good[4]))):
            for t in self.STRUCTS: ops.append(mk('dec %s b%s' % (t, refcbor.encode(v).hex()), k='nonarray'))
        for arity, tmpl in good.items():
            for w_ in tag_wraps(refcbor.encode(('array', tmpl))):
                for t in self.STRUCTS: ops.append(mk('dec %s b%s' % (t, w_.hex()), k='tag-wrapped'))
        # counter-signature nesting around the budget (16), through every header slot of every structure, bare and list forms mixed
        # (informed round 8: the list form restarted the budget in one decoder arm; another entry point got one level less)
        for k in (15, 16, 17, 18, 33):
            for pat in NEST_PATTERNS:
                h = nestG(k, pat); hb = refcbor.head(2, len(h)) + h
                for t, pre, post in (('CoseSign1', b'\x84', b'\xf6\x40'), ('CoseMac0', b'\x84', b'\xf6\x40'), ('CoseEncrypt0', b'\x83', b'\xf6'), ('CoseRecipient', b'\x83', b'\xf6'), ('CoseSignature', b'\x83', b'\x40'),
                                     ('CoseSign', b'\x84', b'\xf6\x80'), ('CoseEncrypt', b'\x84', b'\xf6\x80'), ('CoseMac', b'\x85', b'\xf6\x40\x80')):
                    ops.append(mk('dec %s b%s' % (t, (pre + b'\x40' + h + post).hex()), k='nest-unprot', n=k))
                    ops.append(mk('dec %s b%s' % (t, (pre + hb + b'\xa0' + post).hex()), k='nest-prot', n=k))
                ops.append(mk('dec CoseSign b%s' % (b'\x84\x40\xa0\xf6\x81\x83\x40' + h + b'\x40').hex(), k='nest-signer', n=k))
                ops.append(mk('dec CoseEncrypt b%s' % (b'\x84\x40\xa0\xf6\x81\x83' + hb + b'\xa0\xf6').hex(), k='nest-recipient', n=k))
        # relations across the two buckets are not the decoder's business: IV in one and Partial IV in the other (both ways), the same label in
        # both, the same entries in both — each bucket is a header on its own (informed round 14: COSE_Encrypt0 refused IV / Partial IV across buckets)
        for pm, um in (('a1054401020304', 'a106420a0b'), ('a10643010203', 'a105420a0b'), ('a10126', 'a10126'), ('a1044131', 'a1044131'), ('a1044131', 'a1044132'), ('a201260442' + '3131', 'a2044231310126'[:0] + 'a20126044231' + '31'), ('a1054101', 'a1054101'), ('a11863f6', 'a11863f6')):
            pb_ = refcbor.head(2, len(pm) // 2).hex() + pm
            for t, pre, post in (('CoseSign1', '84', 'f640'), ('CoseMac0', '84', 'f640'), ('CoseEncrypt0', '83', '43c0ffee'), ('CoseRecipient', '83', 'f6'), ('CoseSignature', '83', '40'),
                                 ('CoseSign', '84', 'f680'), ('CoseEncrypt', '84', 'f680'), ('CoseMac', '85', 'f64080')):
                ops.append(mk('dec %s b%s' % (t, pre + pb_ + um + post), k='cross-bucket'))
            ops.append(mk('dec CoseSign b8440a0f68183' + pb_ + um + '40', k='cross-bucket')); ops.append(mk('dec CoseEncrypt b8440a0f68183' + pb_ + um + 'f6', k='cross-bucket'))
        # width and depth together, at signers and recipients: n of them, one carrying a chain of k counter signatures
        sgp = b'\x83\x40\xa0\x41\x01'; rcp_ = b'\x83\x40\xa0\xf6'
        for n in (2, 16, 17, 32, 33):
            for kk in (8, 9, 15, 16, 17):
                hdeep = nestG(kk, ['ub'])
                for idx in (0, n - 1):
                    sl = refcbor.head(4, n) + sgp * idx + b'\x83\x40' + hdeep + b'\x40' + sgp * (n - 1 - idx)
                    rl = refcbor.head(4, n) + rcp_ * idx + b'\x83\x40' + hdeep + b'\xf6' + rcp_ * (n - 1 - idx)
                    ops.append(mk('dec CoseSign b' + (b'\x84\x40\xa0\xf6' + sl).hex(), k='wide-deep', n=n, depth=kk)); ops.append(mk('dec CoseEncrypt b' + (b'\x84\x40\xa0\xf6' + rl).hex(), k='wide-deep', n=n, depth=kk))
                    ops.append(mk('dec CoseMac b' + (b'\x85\x40\xa0\xf6\x40' + rl).hex(), k='wide-deep', n=n, depth=kk))
        # long lists: every element still lands at its own index when the list crosses an array-head class or a plausible cap
        # (informed-adversary round: `.take(65536)` in the shared list converter drops signer 65537 silently)
        for n in (16, 17, 18, 24, 25, 255, 256, 257):
            for t, b in self.long_lists(n): ops.append(mk('dec %s b%s' % (t, b.hex()), k='long-list', n=n, gen='long list of %d elements' % n))
        # lists of 3..6 *distinct* nested structures: every element lands at its own index (seeded C09-r5: swap_remove reorders from 3 up)
        for _ in range(budget(tier, 150, 3000)):
            n = r.choice([3, 3, 4, 5, 6])
            def rc(i, depth):
                sub = [rc(10 * i + j, depth - 1) for j in range(r.choice([0, 3, 4]))] if depth > 0 and r.random() < 0.4 else []
                return ('array', [B(b''), ('map', [(I(4), B(bytes([i % 256])))]), B(bytes([i % 256, 1]))] + ([('array', sub)] if sub else []))
            rl = ('array', [rc(i + 1, 1) for i in range(n)]); sl = ('array', [('array', [B(b''), ('map', [(I(4), B(bytes([i])))]), B(bytes([i]))]) for i in range(1, n + 1)])
            for t, v in (('CoseEncrypt', ('array', [B(b''), ('map', []), ('null',), rl])), ('CoseMac', ('array', [B(b''), ('map', []), ('null',), B(b't'), rl])),
                         ('CoseRecipient', ('array', [B(b''), ('map', []), ('null',), rl])), ('CoseSign', ('array', [B(b''), ('map', []), ('null',), sl]))):
                ops.append(mk('dec %s b%s' % (t, (refcbor.encode(v) if r.random() < 0.7 else g.venc(v)).hex()), k='order'))
        ops += dec_ops(g, r, budget(tier, 3000, 60000), types=self.STRUCTS, mut=0.05)
        return ops

@register
class C10(Prop):
    pid = 'C10'
    def gen(self, seed, tier):
        r = random.Random(seed); g = T(seed, valid=0.9); ops = []
        I = lambda x: ('int', x); B = lambda b: ('bytes', b); Tx = lambda b: ('text', b); A = lambda xs: ('array', xs)
        ktys = [None, I(0), I(1), I(2), I(3), I(4), I(5), I(6), I(7), I(-1), Tx(b'EC2'), Tx(b''), B(b''), I(2**63), ('null',), Tx(b'2'), Tx(b'1'), Tx(b'04'), Tx(b'-1')]
        opsv = [A([]), A([I(1)]), A([I(1), I(2)]), A([I(1), I(1)]), A([Tx(b'a'), Tx(b'a')]), A([I(1), Tx(b'1')]), A([I(11)]), A([I(0)]), A([I(10), I(1), I(5)]), A([Tx(b'x')]), A([I(2), Tx(b'2')]), A([Tx(b'1'), Tx(b'2'), I(3)]), A([Tx('\uff211'.encode()), Tx('\U0001f600'.encode())]), A([Tx('\U0001f600'.encode()), Tx('\uff211'.encode())]), A([Tx(b'B'), Tx(b'a')]), I(1), A([B(b'')]), A([I(2**63)]), A([A([])])]
        pal = {2: [B(b''), B(b'k'), I(1), Tx(b'k')], 3: [I(-7), I(-65537), I(-65536), I(8), Tx(b'a'), B(b''), I(2**63)], 4: opsv, 5: [B(b''), B(b'iv'), ('null',)]}
        labels = [0, 6, -1, -2, -3, -4, -5, -6, -65537, 2**63 - 1, -2**63, 2**63, -2**64]
        for _ in range(budget(tier, 6000, 120000)):
            m = []
            kty = r.choice(ktys) if r.random() < 0.5 else I(r.choice([1, 2, 4]))
            if kty is not None: m.append((I(1), kty))
            for l in (2, 3, 4, 5):
                if r.random() < 0.3: m.append((I(l), r.choice(pal[l])))
            for _ in range(r.choice([0, 0, 1, 2])):
                m.append((I(r.choice(labels)) if r.random() < 0.8 else Tx(r.choice(TEXTS)), g.value(2)))
            if r.random() < 0.08 and m: m.append(r.choice(m))
            r.shuffle(m)
            v = ('map', m); b = refcbor.encode(v) if r.random() < 0.5 else g.venc(v)
            ops.append(mk('dec CoseKey b' + b.hex(), k='key'))
            if r.random() < 0.15:
                ks = [v] + [('map', [(I(1), I(r.choice([0, 1, 2, 7])))]) for _ in range(r.randint(0, 2))]
                r.shuffle(ks)
                ops.append(mk('dec CoseKeySet b' + g.venc(('array', ks)).hex(), k='keyset'))
        for v in (('map', []), I(1), A([]), A([I(1)]), A([('map', [])]), ('null',)):
            ops.append(mk('dec CoseKeySet b' + refcbor.encode(v).hex(), k='keyset')); ops.append(mk('dec CoseKey b' + refcbor.encode(v).hex(), k='key'))
        ops += dec_ops(g, r, budget(tier, 2000, 40000), types=['CoseKey', 'CoseKeySet'], mut=0.05)
        # a key under a tag, a key set under a tag, a bare key where a set belongs and a set where a key belongs (informed round 10: a
        # bare key accepted as the one-element set of it by the byte-level decoder only)
        for body in ('a10102', 'a2010420420102', 'a301040241310381' [:-2] if False else 'a3010402413103' + '26'):
            kb = bytes.fromhex(body)
            for w_ in tag_wraps(kb): ops.append(mk('dec CoseKey b' + w_.hex(), k='tag-wrapped'))
            for w_ in tag_wraps(b'\x81' + kb): ops.append(mk('dec CoseKeySet b' + w_.hex(), k='tag-wrapped'))
            ops.append(mk('dec CoseKeySet b' + body, k='bare-key')); ops.append(mk('dec CoseKey b81' + body, k='set-for-key')); ops.append(mk('dec CoseKeySet b8181' + body, k='bare-key'))
            ops.append(mk('dec CoseKeySet b' + refcbor.head(2, len(kb)).hex() + body, k='bare-key')); ops.append(mk('dec CoseKeySet b81' + refcbor.head(2, len(kb)).hex() + body, k='bare-key'))
        # repeated labels among neighbours of every kind (the stream of C12, restricted to keys): "pairwise distinct labels"
        ops += [mk(o['op'], k='dup-key') for o in C12().gen(seed + 3, tier) if o['meta'].get('k') == 'dup:CoseKey']
        # … and near-duplicates: distinct labels that a careless key for the seen-set would merge (the stream of C08, restricted to keys)
        ops += [mk(o['op'], k='near-dup') for o in C08().gen(seed + 5, 'quick') if o['meta'].get('k') == 'near-dup' and o['op'].startswith('dec CoseKey ')]
        return ops

# ===================================================================== C11
@register
class C11(Prop):
    pid = 'C11'
    def gen(self, seed, tier):
        r = random.Random(seed); g = T(seed, valid=1.0, orig_p=0.0); ops = []
        for _ in range(budget(tier, 6000, 100000)):
            t = r.choice(TYPED_TYPES)
            x = g.typed(t, wild=False)
            ops.append(mk('enc %s %s' % (t, x), k=t))
            if t in TAGGED and r.random() < 0.3: ops.append(mk('enct %s %s' % (t, x), k=t + ':tagged'))
            if r.random() < 0.2: ops.append(mk('tov %s %s' % (t, x), k=t + ':value'))
        for h in ('(hdr - (crit) - b b b (cs) (rest))', '(hdr - (crit) - b b b (cs (sig (ph - (hdr - (crit) - b b b (cs) (rest))) (hdr - (crit) - b b b (cs) (rest)) b)) (rest))', '(hdr - (crit) - b b b (cs) (rest i9 N))', '(hdr A-7 (crit) - b b b (cs) (rest))'):
            ops.append(mk('isempty ' + h, k='isempty')); ops.append(mk('tobstr (ph - %s)' % h, k='tobstr')); ops.append(mk('enc CoseSign1 (sign1 (ph - %s) %s - b)' % (h, h), k='protform'))
        # a header holding both an IV and a Partial IV is a legal in-memory value: each is emitted under its label (informed round 8)
        for alg in ('-', 'A1'):
            for piv in ('0a0b', '0c0d'):
                h = '(hdr %s (crit) - b b0102 b%s (cs) (rest))' % (alg, piv)
                for op in ('enc Header %s', 'tov Header %s', 'tobstr (ph - %s)', 'enc CoseSign1 (sign1 (ph - %s) (hdr - (crit) - b b b (cs) (rest)) - b)'): ops.append(mk(op % h, k='both-iv:stored'))
        # coincidences in built values: both header buckets alike, byte fields alike, identical list elements, identical texts
        for H in ('(hdr A-7 (crit) - b3131 b b (cs) (rest))', '(hdr - (crit) - b b b (cs) (rest i1000 t74726163652d37))', '(hdr A-7 (crit A1) A0 b0a b0a b (cs) (rest i99 b0a))', '(hdr A-7 (crit) - b0a b b0a (cs) (rest))'):
            sg = '(sig (ph - %s) %s b0a)' % (H, H); rc = '(rcp (ph - %s) %s b0a (rcps))' % (H, H)
            for op in ('enc CoseSign1 (sign1 (ph - %s) %s b0a b0a)' % (H, H), 'enc CoseMac0 (mac0 (ph - %s) %s b0a b0a)' % (H, H), 'enc CoseEncrypt0 (enc0 (ph - %s) %s b0a)' % (H, H),
                       'enc CoseSign (sign (ph - %s) %s b0a (sigs %s %s %s))' % (H, H, sg, sg, sg), 'enc CoseEncrypt (enc (ph - %s) %s b0a (rcps %s %s))' % (H, H, rc, rc),
                       'enc CoseMac (mac (ph - %s) %s b0a b0a (rcps %s %s %s))' % (H, H, rc, rc, rc), 'enc Header (hdr - (crit) - b b b (cs %s %s) (rest))' % (sg, sg), 'enct CoseSign1 (sign1 (ph - %s) %s b0a b0a)' % (H, H)):
                ops.append(mk(op, k='coincide'))
        for H in ('(hdr - (crit) - b0a0b b0a0b b (cs) (rest))', '(hdr - (crit) - b0a0b b b0a0b (cs) (rest))', '(hdr - (crit) - b01 b01 b (cs) (rest))', '(hdr - (crit) - b b07 b (cs) (rest i9 b07))'):
            for op in ('enc Header %s', 'tov Header %s', 'tobstr (ph - %s)', 'enc CoseSign1 (sign1 (ph - %s) (hdr - (crit) - b b b (cs) (rest)) b70 b01)', 'enc CoseEncrypt0 (enc0 (ph - %s) (hdr - (crit) - b b b (cs) (rest)) b70)', 'isempty %s'): ops.append(mk(op % H, k='coincide'))
        # an extra entry under the label of a typed field that is unset: emitted like any other (informed round 14: the Base IV arm of the key
        # encoder recorded the key_ops label as emitted)
        for kx in ('(key A4 b - (ops) b01 (params i4 b02 i-1 b03))', '(key A4 b - (ops) b (params i2 b01))', '(key A4 b01 - (ops) b (params i5 b02))', '(key A4 b - (ops A1) b (params i3 i-7))', '(key A4 b01 A-7 (ops) b (params i4 (arr i1) i5 b09))',
                   '(key A4 b - (ops) b01 (params i3 i-7 i4 (arr i2)))', '(key A4 b - (ops) b (params i5 b01 i4 (arr i1) i3 i1 i2 b02))'):
            for op in ('enc CoseKey %s', 'tov CoseKey %s', 'enc CoseKeySet (keyset %s)'): ops.append(mk(op % kx, k='typed-label-extra:stored'))
        for hx_ in ('(hdr - (crit) - b b b (cs) (rest i4 b01))', '(hdr - (crit) - b b01 b (cs) (rest i6 b02))', '(hdr - (crit) - b b b02 (cs) (rest i5 b01))', '(hdr A-7 (crit) - b b b (cs) (rest i3 i0 i2 (arr i1)))', '(hdr - (crit) A0 b b b (cs) (rest i1 i-7))'):
            for op in ('enc Header %s', 'tov Header %s', 'tobstr (ph - %s)'): ops.append(mk(op % hx_, k='typed-label-extra:stored'))
        # empty entries in lists of byte strings, at any index (informed round 13: SuppPrivInfo read back through the non-empty helper)
        for pv in ('b', 'b b', 'b010203 b', 'b b010203', 'b01 b b02'):
            ops.append(mk('enc CoseKdfContext (kdf A1 (party - - -) (party b b b) (supp i128 (ph - %s) b) (priv %s))' % (C02.EMPTY, pv), k='empty-entry'))
        for op in ('enc PartyInfo (party b b b)', 'enc SuppPubInfo (supp i0 (ph - %s) b)' % C02.EMPTY, 'enc ClaimsSet (cwt t t t - - - b (rest))', 'enc CoseSign1 (sign1 (ph - %s) %s b b)' % (C02.EMPTY, C02.EMPTY), 'enc CoseMac0 (mac0 (ph - %s) %s b b)' % (C02.EMPTY, C02.EMPTY),
                   'enc CoseEncrypt0 (enc0 (ph - %s) %s b)' % (C02.EMPTY, C02.EMPTY), 'enc CoseKey (key A4 b - (ops) b (params i-1 b))'): ops.append(mk(op, k='empty-entry'))
        for op in ('enc CoseKey (key A4 b0a - (ops) b0a (params i-1 b0a i-2 b0a))', 'enc CoseKeySet (keyset (key A4 b0a - (ops) b (params)) (key A4 b0a - (ops) b (params)) (key A4 b0a - (ops) b (params)))',
                   'enc ClaimsSet (cwt t61 t61 t61 W5 W5 W5 b61 (rest))', 'enc ClaimsSet (cwt t t t W0 W0 W0 b (rest))', 'enc PartyInfo (party b0a b0a b0a)', 'enc CoseKdfContext (kdf A1 (party b0a b0a b0a) (party b0a b0a b0a) (supp i128 (ph - %s) b0a) (priv b0a b0a))' % C02.EMPTY,
                   'enc ClaimsSet (cwt - - - F3ff8000000000000 F3ff8000000000000 F3ff8000000000000 - (rest))'):
            ops.append(mk(op, k='coincide'))
        # built values nested 15 / 16 levels deep through counter signatures, at every header slot of every structure and of its signers /
        # recipients: the output decodes again (informed round 11: signers of a COSE_Sign given one level less)
        E0 = C02.EMPTY
        def deep_hdr(k, prot):
            h = '(hdr - (crit) - b0b b b (cs) (rest))'
            for i in range(k):
                sgx = '(sig (ph - %s) %s b%02x)' % (h if prot(i) else E0, E0 if prot(i) else h, i)
                h = '(hdr - (crit) - b b b (cs %s) (rest))' % sgx
            return h
        for kk in (15, 16):
            for nm, prot in (('u', lambda i: False), ('p', lambda i: True), ('m', lambda i: i % 3 == 0)):
                D = deep_hdr(kk, prot)
                sgD = ['(sig (ph - %s) %s b01)' % (E0, D), '(sig (ph - %s) %s b01)' % (D, E0)]; rcD = ['(rcp (ph - %s) %s b01 (rcps))' % (E0, D), '(rcp (ph - %s) %s - (rcps))' % (D, E0)]
                forms_d = [('Header', D), ('CoseSign1', '(sign1 (ph - %s) %s b70 b01)' % (E0, D)), ('CoseSign1', '(sign1 (ph - %s) %s - b01)' % (D, E0)), ('CoseMac0', '(mac0 (ph - %s) %s b70 b01)' % (D, E0)), ('CoseEncrypt0', '(enc0 (ph - %s) %s b70)' % (E0, D)),
                           ('CoseSign', '(sign (ph - %s) %s b70 (sigs))' % (D, E0)), ('CoseEncrypt', '(enc (ph - %s) %s b70 (rcps))' % (E0, D)), ('CoseMac', '(mac (ph - %s) %s b70 b01 (rcps))' % (D, E0)),
                           ]
                for sg_ in sgD: forms_d += [('CoseSignature', sg_), ('CoseSign', '(sign (ph - %s) %s b70 (sigs %s))' % (E0, E0, sg_)), ('CoseSign', '(sign (ph - %s) %s b70 (sigs (sig (ph - %s) %s b00) %s))' % (E0, E0, E0, E0, sg_))]
                for rc_ in rcD: forms_d += [('CoseRecipient', rc_), ('CoseEncrypt', '(enc (ph - %s) %s b70 (rcps %s))' % (E0, E0, rc_)), ('CoseMac', '(mac (ph - %s) %s b70 b01 (rcps %s))' % (E0, E0, rc_)),
                                            ('CoseRecipient', '(rcp (ph - %s) %s b70 (rcps %s))' % (E0, E0, rc_)), ('CoseEncrypt', '(enc (ph - %s) %s b70 (rcps (rcp (ph - %s) %s b70 (rcps %s))))' % (E0, E0, E0, E0, rc_))]
                forms_d += [('SuppPubInfo', '(supp i128 (ph - %s) -)' % D), ('CoseKdfContext', '(kdf A1 (party - - -) (party - - -) (supp i128 (ph - %s) -) (priv))' % D)]
                for t_, x_ in forms_d:
                    if x_ is not None: ops.append(mk('enc %s %s' % (t_, x_), k='deep-built', n=kk))
        # long lists inside built values: every element is emitted (counter signatures, critical labels, signers, recipients, key
        # operations would need distinct registered values, extra parameters, SuppPrivInfo)
        E = C02.EMPTY
        for n in (15, 16, 17, 18, 23, 24, 25, 100, 255, 256, 257):
            sigs = ''.join(' (sig (ph - %s) %s b%04x)' % (E, E, i) for i in range(n)); rcps = ''.join(' (rcp (ph - %s) %s b%04x (rcps))' % (E, E, i) for i in range(n))
            for op in ('enc Header (hdr - (crit) - b b b (cs%s) (rest))' % sigs, 'tobstr (ph - (hdr - (crit) - b b b (cs%s) (rest)))' % sigs, 'enc CoseSign (sign (ph - %s) %s b70 (sigs%s))' % (E, E, sigs),
                       'enc CoseEncrypt (enc (ph - %s) %s b70 (rcps%s))' % (E, E, rcps), 'enc CoseMac (mac (ph - %s) %s b70 b71 (rcps%s))' % (E, E, rcps), 'enc CoseRecipient (rcp (ph - %s) %s b70 (rcps%s))' % (E, E, rcps),
                       'enc Header (hdr - (crit%s) - b b b (cs) (rest))' % ''.join(' A%d' % (1 + i % 7) for i in range(n)), 'enc Header (hdr - (crit) - b b b (cs) (rest%s))' % ''.join(' i%d N' % (1000 + i) for i in range(n)),
                       'enc CoseKey (key A1 b - (ops) b (params%s))' % ''.join(' i%d N' % (1000 + i) for i in range(n))):
                ops.append(mk(op, k='long-built', n=n))
        # values as the decoders produce them: protected headers that carry stored wire bytes — the empty string included (what `40`
        # decodes to) — at every carrier and as a value of their own (seeded C11-r5: re-parsing the stored bytes fails on the empty string)
        g2 = T(seed + 7, valid=1.0, orig_p=0.6)
        E = C02.EMPTY
        for ph in ('(ph b %s)' % E, '(ph ba0 %s)' % E, '(ph ba10126 (hdr A-7 (crit) - b b b (cs) (rest)))', '(ph bbf0126ff (hdr A-7 (crit) - b b b (cs) (rest)))', '(ph b (hdr A-7 (crit) - b b b (cs) (rest)))'):
            for op in ('enc', 'tov'): ops.append(mk('%s ProtectedHeader %s' % (op, ph), k='ProtectedHeader:stored'))
            ops.append(mk('tobstr ' + ph, k='tobstr')); ops.append(mk('enc CoseSign1 (sign1 %s %s - b)' % (ph, E), k='protform'))
            ops.append(mk('enc SuppPubInfo (supp i16 %s -)' % ph, k='SuppPubInfo'))
        for _ in range(budget(tier, 800, 15000)):
            t = r.choice(TYPED_TYPES); x = g2.typed(t, wild=False)
            ops.append(mk('enc %s %s' % (t, x), k=t + ':stored'))
            if r.random() < 0.3: ops.append(mk('tov %s %s' % (t, x), k=t + ':stored-value'))
        return ops
    def impl_pred(self, o, impl):
        # definite-length, shortest-head output and decode(encode(v)) == fill(v): strict parse by the reference codec
        if o['op'].startswith(('enc ', 'enct ')) and impl.startswith('ok b'):
            b = bytes.fromhex(impl[4:])
            d = refcbor.decode(b)
            if d[0] != 'ok': return 'encoder output is not one well-formed CBOR item'
            if refcbor.encode(d[1]) != b: return 'encoder output is not deterministic definite-length CBOR'
        return None

def _c11_followups(self, ops, impl):
    out = []
    for o, a in zip(ops, impl):
        if o['op'].startswith('enc ') and a.startswith('ok b') and 'stored' not in o['meta'].get('k', ''):     # stored bytes need not be a header at all
            t = o['op'].split(' ')[1]
            out.append(mk('chain %s %s' % (t, a[3:]), k='roundtrip:' + t, src=o['op'][:200], wire=a[4:]))
    return out
C11.followups = _c11_followups
_c11_pred = C11.impl_pred
def _c11_pred2(self, o, impl):
    if o['meta'].get('k', '').startswith('roundtrip:'):
        if not impl.startswith('ok '): return 'encoding of a well-formed value does not decode'
        it = parse(impl)
        if len(it) < 4 or it[2] != 'ok' or it[3] != 'b' + o['meta']['wire']: return 'decode(encode(v)) does not re-encode to the same bytes'
        return None
    return _c11_pred(self, o, impl)
C11.impl_pred = _c11_pred2

# ===================================================================== C12
@register
class C12(Prop):
    pid = 'C12'
    model_is_spec = False
    def gen(self, seed, tier):
        r = random.Random(seed); g = T(seed, valid=1.0, orig_p=0.0); ops = []   # stored protected bytes are opaque (C02), not encoder output
        I = lambda x: ('int', x)
        labs = [0, 1, 2, 3, 4, 5, 6, 7, 8, 9, 24, 256, 65536, -1, -24, -25, -65537, 2**63 - 1, -2**63]
        def key_encs(l):
            if isinstance(l, int): return [e for e in int_encodings(l) if e[0] not in (0xc2, 0xc3)]
            b = l; out = [refcbor.head(3, len(b)) + b, b'\x78' + bytes([len(b)]) + b]
            if len(b) >= 2: out.append(b'\x7f' + refcbor.head(3, 1) + b[:1] + refcbor.head(3, len(b) - 1) + b[1:] + b'\xff')
            return out
        vals = [b'\xf6', b'\x00', b'\x40', b'\x41\x01', b'\x26', b'\x80', b'\xa0', b'\x61a']
        # the other entries: labels of both kinds on both sides of the repeated one in every order the crate knows (integer value,
        # text length, text bytes), so that a lookup which depends on arrival order, on the running maximum or on a comparison that
        # is not antisymmetric misses the repeat (seeded C07-r5, C08-r5, C12-r5)
        OTHERS = [99, 100, 101, 102, 103, 104, -99, 10, 11, 23, 25, 255, 257, -2, -26, 70000, -70000, b'b', b'ab', b'abc', b'z', b'aa', b'ba', 'é'.encode(), b'zz', b'a' * 24]
        # … and every small integer and every value registered in any IANA table of the crate as a neighbour (informed round 9: a
        # neighbour that is a registered CBOR tag number emptied the seen-set)
        regvals = sorted(set(v for name in ('CborTag', 'HeaderParameter', 'KeyParameter', 'KeyType', 'Algorithm', 'CwtClaimName', 'EllipticCurve', 'KeyOperation', 'CoapContentFormat') for v in reg_values(name)))
        OTHERS = OTHERS + [v for v in list(range(8, 130)) + regvals if v not in OTHERS and not (0 <= v <= 7)]
        # valid values of every form for the typed labels, so that the first occurrence is processed, not refused
        TYPED = {1: [b'\x26', b'\x01'], 2: [b'\x81\x01', b'\x82\x01\x04'], 3: [b'\x00', b'\x63a/b'], 4: [b'\x41\x01', b'\x42\x31\x31'], 5: [b'\x41\x02'], 6: [b'\x41\x03'],
                 7: [b'\x83\x40\xa0\x40', b'\x81\x83\x40\xa0\x40', b'\x82\x83\x40\xa0\x40\x83\x40\xa0\x41\x01']}
        def dupmap(t):
            n = r.choice([2, 2, 3, 3, 4, 6])
            lab = r.choice(labs) if r.random() < 0.7 else r.choice([b'a', b'ab', b'claim', b'', b'b', b'zz'])
            i, j = sorted(r.sample(range(n), 2))
            pool = [x for x in OTHERS if x != lab]; r.shuffle(pool)
            ent = []
            for p in range(n):
                if p in (i, j): ent.append(r.choice(key_encs(lab)) + (r.choice(TYPED[lab]) if (lab in TYPED and r.random() < 0.7) else r.choice(vals)))
                else:
                    o = pool.pop()
                    ent.append((refcbor.encode(I(o)) if isinstance(o, int) else refcbor.head(3, len(o)) + o) + r.choice(vals[:4]))
            return refcbor.head(5, n) + b''.join(ent)
        for _ in range(budget(tier, 6000, 100000)):
            t = r.choice(['Header', 'CoseKey', 'ClaimsSet', 'prot', 'sig', 'rcp', 'csig', 'unprot'])
            m = dupmap(t)
            if t in ('Header', 'CoseKey', 'ClaimsSet'): ops.append(mk('dec %s b%s' % (t, m.hex()), k='dup:' + t, dup=True))
            elif t == 'prot': ops.append(mk('dec CoseSign1 b' + (b'\x84' + refcbor.head(2, len(m)) + m + b'\xa0\xf6\x40').hex(), k='dup:prot', dup=True))
            elif t == 'unprot': ops.append(mk('dec CoseMac0 b' + (b'\x84\x40' + m + b'\xf6\x40').hex(), k='dup:unprot', dup=True))
            elif t == 'sig': ops.append(mk('dec CoseSign b' + (b'\x84\x40\xa0\xf6\x81\x83' + refcbor.head(2, len(m)) + m + b'\xa0\x40').hex(), k='dup:sig', dup=True))
            elif t == 'rcp': ops.append(mk('dec CoseEncrypt b' + (b'\x84\x40\xa0\xf6\x81\x83\x40' + m + b'\xf6').hex(), k='dup:rcp', dup=True))
            else:
                cs = b'\x83' + refcbor.head(2, len(m)) + m + b'\xa0\x40'
                ops.append(mk('dec Header b' + (b'\xa1\x07' + cs).hex(), k='dup:csig', dup=True))
        # the repeated label at every nesting level down to the deepest permitted one, through every carrier form (informed round 10: the
        # duplicate lookup skipped where the nesting budget is used up)
        for _ in range(budget(tier, 600, 8000)):
            m = dupmap('Header'); k = r.choice([1, 2, 3, 8, 15, 15, 16, 16, 16]); pat = r.choice(NEST_PATTERNS)
            h = nestG(k, pat, inner=m)
            c = r.random()
            if c < 0.4: ops.append(mk('dec Header b' + h.hex(), k='dup:deep', dup=True, n=k))
            elif c < 0.7: ops.append(mk('dec CoseSign1 b' + (b'\x84\x40' + h + b'\xf6\x40').hex(), k='dup:deep', dup=True, n=k))
            else: ops.append(mk('dec CoseEncrypt0 b' + (b'\x83' + refcbor.head(2, len(h)) + h + b'\xa0\xf6').hex(), k='dup:deep', dup=True, n=k))
        # a repeated label in one bucket beside a fault in the other (or in a later slot): what is examined first in the crate's order decides
        # (informed round 14: the protected bucket of a signature converted before the unprotected one)
        for _ in range(budget(tier, 300, 4000)):
            m = dupmap('Header'); badp = r.choice([b'\x41\x01', b'\x43\xa1\x01\x00'[:0] + b'\x42\xa1\x01', b'\x00', b'\x41\x80'])
            for hx in (b'\x83' + badp + m + b'\x40', b'\x83\x40' + m + b'\x00', b'\x83' + refcbor.head(2, len(m)) + m + b'\x00\x40', b'\x83' + refcbor.head(2, len(m)) + m + b'\xa0\x00'):
                ops.append(mk('dec CoseSignature b' + hx.hex(), k='dup:sibling-fault', dup=True)); ops.append(mk('dec CoseSign b' + (b'\x84\x40\xa0\xf6\x81' + hx).hex(), k='dup:sibling-fault', dup=True))
                ops.append(mk('dec Header b' + (b'\xa1\x07' + hx).hex(), k='dup:sibling-fault', dup=True))
            for hx in (b'\x84' + badp + m + b'\xf6\x40', b'\x84\x40' + m + b'\x00\x40', b'\x84\x40' + m + b'\xf6\x00'):
                ops.append(mk('dec CoseSign1 b' + hx.hex(), k='dup:sibling-fault', dup=True)); ops.append(mk('dec CoseMac0 b' + hx.hex(), k='dup:sibling-fault', dup=True))
        # encode side: extras repeating a label / naming a typed label
        for _ in range(budget(tier, 2500, 40000)):
            c = r.random()
            l = r.choice(['i1', 'i2', 'i3', 'i4', 'i5', 'i6', 'i7', 'i8', 'i0', 'i-1', 't61', 'i99'])
            if c < 0.4:
                h = g.hdr(1, wild=False, empty_p=0.0)
                h2 = h[:h.rindex('(rest')] + '(rest %s N %s)' % (l, ' '.join([r.choice([l, 'i98', 't62']), 'i1'])) + ')'
                ops.append(mk(r.choice(['enc Header %s', 'tov Header %s', 'enc CoseSign1 (sign1 (ph - %s) (hdr - (crit) - b b b (cs) (rest)) - b)', 'tobstr (ph - %s)']) % h2, k='encdup:hdr', encdup=True))
            elif c < 0.7:
                k = g.tkey(wild=False)
                k2 = k[:k.rindex('(params')] + '(params %s N %s)' % (l, ' '.join([r.choice([l, 'i98']), 'i1'])) + ')'
                ops.append(mk(r.choice(['enc CoseKey %s', 'tov CoseKey %s', 'enc CoseKeySet (keyset %s)']) % k2, k='encdup:key', encdup=True))
            else:
                cl = g.cwt(wild=False)
                nm = r.choice(['A1', 'A2', 'A4', 'A7', 'A8', 'A38', 'P-65537', 'X61'])
                c2 = cl[:cl.rindex('(rest')] + '(rest %s N %s)' % (nm, ' '.join([r.choice([nm, 'A9']), 'i1'])) + ')'
                ops.append(mk(r.choice(['enc ClaimsSet %s', 'tov ClaimsSet %s']) % c2, k='encdup:cwt', encdup=True))
        return ops
    def judge(self, o, impl, model):
        # "rejects, with the duplicate-key error": where the proved model reports the repeat, so must the implementation
        if o['meta'].get('dup') and model == 'err Dup' and impl is not None and impl.startswith('err') and impl != 'err Dup':
            return ('fail', 'a repeated label was refused with %s, not with the duplicate-key error' % impl)
        return super().judge(o, impl, model)
    def impl_pred(self, o, impl):
        if o['meta'].get('dup') and impl.startswith('ok'): return 'map with a repeated label was accepted'
        if o['meta'].get('encdup') and impl.startswith('ok'):
            items = parse(impl)
            x = items[1]
            try:
                v = refcbor.decode(bytes.fromhex(x[1:]))[1] if isinstance(x, str) and x.startswith('b') else forms.sx_value(x)
            except Exception:
                return None
            if isinstance(x, str) and v[0] == 'bytes': v = refcbor.decode(v[1])[1] if v[1] else ('map', [])
            bad = dup_in_maps(v, o['op'])
            if bad: return 'encoder emitted a map with a repeated key: ' + bad
        return None

def _keys_dup(m):
    ks = [vsx(k) for k, _ in m]
    for k in ks:
        if ks.count(k) > 1: return k
    return None
def hdr_dups(v):
    if v[0] != 'map': return None
    d = _keys_dup(v[1])
    if d: return d
    for k, x in v[1]:
        if k == ('int', 7) and x[0] == 'array' and x[1]:
            sigs = [x] if x[1][0][0] == 'bytes' else x[1]
            for sg in sigs:
                d = sig_dups(sg)
                if d: return d
    return None
def prot_dups(b):
    if b[0] != 'bytes' or not b[1]: return None
    dd = refcbor.decode(b[1])
    return hdr_dups(dd[1]) if dd[0] == 'ok' else None
def sig_dups(a):
    if a[0] != 'array' or len(a[1]) < 2: return None
    return prot_dups(a[1][0]) or hdr_dups(a[1][1])
def rcp_dups(a):
    d = sig_dups(a)
    if d: return d
    if a[0] == 'array' and len(a[1]) == 4 and a[1][3][0] == 'array':
        for r_ in a[1][3][1]:
            d = rcp_dups(r_)
            if d: return d
    return None
def dup_in_maps(v, op):
    """first duplicate key in a coset-level map (header maps at every nesting position, key maps, claims maps)"""
    t = op.split(' ')[1] if op.split(' ')[0] in ('enc', 'tov', 'enct') else 'ProtectedHeader'
    if t in ('Header', 'ProtectedHeader'): return hdr_dups(v)
    if t == 'CoseKey': return _keys_dup(v[1]) if v[0] == 'map' else None
    if t == 'CoseKeySet':
        for k in (v[1] if v[0] == 'array' else []):
            d = _keys_dup(k[1]) if k[0] == 'map' else None
            if d: return d
        return None
    if t == 'ClaimsSet': return _keys_dup(v[1]) if v[0] == 'map' else None
    if v[0] == 'array':
        d = sig_dups(v)
        if d: return d
        for x in v[1][2:]:
            if x[0] == 'array':
                for y in x[1]:
                    d = rcp_dups(y)
                    if d: return d
    return None

def c12_known(case, f):
    return case['meta'].get('encdup') and 'repeated key' in case['why'] and case['meta'].get('k') in f.get('kinds', [])
P.KNOWN_PRED['c12-encode-dup'] = c12_known
P.WITNESS_PRED['c12-encode-dup'] = lambda w, impl, f: C12().impl_pred(dict(op=w, meta=dict(encdup=True)), impl) is not None

# ===================================================================== C13
@register
class C13(Prop):
    pid = 'C13'
    model_is_spec = False
    def gen(self, seed, tier):
        r = random.Random(seed); g = T(seed, valid=1.0); ops = []
        for _ in range(budget(tier, 500, 8000)):
            t = r.choice(BYTE_TYPES)
            b = g.venc(g.wire(t))
            ops.append(mk('layer %s b%s' % (t, b.hex()), k='layer', base=True, hexb=b.hex(), t=t))
            cuts = range(len(b)) if len(b) <= 40 else sorted(r.sample(range(len(b)), 40))
            for k in cuts: ops.append(mk('dec %s b%s' % (t, b[:k].hex()), k='prefix', parent=b.hex(), t=t))
            for s in (b'\x00', b'\xff', b'\xf6', b'\x40', b, bytes([r.randrange(256)]), b'\xa0'):
                ops.append(mk('dec %s b%s' % (t, (b + s).hex()), k='suffix', parent=b.hex(), t=t))
            if t in TAGGED:
                tb = g.vhead(6, TAGGED[t]) + b
                ops.append(mk('dect %s b%s' % (t, tb.hex()), k='tbase', base=True, hexb=tb.hex(), t=t))
                ops.append(mk('dect %s b%s' % (t, (tb + b'\x00').hex()), k='tsuffix', parent=tb.hex(), t=t))
                ops.append(mk('dect %s b%s' % (t, tb[:-1].hex()), k='tprefix', parent=tb.hex(), t=t))
        for _ in range(budget(tier, 800, 10000)):
            t = r.choice(TYPED_TYPES)
            ops.append(mk('layer %s b%s' % (t, g.venc(g.wire(t)).hex()), k='layer'))
        # every type's valid encoding handed to every other type's decoder, at both layers (informed round 10: the byte-level decoder of
        # COSE_KeySet accepted a bare key as the one-element set; the value-level one did not)
        for t1 in BYTE_TYPES:
            bodies = [g.venc(g.wire(t1)) for _ in range(budget(tier, 2, 8))]
            if t1 == 'CoseKey': bodies += [bytes.fromhex('a10102'), bytes.fromhex('a2010420420102')]
            for b in bodies:
                for t2 in BYTE_TYPES:
                    if t2 != t1: ops.append(mk('layer %s b%s' % (t2, b.hex()), k='layer', cross=t1))
                for t2 in ('CoseKeySet', 'CoseSign', 'CoseEncrypt', 'Header'):
                    ops.append(mk('layer %s b%s' % (t2, (b'\x81' + b).hex()), k='layer', cross=t1)); ops.append(mk('layer %s b%s' % (t2, (refcbor.head(2, len(b)) + b).hex()), k='layer', cross=t1))
        # a correctly tagged item under another tag is not a tagged item of the type (informed round 9: the tagged byte-level decoder
        # retried on the content of a wrong tag)
        for t, tag in TAGGED.items():
          for body in (bytes.fromhex({'CoseSign': '8443a10126a0f6818340a04101', 'CoseSign1': '8443a10126a0f64101', 'CoseEncrypt': '8440a0f6818340a0f6', 'CoseEncrypt0': '8340a0f6', 'CoseMac': '8540a0f64101818340a0f6', 'CoseMac0': '8440a0f64101'}[t]), g.venc(g.wire(t))):
              for outer in (0, 61, 55799, 24, 2**32, tag + 1):
                  ops.append(mk('dect %s b%s' % (t, (refcbor.head(6, outer) + refcbor.head(6, tag) + body).hex()), k='outer-tag', must_reject=True))
                  ops.append(mk('dect %s b%s' % (t, (refcbor.head(6, outer) + refcbor.head(6, outer) + refcbor.head(6, tag) + body).hex()), k='outer-tag', must_reject=True))
        # the right tag over any tag over a byte string holding the encoding / over a one-element array / over the bare byte string
        for t, tag in TAGGED.items():
            body = bytes.fromhex({'CoseSign': '8443a10126a0f6818340a04101', 'CoseSign1': '8443a10126a0f64101', 'CoseEncrypt': '8440a0f6818340a0f6', 'CoseEncrypt0': '8340a0f6', 'CoseMac': '8540a0f64101818340a0f6', 'CoseMac0': '8440a0f64101'}[t])
            wb = refcbor.head(2, len(body)) + body
            for t2 in all_tags(): ops.append(mk('dect %s b%s' % (t, (refcbor.head(6, tag) + refcbor.head(6, t2) + wb).hex()), k='wrapped-body', must_reject=True))
            for inner in (wb, b'\x81' + body, refcbor.head(6, 24) + refcbor.head(6, 24) + wb, refcbor.head(2, len(wb)) + wb): ops.append(mk('dect %s b%s' % (t, (refcbor.head(6, tag) + inner).hex()), k='wrapped-body', must_reject=True))
            # an array / a map that pairs the tag number with the body is not a tagged item (informed round 13: `deserialized` into a pair)
            th = refcbor.head(0, tag)
            for fake in (b'\x82' + th + body, b'\x83' + th + body + b'\x00', b'\x9f' + th + body + b'\xff', b'\xa1' + th + body, b'\x82\xc2\x41' + bytes([tag % 256]) + body, b'\x82' + refcbor.head(3, 2) + str(tag).encode()[:2].ljust(2, b' ') + body):
                ops.append(mk('dect %s b%s' % (t, fake.hex()), k='fake-tag', must_reject=True))
        # tag numbers that alias the registered one under a narrowing to 8 / 16 / 32 bits (informed round 11: `t as u32 != TAG as u32`)
        SIMPLE = {'CoseSign': '8443a10126a0f6818340a04101', 'CoseSign1': '8443a10126a0f64101', 'CoseEncrypt': '8440a0f6818340a0f6', 'CoseEncrypt0': '8340a0f6', 'CoseMac': '8540a0f64101818340a0f6', 'CoseMac0': '8440a0f64101'}
        for t, tag in TAGGED.items():
          for body in (bytes.fromhex(SIMPLE[t]), g.venc(g.wire(t)), refcbor.encode(g.wire(t))):
              for tg in (tag + 2**8, tag + 2**16, tag + 2**32, tag + 2**33, tag + 2**63, tag + (r.randrange(1, 2**31) << 32), (tag << 8) | tag, tag << 32, 2**64 - tag):
                  for hd in head_variants(6, tg): ops.append(mk('dect %s b%s' % (t, (hd + body).hex()), k='alias-tag', must_reject=True))
        # nesting around the parser's budget: the byte-level decoders and parse-then-convert agree there too (informed-adversary
        # round: `from_reader_with_recursion_limit(slice.len())` in read_to_value accepts what ciborium's own entry point refuses)
        for d in (254, 255, 256, 257, 258, 300, 1000):
            deep = b'\x81' * d + b'\x00'
            for t, b in (('Value', deep), ('Header', b'\xa1\x18\x64' + deep), ('CoseSign1', b'\x84\x40\xa1\x18\x64' + deep + b'\xf6\x40'), ('CoseKey', b'\xa2\x01\x01\x18\x64' + deep), ('ClaimsSet', b'\xa1\x18\x64' + deep)):
                ops.append(mk('layer %s b%s' % (t, b.hex()), k='layer', depth=d))
        # encode side on values as the decoders leave them (protected headers holding stored bytes, at every carrier and alone):
        # to_vec must be the serialisation of to_cbor_value (seeded C13-r5: to_vec of a ProtectedHeader echoing the stored bytes)
        g2 = T(seed + 11, valid=1.0, orig_p=0.7); E = C02.EMPTY
        forms_ = [('ProtectedHeader', ph) for ph in ('(ph b %s)' % E, '(ph ba0 %s)' % E, '(ph ba1013806 (hdr A-7 (crit) - b b b (cs) (rest)))', '(ph ba10126 (hdr A-7 (crit) - b3131 b b (cs) (rest)))', '(ph - (hdr A-7 (crit) - b b b (cs) (rest)))')]
        for _ in range(budget(tier, 300, 5000)):
            t = r.choice(TYPED_TYPES); forms_.append((t, g2.typed(t, wild=False)))
        for i, (t, x) in enumerate(forms_):
            ops.append(mk('tov %s %s' % (t, x), k='pair-value', pair=i)); ops.append(mk('enc %s %s' % (t, x), k='pair-bytes', pair=i))
        return ops
    def __init__(self): self.accepted = {}; self.pairs = {}
    def judge(self, o, impl, model):
        m = o['meta']
        if m.get('base'):
            self.accepted[(m['t'], m['hexb'], o['op'].split(' ')[0])] = impl.startswith('ok')
        if m.get('k') == 'layer' and impl not in ('bad-op',):
            it = parse(impl)
            half = [i for i, x in enumerate(it) if x in ('ok', 'err', 'panic')]
            # R1 R2 [E1 E2]
            rs = []
            i = 0
            while i < len(it):
                if it[i] == 'panic': rs.append('panic'); i += 1
                else: rs.append(render(it[i + 1]) if it[i] == 'ok' else 'err ' + it[i + 1]); i += 2
            if len(rs) >= 2 and rs[0] != rs[1]: return ('fail', 'from_slice differs from parse-then-convert')
            if len(rs) == 4 and rs[2] != rs[3]: return ('fail', 'to_vec differs from convert-then-serialise')
        if m.get('must_reject') and impl.startswith('ok'): return ('fail', 'an item that is not the type\'s tag applied once to an accepted body was accepted by the tagged byte-level decoder')
        if m.get('k') == 'pair-value': self.pairs[m['pair']] = impl
        if m.get('k') == 'pair-bytes' and m['pair'] in self.pairs:
            tv = self.pairs.pop(m['pair']); m['value_layer'] = tv[:400]      # kept in the replay: what `tov` of the same value gave
            if tv.startswith('ok ') != impl.startswith('ok b'):
                if not (tv.startswith('panic') or impl.startswith('panic')): return ('fail', 'to_vec and to_cbor_value disagree on whether the value can be encoded')
            elif tv.startswith('ok '):
                try: want = refcbor.encode(forms.sx_value(parse(tv)[1])).hex()
                except Exception: want = None
                if want is not None and want != impl[4:]: return ('fail', 'to_vec differs from convert-then-serialise')
        if m.get('k') in ('suffix', 'tsuffix'):
            op = 'layer' if m['k'] == 'suffix' else 'dect'
            if self.accepted.get((m['t'], m['parent'], op)) and impl != 'err Extra': return ('fail', 'accepted input plus a suffix was not rejected with the extraneous-data error')
        if m.get('k') in ('prefix', 'tprefix'):
            op = 'layer' if m['k'] == 'prefix' else 'dect'
            if self.accepted.get((m['t'], m['parent'], op)) and impl.startswith('ok'): return ('fail', 'a proper prefix of an accepted input was accepted')
        return super().judge(o, impl, model)

from props_streams3 import *   # noqa
