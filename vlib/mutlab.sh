#!/bin/sh
# Isolated lab for trying seeded changes without touching /repo or /verif's build directories:
#   mutlab.sh sync                   copy the current /verif (with its build output) to $LAB/verif and clone /repo to $LAB/repo
#   mutlab.sh try <patch> <Cxx>...   apply the patch to $LAB/repo, run the named checks of $LAB/verif against it, undo
#   mutlab.sh confirm <worktree>     suite passes with the change, demo fails with it, demo passes without it
# (the final confirmation of every kept change is still done against /repo itself with trymut.sh)
LAB=${MUTLAB:-/tmp/mutlab}
cmd="$1"; shift
case "$cmd" in
sync)
  mkdir -p "$LAB"
  rsync -a --delete --exclude .git --exclude replays /verif/ "$LAB/verif/"
  if [ -d "$LAB/repo/.git" ]; then (cd "$LAB/repo" && git checkout -q -- . && git fetch -q /repo HEAD && git checkout -q --detach FETCH_HEAD)
  else git clone -q /repo "$LAB/repo"; fi
  sed -i "s#path = \"/repo\"#path = \"$LAB/repo\"#" "$LAB/verif/harness/Cargo.toml"
  sed -i "s#/verif/.cache#$LAB/verif/.cache#" "$LAB/verif/harness/.cargo/config.toml"
  echo "lab synced at $(git -C /verif rev-parse --short HEAD) / $(git -C "$LAB/repo" rev-parse --short HEAD)"
  ;;
try)
  P="$1"; shift
  cd "$LAB/repo" && git checkout -q -- . && git apply "$P" || exit 2
  for c in "$@"; do (cd "$LAB/verif" && VERIF_REPO="$LAB/repo" python3 check.py $c 2>&1 | grep -E "VIOLATION|KNOWN|ok:|FAIL" | cut -c1-260); done
  cd "$LAB/repo" && git checkout -q -- . && git status --short | head -3
  ;;
confirm)
  sh /verif/vlib/confirm_mut.sh "$1"
  ;;
esac
