#!/usr/bin/env python3
"""coverage.py — which lines of /repo/src do the correspondence streams actually execute?
Builds the harness with `-C instrument-coverage` (nightly toolchain: its llvm-tools match), runs every property's quick stream
(plus follow-ups) through it, and reports per-file line coverage and the uncovered lines of non-test source.  A development aid for
strengthening streams (DESIGN.md §12); not part of any registered check."""
import sys, os, subprocess, json, shutil, glob
VERIF = os.path.dirname(os.path.dirname(os.path.abspath(__file__)))
sys.path.insert(0, os.path.join(VERIF, 'vlib'))
import props as P, run as R
WORK = os.environ.get('COV_DIR', '/tmp/cov')
TOOLS = glob.glob(os.path.expanduser('~/.rustup/toolchains/nightly-x86_64-unknown-linux-gnu/lib/rustlib/*/bin'))[0]
def sh(c, **kw): return subprocess.run(c, shell=True, stdout=subprocess.PIPE, stderr=subprocess.STDOUT, **kw).stdout.decode()
def main():
    tier = sys.argv[1] if len(sys.argv) > 1 else 'quick'
    os.makedirs(WORK, exist_ok=True)
    h = os.path.join(WORK, 'harness')
    shutil.rmtree(h, ignore_errors=True); shutil.copytree(os.path.join(VERIF, 'harness'), h)
    cfg = os.path.join(h, '.cargo', 'config.toml')
    s = open(cfg).read().replace('/verif/.cache/cargo-target', WORK + '/target').replace('"coset_verif"]', '"coset_verif", "-C", "instrument-coverage"]')
    open(cfg, 'w').write(s)
    print(sh('cd %s && cargo +nightly build --offline --quiet 2>&1 | grep -E "^error" -A5' % h))
    binp = os.path.join(WORK, 'target', 'debug', 'coset-harness')
    for f in glob.glob(WORK + '/*.profraw'): os.remove(f)
    seed = int(os.environ.get('VERIF_SEED', '20260929'))
    for pid in sorted(P.PROPS):
        prop = P.PROPS[pid]
        ops = prop.gen(seed, tier)
        lines = [o['op'] for o in ops]
        env = dict(os.environ, LLVM_PROFILE_FILE='%s/%s-%%p.profraw' % (WORK, pid))
        p = subprocess.run([binp], input=('\n'.join(lines) + '\n').encode(), stdout=subprocess.PIPE, stderr=subprocess.PIPE, env=env)
        out = p.stdout.decode().split('\n')
        if hasattr(prop, 'followups'):
            more = prop.followups(ops, out[:len(ops)])
            if more:
                subprocess.run([binp], input=('\n'.join(o['op'] for o in more) + '\n').encode(), stdout=subprocess.PIPE, stderr=subprocess.PIPE, env=env)
        print(pid, len(lines), 'ops rc', p.returncode)
    sh('%s/llvm-profdata merge -sparse %s/*.profraw -o %s/all.profdata' % (TOOLS, WORK, WORK))
    rep = sh('%s/llvm-cov export --format=lcov --instr-profile=%s/all.profdata %s --ignore-filename-regex="(registry|rustc|harness)"' % (TOOLS, WORK, binp))
    open(WORK + '/lcov.info', 'w').write(rep)
    cur = None; res = {}
    for l in rep.split('\n'):
        if l.startswith('SF:'): cur = l[3:]; res[cur] = dict(hit=0, miss=[])
        elif l.startswith('DA:') and cur:
            n, c = l[3:].split(',')[:2]
            if int(c) > 0: res[cur]['hit'] += 1
            else: res[cur]['miss'].append(int(n))
    tot_h = tot_m = 0
    for f in sorted(res):
        if '/tests.rs' in f or '/src/' not in f: continue
        r = res[f]; src = open(f).read().split('\n')
        # drop lines inside #[cfg(test)] modules is not needed: tests live in tests.rs
        miss = [n for n in r['miss']]
        tot_h += r['hit']; tot_m += len(miss)
        print('%-40s %4d hit %4d missed' % (f.replace('/repo/', ''), r['hit'], len(miss)))
        for n in miss: print('      %5d: %s' % (n, src[n - 1][:150]))
    print('TOTAL lines hit %d missed %d (%.1f%%)' % (tot_h, tot_m, 100.0 * tot_h / max(1, tot_h + tot_m)))
if __name__ == '__main__': main()
