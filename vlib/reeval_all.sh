#!/bin/sh
# reeval_all.sh <nlabs> [names...] — re-run all twenty checks against every filed seeded change (and, with REFS=1, every filed refactoring)
# (OWN=--own: only the check of each change's own property) with the *current* /verif, spread over <nlabs> disposable labs (/tmp/relabK), then rebuild seeded/INDEX.md.  Development aid.
N=${1:-4}; shift
cd /verif
if [ $# -gt 0 ]; then NAMES="$*"; else NAMES=$(ls seeded | grep '^C[0-9][0-9]' | tr '\n' ' '); fi
k=0
for n in $NAMES; do eval "L$((k % N))=\"\$L$((k % N)) $n\""; k=$((k + 1)); done
for i in $(seq 0 $((N - 1))); do
  eval "names=\$L$i"
  ( MUTLAB=/tmp/relab$i sh vlib/mutlab.sh sync >/dev/null
    [ -n "$names" ] && MUTLAB=/tmp/relab$i python3 vlib/reeval.py $OWN $names
    if [ "$REFS" = 1 ]; then j=0; for r in $(ls seeded/refactors); do [ $((j % N)) = $i ] && MUTLAB=/tmp/relab$i python3 vlib/evalrefactor.py - $r; j=$((j + 1)); done; fi
  ) > /tmp/relab$i.log 2>&1 &
done
wait
python3 vlib/seedindex.py
