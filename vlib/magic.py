#!/usr/bin/env python3
"""Literal-guided search (DESIGN.md §13).  When an obligation breaks, the integer literals that are new in the source (decision budget F11:
regenerated vs transcribed tree) are the likeliest trigger of whatever changed — a length, a count, a label, a depth.  `magic_ops(nums)`
builds, for every such number n (and n-1, n+1), inputs in which n is a map size, an array length, a string length, a nesting depth and an
integer value at every interpreting position of every decoder.  They are run on the implementation and on the model over the
transcribed facts; a difference is a concrete input on which the code no longer behaves as the proved model does."""
import os, re
import refcbor
from props import mk

def new_literals(gen_inv, pinned_inv):
    def lits(path):
        try: s = open(path).read()
        except FileNotFoundError: return {}
        m = re.search(r'def decisionBudget[^\[]*\[(.*?)\]\s*\n', s, re.S)
        out = {}
        for mod, item, n in re.findall(r'\("(\w+)", "([^"]+)", (\d+)\)', m.group(1) if m else ''):
            if item.startswith(('lit:', 'sml:')): out[(mod, int(item[4:]))] = int(n)
        return out
    g, p = lits(gen_inv), lits(pinned_inv)
    return sorted(set(n for (mod, n), c in g.items() if c > p.get((mod, n), 0)))

def _items(path):
    try: s = open(path).read()
    except FileNotFoundError: return {}
    m = re.search(r'def decisionBudget[^\[]*\[(.*?)\]\s*\n\s*\n', s, re.S)
    out = {}
    for mod, item, n in re.findall(r'\("(\w+)", "((?:[^"\\]|\\.)*)", (\d+)\)', m.group(1) if m else ''):
        out[(mod, item)] = int(n)
    return out

def new_texts(gen_inv, pinned_inv):
    """string and character literals that are new (or more frequent) in the source"""
    g, p = _items(gen_inv), _items(pinned_inv)
    def un(x): return x.encode().decode('unicode_escape') if '\\' in x else x
    strs = [un(i[4:]) for (mod, i), c in g.items() if i.startswith('str:') and c > p.get((mod, i), 0)]
    # … and, second, every string literal of a module whose inventory changed at all (a test against a text that was already there)
    changed = set(mod for (mod, i), c in g.items() if c != p.get((mod, i), 0)) | set(mod for (mod, i) in p if (mod, i) not in g)
    strs += [un(i[4:]) for (mod, i), c in sorted(g.items()) if i.startswith('str:') and mod in changed and un(i[4:]) not in strs and 2 < len(i) - 4 < 40][:24]
    chrs = [un(i[4:]) for (mod, i), c in g.items() if i.startswith('chr:') and c > p.get((mod, i), 0)]
    seen_ = set(); strs = [x for x in strs if not (x in seen_ or seen_.add(x))]
    return strs, sorted(set(chrs))

def text_candidates(strs, chrs, cap=400):
    strs = strs[:30]; chrs = chrs[:4]
    pairs = strs[:8]
    base = list(strs)
    if chrs: base += [x for x in ('a/b', 'text/plain', 'application/cose', 'a', 'kid', 'x/y') if x not in base]     # a new character alone: tried inside ordinary texts
    for a in pairs:
        for b in pairs:
            if a != b: base += [a + b, a + ' ' + b, a + 'x' + b, a + 'eu1' + b]
    out = []
    for t in base:
        out.append(t)
        for c in chrs: out += [t + c, t + c + 'é', c + t, t + c + c, t[:1] + c + t[1:], t + c + 'b', t.replace('/', c)]
    seen = set(); res = []
    for t in out:
        if t not in seen and len(t.encode()) < 200: seen.add(t); res.append(t)
    return res[:cap]

def text_ops(strs, chrs):
    """inputs in which a text built from literals new in the source is a content type, a text label (alone, repeated), an issuer /
    subject / audience beside large timestamps, a claim name, a key type, and — as bytes — a key id or a signature."""
    ops = []; seen = set()
    def add(t, hx, why):
        op = 'dec %s b%s' % (t, hx)
        if op not in seen: seen.add(op); ops.append(mk(op, k='magic:' + why))
    for t in text_candidates(strs, chrs):
        b = t.encode(); ts = (refcbor.head(3, len(b)) + b).hex(); bs = (refcbor.head(2, len(b)) + b).hex()
        add('Header', 'a103' + ts, 'text-content-type'); add('Header', 'a1' + ts + '00', 'text-label'); add('CoseSign1', '8440a103' + ts + 'f640', 'text-content-type')
        add('CoseSign1', '84' + refcbor.head(2, len(bytes.fromhex('a103' + ts))).hex() + 'a103' + ts + 'a0f640', 'text-content-type')
        for v1, v2 in (('00', '01'), ('420000', '4100'), ('4100', '40'), ('f6', 'f6'), ('40', '40')):
            add('Header', 'a2' + ts + v1 + ts + v2, 'text-label-repeated'); add('CoseKey', 'a30101' + ts + v1 + ts + v2, 'text-label-repeated'); add('ClaimsSet', 'a2' + ts + v1 + ts + v2, 'text-label-repeated')
            add('CoseSign1', '84' + refcbor.head(2, len(bytes.fromhex('a2' + ts + v1 + ts + v2))).hex() + 'a2' + ts + v1 + ts + v2 + 'a0f640', 'text-label-repeated')
        for k in ('01', '02', '03'):
            add('ClaimsSet', 'a4' + k + ts + '041b0000018bcfe74a40051a5610d9f0061a5610da27', 'text-claim'); add('ClaimsSet', 'a1' + k + ts, 'text-claim')
        add('ClaimsSet', 'a1' + ts + '00', 'text-claim-name'); add('CoseKey', 'a101' + ts, 'text-kty'); add('CoseKey', 'a20101' + ts + '00', 'text-label')
        add('Header', 'a104' + bs, 'bytes'); add('CoseSign1', '8440a0f6' + bs, 'bytes'); add('CoseSign', '8440a0f6818340a0' + bs, 'bytes'); add('CoseKey', 'a2010102' + bs, 'bytes')
        add('CoseKey', 'a4010220012158' + '%02x' % len(b) + b.hex() if len(b) < 256 and len(b) > 23 else 'a10101', 'bytes')
    return ops

def big_dup_ops(nums, cap=1 << 21):
    """a repeated label placed after n distinct ones, for n a new literal or the product of two of them (a cap written `1024 * 1024`):
    run on the implementation only — the rule (a repeated label is refused) is the oracle"""
    ops = []; ns = set()
    for a in nums:
        for b in [1] + list(nums):
            if 64 < a * b <= cap: ns.add(a * b)
    for n in sorted(ns)[:4]:
        fill = b''.join(b'\x1a' + (100000 + i).to_bytes(4, 'big') + b'\x00' for i in range(n))
        for extra in (0, 2):
            body = refcbor.head(5, n + extra + 2) + fill + b''.join(b'\x1a' + (90000 + i).to_bytes(4, 'big') + b'\x00' for i in range(extra)) + b'\x18\x63\x00\x18\x63\x00'
            ops.append(mk('dec Header b' + body.hex(), k='magic:dup-after-n', n=n, impl_only=True))
            ops.append(mk('dec CoseSign1 b' + (b'\x84' + refcbor.head(2, len(body)) + body + b'\xa0\xf6\x40').hex(), k='magic:dup-after-n', n=n, impl_only=True))
            kb = refcbor.head(5, n + extra + 3) + b'\x01\x04' + body[len(refcbor.head(5, n + extra + 2)):]
            ops.append(mk('dec CoseKey b' + kb.hex(), k='magic:dup-after-n', n=n, impl_only=True))
            cb = refcbor.head(5, n + extra + 2) + b''.join(b'\x3a' + (100000 + i).to_bytes(4, 'big') + b'\x00' for i in range(n + extra)) + b'\x3a\x00\x01\x11\x6f\x00' * 2
            ops.append(mk('dec ClaimsSet b' + cb.hex(), k='magic:dup-after-n', n=n, impl_only=True))
    return ops

I = lambda x: ('int', x); B = lambda b: ('bytes', b); Tx = lambda b: ('text', b)
def enc(v): return refcbor.encode(v).hex()

def magic_ops(nums, cap=70000):
    ops = []
    seen = set()
    def add(t, hexs, why):
        op = 'dec %s b%s' % (t, hexs)
        if op not in seen: seen.add(op); ops.append(mk(op, k='magic:' + why))
    for n0 in nums:
        for n in (n0 - 1, n0, n0 + 1):
            # as an integer value (and its negative) at every interpreting position
            for v in (n, -n, -n - 1):
                if not (-2**64 <= v < 2**64): continue
                e = enc(I(v))
                for t, hx in (('Header', 'a1' + e + 'f6'), ('Header', 'a101' + e), ('Header', 'a10281' + e), ('Header', 'a103' + e), ('CoseKey', 'a101' + e), ('CoseKey', 'a2010103' + e),
                              ('CoseKey', 'a201010481' + e), ('CoseKey', 'a20101' + e + '00'), ('ClaimsSet', 'a1' + e + '00'), ('ClaimsSet', 'a104' + e), ('ClaimsSet', 'a106' + e),
                              ('PartyInfo', '83f6' + e + 'f6'), ('SuppPubInfo', '82' + e + '40'), ('CoseKdfContext', '84' + e + '83f6f6f683f6f6f6820040'), ('Label', e),
                              ('CoseSign1', '8440a1' + e + '00f640'), ('CoseSign1', '8445a101' + e[:8] + 'a0f640' if len(e) == 8 else '8440a0f640')):
                    add(t, hx, 'value')
                for tag_t in ('CoseSign1', 'CoseMac0', 'CoseEncrypt0'):
                    if 0 <= v < 2**64:
                        body = {'CoseSign1': '8440a0f640', 'CoseMac0': '8440a0f640', 'CoseEncrypt0': '8340a0f6'}[tag_t]
                        ops.append(mk('dect %s b%s' % (tag_t, refcbor.head(6, v).hex() + body), k='magic:tag'))
            if n < 0 or n > cap: continue
            # as a size: map entries, array lengths, string lengths, nesting depth
            ents = ''.join(enc(I(1000 + i)) + '00' for i in range(n))
            add('Header', refcbor.head(5, n).hex() + ents, 'map-size')
            add('CoseKey', refcbor.head(5, n + 1).hex() + '0101' + ents, 'map-size'); add('CoseKey', refcbor.head(5, n).hex() + ('0101' + ents[:-len(enc(I(1000 + n - 1)) + '00')] if n else ''), 'map-size')
            add('ClaimsSet', refcbor.head(5, n).hex() + ''.join(enc(I(-70000 - i)) + '00' for i in range(n)), 'map-size')
            add('CoseSign1', '84' + (refcbor.head(2, len(bytes.fromhex(refcbor.head(5, n).hex() + ents))).hex() + refcbor.head(5, n).hex() + ents if n else '40') + 'a0f640', 'map-size')
            add('CoseKeySet', refcbor.head(4, n).hex() + 'a10101' * n, 'array-len')
            add('CoseSign', '8440a0f6' + refcbor.head(4, n).hex() + '8340a040' * n, 'array-len')
            add('CoseEncrypt', '8440a0f6' + refcbor.head(4, n).hex() + '8340a0f6' * n, 'array-len')
            add('CoseMac', '8540a0f640' + refcbor.head(4, n).hex() + '8340a0f6' * n, 'array-len')
            add('CoseKdfContext', refcbor.head(4, 4 + n).hex() + '0183f6f6f683f6f6f6820040' + '40' * n, 'array-len')
            add('Header', 'a102' + refcbor.head(4, n).hex() + ''.join(enc(I(100 + i)) for i in range(n)), 'array-len')
            add('Header', 'a107' + refcbor.head(4, n).hex() + '8340a040' * n, 'array-len')
            for t, pre, post in (('CoseSign1', '8440a0', '40'), ('Header', 'a104', ''), ('Header', 'a105', ''), ('CoseKey', 'a2010102', ''), ('ClaimsSet', 'a107', ''), ('CoseMac0', '8440a0f6', ''), ('CoseEncrypt0', '8340a0', '')):
                add(t, pre + refcbor.head(2, n).hex() + '00' * n + post, 'bstr-len')
            if n >= 3: add('Header', 'a103' + refcbor.head(3, n).hex() + '612f' + '62' * (n - 2), 'text-len')
            add('ClaimsSet', 'a101' + refcbor.head(3, n).hex() + '61' * n, 'text-len'); add('Header', 'a1' + refcbor.head(3, n).hex() + '61' * n + '00', 'text-len')
            # encode / structure side: n as the length of a field of a value built in memory, as the number of extra entries, as a label
            E = '(hdr - (crit) - b b b (cs) (rest))'; zb = 'b' + '00' * n
            for op in ('sigstruct CoseSign1 (ph - %s) - %s b01' % (E, zb), 'sigstruct CoseSignature (ph - %s) (ph - %s) b01 %s' % (E, E, zb), 'macstruct CoseMac0 (ph - %s) %s b01' % (E, zb),
                       'macstruct CoseMac (ph - %s) b01 %s' % (E, zb), 'encstruct CoseEncrypt0 (ph - %s) %s' % (E, zb), 'encstruct EncRecipient (ph %s %s) b01' % (zb, E),
                       'enc Header (hdr - (crit) - %s b b (cs) (rest))' % zb, 'enc Header (hdr - (crit) - b %s b (cs) (rest))' % zb, 'enc CoseSign1 (sign1 (ph - %s) %s %s b01)' % (E, E, zb),
                       'enc CoseSign1 (sign1 (ph - %s) %s b01 %s)' % (E, E, zb), 'enc CoseMac0 (mac0 (ph - %s) %s b01 %s)' % (E, E, zb), 'enc CoseEncrypt0 (enc0 (ph - %s) %s %s)' % (E, E, zb),
                       'enc CoseKey (key A1 %s - (ops) b (params))' % zb, 'enc CoseKey (key A1 b - (ops) %s (params))' % zb, 'enc ClaimsSet (cwt t%s - - - - - - (rest))' % ('61' * n),
                       'enc ClaimsSet (cwt - - - - - - %s (rest))' % zb, 'enc Header (hdr - (crit) - b b b (cs) (rest i%d N))' % n, 'enc CoseKey (key A1 b - (ops) b (params i%d N i-%d N))' % (n + 6, n + 6),
                       'enc ClaimsSet (cwt - - - W%d - - - (rest))' % n, 'canon lex (key A1 b - (ops) b (params i%d N i-%d N))' % (n + 6, n + 6)):
                if op not in seen: seen.add(op); ops.append(mk(op, k='magic:built'))
            if n <= 20000:
                rest = ' '.join('i%d N' % (1000 + i) for i in range(n))
                for op in ('enc Header (hdr - (crit) - b b b (cs) (rest %s))' % rest, 'enc CoseKey (key A1 b - (ops) b (params %s))' % rest, 'canon lex (key A1 b - (ops) b (params %s))' % rest):
                    if op not in seen: seen.add(op); ops.append(mk(op.replace('(rest )', '(rest)').replace('(params )', '(params)'), k='magic:built-count'))
            if n <= 400:
                h = 'a0'
                for _ in range(n): h = 'a107' + '83' + '40' + h + '40'
                add('Header', h, 'depth')
                v = '00'
                for _ in range(n): v = '81' + v
                add('Header', 'a1186480' if n == 0 else 'a11864' + v, 'depth')
    return ops
