#!/usr/bin/env python3
"""Regenerate MANIFEST.json from the table below (one place to edit)."""
import json, os, re
VERIF = os.path.dirname(os.path.dirname(os.path.abspath(__file__)))
CLAIMS = {
 # id: (technique, level text, level note)
}
exec(open(os.path.join(VERIF, 'vlib', 'claims.py')).read())
props = [json.loads(l) for l in open(os.path.join(VERIF, 'properties.jsonl'))]
checks = []; na = []
for p in props:
    pid = p['id']
    if pid in CLAIMS:
        tech, text, note, ref = CLAIMS[pid]
        checks.append(dict(property_id=pid, quick_cmd='python3 check.py %s --tier quick' % pid, thorough_cmd='python3 check.py %s --tier thorough' % pid,
                           evidence_file='/verif/evidence/%s.json' % pid, replay_cmd_template='python3 check.py %s --replay {path}' % pid,
                           engine='lean-proofs+correspondence', level_claimed=dict(category='proof', text=text, design_ref=ref), level_note=note, technique=tech))
    else:
        na.append(dict(property_id=pid, reason=NOT_YET.get(pid, 'machine-checked theorems for this property are not finished; the correspondence stream exists (vlib/props_streams*.py) but no proof-level claim is made yet')))
man = dict(version=1, setup_cmd='sh setup.sh',
           hooks=dict(guard='coset_verif', enable='RUSTFLAGS / harness/.cargo/config.toml: --cfg coset_verif (read-only accessors for the private fields of CoseKdfContext)',
                      baseline_off_cmd='cd /repo && cargo test --workspace --no-fail-fast --offline', source_commits=HOOK_COMMITS, add_only=True),
           engines=[dict(name='lean-proofs', path='lean/CosetProofs', serves_properties=sorted(CLAIMS), kind_free_text='Lean 4 theorems over a hand-written model (lean/CosetModel) whose constants are regenerated from /repo/src on every run (lean/CosetGen, vlib/extract.py)'),
                    dict(name='correspondence', path='harness + lean/Main.lean + vlib', serves_properties=sorted(CLAIMS), kind_free_text='differential execution of the Rust crate (harness/, built from the working tree) and the Lean model driver on per-property operation streams; implementation-level predicates; pinned-facts model as search oracle'),
                    dict(name='extractor', path='vlib/extract.py', serves_properties=sorted(CLAIMS), kind_free_text='source-to-Lean translation of the data-like parts of the code (IANA tables, context strings, tags, label constants, arity/index tables, inventories)')],
           checks=checks, not_applicable=na,
           notes='See DESIGN.md. Every check: translate facts, lake build the property theorems (axiom audit), build harness from /repo working tree, run stream on implementation and model, judge, search with pinned model when an obligation or the correspondence breaks. Known findings in known_findings.json.')
json.dump(man, open(os.path.join(VERIF, 'MANIFEST.json'), 'w'), indent=1)
print('claimed', sorted(CLAIMS), 'unclaimed', [x['property_id'] for x in na])
