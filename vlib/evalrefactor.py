#!/usr/bin/env python3
"""evalrefactor.py <worktree> <name> — run all checks against a behaviour-preserving refactoring (in the isolated lab $MUTLAB) and file it under
seeded/refactors/<name>/ : which checks stay quiet, which report a broken tie / correspondence (`no-failing-input-found`), and — what must not
happen — which present a failing input."""
import sys, os, subprocess, json, re, shutil
VERIF = os.path.dirname(os.path.dirname(os.path.abspath(__file__)))
wt, name = sys.argv[1:3]
ALL = ['C%02d' % i for i in range(1, 21)]
def sh(c): return subprocess.run(c, shell=True, stdout=subprocess.PIPE, stderr=subprocess.STDOUT).stdout.decode()
d = os.path.join(VERIF, 'seeded', 'refactors', name); os.makedirs(d, exist_ok=True)
if wt != '-':    # '-' : re-evaluate the patch already filed under seeded/refactors/<name>/
    for f in ('patch.diff', 'notes.md'):
        shutil.copy(os.path.join(wt, 'refactor', f), os.path.join(d, f))
res = sh('sh %s/vlib/mutlab.sh try %s/patch.diff %s' % (VERIF, d, ' '.join(ALL)))
quiet = []; broken = []; alarms = []
for c in ALL:
    mm = re.search(r'%s FAIL: (.*)' % c, res)
    nf = re.search(r'VIOLATION property=%s [^\n]*no-failing-input-found' % c, res)
    v = re.search(r'VIOLATION property=%s ' % c, res)
    if not v: quiet.append(c)
    elif nf and not re.search(r'VIOLATION property=%s replay=\S+\n' % c, res): broken.append('%s (%s)' % (c, mm.group(1).strip() if mm else ''))
    else: alarms.append('%s (%s)' % (c, mm.group(1).strip() if mm else ''))
json.dump(dict(kind='behaviour-preserving refactoring (sub-agent)', quiet=quiet, broken_tie_or_correspondence_no_failing_input=broken,
               failing_input_reported=alarms, verif_commit=sh('git -C %s rev-parse --short HEAD' % VERIF).strip()),
          open(os.path.join(d, 'meta.json'), 'w'), indent=1)
print(name, 'quiet', len(quiet), 'broken', [b.split(' ')[0] for b in broken], 'ALARMS', alarms, flush=True)
if wt != '-': sh('git -C /repo worktree remove --force %s' % wt)
