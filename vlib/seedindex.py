#!/usr/bin/env python3
"""seedindex.py — write seeded/INDEX.md: every confirmed breaking change (rounds 1..n) with the checks that report it, and every
behaviour-preserving refactoring with the checks that stay quiet / report a broken tie.  Read from the meta.json files."""
import os, json, re, glob
VERIF = os.path.dirname(os.path.dirname(os.path.abspath(__file__)))
S = os.path.join(VERIF, 'seeded')
rows = []
for d in sorted(glob.glob(S + '/C*')):
    n = os.path.basename(d)
    try: m = json.load(open(d + '/meta.json'))
    except Exception: continue
    cb = m.get('caught_by', '')
    names = re.findall(r'(C\d\d) \(', cb) or re.findall(r'\b(C\d\d)\b', cb)
    nf = set(re.findall(r'(C\d\d) \([^)]*no-failing-input-found', cb))
    rnd = int(re.search(r'-r(\d+)$', n).group(1)) if re.search(r'-r(\d+)$', n) else 1
    rows.append((rnd, n, m['property'], m.get('needs', '').replace('|', '/'), names, nf))
out = ['# Seeded changes: which checks report which change', '',
       'Every entry is a change to `/repo/src` written by a sub-agent that saw only the property text; it compiles, the crate\'s own 117+1 tests',
       'pass with it, and its demonstration (`demo.rs`) fails with it and passes without it.  `own` = the check of the property the change',
       'was written against reports it; `others` = further checks that report it (`*` = as a broken obligation / correspondence with',
       '`no-failing-input-found`, otherwise with a failing input).  Regenerate with `python3 vlib/seedindex.py`.', '',
       '| change | round | what it needs to show | own | others |', '|---|---|---|---|---|']
own_ok = 0
for rnd, n, p, needs, names, nf in sorted(rows, key=lambda r: (r[2], r[0])):
    own = 'yes' if p in names else '**no**'
    own_ok += p in names
    oth = ' '.join(c + ('*' if c in nf else '') for c in names if c != p)
    out.append('| %s | %d | %s | %s | %s |' % (n, rnd, needs[:230], own, oth or '-'))
out += ['', '%d of %d changes are reported by the check of their own property.' % (own_ok, len(rows)), '']
out += ['# Behaviour-preserving refactorings', '',
        '| module | quiet | broken tie / correspondence (no failing input) | failing input reported (must be empty) |', '|---|---|---|---|']
for d in sorted(glob.glob(S + '/refactors/*')):
    try: m = json.load(open(d + '/meta.json'))
    except Exception: continue
    out.append('| %s | %d | %s | %s |' % (os.path.basename(d), len(m.get('quiet', [])), ' '.join(x.split(' ')[0] for x in m.get('broken_tie_or_correspondence_no_failing_input', [])) or '-',
               ' '.join(x.split(' ')[0] for x in m.get('failing_input_reported', [])) or '-'))
open(S + '/INDEX.md', 'w').write('\n'.join(out) + '\n')
print('wrote seeded/INDEX.md:', len(rows), 'changes,', own_ok, 'caught by own check')
