#!/usr/bin/env python3
"""check.py Cxx [--tier quick|thorough] [--replay FILE]

Decides one property of google/coset:
  1. translate  — regenerate lean/CosetGen/*.lean from /repo's current sources (tie T)
  2. prove      — lake build CosetProofs.Props.Cxx [CosetProofs.Props.CxxTies] (+ driver); audit axioms; scan for sorry/axiom/native_decide
  3. correspond — build the Rust harness from /repo's working tree, run the property's operation stream through the
                  implementation and the Lean model driver, compare (tie K); evaluate the property's own predicate
                  on the implementation's output
  4. search     — if 2 or 3 failed: look for a concrete failing input (pinned model as oracle), shrink, write replay
  5. known findings, evidence, verdict.
Exit 0 iff every obligation was discharged, the correspondence held and every failure is a listed known finding.
"""
import sys as _sys; _sys.setrecursionlimit(50000)      # forms of deeply nested values are parsed / rendered recursively
import sys, os, json, time, re, hashlib, argparse, random, traceback

VERIF = os.path.dirname(os.path.abspath(__file__))
sys.path.insert(0, os.path.join(VERIF, 'vlib'))
import run as R
import props as P

ALLOWED_AXIOMS = {'propext', 'Classical.choice', 'Quot.sound'}
FORBIDDEN = re.compile(r'\bsorry\b|\badmit\b|^\s*axiom\s|\bnative_decide\b|\bbv_decide\b|\bimplemented_by\b|\bunsafe\s|maxHeartbeats\s+0\b', re.M)

def strip_lean_comments(s):
    out = []; i = 0; n = len(s); depth = 0
    while i < n:
        if s.startswith('/-', i): depth += 1; i += 2
        elif depth and s.startswith('-/', i): depth -= 1; i += 2
        elif depth: i += 1
        elif s.startswith('--', i):
            j = s.find('\n', i); i = n if j < 0 else j
        else: out.append(s[i]); i += 1
    return ''.join(out)

def scan_sources():
    hits = []
    for d in ('CosetModel', 'CosetSpec', 'CosetRef', 'CosetProofs', 'CosetGen'):
        for root, _, files in os.walk(os.path.join(R.LEAN, d)):
            for f in files:
                if f.endswith('.lean'):
                    p = os.path.join(root, f)
                    for m in FORBIDDEN.finditer(strip_lean_comments(open(p).read())):
                        hits.append('%s: %s' % (os.path.relpath(p, R.LEAN), m.group(0).strip()))
    return hits

def prove(pid, tier):
    """returns dict(ok, obligations, discharged, theorems{name: axioms}, broken[list], log)"""
    targets = P.prop_modules(pid); target = ' '.join(targets)
    res = dict(ok=False, obligations=0, discharged=0, theorems={}, broken=[], log='', wall=0.0)
    if tier == 'thorough':
        # clean rebuild of the proof library
        import shutil
        shutil.rmtree(os.path.join(R.LEAN, '.lake', 'build', 'lib', 'lean', 'CosetProofs'), ignore_errors=True)
        shutil.rmtree(os.path.join(R.LEAN, '.lake', 'build', 'ir', 'CosetProofs'), ignore_errors=True)
    ok, out, dt = R.lake_build(targets + ['driver'])
    res['wall'] = dt; res['log'] = out[-6000:]
    # theorem axioms are reported by `#print axioms` in the Props file (lake replays cached logs)
    declared = P.declared_theorems(pid)
    thms = {}
    for m in re.finditer(r"'([\w.']+)' depends on axioms: \[([^\]]*)\]", out):
        thms[m.group(1)] = [a.strip() for a in m.group(2).replace('\n', ' ').split(',') if a.strip()]
    for m in re.finditer(r"'([\w.']+)' does not depend on any axioms", out):
        thms[m.group(1)] = []
    res['theorems'] = thms
    res['obligations'] = len(declared)
    bad_ax = {t: a for t, a in thms.items() if not set(a) <= ALLOWED_AXIOMS}
    missing = [t for t in declared if t not in thms]
    res['discharged'] = len([t for t in declared if t in thms and t not in bad_ax])
    hits = scan_sources()
    if not ok:
        errs = re.findall(r'error: ([^\n]*)', out)
        res['broken'] = ['lake build %s failed: %s' % (target, '; '.join(errs[:6]))]
    if bad_ax: res['broken'].append('disallowed axioms: %s' % bad_ax)
    if ok and missing: res['broken'].append('theorems without axiom report: %s' % missing)
    if hits: res['broken'].append('forbidden constructs: %s' % hits[:5])
    res['ok'] = ok and not bad_ax and not missing and not hits
    if tier == 'thorough' and ok:
        rc, o, dt2 = R.sh(['lake', 'env', 'leanchecker'] + targets, cwd=R.LEAN, timeout=3600)
        res['leanchecker'] = dict(rc=rc, wall=dt2, out=o[-500:])
        if rc != 0:
            res['ok'] = False; res['broken'].append('leanchecker rejected %s' % target)
    return res

def load_known():
    try:
        return json.load(open(os.path.join(VERIF, 'known_findings.json')))
    except FileNotFoundError:
        return {'findings': [], 'fixed': []}

def write_replay(pid, tier, seed, broken, cases, note=''):
    os.makedirs(os.path.join(VERIF, 'replays'), exist_ok=True)
    body = dict(property=pid, tier=tier, seed=seed, broken_obligation=broken, cases=cases, note=note)
    h = hashlib.sha256(json.dumps(body, sort_keys=True).encode()).hexdigest()[:12]
    path = os.path.join(VERIF, 'replays', '%s-%s.json' % (pid, h))
    json.dump(body, open(path, 'w'), indent=1)
    return path

def main():
    ap = argparse.ArgumentParser()
    ap.add_argument('pid')
    ap.add_argument('--tier', default=os.environ.get('VERIF_TIER', 'quick'))
    ap.add_argument('--replay')
    args = ap.parse_args()
    pid = args.pid; tier = args.tier if args.tier in ('quick', 'thorough') else 'quick'
    seed = int(os.environ.get('VERIF_SEED', '20260929'))
    prop = P.PROPS[pid]
    t0 = time.time()
    violations = []      # (replay path, suffix)
    known_lines = []
    notes = []

    # 1. translate
    tstat, _ = R.translate()
    # 2. prove
    pr = prove(pid, tier)
    if 'translator' in tstat:
        pr['ok'] = False; pr['broken'].append('the translator could not read /repo/src (%s): the model runs on the transcribed facts, nothing ties it to this source' % tstat['translator'])
    # 3. correspond
    ok_h, out_h, dt_h = R.build_harness()
    if not ok_h:
        path = write_replay(pid, tier, seed, 'harness build failed (does /repo still compile?)', [], out_h[-3000:])
        print('VIOLATION property=%s replay=%s no-failing-input-found' % (pid, path))
        P.write_evidence(pid, tier, seed, pr, tstat, [], [], time.time() - t0, 1, notes=['harness build failed'])
        sys.exit(1)
    if args.replay:
        rp = json.load(open(args.replay))
        ops = [dict(op=c['op'], meta=c.get('meta', {})) for c in rp.get('cases', [])]
    else:
        ops = prop.gen(seed, tier)
    okd, outd, _ = R.build_driver()
    model_ok = okd and os.path.exists(R.DBIN)
    use_pinned = False
    if not model_ok or not pr['ok']:
        # the model does not build, or an obligation broke: the pinned model (facts of the unchanged tree) is the oracle
        okp, outp = R.build_pinned_driver()
        use_pinned = okp
        if not okp: notes.append('pinned driver build failed: ' + outp[-300:])
    lines = [o['op'] for o in ops]
    impl, t_impl = R.run_impl(lines)
    if use_pinned: model, t_model = R.run_model(lines, pinned=True)
    elif model_ok: model, t_model = R.run_model(lines)
    else: model, t_model = [None] * len(lines), 0.0
    if hasattr(prop, 'followups') and not args.replay:
        more = prop.followups(ops, impl)
        if more:
            ml = [o['op'] for o in more]
            mi, t2 = R.run_impl(ml); t_impl += t2
            if use_pinned: mm, t3 = R.run_model(ml, pinned=True)
            elif model_ok: mm, t3 = R.run_model(ml)
            else: mm, t3 = [None] * len(ml), 0.0
            t_model += t3
            ops = ops + more; impl = impl + mi; model = model + mm
    if hasattr(prop, 'child_ops') and not args.replay:
        import time as _t
        for o in prop.child_ops(tier):
            t1 = _t.time()
            out, rc, dtc = R.run_side(R.HBIN, [o['op']], timeout=o['meta'].get('timeout', 120))
            a = out[0] if (out and rc == 0 and len(out) == 1) else ('abort' if out is not None else 'timeout')
            o['meta']['wall'] = round(dtc, 2); o['meta']['rc'] = rc
            ops.append(o); impl.append(a); model.append(None)
    post_failures = prop.post(ops, impl) if (hasattr(prop, 'post') and not args.replay) else []
    known = load_known()
    kf = [f for f in known.get('findings', []) if f['property'] == pid]
    failures = []     # cases failing the property (implementation-level predicate or in-projection disagreement)
    drift = []
    stats = {}
    nontrivial = set()
    for o, a, b in zip(ops, impl, model):
        try: v = prop.judge(o, a, b)       # None | ('fail', why) | ('drift', why)
        except RecursionError: v = ('fail' if (a is not None and b is not None and a != b) else None, 'output too deeply nested to judge; implementation and model differ') if a != b else None
        if v is not None and v[0] is None: v = None
        cls = prop.classify(o, a)
        stats[cls] = stats.get(cls, 0) + 1
        if prop.nontrivial(o, a): nontrivial.add(o['op'])
        if v is None: continue
        case = dict(op=o['op'], meta=o.get('meta', {}), impl=a, model=b, why=v[1])
        (failures if v[0] == 'fail' else drift).append(case)
    # A difference between the implementation and the model over the *regenerated* facts is a failing input only if the
    # implementation also differs from the model over the facts of the transcribed tree.  If it agrees with that one, the code
    # behaves as the proved model does and it is the translation of the facts that is unfaithful (a rewrite the extractor reads
    # wrongly): the tie is broken — reported as such, without presenting a failing input that is none.
    mdiff = [c for c in failures if c['why'] == 'implementation and proved model differ']
    if mdiff and not use_pinned and not args.replay:
        okp, outp = R.build_pinned_driver()
        if okp:
            pm, _ = R.run_model([c['op'] for c in mdiff], pinned=True)
            moved = []
            for c, pb in zip(mdiff, pm):
                if pb is not None and prop.projection(dict(op=c['op'], meta=c['meta']), c['impl']) == prop.projection(dict(op=c['op'], meta=c['meta']), pb):
                    c['why'] = 'implementation agrees with the model over the transcribed facts but not with the model over the regenerated facts: the facts are mistranslated'
                    c['pinned_model'] = pb; moved.append(c)
            if moved:
                ids = set(id(c) for c in moved)
                failures = [c for c in failures if id(c) not in ids]; drift += moved
                notes.append('%d disagreements attributed to the translation of the facts (implementation = transcribed model)' % len(moved))
    failures += post_failures
    # 5. known findings: partition failures
    fresh = []
    seen_known = {}
    for c in failures:
        k = P.match_known(pid, c, kf)
        if k is None: fresh.append(c)
        else: seen_known.setdefault(k['id'], []).append(c)
    # replay the witnesses of every listed finding (they must still fail, else the entry is stale but harmless)
    for f in kf:
        wl = [f['witness']] if isinstance(f['witness'], str) else f['witness']
        wi, _ = R.run_impl(wl)
        wm, _ = (R.run_model(wl, pinned=use_pinned) if (model_ok or use_pinned) else ([None] * len(wl), 0))
        still = any(prop.judge(dict(op=w, meta={'known': f['id']}), a, b) is not None or P.witness_fails(pid, f, w, a) for w, a, b in zip(wl, wi, wm))
        if still or f['id'] in seen_known:
            known_lines.append('KNOWN-FINDING: property=%s %s' % (pid, f['what']))
    # 4. search / verdict
    if fresh:
        small = P.shrink_cases(prop, fresh[:5], use_pinned)
        path = write_replay(pid, tier, seed, pr['broken'] or None, small + fresh[:20], 'property fails on these operations')
        violations.append((path, ''))
    elif not pr['ok']:
        # an obligation broke but no failing input in the regular stream: enlarge the search
        more = prop.gen(seed + 1, 'thorough') if tier == 'quick' else []
        found = []; witnesses = []
        if more:
            ml = [o['op'] for o in more]
            mi, _ = R.run_impl(ml)
            mm, _ = R.run_model(ml, pinned=use_pinned) if (model_ok or use_pinned) else ([None] * len(ml), 0)
            for o, a, b in zip(more, mi, mm):
                v = prop.judge(o, a, b)
                if v and v[0] == 'fail':
                    c = dict(op=o['op'], meta=o.get('meta', {}), impl=a, model=b, why=v[1])
                    if P.match_known(pid, c, kf) is None: found.append(c)
        if not found and not args.replay:
            # literal-guided search: numbers that are new in the source as sizes / lengths / depths / values at every decoder
            import magic
            nums = magic.new_literals(os.path.join(R.LEAN, 'CosetGen', 'Inventory.lean'), os.path.join(VERIF, 'pinned', 'CosetGen', 'Inventory.lean'))
            strs, chrs = magic.new_texts(os.path.join(R.LEAN, 'CosetGen', 'Inventory.lean'), os.path.join(VERIF, 'pinned', 'CosetGen', 'Inventory.lean'))
            if nums or strs or chrs:
                mops = magic.magic_ops(nums[:12]) + magic.text_ops(strs, chrs)
                ml = [o['op'] for o in mops]
                mi, _ = R.run_impl(ml)
                okp2, _o = R.build_pinned_driver()
                mm = R.run_model(ml, pinned=True)[0] if okp2 else [None] * len(ml)
                if pid in ('C08', 'C10', 'C12', 'C18', 'C01'):
                    bops = magic.big_dup_ops(nums[:6])       # implementation only: the model would take minutes on maps of this size
                    for o in bops:
                        out_, rc_, _d = R.run_side(R.HBIN, [o['op']], timeout=120)
                        a_ = out_[0] if (out_ and rc_ == 0 and len(out_) == 1) else ('abort' if out_ is not None else 'timeout')
                        mops.append(o); mi.append(a_); mm.append(None)
                notes.append('literal-guided search: new literals %s, new strings %s, %d operations' % (nums[:12], strs[:8], len(ml)))
                for o, a, b in zip(mops, mi, mm):
                    if a in ('panic', 'abort', 'timeout') and b not in ('panic', None) and pid == 'C01':
                        found.append(dict(op=o['op'], meta=o['meta'], impl=a, model=b, why='decoding an input built around a literal that is new in the source panics')); continue
                    if o['meta']['k'] == 'magic:dup-after-n':
                        t_ = o['op'].split(' ')[1]
                        if a is not None and a.startswith('ok') and (pid == 'C12' or (pid == 'C08' and t_ in ('Header', 'CoseSign1')) or (pid == 'C10' and t_ == 'CoseKey') or (pid == 'C18' and t_ == 'ClaimsSet')):
                            o['meta']['gen'] = 'vlib/magic.py big_dup_ops: %d distinct labels, then one label twice' % o['meta']['n']
                            found.append(dict(op=o['op'], meta=o['meta'], impl=a[:200], model=None, why='a map that repeats a label after %d distinct ones was accepted' % o['meta']['n']))
                        continue
                    if o['meta']['k'] == 'magic:text-label-repeated' and a is not None and a.startswith('ok') and pid in ('C08', 'C10', 'C12', 'C18'):
                        found.append(dict(op=o['op'], meta=o['meta'], impl=a, model=b, why='a map that repeats a label (a text new in the source) was accepted')); continue
                    if b is not None and a is not None and P.canon_nan(a) != P.canon_nan(b) and not (a.startswith('err') and b.startswith('err')):
                        c = dict(op=o['op'], meta=o['meta'], impl=a, model=b, why='implementation differs from the proved model on an input built around a literal that is new in the source')
                        # for a property that fixes the output, this input fails it; for a predicate on the implementation's own
                        # behaviour it is a witness of the broken correspondence only (kept in the replay file)
                        (found if prop.model_is_spec else witnesses).append(c)
        if found:
            path = write_replay(pid, tier, seed, pr['broken'], P.shrink_cases(prop, found[:5], use_pinned) + found[:20], 'obligation broken; failing input found by enlarged search')
            violations.append((path, ''))
        else:
            path = write_replay(pid, tier, seed, pr['broken'], witnesses[:20], 'obligation no longer checks; no failing input found. lake log tail:\n' + pr['log'][-2500:])
            violations.append((path, ' no-failing-input-found'))
    elif drift:
        path = write_replay(pid, tier, seed, 'correspondence: implementation and model differ, but the property\'s own predicate failed on no explored input (the theorems no longer speak about this code)', drift[:20], 'correspondence broken')
        violations.append((path, ' no-failing-input-found'))
    if not model_ok and not use_pinned and not violations:
        path = write_replay(pid, tier, seed, pr['broken'] or 'model driver unavailable', [], pr['log'][-2500:])
        violations.append((path, ' no-failing-input-found'))
    for l in known_lines: print(l)
    wall = time.time() - t0
    P.write_evidence(pid, tier, seed, pr, tstat, ops, impl, wall, len(violations), stats=stats, nontrivial=len(nontrivial),
                     notes=notes, drift=len(drift), failures=len(failures), known=[l for l in known_lines],
                     t_impl=t_impl, t_model=t_model, use_pinned=use_pinned)
    for path, suffix in violations:
        print('VIOLATION property=%s replay=%s%s' % (pid, path, suffix))
    print('%s %s: obligations %d/%d, ops %d, failures %d (known %d), drift %d, %.1fs' % (
        pid, 'FAIL' if violations else 'ok', pr['discharged'], pr['obligations'], len(ops), len(failures),
        len(failures) - len(fresh), len(drift), wall))
    sys.exit(1 if violations else 0)

if __name__ == '__main__':
    main()
