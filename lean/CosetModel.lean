import CosetModel.Forms
