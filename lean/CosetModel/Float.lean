/-
  CosetModel.Float — bit-level models of the float conversions ciborium performs:
  f16→f64 and f32→f64 widening on decode, f64→f16 / f64→f32 narrowing attempts on encode.
  All on `Nat` bit patterns (half 2.2.1 software paths; `as f32` / `f64::from(f32)` hardware semantics).
  The theorems never need properties of these functions: the encoder checks `widen (narrow x) = x` itself.
-/
import CosetModel.Basic
namespace Coset.Float

/-- number of significant bits of `n` (`fuel` ≥ that number). -/
def bitLen : Nat → Nat → Nat
  | 0, _ => 0
  | k+1, n => if n = 0 then 0 else bitLen k (n / 2) + 1

/-- half-precision bits → double bits (`f16::to_f64` fallback). -/
def f16to64 (h : Nat) : Nat :=
  let s := (h >>> 15) &&& 1
  let e := (h >>> 10) &&& 0x1f
  let m := h &&& 0x3ff
  if e = 0 ∧ m = 0 then s <<< 63
  else if e = 0x1f then
    if m = 0 then (s <<< 63) ||| 0x7ff0000000000000
    else (s <<< 63) ||| 0x7ff8000000000000 ||| (m <<< 42)
  else if e = 0 then
    let lz := 16 - bitLen 16 m
    let ee := lz - 6
    let exp := (1023 - 15 - ee) <<< 52
    let man := (m <<< (43 + ee)) &&& 0xFFFFFFFFFFFFF
    (s <<< 63) ||| exp ||| man
  else (s <<< 63) ||| ((e + 1008) <<< 52) ||| (m <<< 42)

/-- single-precision bits → double bits (`f64::from(f32)`; signalling NaNs are quieted). -/
def f32to64 (w : Nat) : Nat :=
  let s := (w >>> 31) &&& 1
  let e := (w >>> 23) &&& 0xff
  let m := w &&& 0x7fffff
  if e = 0xff then
    if m = 0 then (s <<< 63) ||| 0x7ff0000000000000
    else (s <<< 63) ||| 0x7ff8000000000000 ||| (m <<< 29)
  else if e = 0 then
    if m = 0 then s <<< 63
    else
      let k := bitLen 23 m                     -- 1..23 significant bits; value = m · 2^-149
      let exp := (k + 873) <<< 52              -- (k-1) - 149 + 1023
      let man := ((m - 2 ^ (k - 1)) <<< (53 - k))
      (s <<< 63) ||| exp ||| man
  else (s <<< 63) ||| ((e + 896) <<< 52) ||| (m <<< 29)

/-- double bits → single bits, round to nearest, ties to even (`x as f32`). -/
def f64to32 (v : Nat) : Nat :=
  let s := (v >>> 63) &&& 1
  let e := (v >>> 52) &&& 0x7ff
  let m := v &&& 0xFFFFFFFFFFFFF
  if e = 0x7ff then
    if m = 0 then (s <<< 31) ||| 0x7f800000
    else (s <<< 31) ||| 0x7fc00000 ||| (m >>> 29)
  else if e = 0 then s <<< 31
  else
    let sig := 0x10000000000000 ||| m          -- 53 significant bits
    if e ≥ 897 then                            -- unbiased exponent ≥ -126 : normal candidate
      let q := sig >>> 29
      let r := sig &&& 0x1FFFFFFF
      let up := if r > 0x10000000 ∨ (r = 0x10000000 ∧ q % 2 = 1) then 1 else 0
      let bits := ((e - 896) <<< 23) + (q - 0x800000) + up
      if bits ≥ 0x7f800000 then (s <<< 31) ||| 0x7f800000 else (s <<< 31) ||| bits
    else
      let sh := 29 + (897 - e)
      if sh ≥ 55 then s <<< 31
      else
        let q := sig >>> sh
        let r := sig % 2 ^ sh
        let half := 2 ^ (sh - 1)
        let up := if r > half ∨ (r = half ∧ q % 2 = 1) then 1 else 0
        (s <<< 31) ||| (q + up)

/-- double bits → half bits (`f16::from_f64` fallback of half 2.2.1). -/
def f64to16 (v : Nat) : Nat :=
  let x := v >>> 32
  let sign := x &&& 0x80000000
  let exp := x &&& 0x7ff00000
  let man := x &&& 0xfffff
  let halfSign := sign >>> 16
  if exp = 0x7ff00000 then
    let nanBit := if man = 0 ∧ (v &&& 0xffffffff) = 0 then 0 else 0x200
    (halfSign ||| 0x7c00 ||| nanBit ||| (man >>> 10)) &&& 0xffff
  else
    let e := exp >>> 20                        -- biased; half_exp = e - 1008 (signed)
    if e ≥ 1008 + 0x1f then (halfSign ||| 0x7c00) &&& 0xffff
    else if e ≤ 1008 then
      -- half_exp = -(1008 - e) ≤ 0
      let d := 1008 - e                        -- -half_exp
      if 10 + d > 21 then halfSign &&& 0xffff
      else
        let man1 := man ||| 0x100000
        let hm := man1 >>> (11 + d)
        let rb := 1 <<< (10 + d)
        if (man1 &&& rb) ≠ 0 ∧ (man1 &&& (3 * rb - 1)) ≠ 0 then (halfSign ||| (hm + 1)) &&& 0xffff
        else (halfSign ||| hm) &&& 0xffff
    else
      let hexp := (e - 1008) <<< 10
      let hm := man >>> 10
      let rb := 0x200
      if (man &&& rb) ≠ 0 ∧ (man &&& (3 * rb - 1)) ≠ 0 then ((halfSign ||| hexp ||| hm) + 1) &&& 0xffff
      else (halfSign ||| hexp ||| hm) &&& 0xffff

end Coset.Float
