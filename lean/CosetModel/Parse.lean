/-
  CosetModel.Parse — ciborium 0.2.2's deserializer for `Value` (`ciborium::de::from_reader`),
  with the behaviours coset's properties depend on:
  * recursion budget 256, consumed by arrays, maps and tags;
  * tag 2/3 in front of a *definite* byte string of ≤ 16 bytes is folded into an integer
    (or a normalised bignum tag), in front of anything else it is kept;
  * `undefined` reads as `null`; other simple values are errors; two-byte simple forms accepted;
  * f16/f32 widened to f64;  text UTF-8-validated per segment;  segmented strings may nest;
  * nothing is allocated from a declared length.
  `fuel` is for termination only (see `parse_fuel_suff` in the proofs); `depth` is the 256 budget.
-/
import CosetModel.Value
import CosetModel.Utf8
namespace Coset.Cbor

/-- parser result: value, error (every ciborium error becomes `DecodeFailed`), or out of fuel. -/
inductive PR (α : Type) where
  | ok (a : α)
  | err
  | oof
  deriving Repr, Inhabited

/-- CBOR item heads as ciborium-ll's `Header`. -/
inductive Hd where
  | pos (n : Nat) | neg (n : Nat)
  | bytes (len : Option Nat) | text (len : Option Nat)
  | array (len : Option Nat) | map (len : Option Nat)
  | tag (n : Nat) | simple (n : Nat) | float (bits : Nat) | brk
  deriving Repr, Inhabited, DecidableEq

/-- argument of a head: (value, width in bytes, rest); minor 31 gives `none`. -/
def pullArg (minor : Nat) (rest : Bytes) : Option (Option (Nat × Nat) × Bytes) :=
  if minor < 24 then some (some (minor, 0), rest)
  else if minor = 24 then (if rest.length < 1 then none else some (some (beVal (rest.take 1), 1), rest.drop 1))
  else if minor = 25 then (if rest.length < 2 then none else some (some (beVal (rest.take 2), 2), rest.drop 2))
  else if minor = 26 then (if rest.length < 4 then none else some (some (beVal (rest.take 4), 4), rest.drop 4))
  else if minor = 27 then (if rest.length < 8 then none else some (some (beVal (rest.take 8), 8), rest.drop 8))
  else if minor = 31 then some (none, rest)
  else none

/-- `Decoder::pull`: read one head. -/
def pull : Bytes → Option (Hd × Bytes)
  | [] => none
  | b :: rest0 =>
    let major := b.toNat / 32
    let minor := b.toNat % 32
    match pullArg minor rest0 with
    | none => none
    | some (arg, rest) =>
      match major, arg with
      | 0, some (n, _) => some (.pos n, rest)
      | 1, some (n, _) => some (.neg n, rest)
      | 6, some (n, _) => some (.tag n, rest)
      | 0, none => none
      | 1, none => none
      | 6, none => none
      | 2, a => some (.bytes (a.map (·.1)), rest)
      | 3, a => some (.text (a.map (·.1)), rest)
      | 4, a => some (.array (a.map (·.1)), rest)
      | 5, a => some (.map (a.map (·.1)), rest)
      | _, none => some (.brk, rest)
      | _, some (n, w) =>
        if w = 0 ∨ w = 1 then some (.simple n, rest)
        else if w = 2 then some (.float (Float.f16to64 n), rest)
        else if w = 4 then some (.float (Float.f32to64 n), rest)
        else some (.float n, rest)

/-- `From<u128> for Value` after tag-2 folding. -/
def fromU128 (raw : Nat) : Value :=
  if raw < 2 ^ 64 then .int raw else .tag 2 (.bytes (minBytes raw))

/-- tag-3 folding: `-1 - raw` as `i128` (error above `i128::MAX`), then `From<i128> for Value`. -/
def fromNegU128 (raw : Nat) : Option Value :=
  if raw ≥ 2 ^ 127 then none
  else if raw < 2 ^ 64 then some (.int (-1 - (raw : Int)))
  else some (.tag 3 (.bytes (minBytes raw)))

/-- ciborium peeks at the head following a tag: a *definite* byte string of at most 16 bytes after tag 2/3 is a bignum to fold. -/
def smallBytesPeek (rest : Bytes) : Option (Nat × Bytes) :=
  match pull rest with
  | some (.bytes (some len), rest2) => if len ≤ 16 then some (len, rest2) else none
  | _ => none

/-- segments of an indefinite-length string; `nested` ≥ 1 open indefinite heads. -/
def chunks : (fuel : Nat) → (isText : Bool) → (nested : Nat) → Bytes → (acc : Bytes) → PR (Bytes × Bytes)
  | 0, _, _, _, _ => .oof
  | fuel+1, isText, nested, bs, acc =>
    match pull bs with
    | none => .err
    | some (.brk, rest) =>
      if nested ≤ 1 then .ok (acc, rest) else chunks fuel isText (nested - 1) rest acc
    | some (.bytes len, rest) =>
      if isText then .err else
      match len with
      | none => chunks fuel isText (nested + 1) rest acc
      | some n => if rest.length < n then .err else chunks fuel isText nested (rest.drop n) (acc ++ rest.take n)
    | some (.text len, rest) =>
      if !isText then .err else
      match len with
      | none => chunks fuel isText (nested + 1) rest acc
      | some n =>
        if rest.length < n then .err
        else if !Utf8.valid (rest.take n) then .err
        else chunks fuel isText nested (rest.drop n) (acc ++ rest.take n)
    | some _ => .err

mutual
/-- one data item. -/
def parse : (fuel depth : Nat) → Bytes → PR (Value × Bytes)
  | 0, _, _ => .oof
  | fuel+1, depth, bs =>
    match pull bs with
    | none => .err
    | some (hd, rest) =>
      match hd with
      | .pos n => .ok (.int n, rest)
      | .neg n => .ok (.int (-1 - (n : Int)), rest)
      | .bytes (some n) =>
        if rest.length < n then .err else .ok (.bytes (rest.take n), rest.drop n)
      | .bytes none =>
        match chunks fuel false 1 rest [] with
        | .ok (b, r) => .ok (.bytes b, r)
        | .err => .err
        | .oof => .oof
      | .text (some n) =>
        if rest.length < n then .err
        else if !Utf8.valid (rest.take n) then .err
        else .ok (.text (rest.take n), rest.drop n)
      | .text none =>
        match chunks fuel true 1 rest [] with
        | .ok (b, r) => .ok (.text b, r)
        | .err => .err
        | .oof => .oof
      | .array (some n) =>
        if depth = 0 then .err else
        match parseN fuel (depth - 1) n rest with
        | .ok (xs, r) => .ok (.array xs, r)
        | .err => .err
        | .oof => .oof
      | .array none =>
        if depth = 0 then .err else
        match parseIndef fuel (depth - 1) rest with
        | .ok (xs, r) => .ok (.array xs, r)
        | .err => .err
        | .oof => .oof
      | .map (some n) =>
        if depth = 0 then .err else
        match parsePairsN fuel (depth - 1) n rest with
        | .ok (xs, r) => .ok (.map xs, r)
        | .err => .err
        | .oof => .oof
      | .map none =>
        if depth = 0 then .err else
        match parsePairsIndef fuel (depth - 1) rest with
        | .ok (xs, r) => .ok (.map xs, r)
        | .err => .err
        | .oof => .oof
      | .tag t =>
        match (if t = 2 ∨ t = 3 then smallBytesPeek rest else none) with
        | some (len, rest2) =>
          if rest2.length < len then .err else
          let raw := beVal (rest2.take len)
          if t = 2 then .ok (fromU128 raw, rest2.drop len)
          else match fromNegU128 raw with
            | some v => .ok (v, rest2.drop len)
            | none => .err
        | none =>
          if depth = 0 then .err else
          match parse fuel (depth - 1) rest with
          | .ok (v, r) => .ok (.tag t v, r)
          | .err => .err
          | .oof => .oof
      | .float bits => .ok (.float (UInt64.ofNat bits), rest)
      | .simple n =>
        if n = 20 then .ok (.bool false, rest)
        else if n = 21 then .ok (.bool true, rest)
        else if n = 22 ∨ n = 23 then .ok (.null, rest)
        else .err
      | .brk => .err
/-- `n` items (definite-length array body). -/
def parseN : (fuel depth : Nat) → Nat → Bytes → PR (List Value × Bytes)
  | 0, _, _, _ => .oof
  | _+1, _, 0, bs => .ok ([], bs)
  | fuel+1, depth, n+1, bs =>
    match parse fuel depth bs with
    | .ok (v, r) =>
      match parseN fuel depth n r with
      | .ok (xs, r') => .ok (v :: xs, r')
      | .err => .err
      | .oof => .oof
    | .err => .err
    | .oof => .oof
/-- items up to a break (indefinite-length array body). -/
def parseIndef : (fuel depth : Nat) → Bytes → PR (List Value × Bytes)
  | 0, _, _ => .oof
  | fuel+1, depth, bs =>
    if bs.head? = some 0xff then .ok ([], bs.tail)      -- the break byte (`pull` gives `brk` exactly for 0xff)
    else
      match parse fuel depth bs with
      | .ok (v, r) =>
        match parseIndef fuel depth r with
        | .ok (xs, r') => .ok (v :: xs, r')
        | .err => .err
        | .oof => .oof
      | .err => .err
      | .oof => .oof
/-- `n` key/value pairs. -/
def parsePairsN : (fuel depth : Nat) → Nat → Bytes → PR (List (Value × Value) × Bytes)
  | 0, _, _, _ => .oof
  | _+1, _, 0, bs => .ok ([], bs)
  | fuel+1, depth, n+1, bs =>
    match parse fuel depth bs with
    | .ok (k, r) =>
      match parse fuel depth r with
      | .ok (v, r2) =>
        match parsePairsN fuel depth n r2 with
        | .ok (xs, r') => .ok ((k, v) :: xs, r')
        | .err => .err
        | .oof => .oof
      | .err => .err
      | .oof => .oof
    | .err => .err
    | .oof => .oof
/-- key/value pairs up to a break. -/
def parsePairsIndef : (fuel depth : Nat) → Bytes → PR (List (Value × Value) × Bytes)
  | 0, _, _ => .oof
  | fuel+1, depth, bs =>
    if bs.head? = some 0xff then .ok ([], bs.tail)
    else
      match parse fuel depth bs with
      | .ok (k, r) =>
        match parse fuel depth r with
        | .ok (v, r2) =>
          match parsePairsIndef fuel depth r2 with
          | .ok (xs, r') => .ok ((k, v) :: xs, r')
          | .err => .err
          | .oof => .oof
        | .err => .err
        | .oof => .oof
      | .err => .err
      | .oof => .oof
end

/-- ciborium's recursion budget. -/
def recursionLimit : Nat := 256

/-- fuel that is always enough for input `bs` (each call consumes at least one input byte; the pair
    functions make two calls per level; see `parse_fuel` lemmas). -/
def fuelFor (bs : Bytes) : Nat := 3 * bs.length + 3

/-- `ciborium::de::from_reader(&mut slice)` : the value and the unread rest. -/
def fromReader (bs : Bytes) : PR (Value × Bytes) := parse (fuelFor bs) recursionLimit bs

end Coset.Cbor

namespace Coset
open Cbor

/-- `read_to_value` (src/common/mod.rs): parse one item, fail if bytes remain. -/
def readToValue (bs : Bytes) : Res Value :=
  match fromReader bs with
  | .ok (v, rest) => if rest.isEmpty then .ok v else .err .extraneousData
  | .err => .err .decodeFailed
  | .oof => .err .outOfFuel

end Coset
