/-
  CosetModel.Api — the provided methods of `CborSerializable` / `TaggedCborSerializable`
  (src/common/mod.rs) and the per-type entry points built from them.
-/
import CosetModel.KeyCwtContext
namespace Coset



/-- `CborSerializable::from_slice` -/
def fromSlice {α : Type} (conv : Value → Res α) (bs : Bytes) : Res α :=
  match readToValue bs with
  | .ok v => conv v
  | .err e => .err e
  | .panic p => .panic p

/-- `CborSerializable::to_vec` -/
def toVec {α : Type} (toV : α → Res Value) (x : α) : Res Bytes :=
  match toV x with
  | .ok v => .ok (Cbor.enc v)
  | .err e => .err e
  | .panic p => .panic p

/-- `TaggedCborSerializable::from_tagged_slice` -/
def fromTaggedSlice {α : Type} (tag : Nat) (conv : Value → Res α) (bs : Bytes) : Res α :=
  match readToValue bs with
  | .ok v =>
    match tryAsTag v with
    | .ok (t, inner) => if t != tag then .err .unexpectedItem else conv inner
    | .err e => .err e
    | .panic p => .panic p
  | .err e => .err e
  | .panic p => .panic p

/-- `TaggedCborSerializable::to_tagged_vec` -/
def toTaggedVec {α : Type} (tag : Nat) (toV : α → Res Value) (x : α) : Res Bytes :=
  match toV x with
  | .ok v => .ok (Cbor.enc (.tag tag v))
  | .err e => .err e
  | .panic p => .panic p


end Coset
