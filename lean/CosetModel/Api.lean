/-
  CosetModel.Api — the provided methods of `CborSerializable` / `TaggedCborSerializable`
  (src/common/mod.rs) and the per-type entry points built from them.
-/
import CosetModel.KeyCwtContext
namespace Coset

mutual
/-- number of nodes plus string bytes of a value: an upper bound for any nesting reachable from it. -/
def Value.size : Value → Nat
  | .bytes b => b.length + 1
  | .text b => b.length + 1
  | .tag _ v => Value.size v + 1
  | .array xs => Value.sizeL xs + 1
  | .map kvs => Value.sizeP kvs + 1
  | _ => 1
def Value.sizeL : List Value → Nat
  | [] => 0
  | x :: xs => Value.size x + Value.sizeL xs
def Value.sizeP : List (Value × Value) → Nat
  | [] => 0
  | (k, v) :: kvs => Value.size k + Value.size v + Value.sizeP kvs
end

/-- fuel for the Header ↔ CoseSignature ↔ ProtectedHeader recursion when starting from bytes:
    three units per nesting level, and a level needs at least one input byte. -/
def fuelOfBytes (bs : Bytes) : Nat := 3 * bs.length + 3
def fuelOfValue (v : Value) : Nat := 3 * v.size + 3

/-- `CborSerializable::from_slice` -/
def fromSlice {α : Type} (conv : Nat → Value → Res α) (bs : Bytes) : Res α :=
  match readToValue bs with
  | .ok v => conv (fuelOfBytes bs) v
  | .err e => .err e
  | .panic p => .panic p

/-- `CborSerializable::to_vec` -/
def toVec {α : Type} (toV : α → Res Value) (x : α) : Res Bytes :=
  match toV x with
  | .ok v => .ok (Cbor.enc v)
  | .err e => .err e
  | .panic p => .panic p

/-- `TaggedCborSerializable::from_tagged_slice` -/
def fromTaggedSlice {α : Type} (tag : Nat) (conv : Nat → Value → Res α) (bs : Bytes) : Res α :=
  match readToValue bs with
  | .ok v =>
    match tryAsTag v with
    | .ok (t, inner) => if t != tag then .err .unexpectedItem else conv (fuelOfBytes bs) inner
    | .err e => .err e
    | .panic p => .panic p
  | .err e => .err e
  | .panic p => .panic p

/-- `TaggedCborSerializable::to_tagged_vec` -/
def toTaggedVec {α : Type} (tag : Nat) (toV : α → Res Value) (x : α) : Res Bytes :=
  match toV x with
  | .ok v => .ok (Cbor.enc (.tag tag v))
  | .err e => .err e
  | .panic p => .panic p

/-- conversions that do not recurse through protected headers ignore the fuel. -/
def noFuel {α : Type} (f : Value → Res α) : Nat → Value → Res α := fun _ v => f v

end Coset
