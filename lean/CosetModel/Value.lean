/-
  CosetModel.Value — the CBOR data model (`ciborium::value::Value`) and ciborium's serializer for it.
-/
import CosetModel.Float
namespace Coset

/-- `ciborium::value::Value`.  Text is carried as UTF-8 bytes; floats as f64 bit patterns. -/
inductive Value where
  | int (n : Int)
  | bytes (b : Bytes)
  | text (b : Bytes)
  | float (bits : UInt64)
  | bool (b : Bool)
  | null
  | tag (t : Nat) (v : Value)
  | array (xs : List Value)
  | map (kvs : List (Value × Value))
  deriving Repr, Inhabited

namespace Value

/-- `Value::from(i64/u64)` -/
@[inline] def ofInt (n : Int) : Value := .int n

mutual
def beq : Value → Value → Bool
  | .int a, .int b => a == b
  | .bytes a, .bytes b => a == b
  | .text a, .text b => a == b
  | .float a, .float b => a == b
  | .bool a, .bool b => a == b
  | .null, .null => true
  | .tag t v, .tag u w => t == u && beq v w
  | .array xs, .array ys => beqL xs ys
  | .map xs, .map ys => beqP xs ys
  | _, _ => false
def beqL : List Value → List Value → Bool
  | [], [] => true
  | x :: xs, y :: ys => beq x y && beqL xs ys
  | _, _ => false
def beqP : List (Value × Value) → List (Value × Value) → Bool
  | [], [] => true
  | (a, b) :: xs, (c, d) :: ys => beq a c && beq b d && beqP xs ys
  | _, _ => false
end

instance : BEq Value := ⟨beq⟩

end Value

mutual
/-- number of nodes plus string bytes of a value: an upper bound for any nesting reachable from it. -/
def Value.size : Value → Nat
  | .bytes b => b.length + 1
  | .text b => b.length + 1
  | .tag _ v => Value.size v + 1
  | .array xs => Value.sizeL xs + 1
  | .map kvs => Value.sizeP kvs + 1
  | _ => 1
def Value.sizeL : List Value → Nat
  | [] => 0
  | x :: xs => Value.size x + Value.sizeL xs
def Value.sizeP : List (Value × Value) → Nat
  | [] => 0
  | (k, v) :: kvs => Value.size k + Value.size v + Value.sizeP kvs
end


namespace Cbor

/-- CBOR head: major type `m` (0..7) with argument `n`, shortest form (ciborium always emits it). -/
def encHead (m n : Nat) : Bytes :=
  if n < 24 then [UInt8.ofNat (m * 32 + n)]
  else if n < 256 then UInt8.ofNat (m * 32 + 24) :: beN 1 n
  else if n < 65536 then UInt8.ofNat (m * 32 + 25) :: beN 2 n
  else if n < 4294967296 then UInt8.ofNat (m * 32 + 26) :: beN 4 n
  else UInt8.ofNat (m * 32 + 27) :: beN 8 n

/-- float: the shortest of f16 / f32 / f64 that widens back to the same bits. -/
def encFloat (bits : Nat) : Bytes :=
  let h := Float.f64to16 bits % 65536           -- (a u16 / u32: the reductions are no-ops)
  if Float.f16to64 h = bits then 0xf9 :: beN 2 h
  else
    let w := Float.f64to32 bits % 4294967296
    if Float.f32to64 w = bits then 0xfa :: beN 4 w
    else 0xfb :: beN 8 bits

mutual
/-- `ciborium::ser::into_writer(&value, …)` : deterministic, definite lengths, shortest heads,
    map entries in the order given. -/
def enc : Value → Bytes
  | .int n => if 0 ≤ n then encHead 0 n.toNat else encHead 1 (-1 - n).toNat
  | .bytes b => encHead 2 b.length ++ b
  | .text b => encHead 3 b.length ++ b
  | .float bits => encFloat bits.toNat
  | .bool b => [if b then 0xf5 else 0xf4]
  | .null => [0xf6]
  | .tag t v => encHead 6 t ++ enc v
  | .array xs => encHead 4 xs.length ++ encList xs
  | .map kvs => encHead 5 kvs.length ++ encPairs kvs
def encList : List Value → Bytes
  | [] => []
  | x :: xs => enc x ++ encList xs
def encPairs : List (Value × Value) → Bytes
  | [] => []
  | (k, v) :: kvs => enc k ++ enc v ++ encPairs kvs
end

end Cbor
end Coset
