/-
  CosetModel.KeyCwtContext — COSE_Key / COSE_KeySet (src/key/mod.rs), CWT claims sets (src/cwt/mod.rs),
  COSE_KDF_Context and its parts (src/context/mod.rs).
-/
import CosetModel.Messages
namespace Coset

/-! ## COSE_Key -/

structure CoseKey where
  kty : RegLabel
  keyId : Bytes
  alg : Option RegLabelPriv
  keyOps : List RegLabel          -- `BTreeSet<KeyOperation>`: kept in iteration (ascending) order
  baseIv : Bytes
  params : List (Label × Value)
  deriving Inhabited

/-- `KeyType::Assigned(iana::KeyType::Reserved)` : the variant whose integer is the `Reserved` row. -/
def ktyReservedIdx : Nat := Gen.idx_KeyType_Reserved

/-- `CoseKey::default()` -/
def CoseKey.default : CoseKey := ⟨.assigned ktyReservedIdx, [], none, [], [], []⟩

def kKTY : Label := .int Gen.key_KTY
def kKID : Label := .int Gen.key_KID
def kALG : Label := .int Gen.key_ALG
def kKEY_OPS : Label := .int Gen.key_KEY_OPS
def kBASE_IV : Label := .int Gen.key_BASE_IV

/-- the `for key_op in key_ops` loop: insert into the ordered set, reject repeats. -/
def keyOpsLoop : List Value → List RegLabel → Res (List RegLabel)
  | [], s => .ok s
  | v :: vs, s =>
    match RegLabel.fromValue Reg.keyOperation v with
    | .ok op =>
      match setInsert (RegLabel.cmp Reg.keyOperation) s op with
      | .ok (some s') => keyOpsLoop vs s'
      | .ok none => .err .unexpectedItem
      | .err e => .err e
      | .panic p => .panic p
    | .err e => .err e
    | .panic p => .panic p

def keyDispatch (label : Label) (value : Value) (k : CoseKey) : Res CoseKey :=
  if label = kKTY then
    match RegLabel.fromValue Reg.keyType value with
    | .ok t => .ok { k with kty := t }
    | .err e => .err e
    | .panic p => .panic p
  else if label = kKID then
    match tryAsNonemptyBytes value with
    | .ok b => .ok { k with keyId := b }
    | .err e => .err e
    | .panic p => .panic p
  else if label = kALG then
    match RegLabelPriv.fromValue Reg.algorithm value with
    | .ok a => .ok { k with alg := some a }
    | .err e => .err e
    | .panic p => .panic p
  else if label = kKEY_OPS then
    match tryAsArray value with
    | .ok ops =>
      match keyOpsLoop ops k.keyOps with
      | .ok s => if s.isEmpty then .err .unexpectedItem else .ok { k with keyOps := s }
      | .err e => .err e
      | .panic p => .panic p
    | .err e => .err e
    | .panic p => .panic p
  else if label = kBASE_IV then
    match tryAsNonemptyBytes value with
    | .ok b => .ok { k with baseIv := b }
    | .err e => .err e
    | .panic p => .panic p
  else .ok { k with params := k.params ++ [(label, value)] }

def keyLoop : List (Value × Value) → CoseKey → List Label → Res CoseKey
  | [], k, _ => .ok k
  | (l, value) :: m, k, seen =>
    match Label.fromValue l with
    | .ok label =>
      match setContains Label.cmp seen label with
      | .ok true => .err .duplicateMapKey
      | .ok false =>
        match keyDispatch label value k with
        | .ok k' => keyLoop m k' (seen ++ [label])
        | .err e => .err e
        | .panic p => .panic p
      | .err e => .err e
      | .panic p => .panic p
    | .err e => .err e
    | .panic p => .panic p

/-- `CoseKey::from_cbor_value` -/
def CoseKey.fromValue (v : Value) : Res CoseKey :=
  match tryAsMap v with
  | .ok m =>
    match keyLoop m CoseKey.default [] with
    | .ok k => if k.kty = .assigned ktyReservedIdx then .err .unexpectedItem else .ok k
    | .err e => .err e
    | .panic p => .panic p
  | .err e => .err e
  | .panic p => .panic p

/-- `CoseKey::to_cbor_value` -/
def CoseKey.toValue (k : CoseKey) : Res Value :=
  match RegLabel.toValue Reg.keyType k.kty with
  | .ok ktyV =>
    let m0 : List (Value × Value) := [(.int Gen.key_KTY, ktyV)]
    let m1 := if !k.keyId.isEmpty then m0 ++ [(.int Gen.key_KID, .bytes k.keyId)] else m0
    match (match k.alg with
           | some a => match RegLabelPriv.toValue Reg.algorithm a with
             | .ok v => Res.ok (m1 ++ [(Value.int Gen.key_ALG, v)])
             | .err e => .err e
             | .panic p => .panic p
           | none => .ok m1) with
    | .ok m2 =>
      match (if !k.keyOps.isEmpty then
               match regLabelsToValues Reg.keyOperation k.keyOps with
               | .ok vs => Res.ok (m2 ++ [(Value.int Gen.key_KEY_OPS, Value.array vs)])
               | .err e => .err e
               | .panic p => .panic p
             else .ok m2) with
      | .ok m3 =>
        let m4 := if !k.baseIv.isEmpty then m3 ++ [(.int Gen.key_BASE_IV, .bytes k.baseIv)] else m3
        match restToPairs k.params (typedSeen m4) m4 with
        | .ok m => .ok (.map m)
        | .err e => .err e
        | .panic p => .panic p
      | .err e => .err e
      | .panic p => .panic p
    | .err e => .err e
    | .panic p => .panic p
  | .err e => .err e
  | .panic p => .panic p

inductive CborOrdering where | lexicographic | lengthFirstLexicographic
  deriving DecidableEq, Repr, Inhabited

/-- `l.0.cmp(&r.0) != Greater` as the `≤` driving the stable sort. -/
def labelLe (a b : Label) : Bool :=
  match Label.cmp a b with
  | .ok .gt => false
  | _ => true

def labelLeCanonical (a b : Label) : Bool :=
  match Label.cmpCanonical a b with
  | .ok .gt => false
  | _ => true

/-- `CoseKey::canonicalize`: stable sort of `params` by label under the chosen ordering.  A comparison
    can only panic if a label fails to serialise (never: `Label.toVec_ok`). -/
def CoseKey.canonicalize (k : CoseKey) (ord : CborOrdering) : Res CoseKey :=
  match ord with
  | .lexicographic => .ok { k with params := k.params.mergeSort (fun l r => labelLe l.1 r.1) }
  | .lengthFirstLexicographic =>
    if k.params.length ≥ 2 ∧ ¬ k.params.all (fun p => (Label.toVec p.1).isOk) then .panic .expectErr
    else .ok { k with params := k.params.mergeSort (fun l r => labelLeCanonical l.1 r.1) }

/-- `CoseKeySet` -/
def CoseKeySet.fromValue (v : Value) : Res (List CoseKey) := tryAsArrayThenConvert CoseKey.fromValue v
def CoseKeySet.toValue (ks : List CoseKey) : Res Value :=
  match mapRes CoseKey.toValue ks with
  | .ok vs => .ok (.array vs)
  | .err e => .err e
  | .panic p => .panic p

/-! ## CWT -/

inductive Timestamp where
  | wholeSeconds (t : Int)
  | fractionalSeconds (bits : UInt64)
  deriving DecidableEq, Repr, Inhabited

def Timestamp.fromValue : Value → Res Timestamp
  | .int i => match narrowI64 i with
    | .ok n => .ok (.wholeSeconds n)
    | .err e => .err e
    | .panic p => .panic p
  | .float f => .ok (.fractionalSeconds f)
  | _ => typeError

def Timestamp.toValue : Timestamp → Res Value
  | .wholeSeconds t => .ok (.int t)
  | .fractionalSeconds f => .ok (.float f)

structure ClaimsSet where
  issuer : Option Bytes
  subject : Option Bytes
  audience : Option Bytes
  expirationTime : Option Timestamp
  notBefore : Option Timestamp
  issuedAt : Option Timestamp
  cwtId : Option Bytes
  rest : List (RegLabelPriv × Value)
  deriving Inhabited

def ClaimsSet.default : ClaimsSet := ⟨none, none, none, none, none, none, none, []⟩

/-- `ClaimName::Assigned(iana::CwtClaimName::X)` for the variant whose integer is `i`. -/
def cISS : RegLabelPriv := .assigned Gen.cwt_ISS_idx
def cSUB : RegLabelPriv := .assigned Gen.cwt_SUB_idx
def cAUD : RegLabelPriv := .assigned Gen.cwt_AUD_idx
def cEXP : RegLabelPriv := .assigned Gen.cwt_EXP_idx
def cNBF : RegLabelPriv := .assigned Gen.cwt_NBF_idx
def cIAT : RegLabelPriv := .assigned Gen.cwt_IAT_idx
def cCTI : RegLabelPriv := .assigned Gen.cwt_CTI_idx

def claimDispatch (name : RegLabelPriv) (value : Value) (c : ClaimsSet) : Res ClaimsSet :=
  if name = cISS then
    match tryAsString value with
    | .ok t => .ok { c with issuer := some t }
    | .err e => .err e
    | .panic p => .panic p
  else if name = cSUB then
    match tryAsString value with
    | .ok t => .ok { c with subject := some t }
    | .err e => .err e
    | .panic p => .panic p
  else if name = cAUD then
    match tryAsString value with
    | .ok t => .ok { c with audience := some t }
    | .err e => .err e
    | .panic p => .panic p
  else if name = cEXP then
    match Timestamp.fromValue value with
    | .ok t => .ok { c with expirationTime := some t }
    | .err e => .err e
    | .panic p => .panic p
  else if name = cNBF then
    match Timestamp.fromValue value with
    | .ok t => .ok { c with notBefore := some t }
    | .err e => .err e
    | .panic p => .panic p
  else if name = cIAT then
    match Timestamp.fromValue value with
    | .ok t => .ok { c with issuedAt := some t }
    | .err e => .err e
    | .panic p => .panic p
  else if name = cCTI then
    match tryAsBytes value with
    | .ok b => .ok { c with cwtId := some b }
    | .err e => .err e
    | .panic p => .panic p
  else .ok { c with rest := c.rest ++ [(name, value)] }

def claimsLoop : List (Value × Value) → ClaimsSet → List RegLabelPriv → Res ClaimsSet
  | [], c, _ => .ok c
  | (n, value) :: m, c, seen =>
    match RegLabelPriv.fromValue Reg.cwtClaimName n with
    | .ok name =>
      match setContains (RegLabelPriv.cmp Reg.cwtClaimName) seen name with
      | .ok true => .err .duplicateMapKey
      | .ok false =>
        match claimDispatch name value c with
        | .ok c' => claimsLoop m c' (seen ++ [name])
        | .err e => .err e
        | .panic p => .panic p
      | .err e => .err e
      | .panic p => .panic p
    | .err e => .err e
    | .panic p => .panic p

/-- `ClaimsSet::from_cbor_value` -/
def ClaimsSet.fromValue (v : Value) : Res ClaimsSet :=
  match v with
  | .map m => claimsLoop m ClaimsSet.default []
  | _ => typeError

def claimsRestToPairs : List (RegLabelPriv × Value) → Res (List (Value × Value))
  | [] => .ok []
  | (l, v) :: r =>
    match RegLabelPriv.toValue Reg.cwtClaimName l with
    | .ok k =>
      match claimsRestToPairs r with
      | .ok ps => .ok ((k, v) :: ps)
      | .err e => .err e
      | .panic p => .panic p
    | .err e => .err e
    | .panic p => .panic p

def optPush (m : List (Value × Value)) (label : Int) (v : Option Value) : List (Value × Value) :=
  match v with
  | some x => m ++ [(.int label, x)]
  | none => m

def tsValue (t : Timestamp) : Value :=
  match t with
  | .wholeSeconds n => .int n
  | .fractionalSeconds f => .float f

/-- `ClaimsSet::to_cbor_value` (no duplicate check in the source). -/
def ClaimsSet.toValue (c : ClaimsSet) : Res Value :=
  let m := optPush [] Gen.cwt_ISS (c.issuer.map .text)
  let m := optPush m Gen.cwt_SUB (c.subject.map .text)
  let m := optPush m Gen.cwt_AUD (c.audience.map .text)
  let m := optPush m Gen.cwt_EXP (c.expirationTime.map tsValue)
  let m := optPush m Gen.cwt_NBF (c.notBefore.map tsValue)
  let m := optPush m Gen.cwt_IAT (c.issuedAt.map tsValue)
  let m := optPush m Gen.cwt_CTI (c.cwtId.map .bytes)
  match claimsRestToPairs c.rest with
  | .ok ps => .ok (.map (m ++ ps))
  | .err e => .err e
  | .panic p => .panic p

/-! ## COSE_KDF_Context -/

inductive Nonce where
  | bytes (b : Bytes)
  | integer (i : Int)
  deriving DecidableEq, Repr, Inhabited

structure PartyInfo where
  identity : Option Bytes
  nonce : Option Nonce
  other : Option Bytes
  deriving DecidableEq, Repr, Inhabited

def PartyInfo.default : PartyInfo := ⟨none, none, none⟩

def nullOrBytes : Value → Res (Option Bytes)
  | .null => .ok none
  | .bytes b => .ok (some b)
  | _ => typeError

/-- `PartyInfo::from_cbor_value` -/
def PartyInfo.fromValue (v : Value) : Res PartyInfo :=
  match tryAsArray v with
  | .ok a =>
    if Gen.PartyInfo_arityBad a.length then .err .unexpectedItem else
    match vremove a (Gen.PartyInfo_removes.getD 0 99) with
    | .ok (x2, a) =>
      match nullOrBytes x2 with
      | .ok other =>
        match vremove a (Gen.PartyInfo_removes.getD 1 99) with
        | .ok (x1, a) =>
          match (match x1 with
                 | .null => Res.ok (none : Option Nonce)
                 | .bytes b => .ok (some (.bytes b))
                 | .int u => match narrowI64 u with
                   | .ok n => .ok (some (.integer n))
                   | .err e => .err e
                   | .panic p => .panic p
                 | _ => typeError) with
          | .ok nonce =>
            match vremove a (Gen.PartyInfo_removes.getD 2 99) with
            | .ok (x0, _) =>
              match nullOrBytes x0 with
              | .ok identity => .ok ⟨identity, nonce, other⟩
              | .err e => .err e
              | .panic p => .panic p
            | .err e => .err e
            | .panic p => .panic p
          | .err e => .err e
          | .panic p => .panic p
        | .err e => .err e
        | .panic p => .panic p
      | .err e => .err e
      | .panic p => .panic p
    | .err e => .err e
    | .panic p => .panic p
  | .err e => .err e
  | .panic p => .panic p

def PartyInfo.toValue (p : PartyInfo) : Res Value :=
  .ok (.array [optBytesToValue p.identity,
               (match p.nonce with
                | none => .null
                | some (.bytes b) => .bytes b
                | some (.integer i) => .int i),
               optBytesToValue p.other])

structure SuppPubInfo where
  keyDataLength : Int            -- u64
  protected_ : ProtectedHeader
  other : Option Bytes
  deriving Inhabited

def SuppPubInfo.default : SuppPubInfo := ⟨0, ProtectedHeader.default, none⟩

/-- `SuppPubInfo::from_cbor_value` -/
def SuppPubInfo.fromValue (v : Value) : Res SuppPubInfo :=
  match tryAsArray v with
  | .ok a =>
    if Gen.SuppPubInfo_arityBad a.length then .err .unexpectedItem else
    match (if a.length == 3 then
             match vremove a (Gen.SuppPubInfo_removes.getD 0 99) with
             | .ok (x2, a) =>
               match tryAsBytes x2 with
               | .ok b => Res.ok (some b, a)
               | .err e => .err e
               | .panic p => .panic p
             | .err e => .err e
             | .panic p => .panic p
           else .ok (none, a)) with
    | .ok (other, a) =>
      match vremove a (Gen.SuppPubInfo_removes.getD 1 99) with
      | .ok (x1, a) =>
        match phFromBstr x1 with
        | .ok prot =>
          match vremove a (Gen.SuppPubInfo_removes.getD 2 99) with
          | .ok (x0, _) =>
            match tryAsInteger x0 with
            | .ok n =>
              match narrowU64 n with
              | .ok len => .ok ⟨len, prot, other⟩
              | .err e => .err e
              | .panic p => .panic p
            | .err e => .err e
            | .panic p => .panic p
          | .err e => .err e
          | .panic p => .panic p
        | .err e => .err e
        | .panic p => .panic p
      | .err e => .err e
      | .panic p => .panic p
    | .err e => .err e
    | .panic p => .panic p
  | .err e => .err e
  | .panic p => .panic p

def SuppPubInfo.toValue (s : SuppPubInfo) : Res Value :=
  match ProtectedHeader.cborBstr s.protected_ with
  | .ok pv =>
    let v := [Value.int s.keyDataLength, pv]
    match s.other with
    | some o => .ok (.array (v ++ [.bytes o]))
    | none => .ok (.array v)
  | .err e => .err e
  | .panic p => .panic p

structure CoseKdfContext where
  algorithmId : RegLabelPriv
  partyUInfo : PartyInfo
  partyVInfo : PartyInfo
  suppPubInfo : SuppPubInfo
  suppPrivInfo : List Bytes
  deriving Inhabited

/-- `Algorithm::default()` = `Assigned(iana::Algorithm::Reserved)` -/
def algReservedIdx : Nat := Gen.idx_Algorithm_Reserved

def CoseKdfContext.default : CoseKdfContext :=
  ⟨.assigned algReservedIdx, PartyInfo.default, PartyInfo.default, SuppPubInfo.default, []⟩

/-- `for i in (4..a.len()).rev() { supp_priv_info.push(a.remove(i).try_as_bytes()?) }` -/
def kdfTail : List Nat → List Value → List Bytes → Res (List Bytes × List Value)
  | [], a, acc => .ok (acc, a)
  | i :: is, a, acc =>
    match vremove a i with
    | .ok (x, a') =>
      match tryAsBytes x with
      | .ok b => kdfTail is a' (acc ++ [b])
      | .err e => .err e
      | .panic p => .panic p
    | .err e => .err e
    | .panic p => .panic p

/-- `CoseKdfContext::from_cbor_value` -/
def CoseKdfContext.fromValue (v : Value) : Res CoseKdfContext :=
  match tryAsArray v with
  | .ok a =>
    if Gen.CoseKdfContext_arityBad a.length then .err .unexpectedItem else
    if a.length < 4 then .panic .subOverflow else           -- `a.len() - 4`
    match kdfTail (List.range' 4 (a.length - 4)).reverse a [] with
    | .ok (privRev, a) =>
      match vremove a (Gen.CoseKdfContext_removes.getD 0 99) with
      | .ok (x3, a) =>
        match SuppPubInfo.fromValue x3 with
        | .ok supp =>
          match vremove a (Gen.CoseKdfContext_removes.getD 1 99) with
          | .ok (x2, a) =>
            match PartyInfo.fromValue x2 with
            | .ok pv =>
              match vremove a (Gen.CoseKdfContext_removes.getD 2 99) with
              | .ok (x1, a) =>
                match PartyInfo.fromValue x1 with
                | .ok pu =>
                  match vremove a (Gen.CoseKdfContext_removes.getD 3 99) with
                  | .ok (x0, _) =>
                    match RegLabelPriv.fromValue Reg.algorithm x0 with
                    | .ok alg => .ok ⟨alg, pu, pv, supp, privRev.reverse⟩
                    | .err e => .err e
                    | .panic p => .panic p
                  | .err e => .err e
                  | .panic p => .panic p
                | .err e => .err e
                | .panic p => .panic p
              | .err e => .err e
              | .panic p => .panic p
            | .err e => .err e
            | .panic p => .panic p
          | .err e => .err e
          | .panic p => .panic p
        | .err e => .err e
        | .panic p => .panic p
      | .err e => .err e
      | .panic p => .panic p
    | .err e => .err e
    | .panic p => .panic p
  | .err e => .err e
  | .panic p => .panic p

def CoseKdfContext.toValue (k : CoseKdfContext) : Res Value :=
  match RegLabelPriv.toValue Reg.algorithm k.algorithmId with
  | .ok av =>
    match PartyInfo.toValue k.partyUInfo with
    | .ok uv =>
      match PartyInfo.toValue k.partyVInfo with
      | .ok vv =>
        match SuppPubInfo.toValue k.suppPubInfo with
        | .ok sv => .ok (.array ([av, uv, vv, sv] ++ k.suppPrivInfo.map .bytes))
        | .err e => .err e
        | .panic p => .panic p
      | .err e => .err e
      | .panic p => .panic p
    | .err e => .err e
    | .panic p => .panic p
  | .err e => .err e
  | .panic p => .panic p

end Coset
