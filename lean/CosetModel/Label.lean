/-
  CosetModel.Label — IANA registries (tables regenerated from the source), `Label`,
  `RegisteredLabel<T>`, `RegisteredLabelWithPrivate<T>`, their conversions and orderings
  (src/common/mod.rs, src/iana/mod.rs).
-/
import CosetModel.Parse
import CosetGen.Iana
import CosetGen.Facts
namespace Coset

/-- One `iana_registry!` enum: its (variant name, integer) rows in source order and, for the four
    registries that implement `WithPrivateRange`, the `is_private` predicate as written in the source. -/
structure Registry where
  name : String
  rows : List (String × Int)
  isPrivate : Option (Int → Bool)

namespace Registry

/-- `EnumI64::from_i64`: the macro expands to a `match` whose arms are tried in source order;
    a variant is identified by its position in the table. -/
def fromI64 (R : Registry) (i : Int) : Option Nat := R.rows.findIdx? (fun p => p.2 == i)

/-- `EnumI64::to_i64` (`*self as i64`). -/
def toI64 (R : Registry) (k : Nat) : Int := (R.rows[k]?.map (·.2)).getD 0

def variantName (R : Registry) (k : Nat) : String := (R.rows[k]?.map (·.1)).getD "?"

/-- `WithPrivateRange::is_private` (false for registries without a private range: never called there). -/
def private? (R : Registry) (i : Int) : Bool := match R.isPrivate with | some f => f i | none => false

end Registry

namespace Reg
def headerParameter : Registry := ⟨"HeaderParameter", Gen.HeaderParameter, some Gen.HeaderParameter_isPrivate⟩
def headerAlgorithmParameter : Registry := ⟨"HeaderAlgorithmParameter", Gen.HeaderAlgorithmParameter, none⟩
def algorithm : Registry := ⟨"Algorithm", Gen.Algorithm, some Gen.Algorithm_isPrivate⟩
def keyParameter : Registry := ⟨"KeyParameter", Gen.KeyParameter, none⟩
def keyType : Registry := ⟨"KeyType", Gen.KeyType, none⟩
def ec2KeyParameter : Registry := ⟨"Ec2KeyParameter", Gen.Ec2KeyParameter, none⟩
def okpKeyParameter : Registry := ⟨"OkpKeyParameter", Gen.OkpKeyParameter, none⟩
def rsaKeyParameter : Registry := ⟨"RsaKeyParameter", Gen.RsaKeyParameter, none⟩
def symmetricKeyParameter : Registry := ⟨"SymmetricKeyParameter", Gen.SymmetricKeyParameter, none⟩
def hssLmsKeyParameter : Registry := ⟨"HssLmsKeyParameter", Gen.HssLmsKeyParameter, none⟩
def walnutDsaKeyParameter : Registry := ⟨"WalnutDsaKeyParameter", Gen.WalnutDsaKeyParameter, none⟩
def ellipticCurve : Registry := ⟨"EllipticCurve", Gen.EllipticCurve, some Gen.EllipticCurve_isPrivate⟩
def keyOperation : Registry := ⟨"KeyOperation", Gen.KeyOperation, none⟩
def cborTag : Registry := ⟨"CborTag", Gen.CborTag, none⟩
def coapContentFormat : Registry := ⟨"CoapContentFormat", Gen.CoapContentFormat, none⟩
def cwtClaimName : Registry := ⟨"CwtClaimName", Gen.CwtClaimName, some Gen.CwtClaimName_isPrivate⟩

def all : List Registry :=
  [headerParameter, headerAlgorithmParameter, algorithm, keyParameter, keyType, ec2KeyParameter, okpKeyParameter,
   rsaKeyParameter, symmetricKeyParameter, hssLmsKeyParameter, walnutDsaKeyParameter, ellipticCurve, keyOperation,
   cborTag, coapContentFormat, cwtClaimName]
end Reg

/-! ### integer narrowing (`Integer::try_into::<i64/u64>()?`) -/

def i64Min : Int := -9223372036854775808
def i64Max : Int := 9223372036854775807
def u64Max : Int := 18446744073709551615

/-- `i.try_into()?` to `i64`: exact value or `OutOfRangeIntegerValue`. -/
def narrowI64 (n : Int) : Res Int :=
  if i64Min ≤ n ∧ n ≤ i64Max then .ok n else .err .outOfRange

/-- `i.try_into()?` to `u64`. -/
def narrowU64 (n : Int) : Res Int :=
  if 0 ≤ n ∧ n ≤ u64Max then .ok n else .err .outOfRange

/-- `cbor_type_error(&v, …)` -/
def typeError {α : Type} : Res α := .err .unexpectedItem

/-! ### `ValueTryAs` (src/util/mod.rs) -/
def tryAsInteger : Value → Res Int
  | .int n => .ok n
  | _ => typeError
def tryAsBytes : Value → Res Bytes
  | .bytes b => .ok b
  | _ => typeError
def tryAsNonemptyBytes (v : Value) : Res Bytes :=
  match tryAsBytes v with
  | .ok b => if b.isEmpty then .err .unexpectedItem else .ok b
  | r => r
def tryAsArray : Value → Res (List Value)
  | .array a => .ok a
  | _ => typeError
def tryAsMap : Value → Res (List (Value × Value))
  | .map m => .ok m
  | _ => typeError
def tryAsTag : Value → Res (Nat × Value)
  | .tag t v => .ok (t, v)
  | _ => typeError
def tryAsString : Value → Res Bytes
  | .text t => .ok t
  | _ => typeError

/-! ### Label -/

/-- `enum Label { Int(i64), Text(String) }` -/
inductive Label where
  | int (i : Int)
  | text (t : Bytes)
  deriving DecidableEq, Repr, Inhabited

/-- `enum RegisteredLabel<T> { Assigned(T), Text(String) }`; `k` is the variant's position in `T`'s table. -/
inductive RegLabel where
  | assigned (k : Nat)
  | text (t : Bytes)
  deriving DecidableEq, Repr, Inhabited

/-- `enum RegisteredLabelWithPrivate<T> { PrivateUse(i64), Assigned(T), Text(String) }` -/
inductive RegLabelPriv where
  | privateUse (i : Int)
  | assigned (k : Nat)
  | text (t : Bytes)
  deriving DecidableEq, Repr, Inhabited

/-- lexicographic comparison of byte strings (`Ord for [u8]` / `Ord for str`). -/
def lexCmp : Bytes → Bytes → Ordering
  | [], [] => .eq
  | [], _ :: _ => .lt
  | _ :: _, [] => .gt
  | a :: as, b :: bs => if a < b then .lt else if b < a then .gt else lexCmp as bs

/-- `i64::signum` -/
def signum (i : Int) : Int := if i < 0 then -1 else if i = 0 then 0 else 1

/-- `t1.len().cmp(&t2.len()).then(t1.cmp(t2))` -/
def textCmp (t1 t2 : Bytes) : Ordering :=
  (compare t1.length t2.length).then (lexCmp t1 t2)

namespace Label

/-- `impl Ord for Label` — written arm by arm as in the source, including the unreachable arm. -/
def cmp (a b : Label) : Res Ordering :=
  match a, b with
  | .int i1, .int i2 =>
    let s1 := signum i1
    let s2 := signum i2
    if s1 = -1 ∧ s2 = -1 then .ok (compare i2 i1)
    else if s1 = -1 ∧ s2 = 0 then .ok .gt
    else if s1 = -1 ∧ s2 = 1 then .ok .gt
    else if s1 = 0 ∧ s2 = -1 then .ok .lt
    else if s1 = 0 ∧ s2 = 0 then .ok .eq
    else if s1 = 0 ∧ s2 = 1 then .ok .lt
    else if s1 = 1 ∧ s2 = -1 then .ok .lt
    else if s1 = 1 ∧ s2 = 0 then .ok .gt
    else if s1 = 1 ∧ s2 = 1 then .ok (compare i1 i2)
    else .panic .unreachable
  | .int _, .text _ => .ok .lt
  | .text _, .int _ => .ok .gt
  | .text t1, .text t2 => .ok (textCmp t1 t2)

def fromValue : Value → Res Label
  | .int i => match narrowI64 i with
    | .ok n => .ok (.int n)
    | .err e => .err e
    | .panic s => .panic s
  | .text t => .ok (.text t)
  | _ => typeError

def toValue : Label → Res Value
  | .int i => .ok (.int i)
  | .text t => .ok (.text t)

/-- `to_vec` of a label. -/
def toVec (l : Label) : Res Bytes :=
  match toValue l with
  | .ok v => .ok (Cbor.enc v)
  | .err e => .err e
  | .panic s => .panic s

/-- `Label::cmp_canonical`: `to_vec().unwrap()` twice, then length-first comparison. -/
def cmpCanonical (a b : Label) : Res Ordering :=
  match toVec a with
  | .ok ea =>
    match toVec b with
    | .ok eb =>
      if ea.length != eb.length then .ok (compare ea.length eb.length) else .ok (lexCmp ea eb)
    | _ => .panic .expectErr
  | _ => .panic .expectErr

end Label

namespace RegLabel

def cmp (R : Registry) (a b : RegLabel) : Res Ordering :=
  match a, b with
  | .assigned k1, .assigned k2 => Label.cmp (.int (R.toI64 k1)) (.int (R.toI64 k2))
  | .assigned _, .text _ => .ok .lt
  | .text _, .assigned _ => .ok .gt
  | .text t1, .text t2 => .ok (textCmp t1 t2)

def fromValue (R : Registry) : Value → Res RegLabel
  | .int i =>
    match narrowI64 i with
    | .ok n =>
      match R.fromI64 n with
      | some k => .ok (.assigned k)
      | none => .err .unregisteredIana
    | .err e => .err e
    | .panic s => .panic s
  | .text t => .ok (.text t)
  | _ => typeError

def toValue (R : Registry) : RegLabel → Res Value
  | .assigned k => .ok (.int (R.toI64 k))
  | .text t => .ok (.text t)

end RegLabel

namespace RegLabelPriv

/-- the integer a non-text label stands for. -/
def cmp (R : Registry) (a b : RegLabelPriv) : Res Ordering :=
  match a, b with
  | .assigned k1, .assigned k2 => Label.cmp (.int (R.toI64 k1)) (.int (R.toI64 k2))
  | .assigned k1, .privateUse i2 => Label.cmp (.int (R.toI64 k1)) (.int i2)
  | .privateUse i1, .assigned k2 => Label.cmp (.int i1) (.int (R.toI64 k2))
  | .privateUse i1, .privateUse i2 => Label.cmp (.int i1) (.int i2)
  | .assigned _, .text _ => .ok .lt
  | .privateUse _, .text _ => .ok .lt
  | .text _, .assigned _ => .ok .gt
  | .text _, .privateUse _ => .ok .gt
  | .text t1, .text t2 => .ok (textCmp t1 t2)

def fromValue (R : Registry) : Value → Res RegLabelPriv
  | .int i =>
    match narrowI64 i with
    | .ok n =>
      match R.fromI64 n with
      | some k => .ok (.assigned k)
      | none => if R.private? n then .ok (.privateUse n) else .err .unregisteredIanaNonPrivate
    | .err e => .err e
    | .panic s => .panic s
  | .text t => .ok (.text t)
  | _ => typeError

def toValue (R : Registry) : RegLabelPriv → Res Value
  | .privateUse i => .ok (.int i)
  | .assigned k => .ok (.int (R.toI64 k))
  | .text t => .ok (.text t)

end RegLabelPriv

/-! ### `BTreeSet<L>` driven by a (possibly panicking) comparison: membership is "some element compares equal". -/

/-- `seen.contains(&x)` for a set holding exactly the elements of `s`. -/
def setContains {α : Type} (cmp : α → α → Res Ordering) (s : List α) (x : α) : Res Bool :=
  match s with
  | [] => .ok false
  | y :: ys =>
    match cmp x y with
    | .ok .eq => .ok true
    | .ok _ => setContains cmp ys x
    | .err e => .err e
    | .panic p => .panic p

/-- sorted insertion (the iteration order of a `BTreeSet`); returns `none` for the new set if an equal
    element is already present (`insert` returns false). -/
def setInsert {α : Type} (cmp : α → α → Res Ordering) (s : List α) (x : α) : Res (Option (List α)) :=
  match s with
  | [] => .ok (some [x])
  | y :: ys =>
    match cmp x y with
    | .ok .eq => .ok none
    | .ok .lt => .ok (some (x :: y :: ys))
    | .ok .gt =>
      match setInsert cmp ys x with
      | .ok (some r) => .ok (some (y :: r))
      | .ok none => .ok none
      | .err e => .err e
      | .panic p => .panic p
    | .err e => .err e
    | .panic p => .panic p

end Coset
