/-
  CosetModel.Messages — COSE_Sign / Sign1 / Mac / Mac0 / Encrypt / Encrypt0 / recipient
  (src/sign/mod.rs, src/mac/mod.rs, src/encrypt/mod.rs): conversions, to-be-signed / MACed / AAD
  structures and the verify / decrypt helpers.  Positional indices and arity tests come from the
  regenerated facts (F6), context strings from F2, tags from F4.
-/
import CosetModel.Header
namespace Coset

/-- `match a.remove(i) { Value::Bytes(b) => Some(b), Value::Null => None, v => cbor_type_error }` -/
def optBytes : Value → Res (Option Bytes)
  | .bytes b => .ok (some b)
  | .null => .ok none
  | _ => typeError

def optBytesToValue : Option Bytes → Value
  | some b => .bytes b
  | none => .null

structure CoseSign where
  protected_ : ProtectedHeader
  unprotected : Header
  payload : Option Bytes
  signatures : List CoseSignature
  deriving Inhabited

structure CoseSign1 where
  protected_ : ProtectedHeader
  unprotected : Header
  payload : Option Bytes
  signature : Bytes
  deriving Inhabited

inductive CoseRecipient where
  | mk (protected_ : ProtectedHeader) (unprotected : Header) (ciphertext : Option Bytes) (recipients : List CoseRecipient)

namespace CoseRecipient
def protected_ : CoseRecipient → ProtectedHeader | .mk p _ _ _ => p
def unprotected : CoseRecipient → Header | .mk _ u _ _ => u
def ciphertext : CoseRecipient → Option Bytes | .mk _ _ c _ => c
def recipients : CoseRecipient → List CoseRecipient | .mk _ _ _ r => r
def default : CoseRecipient := .mk ProtectedHeader.default Header.default none []
instance : Inhabited CoseRecipient := ⟨CoseRecipient.default⟩
end CoseRecipient

structure CoseEncrypt where
  protected_ : ProtectedHeader
  unprotected : Header
  ciphertext : Option Bytes
  recipients : List CoseRecipient
  deriving Inhabited

structure CoseEncrypt0 where
  protected_ : ProtectedHeader
  unprotected : Header
  ciphertext : Option Bytes
  deriving Inhabited

structure CoseMac where
  protected_ : ProtectedHeader
  unprotected : Header
  payload : Option Bytes
  tag : Bytes
  recipients : List CoseRecipient
  deriving Inhabited

structure CoseMac0 where
  protected_ : ProtectedHeader
  unprotected : Header
  payload : Option Bytes
  tag : Bytes
  deriving Inhabited

/-! ### decoding -/

/-- `try_as_array_then_convert(f)` -/
def tryAsArrayThenConvert {α : Type} (f : Value → Res α) (v : Value) : Res (List α) :=
  match tryAsArray v with
  | .ok a => mapRes f a
  | .err e => .err e
  | .panic p => .panic p

/-- `CoseSign::from_cbor_value` -/
def CoseSign.fromValue (v : Value) : Res CoseSign :=
  match tryAsArray v with
  | .ok a =>
    if Gen.CoseSign_arityBad a.length then .err .unexpectedItem else
    match vremove a (Gen.CoseSign_removes.getD 0 99) with
    | .ok (x3, a) =>
      match tryAsArrayThenConvert (fun v => (sigFromValue v).mapErr .unexpectedItem) x3 with
      | .ok signatures =>
        match vremove a (Gen.CoseSign_removes.getD 1 99) with
        | .ok (x2, a) =>
          match optBytes x2 with
          | .ok payload =>
            match vremove a (Gen.CoseSign_removes.getD 2 99) with
            | .ok (x1, a) =>
              match hdrFromValue x1 with
              | .ok unprotected =>
                match vremove a (Gen.CoseSign_removes.getD 3 99) with
                | .ok (x0, _) =>
                  match phFromBstr x0 with
                  | .ok prot => .ok ⟨prot, unprotected, payload, signatures⟩
                  | .err e => .err e
                  | .panic p => .panic p
                | .err e => .err e
                | .panic p => .panic p
              | .err e => .err e
              | .panic p => .panic p
            | .err e => .err e
            | .panic p => .panic p
          | .err e => .err e
          | .panic p => .panic p
        | .err e => .err e
        | .panic p => .panic p
      | .err e => .err e
      | .panic p => .panic p
    | .err e => .err e
    | .panic p => .panic p
  | .err e => .err e
  | .panic p => .panic p

/-- the shared tail of every message decoder: `unprotected: Header::from_cbor_value(a.remove(i1))?,
    protected: ProtectedHeader::from_cbor_bstr(a.remove(i0))?` -/
def headersTail (a : List Value) (i1 i0 : Nat) : Res (ProtectedHeader × Header) :=
  match vremove a i1 with
  | .ok (x1, a) =>
    match hdrFromValue x1 with
    | .ok unprotected =>
      match vremove a i0 with
      | .ok (x0, _) =>
        match phFromBstr x0 with
        | .ok prot => .ok (prot, unprotected)
        | .err e => .err e
        | .panic p => .panic p
      | .err e => .err e
      | .panic p => .panic p
    | .err e => .err e
    | .panic p => .panic p
  | .err e => .err e
  | .panic p => .panic p

/-- `payload: match a.remove(i) {…}` followed by the header tail. -/
def payloadTail (a : List Value) (i2 i1 i0 : Nat) : Res (ProtectedHeader × Header × Option Bytes) :=
  match vremove a i2 with
  | .ok (x2, a) =>
    match optBytes x2 with
    | .ok payload =>
      match headersTail a i1 i0 with
      | .ok (p, u) => .ok (p, u, payload)
      | .err e => .err e
      | .panic p => .panic p
    | .err e => .err e
    | .panic p => .panic p
  | .err e => .err e
  | .panic p => .panic p

/-- `CoseSign1::from_cbor_value` -/
def CoseSign1.fromValue (v : Value) : Res CoseSign1 :=
  match tryAsArray v with
  | .ok a =>
    if Gen.CoseSign1_arityBad a.length then .err .unexpectedItem else
    match vremove a (Gen.CoseSign1_removes.getD 0 99) with
    | .ok (x3, a) =>
      match tryAsBytes x3 with
      | .ok signature =>
        match payloadTail a (Gen.CoseSign1_removes.getD 1 99) (Gen.CoseSign1_removes.getD 2 99) (Gen.CoseSign1_removes.getD 3 99) with
        | .ok (p, u, payload) => .ok ⟨p, u, payload, signature⟩
        | .err e => .err e
        | .panic p => .panic p
      | .err e => .err e
      | .panic p => .panic p
    | .err e => .err e
    | .panic p => .panic p
  | .err e => .err e
  | .panic p => .panic p

/-- `CoseRecipient::from_cbor_value` -/
def CoseRecipient.fromValue : Nat → Value → Res CoseRecipient
  | 0, _ => .err .outOfFuel
  | fuel+1, v =>
    match tryAsArray v with
    | .ok a =>
      if Gen.CoseRecipient_arityBad a.length then .err .unexpectedItem else
      match (if a.length == 4 then
               match vremove a (Gen.CoseRecipient_removes.getD 0 99) with
               | .ok (x3, a) =>
                 match tryAsArrayThenConvert (CoseRecipient.fromValue fuel) x3 with
                 | .ok rs => Res.ok (rs, a)
                 | .err e => .err e
                 | .panic p => .panic p
               | .err e => .err e
               | .panic p => .panic p
             else .ok ([], a)) with
      | .ok (recipients, a) =>
        match payloadTail a (Gen.CoseRecipient_removes.getD 1 99) (Gen.CoseRecipient_removes.getD 2 99) (Gen.CoseRecipient_removes.getD 3 99) with
        | .ok (p, u, ct) => .ok (.mk p u ct recipients)
        | .err e => .err e
        | .panic p => .panic p
      | .err e => .err e
      | .panic p => .panic p
    | .err e => .err e
    | .panic p => .panic p

/-- nested recipients live inside the `Value`, so the value's size bounds their nesting. -/
def rcpFromValue (v : Value) : Res CoseRecipient := CoseRecipient.fromValue (v.size + 1) v

/-- `CoseEncrypt::from_cbor_value` -/
def CoseEncrypt.fromValue (v : Value) : Res CoseEncrypt :=
  match tryAsArray v with
  | .ok a =>
    if Gen.CoseEncrypt_arityBad a.length then .err .unexpectedItem else
    match vremove a (Gen.CoseEncrypt_removes.getD 0 99) with
    | .ok (x3, a) =>
      match tryAsArrayThenConvert rcpFromValue x3 with
      | .ok recipients =>
        match payloadTail a (Gen.CoseEncrypt_removes.getD 1 99) (Gen.CoseEncrypt_removes.getD 2 99) (Gen.CoseEncrypt_removes.getD 3 99) with
        | .ok (p, u, ct) => .ok ⟨p, u, ct, recipients⟩
        | .err e => .err e
        | .panic p => .panic p
      | .err e => .err e
      | .panic p => .panic p
    | .err e => .err e
    | .panic p => .panic p
  | .err e => .err e
  | .panic p => .panic p

/-- `CoseEncrypt0::from_cbor_value` -/
def CoseEncrypt0.fromValue (v : Value) : Res CoseEncrypt0 :=
  match tryAsArray v with
  | .ok a =>
    if Gen.CoseEncrypt0_arityBad a.length then .err .unexpectedItem else
    match payloadTail a (Gen.CoseEncrypt0_removes.getD 0 99) (Gen.CoseEncrypt0_removes.getD 1 99) (Gen.CoseEncrypt0_removes.getD 2 99) with
    | .ok (p, u, ct) => .ok ⟨p, u, ct⟩
    | .err e => .err e
    | .panic p => .panic p
  | .err e => .err e
  | .panic p => .panic p

/-- `CoseMac::from_cbor_value` -/
def CoseMac.fromValue (v : Value) : Res CoseMac :=
  match tryAsArray v with
  | .ok a =>
    if Gen.CoseMac_arityBad a.length then .err .unexpectedItem else
    match vremove a (Gen.CoseMac_removes.getD 0 99) with
    | .ok (x4, a) =>
      match tryAsArrayThenConvert rcpFromValue x4 with
      | .ok recipients =>
        match vremove a (Gen.CoseMac_removes.getD 1 99) with
        | .ok (x3, a) =>
          match tryAsBytes x3 with
          | .ok tag =>
            match payloadTail a (Gen.CoseMac_removes.getD 2 99) (Gen.CoseMac_removes.getD 3 99) (Gen.CoseMac_removes.getD 4 99) with
            | .ok (p, u, payload) => .ok ⟨p, u, payload, tag, recipients⟩
            | .err e => .err e
            | .panic p => .panic p
          | .err e => .err e
          | .panic p => .panic p
        | .err e => .err e
        | .panic p => .panic p
      | .err e => .err e
      | .panic p => .panic p
    | .err e => .err e
    | .panic p => .panic p
  | .err e => .err e
  | .panic p => .panic p

/-- `CoseMac0::from_cbor_value` -/
def CoseMac0.fromValue (v : Value) : Res CoseMac0 :=
  match tryAsArray v with
  | .ok a =>
    if Gen.CoseMac0_arityBad a.length then .err .unexpectedItem else
    match vremove a (Gen.CoseMac0_removes.getD 0 99) with
    | .ok (x3, a) =>
      match tryAsBytes x3 with
      | .ok tag =>
        match payloadTail a (Gen.CoseMac0_removes.getD 1 99) (Gen.CoseMac0_removes.getD 2 99) (Gen.CoseMac0_removes.getD 3 99) with
        | .ok (p, u, payload) => .ok ⟨p, u, payload, tag⟩
        | .err e => .err e
        | .panic p => .panic p
      | .err e => .err e
      | .panic p => .panic p
    | .err e => .err e
    | .panic p => .panic p
  | .err e => .err e
  | .panic p => .panic p

/-! ### encoding -/

/-- `vec![self.protected.cbor_bstr()?, self.unprotected.to_cbor_value()?, …]` : the two header slots. -/
def headerSlots (p : ProtectedHeader) (u : Header) : Res (List Value) :=
  match ProtectedHeader.cborBstr p with
  | .ok pv =>
    match Header.toValue u with
    | .ok uv => .ok [pv, uv]
    | .err e => .err e
    | .panic s => .panic s
  | .err e => .err e
  | .panic s => .panic s

def CoseSign.toValue (m : CoseSign) : Res Value :=
  match headerSlots m.protected_ m.unprotected with
  | .ok hs =>
    match sigsToValues m.signatures with
    | .ok ss => .ok (.array (hs ++ [optBytesToValue m.payload, .array ss]))
    | .err e => .err e
    | .panic s => .panic s
  | .err e => .err e
  | .panic s => .panic s

def CoseSign1.toValue (m : CoseSign1) : Res Value :=
  match headerSlots m.protected_ m.unprotected with
  | .ok hs => .ok (.array (hs ++ [optBytesToValue m.payload, .bytes m.signature]))
  | .err e => .err e
  | .panic s => .panic s

mutual
def CoseRecipient.toValue : CoseRecipient → Res Value
  | .mk p u ct rs =>
    match headerSlots p u with
    | .ok hs =>
      let v := hs ++ [optBytesToValue ct]
      match rs with
      | [] => .ok (.array v)
      | r :: rs' =>
        match recipientsToValues (r :: rs') with
        | .ok xs => .ok (.array (v ++ [.array xs]))
        | .err e => .err e
        | .panic s => .panic s
    | .err e => .err e
    | .panic s => .panic s
def recipientsToValues : List CoseRecipient → Res (List Value)
  | [] => .ok []
  | r :: rs =>
    match CoseRecipient.toValue r with
    | .ok v =>
      match recipientsToValues rs with
      | .ok vs => .ok (v :: vs)
      | .err e => .err e
      | .panic s => .panic s
    | .err e => .err e
    | .panic s => .panic s
end

def CoseEncrypt.toValue (m : CoseEncrypt) : Res Value :=
  match headerSlots m.protected_ m.unprotected with
  | .ok hs =>
    match recipientsToValues m.recipients with
    | .ok rs => .ok (.array (hs ++ [optBytesToValue m.ciphertext, .array rs]))
    | .err e => .err e
    | .panic s => .panic s
  | .err e => .err e
  | .panic s => .panic s

def CoseEncrypt0.toValue (m : CoseEncrypt0) : Res Value :=
  match headerSlots m.protected_ m.unprotected with
  | .ok hs => .ok (.array (hs ++ [optBytesToValue m.ciphertext]))
  | .err e => .err e
  | .panic s => .panic s

def CoseMac.toValue (m : CoseMac) : Res Value :=
  match headerSlots m.protected_ m.unprotected with
  | .ok hs =>
    match recipientsToValues m.recipients with
    | .ok rs => .ok (.array (hs ++ [optBytesToValue m.payload, .bytes m.tag, .array rs]))
    | .err e => .err e
    | .panic s => .panic s
  | .err e => .err e
  | .panic s => .panic s

def CoseMac0.toValue (m : CoseMac0) : Res Value :=
  match headerSlots m.protected_ m.unprotected with
  | .ok hs => .ok (.array (hs ++ [optBytesToValue m.payload, .bytes m.tag]))
  | .err e => .err e
  | .panic s => .panic s

/-! ### contexts and the three structure functions -/

inductive SignatureContext where | coseSignature | coseSign1 | counterSignature
  deriving DecidableEq, Repr, Inhabited
inductive MacContext where | coseMac | coseMac0
  deriving DecidableEq, Repr, Inhabited
inductive EncryptionContext where | coseEncrypt | coseEncrypt0 | encRecipient | macRecipient | recRecipient
  deriving DecidableEq, Repr, Inhabited

def SignatureContext.text : SignatureContext → Bytes
  | .coseSignature => Gen.ctx_SignatureContext_CoseSignature
  | .coseSign1 => Gen.ctx_SignatureContext_CoseSign1
  | .counterSignature => Gen.ctx_SignatureContext_CounterSignature
def MacContext.text : MacContext → Bytes
  | .coseMac => Gen.ctx_MacContext_CoseMac
  | .coseMac0 => Gen.ctx_MacContext_CoseMac0
def EncryptionContext.text : EncryptionContext → Bytes
  | .coseEncrypt => Gen.ctx_EncryptionContext_CoseEncrypt
  | .coseEncrypt0 => Gen.ctx_EncryptionContext_CoseEncrypt0
  | .encRecipient => Gen.ctx_EncryptionContext_EncRecipient
  | .macRecipient => Gen.ctx_EncryptionContext_MacRecipient
  | .recRecipient => Gen.ctx_EncryptionContext_RecRecipient

/-- `x.cbor_bstr().expect("failed to serialize header")` -/
def bstrExpect (p : ProtectedHeader) : Res Value :=
  match ProtectedHeader.cborBstr p with
  | .ok v => .ok v
  | .err _ => .panic .expectErr
  | .panic s => .panic s

/-- `sig_structure_data` -/
def sigStructureData (ctx : SignatureContext) (body : ProtectedHeader) (sign : Option ProtectedHeader)
    (aad payload : Bytes) : Res Bytes :=
  match bstrExpect body with
  | .ok b =>
    match (match sign with
           | some s => match bstrExpect s with
             | .ok sv => Res.ok [Value.text ctx.text, b, sv]
             | .err e => .err e
             | .panic p => .panic p
           | none => .ok [Value.text ctx.text, b]) with
    | .ok arr => .ok (Cbor.enc (.array (arr ++ [.bytes aad, .bytes payload])))
    | .err e => .err e
    | .panic p => .panic p
  | .err e => .err e
  | .panic p => .panic p

/-- `mac_structure_data` -/
def macStructureData (ctx : MacContext) (prot : ProtectedHeader) (aad payload : Bytes) : Res Bytes :=
  match bstrExpect prot with
  | .ok b => .ok (Cbor.enc (.array [.text ctx.text, b, .bytes aad, .bytes payload]))
  | .err e => .err e
  | .panic p => .panic p

/-- `enc_structure_data` -/
def encStructureData (ctx : EncryptionContext) (prot : ProtectedHeader) (aad : Bytes) : Res Bytes :=
  match bstrExpect prot with
  | .ok b => .ok (Cbor.enc (.array [.text ctx.text, b, .bytes aad]))
  | .err e => .err e
  | .panic p => .panic p

/-! ### helpers on messages -/

/-- `CoseSign1::tbs_data` -/
def CoseSign1.tbsData (m : CoseSign1) (aad : Bytes) : Res Bytes :=
  sigStructureData .coseSign1 m.protected_ none aad (m.payload.getD [])

/-- `CoseSign1::tbs_detached_data` (`assert!(self.payload.is_none())`) -/
def CoseSign1.tbsDetachedData (m : CoseSign1) (payload aad : Bytes) : Res Bytes :=
  if m.payload.isSome then .panic .assertFailed
  else sigStructureData .coseSign1 m.protected_ none aad payload

/-- `CoseSign::tbs_data` -/
def CoseSign.tbsData (m : CoseSign) (aad : Bytes) (sig : CoseSignature) : Res Bytes :=
  sigStructureData .coseSignature m.protected_ (some sig.protected_) aad (m.payload.getD [])

/-- `CoseSign::tbs_detached_data` -/
def CoseSign.tbsDetachedData (m : CoseSign) (payload aad : Bytes) (sig : CoseSignature) : Res Bytes :=
  if m.payload.isSome then .panic .assertFailed
  else sigStructureData .coseSignature m.protected_ (some sig.protected_) aad payload

/-- `verify_signature(aad, verifier)`: the closure's result is returned unchanged. -/
def CoseSign1.verifySignature {ρ : Type} (m : CoseSign1) (aad : Bytes) (verifier : Bytes → Bytes → ρ) : Res ρ :=
  match m.tbsData aad with
  | .ok tbs => .ok (verifier m.signature tbs)
  | .err e => .err e
  | .panic p => .panic p

def CoseSign1.verifyDetachedSignature {ρ : Type} (m : CoseSign1) (payload aad : Bytes) (verifier : Bytes → Bytes → ρ) : Res ρ :=
  match m.tbsDetachedData payload aad with
  | .ok tbs => .ok (verifier m.signature tbs)
  | .err e => .err e
  | .panic p => .panic p

def CoseSign.verifySignature {ρ : Type} (m : CoseSign) (which : Nat) (aad : Bytes) (verifier : Bytes → Bytes → ρ) : Res ρ :=
  match vindex m.signatures which with
  | .ok sig =>
    match m.tbsData aad sig with
    | .ok tbs => .ok (verifier sig.signature tbs)
    | .err e => .err e
    | .panic p => .panic p
  | .err e => .err e
  | .panic p => .panic p

def CoseSign.verifyDetachedSignature {ρ : Type} (m : CoseSign) (which : Nat) (payload aad : Bytes)
    (verifier : Bytes → Bytes → ρ) : Res ρ :=
  match vindex m.signatures which with
  | .ok sig =>
    match m.tbsDetachedData payload aad sig with
    | .ok tbs => .ok (verifier sig.signature tbs)
    | .err e => .err e
    | .panic p => .panic p
  | .err e => .err e
  | .panic p => .panic p

/-- `CoseMac::tbm` (`expect("payload missing")`) -/
def CoseMac.tbm (m : CoseMac) (aad : Bytes) : Res Bytes :=
  match m.payload with
  | some p => macStructureData .coseMac m.protected_ aad p
  | none => .panic .unwrapNone

def CoseMac0.tbm (m : CoseMac0) (aad : Bytes) : Res Bytes :=
  match m.payload with
  | some p => macStructureData .coseMac0 m.protected_ aad p
  | none => .panic .unwrapNone

def CoseMac.verifyTag {ρ : Type} (m : CoseMac) (aad : Bytes) (verify : Bytes → Bytes → ρ) : Res ρ :=
  match m.tbm aad with
  | .ok tbm => .ok (verify m.tag tbm)
  | .err e => .err e
  | .panic p => .panic p

def CoseMac0.verifyTag {ρ : Type} (m : CoseMac0) (aad : Bytes) (verify : Bytes → Bytes → ρ) : Res ρ :=
  match m.tbm aad with
  | .ok tbm => .ok (verify m.tag tbm)
  | .err e => .err e
  | .panic p => .panic p

/-- the recipient-context guard (`match context { EncRecipient | MacRecipient | RecRecipient => {}, _ => panic! }`) -/
def EncryptionContext.isRecipient : EncryptionContext → Bool
  | .encRecipient | .macRecipient | .recRecipient => true
  | _ => false

/-- `CoseRecipient::decrypt`: ciphertext unwrap first, then the context guard. -/
def CoseRecipient.decrypt {ρ : Type} (m : CoseRecipient) (ctx : EncryptionContext) (aad : Bytes)
    (cipher : Bytes → Bytes → ρ) : Res ρ :=
  match m.ciphertext with
  | none => .panic .unwrapNone
  | some ct =>
    if !ctx.isRecipient then .panic .explicitPanic
    else
      match encStructureData ctx m.protected_ aad with
      | .ok a => .ok (cipher ct a)
      | .err e => .err e
      | .panic p => .panic p

def CoseEncrypt.decrypt {ρ : Type} (m : CoseEncrypt) (aad : Bytes) (cipher : Bytes → Bytes → ρ) : Res ρ :=
  match m.ciphertext with
  | none => .panic .unwrapNone
  | some ct =>
    match encStructureData .coseEncrypt m.protected_ aad with
    | .ok a => .ok (cipher ct a)
    | .err e => .err e
    | .panic p => .panic p

def CoseEncrypt0.decrypt {ρ : Type} (m : CoseEncrypt0) (aad : Bytes) (cipher : Bytes → Bytes → ρ) : Res ρ :=
  match m.ciphertext with
  | none => .panic .unwrapNone
  | some ct =>
    match encStructureData .coseEncrypt0 m.protected_ aad with
    | .ok a => .ok (cipher ct a)
    | .err e => .err e
    | .panic p => .panic p

end Coset
