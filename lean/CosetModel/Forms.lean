/-
  CosetModel.Forms — canonical text forms of FORMS.md §2 for every modelled type (print and parse).
  Driver I/O only.
-/
import CosetModel.Sx
import CosetModel.Builders
namespace Coset
open Sx

def atomB (b : Bytes) : Sx := .atom ("b" ++ hexOfBytes b)
def atomT (b : Bytes) : Sx := .atom ("t" ++ hexOfBytes b)
def atomI (i : Int) : Sx := .atom ("i" ++ toString i)
def atomOpt (f : α → Sx) : Option α → Sx
  | some x => f x
  | none => .atom "-"

def pBytes : Sx → Option Bytes
  | .atom s => match s.toList with
    | 'b' :: cs => bytesOfHexChars cs
    | _ => none
  | _ => none

/-- `t<hex>`: the bytes must be valid UTF-8 (they stand for a Rust `String`). -/
def pText : Sx → Option Bytes
  | .atom s => match s.toList with
    | 't' :: cs => match bytesOfHexChars cs with
      | some b => if Utf8.valid b then some b else none
      | none => none
    | _ => none
  | _ => none

def pInt : Sx → Option Int
  | .atom s => match s.toList with
    | 'i' :: cs => intOfDecChars cs
    | _ => none
  | _ => none

def pNatBare : Sx → Option Nat
  | .atom s => natOfDecChars s.toList
  | _ => none

def pOpt (f : Sx → Option α) : Sx → Option (Option α)
  | .atom "-" => some none
  | x => (f x).map some

def pList (f : Sx → Option α) : List Sx → Option (List α)
  | [] => some []
  | x :: xs => match f x, pList f xs with
    | some a, some as => some (a :: as)
    | _, _ => none

def inI64 (i : Int) : Bool := decide (i64Min ≤ i) && decide (i ≤ i64Max)

/-! ### Value -/
partial def valueToSx : Value → Sx
  | .int n => atomI n
  | .bytes b => atomB b
  | .text b => atomT b
  | .float f => .atom ("f" ++ hex16 f.toNat)
  | .bool true => .atom "T"
  | .bool false => .atom "F"
  | .null => .atom "N"
  | .tag t v => .list [.atom "tag", .atom (toString t), valueToSx v]
  | .array xs => .list (.atom "arr" :: xs.map valueToSx)
  | .map kvs => .list (.atom "map" :: kvs.foldr (fun (k, v) acc => valueToSx k :: valueToSx v :: acc) [])

mutual
partial def pValue : Sx → Option Value
  | .atom "T" => some (.bool true)
  | .atom "F" => some (.bool false)
  | .atom "N" => some .null
  | .atom s =>
    match s.toList with
    | 'i' :: cs => match intOfDecChars cs with
      | some n => if decide (-(18446744073709551616 : Int) ≤ n) && decide (n ≤ 18446744073709551615) then some (.int n) else none
      | none => none
    | 'b' :: cs => (bytesOfHexChars cs).map .bytes
    | 't' :: cs => match bytesOfHexChars cs with
      | some b => if Utf8.valid b then some (.text b) else none
      | none => none
    | 'f' :: cs => if cs.length == 16 then (natOfHexChars cs).map fun n => .float (UInt64.ofNat n) else none
    | _ => none
  | .list (.atom "tag" :: n :: [v]) =>
    match pNatBare n, pValue v with
    | some t, some x => if t < 2 ^ 64 then some (.tag t x) else none
    | _, _ => none
  | .list (.atom "arr" :: xs) => (pValues xs).map .array
  | .list (.atom "map" :: xs) => (pPairs xs).map .map
  | _ => none
partial def pValues : List Sx → Option (List Value)
  | [] => some []
  | x :: xs => match pValue x, pValues xs with
    | some a, some as => some (a :: as)
    | _, _ => none
partial def pPairs : List Sx → Option (List (Value × Value))
  | [] => some []
  | [_] => none
  | k :: v :: xs => match pValue k, pValue v, pPairs xs with
    | some a, some b, some r => some ((a, b) :: r)
    | _, _, _ => none
end

/-! ### labels -/
def labelToSx : Label → Sx
  | .int i => atomI i
  | .text t => atomT t

def pLabel : Sx → Option Label
  | .atom s => match s.toList with
    | 'i' :: cs => match intOfDecChars cs with
      | some n => if inI64 n then some (.int n) else none
      | none => none
    | 't' :: _ => (pText (.atom s)).map .text
    | _ => none
  | _ => none

def regLabelToSx (R : Registry) : RegLabel → Sx
  | .assigned k => .atom ("A" ++ toString (R.toI64 k))
  | .text t => .atom ("X" ++ hexOfBytes t)

def pAssigned (R : Registry) (cs : List Char) : Option Nat :=
  match intOfDecChars cs with
  | some n => if inI64 n then R.fromI64 n else none
  | none => none

def pXText (cs : List Char) : Option Bytes :=
  match bytesOfHexChars cs with
  | some b => if Utf8.valid b then some b else none
  | none => none

def pRegLabel (R : Registry) : Sx → Option RegLabel
  | .atom s => match s.toList with
    | 'A' :: cs => (pAssigned R cs).map .assigned
    | 'X' :: cs => (pXText cs).map .text
    | _ => none
  | _ => none

def regLabelPrivToSx (R : Registry) : RegLabelPriv → Sx
  | .assigned k => .atom ("A" ++ toString (R.toI64 k))
  | .privateUse i => .atom ("P" ++ toString i)
  | .text t => .atom ("X" ++ hexOfBytes t)

def pRegLabelPriv (R : Registry) : Sx → Option RegLabelPriv
  | .atom s => match s.toList with
    | 'A' :: cs => (pAssigned R cs).map .assigned
    | 'P' :: cs => match intOfDecChars cs with
      | some n => if inI64 n then some (.privateUse n) else none
      | none => none
    | 'X' :: cs => (pXText cs).map .text
    | _ => none
  | _ => none

/-- the `A<n>` atom alone (builder arguments that are enum variants). -/
def pVariant (R : Registry) : Sx → Option Nat
  | .atom s => match s.toList with
    | 'A' :: cs => pAssigned R cs
    | _ => none
  | _ => none

/-! ### Header family -/
def restToSx (r : List (Label × Value)) : List Sx :=
  r.foldr (fun (l, v) acc => labelToSx l :: valueToSx v :: acc) []

mutual
partial def headerToSx (h : Header) : Sx :=
  .list [.atom "hdr", atomOpt (regLabelPrivToSx Reg.algorithm) h.alg,
         .list (.atom "crit" :: h.crit.map (regLabelToSx Reg.headerParameter)),
         atomOpt (regLabelToSx Reg.coapContentFormat) h.contentType,
         atomB h.keyId, atomB h.iv, atomB h.partialIv,
         .list (.atom "cs" :: h.counterSignatures.map sigToSx),
         .list (.atom "rest" :: restToSx h.rest)]
partial def sigToSx (s : CoseSignature) : Sx :=
  .list [.atom "sig", phToSx s.protected_, headerToSx s.unprotected, atomB s.signature]
partial def phToSx (p : ProtectedHeader) : Sx :=
  .list [.atom "ph", atomOpt atomB p.originalData, headerToSx p.header]
end

def pRestPairs : List Sx → Option (List (Label × Value))
  | [] => some []
  | [_] => none
  | k :: v :: xs => match pLabel k, pValue v, pRestPairs xs with
    | some a, some b, some r => some ((a, b) :: r)
    | _, _, _ => none

mutual
partial def pHeader : Sx → Option Header
  | .list [.atom "hdr", alg, .list (.atom "crit" :: crit), ct, kid, iv, piv, .list (.atom "cs" :: cs), .list (.atom "rest" :: rest)] => do
    let alg ← pOpt (pRegLabelPriv Reg.algorithm) alg
    let crit ← pList (pRegLabel Reg.headerParameter) crit
    let ct ← pOpt (pRegLabel Reg.coapContentFormat) ct
    let kid ← pBytes kid
    let iv ← pBytes iv
    let piv ← pBytes piv
    let cs ← pSigs cs
    let rest ← pRestPairs rest
    some (.mk alg crit ct kid iv piv cs rest)
  | _ => none
partial def pSig : Sx → Option CoseSignature
  | .list [.atom "sig", ph, hdr, sig] => do
    let p ← pPh ph
    let u ← pHeader hdr
    let s ← pBytes sig
    some (.mk p u s)
  | _ => none
partial def pSigs : List Sx → Option (List CoseSignature)
  | [] => some []
  | x :: xs => match pSig x, pSigs xs with
    | some a, some as => some (a :: as)
    | _, _ => none
partial def pPh : Sx → Option ProtectedHeader
  | .list [.atom "ph", orig, hdr] => do
    let o ← pOpt pBytes orig
    let h ← pHeader hdr
    some (.mk o h)
  | _ => none
end

/-! ### messages -/
def signToSx (m : CoseSign) : Sx :=
  .list [.atom "sign", phToSx m.protected_, headerToSx m.unprotected, atomOpt atomB m.payload,
         .list (.atom "sigs" :: m.signatures.map sigToSx)]
def pSign : Sx → Option CoseSign
  | .list [.atom "sign", ph, hdr, pl, .list (.atom "sigs" :: sigs)] => do
    some ⟨← pPh ph, ← pHeader hdr, ← pOpt pBytes pl, ← pSigs sigs⟩
  | _ => none

def sign1ToSx (m : CoseSign1) : Sx :=
  .list [.atom "sign1", phToSx m.protected_, headerToSx m.unprotected, atomOpt atomB m.payload, atomB m.signature]
def pSign1 : Sx → Option CoseSign1
  | .list [.atom "sign1", ph, hdr, pl, sig] => do
    some ⟨← pPh ph, ← pHeader hdr, ← pOpt pBytes pl, ← pBytes sig⟩
  | _ => none

partial def rcpToSx (r : CoseRecipient) : Sx :=
  .list [.atom "rcp", phToSx r.protected_, headerToSx r.unprotected, atomOpt atomB r.ciphertext,
         .list (.atom "rcps" :: r.recipients.map rcpToSx)]
mutual
partial def pRcp : Sx → Option CoseRecipient
  | .list [.atom "rcp", ph, hdr, ct, .list (.atom "rcps" :: rs)] => do
    some (.mk (← pPh ph) (← pHeader hdr) (← pOpt pBytes ct) (← pRcps rs))
  | _ => none
partial def pRcps : List Sx → Option (List CoseRecipient)
  | [] => some []
  | x :: xs => match pRcp x, pRcps xs with
    | some a, some as => some (a :: as)
    | _, _ => none
end

def encToSx (m : CoseEncrypt) : Sx :=
  .list [.atom "enc", phToSx m.protected_, headerToSx m.unprotected, atomOpt atomB m.ciphertext,
         .list (.atom "rcps" :: m.recipients.map rcpToSx)]
def pEnc : Sx → Option CoseEncrypt
  | .list [.atom "enc", ph, hdr, ct, .list (.atom "rcps" :: rs)] => do
    some ⟨← pPh ph, ← pHeader hdr, ← pOpt pBytes ct, ← pRcps rs⟩
  | _ => none

def enc0ToSx (m : CoseEncrypt0) : Sx :=
  .list [.atom "enc0", phToSx m.protected_, headerToSx m.unprotected, atomOpt atomB m.ciphertext]
def pEnc0 : Sx → Option CoseEncrypt0
  | .list [.atom "enc0", ph, hdr, ct] => do some ⟨← pPh ph, ← pHeader hdr, ← pOpt pBytes ct⟩
  | _ => none

def macToSx (m : CoseMac) : Sx :=
  .list [.atom "mac", phToSx m.protected_, headerToSx m.unprotected, atomOpt atomB m.payload, atomB m.tag,
         .list (.atom "rcps" :: m.recipients.map rcpToSx)]
def pMac : Sx → Option CoseMac
  | .list [.atom "mac", ph, hdr, pl, tag, .list (.atom "rcps" :: rs)] => do
    some ⟨← pPh ph, ← pHeader hdr, ← pOpt pBytes pl, ← pBytes tag, ← pRcps rs⟩
  | _ => none

def mac0ToSx (m : CoseMac0) : Sx :=
  .list [.atom "mac0", phToSx m.protected_, headerToSx m.unprotected, atomOpt atomB m.payload, atomB m.tag]
def pMac0 : Sx → Option CoseMac0
  | .list [.atom "mac0", ph, hdr, pl, tag] => do
    some ⟨← pPh ph, ← pHeader hdr, ← pOpt pBytes pl, ← pBytes tag⟩
  | _ => none

/-! ### key -/
def keyToSx (k : CoseKey) : Sx :=
  .list [.atom "key", regLabelToSx Reg.keyType k.kty, atomB k.keyId, atomOpt (regLabelPrivToSx Reg.algorithm) k.alg,
         .list (.atom "ops" :: k.keyOps.map (regLabelToSx Reg.keyOperation)), atomB k.baseIv,
         .list (.atom "params" :: restToSx k.params)]

/-- insert the listed operations one by one into the ordered set (duplicates merge). -/
def opsOfList (ops : List RegLabel) : List RegLabel :=
  ops.foldl (fun s op => match setInsert (RegLabel.cmp Reg.keyOperation) s op with
    | .ok (some s') => s'
    | _ => s) []

def pKey : Sx → Option CoseKey
  | .list [.atom "key", kty, kid, alg, .list (.atom "ops" :: ops), biv, .list (.atom "params" :: ps)] => do
    let ops ← pList (pRegLabel Reg.keyOperation) ops
    some ⟨← pRegLabel Reg.keyType kty, ← pBytes kid, ← pOpt (pRegLabelPriv Reg.algorithm) alg, opsOfList ops,
          ← pBytes biv, ← pRestPairs ps⟩
  | _ => none

def keySetToSx (ks : List CoseKey) : Sx := .list (.atom "keyset" :: ks.map keyToSx)
def pKeySet : Sx → Option (List CoseKey)
  | .list (.atom "keyset" :: ks) => pList pKey ks
  | _ => none

/-! ### cwt -/
def tsToSx : Timestamp → Sx
  | .wholeSeconds t => .atom ("W" ++ toString t)
  | .fractionalSeconds f => .atom ("F" ++ hex16 f.toNat)

def pTs : Sx → Option Timestamp
  | .atom s => match s.toList with
    | 'W' :: cs => match intOfDecChars cs with
      | some n => if inI64 n then some (.wholeSeconds n) else none
      | none => none
    | 'F' :: cs => if cs.length == 16 then (natOfHexChars cs).map fun n => .fractionalSeconds (UInt64.ofNat n) else none
    | _ => none
  | _ => none

def claimsRestToSx (r : List (RegLabelPriv × Value)) : List Sx :=
  r.foldr (fun (l, v) acc => regLabelPrivToSx Reg.cwtClaimName l :: valueToSx v :: acc) []

def pClaimsRest : List Sx → Option (List (RegLabelPriv × Value))
  | [] => some []
  | [_] => none
  | k :: v :: xs => match pRegLabelPriv Reg.cwtClaimName k, pValue v, pClaimsRest xs with
    | some a, some b, some r => some ((a, b) :: r)
    | _, _, _ => none

def claimsToSx (c : ClaimsSet) : Sx :=
  .list [.atom "cwt", atomOpt atomT c.issuer, atomOpt atomT c.subject, atomOpt atomT c.audience,
         atomOpt tsToSx c.expirationTime, atomOpt tsToSx c.notBefore, atomOpt tsToSx c.issuedAt,
         atomOpt atomB c.cwtId, .list (.atom "rest" :: claimsRestToSx c.rest)]

def pClaims : Sx → Option ClaimsSet
  | .list [.atom "cwt", iss, sub, aud, exp, nbf, iat, cti, .list (.atom "rest" :: rest)] => do
    some ⟨← pOpt pText iss, ← pOpt pText sub, ← pOpt pText aud, ← pOpt pTs exp, ← pOpt pTs nbf, ← pOpt pTs iat,
          ← pOpt pBytes cti, ← pClaimsRest rest⟩
  | _ => none

/-! ### context -/
def nonceToSx : Nonce → Sx
  | .bytes b => atomB b
  | .integer i => atomI i

def pNonce (x : Sx) : Option Nonce :=
  match x with
  | .atom s => match s.toList with
    | 'b' :: _ => (pBytes x).map .bytes
    | 'i' :: cs => match intOfDecChars cs with
      | some n => if inI64 n then some (.integer n) else none
      | none => none
    | _ => none
  | _ => none

def partyToSx (p : PartyInfo) : Sx :=
  .list [.atom "party", atomOpt atomB p.identity, atomOpt nonceToSx p.nonce, atomOpt atomB p.other]
def pParty : Sx → Option PartyInfo
  | .list [.atom "party", id, n, o] => do some ⟨← pOpt pBytes id, ← pOpt pNonce n, ← pOpt pBytes o⟩
  | _ => none

def suppToSx (s : SuppPubInfo) : Sx :=
  .list [.atom "supp", atomI s.keyDataLength, phToSx s.protected_, atomOpt atomB s.other]
def pSupp : Sx → Option SuppPubInfo
  | .list [.atom "supp", len, ph, o] => do
    let n ← pInt len
    if decide (0 ≤ n) && decide (n ≤ u64Max) then some ⟨n, ← pPh ph, ← pOpt pBytes o⟩ else none
  | _ => none

def kdfToSx (k : CoseKdfContext) : Sx :=
  .list [.atom "kdf", regLabelPrivToSx Reg.algorithm k.algorithmId, partyToSx k.partyUInfo, partyToSx k.partyVInfo,
         suppToSx k.suppPubInfo, .list (.atom "priv" :: k.suppPrivInfo.map atomB)]
def pKdf : Sx → Option CoseKdfContext
  | .list [.atom "kdf", alg, u, v, s, .list (.atom "priv" :: ps)] => do
    some ⟨← pRegLabelPriv Reg.algorithm alg, ← pParty u, ← pParty v, ← pSupp s, ← pList pBytes ps⟩
  | _ => none

/-! ### results -/
def errKind : CoseErr → String
  | .decodeFailed => "Decode"
  | .duplicateMapKey => "Dup"
  | .encodeFailed => "Encode"
  | .extraneousData => "Extra"
  | .outOfRange => "Range"
  | .unexpectedItem => "Item"
  | .unregisteredIana => "Unreg"
  | .unregisteredIanaNonPrivate => "UnregNonPriv"
  | .outOfFuel => "OUT-OF-FUEL"

def resToSx (f : α → Sx) : Res α → List Sx
  | .ok a => [.atom "ok", f a]
  | .err e => [.atom "err", .atom (errKind e)]
  | .panic _ => [.atom "panic"]

end Coset
