/-
  CosetModel.Sx — S-expressions, hex and decimal atoms of the line protocol (FORMS.md §1).
  Driver I/O only; no theorem depends on this file.
-/
import CosetModel.Basic
namespace Coset

inductive Sx where
  | atom (s : String)
  | list (xs : List Sx)
  deriving Inhabited, Repr

namespace Sx

partial def render : Sx → String
  | .atom s => s
  | .list xs => "(" ++ " ".intercalate (xs.map render) ++ ")"

def renderLine (xs : List Sx) : String := " ".intercalate (xs.map render)

/-- tokens: `(`, `)`, atoms. -/
inductive Tok where | lp | rp | at (s : String)

def isBlank (c : Char) : Bool := c == ' ' || c == '\t'

def tokenize (s : String) : List Tok := Id.run do
  let mut toks : Array Tok := #[]
  let mut cur : String := ""
  for c in s.toList do
    if c == '(' then
      if cur != "" then toks := toks.push (.at cur); cur := ""
      toks := toks.push .lp
    else if c == ')' then
      if cur != "" then toks := toks.push (.at cur); cur := ""
      toks := toks.push .rp
    else if isBlank c then
      if cur != "" then toks := toks.push (.at cur); cur := ""
    else cur := cur.push c
  if cur != "" then toks := toks.push (.at cur)
  return toks.toList

/-- parse a token list into top-level items (iterative, explicit stack). -/
def parseToks (toks : List Tok) : Option (List Sx) := Id.run do
  let mut stack : List (Array Sx) := []
  let mut cur : Array Sx := #[]
  for t in toks do
    match t with
    | .lp => stack := cur :: stack; cur := #[]
    | .rp =>
      match stack with
      | [] => return none
      | top :: rest => cur := top.push (.list cur.toList); stack := rest
    | .at s => cur := cur.push (.atom s)
  if stack.isEmpty then return some cur.toList else return none

def parseLine (s : String) : Option (List Sx) := parseToks (tokenize s)

end Sx

/-! ### hex / decimal -/

def hexDigit (n : Nat) : Char :=
  if n < 10 then Char.ofNat (48 + n) else Char.ofNat (87 + n)

def hexOfBytes (bs : Bytes) : String :=
  String.ofList (bs.foldr (fun b acc => hexDigit (b.toNat / 16) :: hexDigit (b.toNat % 16) :: acc) [])

def hexVal (c : Char) : Option Nat :=
  if '0' ≤ c ∧ c ≤ '9' then some (c.toNat - 48)
  else if 'a' ≤ c ∧ c ≤ 'f' then some (c.toNat - 87)
  else none

def bytesOfHexChars : List Char → Option Bytes
  | [] => some []
  | [_] => none
  | a :: b :: rest =>
    match hexVal a, hexVal b, bytesOfHexChars rest with
    | some x, some y, some r => some (UInt8.ofNat (x * 16 + y) :: r)
    | _, _, _ => none

def natOfHexChars (cs : List Char) : Option Nat :=
  cs.foldl (fun acc c => match acc, hexVal c with
    | some a, some v => some (a * 16 + v)
    | _, _ => none) (some 0)

def natOfDecChars (cs : List Char) : Option Nat :=
  if cs.isEmpty then none else
  cs.foldl (fun acc c => match acc with
    | some a => if '0' ≤ c ∧ c ≤ '9' then some (a * 10 + (c.toNat - 48)) else none
    | none => none) (some 0)

def intOfDecChars (cs : List Char) : Option Int :=
  match cs with
  | '-' :: rest => (natOfDecChars rest).map fun n => -(n : Int)
  | _ => (natOfDecChars cs).map fun n => (n : Int)

def hex16 (n : Nat) : String :=
  String.ofList ((List.range 16).reverse.map fun i => hexDigit (n / 16 ^ i % 16))

end Coset
