/-
  CosetModel.Header — `Header`, `ProtectedHeader`, `CoseSignature` (src/header/mod.rs, src/sign/mod.rs):
  the one mutually recursive family of the crate.  Decoding takes a `fuel` argument decremented at every
  descent Header → CoseSignature → ProtectedHeader → (re-parse) → Header.
-/
import CosetModel.Label
namespace Coset

mutual
/-- `struct Header` -/
inductive Header where
  | mk (alg : Option RegLabelPriv) (crit : List RegLabel) (contentType : Option RegLabel)
       (keyId iv partialIv : Bytes) (counterSignatures : List CoseSignature) (rest : List (Label × Value))
/-- `struct CoseSignature` -/
inductive CoseSignature where
  | mk (protected_ : ProtectedHeader) (unprotected : Header) (signature : Bytes)
/-- `struct ProtectedHeader` -/
inductive ProtectedHeader where
  | mk (originalData : Option Bytes) (header : Header)
end

namespace Header
def alg : Header → Option RegLabelPriv | .mk a _ _ _ _ _ _ _ => a
def crit : Header → List RegLabel | .mk _ c _ _ _ _ _ _ => c
def contentType : Header → Option RegLabel | .mk _ _ c _ _ _ _ _ => c
def keyId : Header → Bytes | .mk _ _ _ k _ _ _ _ => k
def iv : Header → Bytes | .mk _ _ _ _ i _ _ _ => i
def partialIv : Header → Bytes | .mk _ _ _ _ _ p _ _ => p
def counterSignatures : Header → List CoseSignature | .mk _ _ _ _ _ _ c _ => c
def rest : Header → List (Label × Value) | .mk _ _ _ _ _ _ _ r => r

/-- `Header::default()` -/
def default : Header := .mk none [] none [] [] [] [] []
instance : Inhabited Header := ⟨Header.default⟩

def setAlg (h : Header) (a : Option RegLabelPriv) : Header :=
  .mk a h.crit h.contentType h.keyId h.iv h.partialIv h.counterSignatures h.rest
def setCrit (h : Header) (c : List RegLabel) : Header :=
  .mk h.alg c h.contentType h.keyId h.iv h.partialIv h.counterSignatures h.rest
def setContentType (h : Header) (c : Option RegLabel) : Header :=
  .mk h.alg h.crit c h.keyId h.iv h.partialIv h.counterSignatures h.rest
def setKeyId (h : Header) (b : Bytes) : Header :=
  .mk h.alg h.crit h.contentType b h.iv h.partialIv h.counterSignatures h.rest
def setIv (h : Header) (b : Bytes) : Header :=
  .mk h.alg h.crit h.contentType h.keyId b h.partialIv h.counterSignatures h.rest
def setPartialIv (h : Header) (b : Bytes) : Header :=
  .mk h.alg h.crit h.contentType h.keyId h.iv b h.counterSignatures h.rest
def setCounterSignatures (h : Header) (c : List CoseSignature) : Header :=
  .mk h.alg h.crit h.contentType h.keyId h.iv h.partialIv c h.rest
def setRest (h : Header) (r : List (Label × Value)) : Header :=
  .mk h.alg h.crit h.contentType h.keyId h.iv h.partialIv h.counterSignatures r

/-- `Header::is_empty` -/
def isEmpty (h : Header) : Bool :=
  h.alg.isNone && h.crit.isEmpty && h.contentType.isNone && h.keyId.isEmpty && h.iv.isEmpty
    && h.partialIv.isEmpty && h.counterSignatures.isEmpty && h.rest.isEmpty
end Header

namespace CoseSignature
def protected_ : CoseSignature → ProtectedHeader | .mk p _ _ => p
def unprotected : CoseSignature → Header | .mk _ u _ => u
def signature : CoseSignature → Bytes | .mk _ _ s => s
end CoseSignature

namespace ProtectedHeader
def originalData : ProtectedHeader → Option Bytes | .mk o _ => o
def header : ProtectedHeader → Header | .mk _ h => h
def default : ProtectedHeader := .mk none Header.default
instance : Inhabited ProtectedHeader := ⟨ProtectedHeader.default⟩
/-- `ProtectedHeader::is_empty` -/
def isEmpty (p : ProtectedHeader) : Bool := p.header.isEmpty
end ProtectedHeader

instance : Inhabited CoseSignature := ⟨.mk ProtectedHeader.default Header.default []⟩
def CoseSignature.default : CoseSignature := .mk ProtectedHeader.default Header.default []

/-! ### label constants (regenerated from the source: F5) -/
def hALG : Label := .int Gen.header_ALG
def hCRIT : Label := .int Gen.header_CRIT
def hCONTENT_TYPE : Label := .int Gen.header_CONTENT_TYPE
def hKID : Label := .int Gen.header_KID
def hIV : Label := .int Gen.header_IV
def hPARTIAL_IV : Label := .int Gen.header_PARTIAL_IV
def hCOUNTER_SIG : Label := .int Gen.header_COUNTER_SIG

/-- the content-type text checks of `Header::from_cbor_value`. -/
def contentTypeTextOk (t : Bytes) : Bool :=
  !t.isEmpty && Utf8.isTrimmed t && Utf8.slashCount t == 1

/-- the COUNTER_SIG arm: single signature vs array of signatures, decided on the first element. -/
def counterSigArm (depth : Nat) (sigFrom : Value → Res CoseSignature) (value : Value) : Res (List CoseSignature) :=
  match tryAsArray value with
  | .ok sigOrSigs =>
    if sigOrSigs.isEmpty then .err .unexpectedItem
    else if depth = 0 then .err .decodeFailed          -- nesting budget exhausted (RecursionLimitExceeded)
    else
      match vindex sigOrSigs 0 with
      | .ok (.bytes _) =>
        match sigFrom (.array sigOrSigs) with
        | .ok s => .ok [s]
        | .err e => .err e
        | .panic p => .panic p
      | .ok (.array _) => mapRes sigFrom sigOrSigs
      | .ok _ => typeError
      | .err e => .err e
      | .panic p => .panic p
  | .err e => .err e
  | .panic p => .panic p

/-- one iteration of the `for (l, value) in m` loop, after the duplicate check: dispatch on the label. -/
def headerDispatch (depth : Nat) (sigFrom : Value → Res CoseSignature) (label : Label) (value : Value) (h : Header) : Res Header :=
  if label = hALG then
    match RegLabelPriv.fromValue Reg.algorithm value with
    | .ok a => .ok (h.setAlg (some a))
    | .err e => .err e
    | .panic p => .panic p
  else if label = hCRIT then
    match value with
    | .array a =>
      if a.isEmpty then .err .unexpectedItem
      else
        match mapRes (RegLabel.fromValue Reg.headerParameter) a with
        | .ok ls => .ok (h.setCrit (h.crit ++ ls))
        | .err e => .err e
        | .panic p => .panic p
    | _ => typeError
  else if label = hCONTENT_TYPE then
    match RegLabel.fromValue Reg.coapContentFormat value with
    | .ok ct =>
      match ct with
      | .text t => if contentTypeTextOk t then .ok (h.setContentType (some ct)) else .err .unexpectedItem
      | _ => .ok (h.setContentType (some ct))
    | .err e => .err e
    | .panic p => .panic p
  else if label = hKID then
    match tryAsNonemptyBytes value with
    | .ok b => .ok (h.setKeyId b)
    | .err e => .err e
    | .panic p => .panic p
  else if label = hIV then
    match tryAsNonemptyBytes value with
    | .ok b => .ok (h.setIv b)
    | .err e => .err e
    | .panic p => .panic p
  else if label = hPARTIAL_IV then
    match tryAsNonemptyBytes value with
    | .ok b => .ok (h.setPartialIv b)
    | .err e => .err e
    | .panic p => .panic p
  else if label = hCOUNTER_SIG then
    match counterSigArm depth sigFrom value with
    | .ok ss => .ok (h.setCounterSignatures (h.counterSignatures ++ ss))
    | .err e => .err e
    | .panic p => .panic p
  else .ok (h.setRest (h.rest ++ [(label, value)]))

/-- the `for (l, value) in m.into_iter()` loop of `Header::from_cbor_value`; `seen` holds the labels met so far. -/
def headerLoop (depth : Nat) (sigFrom : Value → Res CoseSignature) :
    List (Value × Value) → Header → List Label → Res Header
  | [], h, _ => .ok h
  | (l, value) :: m, h, seen =>
    match Label.fromValue l with
    | .ok label =>
      match setContains Label.cmp seen label with
      | .ok true => .err .duplicateMapKey
      | .ok false =>
        match headerDispatch depth sigFrom label value h with
        | .ok h' =>
          if !h'.iv.isEmpty && !h'.partialIv.isEmpty then .err .unexpectedItem
          else headerLoop depth sigFrom m h' (seen ++ [label])
        | .err e => .err e
        | .panic p => .panic p
      | .err e => .err e
      | .panic p => .panic p
    | .err e => .err e
    | .panic p => .panic p

mutual
/-- `Header::from_cbor_value` -/
def Header.fromValue : Nat → Nat → Value → Res Header
  | 0, _, _ => .err .outOfFuel
  | fuel+1, depth, v =>
    match tryAsMap v with
    | .ok m => headerLoop depth (CoseSignature.fromValue fuel (depth - 1)) m Header.default []
    | .err e => .err e
    | .panic p => .panic p
/-- `CoseSignature::from_cbor_value` -/
def CoseSignature.fromValue : Nat → Nat → Value → Res CoseSignature
  | 0, _, _ => .err .outOfFuel
  | fuel+1, depth, v =>
    match tryAsArray v with
    | .ok a =>
      if Gen.CoseSignature_arityBad a.length then .err .unexpectedItem else
      match vremove a (Gen.CoseSignature_removes.getD 0 99) with
      | .ok (x2, a) =>
        match tryAsBytes x2 with
        | .ok signature =>
          match vremove a (Gen.CoseSignature_removes.getD 1 99) with
          | .ok (x1, a) =>
            match Header.fromValue fuel depth x1 with
            | .ok unprotected =>
              match vremove a (Gen.CoseSignature_removes.getD 2 99) with
              | .ok (x0, _) =>
                match ProtectedHeader.fromBstr fuel depth x0 with
                | .ok prot => .ok (.mk prot unprotected signature)
                | .err e => .err e
                | .panic p => .panic p
              | .err e => .err e
              | .panic p => .panic p
            | .err e => .err e
            | .panic p => .panic p
          | .err e => .err e
          | .panic p => .panic p
        | .err e => .err e
        | .panic p => .panic p
      | .err e => .err e
      | .panic p => .panic p
    | .err e => .err e
    | .panic p => .panic p
/-- `ProtectedHeader::from_cbor_bstr` -/
def ProtectedHeader.fromBstr : Nat → Nat → Value → Res ProtectedHeader
  | 0, _, _ => .err .outOfFuel
  | fuel+1, depth, v =>
    match tryAsBytes v with
    | .ok data =>
      if data.isEmpty then .ok (.mk (some data) Header.default)
      else
        match readToValue data with
        | .ok x =>
          match Header.fromValue fuel depth x with
          | .ok h => .ok (.mk (some data) h)
          | .err e => .err e
          | .panic p => .panic p
        | .err e => .err e
        | .panic p => .panic p
    | .err e => .err e
    | .panic p => .panic p
end

/-- `MAX_SIGNATURE_NESTING` (regenerated from the source). -/
def maxNest : Nat := Gen.MAX_SIGNATURE_NESTING

/-- fuel that always suffices: one Header → CoseSignature → ProtectedHeader → Header cycle costs three
    units of fuel and one unit of depth (`fuel_sufficient` in the proofs). -/
def topFuel : Nat := 3 * maxNest + 3

/-- the `AsCborValue::from_cbor_value` entry points (full nesting budget). -/
def hdrFromValue (v : Value) : Res Header := Header.fromValue topFuel maxNest v
def sigFromValue (v : Value) : Res CoseSignature := CoseSignature.fromValue topFuel maxNest v
/-- `ProtectedHeader::from_cbor_bstr` -/
def phFromBstr (v : Value) : Res ProtectedHeader := ProtectedHeader.fromBstr topFuel maxNest v

/-- `ProtectedHeader::from_cbor_value` (the `AsCborValue` impl: no stored bytes). -/
def ProtectedHeader.fromValue (v : Value) : Res ProtectedHeader :=
  match hdrFromValue v with
  | .ok h => .ok (.mk none h)
  | .err e => .err e
  | .panic p => .panic p

/-- the `seen` loop at the end of `Header::to_cbor_value` / `CoseKey::to_cbor_value`. -/
def restToPairs : List (Label × Value) → List Label → List (Value × Value) → Res (List (Value × Value))
  | [], _, acc => .ok acc
  | (label, value) :: r, seen, acc =>
    match setContains Label.cmp seen label with
    | .ok true => .err .duplicateMapKey
    | .ok false =>
      match Label.toValue label with
      | .ok k => restToPairs r (seen ++ [label]) (acc ++ [(k, value)])
      | .err e => .err e
      | .panic p => .panic p
    | .err e => .err e
    | .panic p => .panic p

/-- the labels of the typed entries already pushed (all of them are integer labels): `seen` is seeded with them. -/
def typedSeen (m : List (Value × Value)) : List Label :=
  m.filterMap fun p => match p.1 with
    | .int n => some (Label.int n)
    | _ => none

/-- `to_cbor_array` over registry labels (cannot fail). -/
def regLabelsToValues (R : Registry) (ls : List RegLabel) : Res (List Value) := mapRes (RegLabel.toValue R) ls

/-- the integer / text a registry label stands for (`to_cbor_value` of a label cannot fail). -/
def RegLabel.value (R : Registry) : RegLabel → Value
  | .assigned k => .int (R.toI64 k)
  | .text t => .text t
def RegLabelPriv.value (R : Registry) : RegLabelPriv → Value
  | .privateUse i => .int i
  | .assigned k => .int (R.toI64 k)
  | .text t => .text t

/-- the entries `Header::to_cbor_value` pushes for alg, crit, content type, kid, IV, Partial IV (in this order, only when populated). -/
def headerTypedPairs (alg : Option RegLabelPriv) (crit : List RegLabel) (ct : Option RegLabel) (kid iv piv : Bytes) : List (Value × Value) :=
  let m1 : List (Value × Value) := match alg with
    | some a => [(.int Gen.header_ALG, RegLabelPriv.value Reg.algorithm a)]
    | none => []
  let m2 := if !crit.isEmpty then m1 ++ [(.int Gen.header_CRIT, .array (crit.map (RegLabel.value Reg.headerParameter)))] else m1
  let m3 := match ct with
    | some c => m2 ++ [(.int Gen.header_CONTENT_TYPE, RegLabel.value Reg.coapContentFormat c)]
    | none => m2
  let m4 := if !kid.isEmpty then m3 ++ [(.int Gen.header_KID, .bytes kid)] else m3
  let m5 := if !iv.isEmpty then m4 ++ [(.int Gen.header_IV, .bytes iv)] else m4
  if !piv.isEmpty then m5 ++ [(.int Gen.header_PARTIAL_IV, .bytes piv)] else m5

/-- the final loop over the extra parameters, `seen` seeded with the labels already emitted. -/
def headerFinish (m : List (Value × Value)) (rest : List (Label × Value)) : Res Value :=
  match restToPairs rest (typedSeen m) m with
  | .ok m' => .ok (.map m')
  | .err e => .err e
  | .panic p => .panic p

mutual
/-- `Header::to_cbor_value` -/
def Header.toValue : Header → Res Value
  | .mk alg crit ct kid iv piv cs rest =>
    match cs with
    | [] => headerFinish (headerTypedPairs alg crit ct kid iv piv) rest
    | [s] =>
      match CoseSignature.toValue s with
      | .ok v => headerFinish (headerTypedPairs alg crit ct kid iv piv ++ [(.int Gen.header_COUNTER_SIG, v)]) rest
      | .err e => .err e
      | .panic p => .panic p
    | s :: s2 :: ss =>
      match sigsToValues (s :: s2 :: ss) with
      | .ok vs => headerFinish (headerTypedPairs alg crit ct kid iv piv ++ [(.int Gen.header_COUNTER_SIG, .array vs)]) rest
      | .err e => .err e
      | .panic p => .panic p
/-- `CoseSignature::to_cbor_value` -/
def CoseSignature.toValue : CoseSignature → Res Value
  | .mk prot unprot sig =>
    match ProtectedHeader.cborBstr prot with
    | .ok p =>
      match Header.toValue unprot with
      | .ok u => .ok (.array [p, u, .bytes sig])
      | .err e => .err e
      | .panic s => .panic s
    | .err e => .err e
    | .panic s => .panic s
/-- `ProtectedHeader::cbor_bstr` -/
def ProtectedHeader.cborBstr : ProtectedHeader → Res Value
  | .mk orig h =>
    match orig with
    | some d => .ok (.bytes d)
    | none =>
      if h.isEmpty then .ok (.bytes [])
      else
        match Header.toValue h with
        | .ok v => .ok (.bytes (Cbor.enc v))
        | .err e => .err e
        | .panic s => .panic s
/-- `to_cbor_array(signatures)` -/
def sigsToValues : List CoseSignature → Res (List Value)
  | [] => .ok []
  | s :: ss =>
    match CoseSignature.toValue s with
    | .ok v =>
      match sigsToValues ss with
      | .ok vs => .ok (v :: vs)
      | .err e => .err e
      | .panic p => .panic p
    | .err e => .err e
    | .panic p => .panic p
end

/-- `ProtectedHeader::to_cbor_value` -/
def ProtectedHeader.toValue (p : ProtectedHeader) : Res Value := Header.toValue p.header

end Coset
