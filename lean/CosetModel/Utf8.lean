/-
  CosetModel.Utf8 — acceptance predicate of Rust's `core::str::from_utf8` (Unicode Table 3-7),
  and the byte-level forms of `str::trim` / `matches('/')` used by the content-type check.
-/
import CosetModel.Basic
namespace Coset.Utf8

@[inline] def cont (b : UInt8) : Bool := 0x80 ≤ b.toNat && b.toNat ≤ 0xBF
@[inline] def inR (b : UInt8) (lo hi : Nat) : Bool := lo ≤ b.toNat && b.toNat ≤ hi

/-- well-formed UTF-8 (no overlongs, no surrogates, ≤ U+10FFFF). -/
def valid : Bytes → Bool
  | [] => true
  | b0 :: rest =>
    if b0.toNat < 0x80 then valid rest
    else if inR b0 0xC2 0xDF then
      match rest with
      | b1 :: r => cont b1 && valid r
      | _ => false
    else if b0.toNat = 0xE0 then
      match rest with
      | b1 :: b2 :: r => inR b1 0xA0 0xBF && cont b2 && valid r
      | _ => false
    else if inR b0 0xE1 0xEC || inR b0 0xEE 0xEF then
      match rest with
      | b1 :: b2 :: r => cont b1 && cont b2 && valid r
      | _ => false
    else if b0.toNat = 0xED then
      match rest with
      | b1 :: b2 :: r => inR b1 0x80 0x9F && cont b2 && valid r
      | _ => false
    else if b0.toNat = 0xF0 then
      match rest with
      | b1 :: b2 :: b3 :: r => inR b1 0x90 0xBF && cont b2 && cont b3 && valid r
      | _ => false
    else if inR b0 0xF1 0xF3 then
      match rest with
      | b1 :: b2 :: b3 :: r => cont b1 && cont b2 && cont b3 && valid r
      | _ => false
    else if b0.toNat = 0xF4 then
      match rest with
      | b1 :: b2 :: b3 :: r => inR b1 0x80 0x8F && cont b2 && cont b3 && valid r
      | _ => false
    else false

/-- UTF-8 encodings of the 25 code points with the Unicode `White_Space` property
    (what `char::is_whitespace`, hence `str::trim`, removes). -/
def whiteSpace : List Bytes :=
  [[0x09], [0x0A], [0x0B], [0x0C], [0x0D], [0x20],
   [0xC2, 0x85], [0xC2, 0xA0], [0xE1, 0x9A, 0x80],
   [0xE2, 0x80, 0x80], [0xE2, 0x80, 0x81], [0xE2, 0x80, 0x82], [0xE2, 0x80, 0x83], [0xE2, 0x80, 0x84],
   [0xE2, 0x80, 0x85], [0xE2, 0x80, 0x86], [0xE2, 0x80, 0x87], [0xE2, 0x80, 0x88], [0xE2, 0x80, 0x89],
   [0xE2, 0x80, 0x8A], [0xE2, 0x80, 0xA8], [0xE2, 0x80, 0xA9], [0xE2, 0x80, 0xAF], [0xE2, 0x81, 0x9F],
   [0xE3, 0x80, 0x80]]

/-- `text.trim() == text` for valid UTF-8 `t`: neither starts nor ends with a white-space character. -/
def isTrimmed (t : Bytes) : Bool :=
  !(whiteSpace.any fun w => w.isPrefixOf t) && !(whiteSpace.any fun w => w.isSuffixOf t)

/-- `text.matches('/').count()` -/
def slashCount (t : Bytes) : Nat := t.count 0x2F

end Coset.Utf8
