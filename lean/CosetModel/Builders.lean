/-
  CosetModel.Builders — the macro-generated and hand-written builder methods.
  Each builder is a state (the value being built) and `apply : state → Op → Step state`,
  one `Op` constructor per public method.  Caller closures are function-valued fields, so
  theorems quantify over all of them.
-/
import CosetModel.Api
namespace Coset

/-- outcome of one builder call: new builder, `Err(n)` from a `try_` method's closure, or panic. -/
inductive Step (β : Type) where
  | next (b : β)
  | fail (n : Nat)
  | panic (s : PanicSite)
  deriving Inhabited

/-- run a call sequence; returns the state or (index of the call that stopped it, how). -/
def runOps {β ο : Type} (apply : β → ο → Step β) : List ο → β → Nat → Step β × Nat
  | [], b, i => (.next b, i)
  | o :: os, b, i =>
    match apply b o with
    | .next b' => runOps apply os b' (i + 1)
    | .fail n => (.fail n, i)
    | .panic s => (.panic s, i)

/-- lift a structure-function result into a step (the structure functions only panic). -/
def Step.ofRes {β γ : Type} (r : Res γ) (k : γ → Step β) : Step β :=
  match r with
  | .ok x => k x
  | .err _ => .panic .expectErr
  | .panic s => .panic s

/-- `builder_set_protected!` -/
def mkProtected (h : Header) : ProtectedHeader := .mk none h

/-! ### HeaderBuilder -/
inductive HeaderOp where
  | keyId (b : Bytes)
  | algorithm (k : Nat)
  | addCritical (k : Nat)
  | addCriticalLabel (l : RegLabel)
  | contentFormat (k : Nat)
  | contentType (t : Bytes)
  | iv (b : Bytes)
  | partialIv (b : Bytes)
  | addCounterSignature (s : CoseSignature)
  | value (label : Int) (v : Value)
  | textValue (label : Bytes) (v : Value)

/-- the guard of `HeaderBuilder::value` -/
def headerValueReserved (label : Int) : Bool :=
  decide (label ≥ Reg.headerParameter.toI64 Gen.idx_HeaderParameter_Alg)
    && decide (label ≤ Reg.headerParameter.toI64 Gen.idx_HeaderParameter_CounterSignature)

def HeaderOp.apply (h : Header) : HeaderOp → Step Header
  | .keyId b => .next (h.setKeyId b)
  | .algorithm k => .next (h.setAlg (some (.assigned k)))
  | .addCritical k => .next (h.setCrit (h.crit ++ [.assigned k]))
  | .addCriticalLabel l => .next (h.setCrit (h.crit ++ [l]))
  | .contentFormat k => .next (h.setContentType (some (.assigned k)))
  | .contentType t => .next (h.setContentType (some (.text t)))
  | .iv b => .next ((h.setIv b).setPartialIv [])
  | .partialIv b => .next ((h.setPartialIv b).setIv [])
  | .addCounterSignature s => .next (h.setCounterSignatures (h.counterSignatures ++ [s]))
  | .value label v =>
    if headerValueReserved label then .panic .explicitPanic
    else .next (h.setRest (h.rest ++ [(.int label, v)]))
  | .textValue label v => .next (h.setRest (h.rest ++ [(.text label, v)]))

/-! ### CoseSignatureBuilder -/
inductive SignatureOp where
  | protected_ (h : Header) | unprotected (h : Header) | signature (b : Bytes)

def SignatureOp.apply (s : CoseSignature) : SignatureOp → Step CoseSignature
  | .protected_ h => .next (.mk (mkProtected h) s.unprotected s.signature)
  | .unprotected h => .next (.mk s.protected_ h s.signature)
  | .signature b => .next (.mk s.protected_ s.unprotected b)

/-! ### CoseSign1Builder -/
inductive Sign1Op where
  | protected_ (h : Header) | unprotected (h : Header) | signature (b : Bytes) | payload (b : Bytes)
  | createSignature (aad : Bytes) (signer : Bytes → Bytes)
  | createDetachedSignature (payload aad : Bytes) (signer : Bytes → Bytes)
  | tryCreateSignature (aad : Bytes) (signer : Bytes → Except Nat Bytes)
  | tryCreateDetachedSignature (payload aad : Bytes) (signer : Bytes → Except Nat Bytes)

def Sign1Op.apply (m : CoseSign1) : Sign1Op → Step CoseSign1
  | .protected_ h => .next { m with protected_ := mkProtected h }
  | .unprotected h => .next { m with unprotected := h }
  | .signature b => .next { m with signature := b }
  | .payload b => .next { m with payload := some b }
  | .createSignature aad signer =>
    Step.ofRes (m.tbsData aad) fun tbs => .next { m with signature := signer tbs }
  | .createDetachedSignature pl aad signer =>
    Step.ofRes (m.tbsDetachedData pl aad) fun tbs => .next { m with signature := signer tbs }
  | .tryCreateSignature aad signer =>
    Step.ofRes (m.tbsData aad) fun tbs =>
      match signer tbs with
      | .ok sig => .next { m with signature := sig }
      | .error n => .fail n
  | .tryCreateDetachedSignature pl aad signer =>
    Step.ofRes (m.tbsDetachedData pl aad) fun tbs =>
      match signer tbs with
      | .ok sig => .next { m with signature := sig }
      | .error n => .fail n

/-! ### CoseSignBuilder -/
inductive SignOp where
  | protected_ (h : Header) | unprotected (h : Header) | payload (b : Bytes)
  | addSignature (s : CoseSignature)
  | addCreatedSignature (s : CoseSignature) (aad : Bytes) (signer : Bytes → Bytes)
  | addDetachedSignature (s : CoseSignature) (payload aad : Bytes) (signer : Bytes → Bytes)
  | tryAddCreatedSignature (s : CoseSignature) (aad : Bytes) (signer : Bytes → Except Nat Bytes)
  | tryAddDetachedSignature (s : CoseSignature) (payload aad : Bytes) (signer : Bytes → Except Nat Bytes)

def withSignature (s : CoseSignature) (b : Bytes) : CoseSignature := .mk s.protected_ s.unprotected b

def SignOp.apply (m : CoseSign) : SignOp → Step CoseSign
  | .protected_ h => .next { m with protected_ := mkProtected h }
  | .unprotected h => .next { m with unprotected := h }
  | .payload b => .next { m with payload := some b }
  | .addSignature s => .next { m with signatures := m.signatures ++ [s] }
  | .addCreatedSignature s aad signer =>
    Step.ofRes (m.tbsData aad s) fun tbs => .next { m with signatures := m.signatures ++ [withSignature s (signer tbs)] }
  | .addDetachedSignature s pl aad signer =>
    Step.ofRes (m.tbsDetachedData pl aad s) fun tbs =>
      .next { m with signatures := m.signatures ++ [withSignature s (signer tbs)] }
  | .tryAddCreatedSignature s aad signer =>
    Step.ofRes (m.tbsData aad s) fun tbs =>
      match signer tbs with
      | .ok sig => .next { m with signatures := m.signatures ++ [withSignature s sig] }
      | .error n => .fail n
  | .tryAddDetachedSignature s pl aad signer =>
    Step.ofRes (m.tbsDetachedData pl aad s) fun tbs =>
      match signer tbs with
      | .ok sig => .next { m with signatures := m.signatures ++ [withSignature s sig] }
      | .error n => .fail n

/-! ### CoseMacBuilder / CoseMac0Builder -/
inductive MacOp where
  | protected_ (h : Header) | unprotected (h : Header) | tag (b : Bytes) | payload (b : Bytes)
  | addRecipient (r : CoseRecipient)
  | createTag (aad : Bytes) (create : Bytes → Bytes)
  | tryCreateTag (aad : Bytes) (create : Bytes → Except Nat Bytes)

def MacOp.apply (m : CoseMac) : MacOp → Step CoseMac
  | .protected_ h => .next { m with protected_ := mkProtected h }
  | .unprotected h => .next { m with unprotected := h }
  | .tag b => .next { m with tag := b }
  | .payload b => .next { m with payload := some b }
  | .addRecipient r => .next { m with recipients := m.recipients ++ [r] }
  | .createTag aad create => Step.ofRes (m.tbm aad) fun tbm => .next { m with tag := create tbm }
  | .tryCreateTag aad create =>
    Step.ofRes (m.tbm aad) fun tbm =>
      match create tbm with
      | .ok t => .next { m with tag := t }
      | .error n => .fail n

inductive Mac0Op where
  | protected_ (h : Header) | unprotected (h : Header) | tag (b : Bytes) | payload (b : Bytes)
  | createTag (aad : Bytes) (create : Bytes → Bytes)
  | tryCreateTag (aad : Bytes) (create : Bytes → Except Nat Bytes)

def Mac0Op.apply (m : CoseMac0) : Mac0Op → Step CoseMac0
  | .protected_ h => .next { m with protected_ := mkProtected h }
  | .unprotected h => .next { m with unprotected := h }
  | .tag b => .next { m with tag := b }
  | .payload b => .next { m with payload := some b }
  | .createTag aad create => Step.ofRes (m.tbm aad) fun tbm => .next { m with tag := create tbm }
  | .tryCreateTag aad create =>
    Step.ofRes (m.tbm aad) fun tbm =>
      match create tbm with
      | .ok t => .next { m with tag := t }
      | .error n => .fail n

/-! ### CoseRecipientBuilder / CoseEncryptBuilder / CoseEncrypt0Builder -/
inductive RecipientOp where
  | protected_ (h : Header) | unprotected (h : Header) | ciphertext (b : Bytes)
  | addRecipient (r : CoseRecipient)
  | createCiphertext (ctx : EncryptionContext) (plaintext aad : Bytes) (cipher : Bytes → Bytes → Bytes)
  | tryCreateCiphertext (ctx : EncryptionContext) (plaintext aad : Bytes) (cipher : Bytes → Bytes → Except Nat Bytes)

/-- `CoseRecipientBuilder::aad` -/
def recipientAad (m : CoseRecipient) (ctx : EncryptionContext) (aad : Bytes) : Res Bytes :=
  if !ctx.isRecipient then .panic .explicitPanic else encStructureData ctx m.protected_ aad

def RecipientOp.apply (m : CoseRecipient) : RecipientOp → Step CoseRecipient
  | .protected_ h => .next (.mk (mkProtected h) m.unprotected m.ciphertext m.recipients)
  | .unprotected h => .next (.mk m.protected_ h m.ciphertext m.recipients)
  | .ciphertext b => .next (.mk m.protected_ m.unprotected (some b) m.recipients)
  | .addRecipient r => .next (.mk m.protected_ m.unprotected m.ciphertext (m.recipients ++ [r]))
  | .createCiphertext ctx pt aad cipher =>
    Step.ofRes (recipientAad m ctx aad) fun a => .next (.mk m.protected_ m.unprotected (some (cipher pt a)) m.recipients)
  | .tryCreateCiphertext ctx pt aad cipher =>
    Step.ofRes (recipientAad m ctx aad) fun a =>
      match cipher pt a with
      | .ok ct => .next (.mk m.protected_ m.unprotected (some ct) m.recipients)
      | .error n => .fail n

inductive EncryptOp where
  | protected_ (h : Header) | unprotected (h : Header) | ciphertext (b : Bytes)
  | addRecipient (r : CoseRecipient)
  | createCiphertext (plaintext aad : Bytes) (cipher : Bytes → Bytes → Bytes)
  | tryCreateCiphertext (plaintext aad : Bytes) (cipher : Bytes → Bytes → Except Nat Bytes)

def EncryptOp.apply (m : CoseEncrypt) : EncryptOp → Step CoseEncrypt
  | .protected_ h => .next { m with protected_ := mkProtected h }
  | .unprotected h => .next { m with unprotected := h }
  | .ciphertext b => .next { m with ciphertext := some b }
  | .addRecipient r => .next { m with recipients := m.recipients ++ [r] }
  | .createCiphertext pt aad cipher =>
    Step.ofRes (encStructureData .coseEncrypt m.protected_ aad) fun a => .next { m with ciphertext := some (cipher pt a) }
  | .tryCreateCiphertext pt aad cipher =>
    Step.ofRes (encStructureData .coseEncrypt m.protected_ aad) fun a =>
      match cipher pt a with
      | .ok ct => .next { m with ciphertext := some ct }
      | .error n => .fail n

inductive Encrypt0Op where
  | protected_ (h : Header) | unprotected (h : Header) | ciphertext (b : Bytes)
  | createCiphertext (plaintext aad : Bytes) (cipher : Bytes → Bytes → Bytes)
  | tryCreateCiphertext (plaintext aad : Bytes) (cipher : Bytes → Bytes → Except Nat Bytes)

def Encrypt0Op.apply (m : CoseEncrypt0) : Encrypt0Op → Step CoseEncrypt0
  | .protected_ h => .next { m with protected_ := mkProtected h }
  | .unprotected h => .next { m with unprotected := h }
  | .ciphertext b => .next { m with ciphertext := some b }
  | .createCiphertext pt aad cipher =>
    Step.ofRes (encStructureData .coseEncrypt0 m.protected_ aad) fun a => .next { m with ciphertext := some (cipher pt a) }
  | .tryCreateCiphertext pt aad cipher =>
    Step.ofRes (encStructureData .coseEncrypt0 m.protected_ aad) fun a =>
      match cipher pt a with
      | .ok ct => .next { m with ciphertext := some ct }
      | .error n => .fail n

/-! ### CoseKeyBuilder -/
inductive KeyOp where
  | kty (t : RegLabel) | keyId (b : Bytes) | baseIv (b : Bytes)
  | keyType (k : Nat) | algorithm (k : Nat) | addKeyOp (k : Nat)
  | param (label : Int) (v : Value)

/-- the guard of `CoseKeyBuilder::param` -/
def keyParamReserved (label : Int) : Bool := (Reg.keyParameter.fromI64 label).isSome

def KeyOp.apply (k : CoseKey) : KeyOp → Step CoseKey
  | .kty t => .next { k with kty := t }
  | .keyId b => .next { k with keyId := b }
  | .baseIv b => .next { k with baseIv := b }
  | .keyType i => .next { k with kty := .assigned i }
  | .algorithm i => .next { k with alg := some (.assigned i) }
  | .addKeyOp i =>
    match setInsert (RegLabel.cmp Reg.keyOperation) k.keyOps (.assigned i) with
    | .ok (some s) => .next { k with keyOps := s }
    | .ok none => .next k
    | .err _ => .panic .unreachable
    | .panic p => .panic p
  | .param label v =>
    if keyParamReserved label then .panic .explicitPanic
    else .next { k with params := k.params ++ [(.int label, v)] }

/-- key constructors (`curve as u64` is the curve's registered integer). -/
def newEc2PubKey (curve : Nat) (x y : Bytes) : CoseKey :=
  { CoseKey.default with
    kty := .assigned Gen.idx_KeyType_EC2,
    params := [(.int (Reg.ec2KeyParameter.toI64 Gen.idx_Ec2KeyParameter_Crv), .int (Reg.ellipticCurve.toI64 curve)),
               (.int (Reg.ec2KeyParameter.toI64 Gen.idx_Ec2KeyParameter_X), .bytes x),
               (.int (Reg.ec2KeyParameter.toI64 Gen.idx_Ec2KeyParameter_Y), .bytes y)] }

def newEc2PubKeyYSign (curve : Nat) (x : Bytes) (ySign : Bool) : CoseKey :=
  { CoseKey.default with
    kty := .assigned Gen.idx_KeyType_EC2,
    params := [(.int (Reg.ec2KeyParameter.toI64 Gen.idx_Ec2KeyParameter_Crv), .int (Reg.ellipticCurve.toI64 curve)),
               (.int (Reg.ec2KeyParameter.toI64 Gen.idx_Ec2KeyParameter_X), .bytes x),
               (.int (Reg.ec2KeyParameter.toI64 Gen.idx_Ec2KeyParameter_Y), .bool ySign)] }

def newEc2PrivKey (curve : Nat) (x y d : Bytes) : CoseKey :=
  let k := newEc2PubKey curve x y
  { k with params := k.params ++ [(.int (Reg.ec2KeyParameter.toI64 Gen.idx_Ec2KeyParameter_D), .bytes d)] }

def newSymmetricKey (kb : Bytes) : CoseKey :=
  { CoseKey.default with
    kty := .assigned Gen.idx_KeyType_Symmetric,
    params := [(.int (Reg.symmetricKeyParameter.toI64 Gen.idx_SymmetricKeyParameter_K), .bytes kb)] }

def newOkpKey : CoseKey := { CoseKey.default with kty := .assigned Gen.idx_KeyType_OKP }

/-! ### ClaimsSetBuilder -/
inductive ClaimsOp where
  | issuer (t : Bytes) | subject (t : Bytes) | audience (t : Bytes)
  | expirationTime (t : Timestamp) | notBefore (t : Timestamp) | issuedAt (t : Timestamp)
  | cwtId (b : Bytes)
  | claim (k : Nat) (v : Value)
  | textClaim (name : Bytes) (v : Value)
  | privateClaim (id : Int) (v : Value)

/-- the guard of `ClaimsSetBuilder::claim` -/
def claimReserved (k : Nat) : Bool :=
  decide (Reg.cwtClaimName.toI64 k ≥ Reg.cwtClaimName.toI64 Gen.idx_CwtClaimName_Iss)
    && decide (Reg.cwtClaimName.toI64 k ≤ Reg.cwtClaimName.toI64 Gen.idx_CwtClaimName_Cti)

def ClaimsOp.apply (c : ClaimsSet) : ClaimsOp → Step ClaimsSet
  | .issuer t => .next { c with issuer := some t }
  | .subject t => .next { c with subject := some t }
  | .audience t => .next { c with audience := some t }
  | .expirationTime t => .next { c with expirationTime := some t }
  | .notBefore t => .next { c with notBefore := some t }
  | .issuedAt t => .next { c with issuedAt := some t }
  | .cwtId b => .next { c with cwtId := some b }
  | .claim k v =>
    if claimReserved k then .panic .explicitPanic
    else .next { c with rest := c.rest ++ [(.assigned k, v)] }
  | .textClaim name v => .next { c with rest := c.rest ++ [(.text name, v)] }
  | .privateClaim id v =>
    if !Reg.cwtClaimName.private? id then .panic .assertFailed
    else .next { c with rest := c.rest ++ [(.privateUse id, v)] }

/-! ### PartyInfoBuilder / SuppPubInfoBuilder / CoseKdfContextBuilder -/
inductive PartyOp where
  | identity (b : Bytes) | nonce (n : Nonce) | other (b : Bytes)

def PartyOp.apply (p : PartyInfo) : PartyOp → Step PartyInfo
  | .identity b => .next { p with identity := some b }
  | .nonce n => .next { p with nonce := some n }
  | .other b => .next { p with other := some b }

inductive SuppOp where
  | keyDataLength (n : Int) | protected_ (h : Header) | other (b : Bytes)

def SuppOp.apply (s : SuppPubInfo) : SuppOp → Step SuppPubInfo
  | .keyDataLength n => .next { s with keyDataLength := n }
  | .protected_ h => .next { s with protected_ := mkProtected h }
  | .other b => .next { s with other := some b }

inductive KdfOp where
  | partyUInfo (p : PartyInfo) | partyVInfo (p : PartyInfo) | suppPubInfo (s : SuppPubInfo)
  | algorithm (k : Nat) | addSuppPrivInfo (b : Bytes)

def KdfOp.apply (c : CoseKdfContext) : KdfOp → Step CoseKdfContext
  | .partyUInfo p => .next { c with partyUInfo := p }
  | .partyVInfo p => .next { c with partyVInfo := p }
  | .suppPubInfo s => .next { c with suppPubInfo := s }
  | .algorithm k => .next { c with algorithmId := .assigned k }
  | .addSuppPrivInfo b => .next { c with suppPrivInfo := c.suppPrivInfo ++ [b] }

/-- `X::default()` for the message types. -/
def CoseSign.default : CoseSign := ⟨ProtectedHeader.default, Header.default, none, []⟩
def CoseSign1.default : CoseSign1 := ⟨ProtectedHeader.default, Header.default, none, []⟩
def CoseMac.default : CoseMac := ⟨ProtectedHeader.default, Header.default, none, [], []⟩
def CoseMac0.default : CoseMac0 := ⟨ProtectedHeader.default, Header.default, none, []⟩
def CoseEncrypt.default : CoseEncrypt := ⟨ProtectedHeader.default, Header.default, none, []⟩
def CoseEncrypt0.default : CoseEncrypt0 := ⟨ProtectedHeader.default, Header.default, none⟩

end Coset
