/-
  CosetModel.Basic — bytes, result type with panics, vector operations that can panic.
  Import-free (core Lean only) so that the driver links as a native executable.
-/
namespace Coset

abbrev Bytes := List UInt8

/-- The eight kinds of `CoseError` (payload strings dropped), plus `outOfFuel`, which the model can
    produce only if a fuel argument is too small (proved / observed never to happen at the API). -/
inductive CoseErr where
  | decodeFailed | duplicateMapKey | encodeFailed | extraneousData | outOfRange
  | unexpectedItem | unregisteredIana | unregisteredIanaNonPrivate | outOfFuel
  deriving DecidableEq, Repr, Inhabited

/-- Sites at which the Rust code can panic. -/
inductive PanicSite where
  | removeOob        -- Vec::remove(i) with i >= len
  | indexOob         -- v[i] with i >= len
  | unwrapNone       -- Option::unwrap / expect on None
  | expectErr        -- Result::unwrap / expect on Err
  | assertFailed     -- assert!
  | explicitPanic    -- panic!
  | unreachable      -- unreachable!
  | subOverflow      -- usize subtraction underflow (debug) / capacity overflow
  deriving DecidableEq, Repr, Inhabited

/-- Outcome of a model operation: value, `CoseError`, or panic. -/
inductive Res (α : Type) where
  | ok (a : α)
  | err (e : CoseErr)
  | panic (s : PanicSite)
  deriving Repr, Inhabited, DecidableEq

namespace Res

@[inline] def bind (x : Res α) (f : α → Res β) : Res β :=
  match x with
  | .ok a => f a
  | .err e => .err e
  | .panic s => .panic s

instance : Monad Res where
  pure := .ok
  bind := Res.bind

@[simp] theorem bind_ok (a : α) (f : α → Res β) : (Res.ok a >>= f) = f a := rfl
@[simp] theorem bind_err (e : CoseErr) (f : α → Res β) : (Res.err e >>= f) = .err e := rfl
@[simp] theorem bind_panic (s : PanicSite) (f : α → Res β) : (Res.panic s >>= f) = .panic s := rfl
@[simp] theorem pure_eq (a : α) : (pure a : Res α) = .ok a := rfl

def isOk : Res α → Bool
  | .ok _ => true
  | _ => false

/-- the error kind, if the result is an error (used to state examples without decidable equality on α). -/
def errKind? : Res α → Option CoseErr
  | .err e => some e
  | _ => none

def isPanic : Res α → Bool
  | .panic _ => true
  | _ => false

/-- `map_err(|_| e)` -/
def mapErr (x : Res α) (e : CoseErr) : Res α :=
  match x with
  | .err _ => .err e
  | r => r

def map (f : α → β) : Res α → Res β
  | .ok a => .ok (f a)
  | .err e => .err e
  | .panic s => .panic s

end Res

/-- `Vec::remove(i)`: panics when out of range. -/
def vremove (a : List α) (i : Nat) : Res (α × List α) :=
  match a[i]? with
  | some x => .ok (x, a.eraseIdx i)
  | none => .panic .removeOob

/-- `v[i]`: panics when out of range. -/
def vindex (a : List α) (i : Nat) : Res α :=
  match a[i]? with
  | some x => .ok x
  | none => .panic .indexOob

/-- `iter().map(f).collect::<Result<Vec<_>,_>>()` : stops at the first failure. -/
def mapRes (f : α → Res β) : List α → Res (List β)
  | [] => .ok []
  | x :: xs =>
    match f x with
    | .ok y => match mapRes f xs with
      | .ok ys => .ok (y :: ys)
      | .err e => .err e
      | .panic s => .panic s
    | .err e => .err e
    | .panic s => .panic s

/-- big-endian bytes of `n`, exactly `k` bytes (low `k` bytes of `n`). -/
def beN : Nat → Nat → Bytes
  | 0, _ => []
  | k+1, n => beN k (n / 256) ++ [UInt8.ofNat n]

/-- big-endian value of a byte string. -/
def beVal (bs : Bytes) : Nat := bs.foldl (fun acc b => acc * 256 + b.toNat) 0

/-- minimal big-endian representation (no leading zero bytes; `0 ↦ []`). -/
def minBytesF : Nat → Nat → Bytes
  | 0, _ => []
  | k+1, n => if n = 0 then [] else minBytesF k (n / 256) ++ [UInt8.ofNat n]

/-- enough fuel for every `n < 2^128` (the only use is ciborium's `u128`/`i128` conversion). -/
def minBytes (n : Nat) : Bytes := minBytesF 16 n

end Coset
