/-
  CosetRef.Iana — pinned reference: (name, value) rows of the IANA registries restricted to the names the crate defines,
  transcribed offline (no network in the sandbox) and checked row by row against the RFC / registry tables cited per registry.
  This file is NOT regenerated; `C17_matches_reference` compares the tables regenerated from the source with it.
-/
namespace Coset.Ref

/-- IANA COSE Header Parameters (RFC 8152 table 2/3, RFC 8613 kid context, RFC 9360 x5*, FIDO CUPH) -/
def HeaderParameter : List (String × Int) :=
  [("Reserved", 0),
   ("Alg", 1),
   ("Crit", 2),
   ("ContentType", 3),
   ("Kid", 4),
   ("Iv", 5),
   ("PartialIv", 6),
   ("CounterSignature", 7),
   ("CounterSignature0", 9),
   ("KidContext", 10),
   ("X5Bag", 32),
   ("X5Chain", 33),
   ("X5T", 34),
   ("X5U", 35),
   ("CuphNonce", 256),
   ("CuphOwnerPubKey", 257)]

/-- IANA COSE Header Algorithm Parameters (RFC 8152 tables 13, 19) -/
def HeaderAlgorithmParameter : List (String × Int) :=
  [("PartyVOther", (-26)),
   ("PartyVNonce", (-25)),
   ("PartyVIdentity", (-24)),
   ("PartyUOther", (-23)),
   ("PartyUNonce", (-22)),
   ("PartyUIdentity", (-21)),
   ("Salt", (-20)),
   ("StaticKeyId", (-3)),
   ("StaticKey", (-2)),
   ("EphemeralKey", (-1))]

/-- IANA COSE Algorithms (RFC 8152 tables 5-7, 9-12, 15-20; RFC 8230; RFC 8812; RFC 8778; RFC 9054; RFC 9021) -/
def Algorithm : List (String × Int) :=
  [("RS1", (-65535)),
   ("WalnutDSA", (-260)),
   ("RS512", (-259)),
   ("RS384", (-258)),
   ("RS256", (-257)),
   ("ES256K", (-47)),
   ("HSS_LMS", (-46)),
   ("SHAKE256", (-45)),
   ("SHA_512", (-44)),
   ("SHA_384", (-43)),
   ("RSAES_OAEP_SHA_512", (-42)),
   ("RSAES_OAEP_SHA_256", (-41)),
   ("RSAES_OAEP_RFC_8017_default", (-40)),
   ("PS512", (-39)),
   ("PS384", (-38)),
   ("PS256", (-37)),
   ("ES512", (-36)),
   ("ES384", (-35)),
   ("ECDH_SS_A256KW", (-34)),
   ("ECDH_SS_A192KW", (-33)),
   ("ECDH_SS_A128KW", (-32)),
   ("ECDH_ES_A256KW", (-31)),
   ("ECDH_ES_A192KW", (-30)),
   ("ECDH_ES_A128KW", (-29)),
   ("ECDH_SS_HKDF_512", (-28)),
   ("ECDH_SS_HKDF_256", (-27)),
   ("ECDH_ES_HKDF_512", (-26)),
   ("ECDH_ES_HKDF_256", (-25)),
   ("SHAKE128", (-18)),
   ("SHA_512_256", (-17)),
   ("SHA_256", (-16)),
   ("SHA_256_64", (-15)),
   ("SHA_1", (-14)),
   ("Direct_HKDF_AES_256", (-13)),
   ("Direct_HKDF_AES_128", (-12)),
   ("Direct_HKDF_SHA_512", (-11)),
   ("Direct_HKDF_SHA_256", (-10)),
   ("EdDSA", (-8)),
   ("ES256", (-7)),
   ("Direct", (-6)),
   ("A256KW", (-5)),
   ("A192KW", (-4)),
   ("A128KW", (-3)),
   ("Reserved", 0),
   ("A128GCM", 1),
   ("A192GCM", 2),
   ("A256GCM", 3),
   ("HMAC_256_64", 4),
   ("HMAC_256_256", 5),
   ("HMAC_384_384", 6),
   ("HMAC_512_512", 7),
   ("AES_CCM_16_64_128", 10),
   ("AES_CCM_16_64_256", 11),
   ("AES_CCM_64_64_128", 12),
   ("AES_CCM_64_64_256", 13),
   ("AES_MAC_128_64", 14),
   ("AES_MAC_256_64", 15),
   ("ChaCha20Poly1305", 24),
   ("AES_MAC_128_128", 25),
   ("AES_MAC_256_128", 26),
   ("AES_CCM_16_128_128", 30),
   ("AES_CCM_16_128_256", 31),
   ("AES_CCM_64_128_128", 32),
   ("AES_CCM_64_128_256", 33),
   ("IV_GENERATION", 34)]

/-- IANA COSE Key Common Parameters (RFC 8152 table 3) -/
def KeyParameter : List (String × Int) :=
  [("Reserved", 0),
   ("Kty", 1),
   ("Kid", 2),
   ("Alg", 3),
   ("KeyOps", 4),
   ("BaseIv", 5)]

/-- RFC 8152 table 24 -/
def OkpKeyParameter : List (String × Int) :=
  [("Crv", (-1)),
   ("X", (-2)),
   ("D", (-4))]

/-- RFC 8152 table 23 -/
def Ec2KeyParameter : List (String × Int) :=
  [("Crv", (-1)),
   ("X", (-2)),
   ("Y", (-3)),
   ("D", (-4))]

/-- RFC 8230 table 4 -/
def RsaKeyParameter : List (String × Int) :=
  [("N", (-1)),
   ("E", (-2)),
   ("D", (-3)),
   ("P", (-4)),
   ("Q", (-5)),
   ("DP", (-6)),
   ("DQ", (-7)),
   ("QInv", (-8)),
   ("Other", (-9)),
   ("RI", (-10)),
   ("DI", (-11)),
   ("TI", (-12))]

/-- RFC 8152 table 25 -/
def SymmetricKeyParameter : List (String × Int) :=
  [("K", (-1))]

/-- RFC 8778 -/
def HssLmsKeyParameter : List (String × Int) :=
  [("Pub", (-1))]

/-- RFC 9021 -/
def WalnutDsaKeyParameter : List (String × Int) :=
  [("N", (-1)),
   ("Q", (-2)),
   ("TValues", (-3)),
   ("Matrix1", (-4)),
   ("Permutation1", (-5)),
   ("Matrix2", (-6))]

/-- IANA COSE Key Types (RFC 8152 table 21, RFC 8230, RFC 8778, RFC 9021) -/
def KeyType : List (String × Int) :=
  [("Reserved", 0),
   ("OKP", 1),
   ("EC2", 2),
   ("RSA", 3),
   ("Symmetric", 4),
   ("HSS_LMS", 5),
   ("WalnutDSA", 6)]

/-- IANA COSE Elliptic Curves (RFC 8152 table 22, RFC 8812) -/
def EllipticCurve : List (String × Int) :=
  [("Reserved", 0),
   ("P_256", 1),
   ("P_384", 2),
   ("P_521", 3),
   ("X25519", 4),
   ("X448", 5),
   ("Ed25519", 6),
   ("Ed448", 7),
   ("Secp256k1", 8)]

/-- RFC 8152 table 4 -/
def KeyOperation : List (String × Int) :=
  [("Sign", 1),
   ("Verify", 2),
   ("Encrypt", 3),
   ("Decrypt", 4),
   ("WrapKey", 5),
   ("UnwrapKey", 6),
   ("DeriveKey", 7),
   ("DeriveBits", 8),
   ("MacCreate", 9),
   ("MacVerify", 10)]

/-- IANA CBOR Tags (RFC 8152 table 1, RFC 8392) -/
def CborTag : List (String × Int) :=
  [("CoseEncrypt0", 16),
   ("CoseMac0", 17),
   ("CoseSign1", 18),
   ("Cwt", 61),
   ("CoseEncrypt", 96),
   ("CoseMac", 97),
   ("CoseSign", 98)]

/-- IANA CoAP Content-Formats (RFC 7252 12.3 and later registrations) -/
def CoapContentFormat : List (String × Int) :=
  [("TextPlainUtf8", 0),
   ("CoseEncrypt0", 16),
   ("CoseMac0", 17),
   ("CoseSign1", 18),
   ("LinkFormat", 40),
   ("Xml", 41),
   ("OctetStream", 42),
   ("Exi", 47),
   ("Json", 50),
   ("JsonPatchJson", 51),
   ("MergePatchJson", 52),
   ("Cbor", 60),
   ("Cwt", 61),
   ("MultipartCore", 62),
   ("CborSeq", 63),
   ("CoseEncrypt", 96),
   ("CoseMac", 97),
   ("CoseSign", 98),
   ("CoseKey", 101),
   ("CoseKeySet", 102),
   ("SenmlJson", 110),
   ("SensmlJson", 111),
   ("SenmlCbor", 112),
   ("SensmlCbor", 113),
   ("SenmlExi", 114),
   ("SensmlExi", 115),
   ("CoapGroupJson", 256),
   ("DotsCbor", 271),
   ("Pkcs7MimeSmimeTypeServerGeneratedKey", 280),
   ("Pkcs7MimeSmimeTypeCertsOnly", 281),
   ("Pkcs7MimeSmimeTypeCmcRequest", 282),
   ("Pkcs7MimeSmimeTypeCmcResponse", 283),
   ("Pkcs8", 284),
   ("Csrattrs", 285),
   ("Pkcs10", 286),
   ("PkixCert", 287),
   ("SenmlXml", 310),
   ("SensmlXml", 311),
   ("SenmlEtchJson", 320),
   ("SenmlEtchCbor", 322),
   ("TdJson", 432),
   ("VndOcfCbor", 10000),
   ("Oscore", 10001),
   ("JsonDeflate", 11050),
   ("CborDeflate", 11060),
   ("VndOmaLwm2mTlv", 11542),
   ("VndOmaLwm2mJson", 11543),
   ("VndOmaLwm2mCbor", 11544)]

/-- IANA CWT Claims (RFC 8392, RFC 8747, RFC 8693, RFC 9200, RFC 9203, EAT/hcert registrations) -/
def CwtClaimName : List (String × Int) :=
  [("Hcert", (-260)),
   ("EuphNonce", (-259)),
   ("EatMaroePrefix", (-258)),
   ("EatFido", (-257)),
   ("Reserved", 0),
   ("Iss", 1),
   ("Sub", 2),
   ("Aud", 3),
   ("Exp", 4),
   ("Nbf", 5),
   ("Iat", 6),
   ("Cti", 7),
   ("Cnf", 8),
   ("Scope", 9),
   ("AceProfile", 38),
   ("CNonce", 39),
   ("Exi", 40)]

/-- registries with a private-use range: integers below this bound are private use (RFC 8152 §16, RFC 8392 §9.1: "less than -65536"). -/
def privateUseBelow : Int := -65536
def privateRegistries : List String := ["HeaderParameter", "Algorithm", "EllipticCurve", "CwtClaimName"]

end Coset.Ref
