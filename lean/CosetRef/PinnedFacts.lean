/- PINNED facts of the unchanged tree (copied from pinned/CosetGen by vlib/mkpinned.py): the reference the regenerated
   inventories (CosetGen, rewritten from /repo/src on every run) are compared with in CosetProofs/Ties.lean. -/
namespace Coset.Pinned

/-! F2: context strings as UTF-8 bytes, one definition per match arm of `text()` -/
def ctx_SignatureContext_CoseSignature : List UInt8 := [83, 105, 103, 110, 97, 116, 117, 114, 101]
def ctx_SignatureContext_CoseSign1 : List UInt8 := [83, 105, 103, 110, 97, 116, 117, 114, 101, 49]
def ctx_SignatureContext_CounterSignature : List UInt8 := [67, 111, 117, 110, 116, 101, 114, 83, 105, 103, 110, 97, 116, 117, 114, 101]
def ctxVariants_SignatureContext : List String := ["CoseSignature", "CoseSign1", "CounterSignature"]
def ctx_MacContext_CoseMac : List UInt8 := [77, 65, 67]
def ctx_MacContext_CoseMac0 : List UInt8 := [77, 65, 67, 48]
def ctxVariants_MacContext : List String := ["CoseMac", "CoseMac0"]
def ctx_EncryptionContext_CoseEncrypt : List UInt8 := [69, 110, 99, 114, 121, 112, 116]
def ctx_EncryptionContext_CoseEncrypt0 : List UInt8 := [69, 110, 99, 114, 121, 112, 116, 48]
def ctx_EncryptionContext_EncRecipient : List UInt8 := [69, 110, 99, 95, 82, 101, 99, 105, 112, 105, 101, 110, 116]
def ctx_EncryptionContext_MacRecipient : List UInt8 := [77, 97, 99, 95, 82, 101, 99, 105, 112, 105, 101, 110, 116]
def ctx_EncryptionContext_RecRecipient : List UInt8 := [82, 101, 99, 95, 82, 101, 99, 105, 112, 105, 101, 110, 116]
def ctxVariants_EncryptionContext : List String := ["CoseEncrypt", "CoseEncrypt0", "EncRecipient", "MacRecipient", "RecRecipient"]

/-- F3: (type, fn, structure function, context argument) -/
def contextRouting : List (String × String × String × String) :=
  [("CoseSign", "tbs_data", "sig_structure_data", "SignatureContext::CoseSignature"),
   ("CoseSign", "tbs_detached_data", "sig_structure_data", "SignatureContext::CoseSignature"),
   ("CoseSign1", "tbs_data", "sig_structure_data", "SignatureContext::CoseSign1"),
   ("CoseSign1", "tbs_detached_data", "sig_structure_data", "SignatureContext::CoseSign1"),
   ("CoseMac", "tbm", "mac_structure_data", "MacContext::CoseMac"),
   ("CoseMac0", "tbm", "mac_structure_data", "MacContext::CoseMac0"),
   ("CoseRecipient", "decrypt", "enc_structure_data", "context"),
   ("CoseRecipientBuilder", "aad", "enc_structure_data", "context"),
   ("CoseEncrypt", "decrypt", "enc_structure_data", "EncryptionContext::CoseEncrypt"),
   ("CoseEncryptBuilder", "create_ciphertext", "enc_structure_data", "EncryptionContext::CoseEncrypt"),
   ("CoseEncryptBuilder", "try_create_ciphertext", "enc_structure_data", "EncryptionContext::CoseEncrypt"),
   ("CoseEncrypt0", "decrypt", "enc_structure_data", "EncryptionContext::CoseEncrypt0"),
   ("CoseEncrypt0Builder", "create_ciphertext", "enc_structure_data", "EncryptionContext::CoseEncrypt0"),
   ("CoseEncrypt0Builder", "try_create_ciphertext", "enc_structure_data", "EncryptionContext::CoseEncrypt0")]
def recipientGuards : List (List String) := [["EncRecipient", "MacRecipient", "RecRecipient"], ["EncRecipient", "MacRecipient", "RecRecipient"]]

/-! F4: `const TAG` of each TaggedCborSerializable impl, resolved through the CborTag table -/
def TAG_CoseSign : Nat := 98
def TAG_CoseSign1 : Nat := 18
def TAG_CoseMac : Nat := 97
def TAG_CoseMac0 : Nat := 17
def TAG_CoseEncrypt : Nat := 96
def TAG_CoseEncrypt0 : Nat := 16
def tagVariants : List (String × String) := [("CoseSign", "CoseSign"), ("CoseSign1", "CoseSign1"), ("CoseMac", "CoseMac"), ("CoseMac0", "CoseMac0"), ("CoseEncrypt", "CoseEncrypt"), ("CoseEncrypt0", "CoseEncrypt0")]

/-! F5: label constants resolved through the registries -/
def header_ALG : Int := 1
def header_ALG_idx : Nat := 1
def header_CRIT : Int := 2
def header_CRIT_idx : Nat := 2
def header_CONTENT_TYPE : Int := 3
def header_CONTENT_TYPE_idx : Nat := 3
def header_KID : Int := 4
def header_KID_idx : Nat := 4
def header_IV : Int := 5
def header_IV_idx : Nat := 5
def header_PARTIAL_IV : Int := 6
def header_PARTIAL_IV_idx : Nat := 6
def header_COUNTER_SIG : Int := 7
def header_COUNTER_SIG_idx : Nat := 7
def key_KTY : Int := 1
def key_KTY_idx : Nat := 1
def key_KID : Int := 2
def key_KID_idx : Nat := 2
def key_ALG : Int := 3
def key_ALG_idx : Nat := 3
def key_KEY_OPS : Int := 4
def key_KEY_OPS_idx : Nat := 4
def key_BASE_IV : Int := 5
def key_BASE_IV_idx : Nat := 5
def cwt_ISS : Int := 1
def cwt_ISS_idx : Nat := 5
def cwt_SUB : Int := 2
def cwt_SUB_idx : Nat := 6
def cwt_AUD : Int := 3
def cwt_AUD_idx : Nat := 7
def cwt_EXP : Int := 4
def cwt_EXP_idx : Nat := 8
def cwt_NBF : Int := 5
def cwt_NBF_idx : Nat := 9
def cwt_IAT : Int := 6
def cwt_IAT_idx : Nat := 10
def cwt_CTI : Int := 7
def cwt_CTI_idx : Nat := 11
def labelConsts : List (String × String × String × String) :=
  [("header", "ALG", "HeaderParameter", "Alg"),
   ("header", "CRIT", "HeaderParameter", "Crit"),
   ("header", "CONTENT_TYPE", "HeaderParameter", "ContentType"),
   ("header", "KID", "HeaderParameter", "Kid"),
   ("header", "IV", "HeaderParameter", "Iv"),
   ("header", "PARTIAL_IV", "HeaderParameter", "PartialIv"),
   ("header", "COUNTER_SIG", "HeaderParameter", "CounterSignature"),
   ("key", "KTY", "KeyParameter", "Kty"),
   ("key", "KID", "KeyParameter", "Kid"),
   ("key", "ALG", "KeyParameter", "Alg"),
   ("key", "KEY_OPS", "KeyParameter", "KeyOps"),
   ("key", "BASE_IV", "KeyParameter", "BaseIv"),
   ("cwt", "ISS", "CwtClaimName", "Iss"),
   ("cwt", "SUB", "CwtClaimName", "Sub"),
   ("cwt", "AUD", "CwtClaimName", "Aud"),
   ("cwt", "EXP", "CwtClaimName", "Exp"),
   ("cwt", "NBF", "CwtClaimName", "Nbf"),
   ("cwt", "IAT", "CwtClaimName", "Iat"),
   ("cwt", "CTI", "CwtClaimName", "Cti")]

/-! F6: arity test, positional removes and emitted field order of every array-shaped structure -/
/-- the condition under which `CoseSignature::from_cbor_value` rejects an array of length `n` -/
def CoseSignature_arityBad (n : Nat) : Bool := (n != 3)
def CoseSignature_removes : List Nat := [2, 1, 0]
def CoseSignature_removeFields : List (String × String) := [("2", "signature"), ("1", "unprotected"), ("0", "protected")]
def CoseSignature_emitOrder : List String := ["protected", "unprotected", "signature"]
/-- the condition under which `CoseSign::from_cbor_value` rejects an array of length `n` -/
def CoseSign_arityBad (n : Nat) : Bool := (n != 4)
def CoseSign_removes : List Nat := [3, 2, 1, 0]
def CoseSign_removeFields : List (String × String) := [("3", "signatures"), ("2", "payload"), ("1", "unprotected"), ("0", "protected")]
def CoseSign_emitOrder : List String := ["protected", "unprotected", "payload", "signatures"]
/-- the condition under which `CoseSign1::from_cbor_value` rejects an array of length `n` -/
def CoseSign1_arityBad (n : Nat) : Bool := (n != 4)
def CoseSign1_removes : List Nat := [3, 2, 1, 0]
def CoseSign1_removeFields : List (String × String) := [("3", "signature"), ("2", "payload"), ("1", "unprotected"), ("0", "protected")]
def CoseSign1_emitOrder : List String := ["protected", "unprotected", "payload", "signature"]
/-- the condition under which `CoseMac::from_cbor_value` rejects an array of length `n` -/
def CoseMac_arityBad (n : Nat) : Bool := (n != 5)
def CoseMac_removes : List Nat := [4, 3, 2, 1, 0]
def CoseMac_removeFields : List (String × String) := [("4", "recipients"), ("3", "tag"), ("2", "payload"), ("1", "unprotected"), ("0", "protected")]
def CoseMac_emitOrder : List String := ["protected", "unprotected", "payload", "tag", "recipients"]
/-- the condition under which `CoseMac0::from_cbor_value` rejects an array of length `n` -/
def CoseMac0_arityBad (n : Nat) : Bool := (n != 4)
def CoseMac0_removes : List Nat := [3, 2, 1, 0]
def CoseMac0_removeFields : List (String × String) := [("3", "tag"), ("2", "payload"), ("1", "unprotected"), ("0", "protected")]
def CoseMac0_emitOrder : List String := ["protected", "unprotected", "payload", "tag"]
/-- the condition under which `CoseRecipient::from_cbor_value` rejects an array of length `n` -/
def CoseRecipient_arityBad (n : Nat) : Bool := (n != 3) && (n != 4)
def CoseRecipient_removes : List Nat := [3, 2, 1, 0]
def CoseRecipient_removeFields : List (String × String) := [("3", "recipients"), ("2", "ciphertext"), ("1", "unprotected"), ("0", "protected")]
def CoseRecipient_emitOrder : List String := ["protected", "unprotected", "ciphertext", "recipients"]
/-- the condition under which `CoseEncrypt::from_cbor_value` rejects an array of length `n` -/
def CoseEncrypt_arityBad (n : Nat) : Bool := (n != 4)
def CoseEncrypt_removes : List Nat := [3, 2, 1, 0]
def CoseEncrypt_removeFields : List (String × String) := [("3", "recipients"), ("2", "ciphertext"), ("1", "unprotected"), ("0", "protected")]
def CoseEncrypt_emitOrder : List String := ["protected", "unprotected", "ciphertext", "recipients"]
/-- the condition under which `CoseEncrypt0::from_cbor_value` rejects an array of length `n` -/
def CoseEncrypt0_arityBad (n : Nat) : Bool := (n != 3)
def CoseEncrypt0_removes : List Nat := [2, 1, 0]
def CoseEncrypt0_removeFields : List (String × String) := [("2", "ciphertext"), ("1", "unprotected"), ("0", "protected")]
def CoseEncrypt0_emitOrder : List String := ["protected", "unprotected", "ciphertext"]
/-- the condition under which `PartyInfo::from_cbor_value` rejects an array of length `n` -/
def PartyInfo_arityBad (n : Nat) : Bool := (n != 3)
def PartyInfo_removes : List Nat := [2, 1, 0]
def PartyInfo_removeFields : List (String × String) := [("2", "other"), ("1", "nonce"), ("0", "identity")]
def PartyInfo_emitOrder : List String := ["identity", "nonce", "other"]
/-- the condition under which `SuppPubInfo::from_cbor_value` rejects an array of length `n` -/
def SuppPubInfo_arityBad (n : Nat) : Bool := (n != 2) && (n != 3)
def SuppPubInfo_removes : List Nat := [2, 1, 0]
def SuppPubInfo_removeFields : List (String × String) := [("2", "other"), ("1", "protected"), ("0", "key_data_length")]
def SuppPubInfo_emitOrder : List String := ["key_data_length", "protected", "other"]
/-- the condition under which `CoseKdfContext::from_cbor_value` rejects an array of length `n` -/
def CoseKdfContext_arityBad (n : Nat) : Bool := (decide (n < 4))
def CoseKdfContext_removes : List Nat := [3, 2, 1, 0]
def CoseKdfContext_removeFields : List (String × String) := [("i", "supp_priv_info"), ("3", "supp_pub_info"), ("2", "party_v_info"), ("1", "party_u_info"), ("0", "algorithm_id")]
def CoseKdfContext_emitOrder : List String := ["algorithm_id", "party_u_info", "party_v_info", "supp_pub_info", "supp_priv_info"]

/-- nesting budget for signatures inside headers -/
def MAX_SIGNATURE_NESTING : Nat := 16

/-! F7 -/
def headerFields : List String := ["alg", "crit", "content_type", "key_id", "iv", "partial_iv", "counter_signatures", "rest"]
def headerIsEmptyTests : List (String × String) := [("alg", "is_none"), ("crit", "is_empty"), ("content_type", "is_none"), ("key_id", "is_empty"), ("iv", "is_empty"), ("partial_iv", "is_empty"), ("counter_signatures", "is_empty"), ("rest", "is_empty")]

/-- F8: (module, fn, kind, count) for every syntactic panic site in non-test code -/
def panicSites : List (String × String × String × Nat) :=
  [("common", "Label::cmp", "unreachable", 1),
   ("common", "Label::cmp_canonical", "unwrap", 2),
   ("common", "Label::from_cbor_value", "divide", 1),
   ("common", "RegisteredLabel::from_cbor_value", "divide", 1),
   ("common", "RegisteredLabelWithPrivate::from_cbor_value", "divide", 1),
   ("context", "CoseKdfContext::from_cbor_value", "remove", 5),
   ("context", "CoseKdfContext::from_cbor_value", "sub", 1),
   ("context", "PartyInfo::from_cbor_value", "divide", 4),
   ("context", "PartyInfo::from_cbor_value", "remove", 3),
   ("context", "SuppPubInfo::from_cbor_value", "remove", 3),
   ("cwt", "ClaimsSetBuilder::claim", "panic", 1),
   ("cwt", "ClaimsSetBuilder::private_claim", "assert", 1),
   ("cwt", "Timestamp::from_cbor_value", "divide", 1),
   ("encrypt", "CoseEncrypt0::decrypt", "unwrap", 1),
   ("encrypt", "CoseEncrypt0::from_cbor_value", "remove", 3),
   ("encrypt", "CoseEncrypt::decrypt", "unwrap", 1),
   ("encrypt", "CoseEncrypt::from_cbor_value", "remove", 4),
   ("encrypt", "CoseRecipient::decrypt", "panic", 1),
   ("encrypt", "CoseRecipient::decrypt", "unwrap", 1),
   ("encrypt", "CoseRecipient::from_cbor_value", "divide", 1),
   ("encrypt", "CoseRecipient::from_cbor_value", "remove", 4),
   ("encrypt", "CoseRecipientBuilder::aad", "panic", 1),
   ("encrypt", "enc_structure_data", "expect", 1),
   ("encrypt", "enc_structure_data", "unwrap", 1),
   ("header", "Header::from_cbor_value_depth", "divide", 3),
   ("header", "Header::from_cbor_value_depth", "index", 1),
   ("header", "Header::to_cbor_value", "remove", 1),
   ("header", "HeaderBuilder::value", "panic", 1),
   ("key", "CoseKeyBuilder::param", "panic", 1),
   ("mac", "CoseMac0::from_cbor_value", "remove", 4),
   ("mac", "CoseMac0::tbm", "expect", 1),
   ("mac", "CoseMac::from_cbor_value", "remove", 5),
   ("mac", "CoseMac::tbm", "expect", 1),
   ("mac", "mac_structure_data", "expect", 1),
   ("mac", "mac_structure_data", "unwrap", 1),
   ("sign", "CoseSign1::from_cbor_value", "remove", 4),
   ("sign", "CoseSign1::tbs_detached_data", "assert", 1),
   ("sign", "CoseSign::from_cbor_value", "remove", 4),
   ("sign", "CoseSign::tbs_detached_data", "assert", 1),
   ("sign", "CoseSign::verify_detached_signature", "index", 1),
   ("sign", "CoseSign::verify_signature", "index", 1),
   ("sign", "CoseSignature::from_cbor_value_depth", "remove", 3),
   ("sign", "sig_structure_data", "expect", 2),
   ("sign", "sig_structure_data", "unwrap", 1)]

/-- F8: integer conversion sites -/
def narrowingSites : List (String × String × String × Nat) :=
  [("common", "Label::from_cbor_value", "try_into", 1),
   ("common", "Label::to_cbor_value", "from", 1),
   ("common", "RegisteredLabel::from_cbor_value", "try_into", 1),
   ("common", "RegisteredLabel::to_cbor_value", "from", 1),
   ("common", "RegisteredLabelWithPrivate::from_cbor_value", "try_into", 1),
   ("common", "RegisteredLabelWithPrivate::to_cbor_value", "from", 2),
   ("context", "PartyInfo::from_cbor_value", "try_into", 1),
   ("context", "PartyInfo::to_cbor_value", "from", 1),
   ("context", "SuppPubInfo::from_cbor_value", "try_into", 1),
   ("context", "SuppPubInfo::to_cbor_value", "from", 1),
   ("cwt", "Timestamp::from_cbor_value", "try_into", 1),
   ("cwt", "Timestamp::to_cbor_value", "from", 1),
   ("iana", "$enum_name::from_i64", "as", 1),
   ("iana", "$enum_name::to_i64", "as", 1),
   ("iana", "macro iana_registry", "as", 2),
   ("key", "CoseKeyBuilder::new_ec2_priv_key", "as", 1),
   ("key", "CoseKeyBuilder::new_ec2_pub_key", "as", 4),
   ("key", "CoseKeyBuilder::new_ec2_pub_key", "from", 1),
   ("key", "CoseKeyBuilder::new_ec2_pub_key_y_sign", "as", 4),
   ("key", "CoseKeyBuilder::new_ec2_pub_key_y_sign", "from", 1),
   ("key", "CoseKeyBuilder::new_symmetric_key", "as", 1)]

/-- F9: (module, trait, type, normalised body) -/
def serializableImpls : List (String × String × String × String) :=
  [("common", "CborSerializable", "Label", ""),
   ("common", "CborSerializable", "RegisteredLabel<T>", ""),
   ("common", "CborSerializable", "RegisteredLabelWithPrivate<T>", ""),
   ("common", "CborSerializable", "Value", ""),
   ("context", "CborSerializable", "CoseKdfContext", ""),
   ("context", "CborSerializable", "PartyInfo", ""),
   ("context", "CborSerializable", "SuppPubInfo", ""),
   ("cwt", "CborSerializable", "ClaimsSet", ""),
   ("encrypt", "CborSerializable", "CoseEncrypt", ""),
   ("encrypt", "CborSerializable", "CoseEncrypt0", ""),
   ("encrypt", "CborSerializable", "CoseRecipient", ""),
   ("encrypt", "TaggedCborSerializable", "CoseEncrypt", "const TAG : u64 = iana : : CborTag : : CoseEncrypt as u64 ;"),
   ("encrypt", "TaggedCborSerializable", "CoseEncrypt0", "const TAG : u64 = iana : : CborTag : : CoseEncrypt0 as u64 ;"),
   ("header", "CborSerializable", "Header", ""),
   ("header", "CborSerializable", "ProtectedHeader", ""),
   ("key", "CborSerializable", "CoseKey", ""),
   ("key", "CborSerializable", "CoseKeySet", ""),
   ("mac", "CborSerializable", "CoseMac", ""),
   ("mac", "CborSerializable", "CoseMac0", ""),
   ("mac", "TaggedCborSerializable", "CoseMac", "const TAG : u64 = iana : : CborTag : : CoseMac as u64 ;"),
   ("mac", "TaggedCborSerializable", "CoseMac0", "const TAG : u64 = iana : : CborTag : : CoseMac0 as u64 ;"),
   ("sign", "CborSerializable", "CoseSign", ""),
   ("sign", "CborSerializable", "CoseSign1", ""),
   ("sign", "CborSerializable", "CoseSignature", ""),
   ("sign", "TaggedCborSerializable", "CoseSign", "const TAG : u64 = iana : : CborTag : : CoseSign as u64 ;"),
   ("sign", "TaggedCborSerializable", "CoseSign1", "const TAG : u64 = iana : : CborTag : : CoseSign1 as u64 ;")]
def defaultBodies : List (String × String) :=
  [("CborSerializable::from_slice", "{ Self : : from_cbor_value ( read_to_value ( slice ) ? ) }"),
   ("CborSerializable::to_vec", "{ let mut data = Vec : : new ( ) ; cbor : : ser : : into_writer ( & self . to_cbor_value ( ) ? , & mut data ) ? ; Ok ( data ) }"),
   ("TaggedCborSerializable::from_tagged_slice", "{ let ( t , v ) = read_to_value ( slice ) ? . try_as_tag ( ) ? ; if t ! = Self : : TAG { return Err ( CoseError : : UnexpectedItem ( \" tag \" , \" other tag \" ) ) ; } Self : : from_cbor_value ( * v ) }"),
   ("TaggedCborSerializable::to_tagged_vec", "{ let mut data = Vec : : new ( ) ; cbor : : ser : : into_writer ( & Value : : Tag ( Self : : TAG , Box : : new ( self . to_cbor_value ( ) ? ) ) , & mut data , ) ? ; Ok ( data ) }"),
   ("read_to_value", "{ let value = cbor : : de : : from_reader ( & mut slice ) ? ; if slice . is_empty ( ) { Ok ( value ) } else { Err ( CoseError : : ExtraneousData ) } }")]

/-- F10 -/
def builderUses : List (String × String × String) :=
  [("ClaimsSetBuilder", "builder", "ClaimsSet"),
   ("ClaimsSetBuilder", "builder_set_optional", "audience : String"),
   ("ClaimsSetBuilder", "builder_set_optional", "cwt_id : Vec < u8 >"),
   ("ClaimsSetBuilder", "builder_set_optional", "expiration_time : Timestamp"),
   ("ClaimsSetBuilder", "builder_set_optional", "issued_at : Timestamp"),
   ("ClaimsSetBuilder", "builder_set_optional", "issuer : String"),
   ("ClaimsSetBuilder", "builder_set_optional", "not_before : Timestamp"),
   ("ClaimsSetBuilder", "builder_set_optional", "subject : String"),
   ("CoseEncrypt0Builder", "builder", "CoseEncrypt0"),
   ("CoseEncrypt0Builder", "builder_set", "unprotected : Header"),
   ("CoseEncrypt0Builder", "builder_set_optional", "ciphertext : Vec < u8 >"),
   ("CoseEncrypt0Builder", "builder_set_protected", "protected"),
   ("CoseEncryptBuilder", "builder", "CoseEncrypt"),
   ("CoseEncryptBuilder", "builder_set", "unprotected : Header"),
   ("CoseEncryptBuilder", "builder_set_optional", "ciphertext : Vec < u8 >"),
   ("CoseEncryptBuilder", "builder_set_protected", "protected"),
   ("CoseKdfContextBuilder", "builder", "CoseKdfContext"),
   ("CoseKdfContextBuilder", "builder_set", "party_u_info : PartyInfo"),
   ("CoseKdfContextBuilder", "builder_set", "party_v_info : PartyInfo"),
   ("CoseKdfContextBuilder", "builder_set", "supp_pub_info : SuppPubInfo"),
   ("CoseKeyBuilder", "builder", "CoseKey"),
   ("CoseKeyBuilder", "builder_set", "base_iv : Vec < u8 >"),
   ("CoseKeyBuilder", "builder_set", "key_id : Vec < u8 >"),
   ("CoseKeyBuilder", "builder_set", "kty : KeyType"),
   ("CoseMac0Builder", "builder", "CoseMac0"),
   ("CoseMac0Builder", "builder_set", "tag : Vec < u8 >"),
   ("CoseMac0Builder", "builder_set", "unprotected : Header"),
   ("CoseMac0Builder", "builder_set_optional", "payload : Vec < u8 >"),
   ("CoseMac0Builder", "builder_set_protected", "protected"),
   ("CoseMacBuilder", "builder", "CoseMac"),
   ("CoseMacBuilder", "builder_set", "tag : Vec < u8 >"),
   ("CoseMacBuilder", "builder_set", "unprotected : Header"),
   ("CoseMacBuilder", "builder_set_optional", "payload : Vec < u8 >"),
   ("CoseMacBuilder", "builder_set_protected", "protected"),
   ("CoseRecipientBuilder", "builder", "CoseRecipient"),
   ("CoseRecipientBuilder", "builder_set", "unprotected : Header"),
   ("CoseRecipientBuilder", "builder_set_optional", "ciphertext : Vec < u8 >"),
   ("CoseRecipientBuilder", "builder_set_protected", "protected"),
   ("CoseSign1Builder", "builder", "CoseSign1"),
   ("CoseSign1Builder", "builder_set", "signature : Vec < u8 >"),
   ("CoseSign1Builder", "builder_set", "unprotected : Header"),
   ("CoseSign1Builder", "builder_set_optional", "payload : Vec < u8 >"),
   ("CoseSign1Builder", "builder_set_protected", "protected"),
   ("CoseSignBuilder", "builder", "CoseSign"),
   ("CoseSignBuilder", "builder_set", "unprotected : Header"),
   ("CoseSignBuilder", "builder_set_optional", "payload : Vec < u8 >"),
   ("CoseSignBuilder", "builder_set_protected", "protected"),
   ("CoseSignatureBuilder", "builder", "CoseSignature"),
   ("CoseSignatureBuilder", "builder_set", "signature : Vec < u8 >"),
   ("CoseSignatureBuilder", "builder_set", "unprotected : Header"),
   ("CoseSignatureBuilder", "builder_set_protected", "protected"),
   ("HeaderBuilder", "builder", "Header"),
   ("HeaderBuilder", "builder_set", "key_id : Vec < u8 >"),
   ("PartyInfoBuilder", "builder", "PartyInfo"),
   ("PartyInfoBuilder", "builder_set_optional", "identity : Vec < u8 >"),
   ("PartyInfoBuilder", "builder_set_optional", "nonce : Nonce"),
   ("PartyInfoBuilder", "builder_set_optional", "other : Vec < u8 >"),
   ("SuppPubInfoBuilder", "builder", "SuppPubInfo"),
   ("SuppPubInfoBuilder", "builder_set", "key_data_length : u64"),
   ("SuppPubInfoBuilder", "builder_set_optional", "other : Vec < u8 >"),
   ("SuppPubInfoBuilder", "builder_set_protected", "protected")]
def builderMacros : List (String × String) :=
  [("builder", "{ ( $ otype : ty ) = > { pub fn new ( ) - > Self { Self ( < $ otype > : : default ( ) ) } pub fn build ( self ) - > $ otype { self . 0 } } ; }"),
   ("builder_set", "{ ( $ name : ident : $ ftype : ty ) = > { # [ must_use ] pub fn $ name ( mut self , $ name : $ ftype ) - > Self { self . 0 . $ name = $ name ; self } } ; }"),
   ("builder_set_optional", "{ ( $ name : ident : $ ftype : ty ) = > { # [ must_use ] pub fn $ name ( mut self , $ name : $ ftype ) - > Self { self . 0 . $ name = Some ( $ name ) ; self } } ; }"),
   ("builder_set_protected", "{ ( $ name : ident ) = > { # [ must_use ] pub fn $ name ( mut self , hdr : $ crate : : Header ) - > Self { self . 0 . $ name = $ crate : : ProtectedHeader { original_data : None , header : hdr , } ; self } } ; }")]
def builderMethods : List (String × String × String) :=
  [("ClaimsSetBuilder", "claim", "{ if name . to_i64 ( ) > = iana : : CwtClaimName : : Iss . to_i64 ( ) & & name . to_i64 ( ) < = iana : : CwtClaimName : : Cti . to_i64 ( ) { panic ! ( \" claim ( ) method used to set core claim \" ) ; } self . 0 . rest . push ( ( ClaimName : : Assigned ( name ) , value ) ) ; self }"),
   ("ClaimsSetBuilder", "private_claim", "{ assert ! ( iana : : CwtClaimName : : is_private ( id ) ) ; self . 0 . rest . push ( ( ClaimName : : PrivateUse ( id ) , value ) ) ; self }"),
   ("ClaimsSetBuilder", "text_claim", "{ self . 0 . rest . push ( ( ClaimName : : Text ( name ) , value ) ) ; self }"),
   ("CoseEncrypt0Builder", "create_ciphertext", "{ let aad = enc_structure_data ( EncryptionContext : : CoseEncrypt0 , self . 0 . protected . clone ( ) , external_aad , ) ; self . ciphertext ( cipher ( plaintext , & aad ) ) }"),
   ("CoseEncrypt0Builder", "try_create_ciphertext", "{ let aad = enc_structure_data ( EncryptionContext : : CoseEncrypt0 , self . 0 . protected . clone ( ) , external_aad , ) ; Ok ( self . ciphertext ( cipher ( plaintext , & aad ) ? ) ) }"),
   ("CoseEncryptBuilder", "add_recipient", "{ self . 0 . recipients . push ( recipient ) ; self }"),
   ("CoseEncryptBuilder", "create_ciphertext", "{ let aad = enc_structure_data ( EncryptionContext : : CoseEncrypt , self . 0 . protected . clone ( ) , external_aad , ) ; self . ciphertext ( cipher ( plaintext , & aad ) ) }"),
   ("CoseEncryptBuilder", "try_create_ciphertext", "{ let aad = enc_structure_data ( EncryptionContext : : CoseEncrypt , self . 0 . protected . clone ( ) , external_aad , ) ; Ok ( self . ciphertext ( cipher ( plaintext , & aad ) ? ) ) }"),
   ("CoseKdfContextBuilder", "add_supp_priv_info", "{ self . 0 . supp_priv_info . push ( supp_priv_info ) ; self }"),
   ("CoseKdfContextBuilder", "algorithm", "{ self . 0 . algorithm_id = Algorithm : : Assigned ( alg ) ; self }"),
   ("CoseKeyBuilder", "add_key_op", "{ self . 0 . key_ops . insert ( KeyOperation : : Assigned ( op ) ) ; self }"),
   ("CoseKeyBuilder", "algorithm", "{ self . 0 . alg = Some ( Algorithm : : Assigned ( alg ) ) ; self }"),
   ("CoseKeyBuilder", "key_type", "{ self . 0 . kty = KeyType : : Assigned ( key_type ) ; self }"),
   ("CoseKeyBuilder", "new_ec2_priv_key", "{ let mut builder = Self : : new_ec2_pub_key ( curve , x , y ) ; builder . 0 . params . push ( ( Label : : Int ( iana : : Ec2KeyParameter : : D as i64 ) , Value : : Bytes ( d ) ) ) ; builder }"),
   ("CoseKeyBuilder", "new_ec2_pub_key", "{ Self ( CoseKey { kty : KeyType : : Assigned ( iana : : KeyType : : EC2 ) , params : vec ! [ ( Label : : Int ( iana : : Ec2KeyParameter : : Crv as i64 ) , Value : : from ( curve as u64 ) , ) , ( Label : : Int ( iana : : Ec2KeyParameter : : X as i64 ) , Value : : Bytes ( x ) ) , ( Label : : Int ( iana : : Ec2KeyParameter : : Y as i64 ) , Value : : Bytes ( y ) ) , ] , . . Default : : default ( ) } ) }"),
   ("CoseKeyBuilder", "new_ec2_pub_key_y_sign", "{ Self ( CoseKey { kty : KeyType : : Assigned ( iana : : KeyType : : EC2 ) , params : vec ! [ ( Label : : Int ( iana : : Ec2KeyParameter : : Crv as i64 ) , Value : : from ( curve as u64 ) , ) , ( Label : : Int ( iana : : Ec2KeyParameter : : X as i64 ) , Value : : Bytes ( x ) ) , ( Label : : Int ( iana : : Ec2KeyParameter : : Y as i64 ) , Value : : Bool ( y_sign ) , ) , ] , . . Default : : default ( ) } ) }"),
   ("CoseKeyBuilder", "new_okp_key", "{ Self ( CoseKey { kty : KeyType : : Assigned ( iana : : KeyType : : OKP ) , . . Default : : default ( ) } ) }"),
   ("CoseKeyBuilder", "new_symmetric_key", "{ Self ( CoseKey { kty : KeyType : : Assigned ( iana : : KeyType : : Symmetric ) , params : vec ! [ ( Label : : Int ( iana : : SymmetricKeyParameter : : K as i64 ) , Value : : Bytes ( k ) , ) ] , . . Default : : default ( ) } ) }"),
   ("CoseKeyBuilder", "param", "{ if iana : : KeyParameter : : from_i64 ( label ) . is_some ( ) { panic ! ( \" param ( ) method used to set KeyParameter \" ) ; } self . 0 . params . push ( ( Label : : Int ( label ) , value ) ) ; self }"),
   ("CoseMac0Builder", "create_tag", "{ let tbm = self . 0 . tbm ( external_aad ) ; self . tag ( create ( & tbm ) ) }"),
   ("CoseMac0Builder", "try_create_tag", "{ let tbm = self . 0 . tbm ( external_aad ) ; Ok ( self . tag ( create ( & tbm ) ? ) ) }"),
   ("CoseMacBuilder", "add_recipient", "{ self . 0 . recipients . push ( recipient ) ; self }"),
   ("CoseMacBuilder", "create_tag", "{ let tbm = self . 0 . tbm ( external_aad ) ; self . tag ( create ( & tbm ) ) }"),
   ("CoseMacBuilder", "try_create_tag", "{ let tbm = self . 0 . tbm ( external_aad ) ; Ok ( self . tag ( create ( & tbm ) ? ) ) }"),
   ("CoseRecipientBuilder", "aad", "{ match context { EncryptionContext : : EncRecipient | EncryptionContext : : MacRecipient | EncryptionContext : : RecRecipient = > { } _ = > panic ! ( \" unsupported encryption context { : ? } \" , context ) , } enc_structure_data ( context , self . 0 . protected . clone ( ) , external_aad ) }"),
   ("CoseRecipientBuilder", "add_recipient", "{ self . 0 . recipients . push ( recipient ) ; self }"),
   ("CoseRecipientBuilder", "create_ciphertext", "{ let aad = self . aad ( context , external_aad ) ; self . ciphertext ( cipher ( plaintext , & aad ) ) }"),
   ("CoseRecipientBuilder", "try_create_ciphertext", "{ let aad = self . aad ( context , external_aad ) ; Ok ( self . ciphertext ( cipher ( plaintext , & aad ) ? ) ) }"),
   ("CoseSign1Builder", "create_detached_signature", "{ let sig_data = signer ( & self . 0 . tbs_detached_data ( payload , aad ) ) ; self . signature ( sig_data ) }"),
   ("CoseSign1Builder", "create_signature", "{ let sig_data = signer ( & self . 0 . tbs_data ( aad ) ) ; self . signature ( sig_data ) }"),
   ("CoseSign1Builder", "try_create_detached_signature", "{ let sig_data = signer ( & self . 0 . tbs_detached_data ( payload , aad ) ) ? ; Ok ( self . signature ( sig_data ) ) }"),
   ("CoseSign1Builder", "try_create_signature", "{ let sig_data = signer ( & self . 0 . tbs_data ( aad ) ) ? ; Ok ( self . signature ( sig_data ) ) }"),
   ("CoseSignBuilder", "add_created_signature", "{ let tbs_data = self . 0 . tbs_data ( aad , & sig ) ; sig . signature = signer ( & tbs_data ) ; self . add_signature ( sig ) }"),
   ("CoseSignBuilder", "add_detached_signature", "{ let tbs_data = self . 0 . tbs_detached_data ( payload , aad , & sig ) ; sig . signature = signer ( & tbs_data ) ; self . add_signature ( sig ) }"),
   ("CoseSignBuilder", "add_signature", "{ self . 0 . signatures . push ( sig ) ; self }"),
   ("CoseSignBuilder", "try_add_created_signature", "{ let tbs_data = self . 0 . tbs_data ( aad , & sig ) ; sig . signature = signer ( & tbs_data ) ? ; Ok ( self . add_signature ( sig ) ) }"),
   ("CoseSignBuilder", "try_add_detached_signature", "{ let tbs_data = self . 0 . tbs_detached_data ( payload , aad , & sig ) ; sig . signature = signer ( & tbs_data ) ? ; Ok ( self . add_signature ( sig ) ) }"),
   ("HeaderBuilder", "add_counter_signature", "{ self . 0 . counter_signatures . push ( sig ) ; self }"),
   ("HeaderBuilder", "add_critical", "{ self . 0 . crit . push ( RegisteredLabel : : Assigned ( param ) ) ; self }"),
   ("HeaderBuilder", "add_critical_label", "{ self . 0 . crit . push ( label ) ; self }"),
   ("HeaderBuilder", "algorithm", "{ self . 0 . alg = Some ( Algorithm : : Assigned ( alg ) ) ; self }"),
   ("HeaderBuilder", "content_format", "{ self . 0 . content_type = Some ( ContentType : : Assigned ( content_type ) ) ; self }"),
   ("HeaderBuilder", "content_type", "{ self . 0 . content_type = Some ( ContentType : : Text ( content_type ) ) ; self }"),
   ("HeaderBuilder", "iv", "{ self . 0 . iv = iv ; self . 0 . partial_iv . clear ( ) ; self }"),
   ("HeaderBuilder", "partial_iv", "{ self . 0 . partial_iv = iv ; self . 0 . iv . clear ( ) ; self }"),
   ("HeaderBuilder", "text_value", "{ self . 0 . rest . push ( ( Label : : Text ( label ) , value ) ) ; self }"),
   ("HeaderBuilder", "value", "{ if label > = iana : : HeaderParameter : : Alg . to_i64 ( ) & & label < = iana : : HeaderParameter : : CounterSignature . to_i64 ( ) { panic ! ( \" value ( ) method used to set core header parameter \" ) ; } self . 0 . rest . push ( ( Label : : Int ( label ) , value ) ) ; self }")]

/-- F11: decision budget — (module, construct or integer literal, occurrences) in non-test code -/
def decisionBudget : List (String × String × Nat) :=
  [("common", "if", 6),
   ("common", "match", 12),
   ("common", "!=", 2),
   ("common", ".cmp", 18),
   ("common", ".then", 3),
   ("common", "sml:0", 6),
   ("common", "sml:1", 12),
   ("common", "str:decode CBOR failure: {}", 1),
   ("common", "str:duplicate map key", 1),
   ("common", "str:encode CBOR failure", 1),
   ("common", "str:expected recognized IANA value", 1),
   ("common", "str:expected value in IANA or private use range", 1),
   ("common", "str:extraneous data in CBOR input", 1),
   ("common", "str:got {}, expected {}", 1),
   ("common", "str:int/tstr", 3),
   ("common", "str:other tag", 1),
   ("common", "str:out of range integer value", 1),
   ("common", "str:std", 1),
   ("common", "str:tag", 1),
   ("util", "if", 7),
   ("util", "match", 1),
   ("util", "str:array", 2),
   ("util", "str:bool", 1),
   ("util", "str:bstr", 2),
   ("util", "str:empty bstr", 1),
   ("util", "str:float", 1),
   ("util", "str:int", 2),
   ("util", "str:map", 2),
   ("util", "str:non-empty bstr", 1),
   ("util", "str:nul", 1),
   ("util", "str:other", 1),
   ("util", "str:tag", 2),
   ("util", "str:tstr", 2),
   ("header", "if", 22),
   ("header", "match", 3),
   ("header", "==", 2),
   ("header", "!=", 2),
   ("header", "<=", 1),
   ("header", ">=", 1),
   ("header", "&&", 9),
   ("header", "conv:as", 7),
   ("header", "sub", 2),
   ("header", ".contains", 2),
   ("header", "sml:0", 3),
   ("header", "sml:1", 4),
   ("header", "lit:16", 1),
   ("header", "str:IV and partial-IV specified", 1),
   ("header", "str:arbitrary text", 1),
   ("header", "str:array or bstr value", 1),
   ("header", "str:array value", 1),
   ("header", "str:empty array", 1),
   ("header", "str:empty sig array", 1),
   ("header", "str:empty tstr", 1),
   ("header", "str:leading/trailing whitespace", 1),
   ("header", "str:no leading/trailing whitespace", 1),
   ("header", "str:non-empty array", 1),
   ("header", "str:non-empty sig array", 1),
   ("header", "str:non-empty tstr", 1),
   ("header", "str:only one of IV and partial IV", 1),
   ("header", "str:text of form type/subtype", 1),
   ("header", "str:value() method used to set core header parameter", 1),
   ("header", "chr:/", 1),
   ("sign", "if", 4),
   ("sign", "match", 5),
   ("sign", "!=", 3),
   ("sign", "conv:as", 2),
   ("sign", "sml:0", 3),
   ("sign", "sml:1", 3),
   ("sign", "sml:2", 3),
   ("sign", "sml:3", 3),
   ("sign", "sml:4", 2),
   ("sign", "str:CounterSignature", 1),
   ("sign", "str:Signature", 1),
   ("sign", "str:Signature1", 1),
   ("sign", "str:array", 3),
   ("sign", "str:array with 3 items", 1),
   ("sign", "str:array with 4 items", 2),
   ("sign", "str:bstr or nil", 2),
   ("sign", "str:failed to serialize header", 2),
   ("sign", "str:map for COSE_Signature", 1),
   ("sign", "str:non-signature", 1),
   ("mac", "if", 2),
   ("mac", "match", 5),
   ("mac", "!=", 2),
   ("mac", "conv:as", 2),
   ("mac", "sml:0", 2),
   ("mac", "sml:1", 2),
   ("mac", "sml:2", 2),
   ("mac", "sml:3", 2),
   ("mac", "sml:4", 2),
   ("mac", "sml:5", 1),
   ("mac", "str:MAC", 1),
   ("mac", "str:MAC0", 1),
   ("mac", "str:array", 2),
   ("mac", "str:array with 4 items", 1),
   ("mac", "str:array with 5 items", 1),
   ("mac", "str:bstr", 2),
   ("mac", "str:failed to serialize header", 1),
   ("mac", "str:payload missing", 2),
   ("encrypt", "if", 5),
   ("encrypt", "match", 9),
   ("encrypt", "==", 1),
   ("encrypt", "!=", 4),
   ("encrypt", "&&", 1),
   ("encrypt", "conv:as", 2),
   ("encrypt", "sml:0", 3),
   ("encrypt", "sml:1", 3),
   ("encrypt", "sml:2", 3),
   ("encrypt", "sml:3", 4),
   ("encrypt", "sml:4", 3),
   ("encrypt", "str:Enc_Recipient", 1),
   ("encrypt", "str:Encrypt", 1),
   ("encrypt", "str:Encrypt0", 1),
   ("encrypt", "str:Mac_Recipient", 1),
   ("encrypt", "str:Rec_Recipient", 1),
   ("encrypt", "str:array", 3),
   ("encrypt", "str:array with 3 items", 1),
   ("encrypt", "str:array with 3 or 4 items", 1),
   ("encrypt", "str:array with 4 items", 1),
   ("encrypt", "str:bstr", 2),
   ("encrypt", "str:bstr / null", 1),
   ("encrypt", "str:failed to serialize header", 1),
   ("encrypt", "str:unsupported encryption context {:?}", 2),
   ("key", "if", 10),
   ("key", "match", 2),
   ("key", "==", 1),
   ("key", "conv:as", 15),
   ("key", ".contains", 2),
   ("key", ".cmp", 1),
   ("key", "str:empty array", 1),
   ("key", "str:mandatory kty label", 1),
   ("key", "str:no kty label", 1),
   ("key", "str:non-empty array", 1),
   ("key", "str:param() method used to set KeyParameter", 1),
   ("key", "str:repeated array entry", 1),
   ("key", "str:unique array label", 1),
   ("context", "if", 5),
   ("context", "match", 6),
   ("context", "==", 1),
   ("context", "!=", 3),
   ("context", "&&", 1),
   ("context", "lt", 1),
   ("context", "sub", 1),
   ("context", "sml:0", 3),
   ("context", "sml:1", 3),
   ("context", "sml:2", 4),
   ("context", "sml:3", 4),
   ("context", "sml:4", 2),
   ("context", "str:array", 3),
   ("context", "str:array with 2 or 3 items", 1),
   ("context", "str:array with 3 items", 1),
   ("context", "str:array with at least 4 items", 1),
   ("context", "str:bstr / int / nil", 1),
   ("context", "str:bstr / nil", 2),
   ("cwt", "if", 16),
   ("cwt", "match", 4),
   ("cwt", "==", 7),
   ("cwt", "<=", 1),
   ("cwt", ">=", 1),
   ("cwt", "&&", 1),
   ("cwt", ".contains", 1),
   ("cwt", "str:claim() method used to set core claim", 1),
   ("cwt", "str:int/float", 1),
   ("cwt", "str:map", 1),
   ("iana", "if", 1),
   ("iana", "match", 1),
   ("iana", "==", 1),
   ("iana", "conv:as", 2),
   ("iana", "lt", 4),
   ("common", "call:from_reader", 1),
   ("common", "call:into_writer", 1),
   ("common", "call:signum", 1),
   ("common", "call:then", 1),
   ("common", "call:unwrap", 1),
   ("header", "call:clear", 1),
   ("header", "call:contains", 1),
   ("header", "call:count", 1),
   ("header", "call:insert", 1),
   ("header", "call:matches", 1),
   ("header", "call:remove", 1),
   ("header", "call:trim", 1),
   ("sign", "call:expect", 1),
   ("sign", "call:into_writer", 1),
   ("sign", "call:remove", 1),
   ("sign", "call:signature", 1),
   ("sign", "call:unwrap", 1),
   ("mac", "call:expect", 1),
   ("mac", "call:into_writer", 1),
   ("mac", "call:remove", 1),
   ("mac", "call:tag", 1),
   ("mac", "call:unwrap", 1),
   ("encrypt", "call:ciphertext", 1),
   ("encrypt", "call:expect", 1),
   ("encrypt", "call:into_writer", 1),
   ("encrypt", "call:remove", 1),
   ("encrypt", "call:unwrap", 1),
   ("key", "call:contains", 1),
   ("key", "call:insert", 1),
   ("key", "call:sort_by", 1),
   ("context", "call:remove", 1),
   ("context", "call:reverse", 1),
   ("cwt", "call:contains", 1),
   ("cwt", "call:insert", 1)]

def ianaMacroHash : String := "3986b2136fa3151f"

end Coset.Pinned
