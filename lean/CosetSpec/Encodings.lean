/-
  CosetSpec.Encodings — every well-formed way of writing a CBOR data item (RFC 8949 §3), as data.

  An `E` is a *choice of encoding*: for each head the width of its argument (shortest or not), for each string, array and map
  definite or indefinite length (strings in any chunking), for each float the width, for each simple value the one- or two-byte
  form, for each integer the plain or the bignum-tag form.  `E.value` is the data-model value the encoding denotes (as ciborium
  reads it: `undefined` is `null`, floats are widened, short bignums are integers) and `E.bytes` are the bytes.  "`b` is an encoding
  of `v`" is `∃ e, e.wf ∧ e.value = v ∧ e.bytes = b`; the deterministic encoding `Cbor.enc v` is one of them.
-/
import CosetModel.Parse
namespace Coset.Spec
open Coset Coset.Cbor

/-- width of a head's argument: inside the initial byte, or in the 1 / 2 / 4 / 8 bytes that follow. -/
inductive W where
  | w0 | w1 | w2 | w4 | w8
  deriving DecidableEq, Repr, Inhabited

def W.fits : W → Nat → Prop
  | .w0, n => n < 24
  | .w1, n => n < 256
  | .w2, n => n < 65536
  | .w4, n => n < 4294967296
  | .w8, n => n < 18446744073709551616

/-- head of major type `m` with argument `n` in width `w`. -/
def headW (m : Nat) : W → Nat → Bytes
  | .w0, n => [UInt8.ofNat (m * 32 + n)]
  | .w1, n => UInt8.ofNat (m * 32 + 24) :: beN 1 n
  | .w2, n => UInt8.ofNat (m * 32 + 25) :: beN 2 n
  | .w4, n => UInt8.ofNat (m * 32 + 26) :: beN 4 n
  | .w8, n => UInt8.ofNat (m * 32 + 27) :: beN 8 n

/-- the chunks of an indefinite-length string: each a definite-length string of the same major type. -/
abbrev Chunks := List (W × Bytes)
def chunkBytes (m : Nat) : Chunks → Bytes
  | [] => []
  | (w, b) :: cs => headW m w b.length ++ b ++ chunkBytes m cs
def chunkContent : Chunks → Bytes
  | [] => []
  | (_, b) :: cs => b ++ chunkContent cs
def chunksFit : Chunks → Prop
  | [] => True
  | (w, b) :: cs => w.fits b.length ∧ chunksFit cs
def chunksUtf8 : Chunks → Prop
  | [] => True
  | (_, b) :: cs => Utf8.valid b = true ∧ chunksUtf8 cs

/-- one way of encoding one data item. -/
inductive E where
  | pos (w : W) (n : Nat)                         -- unsigned integer n
  | neg (w : W) (n : Nat)                         -- negative integer -1 - n
  | big (negative : Bool) (wt wb : W) (b : Bytes) -- tag 2 / tag 3 over a definite byte string of at most 16 bytes
  | bstr (w : W) (b : Bytes)
  | bstrI (cs : Chunks)
  | tstr (w : W) (b : Bytes)
  | tstrI (cs : Chunks)
  | f16 (n : Nat) | f32 (n : Nat) | f64 (n : Nat)
  | simple (twoByte : Bool) (n : Nat)             -- false 20, true 21, null 22, undefined 23
  | tag (w : W) (t : Nat) (e : E)
  | arr (w : Option W) (es : List E)              -- `none`: indefinite length
  | map (w : Option W) (kvs : List (E × E))
  deriving Inhabited

def simpleValue (n : Nat) : Value :=
  if n = 20 then .bool false else if n = 21 then .bool true else .null

mutual
/-- the data-model value denoted. -/
def E.value : E → Value
  | .pos _ n => .int n
  | .neg _ n => .int (-1 - (n : Int))
  | .big false _ _ b => fromU128 (beVal b)
  | .big true _ _ b => (fromNegU128 (beVal b)).getD .null
  | .bstr _ b => .bytes b
  | .bstrI cs => .bytes (chunkContent cs)
  | .tstr _ b => .text b
  | .tstrI cs => .text (chunkContent cs)
  | .f16 n => .float (UInt64.ofNat (Float.f16to64 n))
  | .f32 n => .float (UInt64.ofNat (Float.f32to64 n))
  | .f64 n => .float (UInt64.ofNat n)
  | .simple _ n => simpleValue n
  | .tag _ t e => .tag t (E.value e)
  | .arr _ es => .array (E.valueL es)
  | .map _ kvs => .map (E.valueP kvs)
def E.valueL : List E → List Value
  | [] => []
  | e :: es => E.value e :: E.valueL es
def E.valueP : List (E × E) → List (Value × Value)
  | [] => []
  | (k, v) :: kvs => (E.value k, E.value v) :: E.valueP kvs
end

mutual
/-- the bytes written. -/
def E.bytes : E → Bytes
  | .pos w n => headW 0 w n
  | .neg w n => headW 1 w n
  | .big ng wt wb b => headW 6 wt (if ng then 3 else 2) ++ headW 2 wb b.length ++ b
  | .bstr w b => headW 2 w b.length ++ b
  | .bstrI cs => 0x5f :: (chunkBytes 2 cs ++ [0xff])
  | .tstr w b => headW 3 w b.length ++ b
  | .tstrI cs => 0x7f :: (chunkBytes 3 cs ++ [0xff])
  | .f16 n => 0xf9 :: beN 2 n
  | .f32 n => 0xfa :: beN 4 n
  | .f64 n => 0xfb :: beN 8 n
  | .simple two n => if two then [0xf8, UInt8.ofNat n] else [UInt8.ofNat (224 + n)]
  | .tag w t e => headW 6 w t ++ E.bytes e
  | .arr (some w) es => headW 4 w es.length ++ E.bytesL es
  | .arr none es => 0x9f :: (E.bytesL es ++ [0xff])
  | .map (some w) kvs => headW 5 w kvs.length ++ E.bytesP kvs
  | .map none kvs => 0xbf :: (E.bytesP kvs ++ [0xff])
def E.bytesL : List E → Bytes
  | [] => []
  | e :: es => E.bytes e ++ E.bytesL es
def E.bytesP : List (E × E) → Bytes
  | [] => []
  | (k, v) :: kvs => E.bytes k ++ E.bytes v ++ E.bytesP kvs
end

/-- `tag t v` with a bignum tag over a short byte string: written with `E.big`, never with `E.tag` (the reader folds it on sight). -/
def ShortBignum (t : Nat) (v : Value) : Prop := (t = 2 ∨ t = 3) ∧ ∃ b, v = .bytes b ∧ b.length ≤ 16

mutual
/-- well-formedness of the choice: every argument fits its width, bignum strings are short (and a negative one fits `i128`),
    text chunks are valid UTF-8 one by one, float payloads fit, simple values are the four ciborium accepts. -/
def E.wf : E → Prop
  | .pos w n => w.fits n
  | .neg w n => w.fits n
  | .big ng wt wb b => wt.fits (if ng then 3 else 2) ∧ wb.fits b.length ∧ b.length ≤ 16 ∧ (ng = true → beVal b < 2 ^ 127)
  | .bstr w b => w.fits b.length
  | .bstrI cs => chunksFit cs
  | .tstr w b => w.fits b.length ∧ Utf8.valid b = true
  | .tstrI cs => chunksFit cs ∧ chunksUtf8 cs
  | .f16 n => n < 65536
  | .f32 n => n < 4294967296
  | .f64 n => n < 18446744073709551616
  | .simple _ n => 20 ≤ n ∧ n ≤ 23
  | .tag w t e => w.fits t ∧ E.wf e ∧ ¬ ShortBignum t (E.value e)
  | .arr w es => (∀ w', w = some w' → w'.fits es.length) ∧ E.wfL es
  | .map w kvs => (∀ w', w = some w' → w'.fits kvs.length) ∧ E.wfP kvs
def E.wfL : List E → Prop
  | [] => True
  | e :: es => E.wf e ∧ E.wfL es
def E.wfP : List (E × E) → Prop
  | [] => True
  | (k, v) :: kvs => E.wf k ∧ E.wf v ∧ E.wfP kvs
end

/-- `b` is a well-formed encoding of the data-model value `v`. -/
def Encodes (v : Value) (b : Bytes) : Prop := ∃ e : E, e.wf ∧ e.value = v ∧ e.bytes = b

end Coset.Spec
