/-
  CosetSpec.Structures — independent byte-level specification of RFC 8152's Sig_structure (§4.4), MAC_structure (§6.3)
  and Enc_structure (§5.3) under RFC 8949 §4.2.1 deterministic encoding.  Written from the RFCs, not from the model's
  serializer: `detHead` spells out the bytes of a shortest head.
-/
import CosetModel.Basic
namespace Coset.Spec

/-- shortest CBOR head for major type `m`, argument `n` (RFC 8949 §3, §4.2.1): the bytes written out. -/
def detHead (m n : Nat) : Bytes :=
  if n < 24 then [UInt8.ofNat (m * 32 + n)]
  else if n < 256 then [UInt8.ofNat (m * 32 + 24), UInt8.ofNat n]
  else if n < 65536 then [UInt8.ofNat (m * 32 + 25), UInt8.ofNat (n / 256), UInt8.ofNat n]
  else if n < 4294967296 then
    [UInt8.ofNat (m * 32 + 26), UInt8.ofNat (n / 16777216), UInt8.ofNat (n / 65536), UInt8.ofNat (n / 256), UInt8.ofNat n]
  else
    [UInt8.ofNat (m * 32 + 27), UInt8.ofNat (n / 72057594037927936), UInt8.ofNat (n / 281474976710656),
     UInt8.ofNat (n / 1099511627776), UInt8.ofNat (n / 4294967296), UInt8.ofNat (n / 16777216), UInt8.ofNat (n / 65536),
     UInt8.ofNat (n / 256), UInt8.ofNat n]

/-- a definite-length byte string item. -/
def bstrItem (b : Bytes) : Bytes := detHead 2 b.length ++ b

/-- `[ context : tstr, slot₁ : bstr, …, slotₙ : bstr ]`, definite lengths, shortest heads. -/
def specStruct (ctx : Bytes) (slots : List Bytes) : Bytes :=
  detHead 4 (1 + slots.length) ++ (detHead 3 ctx.length ++ ctx) ++ (slots.map bstrItem).flatten

/-- the context strings of RFC 8152 §4.4, §6.3, §5.3 as UTF-8 bytes. -/
def ctxSignature : Bytes := [83, 105, 103, 110, 97, 116, 117, 114, 101]                     -- "Signature"
def ctxSignature1 : Bytes := [83, 105, 103, 110, 97, 116, 117, 114, 101, 49]                -- "Signature1"
def ctxCounterSignature : Bytes := [67, 111, 117, 110, 116, 101, 114, 83, 105, 103, 110, 97, 116, 117, 114, 101]  -- "CounterSignature"
def ctxMAC : Bytes := [77, 65, 67]                                                          -- "MAC"
def ctxMAC0 : Bytes := [77, 65, 67, 48]                                                     -- "MAC0"
def ctxEncrypt : Bytes := [69, 110, 99, 114, 121, 112, 116]                                 -- "Encrypt"
def ctxEncrypt0 : Bytes := [69, 110, 99, 114, 121, 112, 116, 48]                            -- "Encrypt0"
def ctxEncRecipient : Bytes := [69, 110, 99, 95, 82, 101, 99, 105, 112, 105, 101, 110, 116] -- "Enc_Recipient"
def ctxMacRecipient : Bytes := [77, 97, 99, 95, 82, 101, 99, 105, 112, 105, 101, 110, 116]  -- "Mac_Recipient"
def ctxRecRecipient : Bytes := [82, 101, 99, 95, 82, 101, 99, 105, 112, 105, 101, 110, 116] -- "Rec_Recipient"

/-! the literals above are the UTF-8 of the RFC's strings (evaluated check: string literals do not reduce in the kernel). -/
#guard "Signature".toUTF8.toList == ctxSignature
#guard "Signature1".toUTF8.toList == ctxSignature1
#guard "CounterSignature".toUTF8.toList == ctxCounterSignature
#guard "MAC".toUTF8.toList == ctxMAC
#guard "MAC0".toUTF8.toList == ctxMAC0
#guard "Encrypt".toUTF8.toList == ctxEncrypt
#guard "Encrypt0".toUTF8.toList == ctxEncrypt0
#guard "Enc_Recipient".toUTF8.toList == ctxEncRecipient
#guard "Mac_Recipient".toUTF8.toList == ctxMacRecipient
#guard "Rec_Recipient".toUTF8.toList == ctxRecRecipient

end Coset.Spec
