/-
  CosetSpec.Header — declarative reading of a COSE header map (RFC 8152 §3.1): what each typed field must equal,
  in terms of lookups in the wire map, not in terms of a loop.
-/
import CosetModel.Header
namespace Coset.Spec

/-- the value stored under a label, if any (labels are pairwise distinct in an accepted map). -/
def lookupL (l : Label) (ps : List (Label × Value)) : Option Value := (ps.find? (fun p => p.1 = l)).map (·.2)

/-- the seven standard header parameters (RFC 8152 table 2: alg 1, crit 2, content type 3, kid 4, IV 5, Partial IV 6, counter signature 7). -/
def stdLabels : List Label := [.int 1, .int 2, .int 3, .int 4, .int 5, .int 6, .int 7]

/-- content type text: non-empty, no leading/trailing white space, exactly one '/'. -/
def contentTypeOk : RegLabel → Bool
  | .text t => !t.isEmpty && Utf8.isTrimmed t && Utf8.slashCount t == 1
  | .assigned _ => true

/-- `h` holds exactly what the label/value pairs `ps` say, relative to an initial header `h0`
    (`h0 = Header.default` at the API); `sigsOf` is the meaning of a counter-signature value. -/
structure HeaderOf (sigsOf : Value → Res (List CoseSignature)) (ps : List (Label × Value)) (h0 h : Header) : Prop where
  alg : match lookupL (.int 1) ps with
        | some v => ∃ a, RegLabelPriv.fromValue Reg.algorithm v = .ok a ∧ h.alg = some a
        | none => h.alg = h0.alg
  crit : match lookupL (.int 2) ps with
         | some v => ∃ a ls, v = .array a ∧ a ≠ [] ∧ mapRes (RegLabel.fromValue Reg.headerParameter) a = .ok ls ∧ h.crit = h0.crit ++ ls
         | none => h.crit = h0.crit
  contentType : match lookupL (.int 3) ps with
                | some v => ∃ ct, RegLabel.fromValue Reg.coapContentFormat v = .ok ct ∧ contentTypeOk ct = true ∧ h.contentType = some ct
                | none => h.contentType = h0.contentType
  keyId : match lookupL (.int 4) ps with
          | some v => ∃ b, v = .bytes b ∧ b ≠ [] ∧ h.keyId = b
          | none => h.keyId = h0.keyId
  iv : match lookupL (.int 5) ps with
       | some v => ∃ b, v = .bytes b ∧ b ≠ [] ∧ h.iv = b
       | none => h.iv = h0.iv
  partialIv : match lookupL (.int 6) ps with
              | some v => ∃ b, v = .bytes b ∧ b ≠ [] ∧ h.partialIv = b
              | none => h.partialIv = h0.partialIv
  counterSignatures : match lookupL (.int 7) ps with
                      | some v => ∃ ss, sigsOf v = .ok ss ∧ h.counterSignatures = h0.counterSignatures ++ ss
                      | none => h.counterSignatures = h0.counterSignatures
  rest : h.rest = h0.rest ++ ps.filter (fun p => p.1 ∉ stdLabels)

end Coset.Spec
