/-
  CosetSpec.Key — declarative reading of a COSE_Key map (RFC 8152 §7.1, table 3) and of a CWT claims set (RFC 8392 §3, §4).
-/
import CosetModel.KeyCwtContext
import CosetSpec.Header
namespace Coset.Spec

/-- the common key parameters: kty 1, kid 2, alg 3, key_ops 4, Base IV 5. -/
def keyLabels5 : List Label := [.int 1, .int 2, .int 3, .int 4, .int 5]

/-- `k` holds exactly what the pairs `ps` say, relative to `k0` (`CoseKey::default()` at the API);
    `opsOf` is the meaning of a key_ops array (insertion into an ordered set, repeats refused). -/
structure KeyOf (opsOf : List Value → List RegLabel → Res (List RegLabel)) (ps : List (Label × Value)) (k0 k : CoseKey) : Prop where
  kty : match lookupL (.int 1) ps with
        | some v => ∃ t, RegLabel.fromValue Reg.keyType v = .ok t ∧ k.kty = t
        | none => k.kty = k0.kty
  keyId : match lookupL (.int 2) ps with
          | some v => ∃ b, v = .bytes b ∧ b ≠ [] ∧ k.keyId = b
          | none => k.keyId = k0.keyId
  alg : match lookupL (.int 3) ps with
        | some v => ∃ a, RegLabelPriv.fromValue Reg.algorithm v = .ok a ∧ k.alg = some a
        | none => k.alg = k0.alg
  keyOps : match lookupL (.int 4) ps with
           | some v => ∃ a s, v = .array a ∧ opsOf a k0.keyOps = .ok s ∧ s ≠ [] ∧ k.keyOps = s
           | none => k.keyOps = k0.keyOps
  baseIv : match lookupL (.int 5) ps with
           | some v => ∃ b, v = .bytes b ∧ b ≠ [] ∧ k.baseIv = b
           | none => k.baseIv = k0.baseIv
  params : k.params = k0.params ++ ps.filter (fun p => p.1 ∉ keyLabels5)

end Coset.Spec
