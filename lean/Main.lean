/-
  Model driver: reads one operation per line (FORMS.md §3), runs the Lean model, prints one result line.
  Compiled with `lake build driver`; run by the orchestrator next to the Rust harness.
-/
import CosetModel.Forms
open Coset Coset.Sx

/-- a type of the protocol: conversions and text forms. -/
structure TyD (α : Type) where
  fromV : Value → Res α
  toV : α → Res Value
  toSx : α → Sx
  pSx : Sx → Option α
  tag : Option Nat := none
  bytesApi : Bool := true

def regByName (n : String) : Option Registry := Reg.all.find? (fun r => r.name == n)

structure AnyTy where
  α : Type
  d : TyD α

def tValue : TyD Value := { fromV := .ok, toV := .ok, toSx := valueToSx, pSx := pValue }
def tHeader : TyD Header := { fromV := hdrFromValue, toV := Header.toValue, toSx := headerToSx, pSx := pHeader }
def tSign : TyD CoseSign := { fromV := CoseSign.fromValue, toV := CoseSign.toValue, toSx := signToSx, pSx := pSign, tag := some Gen.TAG_CoseSign }
def tSign1 : TyD CoseSign1 := { fromV := CoseSign1.fromValue, toV := CoseSign1.toValue, toSx := sign1ToSx, pSx := pSign1, tag := some Gen.TAG_CoseSign1 }
def tRcp : TyD CoseRecipient := { fromV := rcpFromValue, toV := CoseRecipient.toValue, toSx := rcpToSx, pSx := pRcp }
def tEnc : TyD CoseEncrypt := { fromV := CoseEncrypt.fromValue, toV := CoseEncrypt.toValue, toSx := encToSx, pSx := pEnc, tag := some Gen.TAG_CoseEncrypt }
def tEnc0 : TyD CoseEncrypt0 := { fromV := CoseEncrypt0.fromValue, toV := CoseEncrypt0.toValue, toSx := enc0ToSx, pSx := pEnc0, tag := some Gen.TAG_CoseEncrypt0 }
def tMac : TyD CoseMac := { fromV := CoseMac.fromValue, toV := CoseMac.toValue, toSx := macToSx, pSx := pMac, tag := some Gen.TAG_CoseMac }
def tMac0 : TyD CoseMac0 := { fromV := CoseMac0.fromValue, toV := CoseMac0.toValue, toSx := mac0ToSx, pSx := pMac0, tag := some Gen.TAG_CoseMac0 }

def tyOf (name : String) : Option AnyTy :=
  match name with
  | "Value" => some ⟨_, tValue⟩
  | "Label" => some ⟨Label, { fromV := Label.fromValue, toV := Label.toValue, toSx := labelToSx, pSx := pLabel }⟩
  | "Header" => some ⟨_, tHeader⟩
  | "ProtectedHeader" => some ⟨ProtectedHeader, { fromV := ProtectedHeader.fromValue, toV := ProtectedHeader.toValue, toSx := phToSx, pSx := pPh }⟩
  | "CoseSignature" => some ⟨CoseSignature, { fromV := sigFromValue, toV := CoseSignature.toValue, toSx := sigToSx, pSx := pSig }⟩
  | "CoseSign" => some ⟨_, tSign⟩
  | "CoseSign1" => some ⟨_, tSign1⟩
  | "CoseRecipient" => some ⟨_, tRcp⟩
  | "CoseEncrypt" => some ⟨_, tEnc⟩
  | "CoseEncrypt0" => some ⟨_, tEnc0⟩
  | "CoseMac" => some ⟨_, tMac⟩
  | "CoseMac0" => some ⟨_, tMac0⟩
  | "CoseKey" => some ⟨CoseKey, { fromV := CoseKey.fromValue, toV := CoseKey.toValue, toSx := keyToSx, pSx := pKey }⟩
  | "CoseKeySet" => some ⟨(List CoseKey), { fromV := CoseKeySet.fromValue, toV := CoseKeySet.toValue, toSx := keySetToSx, pSx := pKeySet }⟩
  | "ClaimsSet" => some ⟨ClaimsSet, { fromV := ClaimsSet.fromValue, toV := ClaimsSet.toValue, toSx := claimsToSx, pSx := pClaims }⟩
  | "Timestamp" => some ⟨Timestamp, { fromV := Timestamp.fromValue, toV := Timestamp.toValue, toSx := tsToSx, pSx := pTs, bytesApi := false }⟩
  | "PartyInfo" => some ⟨PartyInfo, { fromV := PartyInfo.fromValue, toV := PartyInfo.toValue, toSx := partyToSx, pSx := pParty }⟩
  | "SuppPubInfo" => some ⟨SuppPubInfo, { fromV := SuppPubInfo.fromValue, toV := SuppPubInfo.toValue, toSx := suppToSx, pSx := pSupp }⟩
  | "CoseKdfContext" => some ⟨CoseKdfContext, { fromV := CoseKdfContext.fromValue, toV := CoseKdfContext.toValue, toSx := kdfToSx, pSx := pKdf }⟩
  | _ =>
    if name.startsWith "RegLabel:" then
      match regByName (name.drop 9).toString with
      | some R => some ⟨RegLabel, { fromV := (RegLabel.fromValue R), toV := RegLabel.toValue R, toSx := regLabelToSx R, pSx := pRegLabel R }⟩
      | none => none
    else if name.startsWith "RegLabelPriv:" then
      match regByName (name.drop 13).toString with
      | some R => if R.isPrivate.isSome then
          some ⟨RegLabelPriv, { fromV := (RegLabelPriv.fromValue R), toV := RegLabelPriv.toValue R, toSx := regLabelPrivToSx R, pSx := pRegLabelPriv R }⟩
        else none
      | none => none
    else none

def bad : List Sx := [.atom "bad-op"]
def okB (b : Bytes) : List Sx := [.atom "ok", atomB b]
def resB : Res Bytes → List Sx := resToSx atomB

/-- stage results of `chain` / `chaint`. -/
def chainOp {α : Type} (d : TyD α) (dec : Bytes → Res α) (enc : α → Res Bytes) (b : Bytes) : List Sx :=
  match dec b with
  | .ok x1 =>
    [.atom "ok", d.toSx x1] ++
    match enc x1 with
    | .ok b1 =>
      [.atom "ok", atomB b1] ++
      match dec b1 with
      | .ok x2 => [.atom "ok", d.toSx x2] ++ resB (enc x2)
      | r => resToSx d.toSx r
    | r => resB r
  | r => resToSx d.toSx r

def sigCtx : String → Option SignatureContext
  | "CoseSignature" => some .coseSignature | "CoseSign1" => some .coseSign1 | "CounterSignature" => some .counterSignature | _ => none
def macCtx : String → Option MacContext
  | "CoseMac" => some .coseMac | "CoseMac0" => some .coseMac0 | _ => none
def encCtx : String → Option EncryptionContext
  | "CoseEncrypt" => some .coseEncrypt | "CoseEncrypt0" => some .coseEncrypt0 | "EncRecipient" => some .encRecipient
  | "MacRecipient" => some .macRecipient | "RecRecipient" => some .recRecipient | _ => none
def pEncCtx : Sx → Option EncryptionContext
  | .atom s => encCtx s
  | _ => none

def u32ok (n : Nat) : Bool := n < 4294967296

/-! closures -/
inductive VRet where | ok | err (n : Nat)
def pVerifier : Sx → Option (Bytes → Bytes → (List Bytes × VRet))
  | .atom "vok" => some fun a b => ([a, b], .ok)
  | .atom s =>
    if s.startsWith "verr" then
      match natOfDecChars (s.drop 4).toString.toList with
      | some n => if u32ok n then some fun a b => ([a, b], .err n) else none
      | none => none
    else none
  | _ => none

def vretSx : VRet → Sx
  | .ok => .list [.atom "ret", .atom "ok"]
  | .err n => .list [.atom "ret", .atom "err", .atom (toString n)]

def calledSx (args : List Bytes) : Sx := .list (.atom "called" :: args.map atomB)

def verifyOut (r : Res (List Bytes × VRet)) : List Sx :=
  match r with
  | .ok (args, ret) => [calledSx args, vretSx ret]
  | _ => [.atom "panic"]

inductive CRet where | ok (b : Bytes) | err (n : Nat)
inductive CipherK where | k (b : Bytes) | cat | fail (n : Nat)
def pCipherK : Sx → Option CipherK
  | .atom "cat" => some .cat
  | .list [.atom "k", b] => (pBytes b).map .k
  | .list [.atom "fail", n] => match pNatBare n with
    | some n => if u32ok n then some (.fail n) else none
    | none => none
  | _ => none
def CipherK.run : CipherK → Bytes → Bytes → CRet
  | .k b, _, _ => .ok b
  | .cat, a, b => .ok (a ++ b)
  | .fail n, _, _ => .err n
def decryptOut (r : Res (List Bytes × CRet)) : List Sx :=
  match r with
  | .ok (args, .ok b) => [calledSx args, .list [.atom "ret", .atom "ok", atomB b]]
  | .ok (args, .err n) => [calledSx args, .list [.atom "ret", .atom "err", .atom (toString n)]]
  | _ => [.atom "panic"]

inductive SignerK where | k (b : Bytes) | echo | fail (n : Nat)
def pSignerK : Sx → Option SignerK
  | .atom "echo" => some .echo
  | .list [.atom "k", b] => (pBytes b).map .k
  | .list [.atom "fail", n] => match pNatBare n with
    | some n => if u32ok n then some (.fail n) else none
    | none => none
  | _ => none

/-! The model's builders take pure closures; to log what a closure received, the driver's closures return
    their arguments packed in front of the real result, and the driver unpacks the produced field afterwards. -/
def packArgs (args : List Bytes) : Bytes :=
  UInt8.ofNat args.length :: args.foldr (fun a acc => beN 8 a.length ++ a ++ acc) []

def unpackArgs (b : Bytes) : List Bytes × Bytes :=
  match b with
  | [] => ([], [])
  | n :: rest =>
    let rec go : Nat → Bytes → List Bytes → List Bytes × Bytes
      | 0, r, acc => (acc.reverse, r)
      | k+1, r, acc =>
        let len := beVal (r.take 8)
        let r := r.drop 8
        go k (r.drop len) (r.take len :: acc)
    go n.toNat rest []

def errPack (args : List Bytes) (n : Nat) : Nat := n + 4294967296 * beVal (1 :: packArgs args)
def errUnpack (code : Nat) : List Bytes × Nat :=
  let n := code % 4294967296
  let big := code / 4294967296
  -- bytes of `big`, dropping the leading 1
  let rec bytesOf : Nat → Nat → Bytes → Bytes
    | 0, _, acc => acc
    | f+1, v, acc => if v = 0 then acc else bytesOf f (v / 256) (UInt8.ofNat v :: acc)
  let bs := bytesOf (Nat.log2 big / 8 + 2) big []
  ((unpackArgs (bs.drop 1)).1, n)

def SignerK.plain : SignerK → Bytes → Bytes
  | .k b, a => packArgs [a] ++ b
  | .echo, a => packArgs [a] ++ a
  | .fail _, a => packArgs [a]
def SignerK.try_ : SignerK → Bytes → Except Nat Bytes
  | .k b, a => .ok (packArgs [a] ++ b)
  | .echo, a => .ok (packArgs [a] ++ a)
  | .fail n, a => .error (errPack [a] n)
def CipherK.plain : CipherK → Bytes → Bytes → Bytes
  | .k b, x, y => packArgs [x, y] ++ b
  | .cat, x, y => packArgs [x, y] ++ (x ++ y)
  | .fail _, x, y => packArgs [x, y]
def CipherK.try_ : CipherK → Bytes → Bytes → Except Nat Bytes
  | .k b, x, y => .ok (packArgs [x, y] ++ b)
  | .cat, x, y => .ok (packArgs [x, y] ++ (x ++ y))
  | .fail n, x, y => .error (errPack [x, y] n)

/-- a builder as seen by the driver. -/
structure BuilderD (σ : Type) where
  ο : Type
  init : σ
  apply : σ → ο → Step σ
  pOp : Sx → Option (ο × Bool)           -- Bool: the op runs a closure (its product must be unpacked)
  unpack : σ → σ × List Bytes            -- split the closure-produced field
  toSx : σ → Sx
  ctor : Sx → Option σ := fun _ => none  -- constructors (keys only)

def pHdr2 (f : Header → ο) : List Sx → Option (ο × Bool)
  | [h] => (pHeader h).map fun x => (f x, false)
  | _ => none
def pB1 (f : Bytes → ο) : List Sx → Option (ο × Bool)
  | [b] => (pBytes b).map fun x => (f x, false)
  | _ => none

def pHeaderOp : Sx → Option (HeaderOp × Bool)
  | .list (.atom name :: args) =>
    match name, args with
    | "key_id", [b] => (pBytes b).map fun x => (.keyId x, false)
    | "algorithm", [a] => (pVariant Reg.algorithm a).map fun k => (.algorithm k, false)
    | "add_critical", [a] => (pVariant Reg.headerParameter a).map fun k => (.addCritical k, false)
    | "add_critical_label", [l] => (pRegLabel Reg.headerParameter l).map fun x => (.addCriticalLabel x, false)
    | "content_format", [a] => (pVariant Reg.coapContentFormat a).map fun k => (.contentFormat k, false)
    | "content_type", [t] => (pText t).map fun x => (.contentType x, false)
    | "iv", [b] => (pBytes b).map fun x => (.iv x, false)
    | "partial_iv", [b] => (pBytes b).map fun x => (.partialIv x, false)
    | "add_counter_signature", [s] => (pSig s).map fun x => (.addCounterSignature x, false)
    | "value", [l, v] => match pInt l, pValue v with
      | some i, some x => if inI64 i then some (.value i x, false) else none
      | _, _ => none
    | "text_value", [l, v] => match pText l, pValue v with
      | some t, some x => some (.textValue t x, false)
      | _, _ => none
    | _, _ => none
  | _ => none

def pSignatureOp : Sx → Option (SignatureOp × Bool)
  | .list (.atom "protected" :: args) => pHdr2 .protected_ args
  | .list (.atom "unprotected" :: args) => pHdr2 .unprotected args
  | .list (.atom "signature" :: args) => pB1 .signature args
  | _ => none

def pSign1Op : Sx → Option (Sign1Op × Bool)
  | .list (.atom name :: args) =>
    match name, args with
    | "protected", _ => pHdr2 .protected_ args
    | "unprotected", _ => pHdr2 .unprotected args
    | "signature", _ => pB1 .signature args
    | "payload", _ => pB1 .payload args
    | "create_signature", [aad, s] => do some (.createSignature (← pBytes aad) (← pSignerK s).plain, true)
    | "create_detached_signature", [pl, aad, s] => do some (.createDetachedSignature (← pBytes pl) (← pBytes aad) (← pSignerK s).plain, true)
    | "try_create_signature", [aad, s] => do some (.tryCreateSignature (← pBytes aad) (← pSignerK s).try_, true)
    | "try_create_detached_signature", [pl, aad, s] => do some (.tryCreateDetachedSignature (← pBytes pl) (← pBytes aad) (← pSignerK s).try_, true)
    | _, _ => none
  | _ => none

def pSignOp : Sx → Option (SignOp × Bool)
  | .list (.atom name :: args) =>
    match name, args with
    | "protected", _ => pHdr2 .protected_ args
    | "unprotected", _ => pHdr2 .unprotected args
    | "payload", _ => pB1 .payload args
    | "add_signature", [s] => (pSig s).map fun x => (.addSignature x, false)
    | "add_created_signature", [sg, aad, s] => do some (.addCreatedSignature (← pSig sg) (← pBytes aad) (← pSignerK s).plain, true)
    | "add_detached_signature", [sg, pl, aad, s] => do some (.addDetachedSignature (← pSig sg) (← pBytes pl) (← pBytes aad) (← pSignerK s).plain, true)
    | "try_add_created_signature", [sg, aad, s] => do some (.tryAddCreatedSignature (← pSig sg) (← pBytes aad) (← pSignerK s).try_, true)
    | "try_add_detached_signature", [sg, pl, aad, s] => do some (.tryAddDetachedSignature (← pSig sg) (← pBytes pl) (← pBytes aad) (← pSignerK s).try_, true)
    | _, _ => none
  | _ => none

def pMacOp : Sx → Option (MacOp × Bool)
  | .list (.atom name :: args) =>
    match name, args with
    | "protected", _ => pHdr2 .protected_ args
    | "unprotected", _ => pHdr2 .unprotected args
    | "tag", _ => pB1 .tag args
    | "payload", _ => pB1 .payload args
    | "add_recipient", [r] => (pRcp r).map fun x => (.addRecipient x, false)
    | "create_tag", [aad, s] => do some (.createTag (← pBytes aad) (← pSignerK s).plain, true)
    | "try_create_tag", [aad, s] => do some (.tryCreateTag (← pBytes aad) (← pSignerK s).try_, true)
    | _, _ => none
  | _ => none

def pMac0Op : Sx → Option (Mac0Op × Bool)
  | .list (.atom name :: args) =>
    match name, args with
    | "protected", _ => pHdr2 .protected_ args
    | "unprotected", _ => pHdr2 .unprotected args
    | "tag", _ => pB1 .tag args
    | "payload", _ => pB1 .payload args
    | "create_tag", [aad, s] => do some (.createTag (← pBytes aad) (← pSignerK s).plain, true)
    | "try_create_tag", [aad, s] => do some (.tryCreateTag (← pBytes aad) (← pSignerK s).try_, true)
    | _, _ => none
  | _ => none

def pRecipientOp : Sx → Option (RecipientOp × Bool)
  | .list (.atom name :: args) =>
    match name, args with
    | "protected", _ => pHdr2 .protected_ args
    | "unprotected", _ => pHdr2 .unprotected args
    | "ciphertext", _ => pB1 .ciphertext args
    | "add_recipient", [r] => (pRcp r).map fun x => (.addRecipient x, false)
    | "create_ciphertext", [c, pt, aad, k] => do some (.createCiphertext (← pEncCtx c) (← pBytes pt) (← pBytes aad) (← pCipherK k).plain, true)
    | "try_create_ciphertext", [c, pt, aad, k] => do some (.tryCreateCiphertext (← pEncCtx c) (← pBytes pt) (← pBytes aad) (← pCipherK k).try_, true)
    | _, _ => none
  | _ => none

def pEncryptOp : Sx → Option (EncryptOp × Bool)
  | .list (.atom name :: args) =>
    match name, args with
    | "protected", _ => pHdr2 .protected_ args
    | "unprotected", _ => pHdr2 .unprotected args
    | "ciphertext", _ => pB1 .ciphertext args
    | "add_recipient", [r] => (pRcp r).map fun x => (.addRecipient x, false)
    | "create_ciphertext", [pt, aad, k] => do some (.createCiphertext (← pBytes pt) (← pBytes aad) (← pCipherK k).plain, true)
    | "try_create_ciphertext", [pt, aad, k] => do some (.tryCreateCiphertext (← pBytes pt) (← pBytes aad) (← pCipherK k).try_, true)
    | _, _ => none
  | _ => none

def pEncrypt0Op : Sx → Option (Encrypt0Op × Bool)
  | .list (.atom name :: args) =>
    match name, args with
    | "protected", _ => pHdr2 .protected_ args
    | "unprotected", _ => pHdr2 .unprotected args
    | "ciphertext", _ => pB1 .ciphertext args
    | "create_ciphertext", [pt, aad, k] => do some (.createCiphertext (← pBytes pt) (← pBytes aad) (← pCipherK k).plain, true)
    | "try_create_ciphertext", [pt, aad, k] => do some (.tryCreateCiphertext (← pBytes pt) (← pBytes aad) (← pCipherK k).try_, true)
    | _, _ => none
  | _ => none

def pKeyOp : Sx → Option (KeyOp × Bool)
  | .list (.atom name :: args) =>
    match name, args with
    | "kty", [t] => (pRegLabel Reg.keyType t).map fun x => (.kty x, false)
    | "key_id", _ => pB1 .keyId args
    | "base_iv", _ => pB1 .baseIv args
    | "key_type", [a] => (pVariant Reg.keyType a).map fun k => (.keyType k, false)
    | "algorithm", [a] => (pVariant Reg.algorithm a).map fun k => (.algorithm k, false)
    | "add_key_op", [a] => (pVariant Reg.keyOperation a).map fun k => (.addKeyOp k, false)
    | "param", [l, v] => match pInt l, pValue v with
      | some i, some x => if inI64 i then some (.param i x, false) else none
      | _, _ => none
    | _, _ => none
  | _ => none

def pBool : Sx → Option Bool
  | .atom "T" => some true
  | .atom "F" => some false
  | _ => none

def pKeyCtor : Sx → Option CoseKey
  | .list [.atom "new_ec2_pub_key", c, x, y] => do some (newEc2PubKey (← pVariant Reg.ellipticCurve c) (← pBytes x) (← pBytes y))
  | .list [.atom "new_ec2_pub_key_y_sign", c, x, y] => do some (newEc2PubKeyYSign (← pVariant Reg.ellipticCurve c) (← pBytes x) (← pBool y))
  | .list [.atom "new_ec2_priv_key", c, x, y, d] => do some (newEc2PrivKey (← pVariant Reg.ellipticCurve c) (← pBytes x) (← pBytes y) (← pBytes d))
  | .list [.atom "new_symmetric_key", k] => do some (newSymmetricKey (← pBytes k))
  | .list [.atom "new_okp_key"] => some newOkpKey
  | _ => none

def pClaimsOp : Sx → Option (ClaimsOp × Bool)
  | .list (.atom name :: args) =>
    match name, args with
    | "issuer", [t] => (pText t).map fun x => (.issuer x, false)
    | "subject", [t] => (pText t).map fun x => (.subject x, false)
    | "audience", [t] => (pText t).map fun x => (.audience x, false)
    | "expiration_time", [t] => (pTs t).map fun x => (.expirationTime x, false)
    | "not_before", [t] => (pTs t).map fun x => (.notBefore x, false)
    | "issued_at", [t] => (pTs t).map fun x => (.issuedAt x, false)
    | "cwt_id", _ => pB1 .cwtId args
    | "claim", [a, v] => do some (.claim (← pVariant Reg.cwtClaimName a) (← pValue v), false)
    | "text_claim", [t, v] => do some (.textClaim (← pText t) (← pValue v), false)
    | "private_claim", [i, v] => do
      let n ← pInt i
      if inI64 n then some (.privateClaim n (← pValue v), false) else none
    | _, _ => none
  | _ => none

def pPartyOp : Sx → Option (PartyOp × Bool)
  | .list [.atom "identity", b] => (pBytes b).map fun x => (.identity x, false)
  | .list [.atom "nonce", n] => (pNonce n).map fun x => (.nonce x, false)
  | .list [.atom "other", b] => (pBytes b).map fun x => (.other x, false)
  | _ => none

def pSuppOp : Sx → Option (SuppOp × Bool)
  | .list [.atom "key_data_length", n] => do
    let i ← pInt n
    if decide (0 ≤ i) && decide (i ≤ u64Max) then some (.keyDataLength i, false) else none
  | .list [.atom "protected", h] => (pHeader h).map fun x => (.protected_ x, false)
  | .list [.atom "other", b] => (pBytes b).map fun x => (.other x, false)
  | _ => none

def pKdfOp : Sx → Option (KdfOp × Bool)
  | .list [.atom "party_u_info", p] => (pParty p).map fun x => (.partyUInfo x, false)
  | .list [.atom "party_v_info", p] => (pParty p).map fun x => (.partyVInfo x, false)
  | .list [.atom "supp_pub_info", s] => (pSupp s).map fun x => (.suppPubInfo x, false)
  | .list [.atom "algorithm", a] => (pVariant Reg.algorithm a).map fun k => (.algorithm k, false)
  | .list [.atom "add_supp_priv_info", b] => (pBytes b).map fun x => (.addSuppPrivInfo x, false)
  | _ => none

def noUnpack {σ : Type} (s : σ) : σ × List Bytes := (s, [])

def unpackSign (m : CoseSign) : CoseSign × List Bytes :=
  match m.signatures.reverse with
  | [] => (m, [])
  | s :: rest =>
    let (args, real) := unpackArgs s.signature
    ({ m with signatures := (withSignature s real :: rest).reverse }, args)

def unpackCt (ct : Option Bytes) : Option Bytes × List Bytes :=
  match ct with
  | some b => let (args, real) := unpackArgs b; (some real, args)
  | none => (none, [])

structure AnyB where
  σ : Type
  B : BuilderD σ

def unpackSign1 (m : CoseSign1) : CoseSign1 × List Bytes :=
  let (args, real) := unpackArgs m.signature; ({ m with signature := real }, args)
def unpackMac (m : CoseMac) : CoseMac × List Bytes :=
  let (args, real) := unpackArgs m.tag; ({ m with tag := real }, args)
def unpackMac0 (m : CoseMac0) : CoseMac0 × List Bytes :=
  let (args, real) := unpackArgs m.tag; ({ m with tag := real }, args)
def unpackRcp (m : CoseRecipient) : CoseRecipient × List Bytes :=
  let (ct, args) := unpackCt m.ciphertext; (.mk m.protected_ m.unprotected ct m.recipients, args)
def unpackEnc (m : CoseEncrypt) : CoseEncrypt × List Bytes :=
  let (ct, args) := unpackCt m.ciphertext; ({ m with ciphertext := ct }, args)
def unpackEnc0 (m : CoseEncrypt0) : CoseEncrypt0 × List Bytes :=
  let (ct, args) := unpackCt m.ciphertext; ({ m with ciphertext := ct }, args)

def bSign : BuilderD CoseSign := { ο := SignOp, init := CoseSign.default, apply := SignOp.apply, pOp := pSignOp, unpack := unpackSign, toSx := signToSx }
def bSign1 : BuilderD CoseSign1 := { ο := Sign1Op, init := CoseSign1.default, apply := Sign1Op.apply, pOp := pSign1Op, unpack := unpackSign1, toSx := sign1ToSx }
def bMac : BuilderD CoseMac := { ο := MacOp, init := CoseMac.default, apply := MacOp.apply, pOp := pMacOp, unpack := unpackMac, toSx := macToSx }
def bMac0 : BuilderD CoseMac0 := { ο := Mac0Op, init := CoseMac0.default, apply := Mac0Op.apply, pOp := pMac0Op, unpack := unpackMac0, toSx := mac0ToSx }
def bRcp : BuilderD CoseRecipient := { ο := RecipientOp, init := CoseRecipient.default, apply := RecipientOp.apply, pOp := pRecipientOp, unpack := unpackRcp, toSx := rcpToSx }
def bEnc : BuilderD CoseEncrypt := { ο := EncryptOp, init := CoseEncrypt.default, apply := EncryptOp.apply, pOp := pEncryptOp, unpack := unpackEnc, toSx := encToSx }
def bEnc0 : BuilderD CoseEncrypt0 := { ο := Encrypt0Op, init := CoseEncrypt0.default, apply := Encrypt0Op.apply, pOp := pEncrypt0Op, unpack := unpackEnc0, toSx := enc0ToSx }

def builderOf (name : String) : Option AnyB :=
  match name with
  | "HeaderBuilder" => some ⟨Header, { ο := HeaderOp, init := Header.default, apply := HeaderOp.apply, pOp := pHeaderOp, unpack := noUnpack, toSx := headerToSx }⟩
  | "CoseSignatureBuilder" => some ⟨CoseSignature, { ο := SignatureOp, init := CoseSignature.default, apply := SignatureOp.apply, pOp := pSignatureOp, unpack := noUnpack, toSx := sigToSx }⟩
  | "CoseSignBuilder" => some ⟨_, bSign⟩
  | "CoseSign1Builder" => some ⟨_, bSign1⟩
  | "CoseMacBuilder" => some ⟨_, bMac⟩
  | "CoseMac0Builder" => some ⟨_, bMac0⟩
  | "CoseRecipientBuilder" => some ⟨_, bRcp⟩
  | "CoseEncryptBuilder" => some ⟨_, bEnc⟩
  | "CoseEncrypt0Builder" => some ⟨_, bEnc0⟩
  | "CoseKeyBuilder" => some ⟨CoseKey, { ο := KeyOp, init := CoseKey.default, apply := KeyOp.apply, pOp := pKeyOp, unpack := noUnpack, toSx := keyToSx, ctor := pKeyCtor }⟩
  | "ClaimsSetBuilder" => some ⟨ClaimsSet, { ο := ClaimsOp, init := ClaimsSet.default, apply := ClaimsOp.apply, pOp := pClaimsOp, unpack := noUnpack, toSx := claimsToSx }⟩
  | "PartyInfoBuilder" => some ⟨PartyInfo, { ο := PartyOp, init := PartyInfo.default, apply := PartyOp.apply, pOp := pPartyOp, unpack := noUnpack, toSx := partyToSx }⟩
  | "SuppPubInfoBuilder" => some ⟨SuppPubInfo, { ο := SuppOp, init := SuppPubInfo.default, apply := SuppOp.apply, pOp := pSuppOp, unpack := noUnpack, toSx := suppToSx }⟩
  | "CoseKdfContextBuilder" => some ⟨CoseKdfContext, { ο := KdfOp, init := CoseKdfContext.default, apply := KdfOp.apply, pOp := pKdfOp, unpack := noUnpack, toSx := kdfToSx }⟩
  | _ => none

inductive BuildOut (σ : Type) where
  | built (s : σ) (calls : List (List Bytes))
  | panic (idx : Nat)
  | fail (idx : Nat) (n : Nat) (calls : List (List Bytes))

def callsSx (calls : List (List Bytes)) : Sx := .list (.atom "calls" :: calls.map fun c => .list (c.map atomB))

/-- parse every op first, then run them; the constructor (keys) counts as call 0. -/
def runBuild {σ : Type} (B : BuilderD σ) (ops : List Sx) : Option (BuildOut σ) :=
  let start : Option (σ × List Sx × Nat) :=
    match ops with
    | o :: rest => match B.ctor o with
      | some s => some (s, rest, 1)
      | none => some (B.init, ops, 0)
    | [] => some (B.init, [], 0)
  match start with
  | none => none
  | some (s0, ops, i0) =>
    match pList B.pOp ops with
    | none => none
    | some parsed =>
      let rec go : List (B.ο × Bool) → σ → Nat → List (List Bytes) → BuildOut σ
        | [], s, _, calls => .built s calls
        | (o, hasClosure) :: os, s, i, calls =>
          match B.apply s o with
          | .next s' =>
            if hasClosure then
              let (s'', args) := B.unpack s'
              go os s'' (i + 1) (calls ++ [args])
            else go os s' (i + 1) calls
          | .fail code =>
            let (args, n) := errUnpack code
            .fail i n (calls ++ [args])
          | .panic _ => .panic i
      some (go parsed s0 i0 [])

def buildOp (name : String) (ops : List Sx) : List Sx :=
  match builderOf name with
  | none => bad
  | some ⟨_, B⟩ =>
    match runBuild B ops with
    | none => bad
    | some (.built s calls) => [.atom "ok", B.toSx s, callsSx calls]
    | some (.panic i) => [.atom "panic", .atom (toString i)]
    | some (.fail i n calls) => [.atom "fail", .atom (toString i), .atom (toString n), callsSx calls]

/-- one stage pipeline of `flow`: build, encode, decode, check. -/
def flowRun {σ : Type} (B : BuilderD σ) (d : TyD σ) (tagged : Bool) (ops : List Sx)
    (chk : σ → Option (List Sx)) : List Sx :=
  if tagged && d.tag.isNone then bad else
  match chk B.init with      -- validate the check op before running anything
  | none => bad
  | some _ =>
    match runBuild B ops with
    | none => bad
    | some (.panic i) => [.atom "panic", .atom (toString i)]
    | some (.fail i n calls) => [.atom "fail", .atom (toString i), .atom (toString n), callsSx calls]
    | some (.built m calls) =>
      let wire := if tagged then toTaggedVec (d.tag.getD 0) d.toV m else toVec d.toV m
      match wire with
      | .err e => [callsSx calls, .atom "encerr", .atom (errKind e)]
      | .panic _ => [callsSx calls, .atom "panic"]
      | .ok w =>
        let back := if tagged then fromTaggedSlice (d.tag.getD 0) d.fromV w else fromSlice d.fromV w
        match back with
        | .err e => [callsSx calls, .list [.atom "wire", atomB w], .atom "decerr", .atom (errKind e)]
        | .panic _ => [callsSx calls, .list [.atom "wire", atomB w], .atom "panic"]
        | .ok m' =>
          match chk m' with
          | some out => [callsSx calls, .list [.atom "wire", atomB w]] ++ out
          | none => bad

def chkSign1 (c : List Sx) (m : CoseSign1) : Option (List Sx) :=
  match c with
  | [.atom "verify", aad, v] => do
    some (verifyOut (m.verifySignature (← pBytes aad) (← pVerifier v)))
  | [.atom "verifyd", pl, aad, v] => do
    some (verifyOut (m.verifyDetachedSignature (← pBytes pl) (← pBytes aad) (← pVerifier v)))
  | _ => none

def chkSign (c : List Sx) (m : CoseSign) : Option (List Sx) :=
  match c with
  | [.atom "verify", idx, aad, v] => do
    some (verifyOut (m.verifySignature (← pNatBare idx) (← pBytes aad) (← pVerifier v)))
  | [.atom "verifyd", idx, pl, aad, v] => do
    some (verifyOut (m.verifyDetachedSignature (← pNatBare idx) (← pBytes pl) (← pBytes aad) (← pVerifier v)))
  | _ => none

def chkMac (c : List Sx) (m : CoseMac) : Option (List Sx) :=
  match c with
  | [.atom "verify", aad, v] => do some (verifyOut (m.verifyTag (← pBytes aad) (← pVerifier v)))
  | _ => none
def chkMac0 (c : List Sx) (m : CoseMac0) : Option (List Sx) :=
  match c with
  | [.atom "verify", aad, v] => do some (verifyOut (m.verifyTag (← pBytes aad) (← pVerifier v)))
  | _ => none

def cipherFn (k : CipherK) : Bytes → Bytes → (List Bytes × CRet) := fun a b => ([a, b], k.run a b)

def chkEnc (c : List Sx) (m : CoseEncrypt) : Option (List Sx) :=
  match c with
  | [.atom "decrypt", aad, k] => do some (decryptOut (m.decrypt (← pBytes aad) (cipherFn (← pCipherK k))))
  | _ => none
def chkEnc0 (c : List Sx) (m : CoseEncrypt0) : Option (List Sx) :=
  match c with
  | [.atom "decrypt", aad, k] => do some (decryptOut (m.decrypt (← pBytes aad) (cipherFn (← pCipherK k))))
  | _ => none
def chkRcp (c : List Sx) (m : CoseRecipient) : Option (List Sx) :=
  match c with
  | [.atom "decrypt", ctx, aad, k] => do
    some (decryptOut (m.decrypt (← pEncCtx ctx) (← pBytes aad) (cipherFn (← pCipherK k))))
  | _ => none

def flowOp (name : String) (tagged : Bool) (ops : List Sx) (check : List Sx) : List Sx :=
  match name with
  | "CoseSign1Builder" => flowRun bSign1 tSign1 tagged ops (chkSign1 check)
  | "CoseSignBuilder" => flowRun bSign tSign tagged ops (chkSign check)
  | "CoseMacBuilder" => flowRun bMac tMac tagged ops (chkMac check)
  | "CoseMac0Builder" => flowRun bMac0 tMac0 tagged ops (chkMac0 check)
  | "CoseEncryptBuilder" => flowRun bEnc tEnc tagged ops (chkEnc check)
  | "CoseEncrypt0Builder" => flowRun bEnc0 tEnc0 tagged ops (chkEnc0 check)
  | "CoseRecipientBuilder" => flowRun bRcp tRcp tagged ops (chkRcp check)
  | _ => bad

def ordSx : Ordering → Sx
  | .lt => .atom "lt" | .eq => .atom "eq" | .gt => .atom "gt"
def boolSx (b : Bool) : Sx := .atom (if b then "T" else "F")

def cmpOut {α : Type} [DecidableEq α] (cmp : α → α → Res Ordering) (a b : α) : List Sx :=
  match cmp a b, cmp b a with
  | .ok o1, .ok o2 => [ordSx o1, boolSx (decide (a = b)), ordSx o2]
  | _, _ => [.atom "panic"]

def ianaOp (args : List Sx) : List Sx :=
  match args with
  | [.atom r, .atom "from", i] =>
    match regByName r, pInt i with
    | some R, some n =>
      if !inI64 n then bad else
      match R.fromI64 n with
      | some k => [.list [.atom "some", .atom (R.variantName k)]]
      | none => [.atom "none"]
    | _, _ => bad
  | [.atom r, .atom "to", .atom name] =>
    match regByName r with
    | some R => match R.rows.findIdx? (fun p => p.1 == name) with
      | some k => [atomI (R.toI64 k)]
      | none => bad
    | none => bad
  | [.atom r, .atom "priv", i] =>
    match regByName r, pInt i with
    | some R, some n => if R.isPrivate.isSome && inI64 n then [boolSx (R.private? n)] else bad
    | _, _ => bad
  | _ => bad

def pIntBare : Sx → Option Int
  | .atom s => intOfDecChars s.toList
  | _ => none

def ianaWin (args : List Sx) : List Sx :=
  match args with
  | [.atom r, lo, hi] =>
    match regByName r, pIntBare lo, pIntBare hi with
    | some R, some lo, some hi =>
      if !inI64 lo || !inI64 hi then bad
      else if hi - lo > 200000 then bad
      else
        let n := (hi - lo + 1).toNat
        let is : List Int := (List.range n).map fun (k : Nat) => lo + Int.ofNat k
        let hits := is.filterMap fun i => (R.fromI64 i).map fun k => Sx.list [atomI i, .atom (R.variantName k)]
        let np : Sx := match R.isPrivate with
          | some f => .atom (toString (is.filter f).length)
          | none => .atom "-"
        [.list (.atom "hits" :: hits), .list [.atom "nprivate", np]]
    | _, _, _ => bad
  | _ => bad

def withTy (name : String) (k : (α : Type) → TyD α → List Sx) : List Sx :=
  match tyOf name with
  | some ⟨α, d⟩ => k α d
  | none => bad

def runOp (items : List Sx) : List Sx :=
  match items with
  | [.atom "dec", .atom t, b] => withTy t fun _ d =>
      if !d.bytesApi then bad else match pBytes b with
      | some bs => resToSx d.toSx (fromSlice d.fromV bs)
      | none => bad
  | [.atom "dect", .atom t, b] => withTy t fun _ d =>
      match d.tag, pBytes b with
      | some tag, some bs => resToSx d.toSx (fromTaggedSlice tag d.fromV bs)
      | _, _ => bad
  | [.atom "enc", .atom t, x] => withTy t fun _ d =>
      if !d.bytesApi then bad else match d.pSx x with
      | some v => resB (toVec d.toV v)
      | none => bad
  | [.atom "enct", .atom t, x] => withTy t fun _ d =>
      match d.tag, d.pSx x with
      | some tag, some v => resB (toTaggedVec tag d.toV v)
      | _, _ => bad
  | [.atom "fromv", .atom t, v] => withTy t fun _ d =>
      match pValue v with
      | some x => resToSx d.toSx (d.fromV x)
      | none => bad
  | [.atom "tov", .atom t, x] => withTy t fun _ d =>
      match d.pSx x with
      | some v => resToSx valueToSx (d.toV v)
      | none => bad
  | [.atom "bstr", v] =>
      match pValue v with
      | some x => resToSx phToSx (phFromBstr x)
      | none => bad
  | [.atom "tobstr", p] =>
      match pPh p with
      | some x => resToSx valueToSx (ProtectedHeader.cborBstr x)
      | none => bad
  | [.atom "chain", .atom t, b] => withTy t fun _ d =>
      if !d.bytesApi then bad else match pBytes b with
      | some bs => chainOp d (fromSlice d.fromV) (toVec d.toV) bs
      | none => bad
  | [.atom "chaint", .atom t, b] => withTy t fun _ d =>
      match d.tag, pBytes b with
      | some tag, some bs => chainOp d (fromTaggedSlice tag d.fromV) (toTaggedVec tag d.toV) bs
      | _, _ => bad
  | [.atom "layer", .atom t, b] => withTy t fun _ d =>
      if !d.bytesApi then bad else match pBytes b with
      | some bs =>
        let r1 := fromSlice d.fromV bs
        let r := resToSx d.toSx r1
        match r1 with
        | .ok x => let e := resB (toVec d.toV x); r ++ r ++ e ++ e
        | _ => r ++ r
      | none => bad
  | [.atom "isempty", h] =>
      match pHeader h with
      | some x => [boolSx x.isEmpty]
      | none => bad
  | [.atom "sigstruct", .atom c, body, sign, aad, pl] =>
      match sigCtx c, pPh body, pOpt pPh sign, pBytes aad, pBytes pl with
      | some c, some b, some s, some a, some p => resB (sigStructureData c b s a p)
      | _, _, _, _, _ => bad
  | [.atom "macstruct", .atom c, prot, aad, pl] =>
      match macCtx c, pPh prot, pBytes aad, pBytes pl with
      | some c, some b, some a, some p => resB (macStructureData c b a p)
      | _, _, _, _ => bad
  | [.atom "encstruct", .atom c, prot, aad] =>
      match encCtx c, pPh prot, pBytes aad with
      | some c, some b, some a => resB (encStructureData c b a)
      | _, _, _ => bad
  | [.atom "tbs", .atom "sign1", m, aad] =>
      match pSign1 m, pBytes aad with
      | some m, some a => resB (m.tbsData a)
      | _, _ => bad
  | [.atom "tbsd", .atom "sign1", m, pl, aad] =>
      match pSign1 m, pBytes pl, pBytes aad with
      | some m, some p, some a => resB (m.tbsDetachedData p a)
      | _, _, _ => bad
  | [.atom "tbs", .atom "sign", m, aad, sg] =>
      match pSign m, pBytes aad, pSig sg with
      | some m, some a, some s => resB (m.tbsData a s)
      | _, _, _ => bad
  | [.atom "tbsd", .atom "sign", m, pl, aad, sg] =>
      match pSign m, pBytes pl, pBytes aad, pSig sg with
      | some m, some p, some a, some s => resB (m.tbsDetachedData p a s)
      | _, _, _, _ => bad
  | .atom "verify" :: .atom "sign1" :: m :: rest =>
      match pSign1 m with
      | some m => (chkSign1 (.atom "verify" :: rest) m).getD bad
      | none => bad
  | .atom "verifyd" :: .atom "sign1" :: m :: rest =>
      match pSign1 m with
      | some m => (chkSign1 (.atom "verifyd" :: rest) m).getD bad
      | none => bad
  | .atom "verify" :: .atom "sign" :: m :: rest =>
      match pSign m with
      | some m => (chkSign (.atom "verify" :: rest) m).getD bad
      | none => bad
  | .atom "verifyd" :: .atom "sign" :: m :: rest =>
      match pSign m with
      | some m => (chkSign (.atom "verifyd" :: rest) m).getD bad
      | none => bad
  | .atom "verify" :: .atom "mac" :: m :: rest =>
      match pMac m with
      | some m => (chkMac (.atom "verify" :: rest) m).getD bad
      | none => bad
  | .atom "verify" :: .atom "mac0" :: m :: rest =>
      match pMac0 m with
      | some m => (chkMac0 (.atom "verify" :: rest) m).getD bad
      | none => bad
  | .atom "decrypt" :: .atom "enc" :: m :: rest =>
      match pEnc m with
      | some m => (chkEnc (.atom "decrypt" :: rest) m).getD bad
      | none => bad
  | .atom "decrypt" :: .atom "enc0" :: m :: rest =>
      match pEnc0 m with
      | some m => (chkEnc0 (.atom "decrypt" :: rest) m).getD bad
      | none => bad
  | .atom "decrypt" :: .atom "rcp" :: m :: rest =>
      match pRcp m with
      | some m => (chkRcp (.atom "decrypt" :: rest) m).getD bad
      | none => bad
  | [.atom "cmp", .atom k, a, b] =>
      if k == "Label" then
        match pLabel a, pLabel b with
        | some x, some y => cmpOut Label.cmp x y
        | _, _ => bad
      else if k.startsWith "RegLabel:" then
        match regByName (k.drop 9).toString with
        | some R => match pRegLabel R a, pRegLabel R b with
          | some x, some y => cmpOut (RegLabel.cmp R) x y
          | _, _ => bad
        | none => bad
      else if k.startsWith "RegLabelPriv:" then
        match regByName (k.drop 13).toString with
        | some R => if R.isPrivate.isNone then bad else match pRegLabelPriv R a, pRegLabelPriv R b with
          | some x, some y => cmpOut (RegLabelPriv.cmp R) x y
          | _, _ => bad
        | none => bad
      else bad
  | [.atom "cmpc", a, b] =>
      match pLabel a, pLabel b with
      | some x, some y => match Label.cmpCanonical x y with
        | .ok o => [ordSx o]
        | _ => [.atom "panic"]
      | _, _ => bad
  | [.atom "canon", .atom o, k] =>
      match (if o == "lex" then some CborOrdering.lexicographic else if o == "len" then some .lengthFirstLexicographic else none), pKey k with
      | some ord, some key => resToSx keyToSx (key.canonicalize ord)
      | _, _ => bad
  | .atom "iana" :: args => ianaOp args
  | .atom "ianawin" :: args => ianaWin args
  | .atom "build" :: .atom b :: ops => buildOp b ops
  | [.atom "flow", .atom b, tg, .list (.atom "ops" :: ops), .list (.atom "check" :: check)] =>
      match pBool tg with
      | some t => flowOp b t ops check
      | none => bad
  | _ => bad

def processLine (line : String) : String :=
  if line.isEmpty || line.front == '#' then "skip"
  else match Sx.parseLine line with
    | some items => Sx.renderLine (runOp items)
    | none => "bad-op"

partial def loop (h : IO.FS.Stream) (out : IO.FS.Stream) : IO Unit := do
  let line ← h.getLine
  if line.isEmpty then return ()
  let line := if line.back == '\n' then (line.dropEnd 1).toString else line
  let line := if !line.isEmpty && line.back == '\r' then (line.dropEnd 1).toString else line
  out.putStrLn (processLine line)
  loop h out

def main : IO Unit := do
  let stdin ← IO.getStdin
  let stdout ← IO.getStdout
  loop stdin stdout
  stdout.flush
