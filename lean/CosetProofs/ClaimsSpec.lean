/-
  (library part of C18; the property file is Props/C18.lean)
  C18 — CWT claims sets and KDF contexts decode and encode per their definitions.
-/
import CosetProofs.ClaimsFields
import CosetProofs.Props.C15
namespace Coset.Props.C18
open Coset

/-- what an accepted claims set holds, claim by claim. -/
structure ClaimsOf (ps : List (RegLabelPriv × Value)) (c : ClaimsSet) : Prop where
  issuer : match lookupN cISS ps with | some v => ∃ t, v = .text t ∧ c.issuer = some t | none => c.issuer = none
  subject : match lookupN cSUB ps with | some v => ∃ t, v = .text t ∧ c.subject = some t | none => c.subject = none
  audience : match lookupN cAUD ps with | some v => ∃ t, v = .text t ∧ c.audience = some t | none => c.audience = none
  expirationTime : match lookupN cEXP ps with
    | some v => ∃ t, Timestamp.fromValue v = .ok t ∧ c.expirationTime = some t | none => c.expirationTime = none
  notBefore : match lookupN cNBF ps with
    | some v => ∃ t, Timestamp.fromValue v = .ok t ∧ c.notBefore = some t | none => c.notBefore = none
  issuedAt : match lookupN cIAT ps with
    | some v => ∃ t, Timestamp.fromValue v = .ok t ∧ c.issuedAt = some t | none => c.issuedAt = none
  cwtId : match lookupN cCTI ps with | some v => ∃ b, v = .bytes b ∧ c.cwtId = some b | none => c.cwtId = none
  rest : c.rest = ps.filter (fun p => p.1 ∉ typedClaims)

theorem claims_distinct : typedClaims.Pairwise (· ≠ ·) := by decide

section
macro "cl_tac" hs:ident : tactic => `(tactic|
  (have hc := claimStep_cases _ _ _ _ $hs
   have hp := claims_distinct
   simp only [typedClaims, List.pairwise_cons, List.mem_cons, List.not_mem_nil, or_false, forall_eq_or_imp, forall_eq] at hp
   cases hc <;> simp_all [typedClaims]))

theorem fr_iss (l v s s1) (hl : l ≠ cISS) (hs : claimStep s (l, v) = .ok s1) : s1.issuer = s.issuer := by cl_tac hs
theorem st_iss (v s s1) (hs : claimStep s (cISS, v) = .ok s1) : ∃ t, v = .text t ∧ s1.issuer = some t := by cl_tac hs
theorem fr_sub (l v s s1) (hl : l ≠ cSUB) (hs : claimStep s (l, v) = .ok s1) : s1.subject = s.subject := by cl_tac hs
theorem st_sub (v s s1) (hs : claimStep s (cSUB, v) = .ok s1) : ∃ t, v = .text t ∧ s1.subject = some t := by cl_tac hs
theorem fr_aud (l v s s1) (hl : l ≠ cAUD) (hs : claimStep s (l, v) = .ok s1) : s1.audience = s.audience := by cl_tac hs
theorem st_aud (v s s1) (hs : claimStep s (cAUD, v) = .ok s1) : ∃ t, v = .text t ∧ s1.audience = some t := by cl_tac hs
theorem fr_exp (l v s s1) (hl : l ≠ cEXP) (hs : claimStep s (l, v) = .ok s1) : s1.expirationTime = s.expirationTime := by cl_tac hs
theorem st_exp (v s s1) (hs : claimStep s (cEXP, v) = .ok s1) : ∃ t, Timestamp.fromValue v = .ok t ∧ s1.expirationTime = some t := by cl_tac hs
theorem fr_nbf (l v s s1) (hl : l ≠ cNBF) (hs : claimStep s (l, v) = .ok s1) : s1.notBefore = s.notBefore := by cl_tac hs
theorem st_nbf (v s s1) (hs : claimStep s (cNBF, v) = .ok s1) : ∃ t, Timestamp.fromValue v = .ok t ∧ s1.notBefore = some t := by cl_tac hs
theorem fr_iat (l v s s1) (hl : l ≠ cIAT) (hs : claimStep s (l, v) = .ok s1) : s1.issuedAt = s.issuedAt := by cl_tac hs
theorem st_iat (v s s1) (hs : claimStep s (cIAT, v) = .ok s1) : ∃ t, Timestamp.fromValue v = .ok t ∧ s1.issuedAt = some t := by cl_tac hs
theorem fr_cti (l v s s1) (hl : l ≠ cCTI) (hs : claimStep s (l, v) = .ok s1) : s1.cwtId = s.cwtId := by cl_tac hs
theorem st_cti (v s s1) (hs : claimStep s (cCTI, v) = .ok s1) : ∃ b, v = .bytes b ∧ s1.cwtId = some b := by cl_tac hs
theorem st_rest (l v s s1) (hs : claimStep s (l, v) = .ok s1) : s1.rest = s.rest ++ (if l ∉ typedClaims then [(l, v)] else []) := by cl_tac hs
end

theorem fold_rest_claims : ∀ (ps : List (RegLabelPriv × Value)) (c0 c : ClaimsSet), foldRes claimStep ps c0 = .ok c →
    c.rest = c0.rest ++ ps.filter (fun p => p.1 ∉ typedClaims) := by
  intro ps
  induction ps with
  | nil => intro c0 c hf; simp [foldRes] at hf; subst hf; simp
  | cons p ps ih =>
    intro c0 c hf
    obtain ⟨l, v⟩ := p
    simp only [foldRes] at hf
    cases hs : claimStep c0 (l, v) with
    | err e => simp [hs] at hf
    | panic q => simp [hs] at hf
    | ok c1 =>
      simp only [hs] at hf
      rw [ih c1 c hf, st_rest l v c0 c1 hs]
      by_cases hl : l ∈ typedClaims <;> simp [hl]

theorem fold_claimsOf (ps : List (RegLabelPriv × Value)) (c : ClaimsSet) (hnd : (ps.map (·.1)).Nodup)
    (hf : foldRes claimStep ps ClaimsSet.default = .ok c) : ClaimsOf ps c := by
  have A := fold_field_n claimStep ClaimsSet.issuer cISS (fun v x => ∃ t, v = .text t ∧ x = some t) fr_iss st_iss ps _ c hnd hf
  have B := fold_field_n claimStep ClaimsSet.subject cSUB (fun v x => ∃ t, v = .text t ∧ x = some t) fr_sub st_sub ps _ c hnd hf
  have C := fold_field_n claimStep ClaimsSet.audience cAUD (fun v x => ∃ t, v = .text t ∧ x = some t) fr_aud st_aud ps _ c hnd hf
  have D := fold_field_n claimStep ClaimsSet.expirationTime cEXP (fun v x => ∃ t, Timestamp.fromValue v = .ok t ∧ x = some t) fr_exp st_exp ps _ c hnd hf
  have E := fold_field_n claimStep ClaimsSet.notBefore cNBF (fun v x => ∃ t, Timestamp.fromValue v = .ok t ∧ x = some t) fr_nbf st_nbf ps _ c hnd hf
  have F := fold_field_n claimStep ClaimsSet.issuedAt cIAT (fun v x => ∃ t, Timestamp.fromValue v = .ok t ∧ x = some t) fr_iat st_iat ps _ c hnd hf
  have G := fold_field_n claimStep ClaimsSet.cwtId cCTI (fun v x => ∃ b, v = .bytes b ∧ x = some b) fr_cti st_cti ps _ c hnd hf
  simp only [ClaimsSet.default] at A B C D E F G
  refine ⟨?_, ?_, ?_, ?_, ?_, ?_, ?_, by simpa [ClaimsSet.default] using fold_rest_claims ps _ c hf⟩
  · cases hl : lookupN cISS ps <;> simp only [hl] at A ⊢ <;> exact A
  · cases hl : lookupN cSUB ps <;> simp only [hl] at B ⊢ <;> exact B
  · cases hl : lookupN cAUD ps <;> simp only [hl] at C ⊢ <;> exact C
  · cases hl : lookupN cEXP ps <;> simp only [hl] at D ⊢ <;> exact D
  · cases hl : lookupN cNBF ps <;> simp only [hl] at E ⊢ <;> exact E
  · cases hl : lookupN cIAT ps <;> simp only [hl] at F ⊢ <;> exact F
  · cases hl : lookupN cCTI ps <;> simp only [hl] at G ⊢ <;> exact G

theorem mapResLen {α β : Type} (f : α → Res β) : ∀ (xs : List α) (ys : List β), mapRes f xs = .ok ys → ys.length = xs.length := by
  intro xs; induction xs with
  | nil => intro ys h; simp [mapRes] at h; subst h; rfl
  | cons x xs ih => intro ys h; rw [mapRes_cons_ok] at h; obtain ⟨y, ys', _, h2, rfl⟩ := h; simp [ih ys' h2]

/-- C18 (claims, ⇒): an accepted claims set is a map whose keys are registered / private-use integers or text, pairwise distinct,
    with issuer/subject/audience text, the three times integers in range or floats, CWT id a byte string; every field equals its
    wire value and other claims are kept in order. -/
theorem claims_accepted_is_wellformed (v : Value) (c : ClaimsSet) (hok : ClaimsSet.fromValue v = .ok c) :
    ∃ m ns, v = .map m ∧ mapRes (RegLabelPriv.fromValue Reg.cwtClaimName) (m.map (·.1)) = .ok ns ∧ ns.Nodup ∧
      ClaimsOf (ns.zip (m.map (·.2))) c := by
  cases v with
  | map m =>
    simp only [ClaimsSet.fromValue] at hok
    rw [claimsLoop_eq_gen] at hok
    obtain ⟨ns, hns, hfr, hfold⟩ := (genLoop_ok_iff _ _ claimStep (GoodName Reg.cwtClaimName) claims_loop_hyps.1 claims_loop_hyps.2
      m ClaimsSet.default c [] (by simp)).mp hok
    have hlen : ns.length = m.length := by simpa using mapResLen _ _ _ hns
    have hnd : ((ns.zip (m.map (·.2))).map (·.1)).Nodup := by
      rw [List.map_fst_zip (by simp [hlen])]; exact hfr.1
    exact ⟨m, ns, rfl, hns, hfr.1, fold_claimsOf _ c hnd hfold⟩
  | _ => simp [ClaimsSet.fromValue, typeError] at hok

/-- a repeated claim name after an acceptable prefix: `DuplicateMapKey` (decode side of C12 for claims sets). -/
theorem claims_dup_error_kind (p q : List (Value × Value)) (k x : Value) (n : RegLabelPriv) (np : List RegLabelPriv) (cp : ClaimsSet)
    (hnp : mapRes (RegLabelPriv.fromValue Reg.cwtClaimName) (p.map (·.1)) = .ok np) (hnd : np.Nodup)
    (hfold : foldRes claimStep (np.zip (p.map (·.2))) ClaimsSet.default = .ok cp)
    (hk : RegLabelPriv.fromValue Reg.cwtClaimName k = .ok n) (hmem : n ∈ np) :
    ClaimsSet.fromValue (.map (p ++ (k, x) :: q)) = .err .duplicateMapKey := by
  simp only [ClaimsSet.fromValue, claimsLoop_eq_gen]
  exact genLoop_dup _ _ claimStep (GoodName Reg.cwtClaimName) claims_loop_hyps.1 claims_loop_hyps.2
    p ClaimsSet.default cp [] np k x n q (by simp) hnp ⟨hnd, by simp⟩ hfold hk (by simpa using hmem)

/-- timestamps: an integer gives whole seconds exactly (or out of range), a float the same bits; everything else is rejected. -/
theorem timestamp (v : Value) (t : Timestamp) : Timestamp.fromValue v = .ok t ↔
    ((∃ n, v = .int n ∧ i64Min ≤ n ∧ n ≤ i64Max ∧ t = .wholeSeconds n) ∨ (∃ b, v = .float b ∧ t = .fractionalSeconds b)) := by
  cases v <;> simp [Timestamp.fromValue, typeError]
  · rename_i n
    by_cases h : i64Min ≤ n ∧ n ≤ i64Max
    · simp [narrowI64, h]; exact eq_comm
    · simp [narrowI64, h]; intro h1 h2; exact absurd ⟨h1, h2⟩ h
  · exact eq_comm

/-- PartyInfo = [identity bstr/nil, nonce bstr/int/nil, other bstr/nil] (arity exactly 3). -/
theorem party_info (v : Value) (p : PartyInfo) : PartyInfo.fromValue v = .ok p →
    ∃ x0 x1 x2, v = .array [x0, x1, x2] ∧ nullOrBytes x0 = .ok p.identity ∧ nullOrBytes x2 = .ok p.other ∧
      ((x1 = .null ∧ p.nonce = none) ∨ (∃ b, x1 = .bytes b ∧ p.nonce = some (.bytes b)) ∨
       (∃ n, x1 = .int n ∧ i64Min ≤ n ∧ n ≤ i64Max ∧ p.nonce = some (.integer n))) := by
  intro h
  cases v with
  | array a =>
    simp only [PartyInfo.fromValue, tryAsArray, Gen.PartyInfo_arityBad] at h
    by_cases hl : a.length = 3
    · obtain ⟨x0, x1, x2, rfl⟩ := list_len3 a hl
      simp [Gen.PartyInfo_removes, vremove] at h
      cases ho : nullOrBytes x2 with
      | ok other =>
        simp only [ho] at h
        cases hi : nullOrBytes x0 with
        | ok ident =>
          cases x1 with
          | null => simp [hi] at h; subst h; exact ⟨x0, _, x2, rfl, hi, ho, Or.inl ⟨rfl, rfl⟩⟩
          | bytes b => simp [hi] at h; subst h; exact ⟨x0, _, x2, rfl, hi, ho, Or.inr (Or.inl ⟨b, rfl, rfl⟩)⟩
          | int n =>
            by_cases hr : i64Min ≤ n ∧ n ≤ i64Max
            · simp [hi, narrowI64, hr] at h; subst h; exact ⟨x0, _, x2, rfl, hi, ho, Or.inr (Or.inr ⟨n, rfl, hr.1, hr.2, rfl⟩)⟩
            · simp [narrowI64, hr] at h
          | _ => simp [typeError] at h
        | err e => cases x1 <;> simp [hi, typeError, narrowI64] at h <;> (try (split at h <;> simp at h))
        | panic q => cases x1 <;> simp [hi, typeError, narrowI64] at h <;> (try (split at h <;> simp at h))
      | err e => simp [ho] at h
      | panic q => simp [ho] at h
    · have : (a.length != 3) = true := by simpa using hl
      simp [this] at h
  | _ => simp [PartyInfo.fromValue, tryAsArray, typeError] at h

/-- the KDF context needs at least its four leading elements, and never panics on the subtraction `len - 4`. -/
theorem kdf_arity (a : List Value) (h : a.length < 4) : CoseKdfContext.fromValue (.array a) = .err .unexpectedItem := by
  simp [CoseKdfContext.fromValue, tryAsArray, Gen.CoseKdfContext_arityBad, h]

/-- non-vacuity: a claims set with every typed claim and a private one; a KDF context with and without private info. -/
example : (fromSlice ClaimsSet.fromValue [0xa3, 0x01, 0x61, 0x69, 0x04, 0x1a, 0x65, 0x53, 0xf1, 0x00, 0x3a, 0x00, 0x01, 0x00, 0x00, 0xf6]).isOk = true := by decide +kernel
example : (fromSlice CoseKdfContext.fromValue [0x84, 0x26, 0x83, 0xf6, 0xf6, 0xf6, 0x83, 0xf6, 0xf6, 0xf6, 0x82, 0x18, 0x80, 0x40]).isOk = true := by decide +kernel
example : (fromSlice CoseKdfContext.fromValue [0x83, 0x26, 0x83, 0xf6, 0xf6, 0xf6, 0x83, 0xf6, 0xf6, 0xf6]).errKind? = some .unexpectedItem := by decide +kernel


end Coset.Props.C18
