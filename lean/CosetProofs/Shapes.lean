/-
  The positional decoders of the array-shaped structures, characterised slot by slot (both directions).
-/
import CosetModel.Api
namespace Coset

theorem list_len4 {α : Type} (a : List α) (h : a.length = 4) : ∃ x0 x1 x2 x3, a = [x0, x1, x2, x3] := by
  match a, h with
  | [x0, x1, x2, x3], _ => exact ⟨x0, x1, x2, x3, rfl⟩
theorem list_len3 {α : Type} (a : List α) (h : a.length = 3) : ∃ x0 x1 x2, a = [x0, x1, x2] := by
  match a, h with
  | [x0, x1, x2], _ => exact ⟨x0, x1, x2, rfl⟩
theorem list_len5 {α : Type} (a : List α) (h : a.length = 5) : ∃ x0 x1 x2 x3 x4, a = [x0, x1, x2, x3, x4] := by
  match a, h with
  | [x0, x1, x2, x3, x4], _ => exact ⟨x0, x1, x2, x3, x4, rfl⟩
theorem list_len2 {α : Type} (a : List α) (h : a.length = 2) : ∃ x0 x1, a = [x0, x1] := by
  match a, h with
  | [x0, x1], _ => exact ⟨x0, x1, rfl⟩

theorem tryAsBytes_ok (v : Value) (b : Bytes) : tryAsBytes v = .ok b ↔ v = .bytes b := by
  cases v <;> simp [tryAsBytes, typeError]

/-- the header tail shared by all message decoders. -/
theorem headersTail_ok (x0 x1 : Value) (rest : List Value) (p : ProtectedHeader) (u : Header) :
    headersTail (x0 :: x1 :: rest) 1 0 = .ok (p, u) ↔ (phFromBstr x0 = .ok p ∧ hdrFromValue x1 = .ok u) := by
  simp only [headersTail, vremove, List.getElem?_cons_succ, List.getElem?_cons_zero, List.eraseIdx_cons_succ, List.eraseIdx_cons_zero]
  cases hu : hdrFromValue x1 with
  | ok u' =>
    simp only []
    cases hp : phFromBstr x0 with
    | ok p' => simp
    | err e => simp
    | panic q => simp
  | err e => simp
  | panic q => simp

theorem payloadTail_ok (x0 x1 x2 : Value) (rest : List Value) (p : ProtectedHeader) (u : Header) (pl : Option Bytes) :
    payloadTail (x0 :: x1 :: x2 :: rest) 2 1 0 = .ok (p, u, pl) ↔
      (phFromBstr x0 = .ok p ∧ hdrFromValue x1 = .ok u ∧ optBytes x2 = .ok pl) := by
  simp only [payloadTail, vremove, List.getElem?_cons_succ, List.getElem?_cons_zero, List.eraseIdx_cons_succ, List.eraseIdx_cons_zero]
  cases ho : optBytes x2 with
  | ok pl' =>
    simp only []
    cases ht : headersTail (x0 :: x1 :: rest) 1 0 with
    | ok pu =>
      obtain ⟨p', u'⟩ := pu
      have := (headersTail_ok x0 x1 rest p' u').mp ht
      simp [this.1, this.2]
    | err e =>
      simp only []
      constructor
      · intro h; simp at h
      · rintro ⟨h1, h2, _⟩
        have := (headersTail_ok x0 x1 rest p u).mpr ⟨h1, h2⟩
        rw [ht] at this; simp at this
    | panic q =>
      simp only []
      constructor
      · intro h; simp at h
      · rintro ⟨h1, h2, _⟩
        have := (headersTail_ok x0 x1 rest p u).mpr ⟨h1, h2⟩
        rw [ht] at this; simp at this
  | err e => simp
  | panic q => simp

/-- COSE_Sign1 = [protected bstr, unprotected map, payload bstr/nil, signature bstr] — exactly. -/
theorem sign1_ok_iff (v : Value) (m : CoseSign1) :
    CoseSign1.fromValue v = .ok m ↔
      ∃ x0 x1 x2, v = .array [x0, x1, x2, .bytes m.signature] ∧ phFromBstr x0 = .ok m.protected_ ∧
        hdrFromValue x1 = .ok m.unprotected ∧ optBytes x2 = .ok m.payload := by
  constructor
  · intro h
    cases v with
    | array a =>
      simp only [CoseSign1.fromValue, tryAsArray, Gen.CoseSign1_arityBad] at h
      by_cases hl : a.length = 4
      · obtain ⟨x0, x1, x2, x3, rfl⟩ := list_len4 a hl
        simp only [List.length_cons, List.length_nil, bne_self_eq_false, Bool.false_eq_true, if_false, Gen.CoseSign1_removes, List.getD_cons_zero,
          List.getD_cons_succ, vremove, List.getElem?_cons_succ, List.getElem?_cons_zero, List.eraseIdx_cons_succ, List.eraseIdx_cons_zero] at h
        cases hs : tryAsBytes x3 with
        | ok sig =>
          simp only [hs] at h
          cases ht : payloadTail [x0, x1, x2] 2 1 0 with
          | ok t =>
            obtain ⟨p, u, pl⟩ := t
            simp only [ht] at h
            simp at h; subst h
            obtain ⟨h1, h2, h3⟩ := (payloadTail_ok x0 x1 x2 [] p u pl).mp ht
            exact ⟨x0, x1, x2, by rw [(tryAsBytes_ok x3 sig).mp hs], h1, h2, h3⟩
          | err e => simp [ht] at h
          | panic q => simp [ht] at h
        | err e => simp [hs] at h
        | panic q => simp [hs] at h
      · have : (a.length != 4) = true := by simpa using hl
        simp [this] at h
    | _ => simp [CoseSign1.fromValue, tryAsArray, typeError] at h
  · rintro ⟨x0, x1, x2, rfl, h1, h2, h3⟩
    have ht := (payloadTail_ok x0 x1 x2 [] m.protected_ m.unprotected m.payload).mpr ⟨h1, h2, h3⟩
    simp [CoseSign1.fromValue, tryAsArray, Gen.CoseSign1_arityBad, Gen.CoseSign1_removes, vremove, tryAsBytes, ht]

end Coset

namespace Coset

/-- COSE_Mac0 = [protected, unprotected, payload bstr/nil, tag bstr]. -/
theorem mac0_ok_iff (v : Value) (m : CoseMac0) :
    CoseMac0.fromValue v = .ok m ↔
      ∃ x0 x1 x2, v = .array [x0, x1, x2, .bytes m.tag] ∧ phFromBstr x0 = .ok m.protected_ ∧
        hdrFromValue x1 = .ok m.unprotected ∧ optBytes x2 = .ok m.payload := by
  constructor
  · intro h
    cases v with
    | array a =>
      simp only [CoseMac0.fromValue, tryAsArray, Gen.CoseMac0_arityBad] at h
      by_cases hl : a.length = 4
      · obtain ⟨x0, x1, x2, x3, rfl⟩ := list_len4 a hl
        simp only [List.length_cons, List.length_nil, bne_self_eq_false, Bool.false_eq_true, if_false, Gen.CoseMac0_removes, List.getD_cons_zero,
          List.getD_cons_succ, vremove, List.getElem?_cons_succ, List.getElem?_cons_zero, List.eraseIdx_cons_succ, List.eraseIdx_cons_zero] at h
        cases hs : tryAsBytes x3 with
        | ok sig =>
          simp only [hs] at h
          cases ht : payloadTail [x0, x1, x2] 2 1 0 with
          | ok t =>
            obtain ⟨p, u, pl⟩ := t
            simp only [ht] at h
            simp at h; subst h
            obtain ⟨h1, h2, h3⟩ := (payloadTail_ok x0 x1 x2 [] p u pl).mp ht
            exact ⟨x0, x1, x2, by rw [(tryAsBytes_ok x3 sig).mp hs], h1, h2, h3⟩
          | err e => simp [ht] at h
          | panic q => simp [ht] at h
        | err e => simp [hs] at h
        | panic q => simp [hs] at h
      · have : (a.length != 4) = true := by simpa using hl
        simp [this] at h
    | _ => simp [CoseMac0.fromValue, tryAsArray, typeError] at h
  · rintro ⟨x0, x1, x2, rfl, h1, h2, h3⟩
    have ht := (payloadTail_ok x0 x1 x2 [] m.protected_ m.unprotected m.payload).mpr ⟨h1, h2, h3⟩
    simp [CoseMac0.fromValue, tryAsArray, Gen.CoseMac0_arityBad, Gen.CoseMac0_removes, vremove, tryAsBytes, ht]

/-- COSE_Encrypt0 = [protected, unprotected, ciphertext bstr/nil]. -/
theorem encrypt0_ok_iff (v : Value) (m : CoseEncrypt0) :
    CoseEncrypt0.fromValue v = .ok m ↔
      ∃ x0 x1 x2, v = .array [x0, x1, x2] ∧ phFromBstr x0 = .ok m.protected_ ∧
        hdrFromValue x1 = .ok m.unprotected ∧ optBytes x2 = .ok m.ciphertext := by
  constructor
  · intro h
    cases v with
    | array a =>
      simp only [CoseEncrypt0.fromValue, tryAsArray, Gen.CoseEncrypt0_arityBad] at h
      by_cases hl : a.length = 3
      · obtain ⟨x0, x1, x2, rfl⟩ := list_len3 a hl
        simp only [List.length_cons, List.length_nil, bne_self_eq_false, Bool.false_eq_true, if_false, Gen.CoseEncrypt0_removes, List.getD_cons_zero,
          List.getD_cons_succ] at h
        cases ht : payloadTail [x0, x1, x2] 2 1 0 with
        | ok t =>
          obtain ⟨p, u, pl⟩ := t
          simp only [ht] at h
          simp at h; subst h
          obtain ⟨h1, h2, h3⟩ := (payloadTail_ok x0 x1 x2 [] p u pl).mp ht
          exact ⟨x0, x1, x2, rfl, h1, h2, h3⟩
        | err e => simp [ht] at h
        | panic q => simp [ht] at h
      · have : (a.length != 3) = true := by simpa using hl
        simp [this] at h
    | _ => simp [CoseEncrypt0.fromValue, tryAsArray, typeError] at h
  · rintro ⟨x0, x1, x2, rfl, h1, h2, h3⟩
    have ht := (payloadTail_ok x0 x1 x2 [] m.protected_ m.unprotected m.ciphertext).mpr ⟨h1, h2, h3⟩
    simp [CoseEncrypt0.fromValue, tryAsArray, Gen.CoseEncrypt0_arityBad, Gen.CoseEncrypt0_removes, ht]

/-- COSE_Signature = [protected, unprotected, signature bstr], at any fuel / nesting budget. -/
theorem signature_ok_iff (fuel d : Nat) (v : Value) (s : CoseSignature) :
    CoseSignature.fromValue (fuel + 1) d v = .ok s ↔
      ∃ x0 x1, v = .array [x0, x1, .bytes s.signature] ∧ ProtectedHeader.fromBstr fuel d x0 = .ok s.protected_ ∧
        Header.fromValue fuel d x1 = .ok s.unprotected := by
  constructor
  · intro h
    cases v with
    | array a =>
      simp only [CoseSignature.fromValue, tryAsArray, Gen.CoseSignature_arityBad] at h
      by_cases hl : a.length = 3
      · obtain ⟨x0, x1, x2, rfl⟩ := list_len3 a hl
        simp only [List.length_cons, List.length_nil, bne_self_eq_false, Bool.false_eq_true, if_false, Gen.CoseSignature_removes, List.getD_cons_zero,
          List.getD_cons_succ, vremove, List.getElem?_cons_succ, List.getElem?_cons_zero, List.eraseIdx_cons_succ, List.eraseIdx_cons_zero] at h
        cases hs : tryAsBytes x2 with
        | ok sig =>
          simp only [hs] at h
          cases hu : Header.fromValue fuel d x1 with
          | ok u =>
            simp only [hu] at h
            cases hp : ProtectedHeader.fromBstr fuel d x0 with
            | ok p =>
              simp only [hp] at h; simp at h; subst h
              exact ⟨x0, x1, by rw [(tryAsBytes_ok x2 sig).mp hs]; rfl, hp, hu⟩
            | err e => simp [hp] at h
            | panic q => simp [hp] at h
          | err e => simp [hu] at h
          | panic q => simp [hu] at h
        | err e => simp [hs] at h
        | panic q => simp [hs] at h
      · have : (a.length != 3) = true := by simpa using hl
        simp [this] at h
    | _ => simp [CoseSignature.fromValue, tryAsArray, typeError] at h
  · rintro ⟨x0, x1, rfl, h1, h2⟩
    cases s with
    | mk p u sig =>
      simp only [CoseSignature.protected_, CoseSignature.unprotected, CoseSignature.signature] at h1 h2 ⊢
      simp [CoseSignature.fromValue, tryAsArray, Gen.CoseSignature_arityBad, Gen.CoseSignature_removes, vremove, tryAsBytes, h1, h2]

end Coset

namespace Coset

theorem tryAsArrayThenConvert_ok {α : Type} (f : Value → Res α) (v : Value) (xs : List α) :
    tryAsArrayThenConvert f v = .ok xs ↔ ∃ a, v = .array a ∧ mapRes f a = .ok xs := by
  cases v <;> simp [tryAsArrayThenConvert, tryAsArray, typeError]

/-- COSE_Sign = [protected, unprotected, payload bstr/nil, [COSE_Signature…]]; nested signatures by the signature rules. -/
theorem sign_ok_iff (v : Value) (m : CoseSign) :
    CoseSign.fromValue v = .ok m ↔
      ∃ x0 x1 x2 sigs, v = .array [x0, x1, x2, .array sigs] ∧ phFromBstr x0 = .ok m.protected_ ∧ hdrFromValue x1 = .ok m.unprotected ∧
        optBytes x2 = .ok m.payload ∧ mapRes (fun s => (sigFromValue s).mapErr .unexpectedItem) sigs = .ok m.signatures := by
  constructor
  · intro h
    cases v with
    | array a =>
      simp only [CoseSign.fromValue, tryAsArray, Gen.CoseSign_arityBad] at h
      by_cases hl : a.length = 4
      · obtain ⟨x0, x1, x2, x3, rfl⟩ := list_len4 a hl
        simp only [List.length_cons, List.length_nil, bne_self_eq_false, Bool.false_eq_true, if_false, Gen.CoseSign_removes, List.getD_cons_zero,
          List.getD_cons_succ, vremove, List.getElem?_cons_succ, List.getElem?_cons_zero, List.eraseIdx_cons_succ, List.eraseIdx_cons_zero] at h
        cases hs : tryAsArrayThenConvert (fun v => (sigFromValue v).mapErr .unexpectedItem) x3 with
        | ok ss =>
          simp only [hs] at h
          obtain ⟨sa, hx3, hm⟩ := (tryAsArrayThenConvert_ok _ x3 ss).mp hs
          cases ho : optBytes x2 with
          | ok pl =>
            simp only [ho] at h
            cases hu : hdrFromValue x1 with
            | ok u =>
              simp only [hu] at h
              cases hp : phFromBstr x0 with
              | ok p => simp only [hp] at h; simp at h; subst h; exact ⟨x0, x1, x2, sa, by rw [hx3], hp, hu, ho, hm⟩
              | err e => simp [hp] at h
              | panic q => simp [hp] at h
            | err e => simp [hu] at h
            | panic q => simp [hu] at h
          | err e => simp [ho] at h
          | panic q => simp [ho] at h
        | err e => simp [hs] at h
        | panic q => simp [hs] at h
      · have : (a.length != 4) = true := by simpa using hl
        simp [this] at h
    | _ => simp [CoseSign.fromValue, tryAsArray, typeError] at h
  · rintro ⟨x0, x1, x2, sigs, rfl, h1, h2, h3, h4⟩
    have hs := (tryAsArrayThenConvert_ok (fun v => (sigFromValue v).mapErr .unexpectedItem) (.array sigs) m.signatures).mpr ⟨sigs, rfl, h4⟩
    simp [CoseSign.fromValue, tryAsArray, Gen.CoseSign_arityBad, Gen.CoseSign_removes, vremove, hs, h1, h2, h3]

/-- COSE_Mac = [protected, unprotected, payload bstr/nil, tag bstr, [COSE_recipient…]]. -/
theorem mac_ok_iff (v : Value) (m : CoseMac) :
    CoseMac.fromValue v = .ok m ↔
      ∃ x0 x1 x2 rs, v = .array [x0, x1, x2, .bytes m.tag, .array rs] ∧ phFromBstr x0 = .ok m.protected_ ∧ hdrFromValue x1 = .ok m.unprotected ∧
        optBytes x2 = .ok m.payload ∧ mapRes rcpFromValue rs = .ok m.recipients := by
  constructor
  · intro h
    cases v with
    | array a =>
      simp only [CoseMac.fromValue, tryAsArray, Gen.CoseMac_arityBad] at h
      by_cases hl : a.length = 5
      · obtain ⟨x0, x1, x2, x3, x4, rfl⟩ := list_len5 a hl
        simp only [List.length_cons, List.length_nil, bne_self_eq_false, Bool.false_eq_true, if_false, Gen.CoseMac_removes, List.getD_cons_zero,
          List.getD_cons_succ, vremove, List.getElem?_cons_succ, List.getElem?_cons_zero, List.eraseIdx_cons_succ, List.eraseIdx_cons_zero] at h
        cases hr : tryAsArrayThenConvert rcpFromValue x4 with
        | ok rr =>
          simp only [hr] at h
          obtain ⟨ra, hx4, hm⟩ := (tryAsArrayThenConvert_ok _ x4 rr).mp hr
          cases hs : tryAsBytes x3 with
          | ok tag =>
            simp only [hs] at h
            cases ht : payloadTail [x0, x1, x2] 2 1 0 with
            | ok t =>
              obtain ⟨p, u, pl⟩ := t
              simp only [ht] at h; simp at h; subst h
              obtain ⟨h1, h2, h3⟩ := (payloadTail_ok x0 x1 x2 [] p u pl).mp ht
              exact ⟨x0, x1, x2, ra, by rw [(tryAsBytes_ok x3 tag).mp hs, hx4], h1, h2, h3, hm⟩
            | err e => simp [ht] at h
            | panic q => simp [ht] at h
          | err e => simp [hs] at h
          | panic q => simp [hs] at h
        | err e => simp [hr] at h
        | panic q => simp [hr] at h
      · have : (a.length != 5) = true := by simpa using hl
        simp [this] at h
    | _ => simp [CoseMac.fromValue, tryAsArray, typeError] at h
  · rintro ⟨x0, x1, x2, rs, rfl, h1, h2, h3, h4⟩
    have hr := (tryAsArrayThenConvert_ok rcpFromValue (.array rs) m.recipients).mpr ⟨rs, rfl, h4⟩
    have ht := (payloadTail_ok x0 x1 x2 [] m.protected_ m.unprotected m.payload).mpr ⟨h1, h2, h3⟩
    simp [CoseMac.fromValue, tryAsArray, Gen.CoseMac_arityBad, Gen.CoseMac_removes, vremove, hr, tryAsBytes, ht]

/-- COSE_Encrypt = [protected, unprotected, ciphertext bstr/nil, [COSE_recipient…]]. -/
theorem encrypt_ok_iff (v : Value) (m : CoseEncrypt) :
    CoseEncrypt.fromValue v = .ok m ↔
      ∃ x0 x1 x2 rs, v = .array [x0, x1, x2, .array rs] ∧ phFromBstr x0 = .ok m.protected_ ∧ hdrFromValue x1 = .ok m.unprotected ∧
        optBytes x2 = .ok m.ciphertext ∧ mapRes rcpFromValue rs = .ok m.recipients := by
  constructor
  · intro h
    cases v with
    | array a =>
      simp only [CoseEncrypt.fromValue, tryAsArray, Gen.CoseEncrypt_arityBad] at h
      by_cases hl : a.length = 4
      · obtain ⟨x0, x1, x2, x3, rfl⟩ := list_len4 a hl
        simp only [List.length_cons, List.length_nil, bne_self_eq_false, Bool.false_eq_true, if_false, Gen.CoseEncrypt_removes, List.getD_cons_zero,
          List.getD_cons_succ, vremove, List.getElem?_cons_succ, List.getElem?_cons_zero, List.eraseIdx_cons_succ, List.eraseIdx_cons_zero] at h
        cases hr : tryAsArrayThenConvert rcpFromValue x3 with
        | ok rr =>
          simp only [hr] at h
          obtain ⟨ra, hx3, hm⟩ := (tryAsArrayThenConvert_ok _ x3 rr).mp hr
          cases ht : payloadTail [x0, x1, x2] 2 1 0 with
          | ok t =>
            obtain ⟨p, u, pl⟩ := t
            simp only [ht] at h; simp at h; subst h
            obtain ⟨h1, h2, h3⟩ := (payloadTail_ok x0 x1 x2 [] p u pl).mp ht
            exact ⟨x0, x1, x2, ra, by rw [hx3], h1, h2, h3, hm⟩
          | err e => simp [ht] at h
          | panic q => simp [ht] at h
        | err e => simp [hr] at h
        | panic q => simp [hr] at h
      · have : (a.length != 4) = true := by simpa using hl
        simp [this] at h
    | _ => simp [CoseEncrypt.fromValue, tryAsArray, typeError] at h
  · rintro ⟨x0, x1, x2, rs, rfl, h1, h2, h3, h4⟩
    have hr := (tryAsArrayThenConvert_ok rcpFromValue (.array rs) m.recipients).mpr ⟨rs, rfl, h4⟩
    have ht := (payloadTail_ok x0 x1 x2 [] m.protected_ m.unprotected m.ciphertext).mpr ⟨h1, h2, h3⟩
    simp [CoseEncrypt.fromValue, tryAsArray, Gen.CoseEncrypt_arityBad, Gen.CoseEncrypt_removes, vremove, hr, ht]

/-- COSE_recipient = [protected, unprotected, ciphertext bstr/nil] or the same plus [COSE_recipient…]; nested recipients by the same rules. -/
theorem recipient_ok_iff (fuel : Nat) (v : Value) (p : ProtectedHeader) (u : Header) (ct : Option Bytes) (rcps : List CoseRecipient) :
    CoseRecipient.fromValue (fuel + 1) v = .ok (.mk p u ct rcps) ↔
      (∃ x0 x1 x2, v = .array [x0, x1, x2] ∧ phFromBstr x0 = .ok p ∧ hdrFromValue x1 = .ok u ∧ optBytes x2 = .ok ct ∧ rcps = []) ∨
      (∃ x0 x1 x2 rs, v = .array [x0, x1, x2, .array rs] ∧ phFromBstr x0 = .ok p ∧ hdrFromValue x1 = .ok u ∧ optBytes x2 = .ok ct ∧
        mapRes (CoseRecipient.fromValue fuel) rs = .ok rcps) := by
  constructor
  · intro h
    cases v with
    | array a =>
      simp only [CoseRecipient.fromValue, tryAsArray, Gen.CoseRecipient_arityBad] at h
      by_cases hl3 : a.length = 3
      · obtain ⟨x0, x1, x2, rfl⟩ := list_len3 a hl3
        simp only [List.length_cons, List.length_nil, Gen.CoseRecipient_removes, List.getD_cons_zero, List.getD_cons_succ] at h
        simp only [show ((3 : Nat) != 3 && (3 : Nat) != 4) = false from rfl, Bool.false_eq_true, if_false, show ((3 : Nat) == 4) = false from rfl] at h
        cases ht : payloadTail [x0, x1, x2] 2 1 0 with
        | ok t =>
          obtain ⟨p', u', pl⟩ := t
          simp only [ht] at h; simp at h
          obtain ⟨rfl, rfl, rfl, rfl⟩ := h
          obtain ⟨h1, h2, h3⟩ := (payloadTail_ok x0 x1 x2 [] p' u' pl).mp ht
          exact Or.inl ⟨x0, x1, x2, rfl, h1, h2, h3, rfl⟩
        | err e => simp [ht] at h
        | panic q => simp [ht] at h
      · by_cases hl4 : a.length = 4
        · obtain ⟨x0, x1, x2, x3, rfl⟩ := list_len4 a hl4
          simp only [List.length_cons, List.length_nil, Gen.CoseRecipient_removes, List.getD_cons_zero, List.getD_cons_succ] at h
          simp only [show ((4 : Nat) != 3 && (4 : Nat) != 4) = false from rfl, Bool.false_eq_true, if_false, show ((4 : Nat) == 4) = true from rfl, if_true,
            vremove, List.getElem?_cons_succ, List.getElem?_cons_zero, List.eraseIdx_cons_succ, List.eraseIdx_cons_zero] at h
          cases hr : tryAsArrayThenConvert (CoseRecipient.fromValue fuel) x3 with
          | ok rr =>
            simp only [hr] at h
            obtain ⟨ra, hx3, hm⟩ := (tryAsArrayThenConvert_ok _ x3 rr).mp hr
            cases ht : payloadTail [x0, x1, x2] 2 1 0 with
            | ok t =>
              obtain ⟨p', u', pl⟩ := t
              simp only [ht] at h; simp at h
              obtain ⟨rfl, rfl, rfl, rfl⟩ := h
              obtain ⟨h1, h2, h3⟩ := (payloadTail_ok x0 x1 x2 [] p' u' pl).mp ht
              exact Or.inr ⟨x0, x1, x2, ra, by rw [hx3], h1, h2, h3, hm⟩
            | err e => simp [ht] at h
            | panic q => simp [ht] at h
          | err e => simp [hr] at h
          | panic q => simp [hr] at h
        · have : (a.length != 3 && a.length != 4) = true := by simp [hl3, hl4]
          simp [this] at h
    | _ => simp [CoseRecipient.fromValue, tryAsArray, typeError] at h
  · rintro (⟨x0, x1, x2, rfl, h1, h2, h3, rfl⟩ | ⟨x0, x1, x2, rs, rfl, h1, h2, h3, h4⟩)
    · have ht := (payloadTail_ok x0 x1 x2 [] p u ct).mpr ⟨h1, h2, h3⟩
      simp [CoseRecipient.fromValue, tryAsArray, Gen.CoseRecipient_arityBad, Gen.CoseRecipient_removes, ht]
    · have hr := (tryAsArrayThenConvert_ok (CoseRecipient.fromValue fuel) (.array rs) rcps).mpr ⟨rs, rfl, h4⟩
      have ht := (payloadTail_ok x0 x1 x2 [] p u ct).mpr ⟨h1, h2, h3⟩
      simp [CoseRecipient.fromValue, tryAsArray, Gen.CoseRecipient_arityBad, Gen.CoseRecipient_removes, vremove, hr, ht]

end Coset

namespace Coset

/-- the protected slot: a byte string that is empty (default header) or is exactly one encoded header map;
    the bytes are stored as received. -/
theorem protected_ok_iff (fuel d : Nat) (x : Value) (p : ProtectedHeader) :
    ProtectedHeader.fromBstr (fuel + 1) d x = .ok p ↔
      ∃ data, x = .bytes data ∧
        ((data = [] ∧ p = .mk (some []) Header.default) ∨
         (data ≠ [] ∧ ∃ v h, readToValue data = .ok v ∧ Header.fromValue fuel d v = .ok h ∧ p = .mk (some data) h)) := by
  constructor
  · intro hp
    cases x with
    | bytes data =>
      refine ⟨data, rfl, ?_⟩
      simp only [ProtectedHeader.fromBstr, tryAsBytes] at hp
      cases data with
      | nil => simp at hp; exact Or.inl ⟨rfl, hp.symm⟩
      | cons b bs =>
        right
        refine ⟨by simp, ?_⟩
        simp only [List.isEmpty_cons, Bool.false_eq_true, if_false] at hp
        cases hr : readToValue (b :: bs) with
        | ok v =>
          simp only [hr] at hp
          cases hh : Header.fromValue fuel d v with
          | ok h => simp [hh] at hp; exact ⟨v, h, rfl, hh, hp.symm⟩
          | err e => simp [hh] at hp
          | panic q => simp [hh] at hp
        | err e => simp [hr] at hp
        | panic q => simp [hr] at hp
    | _ => simp [ProtectedHeader.fromBstr, tryAsBytes, typeError] at hp
  · rintro ⟨data, rfl, (⟨rfl, rfl⟩ | ⟨hne, v, h, hr, hh, rfl⟩)⟩
    · simp [ProtectedHeader.fromBstr, tryAsBytes]
    · have : data.isEmpty = false := by cases data <;> simp_all
      simp [ProtectedHeader.fromBstr, tryAsBytes, this, hr, hh]

end Coset
