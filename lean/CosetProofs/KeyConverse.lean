/-
  C10, converse direction: a map with distinct labels whose common parameters have their shapes and whose key type is present and
  not the reserved value is accepted as a COSE_Key — in any wire order.
-/
import CosetProofs.KeyFields
namespace Coset
open Coset.Spec

/-- the shape rule for one key entry (RFC 8152 §7.1). -/
structure KeyEntryOk (l : Label) (v : Value) : Prop where
  kty : l = .int 1 → ∃ t, RegLabel.fromValue Reg.keyType v = .ok t
  bstr : (l = .int 2 ∨ l = .int 5) → ∃ b, v = .bytes b ∧ b ≠ []
  alg : l = .int 3 → ∃ a, RegLabelPriv.fromValue Reg.algorithm v = .ok a
  ops : l = .int 4 → ∃ a s, v = .array a ∧ keyOpsLoop a [] = .ok s ∧ s ≠ []

theorem keyStep_ok (l : Label) (v : Value) (k0 : CoseKey) (he : KeyEntryOk l v) (hops : l = .int 4 → k0.keyOps = []) :
    ∃ k1, keyStep k0 (l, v) = .ok k1 ∧ (l ≠ .int 4 → k1.keyOps = k0.keyOps) := by
  obtain ⟨e1, e2, e3, e4, e5⟩ := key_labels
  have nb : ∀ b : Bytes, b ≠ [] → tryAsNonemptyBytes (.bytes b) = .ok b := by
    intro b hb; cases b <;> simp_all [tryAsNonemptyBytes, tryAsBytes]
  by_cases h1 : l = .int 1
  · subst h1; obtain ⟨t, ht⟩ := he.kty rfl
    exact ⟨{ k0 with kty := t }, by simp [keyStep, keyDispatch, e1, ht], fun _ => rfl⟩
  by_cases h2 : l = .int 2
  · subst h2; obtain ⟨b, rfl, hb⟩ := he.bstr (Or.inl rfl)
    exact ⟨{ k0 with keyId := b }, by simp [keyStep, keyDispatch, e1, e2, nb b hb], fun _ => rfl⟩
  by_cases h3 : l = .int 3
  · subst h3; obtain ⟨a, ha⟩ := he.alg rfl
    exact ⟨{ k0 with alg := some a }, by simp [keyStep, keyDispatch, e1, e2, e3, ha], fun _ => rfl⟩
  by_cases h4 : l = .int 4
  · subst h4; obtain ⟨a, s, rfl, hs, hne⟩ := he.ops rfl
    have hse : s.isEmpty = false := by cases s <;> simp_all
    exact ⟨{ k0 with keyOps := s }, by simp [keyStep, keyDispatch, e1, e2, e3, e4, tryAsArray, hops rfl, hs, hse], fun h => absurd rfl h⟩
  by_cases h5 : l = .int 5
  · subst h5; obtain ⟨b, rfl, hb⟩ := he.bstr (Or.inr rfl)
    exact ⟨{ k0 with baseIv := b }, by simp [keyStep, keyDispatch, e1, e2, e3, e4, e5, nb b hb], fun _ => rfl⟩
  exact ⟨{ k0 with params := k0.params ++ [(l, v)] }, by simp [keyStep, keyDispatch, e1, e2, e3, e4, e5, h1, h2, h3, h4, h5], fun _ => rfl⟩

theorem key_fold_ok : ∀ (ps : List (Label × Value)) (k0 : CoseKey), (ps.map (·.1)).Nodup → (∀ p ∈ ps, KeyEntryOk p.1 p.2) →
    (Label.int 4 ∈ ps.map (·.1) → k0.keyOps = []) → ∃ k, foldRes keyStep ps k0 = .ok k := by
  intro ps
  induction ps with
  | nil => intro k0 _ _ _; exact ⟨k0, rfl⟩
  | cons p ps ih =>
    intro k0 hnd hall hops
    obtain ⟨l, v⟩ := p
    simp only [List.map_cons, List.nodup_cons] at hnd
    obtain ⟨k1, hs, hk⟩ := keyStep_ok l v k0 (hall (l, v) (by simp)) (fun e => hops (by simp [e]))
    simp only [foldRes, hs]
    apply ih k1 hnd.2 (fun q hq => hall q (by simp [hq]))
    intro h4
    have : l ≠ .int 4 := by intro e; subst e; exact hnd.1 h4
    rw [hk this]; exact hops (by simp [h4])

/-- C10 (⇐). -/
theorem wellformed_key_accepted (m : List (Value × Value)) (ls : List Label) (hk : keyLabels m = .ok ls) (hnd : ls.Nodup)
    (hall : ∀ p ∈ ls.zip (m.map (·.2)), KeyEntryOk p.1 p.2)
    (hkty : ∃ w t, (Label.int 1, w) ∈ ls.zip (m.map (·.2)) ∧ RegLabel.fromValue Reg.keyType w = .ok t ∧ t ≠ .assigned ktyReservedIdx) :
    ∃ k, CoseKey.fromValue (.map m) = .ok k := by
  have hlen : ls.length = (m.map (·.2)).length := by
    have : ∀ (xs : List Value) (ys : List Label), mapRes Label.fromValue xs = .ok ys → ys.length = xs.length := by
      intro xs; induction xs with
      | nil => intro ys h; simp [mapRes] at h; subst h; rfl
      | cons x xs ih => intro ys h; rw [mapRes_cons_ok] at h; obtain ⟨y, ys', _, h2, rfl⟩ := h; simp [ih ys' h2]
    simpa [keyLabels] using this _ _ hk
  have hfst : (ls.zip (m.map (·.2))).map (·.1) = ls := by rw [List.map_fst_zip]; omega
  have hnd' : ((ls.zip (m.map (·.2))).map (·.1)).Nodup := by rw [hfst]; exact hnd
  obtain ⟨k, hf⟩ := key_fold_ok (ls.zip (m.map (·.2))) CoseKey.default hnd' hall (fun _ => rfl)
  have hloop : keyLoop m CoseKey.default [] = .ok k := by
    rw [keyLoop_eq_gen]
    exact (genLoop_ok_iff Label.fromValue Label.cmp keyStep (fun _ => True) label_loop_hyps.1 label_loop_hyps.2 m CoseKey.default k [] (by simp)).mpr
      ⟨ls, hk, ⟨hnd, by simp⟩, hf⟩
  have ko := fold_keyOf _ _ _ hnd' hf
  obtain ⟨w, t, hm, ht, hne⟩ := hkty
  have hl : lookupL (.int 1) (ls.zip (m.map (·.2))) = some w := by
    -- distinct labels: the entry found under label 1 is this one
    have : ∀ (ps : List (Label × Value)), (ps.map (·.1)).Nodup → (Label.int 1, w) ∈ ps → lookupL (.int 1) ps = some w := by
      intro ps
      induction ps with
      | nil => intro _ h; cases h
      | cons q qs ihq =>
        intro hq hmem
        obtain ⟨l', v'⟩ := q
        simp only [List.map_cons, List.nodup_cons] at hq
        rw [lookupL_cons]
        rcases List.mem_cons.mp hmem with h | h
        · cases h; simp
        · have : l' ≠ .int 1 := by
            intro e; subst e
            exact hq.1 (List.mem_map.mpr ⟨(.int 1, w), h, rfl⟩)
          simp [this, ihq hq.2 h]
    exact this _ hnd' hm
  have hkk := ko.kty
  rw [hl] at hkk
  obtain ⟨t', ht', hke⟩ := hkk
  rw [ht] at ht'; simp at ht'; subst ht'
  refine ⟨k, ?_⟩
  simp only [CoseKey.fromValue, tryAsMap, hloop]
  have : ¬ k.kty = .assigned ktyReservedIdx := by rw [hke]; exact hne
  simp [this]

end Coset
