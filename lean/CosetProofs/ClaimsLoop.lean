/-
  The CWT claims-set loop: claim names are registry labels with a private range; the `seen` set is exact on decoded names.
-/
import CosetProofs.MapLoop
import CosetProofs.Props.C17
namespace Coset
open Coset.Props.C16

/-- names as produced by decoding: a registered variant, or a private-use integer that is *not* registered. -/
def GoodName (R : Registry) : RegLabelPriv → Prop
  | .assigned k => k < R.rows.length
  | .privateUse i => R.fromI64 i = none
  | .text _ => True

theorem fromValue_good (R : Registry) (v : Value) (l : RegLabelPriv) (h : RegLabelPriv.fromValue R v = .ok l) : GoodName R l := by
  cases v with
  | int i =>
    simp only [RegLabelPriv.fromValue] at h
    cases hn : narrowI64 i with
    | ok n =>
      simp only [hn] at h
      cases hf : R.fromI64 n with
      | some k =>
        simp [hf] at h; subst h
        unfold Registry.fromI64 at hf
        rw [List.findIdx?_eq_some_iff_getElem] at hf
        exact hf.1
      | none =>
        simp only [hf] at h
        split at h
        · simp at h; subst h; exact hf
        · simp at h
    | err e => simp [hn] at h
    | panic p => simp [hn] at h
  | text t => simp [RegLabelPriv.fromValue] at h; subst h; trivial
  | _ => simp [RegLabelPriv.fromValue, typeError] at h

theorem regPriv_cmp_ok (R : Registry) (a b : RegLabelPriv) : ∃ o, RegLabelPriv.cmp R a b = .ok o := by
  cases a <;> cases b <;> simp only [RegLabelPriv.cmp] <;> first | exact Label.cmp_ok _ _ | exact ⟨_, rfl⟩

/-- on decoded names, `cmp = Equal` exactly for identical names (registry values pairwise distinct). -/
theorem regPriv_cmp_eq_iff (R : Registry) (hnd : (R.rows.map (·.2)).Nodup) (a b : RegLabelPriv) (ha : GoodName R a) (hb : GoodName R b) :
    RegLabelPriv.cmp R a b = .ok .eq ↔ a = b := by
  cases a with
  | assigned k1 =>
    cases b with
    | assigned k2 =>
      simp only [RegLabelPriv.cmp, Label.cmp_eq_iff', Label.int.injEq, RegLabelPriv.assigned.injEq]
      constructor
      · intro h
        have h1 := Coset.Props.C17.from_to R hnd k1 ha
        have h2 := Coset.Props.C17.from_to R hnd k2 hb
        rw [h] at h1; rw [h1] at h2; simpa using h2
      · intro h; rw [h]
    | privateUse i =>
      simp only [RegLabelPriv.cmp, Label.cmp_eq_iff', Label.int.injEq]
      constructor
      · intro h
        have h1 := Coset.Props.C17.from_to R hnd k1 ha
        rw [h] at h1
        simp only [GoodName] at hb; rw [hb] at h1; simp at h1
      · intro h; simp at h
    | text t => simp [RegLabelPriv.cmp]
  | privateUse i =>
    cases b with
    | assigned k2 =>
      simp only [RegLabelPriv.cmp, Label.cmp_eq_iff', Label.int.injEq]
      constructor
      · intro h
        have h2 := Coset.Props.C17.from_to R hnd k2 hb
        rw [← h] at h2
        simp only [GoodName] at ha; rw [ha] at h2; simp at h2
      · intro h; simp at h
    | privateUse j => simp [RegLabelPriv.cmp, Label.cmp_eq_iff']
    | text t => simp [RegLabelPriv.cmp]
  | text s =>
    cases b with
    | assigned k2 => simp [RegLabelPriv.cmp]
    | privateUse j => simp [RegLabelPriv.cmp]
    | text t =>
      have := Label.cmp_eq_iff' (.text s) (.text t)
      simp only [Label.cmp] at this
      simp only [RegLabelPriv.cmp, RegLabelPriv.text.injEq]
      rw [this]; simp

theorem setContains_name (R : Registry) (hnd : (R.rows.map (·.2)).Nodup) (seen : List RegLabelPriv) (l : RegLabelPriv)
    (hs : ∀ x ∈ seen, GoodName R x) (hl : GoodName R l) : setContains (RegLabelPriv.cmp R) seen l = .ok (decide (l ∈ seen)) := by
  induction seen with
  | nil => simp [setContains]
  | cons y ys ih =>
    simp only [setContains]
    obtain ⟨o, ho⟩ := regPriv_cmp_ok R l y
    rw [ho]
    have hy := hs y (by simp)
    have ih' := ih (fun x hx => hs x (by simp [hx]))
    cases o with
    | eq =>
      have := (regPriv_cmp_eq_iff R hnd l y hl hy).mp ho
      simp [this]
    | lt =>
      have : l ≠ y := fun h => by rw [(regPriv_cmp_eq_iff R hnd l y hl hy).mpr h] at ho; simp at ho
      simp [ih', this]
    | gt =>
      have : l ≠ y := fun h => by rw [(regPriv_cmp_eq_iff R hnd l y hl hy).mpr h] at ho; simp at ho
      simp [ih', this]

def claimStep (c : ClaimsSet) (nv : RegLabelPriv × Value) : Res ClaimsSet := claimDispatch nv.1 nv.2 c

theorem claimsLoop_eq_gen (m : List (Value × Value)) :
    ∀ (c : ClaimsSet) (seen : List RegLabelPriv),
      claimsLoop m c seen = genLoop (RegLabelPriv.fromValue Reg.cwtClaimName) (RegLabelPriv.cmp Reg.cwtClaimName) claimStep m c seen := by
  induction m with
  | nil => intro c seen; rfl
  | cons kv m ih =>
    intro c seen
    obtain ⟨kk, v⟩ := kv
    simp only [claimsLoop, genLoop, claimStep]
    cases RegLabelPriv.fromValue Reg.cwtClaimName kk with
    | ok l =>
      simp only []
      cases setContains (RegLabelPriv.cmp Reg.cwtClaimName) seen l with
      | ok b =>
        cases b with
        | true => rfl
        | false =>
          simp only []
          cases claimDispatch l v c with
          | ok c1 => simp only []; exact ih c1 _
          | err e => rfl
          | panic p => rfl
      | err e => rfl
      | panic p => rfl
    | err e => rfl
    | panic p => rfl

theorem cwt_values_nodup : (Reg.cwtClaimName.rows.map (·.2)).Nodup := by decide +kernel

theorem claims_loop_hyps :
    (∀ (k : Value) (l : RegLabelPriv), RegLabelPriv.fromValue Reg.cwtClaimName k = .ok l → GoodName Reg.cwtClaimName l) ∧
    (∀ (seen : List RegLabelPriv) (l : RegLabelPriv), (∀ x ∈ seen, GoodName Reg.cwtClaimName x) → GoodName Reg.cwtClaimName l →
      setContains (RegLabelPriv.cmp Reg.cwtClaimName) seen l = .ok (decide (l ∈ seen))) :=
  ⟨fun k l h => fromValue_good _ k l h, fun seen l hs hl => setContains_name _ cwt_values_nodup seen l hs hl⟩

end Coset
