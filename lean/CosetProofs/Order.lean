/-
  Order lemmas: bytewise lexicographic order of deterministic CBOR heads follows the numeric order of the arguments.
-/
import CosetProofs.Cbor.Roundtrip
import CosetModel.Label
namespace Coset
open Coset.Cbor

theorem lexCmp_refl (a : Bytes) : lexCmp a a = .eq := by
  induction a with
  | nil => rfl
  | cons x xs ih => simp [lexCmp, ih]

theorem lexCmp_eq_iff (a b : Bytes) : lexCmp a b = .eq ↔ a = b := by
  induction a generalizing b with
  | nil => cases b <;> simp [lexCmp]
  | cons x xs ih =>
    cases b with
    | nil => simp [lexCmp]
    | cons y ys =>
      simp only [lexCmp]
      by_cases h1 : x < y
      · simp [h1]; intro h; subst h; exact absurd h1 (by simp)
      · by_cases h2 : y < x
        · simp [h1, h2]; intro h; subst h; exact absurd h2 (by simp)
        · have : x = y := by
            have a1 := UInt8.not_lt.mp h1; have a2 := UInt8.not_lt.mp h2
            exact UInt8.le_antisymm a2 a1
          subst this; simp [ih]

theorem lexCmp_swap (a b : Bytes) : lexCmp b a = (lexCmp a b).swap := by
  induction a generalizing b with
  | nil => cases b <;> rfl
  | cons x xs ih =>
    cases b with
    | nil => rfl
    | cons y ys =>
      simp only [lexCmp]
      by_cases h1 : x < y
      · have : ¬ y < x := by intro h; exact absurd (UInt8.lt_trans h1 h) (by simp)
        simp [h1, this, Ordering.swap]
      · by_cases h2 : y < x
        · simp [h1, h2, Ordering.swap]
        · simp [h1, h2, ih]

/-- common prefix. -/
theorem lexCmp_append_left (p a b : Bytes) : lexCmp (p ++ a) (p ++ b) = lexCmp a b := by
  induction p with
  | nil => rfl
  | cons x xs ih => simp [lexCmp, ih]

/-- a decision taken inside equal-length prefixes is final. -/
theorem lexCmp_append_of_lt (a b x y : Bytes) (hl : a.length = b.length) (h : lexCmp a b = .lt) : lexCmp (a ++ x) (b ++ y) = .lt := by
  induction a generalizing b with
  | nil => cases b <;> simp_all [lexCmp]
  | cons p ps ih =>
    cases b with
    | nil => simp at hl
    | cons q qs =>
      simp only [List.cons_append, lexCmp] at h ⊢
      by_cases h1 : p < q
      · simp [h1]
      · by_cases h2 : q < p
        · simp [h1, h2] at h
        · simp only [h1, h2, if_false] at h ⊢
          exact ih qs (by simpa using hl) h

theorem lexCmp_cons_lt (p q : UInt8) (a b : Bytes) (h : p < q) : lexCmp (p :: a) (q :: b) = .lt := by simp [lexCmp, h]

/-- big-endian byte strings of equal width compare like the numbers. -/
theorem lexCmp_beN (k n m : Nat) (hm : m < 256 ^ k) (h : n < m) : lexCmp (beN k n) (beN k m) = .lt := by
  induction k generalizing n m with
  | zero => simp at hm; omega
  | succ k ih =>
    simp only [beN]
    by_cases hq : n / 256 < m / 256
    · have := ih (n / 256) (m / 256) (by rw [Nat.div_lt_iff_lt_mul (by decide)]; rw [Nat.pow_succ] at hm; exact hm) hq
      exact lexCmp_append_of_lt _ _ _ _ (by simp) this
    · have he : n / 256 = m / 256 := by
        have : n / 256 ≤ m / 256 := Nat.div_le_div_right (by omega)
        omega
      rw [he, lexCmp_append_left]
      have hmod : n % 256 < m % 256 := by
        have h1 := Nat.div_add_mod n 256; have h2 := Nat.div_add_mod m 256; omega
      apply lexCmp_cons_lt
      rw [UInt8.lt_iff_toNat_lt]; simp [UInt8.toNat_ofNat']; exact hmod

/-- heads of one major type are ordered like their arguments, whatever follows. -/
theorem lexCmp_encHead_lt (mj n m : Nat) (hmj : mj < 8) (hm : m < 2 ^ 64) (h : n < m) (x y : Bytes) :
    lexCmp (encHead mj n ++ x) (encHead mj m ++ y) = .lt := by
  have first : ∀ (a b : Nat) (t1 t2 : Bytes), a < b → b < 32 → lexCmp (UInt8.ofNat (mj * 32 + a) :: t1) (UInt8.ofNat (mj * 32 + b) :: t2) = .lt := by
    intro a b t1 t2 hab hb
    apply lexCmp_cons_lt
    rw [UInt8.lt_iff_toNat_lt]; simp [UInt8.toNat_ofNat']; omega
  have same : ∀ (k minor : Nat), n < 256 ^ k → m < 256 ^ k →
      lexCmp ((UInt8.ofNat (mj * 32 + minor) :: beN k n) ++ x) ((UInt8.ofNat (mj * 32 + minor) :: beN k m) ++ y) = .lt := by
    intro k minor _ hmk
    simp only [List.cons_append, lexCmp]
    have : ¬ (UInt8.ofNat (mj * 32 + minor) < UInt8.ofNat (mj * 32 + minor)) := by simp
    simp only [this, if_false]
    exact lexCmp_append_of_lt _ _ _ _ (by simp) (lexCmp_beN k n m hmk h)
  unfold encHead
  by_cases a1 : n < 24
  · by_cases b1 : m < 24
    · simp only [a1, b1, if_true, List.cons_append, List.nil_append]; exact first n m _ _ h (by omega)
    · by_cases b2 : m < 256
      · simp only [a1, b1, b2, if_true, if_false, List.cons_append, List.nil_append]; exact first n 24 _ _ a1 (by omega)
      · by_cases b3 : m < 65536
        · simp only [a1, b1, b2, b3, if_true, if_false, List.cons_append, List.nil_append]; exact first n 25 _ _ (by omega) (by omega)
        · by_cases b4 : m < 4294967296
          · simp only [a1, b1, b2, b3, b4, if_true, if_false, List.cons_append, List.nil_append]; exact first n 26 _ _ (by omega) (by omega)
          · simp only [a1, b1, b2, b3, b4, if_true, if_false, List.cons_append, List.nil_append]; exact first n 27 _ _ (by omega) (by omega)
  · have b1 : ¬ m < 24 := by omega
    by_cases a2 : n < 256
    · by_cases b2 : m < 256
      · simp only [a1, a2, b1, b2, if_true, if_false]; exact same 1 24 (by omega) (by omega)
      · by_cases b3 : m < 65536
        · simp only [a1, a2, b1, b2, b3, if_true, if_false, List.cons_append]; exact first 24 25 _ _ (by omega) (by omega)
        · by_cases b4 : m < 4294967296
          · simp only [a1, a2, b1, b2, b3, b4, if_true, if_false, List.cons_append]; exact first 24 26 _ _ (by omega) (by omega)
          · simp only [a1, a2, b1, b2, b3, b4, if_true, if_false, List.cons_append]; exact first 24 27 _ _ (by omega) (by omega)
    · have b2 : ¬ m < 256 := by omega
      by_cases a3 : n < 65536
      · by_cases b3 : m < 65536
        · simp only [a1, a2, a3, b1, b2, b3, if_true, if_false]; exact same 2 25 (by omega) (by omega)
        · by_cases b4 : m < 4294967296
          · simp only [a1, a2, a3, b1, b2, b3, b4, if_true, if_false, List.cons_append]; exact first 25 26 _ _ (by omega) (by omega)
          · simp only [a1, a2, a3, b1, b2, b3, b4, if_true, if_false, List.cons_append]; exact first 25 27 _ _ (by omega) (by omega)
      · have b3 : ¬ m < 65536 := by omega
        by_cases a4 : n < 4294967296
        · by_cases b4 : m < 4294967296
          · simp only [a1, a2, a3, a4, b1, b2, b3, b4, if_true, if_false]; exact same 4 26 (by omega) (by omega)
          · simp only [a1, a2, a3, a4, b1, b2, b3, b4, if_true, if_false, List.cons_append]; exact first 26 27 _ _ (by omega) (by omega)
        · have b4 : ¬ m < 4294967296 := by omega
          simp only [a1, a2, a3, a4, b1, b2, b3, b4, if_false]; exact same 8 27 (by omega) (by omega)

/-- heads of different major types are ordered by the major type. -/
theorem lexCmp_encHead_major (m1 m2 n1 n2 : Nat) (h : m1 < m2) (h2 : m2 < 8) (x y : Bytes) :
    lexCmp (encHead m1 n1 ++ x) (encHead m2 n2 ++ y) = .lt := by
  have hd : ∀ mj n, ∃ minor t, minor < 32 ∧ encHead mj n = UInt8.ofNat (mj * 32 + minor) :: t := by
    intro mj n; unfold encHead
    split
    · exact ⟨n, [], by omega, rfl⟩
    · split
      · exact ⟨24, _, by omega, rfl⟩
      · split
        · exact ⟨25, _, by omega, rfl⟩
        · split
          · exact ⟨26, _, by omega, rfl⟩
          · exact ⟨27, _, by omega, rfl⟩
  obtain ⟨a, t1, ha, e1⟩ := hd m1 n1
  obtain ⟨b, t2, hb, e2⟩ := hd m2 n2
  rw [e1, e2]
  apply lexCmp_cons_lt
  rw [UInt8.lt_iff_toNat_lt]; simp [UInt8.toNat_ofNat']; omega

end Coset

namespace Coset

/-- `≤` for the bytewise order. -/
def lexLe (a b : Bytes) : Bool := lexCmp a b != .gt

theorem lexLe_total (a b : Bytes) : lexLe a b || lexLe b a := by
  unfold lexLe
  rw [lexCmp_swap a b]
  cases lexCmp a b <;> simp [Ordering.swap]

theorem lexLe_trans (a b c : Bytes) (h1 : lexLe a b = true) (h2 : lexLe b c = true) : lexLe a c = true := by
  induction a generalizing b c with
  | nil => cases c <;> simp [lexLe, lexCmp]
  | cons x xs ih =>
    cases b with
    | nil => simp [lexLe, lexCmp] at h1
    | cons y ys =>
      cases c with
      | nil => simp [lexLe, lexCmp] at h2
      | cons z zs =>
        simp only [lexLe, lexCmp] at h1 h2 ⊢
        by_cases xy : x < y
        · by_cases yz : y < z
          · simp [UInt8.lt_trans xy yz]
          · by_cases zy : z < y
            · simp [yz, zy] at h2
            · have : y = z := UInt8.le_antisymm (UInt8.not_lt.mp zy) (UInt8.not_lt.mp yz)
              subst this; simp [xy]
        · by_cases yx : y < x
          · simp [xy, yx] at h1
          · have : x = y := UInt8.le_antisymm (UInt8.not_lt.mp yx) (UInt8.not_lt.mp xy)
            subst this
            simp only [xy, if_false] at h1
            by_cases yz : x < z
            · simp [yz]
            · by_cases zy : z < x
              · simp [yz, zy] at h2
              · simp only [yz, zy, if_false] at h2 ⊢
                exact ih ys zs h1 h2

end Coset
