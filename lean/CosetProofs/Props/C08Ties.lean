/- C08: ties to the source text.  Built and audited together with Props/C08.lean by check.py, but in a module of its own, so that a
   changed textual fact breaks the obligations of the properties that own it and not those of every module that imports their lemmas. -/
import CosetProofs.Ties.Budget.Header
namespace Coset.Props.C08

/-! ### ties to the source text (regenerated on every run, compared in the kernel with the transcribed tree) -/

/-- decision budget of `src/header/mod.rs`: no branch, comparison or integer literal beyond the transcribed tree's (a needle no stream reaches still adds one). -/
theorem tie_budget_header : Coset.Ties.budgetCovered "header" Coset.Gen.decisionBudget Coset.Pinned.decisionBudget = true := Coset.Ties.budget_header

#print axioms tie_budget_header

end Coset.Props.C08
