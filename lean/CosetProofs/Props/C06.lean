import CosetModel.Api
namespace Coset.Props.C06

end Coset.Props.C06
