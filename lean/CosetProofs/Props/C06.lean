/-
  C06 — what is signed, MACed or encrypted is what is later verified or decrypted.

  Layers: (1) the create helpers hand the caller's function the structure bytes computed from the builder's current state and store its
  result (or, fallible variants, return its error and no builder); (2) after creation, calls that do not touch the protected header, the
  payload or the stored result leave all three as they are (history induction); (3) encode-then-decode of the built message keeps the
  protected bytes, the payload and the stored result (C11 round trip), hence the verify / decrypt helpers on the decoded message compute
  the very same structure bytes and pass them with the stored result to the caller's function, returning its result unchanged;
  (4) a different AAD / payload / protected header gives different bytes (injectivity of the structures, C03–C05).
-/
import CosetProofs.Roundtrip.BuiltMessages
import CosetProofs.Props.C03
import CosetProofs.Props.C04
import CosetProofs.Props.C05
import CosetProofs.Cbor.Roundtrip
import CosetProofs.Roundtrip.EmitNormal
namespace Coset.Props.C06
open Coset Coset.Cbor Coset.Spec

/-! ### the structures see a message only through its protected bytes and payload -/

theorem sigStructure_congr (ctx : SignatureContext) (p1 p2 : ProtectedHeader) (sp1 sp2 : Option ProtectedHeader) (aad pl : Bytes)
    (hp : ProtectedHeader.cborBstr p1 = ProtectedHeader.cborBstr p2)
    (hs : sp1.map ProtectedHeader.cborBstr = sp2.map ProtectedHeader.cborBstr) :
    sigStructureData ctx p1 sp1 aad pl = sigStructureData ctx p2 sp2 aad pl := by
  cases sp1 <;> cases sp2 <;> simp at hs <;> simp [sigStructureData, bstrExpect, hp, hs]

theorem macStructure_congr (ctx : MacContext) (p1 p2 : ProtectedHeader) (aad pl : Bytes)
    (hp : ProtectedHeader.cborBstr p1 = ProtectedHeader.cborBstr p2) : macStructureData ctx p1 aad pl = macStructureData ctx p2 aad pl := by
  simp [macStructureData, bstrExpect, hp]

theorem encStructure_congr (ctx : EncryptionContext) (p1 p2 : ProtectedHeader) (aad : Bytes)
    (hp : ProtectedHeader.cborBstr p1 = ProtectedHeader.cborBstr p2) : encStructureData ctx p1 aad = encStructureData ctx p2 aad := by
  simp [encStructureData, bstrExpect, hp]

/-! ### (3) the wire keeps what verification looks at -/

/-- COSE_Sign1: every verification helper gives the same answer on the decoded message as on the built one. -/
theorem sign1_wire (m : CoseSign1) (hp : ProtectedHeader.WF maxNest m.protected_) (hu : Header.WF maxNest m.unprotected) :
    ∃ x m', m.toValue = .ok x ∧ CoseSign1.fromValue x = .ok m' ∧
      (∀ aad, m'.tbsData aad = m.tbsData aad) ∧ (∀ pl aad, m'.tbsDetachedData pl aad = m.tbsDetachedData pl aad) ∧ m'.signature = m.signature ∧
      (∀ {ρ : Type} aad (V : Bytes → Bytes → ρ), m'.verifySignature aad V = m.verifySignature aad V) ∧
      (∀ {ρ : Type} pl aad (V : Bytes → Bytes → ρ), m'.verifyDetachedSignature pl aad V = m.verifyDetachedSignature pl aad V) := by
  obtain ⟨b, y, m', h1, h2, _, _, h5, h6, h7⟩ := sign1_rt m hp hu
  have hb : ProtectedHeader.cborBstr m.protected_ = .ok (.bytes b) := first_slot _ _ _ _ _ _ rfl h1
  have hpb : ProtectedHeader.cborBstr m'.protected_ = ProtectedHeader.cborBstr m.protected_ := by rw [hb, cborBstr_of_orig _ b h7]
  have t1 : ∀ aad, m'.tbsData aad = m.tbsData aad := by
    intro aad; simp only [CoseSign1.tbsData, h5]; exact sigStructure_congr _ _ _ none none _ _ hpb rfl
  have t2 : ∀ pl aad, m'.tbsDetachedData pl aad = m.tbsDetachedData pl aad := by
    intro pl aad; simp only [CoseSign1.tbsDetachedData, h5]; rw [sigStructure_congr _ _ _ none none _ _ hpb rfl]
  refine ⟨_, m', h1, h2, t1, t2, h6, ?_, ?_⟩
  · intro ρ aad V; simp [CoseSign1.verifySignature, t1, h6]
  · intro ρ pl aad V; simp [CoseSign1.verifyDetachedSignature, t2, h6]

/-- COSE_Sign: for every signer index, verification on the decoded message equals verification on the built one. -/
theorem sign_wire (m : CoseSign) (hp : ProtectedHeader.WF maxNest m.protected_) (hu : Header.WF maxNest m.unprotected) (hs : sigsWF maxNest m.signatures) :
    ∃ x m', m.toValue = .ok x ∧ CoseSign.fromValue x = .ok m' ∧ m'.signatures.length = m.signatures.length ∧
      (∀ {ρ : Type} i aad (V : Bytes → Bytes → ρ), m'.verifySignature i aad V = m.verifySignature i aad V) ∧
      (∀ {ρ : Type} i pl aad (V : Bytes → Bytes → ρ), m'.verifyDetachedSignature i pl aad V = m.verifyDetachedSignature i pl aad V) := by
  obtain ⟨b, y, vs, m', h1, h2, _, _, h5, h6, h7, h8⟩ := sign_rt m hp hu hs
  have hb : ProtectedHeader.cborBstr m.protected_ = .ok (.bytes b) := by
    simp only [CoseSign.toValue] at h1
    cases hs' : headerSlots m.protected_ m.unprotected with
    | ok hsl =>
      obtain ⟨pv, uv, rfl, g1, _⟩ := headerSlots_ok _ _ _ hs'
      simp only [hs'] at h1
      cases hx : sigsToValues m.signatures with
      | ok t => simp [hx] at h1; rw [← h1.1]; exact g1
      | err e => simp [hx] at h1
      | panic q => simp [hx] at h1
    | err e => simp [hs'] at h1
    | panic q => simp [hs'] at h1
  have hpb : ProtectedHeader.cborBstr m'.protected_ = ProtectedHeader.cborBstr m.protected_ := by rw [hb, cborBstr_of_orig _ b h7]
  have hlen : m'.signatures.length = m.signatures.length := by
    have : ∀ (a c : List CoseSignature), sigsSame a c → a.length = c.length := by
      intro a; induction a with
      | nil => intro c h; cases c <;> simp [sigsSame] at h; rfl
      | cons x xs ih => intro c h; cases c with
        | nil => simp [sigsSame] at h
        | cons z zs => simp only [sigsSame] at h; simp [ih zs h.2]
    exact this _ _ h8
  have key : ∀ i : Nat, (m.signatures[i]? = none ∧ m'.signatures[i]? = none) ∨
      ∃ s s', m.signatures[i]? = some s ∧ m'.signatures[i]? = some s' ∧ SigSame s' s := by
    intro i
    cases hi : m.signatures[i]? with
    | none => left; refine ⟨rfl, ?_⟩; rw [List.getElem?_eq_none_iff] at hi ⊢; omega
    | some s => right; obtain ⟨s', g1, g2⟩ := sigsSame_get _ _ h8 i s hi; exact ⟨s, s', rfl, g1, g2⟩
  refine ⟨_, m', h1, h2, hlen, ?_, ?_⟩
  · intro ρ i aad V
    rcases key i with ⟨k1, k2⟩ | ⟨s, s', k1, k2, k3⟩
    · simp [CoseSign.verifySignature, vindex, k1, k2]
    · have : m'.tbsData aad s' = m.tbsData aad s := by
        simp only [CoseSign.tbsData, h5]; exact sigStructure_congr _ _ _ _ _ _ _ hpb (by simp [k3.1])
      simp [CoseSign.verifySignature, vindex, k1, k2, this, k3.2]
  · intro ρ i pl aad V
    rcases key i with ⟨k1, k2⟩ | ⟨s, s', k1, k2, k3⟩
    · simp [CoseSign.verifyDetachedSignature, vindex, k1, k2]
    · have : m'.tbsDetachedData pl aad s' = m.tbsDetachedData pl aad s := by
        simp only [CoseSign.tbsDetachedData, h5]; rw [sigStructure_congr _ _ _ (some s'.protected_) (some s.protected_) _ _ hpb (by simp [k3.1])]
      simp [CoseSign.verifyDetachedSignature, vindex, k1, k2, this, k3.2]

theorem mac0_wire (m : CoseMac0) (hp : ProtectedHeader.WF maxNest m.protected_) (hu : Header.WF maxNest m.unprotected) :
    ∃ x m', m.toValue = .ok x ∧ CoseMac0.fromValue x = .ok m' ∧ (∀ aad, m'.tbm aad = m.tbm aad) ∧ m'.tag = m.tag ∧
      (∀ {ρ : Type} aad (V : Bytes → Bytes → ρ), m'.verifyTag aad V = m.verifyTag aad V) := by
  obtain ⟨b, y, m', h1, h2, _, _, h5, h6, h7⟩ := mac0_rt m hp hu
  have hb : ProtectedHeader.cborBstr m.protected_ = .ok (.bytes b) := first_slot _ _ _ _ _ _ rfl h1
  have hpb : ProtectedHeader.cborBstr m'.protected_ = ProtectedHeader.cborBstr m.protected_ := by rw [hb, cborBstr_of_orig _ b h7]
  have t1 : ∀ aad, m'.tbm aad = m.tbm aad := by
    intro aad; simp only [CoseMac0.tbm, h5]; cases m.payload <;> simp [macStructure_congr _ _ _ _ _ hpb]
  exact ⟨_, m', h1, h2, t1, h6, by intro ρ aad V; simp [CoseMac0.verifyTag, t1, h6]⟩

theorem mac_wire (m : CoseMac) (hp : ProtectedHeader.WF maxNest m.protected_) (hu : Header.WF maxNest m.unprotected) (hr : rcpsWF m.recipients) :
    ∃ x m', m.toValue = .ok x ∧ CoseMac.fromValue x = .ok m' ∧ (∀ aad, m'.tbm aad = m.tbm aad) ∧ m'.tag = m.tag ∧
      (∀ {ρ : Type} aad (V : Bytes → Bytes → ρ), m'.verifyTag aad V = m.verifyTag aad V) := by
  obtain ⟨b, y, ys, m', h1, h2, _, _, h5, h6, _, h7⟩ := mac_rt m hp hu hr
  have hb : ProtectedHeader.cborBstr m.protected_ = .ok (.bytes b) := by
    simp only [CoseMac.toValue] at h1
    cases hs' : headerSlots m.protected_ m.unprotected with
    | ok hsl =>
      obtain ⟨pv, uv, rfl, g1, _⟩ := headerSlots_ok _ _ _ hs'
      simp only [hs'] at h1
      cases hx : recipientsToValues m.recipients with
      | ok t => simp [hx] at h1; rw [← h1.1]; exact g1
      | err e => simp [hx] at h1
      | panic q => simp [hx] at h1
    | err e => simp [hs'] at h1
    | panic q => simp [hs'] at h1
  have hpb : ProtectedHeader.cborBstr m'.protected_ = ProtectedHeader.cborBstr m.protected_ := by rw [hb, cborBstr_of_orig _ b h7]
  have t1 : ∀ aad, m'.tbm aad = m.tbm aad := by
    intro aad; simp only [CoseMac.tbm, h5]; cases m.payload <;> simp [macStructure_congr _ _ _ _ _ hpb]
  exact ⟨_, m', h1, h2, t1, h6, by intro ρ aad V; simp [CoseMac.verifyTag, t1, h6]⟩

theorem encrypt0_wire (m : CoseEncrypt0) (hp : ProtectedHeader.WF maxNest m.protected_) (hu : Header.WF maxNest m.unprotected) :
    ∃ x m', m.toValue = .ok x ∧ CoseEncrypt0.fromValue x = .ok m' ∧ m'.ciphertext = m.ciphertext ∧
      (∀ {ρ : Type} aad (D : Bytes → Bytes → ρ), m'.decrypt aad D = m.decrypt aad D) := by
  obtain ⟨b, y, m', h1, h2, _, _, h5, h7⟩ := encrypt0_rt m hp hu
  have hb : ProtectedHeader.cborBstr m.protected_ = .ok (.bytes b) := first_slot _ _ _ _ _ _ rfl h1
  have hpb : ProtectedHeader.cborBstr m'.protected_ = ProtectedHeader.cborBstr m.protected_ := by rw [hb, cborBstr_of_orig _ b h7]
  exact ⟨_, m', h1, h2, h5, by intro ρ aad D; simp only [CoseEncrypt0.decrypt, h5, encStructure_congr _ _ _ _ hpb]⟩

theorem encrypt_wire (m : CoseEncrypt) (hp : ProtectedHeader.WF maxNest m.protected_) (hu : Header.WF maxNest m.unprotected) (hr : rcpsWF m.recipients) :
    ∃ x m', m.toValue = .ok x ∧ CoseEncrypt.fromValue x = .ok m' ∧ m'.ciphertext = m.ciphertext ∧
      (∀ {ρ : Type} aad (D : Bytes → Bytes → ρ), m'.decrypt aad D = m.decrypt aad D) := by
  obtain ⟨b, y, ys, m', h1, h2, _, _, h5, _, h7⟩ := encrypt_rt m hp hu hr
  have hb : ProtectedHeader.cborBstr m.protected_ = .ok (.bytes b) := by
    simp only [CoseEncrypt.toValue] at h1
    cases hs' : headerSlots m.protected_ m.unprotected with
    | ok hsl =>
      obtain ⟨pv, uv, rfl, g1, _⟩ := headerSlots_ok _ _ _ hs'
      simp only [hs'] at h1
      cases hx : recipientsToValues m.recipients with
      | ok t => simp [hx] at h1; rw [← h1.1]; exact g1
      | err e => simp [hx] at h1
      | panic q => simp [hx] at h1
    | err e => simp [hs'] at h1
    | panic q => simp [hs'] at h1
  have hpb : ProtectedHeader.cborBstr m'.protected_ = ProtectedHeader.cborBstr m.protected_ := by rw [hb, cborBstr_of_orig _ b h7]
  exact ⟨_, m', h1, h2, h5, by intro ρ aad D; simp only [CoseEncrypt.decrypt, h5, encStructure_congr _ _ _ _ hpb]⟩

theorem recipient_wire (r : CoseRecipient) (hw : r.WF) :
    ∃ x r', r.toValue = .ok x ∧ rcpFromValue x = .ok r' ∧ r'.ciphertext = r.ciphertext ∧
      (∀ {ρ : Type} ctx aad (D : Bytes → Bytes → ρ), r'.decrypt ctx aad D = r.decrypt ctx aad D) := by
  obtain ⟨x, r', h1, h2, h3, h4⟩ := rcp_rt_same r hw
  exact ⟨x, r', h1, h2, h4, by intro ρ ctx aad D; simp only [CoseRecipient.decrypt, h4, encStructure_congr _ _ _ _ h3]⟩

/-! ### (1) creation: the caller's function gets the structure bytes of the current state; its result is stored -/

theorem sign1_create (m : CoseSign1) (aad tbs : Bytes) (signer : Bytes → Bytes) (ht : m.tbsData aad = .ok tbs) :
    Sign1Op.apply m (.createSignature aad signer) = .next { m with signature := signer tbs } := by simp [Sign1Op.apply, ht, Step.ofRes]
theorem sign1_create_detached (m : CoseSign1) (pl aad tbs : Bytes) (signer : Bytes → Bytes) (ht : m.tbsDetachedData pl aad = .ok tbs) :
    Sign1Op.apply m (.createDetachedSignature pl aad signer) = .next { m with signature := signer tbs } := by simp [Sign1Op.apply, ht, Step.ofRes]
/-- fallible variants: success stores the result exactly as the infallible one; failure returns the caller's error and no builder. -/
theorem sign1_try_create (m : CoseSign1) (aad tbs : Bytes) (signer : Bytes → Except Nat Bytes) (ht : m.tbsData aad = .ok tbs) :
    (∀ sig, signer tbs = .ok sig → Sign1Op.apply m (.tryCreateSignature aad signer) = .next { m with signature := sig }) ∧
    (∀ n, signer tbs = .error n → Sign1Op.apply m (.tryCreateSignature aad signer) = .fail n) := by
  constructor <;> intro x hx <;> simp [Sign1Op.apply, ht, Step.ofRes, hx]
theorem sign1_try_create_detached (m : CoseSign1) (pl aad tbs : Bytes) (signer : Bytes → Except Nat Bytes) (ht : m.tbsDetachedData pl aad = .ok tbs) :
    (∀ sig, signer tbs = .ok sig → Sign1Op.apply m (.tryCreateDetachedSignature pl aad signer) = .next { m with signature := sig }) ∧
    (∀ n, signer tbs = .error n → Sign1Op.apply m (.tryCreateDetachedSignature pl aad signer) = .fail n) := by
  constructor <;> intro x hx <;> simp [Sign1Op.apply, ht, Step.ofRes, hx]

theorem sign_add_created (m : CoseSign) (s : CoseSignature) (aad tbs : Bytes) (signer : Bytes → Bytes) (ht : m.tbsData aad s = .ok tbs) :
    SignOp.apply m (.addCreatedSignature s aad signer) = .next { m with signatures := m.signatures ++ [withSignature s (signer tbs)] } := by
  simp [SignOp.apply, ht, Step.ofRes]
theorem sign_add_detached (m : CoseSign) (s : CoseSignature) (pl aad tbs : Bytes) (signer : Bytes → Bytes) (ht : m.tbsDetachedData pl aad s = .ok tbs) :
    SignOp.apply m (.addDetachedSignature s pl aad signer) = .next { m with signatures := m.signatures ++ [withSignature s (signer tbs)] } := by
  simp [SignOp.apply, ht, Step.ofRes]
theorem sign_try_add (m : CoseSign) (s : CoseSignature) (aad tbs : Bytes) (signer : Bytes → Except Nat Bytes) (ht : m.tbsData aad s = .ok tbs) :
    (∀ sig, signer tbs = .ok sig →
      SignOp.apply m (.tryAddCreatedSignature s aad signer) = .next { m with signatures := m.signatures ++ [withSignature s sig] }) ∧
    (∀ n, signer tbs = .error n → SignOp.apply m (.tryAddCreatedSignature s aad signer) = .fail n) := by
  constructor <;> intro x hx <;> simp [SignOp.apply, ht, Step.ofRes, hx]
theorem sign_try_add_detached (m : CoseSign) (s : CoseSignature) (pl aad tbs : Bytes) (signer : Bytes → Except Nat Bytes)
    (ht : m.tbsDetachedData pl aad s = .ok tbs) :
    (∀ sig, signer tbs = .ok sig →
      SignOp.apply m (.tryAddDetachedSignature s pl aad signer) = .next { m with signatures := m.signatures ++ [withSignature s sig] }) ∧
    (∀ n, signer tbs = .error n → SignOp.apply m (.tryAddDetachedSignature s pl aad signer) = .fail n) := by
  constructor <;> intro x hx <;> simp [SignOp.apply, ht, Step.ofRes, hx]

theorem mac_create (m : CoseMac) (aad t : Bytes) (f : Bytes → Bytes) (ft : Bytes → Except Nat Bytes) (ht : m.tbm aad = .ok t) :
    MacOp.apply m (.createTag aad f) = .next { m with tag := f t } ∧
    (∀ tag, ft t = .ok tag → MacOp.apply m (.tryCreateTag aad ft) = .next { m with tag := tag }) ∧
    (∀ n, ft t = .error n → MacOp.apply m (.tryCreateTag aad ft) = .fail n) := by
  refine ⟨by simp [MacOp.apply, ht, Step.ofRes], ?_, ?_⟩ <;> intro x hx <;> simp [MacOp.apply, ht, Step.ofRes, hx]
theorem mac0_create (m : CoseMac0) (aad t : Bytes) (f : Bytes → Bytes) (ft : Bytes → Except Nat Bytes) (ht : m.tbm aad = .ok t) :
    Mac0Op.apply m (.createTag aad f) = .next { m with tag := f t } ∧
    (∀ tag, ft t = .ok tag → Mac0Op.apply m (.tryCreateTag aad ft) = .next { m with tag := tag }) ∧
    (∀ n, ft t = .error n → Mac0Op.apply m (.tryCreateTag aad ft) = .fail n) := by
  refine ⟨by simp [Mac0Op.apply, ht, Step.ofRes], ?_, ?_⟩ <;> intro x hx <;> simp [Mac0Op.apply, ht, Step.ofRes, hx]

theorem encrypt_create (m : CoseEncrypt) (pt aad a : Bytes) (f : Bytes → Bytes → Bytes) (ft : Bytes → Bytes → Except Nat Bytes)
    (ha : encStructureData .coseEncrypt m.protected_ aad = .ok a) :
    EncryptOp.apply m (.createCiphertext pt aad f) = .next { m with ciphertext := some (f pt a) } ∧
    (∀ ct, ft pt a = .ok ct → EncryptOp.apply m (.tryCreateCiphertext pt aad ft) = .next { m with ciphertext := some ct }) ∧
    (∀ n, ft pt a = .error n → EncryptOp.apply m (.tryCreateCiphertext pt aad ft) = .fail n) := by
  refine ⟨by simp [EncryptOp.apply, ha, Step.ofRes], ?_, ?_⟩ <;> intro x hx <;> simp [EncryptOp.apply, ha, Step.ofRes, hx]
theorem encrypt0_create (m : CoseEncrypt0) (pt aad a : Bytes) (f : Bytes → Bytes → Bytes) (ft : Bytes → Bytes → Except Nat Bytes)
    (ha : encStructureData .coseEncrypt0 m.protected_ aad = .ok a) :
    Encrypt0Op.apply m (.createCiphertext pt aad f) = .next { m with ciphertext := some (f pt a) } ∧
    (∀ ct, ft pt a = .ok ct → Encrypt0Op.apply m (.tryCreateCiphertext pt aad ft) = .next { m with ciphertext := some ct }) ∧
    (∀ n, ft pt a = .error n → Encrypt0Op.apply m (.tryCreateCiphertext pt aad ft) = .fail n) := by
  refine ⟨by simp [Encrypt0Op.apply, ha, Step.ofRes], ?_, ?_⟩ <;> intro x hx <;> simp [Encrypt0Op.apply, ha, Step.ofRes, hx]
theorem recipient_create (m : CoseRecipient) (ctx : EncryptionContext) (pt aad a : Bytes) (f : Bytes → Bytes → Bytes)
    (ft : Bytes → Bytes → Except Nat Bytes) (hr : ctx.isRecipient = true) (ha : encStructureData ctx m.protected_ aad = .ok a) :
    RecipientOp.apply m (.createCiphertext ctx pt aad f) = .next (.mk m.protected_ m.unprotected (some (f pt a)) m.recipients) ∧
    (∀ ct, ft pt a = .ok ct → RecipientOp.apply m (.tryCreateCiphertext ctx pt aad ft) = .next (.mk m.protected_ m.unprotected (some ct) m.recipients)) ∧
    (∀ n, ft pt a = .error n → RecipientOp.apply m (.tryCreateCiphertext ctx pt aad ft) = .fail n) := by
  refine ⟨by simp [RecipientOp.apply, recipientAad, hr, ha, Step.ofRes], ?_, ?_⟩ <;> intro x hx <;>
    simp [RecipientOp.apply, recipientAad, hr, ha, Step.ofRes, hx]

/-! ### (2) histories: later calls that do not touch the protected header, the payload or the stored result -/

theorem runOps_preserves {β ο : Type} (apply : β → ο → Step β) (P : β → β → Prop) (hrefl : ∀ b, P b b) (htrans : ∀ a b c, P a b → P b c → P a c)
    (ok : ο → Bool) (hstep : ∀ b o b', ok o = true → apply b o = .next b' → P b b') :
    ∀ (ops : List ο) (b b' : β) (i j : Nat), ops.all ok = true → runOps apply ops b i = (.next b', j) → P b b' := by
  intro ops
  induction ops with
  | nil => intro b b' i j _ h; simp [runOps] at h; rw [h.1]; exact hrefl _
  | cons o os ih =>
    intro b b' i j hall h
    simp only [List.all_cons, Bool.and_eq_true] at hall
    simp only [runOps] at h
    cases ha : apply b o with
    | next b1 => simp only [ha] at h; exact htrans _ _ _ (hstep b o b1 hall.1 ha) (ih b1 b' _ j hall.2 h)
    | fail n => simp [ha] at h
    | panic q => simp [ha] at h

def Sign1Op.keeps : Sign1Op → Bool | .unprotected _ => true | _ => false
def SignOp.keeps : SignOp → Bool | .protected_ _ => false | .payload _ => false | _ => true
def Mac0Op.keeps : Mac0Op → Bool | .unprotected _ => true | _ => false
def MacOp.keeps : MacOp → Bool | .unprotected _ => true | .addRecipient _ => true | _ => false
def Encrypt0Op.keeps : Encrypt0Op → Bool | .unprotected _ => true | _ => false
def EncryptOp.keeps : EncryptOp → Bool | .unprotected _ => true | .addRecipient _ => true | _ => false

theorem sign1_history (ops : List Sign1Op) (m m' : CoseSign1) (i j : Nat) (hk : ops.all Sign1Op.keeps = true)
    (h : runOps Sign1Op.apply ops m i = (.next m', j)) : m'.protected_ = m.protected_ ∧ m'.payload = m.payload ∧ m'.signature = m.signature :=
  runOps_preserves Sign1Op.apply (fun a b => b.protected_ = a.protected_ ∧ b.payload = a.payload ∧ b.signature = a.signature)
    (fun _ => ⟨rfl, rfl, rfl⟩) (fun a b c h1 h2 => ⟨h2.1.trans h1.1, h2.2.1.trans h1.2.1, h2.2.2.trans h1.2.2⟩) Sign1Op.keeps
    (by intro b o b' ho ha; cases o <;> simp [Sign1Op.keeps] at ho; simp [Sign1Op.apply] at ha; subst ha; exact ⟨rfl, rfl, rfl⟩) ops m m' i j hk h

theorem mac0_history (ops : List Mac0Op) (m m' : CoseMac0) (i j : Nat) (hk : ops.all Mac0Op.keeps = true)
    (h : runOps Mac0Op.apply ops m i = (.next m', j)) : m'.protected_ = m.protected_ ∧ m'.payload = m.payload ∧ m'.tag = m.tag :=
  runOps_preserves Mac0Op.apply (fun a b => b.protected_ = a.protected_ ∧ b.payload = a.payload ∧ b.tag = a.tag)
    (fun _ => ⟨rfl, rfl, rfl⟩) (fun a b c h1 h2 => ⟨h2.1.trans h1.1, h2.2.1.trans h1.2.1, h2.2.2.trans h1.2.2⟩) Mac0Op.keeps
    (by intro b o b' ho ha; cases o <;> simp [Mac0Op.keeps] at ho; simp [Mac0Op.apply] at ha; subst ha; exact ⟨rfl, rfl, rfl⟩) ops m m' i j hk h

theorem mac_history (ops : List MacOp) (m m' : CoseMac) (i j : Nat) (hk : ops.all MacOp.keeps = true)
    (h : runOps MacOp.apply ops m i = (.next m', j)) : m'.protected_ = m.protected_ ∧ m'.payload = m.payload ∧ m'.tag = m.tag :=
  runOps_preserves MacOp.apply (fun a b => b.protected_ = a.protected_ ∧ b.payload = a.payload ∧ b.tag = a.tag)
    (fun _ => ⟨rfl, rfl, rfl⟩) (fun a b c h1 h2 => ⟨h2.1.trans h1.1, h2.2.1.trans h1.2.1, h2.2.2.trans h1.2.2⟩) MacOp.keeps
    (by intro b o b' ho ha; cases o <;> simp [MacOp.keeps] at ho <;> (simp [MacOp.apply] at ha; subst ha; exact ⟨rfl, rfl, rfl⟩)) ops m m' i j hk h

theorem encrypt0_history (ops : List Encrypt0Op) (m m' : CoseEncrypt0) (i j : Nat) (hk : ops.all Encrypt0Op.keeps = true)
    (h : runOps Encrypt0Op.apply ops m i = (.next m', j)) : m'.protected_ = m.protected_ ∧ m'.ciphertext = m.ciphertext :=
  runOps_preserves Encrypt0Op.apply (fun a b => b.protected_ = a.protected_ ∧ b.ciphertext = a.ciphertext)
    (fun _ => ⟨rfl, rfl⟩) (fun a b c h1 h2 => ⟨h2.1.trans h1.1, h2.2.trans h1.2⟩) Encrypt0Op.keeps
    (by intro b o b' ho ha; cases o <;> simp [Encrypt0Op.keeps] at ho; simp [Encrypt0Op.apply] at ha; subst ha; exact ⟨rfl, rfl⟩) ops m m' i j hk h

theorem encrypt_history (ops : List EncryptOp) (m m' : CoseEncrypt) (i j : Nat) (hk : ops.all EncryptOp.keeps = true)
    (h : runOps EncryptOp.apply ops m i = (.next m', j)) : m'.protected_ = m.protected_ ∧ m'.ciphertext = m.ciphertext :=
  runOps_preserves EncryptOp.apply (fun a b => b.protected_ = a.protected_ ∧ b.ciphertext = a.ciphertext)
    (fun _ => ⟨rfl, rfl⟩) (fun a b c h1 h2 => ⟨h2.1.trans h1.1, h2.2.trans h1.2⟩) EncryptOp.keeps
    (by intro b o b' ho ha; cases o <;> simp [EncryptOp.keeps] at ho <;> (simp [EncryptOp.apply] at ha; subst ha; exact ⟨rfl, rfl⟩)) ops m m' i j hk h

/-- COSE_Sign: later calls (more signers of any kind, unprotected header) keep the body protected header, the payload and every signer
    already added, at its index. -/
theorem sign_history (ops : List SignOp) (m m' : CoseSign) (i j : Nat) (hk : ops.all SignOp.keeps = true)
    (h : runOps SignOp.apply ops m i = (.next m', j)) : m'.protected_ = m.protected_ ∧ m'.payload = m.payload ∧ m.signatures <+: m'.signatures :=
  runOps_preserves SignOp.apply (fun a b => b.protected_ = a.protected_ ∧ b.payload = a.payload ∧ a.signatures <+: b.signatures)
    (fun _ => ⟨rfl, rfl, List.prefix_refl _⟩) (fun a b c h1 h2 => ⟨h2.1.trans h1.1, h2.2.1.trans h1.2.1, List.IsPrefix.trans h1.2.2 h2.2.2⟩) SignOp.keeps
    (by
      intro b o b' ho ha
      cases o with
      | protected_ h => simp [SignOp.keeps] at ho
      | payload p => simp [SignOp.keeps] at ho
      | unprotected h => simp [SignOp.apply] at ha; subst ha; exact ⟨rfl, rfl, List.prefix_refl _⟩
      | addSignature s => simp [SignOp.apply] at ha; subst ha; exact ⟨rfl, rfl, List.prefix_append _ _⟩
      | addCreatedSignature s aad f =>
        simp only [SignOp.apply, Step.ofRes] at ha
        cases ht : b.tbsData aad s <;> simp [ht] at ha
        subst ha; exact ⟨rfl, rfl, List.prefix_append _ _⟩
      | addDetachedSignature s pl aad f =>
        simp only [SignOp.apply, Step.ofRes] at ha
        cases ht : b.tbsDetachedData pl aad s <;> simp [ht] at ha
        subst ha; exact ⟨rfl, rfl, List.prefix_append _ _⟩
      | tryAddCreatedSignature s aad f =>
        simp only [SignOp.apply, Step.ofRes] at ha
        cases ht : b.tbsData aad s <;> simp [ht] at ha
        rename_i t
        cases hf : f t <;> simp [hf] at ha
        subst ha; exact ⟨rfl, rfl, List.prefix_append _ _⟩
      | tryAddDetachedSignature s pl aad f =>
        simp only [SignOp.apply, Step.ofRes] at ha
        cases ht : b.tbsDetachedData pl aad s <;> simp [ht] at ha
        rename_i t
        cases hf : f t <;> simp [hf] at ha
        subst ha; exact ⟨rfl, rfl, List.prefix_append _ _⟩) ops m m' i j hk h

/-! ### end to end: create, any later harmless calls, encode, decode, verify -/

theorem sign1_end_to_end {ρ : Type} (m0 m : CoseSign1) (aad tbs : Bytes) (signer : Bytes → Bytes) (post : List Sign1Op) (i j : Nat)
    (ht : m0.tbsData aad = .ok tbs) (hk : post.all Sign1Op.keeps = true)
    (hrun : runOps Sign1Op.apply (.createSignature aad signer :: post) m0 i = (.next m, j))
    (hp : ProtectedHeader.WF maxNest m.protected_) (hu : Header.WF maxNest m.unprotected) (V : Bytes → Bytes → ρ) :
    ∃ x m', m.toValue = .ok x ∧ CoseSign1.fromValue x = .ok m' ∧ m'.verifySignature aad V = .ok (V (signer tbs) tbs) := by
  simp only [runOps, sign1_create m0 aad tbs signer ht] at hrun
  obtain ⟨e1, e2, e3⟩ := sign1_history post _ m _ j hk hrun
  obtain ⟨x, m', h1, h2, _, _, _, h6, _⟩ := sign1_wire m hp hu
  refine ⟨x, m', h1, h2, ?_⟩
  rw [h6 aad V]
  have : m.tbsData aad = .ok tbs := by simp only [CoseSign1.tbsData, e1, e2]; exact ht
  rw [C03.verify_passes m aad V tbs this, e3]

theorem sign1_detached_end_to_end {ρ : Type} (m0 m : CoseSign1) (pl aad tbs : Bytes) (signer : Bytes → Bytes) (post : List Sign1Op) (i j : Nat)
    (ht : m0.tbsDetachedData pl aad = .ok tbs) (hk : post.all Sign1Op.keeps = true)
    (hrun : runOps Sign1Op.apply (.createDetachedSignature pl aad signer :: post) m0 i = (.next m, j))
    (hp : ProtectedHeader.WF maxNest m.protected_) (hu : Header.WF maxNest m.unprotected) (V : Bytes → Bytes → ρ) :
    ∃ x m', m.toValue = .ok x ∧ CoseSign1.fromValue x = .ok m' ∧ m'.verifyDetachedSignature pl aad V = .ok (V (signer tbs) tbs) := by
  simp only [runOps, sign1_create_detached m0 pl aad tbs signer ht] at hrun
  obtain ⟨e1, e2, e3⟩ := sign1_history post _ m _ j hk hrun
  obtain ⟨x, m', h1, h2, _, _, _, _, h7⟩ := sign1_wire m hp hu
  refine ⟨x, m', h1, h2, ?_⟩
  rw [h7 pl aad V]
  have : m.tbsDetachedData pl aad = .ok tbs := by simp only [CoseSign1.tbsDetachedData, e1, e2]; exact ht
  simp [CoseSign1.verifyDetachedSignature, this, e3]

/-- COSE_Sign: the signer added by `add_created_signature` when `n` signers were present is verified at index `n`, whatever is added later. -/
theorem sign_end_to_end {ρ : Type} (m0 m : CoseSign) (s : CoseSignature) (aad tbs : Bytes) (signer : Bytes → Bytes) (post : List SignOp) (i j : Nat)
    (ht : m0.tbsData aad s = .ok tbs) (hk : post.all SignOp.keeps = true)
    (hrun : runOps SignOp.apply (.addCreatedSignature s aad signer :: post) m0 i = (.next m, j))
    (hp : ProtectedHeader.WF maxNest m.protected_) (hu : Header.WF maxNest m.unprotected) (hs : sigsWF maxNest m.signatures) (V : Bytes → Bytes → ρ) :
    ∃ x m', m.toValue = .ok x ∧ CoseSign.fromValue x = .ok m' ∧ m'.verifySignature m0.signatures.length aad V = .ok (V (signer tbs) tbs) := by
  simp only [runOps, sign_add_created m0 s aad tbs signer ht] at hrun
  obtain ⟨e1, e2, e3⟩ := sign_history post _ m _ j hk hrun
  obtain ⟨x, m', h1, h2, _, h4, _⟩ := sign_wire m hp hu hs
  refine ⟨x, m', h1, h2, ?_⟩
  rw [h4 m0.signatures.length aad V]
  obtain ⟨rest, hrest⟩ := e3
  have hidx : m.signatures[m0.signatures.length]? = some (withSignature s (signer tbs)) := by
    rw [← hrest]; simp
  have : m.tbsData aad (withSignature s (signer tbs)) = .ok tbs := by
    simp only [CoseSign.tbsData, e1, e2, withSignature, CoseSignature.protected_] at ht ⊢; exact ht
  rw [C03.verify_passes_sign m _ aad V _ tbs hidx this]
  simp [withSignature, CoseSignature.signature]

theorem mac0_end_to_end {ρ : Type} (m0 m : CoseMac0) (aad t : Bytes) (f : Bytes → Bytes) (post : List Mac0Op) (i j : Nat)
    (ht : m0.tbm aad = .ok t) (hk : post.all Mac0Op.keeps = true)
    (hrun : runOps Mac0Op.apply (.createTag aad f :: post) m0 i = (.next m, j))
    (hp : ProtectedHeader.WF maxNest m.protected_) (hu : Header.WF maxNest m.unprotected) (V : Bytes → Bytes → ρ) :
    ∃ x m', m.toValue = .ok x ∧ CoseMac0.fromValue x = .ok m' ∧ m'.verifyTag aad V = .ok (V (f t) t) := by
  simp only [runOps, (mac0_create m0 aad t f (fun _ => .error 0) ht).1] at hrun
  obtain ⟨e1, e2, e3⟩ := mac0_history post _ m _ j hk hrun
  obtain ⟨x, m', h1, h2, _, _, h5⟩ := mac0_wire m hp hu
  refine ⟨x, m', h1, h2, ?_⟩
  rw [h5 aad V]
  have : m.tbm aad = .ok t := by simp only [CoseMac0.tbm, e1, e2]; exact ht
  rw [C04.verify_passes0 m aad V t this, e3]

theorem mac_end_to_end {ρ : Type} (m0 m : CoseMac) (aad t : Bytes) (f : Bytes → Bytes) (post : List MacOp) (i j : Nat)
    (ht : m0.tbm aad = .ok t) (hk : post.all MacOp.keeps = true)
    (hrun : runOps MacOp.apply (.createTag aad f :: post) m0 i = (.next m, j))
    (hp : ProtectedHeader.WF maxNest m.protected_) (hu : Header.WF maxNest m.unprotected) (hr : rcpsWF m.recipients) (V : Bytes → Bytes → ρ) :
    ∃ x m', m.toValue = .ok x ∧ CoseMac.fromValue x = .ok m' ∧ m'.verifyTag aad V = .ok (V (f t) t) := by
  simp only [runOps, (mac_create m0 aad t f (fun _ => .error 0) ht).1] at hrun
  obtain ⟨e1, e2, e3⟩ := mac_history post _ m _ j hk hrun
  obtain ⟨x, m', h1, h2, _, _, h5⟩ := mac_wire m hp hu hr
  refine ⟨x, m', h1, h2, ?_⟩
  rw [h5 aad V]
  have : m.tbm aad = .ok t := by simp only [CoseMac.tbm, e1, e2]; exact ht
  rw [C04.verify_passes m aad V t this, e3]

theorem encrypt0_end_to_end {ρ : Type} (m0 m : CoseEncrypt0) (pt aad a : Bytes) (f : Bytes → Bytes → Bytes) (post : List Encrypt0Op) (i j : Nat)
    (ha : encStructureData .coseEncrypt0 m0.protected_ aad = .ok a) (hk : post.all Encrypt0Op.keeps = true)
    (hrun : runOps Encrypt0Op.apply (.createCiphertext pt aad f :: post) m0 i = (.next m, j))
    (hp : ProtectedHeader.WF maxNest m.protected_) (hu : Header.WF maxNest m.unprotected) (D : Bytes → Bytes → ρ) :
    ∃ x m', m.toValue = .ok x ∧ CoseEncrypt0.fromValue x = .ok m' ∧ m'.decrypt aad D = .ok (D (f pt a) a) := by
  simp only [runOps, (encrypt0_create m0 pt aad a f (fun _ _ => .error 0) ha).1] at hrun
  obtain ⟨e1, e2⟩ := encrypt0_history post _ m _ j hk hrun
  obtain ⟨x, m', h1, h2, _, h4⟩ := encrypt0_wire m hp hu
  refine ⟨x, m', h1, h2, ?_⟩
  rw [h4 aad D]
  simp only [CoseEncrypt0.decrypt, e1, e2, ha]

theorem encrypt_end_to_end {ρ : Type} (m0 m : CoseEncrypt) (pt aad a : Bytes) (f : Bytes → Bytes → Bytes) (post : List EncryptOp) (i j : Nat)
    (ha : encStructureData .coseEncrypt m0.protected_ aad = .ok a) (hk : post.all EncryptOp.keeps = true)
    (hrun : runOps EncryptOp.apply (.createCiphertext pt aad f :: post) m0 i = (.next m, j))
    (hp : ProtectedHeader.WF maxNest m.protected_) (hu : Header.WF maxNest m.unprotected) (hr : rcpsWF m.recipients) (D : Bytes → Bytes → ρ) :
    ∃ x m', m.toValue = .ok x ∧ CoseEncrypt.fromValue x = .ok m' ∧ m'.decrypt aad D = .ok (D (f pt a) a) := by
  simp only [runOps, (encrypt_create m0 pt aad a f (fun _ _ => .error 0) ha).1] at hrun
  obtain ⟨e1, e2⟩ := encrypt_history post _ m _ j hk hrun
  obtain ⟨x, m', h1, h2, _, h4⟩ := encrypt_wire m hp hu hr
  refine ⟨x, m', h1, h2, ?_⟩
  rw [h4 aad D]
  simp only [CoseEncrypt.decrypt, e1, e2, ha]

/-! ### (4) sensitivity: different AAD, payload or protected bytes give different bytes -/

theorem sign1_sensitive (m1 m2 : CoseSign1) (aad1 aad2 b1 b2 : Bytes)
    (h1 : ProtectedHeader.cborBstr m1.protected_ = .ok (.bytes b1)) (h2 : ProtectedHeader.cborBstr m2.protected_ = .ok (.bytes b2))
    (l1 : b1.length < 2 ^ 64 ∧ aad1.length < 2 ^ 64 ∧ (m1.payload.getD []).length < 2 ^ 64)
    (l2 : b2.length < 2 ^ 64 ∧ aad2.length < 2 ^ 64 ∧ (m2.payload.getD []).length < 2 ^ 64)
    (h : m1.tbsData aad1 = m2.tbsData aad2) : b1 = b2 ∧ aad1 = aad2 ∧ m1.payload.getD [] = m2.payload.getD [] := by
  rw [C03.sign1_tbs m1 aad1 b1 h1, C03.sign1_tbs m2 aad2 b2 h2] at h
  simp only [Res.ok.injEq] at h
  rw [← C03.contexts.2.1] at h
  have := (C03.injective .coseSign1 .coseSign1 _ _ (by simp; omega) (by simp; omega) h).2
  simpa using this

theorem sign_sensitive (m1 m2 : CoseSign) (g1 g2 : CoseSignature) (aad1 aad2 b1 b2 s1 s2 : Bytes)
    (h1 : ProtectedHeader.cborBstr m1.protected_ = .ok (.bytes b1)) (h2 : ProtectedHeader.cborBstr m2.protected_ = .ok (.bytes b2))
    (k1 : ProtectedHeader.cborBstr g1.protected_ = .ok (.bytes s1)) (k2 : ProtectedHeader.cborBstr g2.protected_ = .ok (.bytes s2))
    (l1 : b1.length < 2 ^ 64 ∧ s1.length < 2 ^ 64 ∧ aad1.length < 2 ^ 64 ∧ (m1.payload.getD []).length < 2 ^ 64)
    (l2 : b2.length < 2 ^ 64 ∧ s2.length < 2 ^ 64 ∧ aad2.length < 2 ^ 64 ∧ (m2.payload.getD []).length < 2 ^ 64)
    (h : m1.tbsData aad1 g1 = m2.tbsData aad2 g2) : b1 = b2 ∧ s1 = s2 ∧ aad1 = aad2 ∧ m1.payload.getD [] = m2.payload.getD [] := by
  rw [C03.sign_tbs m1 g1 aad1 b1 s1 h1 k1, C03.sign_tbs m2 g2 aad2 b2 s2 h2 k2] at h
  simp only [Res.ok.injEq] at h
  rw [← C03.contexts.1] at h
  have := (C03.injective .coseSignature .coseSignature _ _ (by simp; omega) (by simp; omega) h).2
  simpa using this

theorem mac_sensitive (m1 m2 : CoseMac) (aad1 aad2 b1 b2 p1 p2 : Bytes)
    (h1 : ProtectedHeader.cborBstr m1.protected_ = .ok (.bytes b1)) (h2 : ProtectedHeader.cborBstr m2.protected_ = .ok (.bytes b2))
    (q1 : m1.payload = some p1) (q2 : m2.payload = some p2)
    (l1 : b1.length < 2 ^ 64 ∧ aad1.length < 2 ^ 64 ∧ p1.length < 2 ^ 64) (l2 : b2.length < 2 ^ 64 ∧ aad2.length < 2 ^ 64 ∧ p2.length < 2 ^ 64)
    (h : m1.tbm aad1 = m2.tbm aad2) : b1 = b2 ∧ aad1 = aad2 ∧ p1 = p2 := by
  rw [C04.mac_tbm m1 aad1 b1 p1 h1 q1, C04.mac_tbm m2 aad2 b2 p2 h2 q2] at h
  simp only [Res.ok.injEq] at h
  rw [← C04.contexts.1] at h
  have := (C04.injective .coseMac .coseMac _ _ (by simp; omega) (by simp; omega) h).2
  simpa using this

theorem encrypt_sensitive (c : EncryptionContext) (p1 p2 : ProtectedHeader) (aad1 aad2 b1 b2 : Bytes)
    (h1 : ProtectedHeader.cborBstr p1 = .ok (.bytes b1)) (h2 : ProtectedHeader.cborBstr p2 = .ok (.bytes b2))
    (l1 : b1.length < 2 ^ 64 ∧ aad1.length < 2 ^ 64) (l2 : b2.length < 2 ^ 64 ∧ aad2.length < 2 ^ 64)
    (h : encStructureData c p1 aad1 = encStructureData c p2 aad2) : b1 = b2 ∧ aad1 = aad2 := by
  rw [C05.enc_structure c p1 aad1 b1 h1, C05.enc_structure c p2 aad2 b2 h2] at h
  simp only [Res.ok.injEq] at h
  have := (C05.injective c c _ _ (by simp; omega) (by simp; omega) h).2
  simpa using this

/-! ### the wire at byte level -/

/-- serialising then parsing is `from_cbor_value ∘ to_cbor_value` whenever the emitted value is one the serializer represents faithfully
    (plain and tagged forms); with the `*_wire` theorems this carries every statement above to `to_vec`/`from_slice`. -/
theorem through_bytes {α : Type} (tag : Nat) (conv : Value → Res α) (toV : α → Res Value) (m : α) (x : Value) (hx : toV m = .ok x)
    (hn : Normal (.tag tag x)) (hd : depthOf (.tag tag x) ≤ recursionLimit) :
    (∃ b, toVec toV m = .ok b ∧ fromSlice conv b = conv x) ∧ (∃ b, toTaggedVec tag toV m = .ok b ∧ fromTaggedSlice tag conv b = conv x) := by
  have hn' : Normal x := by simp only [Normal] at hn; exact hn.2.2
  have hd' : depthOf x ≤ recursionLimit := by have := depthOf_le_of_tag tag x; omega
  refine ⟨⟨enc x, by simp [toVec, hx], by simp [fromSlice, readToValue_enc x hn' hd']⟩,
    ⟨enc (.tag tag x), by simp [toTaggedVec, hx], by simp [fromTaggedSlice, readToValue_enc _ hn hd, tryAsTag]⟩⟩


/-! ### the wire at byte level, from conditions on the fields

  For the three single-layer messages the side condition of `through_bytes` is derived from field-level conditions (`…NF`, see C11 (d)):
  serialise with `to_vec`, parse with `from_slice`, and every verification / decryption helper of the parsed message gives what the
  helper of the built message gives — hence (with the creation and history theorems above) hands the caller's function the stored
  signature / tag / ciphertext and exactly the bytes the creating function was given. -/

theorem sign1_wire_bytes (m : CoseSign1) (k : Nat) (hk : k + 2 ≤ recursionLimit)
    (hp : ProtectedHeader.WF maxNest m.protected_) (hu : Header.WF maxNest m.unprotected)
    (hpn : ProtectedHeader.NF m.protected_) (hun : Header.NF k m.unprotected)
    (hpl : ∀ b, m.payload = some b → b.length < 2 ^ 64) (hsg : m.signature.length < 2 ^ 64) :
    ∃ bs m', toVec CoseSign1.toValue m = .ok bs ∧ fromSlice CoseSign1.fromValue bs = .ok m' ∧ m'.signature = m.signature ∧
      (∀ {ρ : Type} aad (V : Bytes → Bytes → ρ), m'.verifySignature aad V = m.verifySignature aad V) ∧
      (∀ {ρ : Type} pl aad (V : Bytes → Bytes → ρ), m'.verifyDetachedSignature pl aad V = m.verifyDetachedSignature pl aad V) := by
  obtain ⟨x, m', h1, h2, _, _, h5, h6, h7⟩ := sign1_wire m hp hu
  obtain ⟨hn, hd⟩ := sign1_emitted_normal m k hk hp hu hpn hun hpl hsg x h1
  exact ⟨enc x, m', by simp only [toVec, h1], by simp only [fromSlice, readToValue_enc x hn hd, h2], h5, h6, h7⟩

theorem mac0_wire_bytes (m : CoseMac0) (k : Nat) (hk : k + 2 ≤ recursionLimit)
    (hp : ProtectedHeader.WF maxNest m.protected_) (hu : Header.WF maxNest m.unprotected)
    (hpn : ProtectedHeader.NF m.protected_) (hun : Header.NF k m.unprotected)
    (hpl : ∀ b, m.payload = some b → b.length < 2 ^ 64) (htg : m.tag.length < 2 ^ 64) :
    ∃ bs m', toVec CoseMac0.toValue m = .ok bs ∧ fromSlice CoseMac0.fromValue bs = .ok m' ∧ m'.tag = m.tag ∧
      (∀ {ρ : Type} aad (V : Bytes → Bytes → ρ), m'.verifyTag aad V = m.verifyTag aad V) := by
  obtain ⟨x, m', h1, h2, _, h5, h6⟩ := mac0_wire m hp hu
  obtain ⟨hn, hd⟩ := mac0_emitted_normal m k hk hp hu hpn hun hpl htg x h1
  exact ⟨enc x, m', by simp only [toVec, h1], by simp only [fromSlice, readToValue_enc x hn hd, h2], h5, h6⟩

theorem encrypt0_wire_bytes (m : CoseEncrypt0) (k : Nat) (hk : k + 2 ≤ recursionLimit)
    (hp : ProtectedHeader.WF maxNest m.protected_) (hu : Header.WF maxNest m.unprotected)
    (hpn : ProtectedHeader.NF m.protected_) (hun : Header.NF k m.unprotected)
    (hct : ∀ b, m.ciphertext = some b → b.length < 2 ^ 64) :
    ∃ bs m', toVec CoseEncrypt0.toValue m = .ok bs ∧ fromSlice CoseEncrypt0.fromValue bs = .ok m' ∧ m'.ciphertext = m.ciphertext ∧
      (∀ {ρ : Type} aad (D : Bytes → Bytes → ρ), m'.decrypt aad D = m.decrypt aad D) := by
  obtain ⟨x, m', h1, h2, h5, h6⟩ := encrypt0_wire m hp hu
  obtain ⟨hn, hd⟩ := encrypt0_emitted_normal m k hk hp hu hpn hun hct x h1
  exact ⟨enc x, m', by simp only [toVec, h1], by simp only [fromSlice, readToValue_enc x hn hd, h2], h5, h6⟩

theorem sign_wire_bytes (m : CoseSign) (k j : Nat) (hk : k + 2 ≤ recursionLimit) (hj : j + 2 ≤ recursionLimit)
    (hp : ProtectedHeader.WF maxNest m.protected_) (hu : Header.WF maxNest m.unprotected) (hs : sigsWF maxNest m.signatures)
    (hpn : ProtectedHeader.NF m.protected_) (hun : Header.NF k m.unprotected) (hsn : sigsNF j m.signatures)
    (hsl : m.signatures.length < 2 ^ 64) (hpl : ∀ b, m.payload = some b → b.length < 2 ^ 64) :
    ∃ bs m', toVec CoseSign.toValue m = .ok bs ∧ fromSlice CoseSign.fromValue bs = .ok m' ∧ m'.signatures.length = m.signatures.length ∧
      (∀ {ρ : Type} i aad (V : Bytes → Bytes → ρ), m'.verifySignature i aad V = m.verifySignature i aad V) ∧
      (∀ {ρ : Type} i pl aad (V : Bytes → Bytes → ρ), m'.verifyDetachedSignature i pl aad V = m.verifyDetachedSignature i pl aad V) := by
  obtain ⟨x, m', h1, h2, h5, h6, h7⟩ := sign_wire m hp hu hs
  obtain ⟨hn, hd⟩ := sign_emitted_normal m k j hk hj hp hu hs hpn hun hsn hsl hpl x h1
  exact ⟨enc x, m', by simp only [toVec, h1], by simp only [fromSlice, readToValue_enc x hn hd, h2], h5, h6, h7⟩

theorem mac_wire_bytes (m : CoseMac) (k j : Nat) (hk : k + 2 ≤ recursionLimit) (hj : j + 2 ≤ recursionLimit)
    (hp : ProtectedHeader.WF maxNest m.protected_) (hu : Header.WF maxNest m.unprotected) (hr : rcpsWF m.recipients)
    (hpn : ProtectedHeader.NF m.protected_) (hun : Header.NF k m.unprotected) (hrn : rcpsNF j m.recipients)
    (hrl : m.recipients.length < 2 ^ 64) (hpl : ∀ b, m.payload = some b → b.length < 2 ^ 64) (htg : m.tag.length < 2 ^ 64) :
    ∃ bs m', toVec CoseMac.toValue m = .ok bs ∧ fromSlice CoseMac.fromValue bs = .ok m' ∧ (∀ aad, m'.tbm aad = m.tbm aad) ∧ m'.tag = m.tag ∧
      (∀ {ρ : Type} aad (V : Bytes → Bytes → ρ), m'.verifyTag aad V = m.verifyTag aad V) := by
  obtain ⟨x, m', h1, h2, h5, h6, h7⟩ := mac_wire m hp hu hr
  obtain ⟨hn, hd⟩ := mac_emitted_normal m k j hk hj hp hu hr hpn hun hrn hrl hpl htg x h1
  exact ⟨enc x, m', by simp only [toVec, h1], by simp only [fromSlice, readToValue_enc x hn hd, h2], h5, h6, h7⟩

theorem encrypt_wire_bytes (m : CoseEncrypt) (k j : Nat) (hk : k + 2 ≤ recursionLimit) (hj : j + 2 ≤ recursionLimit)
    (hp : ProtectedHeader.WF maxNest m.protected_) (hu : Header.WF maxNest m.unprotected) (hr : rcpsWF m.recipients)
    (hpn : ProtectedHeader.NF m.protected_) (hun : Header.NF k m.unprotected) (hrn : rcpsNF j m.recipients)
    (hrl : m.recipients.length < 2 ^ 64) (hct : ∀ b, m.ciphertext = some b → b.length < 2 ^ 64) :
    ∃ bs m', toVec CoseEncrypt.toValue m = .ok bs ∧ fromSlice CoseEncrypt.fromValue bs = .ok m' ∧ m'.ciphertext = m.ciphertext ∧
      (∀ {ρ : Type} aad (D : Bytes → Bytes → ρ), m'.decrypt aad D = m.decrypt aad D) := by
  obtain ⟨x, m', h1, h2, h5, h6⟩ := encrypt_wire m hp hu hr
  obtain ⟨hn, hd⟩ := encrypt_emitted_normal m k j hk hj hp hu hr hpn hun hrn hrl hct x h1
  exact ⟨enc x, m', by simp only [toVec, h1], by simp only [fromSlice, readToValue_enc x hn hd, h2], h5, h6⟩

#print axioms sign_wire_bytes
#print axioms mac_wire_bytes
#print axioms encrypt_wire_bytes
#print axioms sign1_wire_bytes
#print axioms mac0_wire_bytes
#print axioms encrypt0_wire_bytes
#print axioms sign1_wire
#print axioms sign_wire
#print axioms mac0_wire
#print axioms mac_wire
#print axioms encrypt0_wire
#print axioms encrypt_wire
#print axioms recipient_wire
#print axioms sign1_create
#print axioms sign1_create_detached
#print axioms sign1_try_create
#print axioms sign1_try_create_detached
#print axioms sign_add_created
#print axioms sign_add_detached
#print axioms sign_try_add
#print axioms sign_try_add_detached
#print axioms mac_create
#print axioms mac0_create
#print axioms encrypt_create
#print axioms encrypt0_create
#print axioms recipient_create
#print axioms runOps_preserves
#print axioms sign1_history
#print axioms sign_history
#print axioms mac0_history
#print axioms mac_history
#print axioms encrypt0_history
#print axioms encrypt_history
#print axioms sign1_end_to_end
#print axioms sign1_detached_end_to_end
#print axioms sign_end_to_end
#print axioms mac0_end_to_end
#print axioms mac_end_to_end
#print axioms encrypt0_end_to_end
#print axioms encrypt_end_to_end
#print axioms sign1_sensitive
#print axioms sign_sensitive
#print axioms mac_sensitive
#print axioms encrypt_sensitive
#print axioms through_bytes
end Coset.Props.C06
