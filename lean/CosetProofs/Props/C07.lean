import CosetModel.Api
namespace Coset.Props.C07

end Coset.Props.C07
