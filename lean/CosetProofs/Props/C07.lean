/-
  C07 — decode-encode reaches a fixed point in one step and loses nothing.

  Two layers.  (1) `Value` level, unconditional, every type: whatever `from_cbor_value` accepted, `to_cbor_value` of the result
  succeeds and `from_cbor_value` of *that* gives the same result (so a further encode gives the same value again).
  (2) Byte level: the emitted value goes through the serializer and the parser; that is the identity on values the serializer can
  represent faithfully (`Normal`: lengths below 2^64, valid UTF-8, no bignum tag over a short byte string, nesting ≤ 256).
  (3) Byte level without a condition on the emitted value (`bytes_fixed`, `tagged_bytes_fixed` and their instances): what the parser
  returns is `Normal` and within the recursion budget (L6, L7) unless it holds a bignum tag over a short byte string in a form other
  than the canonical one — which can only come from the indefinite-length encoding — and what a decoded structure re-emits is no
  less well-behaved than the wire value (`TameConv`).  So the only hypothesis left is `NoSB` on the *parsed input*: exactly the
  complement of the known finding D3, whose reality `small_bignum_not_fixed` proves.
-/
import CosetProofs.Roundtrip.Messages
import CosetProofs.Roundtrip.Key
import CosetProofs.Roundtrip.Claims
import CosetProofs.Roundtrip.Context
import CosetProofs.Cbor.Roundtrip
import CosetProofs.Roundtrip.TransferKeyClaims
namespace Coset.Props.C07
open Coset Coset.Cbor

/-- what C07 says of one type at `Value` level: accepted ⇒ re-emits ⇒ re-accepted with the same result. -/
def FixedPoint {α : Type} (conv : Value → Res α) (toV : α → Res Value) : Prop :=
  ∀ v t, conv v = .ok t → ∃ x, toV t = .ok x ∧ conv x = .ok t

/-! ### layer 1: every type, `Value` level -/
theorem header : FixedPoint hdrFromValue Header.toValue := fun v h hh => header_fixed _ _ v h hh
theorem header_any_depth (f d : Nat) : FixedPoint (Header.fromValue f d) Header.toValue := fun v h hh => header_fixed f d v h hh
theorem signature : FixedPoint sigFromValue CoseSignature.toValue := fun v s hs => signature_fixed _ _ v s hs
theorem signature_any_depth (f d : Nat) : FixedPoint (CoseSignature.fromValue f d) CoseSignature.toValue := fun v s hs => signature_fixed f d v s hs
/-- protected header inside a message (`from_cbor_bstr` / `cbor_bstr`): the byte string itself is reproduced. -/
theorem protected_bstr (v : Value) (p : ProtectedHeader) (h : phFromBstr v = .ok p) : ProtectedHeader.cborBstr p = .ok v ∧ phFromBstr v = .ok p :=
  ⟨protected_fixed _ _ v p h, h⟩
/-- protected header as a stand-alone value (`AsCborValue`: the header map, no stored bytes). -/
theorem protected_value : FixedPoint ProtectedHeader.fromValue ProtectedHeader.toValue := by
  intro v p hp
  simp only [ProtectedHeader.fromValue] at hp
  cases hh : hdrFromValue v with
  | ok h =>
    simp [hh] at hp; subst hp
    obtain ⟨x, h1, h2⟩ := header v h hh
    exact ⟨x, h1, by simp [ProtectedHeader.fromValue, h2]⟩
  | err e => simp [hh] at hp
  | panic q => simp [hh] at hp
theorem sign1 : FixedPoint CoseSign1.fromValue CoseSign1.toValue := sign1_fixed
theorem sign : FixedPoint CoseSign.fromValue CoseSign.toValue := sign_fixed
theorem mac0 : FixedPoint CoseMac0.fromValue CoseMac0.toValue := mac0_fixed
theorem mac : FixedPoint CoseMac.fromValue CoseMac.toValue := mac_fixed
theorem encrypt0 : FixedPoint CoseEncrypt0.fromValue CoseEncrypt0.toValue := encrypt0_fixed
theorem encrypt : FixedPoint CoseEncrypt.fromValue CoseEncrypt.toValue := encrypt_fixed
theorem recipient : FixedPoint rcpFromValue CoseRecipient.toValue := rcp_fixed
theorem key : FixedPoint CoseKey.fromValue CoseKey.toValue := key_fixed
theorem keyset : FixedPoint CoseKeySet.fromValue CoseKeySet.toValue := keyset_fixed
theorem claims : FixedPoint ClaimsSet.fromValue ClaimsSet.toValue := claims_fixed
theorem party_info : FixedPoint PartyInfo.fromValue PartyInfo.toValue := party_fixed
theorem supp_pub_info : FixedPoint SuppPubInfo.fromValue SuppPubInfo.toValue := supp_fixed
theorem kdf_context : FixedPoint CoseKdfContext.fromValue CoseKdfContext.toValue := kdf_fixed

/-- for the KDF context and its parts the emitted value is the decoded value itself (nothing is normalised). -/
theorem kdf_context_emits_input (v : Value) (k : CoseKdfContext) (h : CoseKdfContext.fromValue v = .ok k) : k.toValue = .ok v := kdf_emit v k h

/-- one step is enough: the value emitted for a decode result is emitted again for the re-decoded result (same result, same function). -/
theorem one_step {α : Type} (conv : Value → Res α) (toV : α → Res Value) (hf : FixedPoint conv toV) (v : Value) (t : α) (h : conv v = .ok t) :
    ∃ x, toV t = .ok x ∧ ∃ t', conv x = .ok t' ∧ toV t' = .ok x := by
  obtain ⟨x, h1, h2⟩ := hf v t h
  exact ⟨x, h1, t, h2, h1⟩

/-! ### layer 2: through the serializer and the parser -/

/-- `from_slice`/`to_vec`: if `b` decodes to `t`, then `t` encodes to some `b'`; when the emitted value is one the serializer
    represents faithfully, `b'` decodes to `t` and encoding that gives `b'` again. -/
theorem bytes_partial {α : Type} (conv : Value → Res α) (toV : α → Res Value) (hf : FixedPoint conv toV) (b : Bytes) (t : α)
    (hd : fromSlice conv b = .ok t) :
    ∃ x, toVec toV t = .ok (enc x) ∧ toV t = .ok x ∧
      (Normal x → depthOf x ≤ recursionLimit → fromSlice conv (enc x) = .ok t ∧ ∀ t', fromSlice conv (enc x) = .ok t' → toVec toV t' = .ok (enc x)) := by
  simp only [fromSlice] at hd
  cases hr : readToValue b with
  | ok v =>
    simp only [hr] at hd
    obtain ⟨x, h1, h2⟩ := hf v t hd
    refine ⟨x, by simp [toVec, h1], h1, ?_⟩
    intro hn hdp
    have hre := readToValue_enc x hn hdp
    refine ⟨by simp [fromSlice, hre, h2], ?_⟩
    intro t' ht'
    simp [fromSlice, hre, h2] at ht'; subst ht'
    simp [toVec, h1]
  | err e => simp [hr] at hd
  | panic q => simp [hr] at hd

theorem tryAsTag_ok (v : Value) (t : Nat) (inner : Value) (h : tryAsTag v = .ok (t, inner)) : v = .tag t inner := by
  cases v <;> simp [tryAsTag, typeError] at h
  obtain ⟨rfl, rfl⟩ := h; rfl

/-- the tagged forms (`from_tagged_slice` / `to_tagged_vec`). -/
theorem tagged_bytes_partial {α : Type} (tag : Nat) (conv : Value → Res α) (toV : α → Res Value) (hf : FixedPoint conv toV) (b : Bytes) (t : α)
    (hd : fromTaggedSlice tag conv b = .ok t) :
    ∃ x, toTaggedVec tag toV t = .ok (enc (.tag tag x)) ∧ toV t = .ok x ∧
      (Normal (.tag tag x) → depthOf (.tag tag x) ≤ recursionLimit →
        fromTaggedSlice tag conv (enc (.tag tag x)) = .ok t ∧
        ∀ t', fromTaggedSlice tag conv (enc (.tag tag x)) = .ok t' → toTaggedVec tag toV t' = .ok (enc (.tag tag x))) := by
  simp only [fromTaggedSlice] at hd
  cases hr : readToValue b with
  | ok v =>
    simp only [hr] at hd
    cases htg : tryAsTag v with
    | ok ti =>
      obtain ⟨tg, inner⟩ := ti
      simp only [htg] at hd
      by_cases hne : (tg != tag) = true
      · simp [hne] at hd
      · simp only [hne, Bool.false_eq_true, if_false] at hd
        obtain ⟨x, h1, h2⟩ := hf inner t hd
        refine ⟨x, by simp [toTaggedVec, h1], h1, ?_⟩
        intro hn hdp
        have hre := readToValue_enc (.tag tag x) hn hdp
        refine ⟨by simp [fromTaggedSlice, hre, tryAsTag, h2], ?_⟩
        intro t' ht'
        simp [fromTaggedSlice, hre, tryAsTag, h2] at ht'; subst ht'
        simp [toTaggedVec, h1]
    | err e => simp [htg] at hd
    | panic q => simp [htg] at hd
  | err e => simp [hr] at hd
  | panic q => simp [hr] at hd

/-- the six taggable message types, with the tags regenerated from the source: each satisfies the premise of `tagged_bytes_partial`. -/
theorem tagged_types :
    FixedPoint CoseSign1.fromValue CoseSign1.toValue ∧ FixedPoint CoseSign.fromValue CoseSign.toValue ∧
    FixedPoint CoseMac0.fromValue CoseMac0.toValue ∧ FixedPoint CoseMac.fromValue CoseMac.toValue ∧
    FixedPoint CoseEncrypt0.fromValue CoseEncrypt0.toValue ∧ FixedPoint CoseEncrypt.fromValue CoseEncrypt.toValue ∧
    [Gen.TAG_CoseSign1, Gen.TAG_CoseSign, Gen.TAG_CoseMac0, Gen.TAG_CoseMac, Gen.TAG_CoseEncrypt0, Gen.TAG_CoseEncrypt] = [18, 98, 17, 97, 16, 96] :=
  ⟨sign1, sign, mac0, mac, encrypt0, encrypt, by decide⟩


/-! ### layer 3: byte level, from the input alone -/

/-- `from_slice` / `to_vec`: if `b` (a Rust slice: shorter than 2^63 bytes) decodes to `t` and the parsed item holds no short bignum tag
    outside the canonical form, then `t` encodes to some `b'`, `b'` decodes to `t`, and whatever `b'` decodes to encodes to `b'` again. -/
theorem bytes_fixed {α : Type} (conv : Value → Res α) (toV : α → Res Value) (hf : FixedPoint conv toV) (ht : TameConv conv toV)
    (b : Bytes) (t : α) (hd : fromSlice conv b = .ok t) (hl : b.length < 2 ^ 63) (hs : ∀ v, readToValue b = .ok v → NoSB v) :
    ∃ b', toVec toV t = .ok b' ∧ fromSlice conv b' = .ok t ∧ ∀ t', fromSlice conv b' = .ok t' → toVec toV t' = .ok b' := by
  obtain ⟨x, h1, h2, h3⟩ := bytes_partial conv toV hf b t hd
  simp only [fromSlice] at hd
  cases hr : readToValue b with
  | ok v =>
    simp only [hr] at hd
    obtain ⟨hn, hdp⟩ := readToValue_normal b v hr (by omega) (hs v hr)
    have hz := readToValue_size b v hr
    obtain ⟨y, hy, hyn, hyd⟩ := ht v t hd hn (by unfold sliceMax; omega)
    rw [h2] at hy; cases hy
    obtain ⟨h4, h5⟩ := h3 hyn (by omega)
    exact ⟨enc x, h1, h4, h5⟩
  | err e => simp [hr] at hd
  | panic q => simp [hr] at hd

theorem depth_inner_of_tag (t : Nat) (v : Value) (k : Nat) (h : depthOf (.tag t v) ≤ k) (hk : 1 ≤ k) : depthOf v + 1 ≤ k := by
  simp only [depthOf] at h
  split at h
  · next hf => obtain ⟨_, b, rfl, _⟩ := (foldedTag_iff t v).mp hf; simp [depthOf]; omega
  · exact h

/-- the tagged forms (`from_tagged_slice` / `to_tagged_vec`) of the six message types (their tags are not the bignum tags 2 and 3). -/
theorem tagged_bytes_fixed {α : Type} (tag : Nat) (htag : tag ≠ 2 ∧ tag ≠ 3) (conv : Value → Res α) (toV : α → Res Value)
    (hf : FixedPoint conv toV) (ht : TameConv conv toV)
    (b : Bytes) (t : α) (hd : fromTaggedSlice tag conv b = .ok t) (hl : b.length < 2 ^ 63) (hs : ∀ v, readToValue b = .ok v → NoSB v) :
    ∃ b', toTaggedVec tag toV t = .ok b' ∧ fromTaggedSlice tag conv b' = .ok t ∧
      ∀ t', fromTaggedSlice tag conv b' = .ok t' → toTaggedVec tag toV t' = .ok b' := by
  obtain ⟨x, h1, h2, h3⟩ := tagged_bytes_partial tag conv toV hf b t hd
  simp only [fromTaggedSlice] at hd
  cases hr : readToValue b with
  | ok v =>
    simp only [hr] at hd
    cases htg : tryAsTag v with
    | ok ti =>
      obtain ⟨tg, inner⟩ := ti
      simp only [htg] at hd
      by_cases hne : (tg != tag) = true
      · simp [hne] at hd
      · simp only [hne, Bool.false_eq_true, if_false] at hd
        have htt : tg = tag := by simpa using hne
        have hv := tryAsTag_ok v tg inner htg
        subst hv
        obtain ⟨hn, hdp⟩ := readToValue_normal b _ hr (by omega) (hs _ hr)
        have hz := readToValue_size b _ hr
        simp only [Normal] at hn
        simp only [Value.size] at hz
        obtain ⟨y, hy, hyn, hyd⟩ := ht inner t hd hn.2.2 (by unfold sliceMax; omega)
        rw [h2] at hy; cases hy
        have hdi := depth_inner_of_tag tg inner _ hdp (by unfold recursionLimit; omega)
        have hnt : Normal (.tag tag x) := by
          simp only [Normal]
          refine ⟨by rw [← htt]; exact hn.1, ?_, hyn⟩
          intro hsb; exact absurd hsb.1 (by omega)
        have hdt : depthOf (.tag tag x) ≤ recursionLimit := by
          have := depthOf_tag_le tag x; omega
        obtain ⟨h4, h5⟩ := h3 hnt hdt
        exact ⟨enc (.tag tag x), h1, h4, h5⟩
    | err e => simp [htg] at hd
    | panic q => simp [htg] at hd
  | err e => simp [hr] at hd
  | panic q => simp [hr] at hd

/-- every type satisfies the premises of `bytes_fixed`. -/
theorem all_types_tame :
    TameConv hdrFromValue Header.toValue ∧ TameConv sigFromValue CoseSignature.toValue ∧
    TameConv CoseSign1.fromValue CoseSign1.toValue ∧ TameConv CoseSign.fromValue CoseSign.toValue ∧
    TameConv CoseMac0.fromValue CoseMac0.toValue ∧ TameConv CoseMac.fromValue CoseMac.toValue ∧
    TameConv CoseEncrypt0.fromValue CoseEncrypt0.toValue ∧ TameConv CoseEncrypt.fromValue CoseEncrypt.toValue ∧
    TameConv rcpFromValue CoseRecipient.toValue ∧ TameConv CoseKey.fromValue CoseKey.toValue ∧
    TameConv CoseKeySet.fromValue CoseKeySet.toValue ∧ TameConv ClaimsSet.fromValue ClaimsSet.toValue ∧
    TameConv PartyInfo.fromValue PartyInfo.toValue ∧ TameConv SuppPubInfo.fromValue SuppPubInfo.toValue ∧
    TameConv CoseKdfContext.fromValue CoseKdfContext.toValue :=
  ⟨hdr_tameConv, sig_tameConv, sign1_tame, sign_tame, mac0_tame, mac_tame, encrypt0_tame, encrypt_tame, rcp_tame, key_tame, keyset_tame,
   claims_tame, party_tame, supp_tame, kdf_tame⟩

/-- instances, written out for the types the property names first: a COSE_Sign1 (plain and tagged), a header, a key. -/
theorem sign1_bytes (b : Bytes) (m : CoseSign1) (hd : fromSlice CoseSign1.fromValue b = .ok m) (hl : b.length < 2 ^ 63)
    (hs : ∀ v, readToValue b = .ok v → NoSB v) :
    ∃ b', toVec CoseSign1.toValue m = .ok b' ∧ fromSlice CoseSign1.fromValue b' = .ok m ∧
      ∀ m', fromSlice CoseSign1.fromValue b' = .ok m' → toVec CoseSign1.toValue m' = .ok b' :=
  bytes_fixed _ _ sign1 sign1_tame b m hd hl hs

theorem sign1_tagged_bytes (b : Bytes) (m : CoseSign1) (hd : fromTaggedSlice Gen.TAG_CoseSign1 CoseSign1.fromValue b = .ok m)
    (hl : b.length < 2 ^ 63) (hs : ∀ v, readToValue b = .ok v → NoSB v) :
    ∃ b', toTaggedVec Gen.TAG_CoseSign1 CoseSign1.toValue m = .ok b' ∧ fromTaggedSlice Gen.TAG_CoseSign1 CoseSign1.fromValue b' = .ok m ∧
      ∀ m', fromTaggedSlice Gen.TAG_CoseSign1 CoseSign1.fromValue b' = .ok m' → toTaggedVec Gen.TAG_CoseSign1 CoseSign1.toValue m' = .ok b' :=
  tagged_bytes_fixed _ (by decide) _ _ sign1 sign1_tame b m hd hl hs

theorem header_bytes (b : Bytes) (h : Header) (hd : fromSlice hdrFromValue b = .ok h) (hl : b.length < 2 ^ 63)
    (hs : ∀ v, readToValue b = .ok v → NoSB v) :
    ∃ b', toVec Header.toValue h = .ok b' ∧ fromSlice hdrFromValue b' = .ok h ∧
      ∀ h', fromSlice hdrFromValue b' = .ok h' → toVec Header.toValue h' = .ok b' :=
  bytes_fixed _ _ header hdr_tameConv b h hd hl hs

theorem key_bytes (b : Bytes) (k : CoseKey) (hd : fromSlice CoseKey.fromValue b = .ok k) (hl : b.length < 2 ^ 63)
    (hs : ∀ v, readToValue b = .ok v → NoSB v) :
    ∃ b', toVec CoseKey.toValue k = .ok b' ∧ fromSlice CoseKey.fromValue b' = .ok k ∧
      ∀ k', fromSlice CoseKey.fromValue b' = .ok k' → toVec CoseKey.toValue k' = .ok b' :=
  bytes_fixed _ _ key key_tame b k hd hl hs

/-- the tags of the six taggable types are not bignum tags (premise of `tagged_bytes_fixed`). -/
theorem message_tags_not_bignum :
    ∀ t ∈ [Gen.TAG_CoseSign1, Gen.TAG_CoseSign, Gen.TAG_CoseMac0, Gen.TAG_CoseMac, Gen.TAG_CoseEncrypt0, Gen.TAG_CoseEncrypt], t ≠ 2 ∧ t ≠ 3 := by decide

/-- `impl CborSerializable for Value` itself. -/
theorem value_bytes (b : Bytes) (v : Value) (h : readToValue b = .ok v) (hl : b.length < 2 ^ 63) (hs : NoSB v) : readToValue (enc v) = .ok v :=
  readToValue_enc_of_parsed b v h (by omega) hs

/-- non-vacuity of `NoSB`: the parsed form of an ordinary non-canonical input satisfies it, and the D3 input does not. -/
example : (match readToValue [0xbf, 0x04, 0x41, 0x01, 0x01, 0x18, 0x05, 0xff] with
    | .ok (.map [(.int 4, .bytes [1]), (.int 1, .int 5)]) => true | _ => false) = true := by decide +kernel
example : NoSB (.map [(.int 4, .bytes [1]), (.int 1, .int 5)]) := by simp [NoSB, NoSBP]
example : ¬ NoSB (.tag 2 (.bytes [1])) := by
  intro h
  simp only [NoSB] at h
  obtain ⟨raw, h64, h2, _, he⟩ := h.1 ⟨Or.inl rfl, [1], rfl, by simp⟩
  have hr := h2 rfl
  have hm : minBytes raw = [1] := by injection he with he; exact he.symm
  have h1 := beVal_minBytes raw hr
  rw [hm] at h1
  have h0 : beVal [1] = 1 := rfl
  omega

/-! ### the exception is real (known finding D3) -/

/-- is the first extra parameter's value a tag? -/
def firstRestIsTag (h : Header) : Bool := match h.rest with
  | (_, .tag _ _) :: _ => true
  | _ => false

/-- `a1 0a c2 5f 41 01 ff` — header `{10: 2(_ h'01')}`: tag 2 over an *indefinite-length* one-byte string.  ciborium keeps the tag
    here (it folds only definite-length strings), coset stores the tagged value, re-encoding writes `c2 41 01`, and the parser now
    folds that into the integer 1: the re-decoded header differs from the decoded one. -/
def d3Input : Bytes := [0xa1, 0x0a, 0xc2, 0x5f, 0x41, 0x01, 0xff]

theorem small_bignum_not_fixed :
    (match fromSlice hdrFromValue d3Input with
     | .ok h => firstRestIsTag h &&
        (match toVec Header.toValue h with
         | .ok b' => (match fromSlice hdrFromValue b' with
            | .ok h' => !firstRestIsTag h'
            | _ => false)
         | _ => false)
     | _ => false) = true := by decide +kernel

/-- non-vacuity: a non-canonical input (indefinite-length map, non-minimal integer width, unsorted keys) is accepted,
    its emitted value is normal and shallow, and the byte-level conclusion applies. -/
example : (fromSlice hdrFromValue [0xbf, 0x04, 0x41, 0x01, 0x01, 0x18, 0x05, 0xff]).isOk = true := by decide +kernel

#print axioms header
#print axioms header_any_depth
#print axioms signature
#print axioms signature_any_depth
#print axioms protected_bstr
#print axioms protected_value
#print axioms sign1
#print axioms sign
#print axioms mac0
#print axioms mac
#print axioms encrypt0
#print axioms encrypt
#print axioms recipient
#print axioms key
#print axioms keyset
#print axioms claims
#print axioms party_info
#print axioms supp_pub_info
#print axioms kdf_context
#print axioms kdf_context_emits_input
#print axioms one_step
#print axioms bytes_partial
#print axioms tagged_bytes_partial
#print axioms tagged_types
#print axioms small_bignum_not_fixed
#print axioms bytes_fixed
#print axioms tagged_bytes_fixed
#print axioms all_types_tame
#print axioms sign1_bytes
#print axioms sign1_tagged_bytes
#print axioms header_bytes
#print axioms key_bytes
#print axioms message_tags_not_bignum
#print axioms value_bytes

end Coset.Props.C07
