/- C19: ties to the source text.  Built and audited together with Props/C19.lean by check.py, but in a module of its own, so that a
   changed textual fact breaks the obligations of the properties that own it and not those of every module that imports their lemmas. -/
import CosetProofs.Ties.Builders
import CosetProofs.Ties.Compare.Context
import CosetProofs.Ties.Compare.Cwt
import CosetProofs.Ties.Compare.Encrypt
import CosetProofs.Ties.Compare.Header
import CosetProofs.Ties.Compare.Key
import CosetProofs.Ties.Compare.Mac
import CosetProofs.Ties.Compare.Sign
import CosetProofs.Ties.Compare.Util
import CosetProofs.Ties.IanaTables
namespace Coset.Props.C19

/-! ### ties to the source text (regenerated on every run, compared in the kernel with the transcribed tree) -/
/-- which builder macro generates which method of which builder. -/
theorem tie_builder_uses : Coset.Gen.builderUses = Coset.Pinned.builderUses := Coset.Ties.builder_uses
/-- the bodies of the builder macros. -/
theorem tie_builder_macros : Coset.Gen.builderMacros = Coset.Pinned.builderMacros := Coset.Ties.builder_macros
/-- the hand-written builder methods, guards included. -/
theorem tie_builder_methods : Coset.Gen.builderMethods = Coset.Pinned.builderMethods := Coset.Ties.builder_methods

#print axioms tie_builder_uses
#print axioms tie_builder_macros
#print axioms tie_builder_methods

/-! comparisons and integer literals of the modules this property is anchored in (properties.jsonl): none beyond the transcribed tree's -/
theorem tie_compare_context : Coset.Ties.compareCovered "context" Coset.Gen.decisionBudget Coset.Pinned.decisionBudget = true := Coset.Ties.compare_context
theorem tie_compare_cwt : Coset.Ties.compareCovered "cwt" Coset.Gen.decisionBudget Coset.Pinned.decisionBudget = true := Coset.Ties.compare_cwt
theorem tie_compare_encrypt : Coset.Ties.compareCovered "encrypt" Coset.Gen.decisionBudget Coset.Pinned.decisionBudget = true := Coset.Ties.compare_encrypt
theorem tie_compare_header : Coset.Ties.compareCovered "header" Coset.Gen.decisionBudget Coset.Pinned.decisionBudget = true := Coset.Ties.compare_header
theorem tie_compare_key : Coset.Ties.compareCovered "key" Coset.Gen.decisionBudget Coset.Pinned.decisionBudget = true := Coset.Ties.compare_key
theorem tie_compare_mac : Coset.Ties.compareCovered "mac" Coset.Gen.decisionBudget Coset.Pinned.decisionBudget = true := Coset.Ties.compare_mac
theorem tie_compare_sign : Coset.Ties.compareCovered "sign" Coset.Gen.decisionBudget Coset.Pinned.decisionBudget = true := Coset.Ties.compare_sign
theorem tie_compare_util : Coset.Ties.compareCovered "util" Coset.Gen.decisionBudget Coset.Pinned.decisionBudget = true := Coset.Ties.compare_util

#print axioms tie_compare_context
#print axioms tie_compare_cwt
#print axioms tie_compare_encrypt
#print axioms tie_compare_header
#print axioms tie_compare_key
#print axioms tie_compare_mac
#print axioms tie_compare_sign
#print axioms tie_compare_util

/-- the registry tables the streams of this property build values from (by name) are the IANA assignments. -/
theorem tie_iana_tables : Coset.Ties.IanaTablesOk := Coset.Ties.iana_tables

#print axioms tie_iana_tables

end Coset.Props.C19
