/- C19: ties to the source text.  Built and audited together with Props/C19.lean by check.py, but in a module of its own, so that a
   changed textual fact breaks the obligations of the properties that own it and not those of every module that imports their lemmas. -/
import CosetProofs.Ties.Builders
namespace Coset.Props.C19

/-! ### ties to the source text (regenerated on every run, compared in the kernel with the transcribed tree) -/
/-- which builder macro generates which method of which builder. -/
theorem tie_builder_uses : Coset.Gen.builderUses = Coset.Pinned.builderUses := Coset.Ties.builder_uses
/-- the bodies of the builder macros. -/
theorem tie_builder_macros : Coset.Gen.builderMacros = Coset.Pinned.builderMacros := Coset.Ties.builder_macros
/-- the hand-written builder methods, guards included. -/
theorem tie_builder_methods : Coset.Gen.builderMethods = Coset.Pinned.builderMethods := Coset.Ties.builder_methods

#print axioms tie_builder_uses
#print axioms tie_builder_macros
#print axioms tie_builder_methods

end Coset.Props.C19
