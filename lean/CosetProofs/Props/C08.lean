import CosetModel.Api
namespace Coset.Props.C08

end Coset.Props.C08
