/-
  C08 — header maps: accepted iff well-formed, and every field means what the wire said.
  `accepted_is_wellformed`: accepted ⇒ well-formed ∧ fields = wire (every field, any nesting position, the loop of the code against a
  lookup-based declarative reading).  `wellformed_is_accepted` / `accepted_iff`: the converse, for any wire order of the entries.
-/
import CosetProofs.HeaderFields
import CosetProofs.HeaderConverse
import CosetProofs.Props.C12
import CosetProofs.Cbor.Encodings
namespace Coset.Props.C08
open Coset Coset.Spec

/-- the meaning of a counter-signature value at nesting budget `d`, with `sf` the decoder of one COSE_Signature. -/
abbrev sigsOf (d : Nat) (sf : Value → Res CoseSignature) : Value → Res (List CoseSignature) := counterSigArm d sf

/-- a successful step leaves IV and Partial IV not both set. -/
theorem step_not_both (d : Nat) (sf : Value → Res CoseSignature) (h h1 : Header) (lv : Label × Value)
    (hs : headerStep d sf h lv = .ok h1) : ¬ (h1.iv ≠ [] ∧ h1.partialIv ≠ []) := by
  unfold headerStep at hs
  cases hd : headerDispatch d sf lv.1 lv.2 h with
  | ok h2 =>
    simp only [hd] at hs
    by_cases hb : (!h2.iv.isEmpty && !h2.partialIv.isEmpty) = true
    · simp [hb] at hs
    · simp only [hb, Bool.false_eq_true, if_false] at hs
      simp at hs; subst hs
      intro ⟨h1, h2'⟩
      apply hb
      simp [List.isEmpty_iff, h1, h2']
  | err e => simp [hd] at hs
  | panic p => simp [hd] at hs

theorem fold_not_both (d : Nat) (sf : Value → Res CoseSignature) : ∀ (ps : List (Label × Value)) (h0 h : Header),
    ¬ (h0.iv ≠ [] ∧ h0.partialIv ≠ []) → foldRes (headerStep d sf) ps h0 = .ok h → ¬ (h.iv ≠ [] ∧ h.partialIv ≠ []) := by
  intro ps
  induction ps with
  | nil => intro h0 h hn hf; simp [foldRes] at hf; subst hf; exact hn
  | cons p ps ih =>
    intro h0 h _ hf
    simp only [foldRes] at hf
    cases hs : headerStep d sf h0 p with
    | ok h1 => simp only [hs] at hf; exact ih h1 h (step_not_both d sf h0 h1 p hs) hf
    | err e => simp [hs] at hf
    | panic q => simp [hs] at hf

/-- C08 (⇒): whatever `Header::from_cbor_value` accepts is a map whose keys denote pairwise distinct labels, in which each
    standard parameter present has its RFC 8152 §3.1 shape, and the result's fields are exactly the wire values under their
    labels, absent parameters absent/empty, all other pairs kept unchanged in wire order; IV and Partial IV never both. -/
theorem accepted_is_wellformed (fuel d : Nat) (v : Value) (h : Header) (hok : Header.fromValue (fuel + 1) d v = .ok h) :
    ∃ m ls, v = .map m ∧ keyLabels m = .ok ls ∧ ls.Nodup ∧
      HeaderOf (sigsOf d (CoseSignature.fromValue fuel (d - 1))) (ls.zip (m.map (·.2))) Header.default h ∧
      ¬ (h.iv ≠ [] ∧ h.partialIv ≠ []) := by
  cases v with
  | map m =>
    simp only [Header.fromValue, tryAsMap] at hok
    obtain ⟨ls, hl, hfr, hfold⟩ := (headerLoop_ok_iff _ _ m _ _ _).mp hok
    have hlen : ls.length = m.length := by
      have : ∀ (xs : List Value) (ys : List Label), mapRes Label.fromValue xs = .ok ys → ys.length = xs.length := by
        intro xs; induction xs with
        | nil => intro ys h; simp [mapRes] at h; subst h; rfl
        | cons x xs ih => intro ys h; rw [mapRes_cons_ok] at h; obtain ⟨y, ys', _, h2, rfl⟩ := h; simp [ih ys' h2]
      simpa using this _ _ hl
    have hnd : ((ls.zip (m.map (·.2))).map (·.1)).Nodup := by
      rw [List.map_fst_zip (by simp [hlen])]; exact hfr.1
    refine ⟨m, ls, rfl, hl, hfr.1, fold_headerOf d _ _ _ _ hnd hfold, fold_not_both d _ _ _ _ (by simp [Header.default, Header.iv]) hfold⟩
  | _ => simp [Header.fromValue, tryAsMap, typeError] at hok

/-- anything that is not a map is rejected. -/
theorem not_a_map_rejected (fuel d : Nat) (v : Value) (hv : ∀ m, v ≠ .map m) : ∀ h, Header.fromValue fuel d v ≠ .ok h := by
  intro h hok
  cases fuel with
  | zero => simp [Header.fromValue] at hok
  | succ f => cases v <;> simp_all [Header.fromValue, tryAsMap, typeError]

/-- a counter signature value is one COSE_Signature (first element a byte string) or a non-empty array of them. -/
theorem counter_signature_shape (d : Nat) (sf : Value → Res CoseSignature) (v : Value) (ss : List CoseSignature)
    (h : counterSigArm d sf v = .ok ss) :
    ∃ a, v = .array a ∧ a ≠ [] ∧ d ≠ 0 ∧
      ((∃ b s, a.head? = some (.bytes b) ∧ sf (.array a) = .ok s ∧ ss = [s]) ∨ ((∃ x, a.head? = some (.array x)) ∧ mapRes sf a = .ok ss)) := by
  cases v with
  | array a =>
    simp only [counterSigArm, tryAsArray] at h
    by_cases he : a.isEmpty = true
    · simp [he] at h
    · simp only [he, Bool.false_eq_true, if_false] at h
      by_cases hd : d = 0
      · simp [hd] at h
      · simp only [hd, if_false] at h
        cases a with
        | nil => simp at he
        | cons x xs =>
          refine ⟨x :: xs, rfl, by simp, hd, ?_⟩
          simp only [vindex, List.getElem?_cons_zero] at h
          cases x with
          | bytes b =>
            simp only [] at h
            cases hs : sf (.array (.bytes b :: xs)) with
            | ok s => simp [hs] at h; exact Or.inl ⟨b, s, rfl, rfl, h.symm⟩
            | err e => simp [hs] at h
            | panic p => simp [hs] at h
          | array y => simp only [] at h; exact Or.inr ⟨⟨y, rfl⟩, h⟩
          | _ => simp [typeError] at h
  | _ => simp [counterSigArm, tryAsArray, typeError] at h

/-- the outcome is a function of the CBOR data-model value: every encoding that parses to the same value decodes alike. -/
theorem depends_only_on_value (b1 b2 : Bytes) (v : Value) (h1 : readToValue b1 = .ok v) (h2 : readToValue b2 = .ok v) :
    fromSlice hdrFromValue b1 = fromSlice hdrFromValue b2 := by simp [fromSlice, h1, h2]

/-- … "not on how it was encoded", from the encodings themselves: any two well-formed encodings of one data-model value — whatever the
    width of each head, definite or indefinite lengths, however strings are chunked, integers plain or as bignum tags, floats in any
    width (`CosetSpec.Encodings`) — give the same outcome, namely that of the value. -/
theorem any_encoding (v : Value) (b1 b2 : Bytes) (h1 : Spec.Encodes v b1) (h2 : Spec.Encodes v b2) (hd : Cbor.depthOf v ≤ Cbor.recursionLimit) :
    fromSlice hdrFromValue b1 = fromSlice hdrFromValue b2 ∧ fromSlice hdrFromValue b1 = hdrFromValue v :=
  ⟨fromSlice_encoding_independent _ v b1 b2 h1 h2 hd, fromSlice_of_encodes _ v b1 h1 hd⟩

/-- two quite different encodings of `{1: -7, 4: h'3131'}`: shortest-form definite map, and an indefinite-length map with a two-byte
    key head and the byte string split into two chunks; both are encodings of that value in the sense of `Encodes`. -/
def hdrValue : Value := .map [(.int 1, .int (-7)), (.int 4, .bytes [0x31, 0x31])]
def hdrEnc1 : Spec.E := .map (some .w0) [(.pos .w0 1, .neg .w0 6), (.pos .w0 4, .bstr .w0 [0x31, 0x31])]
def hdrEnc2 : Spec.E := .map none [(.pos .w1 1, .neg .w2 6), (.pos .w0 4, .bstrI [(.w0, [0x31]), (.w1, [0x31])])]
example : hdrEnc1.bytes = [0xa2, 0x01, 0x26, 0x04, 0x42, 0x31, 0x31] ∧
    hdrEnc2.bytes = [0xbf, 0x18, 0x01, 0x39, 0x00, 0x06, 0x04, 0x5f, 0x41, 0x31, 0x58, 0x01, 0x31, 0xff, 0xff] := by decide
example : Spec.Encodes hdrValue hdrEnc1.bytes ∧ Spec.Encodes hdrValue hdrEnc2.bytes := by
  refine ⟨⟨hdrEnc1, ?_, by simp [hdrEnc1, hdrValue, Spec.E.value, Spec.E.valueP], rfl⟩,
    ⟨hdrEnc2, ?_, by simp [hdrEnc2, hdrValue, Spec.E.value, Spec.E.valueP, Spec.chunkContent], rfl⟩⟩
  · simp [hdrEnc1, Spec.E.wf, Spec.E.wfP, Spec.W.fits]
  · simp [hdrEnc2, Spec.E.wf, Spec.E.wfP, Spec.W.fits, Spec.chunksFit]

/-- non-vacuity: all seven standard parameters plus two extras are accepted; one violated rule each is rejected. -/
example : (fromSlice hdrFromValue [0xa2, 0x01, 0x26, 0x04, 0x42, 0x31, 0x31]).isOk = true := by decide +kernel
example : (hdrFromValue (.map [(.int 1, .int (-7)), (.int 2, .array [.int 1]), (.int 3, .text [0x61, 0x2f, 0x62]), (.int 4, .bytes [1]),
    (.int 5, .bytes [2]), (.int 7, .array [.bytes [], .map [], .bytes [9]]), (.int 99, .null), (.text [0x7a], .int 1)])).isOk = true := by decide +kernel
theorem lookupL_of_mem (l : Label) (v : Value) : ∀ (ps : List (Label × Value)), (ps.map (·.1)).Nodup → (l, v) ∈ ps → lookupL l ps = some v := by
  intro ps
  induction ps with
  | nil => intro _ h; cases h
  | cons p ps ih =>
    intro hnd hm
    obtain ⟨l', v'⟩ := p
    simp only [List.map_cons, List.nodup_cons] at hnd
    rw [lookupL_cons]
    rcases List.mem_cons.mp hm with h | h
    · cases h; simp
    · have : l' ≠ l := by
        intro e; subst e
        exact hnd.1 (List.mem_map.mpr ⟨(l', v), h, rfl⟩)
      simp [this, ih hnd.2 h]

/-- C08 (⇐): a map whose keys denote pairwise distinct labels, each standard parameter present having its RFC 8152 §3.1 shape
    (`EntryOk`), IV and Partial IV not both present, is accepted — whatever the order of the entries. -/
theorem wellformed_is_accepted (fuel d : Nat) (m : List (Value × Value)) (ls : List Label)
    (hk : keyLabels m = .ok ls) (hnd : ls.Nodup)
    (hall : ∀ p ∈ ls.zip (m.map (·.2)), EntryOk d (CoseSignature.fromValue fuel (d - 1)) p.1 p.2)
    (hiv : ¬ (Label.int 5 ∈ ls ∧ Label.int 6 ∈ ls)) :
    ∃ h, Header.fromValue (fuel + 1) d (.map m) = .ok h := by
  simp only [Header.fromValue, tryAsMap]
  exact wellformed_loop_accepts d _ m ls hk hnd hall hiv

/-- C08 as an equivalence. -/
theorem accepted_iff (fuel d : Nat) (v : Value) :
    (∃ h, Header.fromValue (fuel + 1) d v = .ok h) ↔
      ∃ m ls, v = .map m ∧ keyLabels m = .ok ls ∧ ls.Nodup ∧
        (∀ p ∈ ls.zip (m.map (·.2)), EntryOk d (CoseSignature.fromValue fuel (d - 1)) p.1 p.2) ∧ ¬ (Label.int 5 ∈ ls ∧ Label.int 6 ∈ ls) := by
  constructor
  · rintro ⟨h, hok⟩
    obtain ⟨m, ls, rfl, hk, hnd, ho, hnb⟩ := accepted_is_wellformed fuel d v h hok
    have hlen : ls.length = (m.map (·.2)).length := by
      have : ∀ (xs : List Value) (ys : List Label), mapRes Label.fromValue xs = .ok ys → ys.length = xs.length := by
        intro xs; induction xs with
        | nil => intro ys h; simp [mapRes] at h; subst h; rfl
        | cons x xs ih => intro ys h; rw [mapRes_cons_ok] at h; obtain ⟨y, ys', _, h2, rfl⟩ := h; simp [ih ys' h2]
      simpa [keyLabels] using this _ _ hk
    have hfst : (ls.zip (m.map (·.2))).map (·.1) = ls := by rw [List.map_fst_zip]; omega
    have hnd' : ((ls.zip (m.map (·.2))).map (·.1)).Nodup := by rw [hfst]; exact hnd
    refine ⟨m, ls, rfl, hk, hnd, ?_, ?_⟩
    · intro p hp
      obtain ⟨l, w⟩ := p
      have hl := lookupL_of_mem l w _ hnd' hp
      refine ⟨?_, ?_, ?_, ?_, ?_⟩
      · intro e; subst e; have := ho.alg; rw [hl] at this; obtain ⟨a, h1, _⟩ := this; exact ⟨a, h1⟩
      · intro e; subst e; have := ho.crit; rw [hl] at this; obtain ⟨a, ls', h1, h2, h3, _⟩ := this; exact ⟨a, ls', h1, h2, h3⟩
      · intro e; subst e; have := ho.contentType; rw [hl] at this; obtain ⟨c, h1, h2, _⟩ := this; exact ⟨c, h1, h2⟩
      · rintro (e | e | e) <;> subst e
        · have := ho.keyId; rw [hl] at this; obtain ⟨b, h1, h2, _⟩ := this; exact ⟨b, h1, h2⟩
        · have := ho.iv; rw [hl] at this; obtain ⟨b, h1, h2, _⟩ := this; exact ⟨b, h1, h2⟩
        · have := ho.partialIv; rw [hl] at this; obtain ⟨b, h1, h2, _⟩ := this; exact ⟨b, h1, h2⟩
      · intro e; subst e; have := ho.counterSignatures; rw [hl] at this; obtain ⟨ss, h1, _⟩ := this; exact ⟨ss, h1⟩
    · rintro ⟨h5, h6⟩
      rw [← hfst] at h5 h6
      obtain ⟨⟨l5, w5⟩, m5, e5⟩ := List.mem_map.mp h5
      obtain ⟨⟨l6, w6⟩, m6, e6⟩ := List.mem_map.mp h6
      simp only at e5 e6; subst e5; subst e6
      have a5 := ho.iv; rw [lookupL_of_mem _ w5 _ hnd' m5] at a5
      have a6 := ho.partialIv; rw [lookupL_of_mem _ w6 _ hnd' m6] at a6
      obtain ⟨b5, _, n5, q5⟩ := a5
      obtain ⟨b6, _, n6, q6⟩ := a6
      exact hnb ⟨by rw [q5]; exact n5, by rw [q6]; exact n6⟩
  · rintro ⟨m, ls, rfl, hk, hnd, hall, hiv⟩
    exact wellformed_is_accepted fuel d m ls hk hnd hall hiv

example : (hdrFromValue (.map [(.int 5, .bytes [1]), (.int 6, .bytes [2])])).errKind? = some .unexpectedItem := by decide +kernel
example : (hdrFromValue (.map [(.int 2, .array [])])).errKind? = some .unexpectedItem := by decide +kernel
example : (hdrFromValue (.map [(.int 3, .text [0x20, 0x61, 0x2f, 0x62])])).errKind? = some .unexpectedItem := by decide +kernel

#print axioms step_not_both
#print axioms fold_not_both
#print axioms accepted_is_wellformed
#print axioms wellformed_is_accepted
#print axioms accepted_iff
#print axioms not_a_map_rejected
#print axioms counter_signature_shape
#print axioms depends_only_on_value
#print axioms any_encoding

end Coset.Props.C08
