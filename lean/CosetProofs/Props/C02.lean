import CosetModel.Api
namespace Coset.Props.C02

end Coset.Props.C02
