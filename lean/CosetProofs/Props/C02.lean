/-
  C02 — protected-header bytes are kept and reused bit-for-bit, never re-encoded.
-/
import CosetProofs.Shapes
import CosetProofs.HeaderLoop
import CosetProofs.Props.C03
import CosetProofs.Props.C04
import CosetProofs.Props.C05
import CosetProofs.Cbor.Encodings
namespace Coset.Props.C02
open Coset Coset.Cbor Coset.Spec

/-- decode retains: whatever `from_cbor_bstr` accepts, it stores exactly the content of the wire byte string —
    zero-length string, wrapped empty map, non-minimal widths, indefinite lengths, unsorted keys, unknown parameters alike. -/
theorem decode_retains (fuel d : Nat) (x : Value) (p : ProtectedHeader) (h : ProtectedHeader.fromBstr fuel d x = .ok p) :
    ∃ data, x = .bytes data ∧ p.originalData = some data := by
  cases fuel with
  | zero => simp [ProtectedHeader.fromBstr] at h
  | succ f =>
    obtain ⟨data, hx, hc⟩ := (protected_ok_iff f d x p).mp h
    refine ⟨data, hx, ?_⟩
    rcases hc with ⟨rfl, rfl⟩ | ⟨_, v, hh, _, _, rfl⟩ <;> rfl

/-- encode reuses: stored bytes are written verbatim (the serializer is not involved). -/
theorem encode_reuses (data : Bytes) (h : Header) : ProtectedHeader.cborBstr (.mk (some data) h) = .ok (.bytes data) := cborBstr_stored data h

/-- decode then encode: the protected slot of the output is the protected slot of the input (body position of every message type,
    via the two-header prefix they all share). -/
theorem slot_roundtrip (x0 : Value) (p : ProtectedHeader) (u : Header) (hp : phFromBstr x0 = .ok p) (vs : List Value)
    (hs : headerSlots p u = .ok vs) : vs.head? = some x0 := by
  obtain ⟨data, hx, ho⟩ := decode_retains _ _ x0 p hp
  cases p with
  | mk orig hd =>
    simp only [ProtectedHeader.originalData] at ho; subst ho
    simp only [headerSlots, cborBstr_stored] at hs
    cases hu : Header.toValue u with
    | ok uv => simp [hu] at hs; subst hs; simp [hx]
    | err e => simp [hu] at hs
    | panic q => simp [hu] at hs

theorem sign1_slot_roundtrip (v : Value) (m : CoseSign1) (x : Value) (hd : CoseSign1.fromValue v = .ok m) (he : m.toValue = .ok x) :
    ∃ a b, v = .array a ∧ x = .array b ∧ b.head? = a.head? := by
  obtain ⟨x0, x1, x2, rfl, h0, _, _⟩ := (sign1_ok_iff v m).mp hd
  simp only [CoseSign1.toValue] at he
  cases hs : headerSlots m.protected_ m.unprotected with
  | ok vs =>
    simp [hs] at he; subst he
    have := slot_roundtrip x0 _ _ h0 vs hs
    refine ⟨_, _, rfl, rfl, ?_⟩
    cases vs <;> simp_all
  | err e => simp [hs] at he
  | panic q => simp [hs] at he

/-- every signer of a decoded COSE_Sign retains its own protected bytes. -/
theorem signers_retain (sigs : List Value) (ss : List CoseSignature)
    (h : mapRes (fun s => (sigFromValue s).mapErr .unexpectedItem) sigs = .ok ss) :
    ∀ s ∈ ss, ∃ data, s.protected_.originalData = some data := by
  induction sigs generalizing ss with
  | nil => simp [mapRes] at h; subst h; simp
  | cons x xs ih =>
    rw [mapRes_cons_ok] at h
    obtain ⟨y, ys, hy, hys, rfl⟩ := h
    intro s hs
    rcases List.mem_cons.mp hs with rfl | hs'
    · cases hx : sigFromValue x with
      | ok s0 =>
        simp [hx, Res.mapErr] at hy; subst hy
        simp only [sigFromValue, topFuel] at hx
        obtain ⟨x0, x1, _, hp, _⟩ := (signature_ok_iff _ _ x s0).mp hx
        obtain ⟨data, _, ho⟩ := decode_retains _ _ x0 _ hp
        exact ⟨data, ho⟩
      | err e => simp [hx, Res.mapErr] at hy
      | panic q => simp [hx, Res.mapErr] at hy
    · exact ih ys hys s hs'

/-- counter signatures, at any depth and inside protected or unprotected headers, retain theirs (one decoder serves all positions). -/
theorem counter_signatures_retain (fuel d : Nat) (v : Value) (s : CoseSignature) (h : CoseSignature.fromValue fuel d v = .ok s) :
    ∃ data, s.protected_.originalData = some data := by
  cases fuel with
  | zero => simp [CoseSignature.fromValue] at h
  | succ f =>
    obtain ⟨x0, x1, _, hp, _⟩ := (signature_ok_iff f d v s).mp h
    obtain ⟨data, _, ho⟩ := decode_retains _ _ x0 _ hp
    exact ⟨data, ho⟩

/-- KDF supplementary public info retains its protected bytes. -/
theorem supp_pub_info_retains (v : Value) (s : SuppPubInfo) (h : SuppPubInfo.fromValue v = .ok s) :
    ∃ data, s.protected_.originalData = some data := by
  cases v with
  | array a =>
    simp only [SuppPubInfo.fromValue, tryAsArray, Gen.SuppPubInfo_arityBad] at h
    by_cases h2 : a.length = 2
    · obtain ⟨x0, x1, rfl⟩ := list_len2 a h2
      simp [Gen.SuppPubInfo_removes, vremove] at h
      cases hp : phFromBstr x1 with
      | ok p =>
        simp [hp] at h
        cases hi : tryAsInteger x0 with
        | ok n =>
          simp [hi] at h
          cases hn : narrowU64 n with
          | ok len => simp [hn] at h; subst h; obtain ⟨data, _, ho⟩ := decode_retains _ _ x1 p hp; exact ⟨data, ho⟩
          | err e => simp [hn] at h
          | panic q => simp [hn] at h
        | err e => simp [hi] at h
        | panic q => simp [hi] at h
      | err e => simp [hp] at h
      | panic q => simp [hp] at h
    · by_cases h3 : a.length = 3
      · obtain ⟨x0, x1, x2, rfl⟩ := list_len3 a h3
        simp [Gen.SuppPubInfo_removes, vremove] at h
        cases hb : tryAsBytes x2 with
        | ok o =>
          simp [hb] at h
          cases hp : phFromBstr x1 with
          | ok p =>
            simp [hp] at h
            cases hi : tryAsInteger x0 with
            | ok n =>
              simp [hi] at h
              cases hn : narrowU64 n with
              | ok len => simp [hn] at h; subst h; obtain ⟨data, _, ho⟩ := decode_retains _ _ x1 p hp; exact ⟨data, ho⟩
              | err e => simp [hn] at h
              | panic q => simp [hn] at h
            | err e => simp [hi] at h
            | panic q => simp [hi] at h
          | err e => simp [hp] at h
          | panic q => simp [hp] at h
        | err e => simp [hb] at h
        | panic q => simp [hb] at h
      · have : (a.length != 2 && a.length != 3) = true := by simp [h2, h3]
        simp [this] at h
  | _ => simp [SuppPubInfo.fromValue, tryAsArray, typeError] at h

/-- the structures carry the stored bytes, not a re-encoding of the parsed header — for whatever header was parsed from them. -/
theorem structures_use_stored (data aad payload : Bytes) (h : Header) :
    sigStructureData .coseSign1 (.mk (some data) h) none aad payload = .ok (specStruct ctxSignature1 [data, aad, payload]) ∧
    macStructureData .coseMac0 (.mk (some data) h) aad payload = .ok (specStruct ctxMAC0 [data, aad, payload]) ∧
    encStructureData .coseEncrypt0 (.mk (some data) h) aad = .ok (specStruct ctxEncrypt0 [data, aad]) := by
  refine ⟨?_, ?_, ?_⟩
  · simpa [C03.contexts.2.1] using (C03.sig_structure .coseSign1 _ aad payload data (cborBstr_stored data h)).1
  · simpa [C04.contexts.2] using C04.mac_structure .coseMac0 _ aad payload data (cborBstr_stored data h)
  · simpa [C05.contexts.2.1] using C05.enc_structure .coseEncrypt0 _ aad data (cborBstr_stored data h)

/-- the signer's slot of a COSE_Sign structure is the *signer's* stored bytes. -/
theorem signer_slot_uses_stored (m : CoseSign) (b s aad : Bytes) (hb : Header) (hs : Header) (u : Header) (sg : Bytes)
    (hm : m.protected_ = .mk (some b) hb) :
    m.tbsData aad (.mk (.mk (some s) hs) u sg) = .ok (specStruct ctxSignature [b, s, aad, m.payload.getD []]) := by
  apply C03.sign_tbs
  · rw [hm]; exact cborBstr_stored b hb
  · exact cborBstr_stored s hs

/-- the parsed view is the same for every encoding of the same header content (it is a function of the parsed value);
    only the retained bytes differ. -/
theorem view_encoding_independent (fuel d : Nat) (d1 d2 : Bytes) (v : Value) (p1 p2 : ProtectedHeader) (h1 : d1 ≠ []) (h2 : d2 ≠ [])
    (r1 : readToValue d1 = .ok v) (r2 : readToValue d2 = .ok v)
    (e1 : ProtectedHeader.fromBstr (fuel + 1) d (.bytes d1) = .ok p1) (e2 : ProtectedHeader.fromBstr (fuel + 1) d (.bytes d2) = .ok p2) :
    p1.header = p2.header ∧ p1.originalData = some d1 ∧ p2.originalData = some d2 := by
  obtain ⟨x1, hx1, c1⟩ := (protected_ok_iff fuel d _ p1).mp e1
  obtain ⟨x2, hx2, c2⟩ := (protected_ok_iff fuel d _ p2).mp e2
  simp at hx1 hx2; subst hx1; subst hx2
  rcases c1 with ⟨rfl, _⟩ | ⟨_, v1, hh1, rr1, hf1, rfl⟩
  · exact absurd rfl h1
  · rcases c2 with ⟨rfl, _⟩ | ⟨_, v2, hh2, rr2, hf2, rfl⟩
    · exact absurd rfl h2
    · rw [r1] at rr1; rw [r2] at rr2
      simp at rr1 rr2; subst rr1; subst rr2
      rw [hf1] at hf2; simp at hf2; subst hf2
      exact ⟨rfl, rfl, rfl⟩

/-- "whatever its encoding": for any two well-formed encodings `d1`, `d2` of the same header content (non-minimal integer widths,
    indefinite lengths, any chunking — `CosetSpec.Encodings`), the two protected headers have the same parsed view and each keeps
    exactly its own bytes. -/
theorem view_any_encoding (v : Value) (d1 d2 : Bytes) (h1 : Spec.Encodes v d1) (h2 : Spec.Encodes v d2)
    (hd : Cbor.depthOf v ≤ Cbor.recursionLimit) (p1 p2 : ProtectedHeader)
    (e1 : phFromBstr (.bytes d1) = .ok p1) (e2 : phFromBstr (.bytes d2) = .ok p2) :
    p1.header = p2.header ∧ p1.originalData = some d1 ∧ p2.originalData = some d2 := by
  have n1 : d1 ≠ [] := by obtain ⟨e, _, _, rfl⟩ := h1; exact Cbor.bytes_ne_nil e
  have n2 : d2 ≠ [] := by obtain ⟨e, _, _, rfl⟩ := h2; exact Cbor.bytes_ne_nil e
  exact view_encoding_independent (3 * maxNest + 2) maxNest d1 d2 v p1 p2 n1 n2 (readToValue_of_encodes v d1 h1 hd)
    (readToValue_of_encodes v d2 h2 hd) e1 e2

/-- zero-length string and wrapped empty map both give the default header (and keep their own bytes). -/
example : (phFromBstr (.bytes [])).isOk = true ∧ (phFromBstr (.bytes [0xa0])).isOk = true := by decide +kernel

/-- non-vacuity: a non-canonical protected header (`a2 04 41 01 01 26`: keys unsorted) at the body of a COSE_Sign1 is accepted,
    and its to-be-signed bytes carry those six bytes. -/
example : (fromSlice CoseSign1.fromValue [0x84, 0x46, 0xa2, 0x04, 0x41, 0x01, 0x01, 0x26, 0xa0, 0xf6, 0x40]).isOk = true := by decide +kernel

#print axioms decode_retains
#print axioms encode_reuses
#print axioms slot_roundtrip
#print axioms sign1_slot_roundtrip
#print axioms signers_retain
#print axioms counter_signatures_retain
#print axioms supp_pub_info_retains
#print axioms structures_use_stored
#print axioms signer_slot_uses_stored
#print axioms view_encoding_independent
#print axioms view_any_encoding

end Coset.Props.C02
