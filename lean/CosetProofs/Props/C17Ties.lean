/- C17: ties to the source text.  Built and audited together with Props/C17.lean by check.py, but in a module of its own, so that a
   changed textual fact breaks the obligations of the properties that own it and not those of every module that imports their lemmas. -/
import CosetProofs.Ties.IanaMacro
import CosetProofs.Ties.Budget.Iana
import CosetProofs.Ties.Compare.Common
import CosetProofs.Ties.Compare.Iana
namespace Coset.Props.C17

/-! ### ties to the source text (regenerated on every run, compared in the kernel with the transcribed tree) -/
/-- the `iana_registry!` macro (which turns the tables into `from_i64` / `to_i64`) is unchanged; its behaviour is compared over a window by the correspondence. -/
theorem tie_iana_macro : Coset.Gen.ianaMacroHash = Coset.Pinned.ianaMacroHash := Coset.Ties.iana_macro

#print axioms tie_iana_macro

/-- decision budget of `src/iana/mod.rs`: no branch, comparison or integer literal beyond the transcribed tree's (a needle no stream reaches still adds one). -/
theorem tie_budget_iana : Coset.Ties.budgetCovered "iana" Coset.Gen.decisionBudget Coset.Pinned.decisionBudget = true := Coset.Ties.budget_iana

#print axioms tie_budget_iana

/-! comparisons and integer literals of the modules this property is anchored in (properties.jsonl): none beyond the transcribed tree's -/
theorem tie_compare_common : Coset.Ties.compareCovered "common" Coset.Gen.decisionBudget Coset.Pinned.decisionBudget = true := Coset.Ties.compare_common
theorem tie_compare_iana : Coset.Ties.compareCovered "iana" Coset.Gen.decisionBudget Coset.Pinned.decisionBudget = true := Coset.Ties.compare_iana

#print axioms tie_compare_common
#print axioms tie_compare_iana

end Coset.Props.C17
