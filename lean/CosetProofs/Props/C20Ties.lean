/- C20: ties to the source text.  Built and audited together with Props/C20.lean by check.py, but in a module of its own, so that a
   changed textual fact breaks the obligations of the properties that own it and not those of every module that imports their lemmas. -/
import CosetProofs.Ties.Compare.Common
import CosetProofs.Ties.Compare.Key
namespace Coset.Props.C20

/-! ### ties to the source text (regenerated on every run, compared in the kernel with the transcribed tree) -/

/-! comparisons and integer literals of the modules this property is anchored in (properties.jsonl): none beyond the transcribed tree's -/
theorem tie_compare_common : Coset.Ties.compareCovered "common" Coset.Gen.decisionBudget Coset.Pinned.decisionBudget = true := Coset.Ties.compare_common
theorem tie_compare_key : Coset.Ties.compareCovered "key" Coset.Gen.decisionBudget Coset.Pinned.decisionBudget = true := Coset.Ties.compare_key

#print axioms tie_compare_common
#print axioms tie_compare_key

end Coset.Props.C20
