import CosetModel.Api
namespace Coset.Props.C10

end Coset.Props.C10
