/-
  C10 — COSE_Key / COSE_KeySet: accepted iff well-formed, parameters map to fields.
  `accepted_is_wellformed` (⇒, with every field = wire value), `wellformed_is_accepted` / `accepted_iff` (⇐, any wire order), key-set iff.
-/
import CosetProofs.KeyFields
import CosetProofs.KeyConverse
import CosetProofs.Shapes
import CosetProofs.Cbor.Encodings
namespace Coset.Props.C10
open Coset Coset.Spec

/-- inserting into the ordered operation set: exactly one more element, same members plus the new one. -/
theorem setInsert_some {α : Type} (cmp : α → α → Res Ordering) (s : List α) (x : α) (s' : List α)
    (h : setInsert cmp s x = .ok (some s')) : s'.length = s.length + 1 ∧ ∀ y, y ∈ s' ↔ (y = x ∨ y ∈ s) := by
  induction s generalizing s' with
  | nil => simp [setInsert] at h; subst h; simp
  | cons z zs ih =>
    simp only [setInsert] at h
    cases hc : cmp x z with
    | ok o =>
      simp only [hc] at h
      cases o with
      | eq => simp at h
      | lt => simp at h; subst h; simp
      | gt =>
        simp only [] at h
        cases hr : setInsert cmp zs x with
        | ok r =>
          simp only [hr] at h
          cases r with
          | none => simp at h
          | some r' =>
            simp at h; subst h
            obtain ⟨h1, h2⟩ := ih r' hr
            refine ⟨by simp [h1], ?_⟩
            intro y; simp [h2]; constructor
            · rintro (h | h | h) <;> simp [h]
            · rintro (h | h | h) <;> simp [h]
        | err e => simp [hr] at h
        | panic p => simp [hr] at h
    | err e => simp [hc] at h
    | panic p => simp [hc] at h

/-- `key_ops`: every element is a registered-integer or text operation, no operation repeats, and the field is their set. -/
theorem key_ops_set (a : List Value) : ∀ (s0 s : List RegLabel), keyOpsLoop a s0 = .ok s →
    ∃ ops, mapRes (RegLabel.fromValue Reg.keyOperation) a = .ok ops ∧ s.length = s0.length + a.length ∧
      ∀ y, y ∈ s ↔ (y ∈ ops ∨ y ∈ s0) := by
  induction a with
  | nil => intro s0 s h; simp [keyOpsLoop] at h; subst h; exact ⟨[], rfl, by simp, by simp⟩
  | cons v vs ih =>
    intro s0 s h
    simp only [keyOpsLoop] at h
    cases hv : RegLabel.fromValue Reg.keyOperation v with
    | ok op =>
      simp only [hv] at h
      cases hi : setInsert (RegLabel.cmp Reg.keyOperation) s0 op with
      | ok r =>
        simp only [hi] at h
        cases r with
        | none => simp at h
        | some s1 =>
          simp only [] at h
          obtain ⟨ops, ho, hl, hm⟩ := ih s1 s h
          obtain ⟨l1, m1⟩ := setInsert_some _ s0 op s1 hi
          refine ⟨op :: ops, ?_, by simp [hl, l1]; omega, ?_⟩
          · rw [mapRes_cons_ok]; exact ⟨op, ops, hv, ho, rfl⟩
          · intro y; rw [hm, m1]; simp; constructor
            · rintro (h | h | h) <;> simp [h]
            · rintro ((h | h) | h) <;> simp [h]
      | err e => simp [hi] at h
      | panic p => simp [hi] at h
    | err e => simp [hv] at h
    | panic p => simp [hv] at h

/-- C10 (⇒): whatever `CoseKey::from_cbor_value` accepts is a map with pairwise distinct labels containing a key type that is not
    the reserved value, each common parameter present has its shape, and the result's fields are exactly the wire values;
    all other pairs are kept unchanged in wire order. -/
theorem accepted_is_wellformed (v : Value) (k : CoseKey) (hok : CoseKey.fromValue v = .ok k) :
    ∃ m ls, v = .map m ∧ keyLabels m = .ok ls ∧ ls.Nodup ∧ KeyOf keyOpsLoop (ls.zip (m.map (·.2))) CoseKey.default k ∧
      k.kty ≠ .assigned ktyReservedIdx ∧ (∃ w, lookupL (.int 1) (ls.zip (m.map (·.2))) = some w) := by
  cases v with
  | map m =>
    simp only [CoseKey.fromValue, tryAsMap] at hok
    cases hl : keyLoop m CoseKey.default [] with
    | ok k1 =>
      simp only [hl] at hok
      by_cases hr : k1.kty = .assigned ktyReservedIdx
      · simp [hr] at hok
      · simp only [hr, if_false] at hok; simp at hok; subst hok
        rw [keyLoop_eq_gen] at hl
        obtain ⟨ls, hls, hfr, hfold⟩ := (genLoop_ok_iff Label.fromValue Label.cmp keyStep (fun _ => True) label_loop_hyps.1 label_loop_hyps.2
          m CoseKey.default k1 [] (by simp)).mp hl
        have hlen : ls.length = m.length := by
          have : ∀ (xs : List Value) (ys : List Label), mapRes Label.fromValue xs = .ok ys → ys.length = xs.length := by
            intro xs; induction xs with
            | nil => intro ys h; simp [mapRes] at h; subst h; rfl
            | cons x xs ih => intro ys h; rw [mapRes_cons_ok] at h; obtain ⟨y, ys', _, h2, rfl⟩ := h; simp [ih ys' h2]
          simpa using this _ _ hls
        have hnd : ((ls.zip (m.map (·.2))).map (·.1)).Nodup := by
          rw [List.map_fst_zip (by simp [hlen])]; exact hfr.1
        have ko := fold_keyOf _ _ _ hnd hfold
        refine ⟨m, ls, rfl, hls, hfr.1, ko, hr, ?_⟩
        cases hlk : lookupL (.int 1) (ls.zip (m.map (·.2))) with
        | some w => exact ⟨w, rfl⟩
        | none =>
          have := ko.kty
          rw [hlk] at this
          exact absurd this hr
    | err e => simp [hl] at hok
    | panic p => simp [hl] at hok
  | _ => simp [CoseKey.fromValue, tryAsMap, typeError] at hok

theorem lookupL_of_mem (l : Label) (v : Value) : ∀ (ps : List (Label × Value)), (ps.map (·.1)).Nodup → (l, v) ∈ ps → lookupL l ps = some v := by
  intro ps
  induction ps with
  | nil => intro _ h; cases h
  | cons p ps ih =>
    intro hnd hm
    obtain ⟨l', v'⟩ := p
    simp only [List.map_cons, List.nodup_cons] at hnd
    rw [lookupL_cons]
    rcases List.mem_cons.mp hm with h | h
    · cases h; simp
    · have : l' ≠ l := by
        intro e; subst e
        exact hnd.1 (List.mem_map.mpr ⟨(l', v), h, rfl⟩)
      simp [this, ih hnd.2 h]

/-- C10 (⇐): distinct labels, a key type present that is registered-and-not-reserved or text, every common parameter present in its shape
    (key operations: a non-empty array the set-building loop accepts, i.e. decodable and pairwise distinct) ⇒ accepted, in any wire order. -/
theorem wellformed_is_accepted (m : List (Value × Value)) (ls : List Label) (hk : keyLabels m = .ok ls) (hnd : ls.Nodup)
    (hall : ∀ p ∈ ls.zip (m.map (·.2)), KeyEntryOk p.1 p.2)
    (hkty : ∃ w t, (Label.int 1, w) ∈ ls.zip (m.map (·.2)) ∧ RegLabel.fromValue Reg.keyType w = .ok t ∧ t ≠ .assigned ktyReservedIdx) :
    ∃ k, CoseKey.fromValue (.map m) = .ok k := wellformed_key_accepted m ls hk hnd hall hkty

/-- C10 as an equivalence. -/
theorem accepted_iff (v : Value) :
    (∃ k, CoseKey.fromValue v = .ok k) ↔
      ∃ m ls, v = .map m ∧ keyLabels m = .ok ls ∧ ls.Nodup ∧ (∀ p ∈ ls.zip (m.map (·.2)), KeyEntryOk p.1 p.2) ∧
        ∃ w t, (Label.int 1, w) ∈ ls.zip (m.map (·.2)) ∧ RegLabel.fromValue Reg.keyType w = .ok t ∧ t ≠ .assigned ktyReservedIdx := by
  constructor
  · rintro ⟨k, hok⟩
    obtain ⟨m, ls, rfl, hk, hnd, ko, hres, ⟨w, hw⟩⟩ := accepted_is_wellformed v k hok
    have hlen : ls.length = (m.map (·.2)).length := by
      have : ∀ (xs : List Value) (ys : List Label), mapRes Label.fromValue xs = .ok ys → ys.length = xs.length := by
        intro xs; induction xs with
        | nil => intro ys h; simp [mapRes] at h; subst h; rfl
        | cons x xs ih => intro ys h; rw [mapRes_cons_ok] at h; obtain ⟨y, ys', _, h2, rfl⟩ := h; simp [ih ys' h2]
      simpa [keyLabels] using this _ _ hk
    have hfst : (ls.zip (m.map (·.2))).map (·.1) = ls := by rw [List.map_fst_zip]; omega
    have hnd' : ((ls.zip (m.map (·.2))).map (·.1)).Nodup := by rw [hfst]; exact hnd
    refine ⟨m, ls, rfl, hk, hnd, ?_, ?_⟩
    · intro p hp
      obtain ⟨l, x⟩ := p
      have hl := lookupL_of_mem l x _ hnd' hp
      refine ⟨?_, ?_, ?_, ?_⟩
      · intro e; subst e; have := ko.kty; rw [hl] at this; obtain ⟨t, h1, _⟩ := this; exact ⟨t, h1⟩
      · rintro (e | e) <;> subst e
        · have := ko.keyId; rw [hl] at this; obtain ⟨b, h1, h2, _⟩ := this; exact ⟨b, h1, h2⟩
        · have := ko.baseIv; rw [hl] at this; obtain ⟨b, h1, h2, _⟩ := this; exact ⟨b, h1, h2⟩
      · intro e; subst e; have := ko.alg; rw [hl] at this; obtain ⟨a, h1, _⟩ := this; exact ⟨a, h1⟩
      · intro e; subst e; have := ko.keyOps; rw [hl] at this; obtain ⟨a, s, h1, h2, h3, _⟩ := this; exact ⟨a, s, h1, h2, h3⟩
    · have hk1 := ko.kty
      rw [hw] at hk1
      obtain ⟨t, h1, h2⟩ := hk1
      have hmem : (Label.int 1, w) ∈ ls.zip (m.map (·.2)) := by
        simp only [lookupL, Option.map_eq_some_iff] at hw
        obtain ⟨p, hp, rfl⟩ := hw
        have a1 := List.mem_of_find?_eq_some hp
        have a2 := List.find?_some hp
        simp at a2; rw [← a2]; exact a1
      exact ⟨w, t, hmem, h1, by rw [← h2]; exact hres⟩
  · rintro ⟨m, ls, rfl, hk, hnd, hall, hkty⟩
    exact wellformed_is_accepted m ls hk hnd hall hkty

/-- a missing key type and a reserved key type (`1: 0`) are both rejected; a text key type is never confused with the default. -/
example : (CoseKey.fromValue (.map [])).isOk = false ∧ (CoseKey.fromValue (.map [(.int 1, .int 0)])).isOk = false ∧
    (CoseKey.fromValue (.map [(.int 1, .text [])])).isOk = true ∧ (CoseKey.fromValue (.map [(.int 1, .int 4)])).isOk = true := by decide +kernel

/-- COSE_KeySet: accepted iff an array all of whose elements are acceptable keys, yielding them in order. -/
theorem keyset_iff (v : Value) (ks : List CoseKey) :
    CoseKeySet.fromValue v = .ok ks ↔ ∃ a, v = .array a ∧ mapRes CoseKey.fromValue a = .ok ks :=
  tryAsArrayThenConvert_ok CoseKey.fromValue v ks

theorem mapRes_length {α β : Type} (f : α → Res β) : ∀ (xs : List α) (ys : List β), mapRes f xs = .ok ys → ys.length = xs.length := by
  intro xs; induction xs with
  | nil => intro ys h; simp [mapRes] at h; subst h; rfl
  | cons x xs ih => intro ys h; rw [mapRes_cons_ok] at h; obtain ⟨y, ys', _, h2, rfl⟩ := h; simp [ih ys' h2]

theorem keyset_elementwise (a : List Value) (ks : List CoseKey) (h : mapRes CoseKey.fromValue a = .ok ks) :
    ks.length = a.length ∧ ∀ i (hi : i < a.length) (hk : i < ks.length), CoseKey.fromValue a[i] = .ok ks[i] := by
  refine ⟨mapRes_length _ _ _ h, ?_⟩
  induction a generalizing ks with
  | nil => intro i hi; simp at hi
  | cons x xs ih =>
    rw [mapRes_cons_ok] at h
    obtain ⟨y, ys, hy, hys, rfl⟩ := h
    intro i hi hk
    cases i with
    | zero => simpa using hy
    | succ j => simpa using ih ys hys j (by simpa using hi) (by simpa using hk)

/-- the outcome depends only on the CBOR data-model value. -/
theorem depends_only_on_value (b1 b2 : Bytes) (v : Value) (h1 : readToValue b1 = .ok v) (h2 : readToValue b2 = .ok v) :
    fromSlice CoseKey.fromValue b1 = fromSlice CoseKey.fromValue b2 := by simp [fromSlice, h1, h2]

/-- … "does not depend on the encoding", from the encodings themselves (keys and key sets). -/
theorem any_encoding (v : Value) (b1 b2 : Bytes) (h1 : Spec.Encodes v b1) (h2 : Spec.Encodes v b2) (hd : Cbor.depthOf v ≤ Cbor.recursionLimit) :
    fromSlice CoseKey.fromValue b1 = fromSlice CoseKey.fromValue b2 ∧ fromSlice CoseKeySet.fromValue b1 = fromSlice CoseKeySet.fromValue b2 :=
  ⟨fromSlice_encoding_independent _ v b1 b2 h1 h2 hd, fromSlice_encoding_independent _ v b1 b2 h1 h2 hd⟩

#print axioms setInsert_some
#print axioms key_ops_set
#print axioms accepted_is_wellformed
#print axioms wellformed_is_accepted
#print axioms accepted_iff
#print axioms keyset_iff
#print axioms keyset_elementwise
#print axioms depends_only_on_value
#print axioms any_encoding

end Coset.Props.C10
