import CosetModel.Api
namespace Coset.Props.C01

end Coset.Props.C01
