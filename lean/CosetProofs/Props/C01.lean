/-
  C01 — untrusted bytes never crash decoding or the processing that follows it.
  Proved: no decoding entry point of any type panics (every panic site of the model — Vec::remove, indexing, unwrap/expect,
  assert!, unreachable!, len-4 — is dominated by its guard); re-encoding never panics; the to-be-signed / MAC / AAD helpers never
  panic on a decoded value under their documented preconditions; the recursion through counter signatures and protected
  headers is bounded by the nesting budget whatever the input (fuel independence).  Machine stack bytes per activation,
  allocator behaviour and wall-clock time are not modelled: they are observed by the child-process runs of the check.
-/
import CosetProofs.EncodeNoPanic
import CosetProofs.Fuel
import CosetProofs.Props.C02
import CosetProofs.Cbor.Weight
import CosetProofs.NoOof
namespace Coset.Props.C01
open Coset

/-- every byte-level decoding entry point (`from_slice`) of every type: value or error, never a panic. -/
theorem decode_no_panic (bs : Bytes) :
    NP (fromSlice hdrFromValue bs) ∧ NP (fromSlice ProtectedHeader.fromValue bs) ∧ NP (fromSlice sigFromValue bs) ∧
    NP (fromSlice CoseSign.fromValue bs) ∧ NP (fromSlice CoseSign1.fromValue bs) ∧ NP (fromSlice rcpFromValue bs) ∧
    NP (fromSlice CoseEncrypt.fromValue bs) ∧ NP (fromSlice CoseEncrypt0.fromValue bs) ∧ NP (fromSlice CoseMac.fromValue bs) ∧
    NP (fromSlice CoseMac0.fromValue bs) ∧ NP (fromSlice CoseKey.fromValue bs) ∧ NP (fromSlice CoseKeySet.fromValue bs) ∧
    NP (fromSlice ClaimsSet.fromValue bs) ∧ NP (fromSlice PartyInfo.fromValue bs) ∧ NP (fromSlice SuppPubInfo.fromValue bs) ∧
    NP (fromSlice CoseKdfContext.fromValue bs) ∧ NP (fromSlice Label.fromValue bs) := by
  have hph : ∀ v, NP (ProtectedHeader.fromValue v) := by
    intro v p h
    unfold ProtectedHeader.fromValue at h
    cases hh : hdrFromValue v with
    | ok x => simp [hh] at h
    | err e => simp [hh] at h
    | panic q => exact hdrFromValue_NP v q hh
  exact ⟨fromSlice_NP _ hdrFromValue_NP bs, fromSlice_NP _ hph bs, fromSlice_NP _ sigFromValue_NP bs, fromSlice_NP _ sign_NP bs,
    fromSlice_NP _ sign1_NP bs, fromSlice_NP _ rcpFromValue_NP bs, fromSlice_NP _ encrypt_NP bs, fromSlice_NP _ encrypt0_NP bs,
    fromSlice_NP _ mac_NP bs, fromSlice_NP _ mac0_NP bs, fromSlice_NP _ key_NP bs, fromSlice_NP _ keyset_NP bs, fromSlice_NP _ claims_NP bs,
    fromSlice_NP _ party_NP bs, fromSlice_NP _ supp_NP bs, fromSlice_NP _ kdf_NP bs, fromSlice_NP _ Label_fromValue_NP bs⟩

/-- the tagged entry points of the six message types. -/
theorem decode_tagged_no_panic (bs : Bytes) :
    NP (fromTaggedSlice Gen.TAG_CoseSign CoseSign.fromValue bs) ∧ NP (fromTaggedSlice Gen.TAG_CoseSign1 CoseSign1.fromValue bs) ∧
    NP (fromTaggedSlice Gen.TAG_CoseEncrypt CoseEncrypt.fromValue bs) ∧ NP (fromTaggedSlice Gen.TAG_CoseEncrypt0 CoseEncrypt0.fromValue bs) ∧
    NP (fromTaggedSlice Gen.TAG_CoseMac CoseMac.fromValue bs) ∧ NP (fromTaggedSlice Gen.TAG_CoseMac0 CoseMac0.fromValue bs) :=
  ⟨fromTaggedSlice_NP _ _ sign_NP bs, fromTaggedSlice_NP _ _ sign1_NP bs, fromTaggedSlice_NP _ _ encrypt_NP bs,
   fromTaggedSlice_NP _ _ encrypt0_NP bs, fromTaggedSlice_NP _ _ mac_NP bs, fromTaggedSlice_NP _ _ mac0_NP bs⟩

/-- the bstr-wrapped protected header entry point. -/
theorem protected_bstr_no_panic (v : Value) : NP (phFromBstr v) := phFromBstr_NP v

/-- the CBOR parser itself: value, error or (model-only) out of fuel — it has no panic outcome at all. -/
theorem parser_no_panic (bs : Bytes) : NP (readToValue bs) := readToValue_NP bs

/-- termination without a hidden time-out: the parser never answers "out of fuel" with the fuel its entry point supplies
    (the fuel argument exists for Lean's termination checker only), for any input of any length. -/
theorem parser_never_out_of_fuel (bs : Bytes) : readToValue bs ≠ .err .outOfFuel := readToValue_no_oof bs

/-- memory proportional to the input, logical core: the item the parser returns has at most as many nodes plus string bytes as the
    input has bytes (one input byte is consumed per node and per string byte; nothing is allocated from a declared length). -/
theorem parsed_size_le_input (bs : Bytes) (v : Value) (h : readToValue bs = .ok v) : v.size ≤ bs.length := readToValue_size bs v h

/-- the same for any prefix parse: size of the item plus the unread rest never exceeds the input. -/
theorem parse_consumes (fuel d : Nat) (bs : Bytes) (v : Value) (r : Bytes) (h : Cbor.parse fuel d bs = .ok (v, r)) :
    v.size + r.length ≤ bs.length := Cbor.parse_weight fuel d bs v r h

/-- no hidden time-out anywhere: none of the byte-level entry points of any type ever reports the model-only outcome "out of fuel" —
    the parser's fuel, the header-family fuel (3·budget + 3) and the recipients' fuel (size of the value + 1) always suffice. -/
theorem api_never_out_of_fuel (bs : Bytes) :
    fromSlice hdrFromValue bs ≠ .err .outOfFuel ∧ fromSlice sigFromValue bs ≠ .err .outOfFuel ∧
    fromSlice CoseSign.fromValue bs ≠ .err .outOfFuel ∧ fromSlice CoseSign1.fromValue bs ≠ .err .outOfFuel ∧
    fromSlice rcpFromValue bs ≠ .err .outOfFuel ∧ fromSlice CoseEncrypt.fromValue bs ≠ .err .outOfFuel ∧
    fromSlice CoseEncrypt0.fromValue bs ≠ .err .outOfFuel ∧ fromSlice CoseMac.fromValue bs ≠ .err .outOfFuel ∧
    fromSlice CoseMac0.fromValue bs ≠ .err .outOfFuel ∧ fromSlice CoseKey.fromValue bs ≠ .err .outOfFuel ∧
    fromSlice CoseKeySet.fromValue bs ≠ .err .outOfFuel ∧ fromSlice ClaimsSet.fromValue bs ≠ .err .outOfFuel ∧
    fromSlice PartyInfo.fromValue bs ≠ .err .outOfFuel ∧ fromSlice SuppPubInfo.fromValue bs ≠ .err .outOfFuel ∧
    fromSlice CoseKdfContext.fromValue bs ≠ .err .outOfFuel ∧ fromSlice Label.fromValue bs ≠ .err .outOfFuel :=
  ⟨fromSlice_oof _ (by simp) bs, fromSlice_oof _ (by simp) bs, fromSlice_oof _ sign_oof bs, fromSlice_oof _ sign1_oof bs,
   fromSlice_oof _ rcp_oof bs, fromSlice_oof _ encrypt_oof bs, fromSlice_oof _ encrypt0_oof bs, fromSlice_oof _ mac_oof bs,
   fromSlice_oof _ mac0_oof bs, fromSlice_oof _ key_oof bs, fromSlice_oof _ keyset_oof bs, fromSlice_oof _ claims_oof bs,
   fromSlice_oof _ (by simp) bs, fromSlice_oof _ (by simp) bs, fromSlice_oof _ kdf_oof bs, fromSlice_oof _ (by simp) bs⟩

theorem tagged_api_never_out_of_fuel (bs : Bytes) :
    fromTaggedSlice Gen.TAG_CoseSign CoseSign.fromValue bs ≠ .err .outOfFuel ∧ fromTaggedSlice Gen.TAG_CoseSign1 CoseSign1.fromValue bs ≠ .err .outOfFuel ∧
    fromTaggedSlice Gen.TAG_CoseEncrypt CoseEncrypt.fromValue bs ≠ .err .outOfFuel ∧ fromTaggedSlice Gen.TAG_CoseEncrypt0 CoseEncrypt0.fromValue bs ≠ .err .outOfFuel ∧
    fromTaggedSlice Gen.TAG_CoseMac CoseMac.fromValue bs ≠ .err .outOfFuel ∧ fromTaggedSlice Gen.TAG_CoseMac0 CoseMac0.fromValue bs ≠ .err .outOfFuel :=
  ⟨fromTaggedSlice_oof _ _ sign_oof bs, fromTaggedSlice_oof _ _ sign1_oof bs, fromTaggedSlice_oof _ _ encrypt_oof bs,
   fromTaggedSlice_oof _ _ encrypt0_oof bs, fromTaggedSlice_oof _ _ mac_oof bs, fromTaggedSlice_oof _ _ mac0_oof bs⟩

/-- … and the bstr-wrapped protected header entry point. -/
theorem protected_bstr_never_out_of_fuel (v : Value) : phFromBstr v ≠ .err .outOfFuel := by simp

/-- re-encoding: `to_cbor_value` of headers, protected headers and signatures never panics, for any in-memory value. -/
theorem encode_no_panic (h : Header) (s : CoseSignature) (p : ProtectedHeader) :
    NP (Header.toValue h) ∧ NP (CoseSignature.toValue s) ∧ NP (ProtectedHeader.cborBstr p) :=
  ⟨Header.toValue_NP h, CoseSignature.toValue_NP s, ProtectedHeader.cborBstr_NP p⟩

/-- a decoded protected header always turns back into its byte string (stored bytes), so the structure functions' `expect` cannot fire. -/
theorem decoded_protected_serialises (v : Value) (p : ProtectedHeader) (h : phFromBstr v = .ok p) :
    ∃ d, ProtectedHeader.cborBstr p = .ok (.bytes d) := by
  obtain ⟨d, _, ho⟩ := C02.decode_retains _ _ v p h
  cases p with
  | mk orig hd => simp only [ProtectedHeader.originalData] at ho; subst ho; exact ⟨d, cborBstr_stored d hd⟩

/-- follow-up on a decoded COSE_Sign1: to-be-signed bytes and verification never panic, for every AAD and verifier. -/
theorem sign1_followup_no_panic {ρ : Type} (v : Value) (m : CoseSign1) (hd : CoseSign1.fromValue v = .ok m) (aad : Bytes) (g : Bytes → Bytes → ρ) :
    (∃ t, m.tbsData aad = .ok t) ∧ (∃ r, m.verifySignature aad g = .ok r) := by
  obtain ⟨x0, x1, x2, _, h0, _, _⟩ := (sign1_ok_iff v m).mp hd
  obtain ⟨d, hb⟩ := decoded_protected_serialises x0 _ h0
  have := C03.sign1_tbs m aad d hb
  exact ⟨⟨_, this⟩, ⟨_, C03.verify_passes m aad g _ this⟩⟩

/-- follow-up on a decoded COSE_Mac0 / COSE_Encrypt0 with the payload / ciphertext present where the helper needs it. -/
theorem mac0_followup_no_panic {ρ : Type} (v : Value) (m : CoseMac0) (hd : CoseMac0.fromValue v = .ok m) (aad pl : Bytes) (g : Bytes → Bytes → ρ)
    (hp : m.payload = some pl) : ∃ r, m.verifyTag aad g = .ok r := by
  obtain ⟨x0, x1, x2, _, h0, _, _⟩ := (mac0_ok_iff v m).mp hd
  obtain ⟨d, hb⟩ := decoded_protected_serialises x0 _ h0
  exact ⟨_, C04.verify_passes0 m aad g _ (C04.mac0_tbm m aad d pl hb hp)⟩

theorem encrypt0_followup_no_panic {ρ : Type} (v : Value) (m : CoseEncrypt0) (hd : CoseEncrypt0.fromValue v = .ok m) (aad ct : Bytes)
    (g : Bytes → Bytes → ρ) (hc : m.ciphertext = some ct) : ∃ r, m.decrypt aad g = .ok r := by
  obtain ⟨x0, x1, x2, _, h0, _, _⟩ := (encrypt0_ok_iff v m).mp hd
  obtain ⟨d, hb⟩ := decoded_protected_serialises x0 _ h0
  exact ⟨_, C05.encrypt0_decrypt m aad d ct g hb hc⟩

/-- follow-up on a decoded COSE_Sign, for every in-range signer index. -/
theorem sign_followup_no_panic {ρ : Type} (v : Value) (m : CoseSign) (hd : CoseSign.fromValue v = .ok m) (aad : Bytes) (which : Nat)
    (hw : which < m.signatures.length) (g : Bytes → Bytes → ρ) : ∃ r, m.verifySignature which aad g = .ok r := by
  obtain ⟨x0, x1, x2, sigs, _, h0, _, _, hs⟩ := (sign_ok_iff v m).mp hd
  obtain ⟨d, hb⟩ := decoded_protected_serialises x0 _ h0
  have hsig : m.signatures[which]? = some m.signatures[which] := List.getElem?_eq_getElem hw
  obtain ⟨sd, hsd⟩ := C02.signers_retain sigs m.signatures hs m.signatures[which] (List.getElem_mem hw)
  have hsb : ProtectedHeader.cborBstr m.signatures[which].protected_ = .ok (.bytes sd) := by
    cases hq : m.signatures[which].protected_ with
    | mk orig hh => rw [hq] at hsd; simp only [ProtectedHeader.originalData] at hsd; subst hsd; exact cborBstr_stored sd hh
  exact ⟨_, C03.verify_passes_sign m which aad g _ _ hsig (C03.sign_tbs m _ aad d sd hb hsb)⟩

/-- the nesting of counter signatures / protected headers is bounded by the crate's budget, whatever the input:
    the decoders' results do not depend on the fuel once it exceeds 3·budget + 3 (no deeper activation is ever needed),
    and beyond the budget the input is refused with a decode error instead of recursing. -/
theorem depth_bounded (k : Nat) (v : Value) :
    Header.fromValue (topFuel + k) maxNest v = hdrFromValue v ∧ CoseSignature.fromValue (topFuel + k) maxNest v = sigFromValue v ∧
    ProtectedHeader.fromBstr (topFuel + k) maxNest v = phFromBstr v := by
  obtain ⟨hH, hP, hS⟩ := fuel_independent maxNest
  refine ⟨?_, ?_, ?_⟩
  · unfold hdrFromValue; rw [hH _ v (by unfold topFuel; omega), hH topFuel v (by unfold topFuel; omega)]
  · unfold sigFromValue; rw [hS _ v (by unfold topFuel; omega), hS topFuel v (by unfold topFuel; omega)]
  · unfold phFromBstr; rw [hP _ v (by unfold topFuel; omega), hP topFuel v (by unfold topFuel; omega)]

theorem budget : maxNest = 16 := by decide

/-- with the budget exhausted a counter signature is refused (decode error), not followed. -/
theorem budget_exhausted (sf : Value → Res CoseSignature) (a : List Value) (ha : a ≠ []) :
    counterSigArm 0 sf (.array a) = .err .decodeFailed := by
  cases a with
  | nil => exact absurd rfl ha
  | cons x xs => simp [counterSigArm, tryAsArray]

/-- non-vacuity: 16 nested counter signatures through protected headers are accepted, 17 are refused; a decoded COSE_Sign with
    two signers satisfies the follow-up preconditions. -/
def nestW : Nat → Bytes
  | 0 => [0xa0]
  | n + 1 => [0xa1, 0x07, 0x83] ++ Cbor.encHead 2 (nestW n).length ++ nestW n ++ [0xa0, 0x40]
example : (fromSlice hdrFromValue (nestW 16)).isOk = true ∧ (fromSlice hdrFromValue (nestW 17)).errKind? = some .decodeFailed := by decide +kernel
example : (fromSlice CoseSign.fromValue [0x84, 0x40, 0xa0, 0xf6, 0x82, 0x83, 0x40, 0xa0, 0x40, 0x83, 0x43, 0xa1, 0x01, 0x26, 0xa0, 0x41, 0x01]).isOk = true := by
  decide +kernel


#print axioms decode_no_panic
#print axioms decode_tagged_no_panic
#print axioms protected_bstr_no_panic
#print axioms parser_no_panic
#print axioms parser_never_out_of_fuel
#print axioms parsed_size_le_input
#print axioms parse_consumes
#print axioms api_never_out_of_fuel
#print axioms tagged_api_never_out_of_fuel
#print axioms protected_bstr_never_out_of_fuel
#print axioms encode_no_panic
#print axioms decoded_protected_serialises
#print axioms sign1_followup_no_panic
#print axioms mac0_followup_no_panic
#print axioms encrypt0_followup_no_panic
#print axioms sign_followup_no_panic
#print axioms depth_bounded
#print axioms budget
#print axioms budget_exhausted

end Coset.Props.C01
