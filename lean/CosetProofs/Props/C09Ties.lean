/- C09: ties to the source text.  Built and audited together with Props/C09.lean by check.py, but in a module of its own, so that a
   changed textual fact breaks the obligations of the properties that own it and not those of every module that imports their lemmas. -/
import CosetProofs.Ties.RemoveFields
import CosetProofs.Ties.Budget.Util
namespace Coset.Props.C09

/-! ### ties to the source text (regenerated on every run, compared in the kernel with the transcribed tree) -/
/-- which field each positional `remove(i)` of every array-shaped decoder feeds. -/
theorem tie_remove_fields : Coset.Ties.genRemoveFields = Coset.Ties.pinnedRemoveFields := Coset.Ties.remove_fields

#print axioms tie_remove_fields

/-- decision budget of `src/util/mod.rs`: no branch, comparison or integer literal beyond the transcribed tree's (a needle no stream reaches still adds one). -/
theorem tie_budget_util : Coset.Ties.budgetCovered "util" Coset.Gen.decisionBudget Coset.Pinned.decisionBudget = true := Coset.Ties.budget_util

#print axioms tie_budget_util

end Coset.Props.C09
