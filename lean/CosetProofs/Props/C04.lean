import CosetModel.Api
namespace Coset.Props.C04

end Coset.Props.C04
