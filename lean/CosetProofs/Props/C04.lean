/-
  C04 — to-be-MACed bytes are exactly RFC 8152 MAC_structure.
-/
import CosetProofs.Structures
import CosetModel.Builders
namespace Coset.Props.C04
open Coset Coset.Cbor Coset.Spec

theorem contexts : MacContext.text .coseMac = ctxMAC ∧ MacContext.text .coseMac0 = ctxMAC0 := by decide
theorem contexts_distinct : ctxMAC ≠ ctxMAC0 := by decide

/-- C04 core: `[context, protected, external_aad, payload]`, deterministic encoding. -/
theorem mac_structure (ctx : MacContext) (prot : ProtectedHeader) (aad payload b : Bytes)
    (hb : ProtectedHeader.cborBstr prot = .ok (.bytes b)) :
    macStructureData ctx prot aad payload = .ok (specStruct ctx.text [b, aad, payload]) :=
  macStructure_spec ctx prot aad payload b hb

/-- COSE_Mac uses "MAC", COSE_Mac0 uses "MAC0"; the payload slot is the message's payload. -/
theorem mac_tbm (m : CoseMac) (aad b p : Bytes) (hb : ProtectedHeader.cborBstr m.protected_ = .ok (.bytes b)) (hp : m.payload = some p) :
    m.tbm aad = .ok (specStruct ctxMAC [b, aad, p]) := by
  simpa [CoseMac.tbm, hp, contexts.1] using mac_structure .coseMac m.protected_ aad p b hb

theorem mac0_tbm (m : CoseMac0) (aad b p : Bytes) (hb : ProtectedHeader.cborBstr m.protected_ = .ok (.bytes b)) (hp : m.payload = some p) :
    m.tbm aad = .ok (specStruct ctxMAC0 [b, aad, p]) := by
  simpa [CoseMac0.tbm, hp, contexts.2] using mac_structure .coseMac0 m.protected_ aad p b hb

/-- without a payload, creating or verifying a tag is refused (documented panic), never MACs something else. -/
theorem needs_payload {ρ : Type} (m : CoseMac) (m0 : CoseMac0) (aad : Bytes) (g : Bytes → Bytes → ρ) (f : Bytes → Bytes) (ft : Bytes → Except Nat Bytes)
    (h : m.payload = none) (h0 : m0.payload = none) :
    m.verifyTag aad g = .panic .unwrapNone ∧ m0.verifyTag aad g = .panic .unwrapNone ∧
    (∃ s, MacOp.apply m (.createTag aad f) = .panic s) ∧ (∃ s, MacOp.apply m (.tryCreateTag aad ft) = .panic s) ∧
    (∃ s, Mac0Op.apply m0 (.createTag aad f) = .panic s) ∧ (∃ s, Mac0Op.apply m0 (.tryCreateTag aad ft) = .panic s) := by
  simp [CoseMac.verifyTag, CoseMac0.verifyTag, CoseMac.tbm, CoseMac0.tbm, h, h0, MacOp.apply, Mac0Op.apply, Step.ofRes]

/-- verification and creation hand exactly these bytes to the caller's function. -/
theorem verify_passes {ρ : Type} (m : CoseMac) (aad : Bytes) (g : Bytes → Bytes → ρ) (t : Bytes) (ht : m.tbm aad = .ok t) :
    m.verifyTag aad g = .ok (g m.tag t) := by simp [CoseMac.verifyTag, ht]
theorem verify_passes0 {ρ : Type} (m : CoseMac0) (aad : Bytes) (g : Bytes → Bytes → ρ) (t : Bytes) (ht : m.tbm aad = .ok t) :
    m.verifyTag aad g = .ok (g m.tag t) := by simp [CoseMac0.verifyTag, ht]

theorem create_passes (m : CoseMac) (aad : Bytes) (f : Bytes → Bytes) (t : Bytes) (ht : m.tbm aad = .ok t) :
    MacOp.apply m (.createTag aad f) = .next { m with tag := f t } := by simp [MacOp.apply, ht, Step.ofRes]
theorem create_passes0 (m : CoseMac0) (aad : Bytes) (f : Bytes → Bytes) (t : Bytes) (ht : m.tbm aad = .ok t) :
    Mac0Op.apply m (.createTag aad f) = .next { m with tag := f t } := by simp [Mac0Op.apply, ht, Step.ofRes]

theorem injective (c1 c2 : MacContext) (xs1 xs2 : List Bytes)
    (hx1 : xs1.length + 1 < 2 ^ 64 ∧ ∀ x ∈ xs1, x.length < 2 ^ 64) (hx2 : xs2.length + 1 < 2 ^ 64 ∧ ∀ x ∈ xs2, x.length < 2 ^ 64)
    (h : specStruct c1.text xs1 = specStruct c2.text xs2) : c1 = c2 ∧ xs1 = xs2 := by
  have v : ∀ c : MacContext, Utf8.valid c.text = true ∧ c.text.length < 2 ^ 64 := by intro c; cases c <;> decide
  obtain ⟨hc, hx⟩ := specStruct_injective _ _ _ _ (v c1) (v c2) hx1 hx2 h
  refine ⟨?_, hx⟩
  cases c1 <;> cases c2 <;> first | rfl | (exact absurd hc (by decide))

example : macStructureData .coseMac0 (.mk (some []) Header.default) [] [0x61] = .ok [0x84, 0x64, 77, 65, 67, 48, 0x40, 0x40, 0x41, 0x61] := by decide


#print axioms contexts
#print axioms contexts_distinct
#print axioms mac_structure
#print axioms mac_tbm
#print axioms mac0_tbm
#print axioms needs_payload
#print axioms verify_passes
#print axioms verify_passes0
#print axioms create_passes
#print axioms create_passes0
#print axioms injective

end Coset.Props.C04
