/-
  C12 — encode side, assembled for keys: whatever `CoseKey::to_cbor_value` emits has pairwise distinct map keys,
  for *every* in-memory key (no well-formedness hypothesis).  A module of its own: it uses Roundtrip lemmas.
-/
import CosetProofs.Props.C12
import CosetProofs.Roundtrip.Key
namespace Coset.Props.C12
open Coset Coset.Spec

theorem mem_typedSeen (m4 : List (Value × Value)) (n : Int) (h : Value.int n ∈ m4.map (·.1)) : Label.int n ∈ typedSeen m4 := by
  obtain ⟨p, hp, he⟩ := List.mem_map.mp h
  simp only [typedSeen, List.mem_filterMap]
  exact ⟨p, hp, by rw [he]⟩

/-- the emission loop after the typed entries: if the typed entries have distinct integer keys, so has the whole emitted map. -/
theorem emit_nodup (m4 : List (Value × Value)) (rest : List (Label × Value)) (m : List (Value × Value))
    (hnd : (m4.map (·.1)).Nodup) (hint : ∀ k ∈ m4.map (·.1), ∃ n, k = Value.int n)
    (h : restToPairs rest (typedSeen m4) m4 = .ok m) : (m.map (·.1)).Nodup := by
  obtain ⟨h1, h2, h3⟩ := restToPairs_ok rest _ _ _ h
  subst h3
  rw [List.map_append, List.nodup_append]
  refine ⟨hnd, ?_, ?_⟩
  · rw [List.map_map]
    unfold List.Nodup at h1 ⊢
    rw [List.pairwise_map] at h1 ⊢
    refine h1.imp ?_
    intro a b hab he
    apply hab
    obtain ⟨la, va⟩ := a
    obtain ⟨lb, vb⟩ := b
    simp only [Function.comp] at he
    cases la <;> cases lb <;> simp_all
  · intro a ha b hb hab
    subst hab
    obtain ⟨n, rfl⟩ := hint a ha
    simp only [List.map_map, List.mem_map, Function.comp] at hb
    obtain ⟨p, hp, he⟩ := hb
    have hl : p.1 = Label.int n := by
      cases hp1 : p.1 with
      | int i => rw [hp1] at he; simp only [Value.int.injEq] at he; rw [he]
      | text t => rw [hp1] at he; cases he
    exact h2 (Label.int n) (List.mem_map.mpr ⟨p, hp, hl⟩) (mem_typedSeen m4 n ha)

/-- **C12, encode side, keys**: for every in-memory `CoseKey`, if `to_cbor_value` succeeds with a map, its keys are pairwise distinct. -/
theorem key_encode_distinct (k : CoseKey) (m : List (Value × Value)) (h : CoseKey.toValue k = .ok (.map m)) :
    (m.map (·.1)).Nodup := by
  obtain ⟨kty, kid, alg, ops, biv, ps⟩ := k
  have hc : Gen.key_KTY = 1 ∧ Gen.key_KID = 2 ∧ Gen.key_ALG = 3 ∧ Gen.key_KEY_OPS = 4 ∧ Gen.key_BASE_IV = 5 := by decide
  obtain ⟨c1, c2, c3, c4, c5⟩ := hc
  simp only [CoseKey.toValue, RegLabel.toValue_eq, RegLabelPriv.toValue_eq, regLabelsToValues, mapRes_toValue, c1, c2, c3, c4, c5] at h
  have key : ∀ m4 : List (Value × Value), (m4.map (·.1)).Nodup → (∀ k ∈ m4.map (·.1), ∃ n, k = Value.int n) →
      (match restToPairs ps (typedSeen m4) m4 with
        | .ok m => Res.ok (Value.map m)
        | .err e => .err e
        | .panic p => .panic p) = .ok (.map m) → (m.map (·.1)).Nodup := by
    intro m4 hnd hint hm
    cases hr : restToPairs ps (typedSeen m4) m4 with
    | ok m' => rw [hr] at hm; simp only [Res.ok.injEq, Value.map.injEq] at hm; subst hm; exact emit_nodup m4 ps m' hnd hint hr
    | err e => rw [hr] at hm; cases hm
    | panic p => rw [hr] at hm; cases hm
  cases alg <;> by_cases h2 : kid.isEmpty <;> by_cases h4 : ops.isEmpty <;> by_cases h5 : biv.isEmpty <;>
    simp only [h2, h4, h5, Bool.not_true, Bool.not_false, Bool.false_eq_true, if_false, if_true] at h <;>
    (refine key _ ?_ ?_ h <;> simp)

/-! ### headers -/
def hdrKeys7 : List Value := [.int 1, .int 2, .int 3, .int 4, .int 5, .int 6, .int 7]

theorem hdrKeys7_nodup : hdrKeys7.Nodup := by simp [hdrKeys7]
theorem hdrKeys7_int : ∀ k ∈ hdrKeys7, ∃ n, k = Value.int n := by
  intro k hk; simp only [hdrKeys7, List.mem_cons, List.not_mem_nil, or_false] at hk
  rcases hk with rfl | rfl | rfl | rfl | rfl | rfl | rfl <;> exact ⟨_, rfl⟩

theorem typed_keys_sublist (alg crit ct kid iv piv) :
    List.Sublist ((headerTypedPairs alg crit ct kid iv piv).map (·.1)) [Value.int 1, .int 2, .int 3, .int 4, .int 5, .int 6] := by
  rw [headerTypedPairs_eq]
  have := (typedL_labels alg crit ct kid iv piv).map labelValue
  have e : (pairsToValue (typedL alg crit ct kid iv piv)).map (·.1) = ((typedL alg crit ct kid iv piv).map (·.1)).map labelValue := by
    simp only [pairsToValue, List.map_map]; rfl
  rw [e]
  simpa [labelValue] using this

theorem finish_nodup (m4 : List (Value × Value)) (rest : List (Label × Value)) (m : List (Value × Value))
    (hs : List.Sublist (m4.map (·.1)) hdrKeys7) (h : headerFinish m4 rest = .ok (.map m)) : (m.map (·.1)).Nodup := by
  simp only [headerFinish] at h
  cases hr : restToPairs rest (typedSeen m4) m4 with
  | ok m' =>
    rw [hr] at h; simp only [Res.ok.injEq, Value.map.injEq] at h; subst h
    exact emit_nodup m4 rest m' (hdrKeys7_nodup.sublist hs) (fun k hk => hdrKeys7_int k (hs.subset hk)) hr
  | err e => rw [hr] at h; cases h
  | panic p => rw [hr] at h; cases h

/-- **C12, encode side, headers**: for every in-memory `Header` (any counter signatures, any extras), if `to_cbor_value` returns a
    map, its keys are pairwise distinct. -/
theorem header_encode_distinct (hd : Header) (m : List (Value × Value)) (h : Header.toValue hd = .ok (.map m)) :
    (m.map (·.1)).Nodup := by
  obtain ⟨alg, crit, ct, kid, iv, piv, cs, rest⟩ := hd
  have c7 : Gen.header_COUNTER_SIG = 7 := by decide
  have h6 := typed_keys_sublist alg crit ct kid iv piv
  have h7 : ∀ v : Value, List.Sublist ((headerTypedPairs alg crit ct kid iv piv ++ [(Value.int 7, v)]).map (·.1)) hdrKeys7 := by
    intro v
    rw [List.map_append]
    exact List.Sublist.append h6 (List.Sublist.refl [Value.int 7])
  have h6' : List.Sublist ((headerTypedPairs alg crit ct kid iv piv).map (·.1)) hdrKeys7 :=
    h6.trans (by simp [hdrKeys7])
  rw [Header.toValue.eq_def] at h
  simp only at h
  cases cs with
  | nil => exact finish_nodup _ rest m h6' h
  | cons s ss =>
    cases ss with
    | nil =>
      simp only [c7] at h
      cases hv : CoseSignature.toValue s with
      | ok v => rw [hv] at h; exact finish_nodup _ rest m (h7 v) h
      | err e => rw [hv] at h; cases h
      | panic p => rw [hv] at h; cases h
    | cons s2 ss =>
      simp only [c7] at h
      cases hv : sigsToValues (s :: s2 :: ss) with
      | ok vs => rw [hv] at h; exact finish_nodup _ rest m (h7 _) h
      | err e => rw [hv] at h; cases h
      | panic p => rw [hv] at h; cases h

#print axioms emit_nodup
#print axioms key_encode_distinct
#print axioms header_encode_distinct

end Coset.Props.C12
