/- C02: ties to the source text.  Built and audited together with Props/C02.lean by check.py, but in a module of its own, so that a
   changed textual fact breaks the obligations of the properties that own it and not those of every module that imports their lemmas. -/
import CosetProofs.Ties.Compare.Context
import CosetProofs.Ties.Compare.Encrypt
import CosetProofs.Ties.Compare.Header
import CosetProofs.Ties.Compare.Mac
import CosetProofs.Ties.Compare.Sign
namespace Coset.Props.C02

/-! ### ties to the source text (regenerated on every run, compared in the kernel with the transcribed tree) -/

/-! comparisons and integer literals of the modules this property is anchored in (properties.jsonl): none beyond the transcribed tree's -/
theorem tie_compare_context : Coset.Ties.compareCovered "context" Coset.Gen.decisionBudget Coset.Pinned.decisionBudget = true := Coset.Ties.compare_context
theorem tie_compare_encrypt : Coset.Ties.compareCovered "encrypt" Coset.Gen.decisionBudget Coset.Pinned.decisionBudget = true := Coset.Ties.compare_encrypt
theorem tie_compare_header : Coset.Ties.compareCovered "header" Coset.Gen.decisionBudget Coset.Pinned.decisionBudget = true := Coset.Ties.compare_header
theorem tie_compare_mac : Coset.Ties.compareCovered "mac" Coset.Gen.decisionBudget Coset.Pinned.decisionBudget = true := Coset.Ties.compare_mac
theorem tie_compare_sign : Coset.Ties.compareCovered "sign" Coset.Gen.decisionBudget Coset.Pinned.decisionBudget = true := Coset.Ties.compare_sign

#print axioms tie_compare_context
#print axioms tie_compare_encrypt
#print axioms tie_compare_header
#print axioms tie_compare_mac
#print axioms tie_compare_sign

end Coset.Props.C02
