/-
  C20 — the assembled statement: the map *emitted* for a canonicalised key has strictly ascending keys.
  (A module of its own: it uses the key emission lemma of Roundtrip/Key.lean, which itself rests on Props/C20.lean.)
-/
import CosetProofs.Props.C20
import CosetProofs.Roundtrip.Key
namespace Coset.Props.C20
open Coset Coset.Cbor Coset.Spec Coset.Props.C16

/-- the comparison the chosen ordering stands for. -/
def cmpOf (ord : CborOrdering) : Label → Label → Res Ordering :=
  match ord with
  | .lexicographic => Label.cmp
  | .lengthFirstLexicographic => Label.cmpCanonical

theorem le_ne_lt (ord : CborOrdering) (a b : Label × Value) (ha : ValidLabel a.1) (hb : ValidLabel b.1)
    (hle : leOf ord a b = true) (hne : a.1 ≠ b.1) : cmpOf ord a.1 b.1 = .ok .lt := by
  cases ord with
  | lexicographic =>
    simp only [leOf, labelLe, cmpOf] at hle ⊢
    rcases cmp_trichotomy a.1 b.1 ha hb with h | h | h
    · exact h
    · exact absurd h hne
    · have := cmp_swap b.1 a.1 hb ha .lt h
      rw [this] at hle; simp [Ordering.swap] at hle
  | lengthFirstLexicographic =>
    simp only [leOf, labelLeCanonical, cmpOf] at hle ⊢
    rcases cmp_canonical_trichotomy a.1 b.1 ha hb with h | h | h
    · exact h
    · exact absurd h hne
    · have := cmp_canonical_swap b.1 a.1 .lt h
      rw [this] at hle; simp [Ordering.swap] at hle

theorem typed_sorted (ord : CborOrdering) : keyLabels5.Pairwise (fun a b => cmpOf ord a b = .ok .lt) := by
  cases ord <;> simp only [keyLabels5, cmpOf] <;> decide

/-- **C20, assembled**: for a key whose extra parameters carry distinct, serialisable labels other than the integers 0..5 (every
    accepted key except those with the extra label 0, D5), the map emitted after `canonicalize ord` has its keys strictly ascending
    under `ord`'s comparison — typed fields and extras interleaved as emitted. -/
theorem emitted_strictly_ascending (k k' : CoseKey) (ord : CborOrdering)
    (hx : ∀ p ∈ k.params, ExtraLabel p.1) (hnd : (k.params.map (·.1)).Nodup)
    (h : k.canonicalize ord = .ok k') :
    ∃ L : List (Label × Value), CoseKey.toValue k' = .ok (.map (pairsToValue L)) ∧
      (L.map (·.1)).Pairwise (fun a b => cmpOf ord a b = .ok .lt) ∧ ∀ l ∈ L.map (·.1), ValidLabel l := by
  obtain ⟨_, _, _, _, _, hperm⟩ := perm k k' ord h
  have hs := sorted k k' ord h
  have hx' : ∀ p ∈ k'.params, ExtraLabel p.1 := fun p hp => hx p (hperm.subset hp)
  have hnd' : (k'.params.map (·.1)).Nodup := (hperm.map (·.1)).symm.nodup hnd
  have hgood : ParamsGood k'.params := by
    refine ⟨hnd', ?_, ?_⟩
    · intro l hl hm
      obtain ⟨p, hp, rfl⟩ := List.mem_map.mp hl
      have := (hx' p hp).2
      simp only [keyLabels5, List.mem_cons, List.not_mem_nil, or_false] at hm
      rcases hm with e | e | e | e | e
      · exact this 1 (by decide) (by decide) e
      · exact this 2 (by decide) (by decide) e
      · exact this 3 (by decide) (by decide) e
      · exact this 4 (by decide) (by decide) e
      · exact this 5 (by decide) (by decide) e
    · intro l hl
      obtain ⟨p, hp, rfl⟩ := List.mem_map.mp hl
      have hv := (hx' p hp).1
      cases hl' : p.1 with
      | int i => rw [hl'] at hv; simpa [LabelGood, ValidLabel, I64] using hv
      | text t => trivial
  cases k' with
  | mk kty kid alg ops biv ps =>
  refine ⟨keyL kty kid alg ops biv ++ ps, CoseKey.toValue_entries kty kid alg ops biv ps hgood, ?_, ?_⟩
  rotate_left
  · intro l hl
    rw [List.map_append, List.mem_append] at hl
    rcases hl with hl | hl
    · have := (keyL_labels kty kid alg ops biv).subset hl
      simp only [keyLabels5, List.mem_cons, List.not_mem_nil, or_false] at this
      rcases this with rfl | rfl | rfl | rfl | rfl <;> (simp only [ValidLabel, I64, i64Min, i64Max]; omega)
    · obtain ⟨p, hp, rfl⟩ := List.mem_map.mp hl
      exact (hx' p hp).1
  rw [List.map_append, List.pairwise_append]
  refine ⟨(typed_sorted ord).sublist (keyL_labels kty kid alg ops biv), ?_, ?_⟩
  · -- the extras: sorted, distinct ⇒ strictly ascending
    have hs' : ps.Pairwise (fun a b => leOf ord a b = true ∧ a.1 ≠ b.1 ∧ ValidLabel a.1 ∧ ValidLabel b.1) := by
      have hn : ps.Pairwise (fun a b => a.1 ≠ b.1) := List.pairwise_map.mp hnd'
      have hand := hs.and hn
      refine List.Pairwise.imp_of_mem ?_ hand
      intro a b ha hb hab
      exact ⟨hab.1, hab.2, (hx' a ha).1, (hx' b hb).1⟩
    rw [List.pairwise_map]
    exact hs'.imp (fun {a b} hab => le_ne_lt ord a b hab.2.2.1 hab.2.2.2 hab.1 hab.2.1)
  · -- typed below extras
    intro a ha b hb
    have ha5 : a ∈ keyLabels5 := (keyL_labels kty kid alg ops biv).subset ha
    obtain ⟨p, hp, rfl⟩ := List.mem_map.mp hb
    have hex := hx' p hp
    simp only [keyLabels5, List.mem_cons, List.not_mem_nil, or_false] at ha5
    cases ord with
    | lexicographic =>
      simp only [cmpOf]
      rcases ha5 with rfl | rfl | rfl | rfl | rfl <;> exact typed_below_extras _ (by decide) (by decide) _ hex
    | lengthFirstLexicographic =>
      simp only [cmpOf]
      rcases ha5 with rfl | rfl | rfl | rfl | rfl <;> exact typed_below_extras_canonical _ (by decide) (by decide) _ hex

/-- the byte-level comparison each ordering stands for (RFC 8949 §4.2.1 bytewise; RFC 7049 §3.9 length-first). -/
def bytesOrd (ord : CborOrdering) : Bytes → Bytes → Ordering :=
  match ord with
  | .lexicographic => lexCmp
  | .lengthFirstLexicographic => lenLex

theorem cmpOf_bytes (ord : CborOrdering) (a b : Label) (ha : ValidLabel a) (hb : ValidLabel b)
    (h : cmpOf ord a b = .ok .lt) : bytesOrd ord (encLabel a) (encLabel b) = .lt := by
  cases ord with
  | lexicographic =>
    simp only [cmpOf, bytesOrd] at h ⊢
    rw [cmp_is_lex a b ha hb] at h; simpa using h
  | lengthFirstLexicographic =>
    simp only [cmpOf, bytesOrd] at h ⊢
    rw [cmp_canonical_is_lenlex] at h; simpa using h

/-- **C20 in the property's own words**: the *encoded keys* of the emitted map are strictly ascending under the chosen byte order. -/
theorem emitted_strictly_ascending_bytes (k k' : CoseKey) (ord : CborOrdering)
    (hx : ∀ p ∈ k.params, ExtraLabel p.1) (hnd : (k.params.map (·.1)).Nodup)
    (h : k.canonicalize ord = .ok k') :
    ∃ L : List (Label × Value), CoseKey.toValue k' = .ok (.map (pairsToValue L)) ∧
      (L.map (fun p => encLabel p.1)).Pairwise (fun a b => bytesOrd ord a b = .lt) := by
  obtain ⟨L, hL, hP, hvalid⟩ := emitted_strictly_ascending k k' ord hx hnd h
  refine ⟨L, hL, ?_⟩
  have : (L.map fun p => encLabel p.1) = (L.map (·.1)).map encLabel := by rw [List.map_map]; rfl
  rw [this, List.pairwise_map]
  exact hP.imp_of_mem (fun {a b} ha hb hab => cmpOf_bytes ord a b (hvalid a ha) (hvalid b hb) hab)

theorem paramsGood_perm {ps ps' : List (Label × Value)} (hp : ParamsGood ps) (h : ps'.Perm ps) : ParamsGood ps' := by
  have hm : (ps'.map (·.1)).Perm (ps.map (·.1)) := h.map (·.1)
  exact ⟨hm.symm.nodup hp.nodup, fun l hl => hp.nonstd l (hm.subset hl), fun l hl => hp.good l (hm.subset hl)⟩

/-- **C20, last sentence**: a decoded key, canonicalised with either ordering, emits a map that decodes to exactly the canonicalised
    key — so decoding and re-encoding the canonical encoding gives the same value, hence the same bytes (`to_vec` is a function of
    the emitted value).  No side condition on labels: this holds for the label 0 too. -/
theorem canonical_fixed (v : Value) (k k' : CoseKey) (ord : CborOrdering)
    (hd : CoseKey.fromValue v = .ok k) (h : k.canonicalize ord = .ok k') :
    ∃ x, k'.toValue = .ok x ∧ CoseKey.fromValue x = .ok k' ∧
      ∀ k'', CoseKey.fromValue x = .ok k'' → k''.toValue = .ok x := by
  obtain ⟨_, hp, hacc⟩ := key_accepted_good v k hd
  obtain ⟨e1, e2, e3, e4, e5, hperm⟩ := perm k k' ord h
  have hp' : ParamsGood k'.params := paramsGood_perm hp hperm
  cases k' with
  | mk kty kid alg ops biv ps =>
  simp only at e1 e2 e3 e4 e5 hp' hperm
  have hx := hacc ps hp'
  rw [← e1, ← e2, ← e3, ← e4, ← e5] at hx
  refine ⟨_, CoseKey.toValue_entries kty kid alg ops biv ps hp', hx, ?_⟩
  intro k'' hk''
  rw [hx] at hk''
  cases hk''
  exact CoseKey.toValue_entries kty kid alg ops biv ps hp'

/-- the hypotheses are met by a non-trivial key (extras −1, "a", 7 in unsorted order). -/
example : (∀ p ∈ witness2b.params, ExtraLabel p.1) ∧ (witness2b.params.map (·.1)).Nodup := by
  refine ⟨?_, by decide⟩
  intro p hp
  simp only [witness2b, List.mem_cons, List.not_mem_nil, or_false] at hp
  rcases hp with rfl | rfl | rfl
  · exact ⟨by simp only [ValidLabel, I64, i64Min, i64Max]; omega, by intro i h0 h5 h; cases h; omega⟩
  · exact ⟨by simp only [ValidLabel, I64, i64Min, i64Max]; omega, by intro i h0 h5 h; cases h; omega⟩
  · exact ⟨by simp [ValidLabel], by intro i h0 h5 h; cases h⟩

#print axioms emitted_strictly_ascending
#print axioms canonical_fixed
#print axioms emitted_strictly_ascending_bytes

end Coset.Props.C20
