/- C05: ties to the source text.  Built and audited together with Props/C05.lean by check.py, but in a module of its own, so that a
   changed textual fact breaks the obligations of the properties that own it and not those of every module that imports their lemmas. -/
import CosetProofs.Ties.ContextRouting
import CosetProofs.Ties.RecipientGuards
import CosetProofs.Ties.Budget.Encrypt
import CosetProofs.Ties.Compare.Encrypt
import CosetProofs.Ties.Compare.Header
import CosetProofs.Ties.IanaTables
namespace Coset.Props.C05

/-! ### ties to the source text (regenerated on every run, compared in the kernel with the transcribed tree) -/
/-- which context constant each helper passes to which structure function. -/
theorem tie_context_routing : Coset.Gen.contextRouting = Coset.Pinned.contextRouting := Coset.Ties.context_routing
/-- the set of contexts the recipient operations let through. -/
theorem tie_recipient_guards : Coset.Gen.recipientGuards = Coset.Pinned.recipientGuards := Coset.Ties.recipient_guards

#print axioms tie_context_routing
#print axioms tie_recipient_guards

/-- decision budget of `src/encrypt/mod.rs`: no branch, comparison or integer literal beyond the transcribed tree's (a needle no stream reaches still adds one). -/
theorem tie_budget_encrypt : Coset.Ties.budgetCovered "encrypt" Coset.Gen.decisionBudget Coset.Pinned.decisionBudget = true := Coset.Ties.budget_encrypt

#print axioms tie_budget_encrypt

/-! comparisons and integer literals of the modules this property is anchored in (properties.jsonl): none beyond the transcribed tree's -/
theorem tie_compare_encrypt : Coset.Ties.compareCovered "encrypt" Coset.Gen.decisionBudget Coset.Pinned.decisionBudget = true := Coset.Ties.compare_encrypt
theorem tie_compare_header : Coset.Ties.compareCovered "header" Coset.Gen.decisionBudget Coset.Pinned.decisionBudget = true := Coset.Ties.compare_header

#print axioms tie_compare_encrypt
#print axioms tie_compare_header

/-- the registry tables the streams of this property build values from (by name) are the IANA assignments. -/
theorem tie_iana_tables : Coset.Ties.IanaTablesOk := Coset.Ties.iana_tables

#print axioms tie_iana_tables

end Coset.Props.C05
