/- C03: ties to the source text.  Built and audited together with Props/C03.lean by check.py, but in a module of its own, so that a
   changed textual fact breaks the obligations of the properties that own it and not those of every module that imports their lemmas. -/
import CosetProofs.Ties.ContextRouting
import CosetProofs.Ties.HeaderFields
import CosetProofs.Ties.Budget.Sign
import CosetProofs.Ties.Compare.Header
import CosetProofs.Ties.Compare.Sign
import CosetProofs.Ties.IanaTables
namespace Coset.Props.C03

/-! ### ties to the source text (regenerated on every run, compared in the kernel with the transcribed tree) -/
/-- which context constant each helper passes to which structure function. -/
theorem tie_context_routing : Coset.Gen.contextRouting = Coset.Pinned.contextRouting := Coset.Ties.context_routing
/-- `Header::is_empty` tests every field of `struct Header`. -/
theorem tie_header_is_empty : Coset.Gen.headerFields = Coset.Pinned.headerFields ∧ Coset.Gen.headerIsEmptyTests = Coset.Pinned.headerIsEmptyTests := ⟨Coset.Ties.header_fields, Coset.Ties.header_is_empty_tests⟩

#print axioms tie_context_routing
#print axioms tie_header_is_empty

/-- decision budget of `src/sign/mod.rs`: no branch, comparison or integer literal beyond the transcribed tree's (a needle no stream reaches still adds one). -/
theorem tie_budget_sign : Coset.Ties.budgetCovered "sign" Coset.Gen.decisionBudget Coset.Pinned.decisionBudget = true := Coset.Ties.budget_sign

#print axioms tie_budget_sign

/-! comparisons and integer literals of the modules this property is anchored in (properties.jsonl): none beyond the transcribed tree's -/
theorem tie_compare_header : Coset.Ties.compareCovered "header" Coset.Gen.decisionBudget Coset.Pinned.decisionBudget = true := Coset.Ties.compare_header
theorem tie_compare_sign : Coset.Ties.compareCovered "sign" Coset.Gen.decisionBudget Coset.Pinned.decisionBudget = true := Coset.Ties.compare_sign

#print axioms tie_compare_header
#print axioms tie_compare_sign

/-- the registry tables the streams of this property build values from (by name) are the IANA assignments. -/
theorem tie_iana_tables : Coset.Ties.IanaTablesOk := Coset.Ties.iana_tables

#print axioms tie_iana_tables

end Coset.Props.C03
