import CosetModel.Api
namespace Coset.Props.C20

end Coset.Props.C20
