/-
  C20 — canonicalising a key sorts its encoding and changes nothing else.
-/
import CosetProofs.Props.C16
import CosetModel.Api
namespace Coset.Props.C20
open Coset Coset.Cbor Coset.Props.C16

/-- canonicalisation never panics (labels always serialise), for either ordering. -/
theorem never_panics (k : CoseKey) (ord : CborOrdering) : ∃ k', k.canonicalize ord = .ok k' := by
  cases ord with
  | lexicographic => exact ⟨_, rfl⟩
  | lengthFirstLexicographic =>
    have : k.params.all (fun p => (Label.toVec p.1).isOk) = true := by
      rw [List.all_eq_true]; intro p _; rw [toVec_eq]; rfl
    simp [CoseKey.canonicalize, this]

/-- every typed field is unchanged and the extra parameters are a permutation of what they were. -/
theorem perm (k k' : CoseKey) (ord : CborOrdering) (h : k.canonicalize ord = .ok k') :
    k'.kty = k.kty ∧ k'.keyId = k.keyId ∧ k'.alg = k.alg ∧ k'.keyOps = k.keyOps ∧ k'.baseIv = k.baseIv ∧ k'.params.Perm k.params := by
  cases ord with
  | lexicographic =>
    simp [CoseKey.canonicalize] at h; subst h
    exact ⟨rfl, rfl, rfl, rfl, rfl, List.mergeSort_perm _ _⟩
  | lengthFirstLexicographic =>
    simp only [CoseKey.canonicalize] at h
    split at h
    · simp at h
    · simp at h; subst h
      exact ⟨rfl, rfl, rfl, rfl, rfl, List.mergeSort_perm _ _⟩

/-! ### the two comparisons are total preorders on *all* labels (needed by the sort) -/
def intKey (i : Int) : Int × Int := if i < 0 then (1, -i) else (0, i)

theorem intOrd_le (i j : Int) : (intOrd i j != .gt) = true ↔ ((intKey i).1 < (intKey j).1 ∨ ((intKey i).1 = (intKey j).1 ∧ (intKey i).2 ≤ (intKey j).2)) := by
  unfold intOrd intKey
  by_cases n1 : i < 0 <;> by_cases n2 : j < 0 <;> simp [n1, n2]
  · constructor
    · intro h
      by_cases hji : j < i
      · omega
      · by_cases hij : i < j
        · rw [compare_gt hij] at h; simp at h
        · omega
    · intro h
      by_cases hji : j < i
      · rw [compare_lt hji]; simp
      · have : i = j := by omega
        subst this; rw [compare_self]; simp
  · constructor
    · intro h
      by_cases hij : i < j
      · omega
      · by_cases hji : j < i
        · rw [compare_gt hji] at h; simp at h
        · omega
    · intro h
      by_cases hij : i < j
      · rw [compare_lt hij]; simp
      · have : i = j := by omega
        subst this; rw [compare_self]; simp

theorem labelLe_total (a b : Label) : labelLe a b || labelLe b a := by
  cases a with
  | int i =>
    cases b with
    | int j =>
      simp only [labelLe, cmp_int]
      have h1 := intOrd_le i j; have h2 := intOrd_le j i
      by_cases x : (intOrd i j != .gt) = true
      · cases hi : intOrd i j <;> simp_all
      · have : (intOrd j i != .gt) = true := by
          rw [h2]; rw [h1] at x; omega
        cases hi : intOrd i j <;> cases hj : intOrd j i <;> simp_all
    | text t => simp [labelLe, Label.cmp]
  | text s =>
    cases b with
    | int j => simp [labelLe, Label.cmp]
    | text t =>
      simp only [labelLe, Label.cmp, textCmp]
      by_cases hl : s.length < t.length
      · rw [compare_nat_lt hl]; simp [Ordering.then]
      · by_cases hg : t.length < s.length
        · rw [compare_nat_gt hg, compare_nat_lt hg]; simp [Ordering.then]
        · have : s.length = t.length := by omega
          simp only [this, Nat.compare_eq_eq.mpr rfl, Ordering.then]
          have := lexLe_total s t
          simp only [lexLe] at this
          cases h1 : lexCmp s t <;> cases h2 : lexCmp t s <;> simp_all

theorem textLe_iff (p q : Bytes) : labelLe (.text p) (.text q) = true ↔
    (p.length < q.length ∨ (p.length = q.length ∧ lexLe p q = true)) := by
  simp only [labelLe, Label.cmp, textCmp]
  by_cases hl : p.length < q.length
  · rw [compare_nat_lt hl]; simp [Ordering.then, hl]
  · by_cases hg : q.length < p.length
    · rw [compare_nat_gt hg]; simp [Ordering.then]; omega
    · have he : p.length = q.length := by omega
      simp only [he, Nat.compare_eq_eq.mpr rfl, Ordering.then, lexLe]
      cases lexCmp p q <;> simp

theorem labelLe_trans (a b c : Label) (h1 : labelLe a b = true) (h2 : labelLe b c = true) : labelLe a c = true := by
  cases a with
  | int i =>
    cases b with
    | int j =>
      cases c with
      | int k =>
        simp only [labelLe, cmp_int] at h1 h2 ⊢
        have e1 : (intOrd i j != .gt) = true := by cases h : intOrd i j <;> simp_all
        have e2 : (intOrd j k != .gt) = true := by cases h : intOrd j k <;> simp_all
        have e3 : (intOrd i k != .gt) = true := by
          rw [intOrd_le] at e1 e2 ⊢; omega
        cases h : intOrd i k <;> simp_all
      | text t => simp [labelLe, Label.cmp]
    | text s =>
      cases c with
      | int k => simp [labelLe, Label.cmp] at h2
      | text u => simp [labelLe, Label.cmp]
  | text s =>
    cases b with
    | int j =>
      cases c with
      | int k => simp [labelLe, Label.cmp] at h2 ⊢; simp [labelLe, Label.cmp] at h1
      | text t => simp [labelLe, Label.cmp] at h1
    | text t =>
      cases c with
      | int k => simp [labelLe, Label.cmp] at h2
      | text u =>
        rw [textLe_iff] at h1 h2 ⊢
        rcases h1 with h1 | ⟨h1, l1⟩ <;> rcases h2 with h2 | ⟨h2, l2⟩
        · left; omega
        · left; omega
        · left; omega
        · right; exact ⟨by omega, lexLe_trans _ _ _ l1 l2⟩

theorem canonLe_iff (a b : Label) : labelLeCanonical a b = true ↔
    ((encLabel a).length < (encLabel b).length ∨ ((encLabel a).length = (encLabel b).length ∧ lexLe (encLabel a) (encLabel b) = true)) := by
  simp only [labelLeCanonical, cmp_canonical_is_lenlex, lenLex]
  by_cases hl : (encLabel a).length < (encLabel b).length
  · have : (encLabel a).length ≠ (encLabel b).length := by omega
    simp [this, compare_nat_lt hl, hl]
  · by_cases hg : (encLabel b).length < (encLabel a).length
    · have : (encLabel a).length ≠ (encLabel b).length := by omega
      simp [this, compare_nat_gt hg]; omega
    · have he : (encLabel a).length = (encLabel b).length := by omega
      simp only [he, bne_self_eq_false, Bool.false_eq_true, if_false, lexLe]
      cases lexCmp (encLabel a) (encLabel b) <;> simp

theorem canonLe_total (a b : Label) : labelLeCanonical a b || labelLeCanonical b a := by
  have h1 := canonLe_iff a b; have h2 := canonLe_iff b a
  have t := lexLe_total (encLabel a) (encLabel b)
  by_cases x : labelLeCanonical a b = true
  · simp [x]
  · have : labelLeCanonical b a = true := by
      rw [h2]; rw [h1] at x
      by_cases hl : (encLabel b).length < (encLabel a).length
      · left; exact hl
      · right
        refine ⟨by omega, ?_⟩
        have he : (encLabel a).length = (encLabel b).length := by omega
        cases h : lexLe (encLabel a) (encLabel b)
        · simpa [h] using t
        · exact absurd (Or.inr ⟨he, h⟩) x
    simp [this]

theorem canonLe_trans (a b c : Label) (h1 : labelLeCanonical a b = true) (h2 : labelLeCanonical b c = true) : labelLeCanonical a c = true := by
  rw [canonLe_iff] at h1 h2 ⊢
  rcases h1 with h1 | ⟨h1, l1⟩ <;> rcases h2 with h2 | ⟨h2, l2⟩
  · left; omega
  · left; omega
  · left; omega
  · right; exact ⟨by omega, lexLe_trans _ _ _ l1 l2⟩

/-- the ordering used for the chosen standard order. -/
def leOf (ord : CborOrdering) : (Label × Value) → (Label × Value) → Bool :=
  match ord with
  | .lexicographic => fun l r => labelLe l.1 r.1
  | .lengthFirstLexicographic => fun l r => labelLeCanonical l.1 r.1

theorem canonicalize_eq (k : CoseKey) (ord : CborOrdering) :
    k.canonicalize ord = .ok { k with params := k.params.mergeSort (leOf ord) } := by
  obtain ⟨k', hk⟩ := never_panics k ord
  cases ord with
  | lexicographic => rfl
  | lengthFirstLexicographic =>
    simp only [CoseKey.canonicalize] at hk ⊢
    split at hk
    · simp at hk
    · next hc => simp only [hc, if_false]; rfl

/-- after canonicalisation the extra parameters are sorted under the chosen ordering. -/
theorem sorted (k k' : CoseKey) (ord : CborOrdering) (h : k.canonicalize ord = .ok k') : k'.params.Pairwise (fun l r => leOf ord l r = true) := by
  rw [canonicalize_eq] at h
  simp at h; subst h
  cases ord with
  | lexicographic =>
    exact List.pairwise_mergeSort (fun a b c => labelLe_trans a.1 b.1 c.1) (fun a b => labelLe_total a.1 b.1) _
  | lengthFirstLexicographic =>
    exact List.pairwise_mergeSort (fun a b c => canonLe_trans a.1 b.1 c.1) (fun a b => canonLe_total a.1 b.1) _

/-- canonicalising again is a no-op. -/
theorem idempotent (k k' : CoseKey) (ord : CborOrdering) (h : k.canonicalize ord = .ok k') : k'.canonicalize ord = .ok k' := by
  have hs := sorted k k' ord h
  rw [canonicalize_eq]
  rw [List.mergeSort_of_pairwise hs]

/-! ### the argument the implementation relies on: typed labels 1–5 sort strictly below every admissible extra label -/

/-- an extra parameter label of an accepted key: serialisable and not one of the typed labels 1..5; 0 is excluded too (D5). -/
def ExtraLabel (l : Label) : Prop := ValidLabel l ∧ ∀ i : Int, 0 ≤ i → i ≤ 5 → l ≠ .int i

theorem encHead_len_pos (m n : Nat) : 1 ≤ (encHead m n).length := by
  unfold encHead; (repeat' split) <;> simp

theorem encLabel_len_pos (l : Label) : 1 ≤ (encLabel l).length := by
  cases l with
  | int i => simp only [encLabel, enc]; split <;> exact encHead_len_pos _ _
  | text t => simp only [encLabel, enc, List.length_append]; have := encHead_len_pos 3 t.length; omega

theorem encLabel_typed_len (t : Int) (h0 : 0 ≤ t) (h5 : t ≤ 5) : (encLabel (.int t)).length = 1 := by
  have : t.toNat < 24 := by omega
  simp [encLabel, enc, h0, encHead, this]

/-- bytewise order: every typed label is strictly below every admissible extra label. -/
theorem typed_below_extras (t : Int) (h1 : 1 ≤ t) (h5 : t ≤ 5) (l : Label) (hl : ExtraLabel l) :
    Label.cmp (.int t) l = .ok .lt := by
  cases l with
  | text s => rfl
  | int i =>
    rw [cmp_int]
    have hne := hl.2
    by_cases n : i < 0
    · have : ¬ t < 0 := by omega
      simp [intOrd, this, n]
    · have h6 : 5 < i := by
        by_cases h : i ≤ 5
        · exact absurd rfl (hne i (by omega) h)
        · omega
      have : ¬ t < 0 := by omega
      simp only [intOrd, this, n, if_false]
      have hlt : t < i := by omega
      rw [compare_lt hlt]

/-- length-first order: the same, because typed labels encode in one byte and nothing encodes in fewer. -/
theorem typed_below_extras_canonical (t : Int) (h1 : 1 ≤ t) (h5 : t ≤ 5) (l : Label) (hl : ExtraLabel l) :
    Label.cmpCanonical (.int t) l = .ok .lt := by
  have hv : ValidLabel (.int t) := by simp only [ValidLabel, I64, i64Min, i64Max]; omega
  have hlex := typed_below_extras t h1 h5 l hl
  rw [cmp_is_lex _ _ hv hl.1] at hlex
  simp only [Res.ok.injEq] at hlex
  rw [cmp_canonical_is_lenlex]
  simp only [Res.ok.injEq]
  rw [lenLex_lt_iff, encLabel_typed_len t (by omega) h5]
  have := encLabel_len_pos l
  by_cases h : 1 < (encLabel l).length
  · left; exact h
  · right; exact ⟨by omega, hlex⟩

/-- the side condition is exactly where D5 lives: label 0 is *not* above the typed labels. -/
example : Label.cmp (.int 1) (.int 0) = .ok .gt ∧ Label.cmpCanonical (.int 1) (.int 0) = .ok .gt := by decide
example : ExtraLabel (.int (-1)) ∧ ExtraLabel (.int 6) ∧ ExtraLabel (.text []) := by
  refine ⟨⟨?_, ?_⟩, ⟨?_, ?_⟩, ⟨?_, ?_⟩⟩ <;> first
    | (simp only [ValidLabel, I64, i64Min, i64Max]; omega)
    | (simp [ValidLabel]; done)
    | (intro i h0 h5 h; cases h; omega)
    | (intro i h0 h5 h; cases h)

/-! ### "every initial order": the canonical form depends only on the *set* of extra parameters -/

/-- both comparisons are antisymmetric on labels that serialise (so `≤` both ways means the same label). -/
theorem labelLe_antisymm (a b : Label) (ha : ValidLabel a) (hb : ValidLabel b)
    (h1 : labelLe a b = true) (h2 : labelLe b a = true) : a = b := by
  apply (cmp_eq_iff a b ha hb).mp
  simp only [labelLe, cmp_is_lex a b ha hb, cmp_is_lex b a hb ha, lexCmp_swap (encLabel a) (encLabel b)] at h1 h2 ⊢
  cases h : lexCmp (encLabel a) (encLabel b) <;> simp_all [Ordering.swap]

theorem canonLe_antisymm (a b : Label) (ha : ValidLabel a) (hb : ValidLabel b)
    (h1 : labelLeCanonical a b = true) (h2 : labelLeCanonical b a = true) : a = b := by
  rw [canonLe_iff] at h1 h2
  have hl : (encLabel a).length = (encLabel b).length := by omega
  have l1 : lexLe (encLabel a) (encLabel b) = true := by
    rcases h1 with h | h
    · omega
    · exact h.2
  have l2 : lexLe (encLabel b) (encLabel a) = true := by
    rcases h2 with h | h
    · omega
    · exact h.2
  apply encLabel_injective a b ha hb
  apply (lexCmp_eq_iff _ _).mp
  simp only [lexLe, lexCmp_swap (encLabel a) (encLabel b)] at l1 l2
  cases h : lexCmp (encLabel a) (encLabel b) <;> simp_all [Ordering.swap]

theorem mem_eq_of_fst_eq {α β : Type} : ∀ (l : List (α × β)), (l.map (·.1)).Nodup →
    ∀ a b, a ∈ l → b ∈ l → a.1 = b.1 → a = b
  | [], _, _, _, ha, _, _ => by simp at ha
  | x :: l, hnd, a, b, ha, hb, hab => by
    simp only [List.map_cons, List.nodup_cons, List.mem_map, not_exists, not_and] at hnd
    simp only [List.mem_cons] at ha hb
    rcases ha with rfl | ha <;> rcases hb with rfl | hb
    · rfl
    · exact absurd hab.symm (hnd.1 b hb)
    · exact absurd hab (hnd.1 a ha)
    · exact mem_eq_of_fst_eq l hnd.2 a b ha hb hab

/-- two keys whose extra parameters are the same label-value pairs in *any* two initial orders
    canonicalise to the same parameter list (labels distinct and serialisable, as in every accepted key). -/
theorem order_independent (k1 k2 k1' k2' : CoseKey) (ord : CborOrdering)
    (hv : ∀ p ∈ k1.params, ValidLabel p.1) (hnd : (k1.params.map (·.1)).Nodup)
    (hp : k1.params.Perm k2.params)
    (h1 : k1.canonicalize ord = .ok k1') (h2 : k2.canonicalize ord = .ok k2') : k1'.params = k2'.params := by
  have s1 := sorted k1 k1' ord h1
  have s2 := sorted k2 k2' ord h2
  have p1 := (perm k1 k1' ord h1).2.2.2.2.2
  have p2 := (perm k2 k2' ord h2).2.2.2.2.2
  have hpp : k1'.params.Perm k2'.params := p1.trans (hp.trans p2.symm)
  refine List.Perm.eq_of_pairwise ?_ s1 s2 hpp
  intro a b ha hb hab hba
  have ha1 : a ∈ k1.params := p1.subset ha
  have hb1 : b ∈ k1.params := hp.symm.subset (p2.subset hb)
  apply mem_eq_of_fst_eq k1.params hnd a b ha1 hb1
  cases ord with
  | lexicographic => exact labelLe_antisymm a.1 b.1 (hv a ha1) (hv b hb1) hab hba
  | lengthFirstLexicographic => exact canonLe_antisymm a.1 b.1 (hv a ha1) (hv b hb1) hab hba

/-- hence two keys with the same typed fields and the same extra label-value pairs in any two orders canonicalise
    to the *same key* — and so to the same bytes. -/
theorem order_independent_key (k1 k2 k1' k2' : CoseKey) (ord : CborOrdering)
    (hv : ∀ p ∈ k1.params, ValidLabel p.1) (hnd : (k1.params.map (·.1)).Nodup)
    (hf : k1.kty = k2.kty ∧ k1.keyId = k2.keyId ∧ k1.alg = k2.alg ∧ k1.keyOps = k2.keyOps ∧ k1.baseIv = k2.baseIv)
    (hp : k1.params.Perm k2.params)
    (h1 : k1.canonicalize ord = .ok k1') (h2 : k2.canonicalize ord = .ok k2') :
    k1' = k2' ∧ toVec CoseKey.toValue k1' = toVec CoseKey.toValue k2' := by
  have hpar := order_independent k1 k2 k1' k2' ord hv hnd hp h1 h2
  obtain ⟨a1, a2, a3, a4, a5, _⟩ := perm k1 k1' ord h1
  obtain ⟨b1, b2, b3, b4, b5, _⟩ := perm k2 k2' ord h2
  obtain ⟨f1, f2, f3, f4, f5⟩ := hf
  have : k1' = k2' := by
    cases k1'; cases k2'
    simp only [CoseKey.mk.injEq]
    simp only at a1 a2 a3 a4 a5 b1 b2 b3 b4 b5 hpar
    exact ⟨by rw [a1, b1, f1], by rw [a2, b2, f2], by rw [a3, b3, f3], by rw [a4, b4, f4], by rw [a5, b5, f5], hpar⟩
  exact ⟨this, by rw [this]⟩

def witness2a : CoseKey := ⟨.assigned Gen.idx_KeyType_Symmetric, [], none, [], [], [(.int (-1), .null), (.text [0x61], .bool true), (.int 7, .null)]⟩
def witness2b : CoseKey := ⟨.assigned Gen.idx_KeyType_Symmetric, [], none, [], [], [(.int 7, .null), (.int (-1), .null), (.text [0x61], .bool true)]⟩
/-- the hypotheses are satisfiable by a non-trivial pair of keys (labels -1, "a", 7 in two different orders). -/
example : (∀ p ∈ witness2a.params, ValidLabel p.1) ∧ (witness2a.params.map (·.1)).Nodup ∧
    witness2a.params.Perm witness2b.params ∧ witness2a.params.map (·.1) ≠ witness2b.params.map (·.1) := by
  refine ⟨?_, by decide, (List.perm_append_comm (l₁ := [((Label.int (-1), Value.null) : Label × Value), (Label.text [0x61], Value.bool true)]) (l₂ := [(Label.int 7, Value.null)]) :), by decide⟩
  intro p hp
  simp only [witness2a, List.mem_cons, List.not_mem_nil, or_false] at hp
  rcases hp with rfl | rfl | rfl <;> simp [ValidLabel, I64, i64Min, i64Max]

/-- the unrestricted claim "encoded keys strictly ascending" fails for a key with extra label 0:
    `{1: 4, 0: null}` comes back unchanged from both orderings and encodes with 01 before 00. -/
def witness : CoseKey := ⟨.assigned Gen.idx_KeyType_Symmetric, [], none, [], [], [(.int 0, .null)]⟩
theorem sorted_refuted :
    (witness.canonicalize .lexicographic).map (fun k => toVec CoseKey.toValue k) = .ok (.ok [0xa2, 0x01, 0x04, 0x00, 0xf6]) ∧
    (witness.canonicalize .lengthFirstLexicographic).map (fun k => toVec CoseKey.toValue k) = .ok (.ok [0xa2, 0x01, 0x04, 0x00, 0xf6]) := by
  decide +kernel

#print axioms never_panics
#print axioms perm
#print axioms labelLe_total
#print axioms labelLe_trans
#print axioms canonLe_total
#print axioms canonLe_trans
#print axioms sorted
#print axioms idempotent
#print axioms typed_below_extras
#print axioms typed_below_extras_canonical
#print axioms order_independent
#print axioms order_independent_key
#print axioms sorted_refuted

end Coset.Props.C20
