/- C01: ties to the source text.  Built and audited together with Props/C01.lean by check.py, but in a module of its own, so that a
   changed textual fact breaks the obligations of the properties that own it and not those of every module that imports their lemmas. -/
import CosetProofs.Ties.PanicSites
namespace Coset.Props.C01

/-! ### ties to the source text (regenerated on every run, compared in the kernel with the transcribed tree) -/
/-- the non-test source has no syntactic panic site beyond those of the tree the model was transcribed from (a new `unwrap`, index, `remove` or subtraction — or one more of a kind in a function — breaks this; a site that went away does not). -/
theorem tie_panic_sites : Coset.Ties.sitesCovered Coset.Gen.panicSites Coset.Pinned.panicSites = true := Coset.Ties.panic_sites

#print axioms tie_panic_sites

end Coset.Props.C01
