/- C14: ties to the source text.  Built and audited together with Props/C14.lean by check.py, but in a module of its own, so that a
   changed textual fact breaks the obligations of the properties that own it and not those of every module that imports their lemmas. -/
import CosetProofs.Ties.Serializable
namespace Coset.Props.C14

/-! ### ties to the source text (regenerated on every run, compared in the kernel with the transcribed tree) -/
/-- the six `TaggedCborSerializable` impls consist of their `TAG` constant only. -/
theorem tie_serializable_impls : Coset.Gen.serializableImpls = Coset.Pinned.serializableImpls := Coset.Ties.serializable_impls
/-- the provided tagged methods are the ones the model transcribes. -/
theorem tie_default_bodies : Coset.Gen.defaultBodies = Coset.Pinned.defaultBodies := Coset.Ties.default_bodies

#print axioms tie_serializable_impls
#print axioms tie_default_bodies

end Coset.Props.C14
