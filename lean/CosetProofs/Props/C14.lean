import CosetModel.Api
namespace Coset.Props.C14

end Coset.Props.C14
