/-
  C14 — tagged forms carry exactly the structure's registered CBOR tag.
-/
import CosetProofs.Cbor.ParseAppend
import CosetModel.Api
namespace Coset.Props.C14
open Coset Coset.Cbor

/-- the six tags are the registered ones (RFC 8152 table 1), regenerated from the source on every run. -/
theorem tags : Gen.TAG_CoseSign = 98 ∧ Gen.TAG_CoseSign1 = 18 ∧ Gen.TAG_CoseEncrypt = 96 ∧ Gen.TAG_CoseEncrypt0 = 16 ∧
    Gen.TAG_CoseMac = 97 ∧ Gen.TAG_CoseMac0 = 17 := by decide

theorem tags_distinct : [Gen.TAG_CoseSign, Gen.TAG_CoseSign1, Gen.TAG_CoseEncrypt, Gen.TAG_CoseEncrypt0, Gen.TAG_CoseMac, Gen.TAG_CoseMac0].Nodup := by
  decide

/-- tagged encoding = the deterministic head of the tag, then the untagged encoding. -/
theorem encode {α : Type} (tag : Nat) (toV : α → Res Value) (x : α) :
    toTaggedVec tag toV x = (toVec toV x).map (fun b => encHead 6 tag ++ b) := by
  unfold toTaggedVec toVec
  cases toV x <;> simp [Res.map, enc]

/-- every well-formed head for tag number `t`: shortest or any wider form. -/
inductive TagHead (t : Nat) : Bytes → Prop where
  | tiny (h : t < 24) : TagHead t [UInt8.ofNat (6 * 32 + t)]
  | w1 (h : t < 256) : TagHead t (UInt8.ofNat (6 * 32 + 24) :: beN 1 t)
  | w2 (h : t < 65536) : TagHead t (UInt8.ofNat (6 * 32 + 25) :: beN 2 t)
  | w4 (h : t < 4294967296) : TagHead t (UInt8.ofNat (6 * 32 + 26) :: beN 4 t)
  | w8 (h : t < 18446744073709551616) : TagHead t (UInt8.ofNat (6 * 32 + 27) :: beN 8 t)

theorem pull_tagHead (t : Nat) (h : Bytes) (hh : TagHead t h) (b : Bytes) : pull (h ++ b) = some (.tag t, b) := by
  cases hh with
  | tiny ht => exact pull_of_arg _ 6 t (by decide) (by simp [UInt8.toNat_ofNat'] <;> omega) (by simp [UInt8.toNat_ofNat'] <;> omega) _ _ t 0 (pullArg_lt24 t ht b)
  | w1 ht => exact pull_of_arg _ 6 24 (by decide) (by decide) (by decide) _ _ t 1 (pullArg_wide 24 1 t (by simp) (by omega) b)
  | w2 ht => exact pull_of_arg _ 6 25 (by decide) (by decide) (by decide) _ _ t 2 (pullArg_wide 25 2 t (by simp) (by omega) b)
  | w4 ht => exact pull_of_arg _ 6 26 (by decide) (by decide) (by decide) _ _ t 4 (pullArg_wide 26 4 t (by simp) (by omega) b)
  | w8 ht => exact pull_of_arg _ 6 27 (by decide) (by decide) (by decide) _ _ t 8 (pullArg_wide 27 8 t (by simp) (by omega) b)

theorem tagHead_length_pos (t : Nat) (h : Bytes) (hh : TagHead t h) : 0 < h.length := by
  cases hh <;> simp

/-- a tag head (any width, not a bignum tag) in front of a body the parser accepts within depth 255 parses to the tagged value. -/
theorem readToValue_tagged (t : Nat) (h b : Bytes) (v : Value) (hh : TagHead t h) (h2 : t ≠ 2) (h3 : t ≠ 3)
    (hb : parse (fuelFor b) (recursionLimit - 1) b = .ok (v, [])) : readToValue (h ++ b) = .ok (.tag t v) := by
  have hl := tagHead_length_pos t h hh
  obtain ⟨f, hf⟩ : ∃ f, fuelFor (h ++ b) = f + 1 := ⟨fuelFor (h ++ b) - 1, by unfold fuelFor; omega⟩
  have hge : fuelFor b ≤ f := by unfold fuelFor at hf ⊢; simp only [List.length_append] at hf; omega
  have hp := parse_append _ f _ (recursionLimit - 1) b [] v [] hb hge (Nat.le_refl _)
  simp only [List.append_nil] at hp
  unfold readToValue fromReader
  rw [hf, parse, pull_tagHead t h hh b]
  simp only [h2, h3, or_self, if_false]
  have : recursionLimit ≠ 0 := by decide
  simp only [this, if_false, hp]
  simp

/-- C14 (decode, accept direction): the registered tag applied once to a body accepted within depth 255 decodes to what the untagged decoder gives. -/
theorem decode_tagged_eq_untagged {α : Type} (t : Nat) (conv : Value → Res α) (h b : Bytes) (v : Value)
    (hh : TagHead t h) (h2 : t ≠ 2) (h3 : t ≠ 3) (hb : parse (fuelFor b) (recursionLimit - 1) b = .ok (v, [])) :
    fromTaggedSlice t conv (h ++ b) = conv v ∧ fromSlice conv b = conv v := by
  constructor
  · unfold fromTaggedSlice
    rw [readToValue_tagged t h b v hh h2 h3 hb]
    simp [tryAsTag]
  · have := parse_append _ (fuelFor b) _ recursionLimit b [] v [] hb (Nat.le_refl _) (by decide)
    simp only [List.append_nil] at this
    unfold fromSlice readToValue fromReader
    rw [this]; simp

/-- tagged decoding rejects every item that is not a tag, and every tag number other than the type's. -/
theorem rejects_untagged {α : Type} (t : Nat) (conv : Value → Res α) (bs : Bytes) (v : Value)
    (hv : readToValue bs = .ok v) (hnt : ∀ t' w, v ≠ .tag t' w) : fromTaggedSlice t conv bs = .err .unexpectedItem := by
  unfold fromTaggedSlice
  rw [hv]
  cases v <;> simp_all [tryAsTag, typeError]

theorem rejects_other_tag {α : Type} (t t' : Nat) (conv : Value → Res α) (bs : Bytes) (w : Value)
    (hv : readToValue bs = .ok (.tag t' w)) (hne : t' ≠ t) : fromTaggedSlice t conv bs = .err .unexpectedItem := by
  unfold fromTaggedSlice
  rw [hv]
  simp [tryAsTag, hne]

/-- the six message conversions reject a tag item (so: untagged decoding rejects tagged input; a doubly tagged item is rejected). -/
theorem conversions_reject_tags (t : Nat) (w : Value) :
    CoseSign.fromValue (.tag t w) = .err .unexpectedItem ∧ CoseSign1.fromValue (.tag t w) = .err .unexpectedItem ∧
    CoseEncrypt.fromValue (.tag t w) = .err .unexpectedItem ∧ CoseEncrypt0.fromValue (.tag t w) = .err .unexpectedItem ∧
    CoseMac.fromValue (.tag t w) = .err .unexpectedItem ∧ CoseMac0.fromValue (.tag t w) = .err .unexpectedItem := by
  simp [CoseSign.fromValue, CoseSign1.fromValue, CoseEncrypt.fromValue, CoseEncrypt0.fromValue, CoseMac.fromValue, CoseMac0.fromValue,
    tryAsArray, typeError]

theorem untagged_rejects_tagged {α : Type} (conv : Value → Res α) (hconv : ∀ t w, conv (.tag t w) = .err .unexpectedItem)
    (bs : Bytes) (t : Nat) (w : Value) (hv : readToValue bs = .ok (.tag t w)) : fromSlice conv bs = .err .unexpectedItem := by
  unfold fromSlice; rw [hv]; exact hconv t w

theorem double_tag_rejected {α : Type} (t : Nat) (conv : Value → Res α) (hconv : ∀ t w, conv (.tag t w) = .err .unexpectedItem)
    (bs : Bytes) (t2 : Nat) (w : Value) (hv : readToValue bs = .ok (.tag t (.tag t2 w))) :
    fromTaggedSlice t conv bs = .err .unexpectedItem := by
  unfold fromTaggedSlice; rw [hv]; simp [tryAsTag, hconv]

/-- whatever tagged decoding accepts is a tag item with the type's tag whose content the conversion accepts. -/
theorem decode_tagged_ok {α : Type} (t : Nat) (conv : Value → Res α) (bs : Bytes) (m : α)
    (h : fromTaggedSlice t conv bs = .ok m) : ∃ w, readToValue bs = .ok (.tag t w) ∧ conv w = .ok m := by
  unfold fromTaggedSlice at h
  cases hv : readToValue bs with
  | ok v =>
    simp only [hv] at h
    cases v with
    | tag t' w =>
      simp only [tryAsTag] at h
      by_cases ht : t' = t
      · subst ht; simp at h; exact ⟨w, rfl, h⟩
      · simp [ht] at h
    | _ => simp [tryAsTag, typeError] at h
  | err e => simp [hv] at h
  | panic p => simp [hv] at h

/-- non-vacuity: `d2 84 40 a0 f6 40` is a tagged COSE_Sign1; with tag 17 it is rejected; untagged decoding rejects it too. -/
example : (fromTaggedSlice Gen.TAG_CoseSign1 CoseSign1.fromValue [0xd2, 0x84, 0x40, 0xa0, 0xf6, 0x40]).isOk = true := by decide +kernel
example : (fromTaggedSlice Gen.TAG_CoseMac0 CoseMac0.fromValue [0xd2, 0x84, 0x40, 0xa0, 0xf6, 0x40]).isOk = false := by decide +kernel
example : (fromSlice CoseSign1.fromValue [0xd2, 0x84, 0x40, 0xa0, 0xf6, 0x40]).isOk = false := by decide +kernel
example : TagHead 18 [0xd8, 0x12] := TagHead.w1 (by decide)

#print axioms tags
#print axioms tags_distinct
#print axioms encode
#print axioms pull_tagHead
#print axioms readToValue_tagged
#print axioms decode_tagged_eq_untagged
#print axioms rejects_untagged
#print axioms rejects_other_tag
#print axioms conversions_reject_tags
#print axioms untagged_rejects_tagged
#print axioms double_tag_rejected
#print axioms decode_tagged_ok

end Coset.Props.C14
