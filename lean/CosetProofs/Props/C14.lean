/-
  C14 — tagged forms carry exactly the structure's registered CBOR tag.
-/
import CosetProofs.Cbor.ParseAppend
import CosetProofs.Cbor.FuelIrrelevant
import CosetModel.Api
namespace Coset.Props.C14
open Coset Coset.Cbor

/-- the six tags are the registered ones (RFC 8152 table 1), regenerated from the source on every run. -/
theorem tags : Gen.TAG_CoseSign = 98 ∧ Gen.TAG_CoseSign1 = 18 ∧ Gen.TAG_CoseEncrypt = 96 ∧ Gen.TAG_CoseEncrypt0 = 16 ∧
    Gen.TAG_CoseMac = 97 ∧ Gen.TAG_CoseMac0 = 17 := by decide

theorem tags_distinct : [Gen.TAG_CoseSign, Gen.TAG_CoseSign1, Gen.TAG_CoseEncrypt, Gen.TAG_CoseEncrypt0, Gen.TAG_CoseMac, Gen.TAG_CoseMac0].Nodup := by
  decide

/-- tagged encoding = the deterministic head of the tag, then the untagged encoding. -/
theorem encode {α : Type} (tag : Nat) (toV : α → Res Value) (x : α) :
    toTaggedVec tag toV x = (toVec toV x).map (fun b => encHead 6 tag ++ b) := by
  unfold toTaggedVec toVec
  cases toV x <;> simp [Res.map, enc]

/-- every well-formed head for tag number `t`: shortest or any wider form. -/
inductive TagHead (t : Nat) : Bytes → Prop where
  | tiny (h : t < 24) : TagHead t [UInt8.ofNat (6 * 32 + t)]
  | w1 (h : t < 256) : TagHead t (UInt8.ofNat (6 * 32 + 24) :: beN 1 t)
  | w2 (h : t < 65536) : TagHead t (UInt8.ofNat (6 * 32 + 25) :: beN 2 t)
  | w4 (h : t < 4294967296) : TagHead t (UInt8.ofNat (6 * 32 + 26) :: beN 4 t)
  | w8 (h : t < 18446744073709551616) : TagHead t (UInt8.ofNat (6 * 32 + 27) :: beN 8 t)

theorem pull_tagHead (t : Nat) (h : Bytes) (hh : TagHead t h) (b : Bytes) : pull (h ++ b) = some (.tag t, b) := by
  cases hh with
  | tiny ht => exact pull_of_arg _ 6 t (by decide) (by simp [UInt8.toNat_ofNat'] <;> omega) (by simp [UInt8.toNat_ofNat'] <;> omega) _ _ t 0 (pullArg_lt24 t ht b)
  | w1 ht => exact pull_of_arg _ 6 24 (by decide) (by decide) (by decide) _ _ t 1 (pullArg_wide 24 1 t (by simp) (by omega) b)
  | w2 ht => exact pull_of_arg _ 6 25 (by decide) (by decide) (by decide) _ _ t 2 (pullArg_wide 25 2 t (by simp) (by omega) b)
  | w4 ht => exact pull_of_arg _ 6 26 (by decide) (by decide) (by decide) _ _ t 4 (pullArg_wide 26 4 t (by simp) (by omega) b)
  | w8 ht => exact pull_of_arg _ 6 27 (by decide) (by decide) (by decide) _ _ t 8 (pullArg_wide 27 8 t (by simp) (by omega) b)

theorem tagHead_length_pos (t : Nat) (h : Bytes) (hh : TagHead t h) : 0 < h.length := by
  cases hh <;> simp

/-- a tag head (any width, not a bignum tag) in front of a body the parser accepts within depth 255 parses to the tagged value. -/
theorem readToValue_tagged (t : Nat) (h b : Bytes) (v : Value) (hh : TagHead t h) (h2 : t ≠ 2) (h3 : t ≠ 3)
    (hb : parse (fuelFor b) (recursionLimit - 1) b = .ok (v, [])) : readToValue (h ++ b) = .ok (.tag t v) := by
  have hl := tagHead_length_pos t h hh
  obtain ⟨f, hf⟩ : ∃ f, fuelFor (h ++ b) = f + 1 := ⟨fuelFor (h ++ b) - 1, by unfold fuelFor; omega⟩
  have hge : fuelFor b ≤ f := by unfold fuelFor at hf ⊢; simp only [List.length_append] at hf; omega
  have hp := parse_append _ f _ (recursionLimit - 1) b [] v [] hb hge (Nat.le_refl _)
  simp only [List.append_nil] at hp
  unfold readToValue fromReader
  rw [hf, parse, pull_tagHead t h hh b]
  simp only [h2, h3, or_self, if_false]
  have : recursionLimit ≠ 0 := by decide
  simp only [this, if_false, hp]
  simp

/-- C14 (decode, accept direction): the registered tag applied once to a body accepted within depth 255 decodes to what the untagged decoder gives. -/
theorem decode_tagged_eq_untagged {α : Type} (t : Nat) (conv : Value → Res α) (h b : Bytes) (v : Value)
    (hh : TagHead t h) (h2 : t ≠ 2) (h3 : t ≠ 3) (hb : parse (fuelFor b) (recursionLimit - 1) b = .ok (v, [])) :
    fromTaggedSlice t conv (h ++ b) = conv v ∧ fromSlice conv b = conv v := by
  constructor
  · unfold fromTaggedSlice
    rw [readToValue_tagged t h b v hh h2 h3 hb]
    simp [tryAsTag]
  · have := parse_append _ (fuelFor b) _ recursionLimit b [] v [] hb (Nat.le_refl _) (by decide)
    simp only [List.append_nil] at this
    unfold fromSlice readToValue fromReader
    rw [this]; simp

/-- tagged decoding rejects every item that is not a tag, and every tag number other than the type's. -/
theorem rejects_untagged {α : Type} (t : Nat) (conv : Value → Res α) (bs : Bytes) (v : Value)
    (hv : readToValue bs = .ok v) (hnt : ∀ t' w, v ≠ .tag t' w) : fromTaggedSlice t conv bs = .err .unexpectedItem := by
  unfold fromTaggedSlice
  rw [hv]
  cases v <;> simp_all [tryAsTag, typeError]

theorem rejects_other_tag {α : Type} (t t' : Nat) (conv : Value → Res α) (bs : Bytes) (w : Value)
    (hv : readToValue bs = .ok (.tag t' w)) (hne : t' ≠ t) : fromTaggedSlice t conv bs = .err .unexpectedItem := by
  unfold fromTaggedSlice
  rw [hv]
  simp [tryAsTag, hne]

/-- the six message conversions reject a tag item (so: untagged decoding rejects tagged input; a doubly tagged item is rejected). -/
theorem conversions_reject_tags (t : Nat) (w : Value) :
    CoseSign.fromValue (.tag t w) = .err .unexpectedItem ∧ CoseSign1.fromValue (.tag t w) = .err .unexpectedItem ∧
    CoseEncrypt.fromValue (.tag t w) = .err .unexpectedItem ∧ CoseEncrypt0.fromValue (.tag t w) = .err .unexpectedItem ∧
    CoseMac.fromValue (.tag t w) = .err .unexpectedItem ∧ CoseMac0.fromValue (.tag t w) = .err .unexpectedItem := by
  simp [CoseSign.fromValue, CoseSign1.fromValue, CoseEncrypt.fromValue, CoseEncrypt0.fromValue, CoseMac.fromValue, CoseMac0.fromValue,
    tryAsArray, typeError]

theorem untagged_rejects_tagged {α : Type} (conv : Value → Res α) (hconv : ∀ t w, conv (.tag t w) = .err .unexpectedItem)
    (bs : Bytes) (t : Nat) (w : Value) (hv : readToValue bs = .ok (.tag t w)) : fromSlice conv bs = .err .unexpectedItem := by
  unfold fromSlice; rw [hv]; exact hconv t w

theorem double_tag_rejected {α : Type} (t : Nat) (conv : Value → Res α) (hconv : ∀ t w, conv (.tag t w) = .err .unexpectedItem)
    (bs : Bytes) (t2 : Nat) (w : Value) (hv : readToValue bs = .ok (.tag t (.tag t2 w))) :
    fromTaggedSlice t conv bs = .err .unexpectedItem := by
  unfold fromTaggedSlice; rw [hv]; simp [tryAsTag, hconv]

/-- whatever tagged decoding accepts is a tag item with the type's tag whose content the conversion accepts. -/
theorem decode_tagged_ok {α : Type} (t : Nat) (conv : Value → Res α) (bs : Bytes) (m : α)
    (h : fromTaggedSlice t conv bs = .ok m) : ∃ w, readToValue bs = .ok (.tag t w) ∧ conv w = .ok m := by
  unfold fromTaggedSlice at h
  cases hv : readToValue bs with
  | ok v =>
    simp only [hv] at h
    cases v with
    | tag t' w =>
      simp only [tryAsTag] at h
      by_cases ht : t' = t
      · subst ht; simp at h; exact ⟨w, rfl, h⟩
      · simp [ht] at h
    | _ => simp [tryAsTag, typeError] at h
  | err e => simp [hv] at h
  | panic p => simp [hv] at h


/-! ### the converse at byte level: whatever tagged decoding accepts *is* a head of the type's tag followed by an input the
    untagged decoder accepts with the same result -/

theorem beN_beVal : ∀ (n : Nat) (bs : Bytes), bs.length = n → beN n (beVal bs) = bs := by
  intro n
  induction n with
  | zero => intro bs h; have : bs = [] := List.eq_nil_of_length_eq_zero h; subst this; rfl
  | succ n ih =>
    intro bs h
    have hne : bs ≠ [] := by intro h0; subst h0; simp at h
    have hsplit := List.dropLast_concat_getLast hne
    rw [← hsplit, beVal_append_single]
    have hl : bs.dropLast.length = n := by simp [h]
    have hb := (bs.getLast hne).toNat_lt
    simp only [beN]
    have h1 : (beVal bs.dropLast * 256 + (bs.getLast hne).toNat) / 256 = beVal bs.dropLast := by omega
    have h2 : UInt8.ofNat (beVal bs.dropLast * 256 + (bs.getLast hne).toNat) = bs.getLast hne := by
      apply UInt8.toNat_inj.mp
      simp only [UInt8.toNat_ofNat']; omega
    rw [h1, h2, ih _ hl]

theorem byte_of_parts (b : UInt8) (m k : Nat) (h1 : b.toNat / 32 = m) (h2 : b.toNat % 32 = k) : b = UInt8.ofNat (m * 32 + k) := by
  apply UInt8.toNat_inj.mp
  have := b.toNat_lt
  simp only [UInt8.toNat_ofNat']; omega

/-- a tag head read by `pull` is one of the five well-formed heads of that tag number, and the rest follows it. -/
theorem pull_tag_inv (bs rest : Bytes) (t : Nat) (h : pull bs = some (.tag t, rest)) : ∃ hd, TagHead t hd ∧ bs = hd ++ rest := by
  cases bs with
  | nil => simp [pull] at h
  | cons b rest0 =>
    simp only [pull] at h
    cases ha : pullArg (b.toNat % 32) rest0 with
    | none => simp [ha] at h
    | some p =>
      obtain ⟨arg, r⟩ := p
      simp only [ha] at h
      have hmaj : b.toNat / 32 = 6 ∧ ∃ w, arg = some (t, w) ∧ r = rest := by
        repeat' split at h
        all_goals first
          | (simp at h; done)
          | (simp at h; obtain ⟨h1, h2⟩ := h; subst h1; subst h2; simp_all; done)
      obtain ⟨h6, w, rfl, rfl⟩ := hmaj
      unfold pullArg at ha
      have wide : ∀ k minor, b.toNat % 32 = minor → ¬ rest0.length < k → k ≤ 8 →
          (b :: rest0 = (UInt8.ofNat (6 * 32 + minor) :: beN k (beVal (rest0.take k))) ++ rest0.drop k) ∧ beVal (rest0.take k) < 256 ^ k := by
        intro k minor hm hl hk
        have hlen : (rest0.take k).length = k := by simp only [List.length_take]; omega
        refine ⟨?_, by have := beVal_lt (rest0.take k); rw [hlen] at this; exact this⟩
        rw [beN_beVal k _ hlen, ← byte_of_parts b 6 minor h6 hm]
        simp
      split at ha
      · next hlt =>
        simp at ha; obtain ⟨⟨rfl, -⟩, rfl⟩ := ha
        exact ⟨_, TagHead.tiny hlt, by rw [← byte_of_parts b 6 _ h6 rfl]; rfl⟩
      · split at ha
        · next h24 =>
          split at ha
          · simp at ha
          · next hl =>
            simp at ha; obtain ⟨⟨rfl, -⟩, rfl⟩ := ha
            obtain ⟨e, hb⟩ := wide 1 24 h24 hl (by omega)
            exact ⟨_, TagHead.w1 (by omega), by simpa using e⟩
        · split at ha
          · next h25 =>
            split at ha
            · simp at ha
            · next hl =>
              simp at ha; obtain ⟨⟨rfl, -⟩, rfl⟩ := ha
              obtain ⟨e, hb⟩ := wide 2 25 h25 hl (by omega)
              exact ⟨_, TagHead.w2 (by omega), e⟩
          · split at ha
            · next h26 =>
              split at ha
              · simp at ha
              · next hl =>
                simp at ha; obtain ⟨⟨rfl, -⟩, rfl⟩ := ha
                obtain ⟨e, hb⟩ := wide 4 26 h26 hl (by omega)
                exact ⟨_, TagHead.w4 (by omega), e⟩
            · split at ha
              · next h27 =>
                split at ha
                · simp at ha
                · next hl =>
                  simp at ha; obtain ⟨⟨rfl, -⟩, rfl⟩ := ha
                  obtain ⟨e, hb⟩ := wide 8 27 h27 hl (by omega)
                  exact ⟨_, TagHead.w8 (by omega), e⟩
              · split at ha <;> simp at ha

/-- C14 (decode, converse direction), for a tag that is not a bignum tag: an input the tagged decoder accepts consists of a head of
    exactly that tag number (in one of its five widths) followed by an input that the *untagged* decoder accepts with the same value. -/
theorem decode_tagged_converse {α : Type} (t : Nat) (h2 : t ≠ 2) (h3 : t ≠ 3) (conv : Value → Res α) (bs : Bytes) (m : α)
    (h : fromTaggedSlice t conv bs = .ok m) : ∃ hd body, bs = hd ++ body ∧ TagHead t hd ∧ fromSlice conv body = .ok m := by
  obtain ⟨w, hr, hc⟩ := decode_tagged_ok t conv bs m h
  -- open the parser by one step
  unfold readToValue fromReader at hr
  cases hp : parse (fuelFor bs) recursionLimit bs with
  | ok p =>
    obtain ⟨v, r⟩ := p
    simp only [hp] at hr
    split at hr
    · next hemp =>
      simp at hr; subst hr
      have hr0 : r = [] := by simpa using hemp
      subst hr0
      obtain ⟨f, hf⟩ : ∃ f, fuelFor bs = f + 1 := ⟨fuelFor bs - 1, by unfold fuelFor; omega⟩
      rw [hf, parse] at hp
      cases hpl : pull bs with
      | none => simp [hpl] at hp
      | some q =>
        obtain ⟨hd, rest⟩ := q
        simp only [hpl] at hp
        cases hd with
        | tag t' =>
          simp only [] at hp
          cases hpk : (if t' = 2 ∨ t' = 3 then smallBytesPeek rest else none) with
          | some q2 =>
            -- a folded bignum: the result would be an integer or a tag 2/3, never tag t
            obtain ⟨len, rest2⟩ := q2
            have h23 : t' = 2 ∨ t' = 3 := by
              by_cases hh : t' = 2 ∨ t' = 3
              · exact hh
              · simp [hh] at hpk
            simp only [hpk] at hp
            split at hp
            · simp at hp
            · split at hp
              · next ht2 =>
                simp at hp
                unfold fromU128 at hp
                split at hp
                · simp at hp
                · simp at hp; exact absurd hp.1.1.symm h2
              · cases hfn : fromNegU128 (beVal (rest2.take len)) with
                | none => simp [hfn] at hp
                | some x =>
                  simp [hfn] at hp
                  unfold fromNegU128 at hfn
                  split at hfn
                  · simp at hfn
                  · split at hfn
                    · simp at hfn; rw [← hfn] at hp; simp at hp
                    · simp at hfn; rw [← hfn] at hp; simp at hp; exact absurd hp.1.1.symm h3
          | none =>
            simp only [hpk] at hp
            split at hp
            · simp at hp
            · cases hin : parse f (recursionLimit - 1) rest with
              | ok q3 =>
                obtain ⟨x, r'⟩ := q3
                simp [hin] at hp
                obtain ⟨⟨rfl, rfl⟩, rfl⟩ := hp
                obtain ⟨hdb, hth, hbs⟩ := pull_tag_inv bs rest t' hpl
                refine ⟨hdb, rest, hbs, hth, ?_⟩
                -- the body parses to `x` at the entry point's fuel and full budget
                have hl := pull_length _ _ _ hpl
                have hbig : parse f recursionLimit rest = .ok (x, []) := by
                  have := parse_append f f (recursionLimit - 1) recursionLimit rest [] x [] hin (Nat.le_refl _) (by omega)
                  simpa using this
                have hfr : fromReader rest = .ok (x, []) := by
                  rw [fromReader_eq_parse rest f (by unfold fuelFor at hf; omega)]; exact hbig
                simp [fromSlice, readToValue, hfr, hc]
              | err => simp [hin] at hp
              | oof => simp [hin] at hp
        | pos n => simp at hp
        | neg n => simp at hp
        | bytes len =>
          cases len with
          | some n => simp only [] at hp; split at hp <;> simp at hp
          | none => simp only [] at hp; split at hp <;> simp at hp
        | text len =>
          cases len with
          | some n => simp only [] at hp; split at hp <;> (try split at hp) <;> simp at hp
          | none => simp only [] at hp; split at hp <;> simp at hp
        | array len =>
          cases len with
          | some n => simp only [] at hp; split at hp <;> (try split at hp) <;> simp at hp
          | none => simp only [] at hp; split at hp <;> (try split at hp) <;> simp at hp
        | map len =>
          cases len with
          | some n => simp only [] at hp; split at hp <;> (try split at hp) <;> simp at hp
          | none => simp only [] at hp; split at hp <;> (try split at hp) <;> simp at hp
        | float b => simp at hp
        | simple n => simp only [] at hp; repeat' split at hp
                      all_goals simp at hp
        | brk => simp at hp
    · simp at hr
  | err => simp [hp] at hr
  | oof => simp [hp] at hr

/-- both directions together, for the six registered tags: tagged decoding accepts `bs` with value `m` iff `bs` is a head of the
    type's tag followed by an input of nesting depth at most 255 that the untagged decoder accepts with value `m`. (The depth side
    condition in the "if" direction is where the known finding D4 lives.) -/
theorem decode_tagged_iff_partial {α : Type} (t : Nat) (h2 : t ≠ 2) (h3 : t ≠ 3) (conv : Value → Res α) (bs : Bytes) (m : α) :
    (∃ hd body v, bs = hd ++ body ∧ TagHead t hd ∧ parse (fuelFor body) (recursionLimit - 1) body = .ok (v, []) ∧ conv v = .ok m) →
      fromTaggedSlice t conv bs = .ok m := by
  rintro ⟨hd, body, v, rfl, hth, hpb, hc⟩
  rw [(decode_tagged_eq_untagged t conv hd body v hth h2 h3 hpb).1, hc]

/-- non-vacuity: `d2 84 40 a0 f6 40` is a tagged COSE_Sign1; with tag 17 it is rejected; untagged decoding rejects it too. -/
example : (fromTaggedSlice Gen.TAG_CoseSign1 CoseSign1.fromValue [0xd2, 0x84, 0x40, 0xa0, 0xf6, 0x40]).isOk = true := by decide +kernel
example : (fromTaggedSlice Gen.TAG_CoseMac0 CoseMac0.fromValue [0xd2, 0x84, 0x40, 0xa0, 0xf6, 0x40]).isOk = false := by decide +kernel
example : (fromSlice CoseSign1.fromValue [0xd2, 0x84, 0x40, 0xa0, 0xf6, 0x40]).isOk = false := by decide +kernel
example : TagHead 18 [0xd8, 0x12] := TagHead.w1 (by decide)


#print axioms tags
#print axioms tags_distinct
#print axioms encode
#print axioms pull_tagHead
#print axioms readToValue_tagged
#print axioms decode_tagged_eq_untagged
#print axioms rejects_untagged
#print axioms rejects_other_tag
#print axioms conversions_reject_tags
#print axioms untagged_rejects_tagged
#print axioms double_tag_rejected
#print axioms decode_tagged_ok
#print axioms pull_tag_inv
#print axioms decode_tagged_converse
#print axioms decode_tagged_iff_partial

end Coset.Props.C14
