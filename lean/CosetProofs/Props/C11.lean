import CosetModel.Api
namespace Coset.Props.C11

end Coset.Props.C11
